/-
  G10 — coherence between the model slices.

  Several Go functions are modelled twice: once in the evaluator-side model (`Eval.lean`, `Core.lean`,
  `Read.lean`) and once in a later slice that mirrors one Go package (`EnvAlg.lean`, `TyCtor.lean`,
  `Position.lean`, `LispError.lean`).  This file proves that the two models of the same Go function AGREE
  (under an explicit embedding of the slice's values into `LispModel.Val`), and pins down, with `decide` /
  `rfl` examples, every input on which they do not.

  1. parameter binder      `LispModel.bindParams`        vs `EnvAlg.bindData`
  2. scoped lookup         `State.get` / `State.set`     vs `EnvAlg.get` / `EnvAlg.set`
  3. constructors / preds  `Core.body`, `Read.newHashMap` vs `TyCtor.newHashMap`, `newSet`, `nilQ`, `q`, …
  4. positions             `Read.closePos`, `newLispError` vs `Position.close`, `LispError.newLispError`
  Core Lean only.
-/
import LispModel.Proofs.EvalLaws
import LispModel.Proofs.EnvAlgLaws
import LispModel.Proofs.TyCtorLaws
import LispModel.Proofs.PositionLaws
import LispModel.Proofs.LispErrorLaws
import LispModel.Read
set_option linter.unusedSimpArgs false
namespace LispModel.Coherence
open LispModel

/-! ## 1. the parameter binder -/

namespace Binder
open LispModel.EnvAlg (V Data dget dset derase)

mutual
/-- the embedding `EnvAlg.V ↪ Val`: same constructor, no reader cursor -/
def emb : V → Val
  | .nil => .nil
  | .int i => .int i
  | .str s => .str s
  | .sym s => .sym s none
  | .list xs => .list (embList xs) none
  | .vec xs => .vec (embList xs) none
def embList : List V → List Val
  | [] => []
  | x :: r => emb x :: embList r
end

theorem embList_eq_map : ∀ xs : List V, embList xs = xs.map emb
  | [] => rfl
  | x :: r => by rw [embList, embList_eq_map r]; rfl

theorem emb_list (xs : List V) : emb (.list xs) = .list (xs.map emb) none := by
  rw [emb, embList_eq_map]

theorem emb_vec (xs : List V) : emb (.vec xs) = .vec (xs.map emb) none := by
  rw [emb, embList_eq_map]

/-- the two maps of one scope hold the same bindings: `EnvAlg` keeps the newest binding first and erases the
    old one (`dset`), the evaluator overwrites in place or appends (`ainsert`) — the order differs, what a
    name is bound to does not -/
def Sim (f : V → Val) (d : Data) (acc : List (String × Val)) : Prop :=
  ∀ k, alookup k acc = (dget k d).map f

theorem sim_nil (f : V → Val) : Sim f [] [] := fun _ => rfl

theorem sim_set {f : V → Val} {d : Data} {acc : List (String × Val)} (h : Sim f d acc) (k : String) (v : V) :
    Sim f (dset k v d) (ainsert k (f v) acc) := by
  intro k'
  by_cases hk : k' = k
  · subst hk
    rw [Proofs.EvalLaws.alookup_ainsert_self, EnvAlg.dget_dset_same]; rfl
  · rw [Proofs.EvalLaws.alookup_ainsert_ne hk, EnvAlg.dget_dset_other hk]; exact h k'

/-- two parameter-list elements the binders cannot tell apart: the same symbol (whatever its cursor), or two
    values neither of which is a symbol -/
inductive ParamRel : V → Val → Prop
  | sym (s : String) (p : Option Pos) : ParamRel (.sym s) (.sym s p)
  | other {b : V} {v : Val} : (∀ s, b ≠ .sym s) → (∀ s p, v ≠ .sym s p) → ParamRel b v

theorem paramRel_emb : ∀ b : V, ParamRel b (emb b)
  | .sym s => by rw [emb]; exact .sym s none
  | .nil => .other (fun _ h => by cases h) (fun _ _ h => by simp [emb] at h)
  | .int _ => .other (fun _ h => by cases h) (fun _ _ h => by simp [emb] at h)
  | .str _ => .other (fun _ h => by cases h) (fun _ _ h => by simp [emb] at h)
  | .list _ => .other (fun _ h => by cases h) (fun _ _ h => by simp [emb] at h)
  | .vec _ => .other (fun _ h => by cases h) (fun _ _ h => by simp [emb] at h)

/-- element-wise `ParamRel` -/
inductive ParamsRel : List V → List Val → Prop
  | nil : ParamsRel [] []
  | cons {b : V} {v : Val} {bs : List V} {vs : List Val} : ParamRel b v → ParamsRel bs vs → ParamsRel (b :: bs) (v :: vs)

theorem paramsRel_emb : ∀ bs : List V, ParamsRel bs (bs.map emb)
  | [] => .nil
  | b :: r => .cons (paramRel_emb b) (paramsRel_emb r)

/-- the evaluator model's error object for each error class of `env.go`'s binder (same two counts; the `%T` of
    `notSym` is not kept by the evaluator model, whose message is a class label) -/
def render : EnvAlg.Err → LispModel.Err
  | .tooFew nb ne => .lisp (.goerr s!"too few arguments passed ({nb} binds, {ne} arguments passed)") none
  | .tooMany nb ne => .lisp (.goerr s!"too many arguments passed ({nb} binds, {ne} arguments passed)") none
  | .danglingAmp => .lisp (.goerr "'&' must be followed by a parameter name") none
  | .notSym _ => .lisp (.goerr "cannot use value as parameter name") none
  | .nonSeq => .plain "GetSlice called on non-sequence"
  | .notFound k => .plain ("symbol '" ++ k ++ "' not found")
  | .cb m => .plain m

/-- agreement of two binder outcomes: both succeed with the same bindings, or both fail with the same error
    (class, counts, `LispError` or plain); a `panic` of the slice agrees with nothing -/
def Agree (f : V → Val) : EnvAlg.Res Data → Except LispModel.Err (List (String × Val)) → Prop
  | .ok d, .ok acc => Sim f d acc
  | .err e, .error e' => e' = render e
  | _, _ => False

theorem drop_map_isEmpty (f : V → Val) (exprs : List V) (i : Nat) (hi : i ≤ exprs.length) :
    ((exprs.drop i).map f).isEmpty = true ↔ exprs.length = i := by
  rw [List.isEmpty_iff, List.map_eq_nil_iff, List.drop_eq_nil_iff]; omega

/-- the two loops, started in corresponding states (`i` arguments consumed, the same bindings so far), agree -/
theorem bindLoop_agree (f : V → Val) (hf : ∀ xs, f (.list xs) = .list (xs.map f) none) (nb : Nat) (exprs : List V)
    {rest : List V} {rest' : List Val} (hr : ParamsRel rest rest') :
    ∀ (i : Nat) (d : Data) (acc : List (String × Val)), i ≤ exprs.length → Sim f d acc →
      Agree f (EnvAlg.bindLoop nb exprs i rest d)
        (LispModel.bindLoop rest' ((exprs.drop i).map f) nb exprs.length acc) := by
  induction hr with
  | nil =>
    intro i d acc hi hs
    rw [LispModel.bindLoop.eq_1]
    have he := drop_map_isEmpty f exprs i hi
    by_cases h : exprs.length = i
    · rw [if_pos (he.mpr h)]; simp only [EnvAlg.bindLoop, h, ne_eq, not_true_eq_false, if_false]; exact hs
    · rw [if_neg (fun x => h (he.mp x))]; simp only [EnvAlg.bindLoop, h, ne_eq, not_false_eq_true, if_true]
      rfl
  | @cons b v bs vs hb hbs ih =>
    intro i d acc hi hs
    cases hb with
    | sym s p =>
      by_cases hamp : s = "&"
      · subst hamp
        cases hbs with
        | nil =>
          rw [LispModel.bindLoop.eq_3 _ _ _ _ _ _ (fun _ _ _ h => by cases h)]
          simp only [EnvAlg.bindLoop, if_true]; rfl
        | @cons b2 v2 bs2 vs2 hb2 _ =>
          cases hb2 with
          | sym r q =>
            rw [LispModel.bindLoop.eq_2]
            have : ¬ exprs.length < i := Nat.not_lt.mpr hi
            simp only [EnvAlg.bindLoop, if_true, this, if_false]
            have := sim_set hs r (.list (exprs.drop i))
            rw [hf] at this
            exact this
          | other h1 h2 =>
            rw [LispModel.bindLoop.eq_3 _ _ _ _ _ _ (fun n q t h => by injection h with h _; exact h2 _ _ h)]
            cases b2 <;> first | (exact absurd rfl (h1 _)) | (simp only [EnvAlg.bindLoop, if_true]; rfl)
      · by_cases he : i = exprs.length
        · subst he
          rw [List.drop_length, List.map_nil, LispModel.bindLoop.eq_4 _ _ _ _ _ _ hamp]
          simp only [EnvAlg.bindLoop, hamp, if_false, if_true]; rfl
        · have hlt : i < exprs.length := Nat.lt_of_le_of_ne hi he
          have hget : exprs[i]? = some exprs[i] := List.getElem?_eq_getElem hlt
          have hdrop : exprs.drop i = exprs[i] :: exprs.drop (i + 1) := List.drop_eq_getElem_cons hlt
          rw [hdrop, List.map_cons, LispModel.bindLoop.eq_5 _ _ _ _ _ _ _ _ hamp]
          simp only [EnvAlg.bindLoop, hamp, he, if_false, hget]
          exact ih (i + 1) _ _ hlt (sim_set hs s exprs[i])
    | other h1 h2 =>
      rw [LispModel.bindLoop.eq_6 _ _ _ _ _ _ (fun p h => h2 _ p h) (fun n p h => h2 n p h)]
      cases b <;> first | (exact absurd rfl (h1 _)) | (simp only [EnvAlg.bindLoop]; rfl)

theorem paramsRel_length {bs : List V} {vs : List Val} (h : ParamsRel bs vs) : bs.length = vs.length := by
  induction h with
  | nil => rfl
  | cons _ _ ih => simp [ih]

/-! what `Agree` gives -/

theorem agree_success_iff {f : V → Val} {r : EnvAlg.Res Data} {r' : Except LispModel.Err (List (String × Val))}
    (h : Agree f r r') : (∃ d, r = .ok d) ↔ (∃ acc, r' = .ok acc) := by
  cases r <;> cases r' <;> simp_all [Agree]

theorem agree_bindings {f : V → Val} {r : EnvAlg.Res Data} {r' : Except LispModel.Err (List (String × Val))}
    (h : Agree f r r') {d : Data} {acc : List (String × Val)} (h1 : r = .ok d) (h2 : r' = .ok acc) : Sim f d acc := by
  subst h1; subst h2; exact h

theorem agree_error {f : V → Val} {r : EnvAlg.Res Data} {r' : Except LispModel.Err (List (String × Val))}
    (h : Agree f r r') {e : EnvAlg.Err} (h1 : r = .err e) : r' = .error (render e) := by
  subst h1
  cases r' with
  | ok _ => exact h.elim
  | error e' => have : e' = render e := h; rw [this]

theorem agree_error_conv {f : V → Val} {r : EnvAlg.Res Data} {r' : Except LispModel.Err (List (String × Val))}
    (h : Agree f r r') {e' : LispModel.Err} (h2 : r' = .error e') : ∃ e, r = .err e ∧ e' = render e := by
  subst h2
  cases r with
  | ok _ => exact h.elim
  | err e => exact ⟨e, rfl, h⟩
  | panic _ => exact h.elim

theorem agree_no_panic {f : V → Val} {r : EnvAlg.Res Data} {r' : Except LispModel.Err (List (String × Val))}
    (h : Agree f r r') (s : String) : r ≠ .panic s := by
  intro hp; subst hp; cases r' <;> exact h

/-- GENERAL FORM.  For every argument embedding `f` that maps a list to the list of the images, every parameter
    list (`List` or `Vector`, any cursors) whose elements are related to `binds` element-wise, and every argument
    list: `_newSubordinateEnvWithBinds` as modelled by `EnvAlg.bindData` and as modelled by the evaluator's
    `bindParams` agree (same success, same bindings, same error) -/
theorem binder_agrees_seq (f : V → Val) (hf : ∀ xs, f (.list xs) = .list (xs.map f) none)
    {binds : List V} {binds' : List Val} (hr : ParamsRel binds binds') (exprs : List V) (p : Option Pos) :
    Agree f (EnvAlg.bindData (.list binds) (.list exprs)) (bindParams (.list binds' p) (exprs.map f)) ∧
    Agree f (EnvAlg.bindData (.vec binds) (.list exprs)) (bindParams (.vec binds' p) (exprs.map f)) := by
  have h := bindLoop_agree f hf binds.length exprs hr 0 [] [] (Nat.zero_le _) (sim_nil f)
  rw [List.drop_zero, paramsRel_length hr] at h
  have hl : (exprs.map f).length = exprs.length := List.length_map ..
  constructor
  · simpa only [EnvAlg.bindData, EnvAlg.V.isNil, EnvAlg.getSlice, bindParams, hl, Bool.false_or, Bool.false_eq_true,
      if_false, paramsRel_length hr] using h
  · simpa only [EnvAlg.bindData, EnvAlg.V.isNil, EnvAlg.getSlice, bindParams, hl, Bool.false_or, Bool.false_eq_true,
      if_false, paramsRel_length hr] using h

/-- the same for the two loops proper: `EnvAlg.bindSeq` (the slice after the nil test and the two `GetSlice`) and
    the evaluator's `bindLoop` started with the two lengths -/
theorem bindSeq_agrees (f : V → Val) (hf : ∀ xs, f (.list xs) = .list (xs.map f) none)
    {binds : List V} {binds' : List Val} (hr : ParamsRel binds binds') (exprs : List V) :
    Agree f (EnvAlg.bindSeq binds exprs) (LispModel.bindLoop binds' (exprs.map f) binds'.length exprs.length []) := by
  have h := bindLoop_agree f hf binds.length exprs hr 0 [] [] (Nat.zero_le _) (sim_nil f)
  rw [List.drop_zero] at h
  rw [← paramsRel_length hr]
  exact h

/-- the same on the image of the embedding, for EVERY parameter value (nil, a sequence, anything else) -/
theorem binder_agrees (bm : V) (exprs : List V) :
    Agree emb (EnvAlg.bindData bm (.list exprs)) (bindParams (emb bm) (exprs.map emb)) := by
  cases bm with
  | nil => exact sim_nil emb
  | int i => rfl
  | str s => rfl
  | sym s => rfl
  | list bs => rw [emb_list]; exact (binder_agrees_seq emb emb_list (paramsRel_emb bs) exprs none).1
  | vec bs => rw [emb_vec]; exact (binder_agrees_seq emb emb_list (paramsRel_emb bs) exprs none).2

/-- `binder_success_iff`: the slice's binder succeeds iff the evaluator's does -/
theorem binder_success_iff (bm : V) (exprs : List V) :
    (∃ d, EnvAlg.bindData bm (.list exprs) = .ok d) ↔ (∃ acc, bindParams (emb bm) (exprs.map emb) = .ok acc) :=
  agree_success_iff (binder_agrees bm exprs)

/-- `binder_bindings_agree`: on success the new scope binds every name to the same value in both models (the
    association lists differ only in order: `dset` puts the newest binding first, `ainsert` overwrites in place) -/
theorem binder_bindings_agree {bm : V} {exprs : List V} {d : Data} {acc : List (String × Val)}
    (h1 : EnvAlg.bindData bm (.list exprs) = .ok d) (h2 : bindParams (emb bm) (exprs.map emb) = .ok acc) (k : String) :
    alookup k acc = (dget k d).map emb :=
  agree_bindings (binder_agrees bm exprs) h1 h2 k

/-- `binder_error_class_agrees`: on failure the evaluator's error is the rendering of the slice's error class —
    too few / too many (with both counts), not a symbol, dangling `&` as a `LispError` without position,
    non-sequence as a plain error — and conversely; and the slice never panics -/
theorem binder_error_class_agrees (bm : V) (exprs : List V) :
    (∀ e, EnvAlg.bindData bm (.list exprs) = .err e → bindParams (emb bm) (exprs.map emb) = .error (render e)) ∧
    (∀ e', bindParams (emb bm) (exprs.map emb) = .error e' →
        ∃ e, EnvAlg.bindData bm (.list exprs) = .err e ∧ e' = render e) ∧
    (∀ s, EnvAlg.bindData bm (.list exprs) ≠ .panic s) :=
  ⟨fun _ h => agree_error (binder_agrees bm exprs) h, fun _ h => agree_error_conv (binder_agrees bm exprs) h,
   agree_no_panic (binder_agrees bm exprs)⟩

/-! examples: the order of the association lists differs, the bindings do not; a later duplicate wins in both;
    the nil-`exprs` short-cut of env.go (nothing bound, NOTHING checked) lies outside the image of the embedding —
    the evaluator always passes a `List` of arguments, for which both models check the count -/
example : EnvAlg.bindData (.list [.sym "a", .sym "b"]) (.list [.int 1, .int 2]) = .ok [("b", .int 2), ("a", .int 1)] := rfl
example : bindParams (emb (.list [.sym "a", .sym "b"])) ([.int 1, .int 2].map emb) = .ok [("a", .int 1), ("b", .int 2)] := rfl
example : EnvAlg.bindData (.list [.sym "a", .sym "a"]) (.list [.int 1, .int 2]) = .ok [("a", .int 2)] := rfl
example : bindParams (emb (.list [.sym "a", .sym "a"])) ([.int 1, .int 2].map emb) = .ok [("a", .int 2)] := rfl
example : EnvAlg.bindData (.list [.sym "a"]) .nil = .ok [] := rfl
example : EnvAlg.bindData (.list [.sym "a"]) (.list []) = .err (.tooFew 1 0) := rfl
example : ∃ m, bindParams (emb (.list [.sym "a"])) [] = .error (.lisp (.goerr m) none) := ⟨_, rfl⟩

end Binder
/-! ## 3. constructors and predicates of `types/types.go` -/

namespace Ctor
open LispModel.TyCtor (TVal MalFn)

mutual
/-- the embedding `TyCtor.TVal → Val`: the `Meta` fields and the nil-ness of func fields are forgotten, a nil Go
    map of a `Set` is the empty set, a foreign Go value is `opaque` with its `%T` text -/
def temb : TVal → Val
  | .nil => .nil
  | .bool b => .bool b
  | .int i => .int i
  | .str s => .str s
  | .sym s => .sym s none
  | .list xs _ cur => .list (tembList xs) cur
  | .vec xs _ cur => .vec (tembList xs) cur
  | .map kvs _ => .map (tembKVs kvs)
  | .set ks _ => .set (TyCtor.setKeys ks)
  | .fn ⟨_, _, isMacro, env, params, exp, _, cur⟩ => .fn (temb params) (temb exp) env isMacro cur
  | .builtin f _ => .builtin (match f with | some id => toString id | none => "")
  | .rawfn _ => .opaque "func([]types.MalType) (types.MalType, error)"
  | .other ty _ => .opaque ty
def tembList : List TVal → List Val
  | [] => []
  | x :: r => temb x :: tembList r
def tembKVs : List (String × TVal) → List (String × Val)
  | [] => []
  | (k, v) :: r => (k, temb v) :: tembKVs r
end

theorem tembList_eq_map : ∀ xs : List TVal, tembList xs = xs.map temb
  | [] => rfl
  | x :: r => by rw [tembList, tembList_eq_map r]; rfl

theorem tembKVs_eq_map : ∀ m : List (String × TVal), tembKVs m = m.map (fun kv => (kv.1, temb kv.2))
  | [] => rfl
  | (k, v) :: r => by rw [tembKVs, tembKVs_eq_map r]; rfl

theorem tembKVs_ainsert (k : String) (v : TVal) : ∀ m : List (String × TVal),
    tembKVs (ainsert k v m) = ainsert k (temb v) (tembKVs m)
  | [] => rfl
  | (k', v') :: r => by
    by_cases h : k' = k
    · simp [ainsert, tembKVs, h]
    · simp [ainsert, tembKVs, h, tembKVs_ainsert k v r]

/-- only a Go string embeds to a `str` -/
theorem temb_eq_str {x : TVal} {k : String} (h : temb x = .str k) : x = .str k := by
  cases x <;> simp [temb] at h
  · exact congrArg _ h

/-- the evaluator model's message (a class label: the `%T` detail of the Go text is not kept) for each error
    site of types.go -/
def errText : TyCtor.Err → String
  | .notSeq => "GetSlice called on non-sequence"
  | .oddArgs => "odd number of arguments to NewHashMap"
  | .badKey _ => "expected hash-map key string"
  | .badSetItem => "set items must be strings or keywords"
  | .convFrom _ => "cannot convert from type"
  | .convTo _ => "cannot convert to type"
  | .badApply _ => "invalid function to Apply"
  | .callee t => t

/-- agreement of a `types.go` outcome with the outcome of the builtin in `Core.lean`: the same value (embedded), or
    the same error class; a panic of the slice, or a `throw`, agrees with nothing -/
def BAgree : TyCtor.Out TVal → Core.BRes → Prop
  | .ok v, .ok v' => v' = temb v
  | .err e, .goerr m => m = errText e
  | _, _ => False

/-- the loop of `NewHashMap` on a slice of EVEN length (the only ones it is run on) -/
theorem hmLoop_core : ∀ (xs : List TVal) (m : List (String × TVal)), xs.length % 2 = 0 →
    BAgree ((TyCtor.hmLoop xs m).map fun m => .map m .nil) (Core.newHashMapLoop (tembList xs) (tembKVs m))
  | [], m, _ => rfl
  | [x], m, h => by simp at h
  | x :: y :: r, m, h => by
    have hr : r.length % 2 = 0 := by simp only [List.length_cons] at h; omega
    cases x with
    | str k =>
      simp only [TyCtor.hmLoop, tembList, temb, Core.newHashMapLoop]
      rw [← tembKVs_ainsert]; exact hmLoop_core r _ hr
    | _ => simp [TyCtor.hmLoop, tembList, temb, Core.newHashMapLoop, TyCtor.Out.map, TyCtor.Out.bind, BAgree, errText]

/-- the loop of `NewSet` -/
theorem setLoop_core : ∀ (xs : List TVal) (m : List String),
    BAgree ((TyCtor.setLoop xs m).map fun m => .set (some m) .nil) (Core.newSet (tembList xs) m)
  | [], m => rfl
  | x :: r, m => by
    cases x with
    | str k => simp only [TyCtor.setLoop, tembList, temb, Core.newSet]; exact setLoop_core r _
    | _ => simp [TyCtor.setLoop, tembList, temb, Core.newSet, TyCtor.Out.map, TyCtor.Out.bind, BAgree, errText]

theorem length_tembList (xs : List TVal) : (tembList xs).length = xs.length := by
  rw [tembList_eq_map, List.length_map]

/-- `NewHashMap(List{a})` as `Core.newHashMap` models it and as `TyCtor.newHashMap` does: the same map (the
    `Meta` and cursor of the argument list play no role), the same error class -/
theorem newHashMap_core (xs : List TVal) (md : TVal) (cur : Option Pos) :
    BAgree (TyCtor.newHashMap (.list xs md cur)) (Core.newHashMap (tembList xs)) := by
  unfold TyCtor.newHashMap Core.newHashMap
  simp only [TyCtor.getSlice, TyCtor.Out.bind, length_tembList]
  by_cases h : xs.length % 2 = 1
  · simp only [h, if_true]; rfl
  · simp only [h, if_false]
    exact hmLoop_core xs [] (by omega)

/-- `constructors_agree`, the builtins.  `(hash-map a…)` with other than exactly one argument is
    `NewHashMap(List{a})`; `(hash-set a…)` is `NewSet(List{a})`; `(set v)` is `NewSet(v)` for EVERY value `v`
    (nil gives the zero `Set{}` whose nil Go map the evaluator model shows as the empty set) -/
theorem constructors_agree :
    (∀ (xs : List TVal) (md : TVal) (cur : Option Pos), xs.length ≠ 1 →
        BAgree (TyCtor.newHashMap (.list xs md cur)) (Core.body "hash-map" (xs.map temb))) ∧
    (∀ (xs : List TVal) (md : TVal) (cur : Option Pos),
        BAgree (TyCtor.newSet (.list xs md cur)) (Core.body "hash-set" (xs.map temb))) ∧
    (∀ v : TVal, BAgree (TyCtor.newSet v) (Core.body "set" [temb v])) := by
  refine ⟨fun xs md cur hl => ?_, fun xs md cur => ?_, fun v => ?_⟩
  · rw [← tembList_eq_map]
    match xs, hl with
    | [], _ => rfl
    | [_], hl => exact absurd rfl hl
    | a :: b :: r, _ =>
      have : Core.body "hash-map" (tembList (a :: b :: r)) = Core.newHashMap (tembList (a :: b :: r)) := rfl
      rw [this]; exact newHashMap_core _ md cur
  · rw [← tembList_eq_map]
    have : Core.body "hash-set" (tembList xs) = Core.newSet (tembList xs) [] := rfl
    rw [this]
    exact setLoop_core xs []
  · cases v with
    | list xs md cur =>
      have : Core.body "set" [temb (.list xs md cur)] = Core.newSet (tembList xs) [] := rfl
      rw [this]; exact setLoop_core xs []
    | vec xs md cur =>
      have : Core.body "set" [temb (.vec xs md cur)] = Core.newSet (tembList xs) [] := rfl
      rw [this]; exact setLoop_core xs []
    | fn f => cases f; rfl
    | builtin f md => cases f <;> rfl
    | _ => rfl

/-! the reader's `{…}` and `#{…}` (`Read.lean`) against the same two constructors -/

/-- the reader model's error class for the error sites of `NewHashMap` / `NewSet` -/
def readErr : TyCtor.Err → Read.RErr
  | .oddArgs => .oddmap
  | .badKey _ => .badkey
  | .badSetItem => .badsetitem
  | .notSeq => .extern "GetSlice"
  | _ => .extern "types"

/-- agreement with a reader-side constructor that returns the bare association list / key list -/
def RAgree {α : Type} (wrap : α → Val) : TyCtor.Out TVal → Except Read.RErr α → Prop
  | .ok v, .ok m => temb v = wrap m
  | .err e, .error e' => e' = readErr e
  | _, _ => False

theorem hmLoop_read : ∀ (xs : List TVal) (m : List (String × TVal)), xs.length % 2 = 0 →
    RAgree Val.map ((TyCtor.hmLoop xs m).map fun m => .map m .nil) (Read.newHashMapLoop (tembList xs) (tembKVs m))
  | [], m, _ => rfl
  | [x], m, h => by simp at h
  | x :: y :: r, m, h => by
    have hr : r.length % 2 = 0 := by simp only [List.length_cons] at h; omega
    cases x with
    | str k =>
      simp only [TyCtor.hmLoop, tembList, temb, Read.newHashMapLoop]
      rw [← tembKVs_ainsert]; exact hmLoop_read r _ hr
    | _ => simp [TyCtor.hmLoop, tembList, temb, Read.newHashMapLoop, TyCtor.Out.map, TyCtor.Out.bind, RAgree, readErr]

theorem setLoop_read : ∀ (xs : List TVal) (m : List String),
    RAgree Val.set ((TyCtor.setLoop xs m).map fun m => .set (some m) .nil) (Read.newSet (tembList xs) m)
  | [], m => rfl
  | x :: r, m => by
    cases x with
    | str k => simp only [TyCtor.setLoop, tembList, temb, Read.newSet]; exact setLoop_read r _
    | _ => simp [TyCtor.setLoop, tembList, temb, Read.newSet, TyCtor.Out.map, TyCtor.Out.bind, RAgree, readErr]

/-- `constructors_agree`, the reader: what `read_hash_map` / `read_set` build from the elements between the
    brackets is what `NewHashMap` / `NewSet` of the slice build from the list of them -/
theorem reader_constructors_agree (xs : List TVal) (md : TVal) (cur : Option Pos) :
    RAgree Val.map (TyCtor.newHashMap (.list xs md cur)) (Read.newHashMap (xs.map temb) []) ∧
    RAgree Val.set (TyCtor.newSet (.list xs md cur)) (Read.newSet (xs.map temb) []) := by
  rw [← tembList_eq_map]
  constructor
  · unfold TyCtor.newHashMap Read.newHashMap
    simp only [TyCtor.getSlice, TyCtor.Out.bind, length_tembList]
    by_cases h : xs.length % 2 = 1
    · simp only [h, if_true]; rfl
    · simp only [h, if_false]
      exact hmLoop_read xs [] (by omega)
  · exact setLoop_read xs []

/-! the loops in isolation differ on a slice of ODD length — which `NewHashMap` never hands them (the length
    test comes first, in Go and in all three models): the slice mirrors the Go loop (`lst[i].(string)` is tested
    before `lst[i+1]` is indexed, which would panic), `Core` / `Read` totalise their unreachable arm to the
    odd-length error -/
example : TyCtor.hmLoop [.int 1] [] = .err (.badKey "int") := rfl
example : TyCtor.hmLoop [.str "a"] [] = .panic .index "NewHashMap:lst[i+1]" := rfl
example : Core.newHashMapLoop [temb (.int 1)] [] = .goerr "odd number of arguments to NewHashMap" := rfl
example : Core.newHashMapLoop [temb (.str "a")] [] = .goerr "odd number of arguments to NewHashMap" := rfl
example : Read.newHashMapLoop [temb (.str "a")] [] = .error .oddmap := rfl
/-- `(hash-map x)` with ONE argument is not `NewHashMap` at all (core.go: `a[0].(marshaler.HashMap).MarshalHashMap()`) -/
example : TyCtor.newHashMap (.list [.int 1] .nil none) = .err .oddArgs := rfl
example : Core.body "hash-map" [temb (.int 1)] = .goerr "interface conversion" := rfl

/-! ### predicates -/

/-- `predicates_agree`: each type predicate of core.go, as `Core.body` computes it on the embedded value, is the
    predicate of types.go as the slice computes it — for EVERY value, with one exception: `sequential?` on a
    foreign Go value whose type NAME is `List` / `Vector` (see `sequential_differs`) -/
theorem predicates_agree (v : TVal) :
    Core.body "nil?" [temb v] = .ok (.bool (TyCtor.nilQ v)) ∧
    Core.body "true?" [temb v] = .ok (.bool (TyCtor.trueQ v)) ∧
    Core.body "false?" [temb v] = .ok (.bool (TyCtor.falseQ v)) ∧
    (∃ b, TyCtor.stringQ v = .ok b ∧ Core.body "string?" [temb v] = .ok (.bool b)) ∧
    (∃ b, TyCtor.keywordQ v = .ok b ∧ Core.body "keyword?" [temb v] = .ok (.bool b)) ∧
    Core.body "symbol?" [temb v] = .ok (.bool (TyCtor.q .symbol v)) ∧
    Core.body "list?" [temb v] = .ok (.bool (TyCtor.q .list v)) ∧
    Core.body "vector?" [temb v] = .ok (.bool (TyCtor.q .vector v)) ∧
    Core.body "map?" [temb v] = .ok (.bool (TyCtor.q .hashMap v)) ∧
    Core.body "set?" [temb v] = .ok (.bool (TyCtor.q .set v)) ∧
    Core.body "number?" [temb v] = .ok (.bool (TyCtor.q .int v)) ∧
    ((∀ ty n, v = .other ty n → n ≠ "List" ∧ n ≠ "Vector") →
      ∃ b, TyCtor.sequentialQ v = .ok b ∧ Core.body "sequential?" [temb v] = .ok (.bool b)) := by
  rw [TyCtor.stringQ_spec, TyCtor.keywordQ_spec]
  cases v with
  | bool b => cases b <;> exact ⟨rfl, rfl, rfl, ⟨_, rfl, rfl⟩, ⟨_, rfl, rfl⟩, rfl, rfl, rfl, rfl, rfl, rfl, fun _ => ⟨_, rfl, rfl⟩⟩
  | fn f => cases f; exact ⟨rfl, rfl, rfl, ⟨_, rfl, rfl⟩, ⟨_, rfl, rfl⟩, rfl, rfl, rfl, rfl, rfl, rfl, fun _ => ⟨_, rfl, rfl⟩⟩
  | builtin f md => cases f <;> exact ⟨rfl, rfl, rfl, ⟨_, rfl, rfl⟩, ⟨_, rfl, rfl⟩, rfl, rfl, rfl, rfl, rfl, rfl, fun _ => ⟨_, rfl, rfl⟩⟩
  | other ty n =>
    refine ⟨rfl, rfl, rfl, ⟨_, rfl, rfl⟩, ⟨_, rfl, rfl⟩, rfl, rfl, rfl, rfl, rfl, rfl, fun h => ?_⟩
    obtain ⟨h1, h2⟩ := h ty n rfl
    refine ⟨false, ?_, rfl⟩
    simp [TyCtor.sequentialQ, TyCtor.reflectName, h1, h2]
  | _ => exact ⟨rfl, rfl, rfl, ⟨_, rfl, rfl⟩, ⟨_, rfl, rfl⟩, rfl, rfl, rfl, rfl, rfl, rfl, fun _ => ⟨_, rfl, rfl⟩⟩

/-- THE DIFFERENCE: `Sequential_Q` goes by the NAME of the dynamic type, so a foreign Go value of a type called
    `List` (e.g. `container/list.List`) is `sequential?` for types.go / the slice, but not for `Core.body`, whose
    `opaque` values are never sequences.  (`GetSlice` rejects such a value in both models.) -/
theorem sequential_differs :
    TyCtor.sequentialQ (.other "list.List" "List") = .ok true ∧
    Core.body "sequential?" [temb (.other "list.List" "List")] = .ok (.bool false) := ⟨by decide, rfl⟩

end Ctor
/-! ## 4. positions -/

namespace Posn
open LispModel.Read (closePos tokPos Cfg)
open LispModel.Scan (Token)

/-- `close_agrees`: the reader model's `closePos` IS `(*Position).Close` of the slice on two non-nil pointers -/
theorem close_agrees (c h : Pos) : Position.close (some c) (some h) = .ok (closePos c h) := rfl

/-- … and those are the only arguments on which `Close` returns: the reader model totalises nothing away, it just
    never has a nil pointer in hand (its cursors are `Pos`, not `Option Pos`) -/
theorem close_ok_iff (c h : Option Pos) (r : Pos) :
    Position.close c h = .ok r ↔ ∃ c' h', c = some c' ∧ h = some h' ∧ r = closePos c' h' := by
  cases c <;> cases h <;> simp [Position.close, closePos, eq_comm]

/-- the reader's own use (`cursor := tok.Cursor.Copy()` … `cursor.Close(&closer.Cursor)` in `read_list` and the
    reader macros): the slice computes the cursor the reader model puts on the list / vector -/
theorem reader_close_agrees (cfg : Cfg) (t closer : Token) :
    Position.close (Position.copy (some (tokPos cfg t))) (some (tokPos cfg closer)) =
      .ok (closePos (tokPos cfg t) (tokPos cfg closer)) := by
  rw [Position.copy_eq]; rfl

/-- a reader-macro form (`'x`, `@x`, `^m x` …) is closed at its own first token: the cursor is the token's -/
theorem reader_macro_close_agrees (cfg : Cfg) (t : Token) :
    Position.close (Position.copy (some (tokPos cfg t))) (some (tokPos cfg t)) = .ok (tokPos cfg t) :=
  Position.close_self _

/-- `tokPos` against the constructors of positiontype.go: the token cursor of `tokenize` is the point cursor
    `NewAnonymousCursorHere(line, column)` / `NewCursorHere(module, line, column)` closed at the point
    `(line, column + offset)` -/
theorem tokPos_eq_close (cfg : Cfg) (t : Token) :
    Position.close
        (some (match cfg.module with
          | none => Position.newAnonymousCursorHere t.line t.column
          | some m => Position.newCursorHere m t.line t.column))
        (some (Position.newAnonymousCursorHere t.line (t.column + t.offset))) = .ok (tokPos cfg t) := by
  cases h : cfg.module <;> simp [Position.close, Position.newAnonymousCursorHere, Position.newCursorHere, tokPos, h]

/-- at byte offset 0 the token cursor is the constructor's value itself -/
theorem tokPos_eq_ctor (cfg : Cfg) (t : Token) (h0 : t.offset = 0) :
    tokPos cfg t = (match cfg.module with
      | none => Position.newAnonymousCursorHere t.line t.column
      | some m => Position.newCursorHere m t.line t.column) := by
  cases h : cfg.module <;> simp [Position.newAnonymousCursorHere, Position.newCursorHere, tokPos, h, h0]

/-- the cursor `Read_str` starts from (`NewAnonymousCursorHere(1, 1)` when none is given, `NewCursorFile(name)` on a
    `;; $MODULE name` line) contributes exactly its module to the token cursors — the one field `Read.Cfg` keeps -/
theorem readStr_cursor_module (m : String) :
    (Position.newAnonymousCursorHere 1 1).module = none ∧ (Position.newCursorFile m).module = some m := ⟨rfl, rfl⟩

/-! ### the position an error ends up with -/

section errors
open LispModel.LispError (E Carrier Cursor PosPtr)

/-- a cursor of the evaluator model as a `*Position` of the slice: `addr` allocates the address (pointer
    identity is the slice's business), the pointee is the position itself -/
def cursorOf (addr : Pos → Nat) : Option Pos → Cursor := Option.map fun p => ⟨addr p, p⟩

/-- the `ast` argument of `NewLispError` by the arm of the type switch of `GetPosition` it takes.  Hash-maps and
    sets carry no cursor in the evaluator model: in Go their `Cursor` field exists but `NewHashMap` / `NewSet`
    (the only constructors the reader and core.go use) leave it nil. -/
def carrierOf (addr : Pos → Nat) : Val → Carrier
  | .list _ p => .list (cursorOf addr p)
  | .sym _ p => .symbol (cursorOf addr p)
  | .vec _ p => .vector (cursorOf addr p)
  | .map _ => .hashMap none
  | .set _ => .set none
  | .nil => .nil
  | _ => .other

/-- an error of the evaluator model as an error-slot content of the slice.  `pay` embeds the payload, `plainE` a
    Go error that is not a `LispError`; the two must agree on what a wrapped plain error is (`hpay` below). -/
def errEmb (addr : Pos → Nat) (pay : Val → E) (plainE : String → E) : Err → E
  | .lisp p pos => .lisp (pay p) (cursorOf addr pos)
  | .plain msg => plainE msg

theorem getPosition_agrees (addr : Pos → Nat) (c : Val) :
    LispError.getPosition (carrierOf addr c) = .ok (cursorOf addr (LispModel.getPosition c)) := by
  cases c <;> rfl

variable (addr : Pos → Nat) (pay : Val → E) (plainE : String → E)
  (hpay : ∀ m, pay (.goerr m) = plainE m) (hplain : ∀ m, LispError.isLisp (plainE m) = false)

include hpay hplain in
/-- `error_position_agrees`: `lisperror.NewLispError(err, ast)` as the evaluator model computes it (`Eval.lean`:
    keep the payload; keep the position if there is one, else take the carrier's) and as the slice computes it
    (`LispError.lean`) give the same error object — for EVERY error and EVERY carrier value; in particular the
    slice's panic (a nil `*Token` carrier) is not reachable from a lisp value -/
theorem error_position_agrees (e : Err) (c : Val) :
    LispError.newLispError (errEmb addr pay plainE e) (carrierOf addr c) =
      .ok (errEmb addr pay plainE (LispModel.newLispError e c)) := by
  cases e with
  | lisp p pos =>
    cases pos with
    | some q => rfl
    | none =>
      simp only [errEmb, cursorOf, Option.map_none, LispError.newLispError, getPosition_agrees,
        LispModel.newLispError]
  | plain m =>
    have hl := hplain m
    simp only [errEmb, LispModel.newLispError, ← hpay]
    rw [hpay]
    cases hx : plainE m with
    | lisp x cur => rw [hx] at hl; cases hl
    | _ => simp only [LispError.newLispError, getPosition_agrees]

/-- the position of an error of the evaluator model -/
def errPos : Err → Option Pos
  | .lisp _ p => p
  | .plain _ => none

include hplain in
theorem position_errEmb (e : Err) : LispError.position (errEmb addr pay plainE e) = cursorOf addr (errPos e) := by
  cases e with
  | lisp p pos => rfl
  | plain m =>
    have hl := hplain m
    simp only [errEmb, errPos]
    cases hx : plainE m with
    | lisp x cur => rw [hx] at hl; cases hl
    | _ => rfl

include hpay hplain in
/-- the cursor after `NewLispError`, read off either model, is the same pointer -/
theorem error_position_agrees_cursor (e : Err) (c : Val) :
    ∃ r, LispError.newLispError (errEmb addr pay plainE e) (carrierOf addr c) = .ok r ∧
      LispError.position r = cursorOf addr (errPos (LispModel.newLispError e c)) :=
  ⟨_, error_position_agrees addr pay plainE hpay hplain e c, position_errEmb addr pay plainE hplain _⟩

include hpay hplain in
/-- "first position wins", along the whole way up: re-positioning through the carriers `cs` (innermost first) in
    the evaluator model is the slice's `reposAll`, so `LispError.newLispError_first_position_wins` speaks about
    the evaluator model's errors -/
theorem reposAll_agrees (cs : List Val) : ∀ e : Err,
    LispError.reposAll (errEmb addr pay plainE e) (cs.map (carrierOf addr)) =
      .ok (errEmb addr pay plainE (cs.foldl LispModel.newLispError e)) := by
  induction cs with
  | nil => intro e; rfl
  | cons c cs ih =>
    intro e
    simp only [List.map_cons, LispError.reposAll, error_position_agrees addr pay plainE hpay hplain e c,
      List.foldl_cons]
    exact ih _

include hpay hplain in
theorem first_position_wins_agrees (cs : List Val) (e : Err) :
    cursorOf addr (errPos (cs.foldl LispModel.newLispError e)) =
      LispError.firstSome (cursorOf addr (errPos e) :: cs.map fun c => cursorOf addr (LispModel.getPosition c)) := by
  have h := LispError.newLispError_first_position_wins (reposAll_agrees addr pay plainE hpay hplain cs e)
  rw [position_errEmb addr pay plainE hplain, position_errEmb addr pay plainE hplain] at h
  rw [h, List.map_map]
  congr 2
  apply List.map_congr_left
  intro c _
  cases c <;> rfl

end errors

/-- the hypotheses of `error_position_agrees` are satisfiable: a payload embedding on a few kinds of value, plain Go
    errors as `fmt.Errorf` strings -/
def pay0 : Val → LispError.E
  | .goerr m => .strErr 0 m
  | .int i => .val (.int i)
  | .str s => .val (.str s)
  | .bool b => .val (.bool b)
  | _ => .val .nil

example (e : Err) (c : Val) :
    LispError.newLispError (errEmb (fun _ => 0) pay0 (.strErr 0) e) (carrierOf (fun _ => 0) c) =
      .ok (errEmb (fun _ => 0) pay0 (.strErr 0) (LispModel.newLispError e c)) :=
  error_position_agrees _ _ _ (fun _ => rfl) (fun _ => rfl) e c

/-- outside the image: a hash-map carrier WITH a cursor (no Go constructor in /repo makes one) would position the
    error in the slice; the evaluator model has no such value -/
example : LispError.getPosition (.hashMap (some ⟨7, {}⟩)) = .ok (some ⟨7, {}⟩) := by decide
example (m : List (String × Val)) : LispModel.getPosition (.map m) = none := rfl

end Posn
/-! ## 2. scoped lookup -/

namespace Scoped
open LispModel.EnvAlg (V Data dget dset)
open Binder (Sim sim_set)

/-- corresponding scopes: the same `outer` link, the same bindings -/
def ScopeRel (f : V → Val) (a : EnvAlg.Scope) (b : LispModel.Scope) : Prop :=
  a.outer = b.outer ∧ Sim f a.data b.data

/-- the obvious correspondence of the two stores: scope `i` of the slice's list is scope `i` of the evaluator's
    array -/
def StoreRel (f : V → Val) (es : EnvAlg.Store) (st : State) : Prop :=
  es.length = st.scopes.size ∧
  ∀ (i : Nat) (a : EnvAlg.Scope) (b : LispModel.Scope), es[i]? = some a → st.scopes[i]? = some b → ScopeRel f a b

theorem storeRel_init (f : V → Val) : StoreRel f [⟨[], none⟩] {} := by
  refine ⟨rfl, fun i a b ha hb => ?_⟩
  match i with
  | 0 =>
    have ha' : a = ⟨[], none⟩ := by simpa using ha.symm
    have hb' : b = ⟨[], none⟩ := by simpa using hb.symm
    subst ha'; subst hb'; exact ⟨rfl, Binder.sim_nil f⟩
  | i + 1 => simp at ha

/-- the climb, with any fuel on the evaluator's side that is at least the slice's: a value found by the slice is
    the value the evaluator finds, "not found" is `none` -/
theorem getF_getAux {f : V → Val} {es : EnvAlg.Store} {st : State} (h : StoreRel f es st) (k : String) :
    ∀ (fuel id fuel' : Nat), fuel ≤ fuel' →
      (∀ v, EnvAlg.getF es k fuel id = .ok v → st.getAux fuel' id k = some (f v)) ∧
      (∀ e, EnvAlg.getF es k fuel id = .err e → st.getAux fuel' id k = none) := by
  intro fuel
  induction fuel with
  | zero => intro id fuel' _; simp [EnvAlg.getF]
  | succ n ih =>
    intro id fuel' hle
    obtain ⟨m, rfl⟩ : ∃ m, fuel' = m + 1 := ⟨fuel' - 1, by omega⟩
    cases ha : es[id]? with
    | none => simp [EnvAlg.getF, ha]
    | some a =>
      have hlt : id < st.scopes.size := by
        rw [← h.1]; exact (List.getElem?_eq_some_iff.mp ha).1
      obtain ⟨b, hb⟩ : ∃ b, st.scopes[id]? = some b := ⟨st.scopes[id], Array.getElem?_eq_getElem hlt⟩
      obtain ⟨ho, hs⟩ := h.2 id a b ha hb
      have hk := hs k
      simp only [EnvAlg.getF, ha, State.getAux, State.scope?, hb]
      cases hd : dget k a.data with
      | some v => rw [hd] at hk; simp [hk]
      | none =>
        rw [hd] at hk
        simp only [hk, Option.map_none, ← ho]
        cases hout : a.outer with
        | none => simp
        | some o => exact ih o m (by omega)

/-- `lookup_agrees`: `Env.Get` through the scopes.  Whatever the slice answers — a value or "not found" — the
    evaluator's store answers the same (no well-formedness needed: the slice's fuel `id + 1` never exceeds the
    evaluator's `size + 1` on a live scope); on a well-formed store and a live scope the slice always answers, so
    the two lookups determine each other -/
theorem lookup_agrees {f : V → Val} {es : EnvAlg.Store} {st : State} (h : StoreRel f es st) (id : Nat) (k : String) :
    (∀ v, EnvAlg.get es id k = .ok v → st.get id k = some (f v)) ∧
    (∀ e, EnvAlg.get es id k = .err e → st.get id k = none) ∧
    (EnvAlg.WF es → id < es.length →
      (∃ v, EnvAlg.get es id k = .ok v ∧ st.get id k = some (f v)) ∨
      (EnvAlg.get es id k = .err (.notFound k) ∧ st.get id k = none)) := by
  have key : (∀ v, EnvAlg.get es id k = .ok v → st.get id k = some (f v)) ∧
      (∀ e, EnvAlg.get es id k = .err e → st.get id k = none) := by
    by_cases hid : id < es.length
    · exact getF_getAux h k (id + 1) id (st.scopes.size + 1) (by rw [← h.1]; omega)
    · have : es[id]? = none := List.getElem?_eq_none (Nat.not_lt.mp hid)
      simp [EnvAlg.get, EnvAlg.getF, this]
  refine ⟨key.1, key.2, fun hwf hid => ?_⟩
  rcases EnvAlg.get_total hwf hid k with ⟨v, hv⟩ | he
  · exact .inl ⟨v, hv, key.1 v hv⟩
  · exact .inr ⟨he, key.2 _ he⟩

/-- `define_agrees`: `Env.Set` in corresponding stores leaves corresponding stores (and the slice returns the value
    exactly when the scope exists; on a dangling id the slice panics — nil `*Env` — where the evaluator model leaves
    its store alone: both unchanged) -/
theorem define_agrees {f : V → Val} {es : EnvAlg.Store} {st : State} (h : StoreRel f es st) (id : Nat) (k : String)
    (v : V) :
    StoreRel f (EnvAlg.set es id k v).1 (st.set id k (f v)) ∧
    ((EnvAlg.set es id k v).2 = .ok v ↔ id < es.length) := by
  cases ha : es[id]? with
  | none =>
    have hge : es.length ≤ id := by
      rcases Nat.lt_or_ge id es.length with hlt | hge
      · rw [List.getElem?_eq_getElem hlt] at ha; cases ha
      · exact hge
    have hb : st.scopes[id]? = none := Array.getElem?_eq_none (by rw [← h.1]; exact hge)
    simp only [EnvAlg.set, ha, State.set, State.scope?, hb]
    exact ⟨h, by simp; omega⟩
  | some a =>
    have hlt : id < es.length := (List.getElem?_eq_some_iff.mp ha).1
    have hlt' : id < st.scopes.size := by rw [← h.1]; exact hlt
    obtain ⟨b, hb⟩ : ∃ b, st.scopes[id]? = some b := ⟨st.scopes[id], Array.getElem?_eq_getElem hlt'⟩
    obtain ⟨ho, hs⟩ := h.2 id a b ha hb
    simp only [EnvAlg.set, ha, State.set, State.scope?, hb]
    refine ⟨⟨by simp [h.1], fun i a' b' ha' hb' => ?_⟩, by simp [hlt]⟩
    by_cases hi : id = i
    · subst hi
      rw [List.getElem?_set_self hlt] at ha'
      simp only [Array.getElem?_setIfInBounds_self_of_lt hlt'] at hb'
      cases ha'; cases hb'
      exact ⟨ho, sim_set hs k v⟩
    · rw [List.getElem?_set_ne hi] at ha'
      simp only [Array.getElem?_setIfInBounds_ne hi] at hb'
      exact h.2 i a' b' ha' hb'

/-- scope creation: `NewSubordinateEnvWithBinds` of the slice (`EnvAlg.bind` on success) and the evaluator's
    `State.newScope` with corresponding bindings give the same id and corresponding stores -/
theorem newScope_agrees {f : V → Val} {es : EnvAlg.Store} {st : State} (h : StoreRel f es st) (outer : Nat)
    {d : Data} {data : List (String × Val)} (hs : Sim f d data) :
    StoreRel f (es ++ [⟨d, some outer⟩]) (st.newScope outer data).1 ∧ (st.newScope outer data).2 = es.length := by
  refine ⟨⟨by simp [State.newScope, h.1], fun i a b ha hb => ?_⟩, h.1.symm⟩
  simp only [State.newScope] at hb
  by_cases hi : i < es.length
  · rw [List.getElem?_append_left hi] at ha
    rw [Array.getElem?_push_lt (by rw [← h.1]; exact hi)] at hb
    exact h.2 i a b ha (by rw [Array.getElem?_eq_getElem (by rw [← h.1]; exact hi)]; exact hb)
  · have hge : es.length ≤ i := Nat.not_lt.mp hi
    rw [List.getElem?_append_right hge] at ha
    have hi' : i = es.length := by
      rcases Nat.lt_or_ge (i - es.length) 1 with h1 | h1
      · omega
      · rw [List.getElem?_eq_none (by simpa using h1)] at ha; cases ha
    subst hi'
    simp only [Nat.sub_self, List.getElem?_cons_zero, Option.some.injEq] at ha
    rw [h.1, Array.getElem?_push_size] at hb
    cases hb; subst ha
    exact ⟨rfl, hs⟩

/-- a call, end to end: when both binders succeed (they do so together, `Binder.binder_success_iff`) the slice's
    `NewSubordinateEnvWithBinds` and the evaluator's `bindParams` + `newScope` create the same scope id and leave
    corresponding stores -/
theorem call_scope_agrees {es : EnvAlg.Store} {st : State} (h : StoreRel Binder.emb es st) (outer : Nat) {bm : V}
    {exprs : List V} {d : Data} {acc : List (String × Val)}
    (h1 : EnvAlg.bindData bm (.list exprs) = .ok d) (h2 : bindParams (Binder.emb bm) (exprs.map Binder.emb) = .ok acc) :
    EnvAlg.bind es outer bm (.list exprs) = (es ++ [⟨d, some outer⟩], .ok es.length) ∧
    StoreRel Binder.emb (es ++ [⟨d, some outer⟩]) (st.newScope outer acc).1 ∧
    (st.newScope outer acc).2 = es.length := by
  have hs : Sim Binder.emb d acc := fun k => Binder.binder_bindings_agree h1 h2 k
  exact ⟨by simp [EnvAlg.bind, h1], newScope_agrees h outer hs⟩

/-! where the stores do NOT correspond to anything the evaluator can reach, the slice has a `panic` outcome and the
    evaluator model answers "unbound": a dangling scope id (nil `*Env`) and a cyclic `outer` chain (a Go hang) -/
example : EnvAlg.get [] 0 "x" = .panic "nil *Env" := rfl
example : ({ scopes := #[] } : State).get 0 "x" = none := rfl
example : EnvAlg.get [⟨[], some 0⟩] 0 "x" = .panic "hang: cyclic outer chain" := rfl
example : ({ scopes := #[⟨[], some 0⟩] } : State).get 0 "x" = none := rfl

end Scoped

/-! ## 6. the dispatch of an application -/

namespace Dispatch
open LispModel.TyCtor (TVal)
open Ctor (temb tembList)

/-- `types.Apply`: the slice (`TyCtor.apply`, parametric in what `GenEnv` / `Eval` / the Go function do) and the
    evaluator model (`LispModel.apply`) take the same arm for the same kind of callee —
    * a closure with both func fields set: bind the parameters in a scope under the closure's environment, then
      evaluate the body there;
    * a `Func` with a non-nil `Fn`: call the Go function on the arguments;
    * any other lisp value (not a bare Go func): the error "invalid function to Apply", nothing else happens. -/
theorem apply_dispatch_agrees {ε : Type} (envOf : Nat → ε) (genEnv : ε → TVal → TVal → TyCtor.Out ε)
    (ev : TVal → ε → TyCtor.Out TVal) (callFn callRaw : Nat → List TVal → TyCtor.Out TVal)
    (fuel : Nat) (st : State) (d : Nat) (a : List TVal) (args : List Val) :
    (∀ (isMacro : Bool) (env : Nat) (params exp md : TVal) (cur : Option Pos),
        TyCtor.apply envOf genEnv ev callFn callRaw (.fn ⟨true, true, isMacro, env, params, exp, md, cur⟩) a =
          (genEnv (envOf env) params (.list a .nil cur)).bind (fun e => ev exp e) ∧
        LispModel.apply (fuel + 1) st (temb (.fn ⟨true, true, isMacro, env, params, exp, md, cur⟩)) args d =
          (match bindParams (temb params) args with
           | .error e => (.err e, st)
           | .ok data => eval fuel (st.newScope env data).1 (st.newScope env data).2 (temb exp) (d + 1))) ∧
    (∀ (id : Nat) (md : TVal),
        TyCtor.apply envOf genEnv ev callFn callRaw (.builtin (some id) md) a = callFn id a ∧
        LispModel.apply (fuel + 1) st (temb (.builtin (some id) md)) args d =
          callBuiltin fuel st (toString id) args d) ∧
    (∀ f : TVal, (∀ g, f ≠ .fn g) → (∀ g md, f ≠ .builtin g md) → (∀ g, f ≠ .rawfn g) →
        TyCtor.apply envOf genEnv ev callFn callRaw f a = .err (.badApply (TyCtor.typeName f)) ∧
        LispModel.apply (fuel + 1) st (temb f) args d = (.err (.plain "invalid function to Apply"), st)) := by
  refine ⟨fun isMacro env params exp md cur => ⟨rfl, ?_⟩, fun id md => ⟨rfl, ?_⟩, fun f h1 h2 h3 => ?_⟩
  · simp only [temb, LispModel.apply]
    cases bindParams (temb params) args <;> rfl
  · simp only [temb, LispModel.apply]
  · cases f with
    | fn g => exact absurd rfl (h1 g)
    | builtin g md => exact absurd rfl (h2 g md)
    | rawfn g => exact absurd rfl (h3 g)
    | _ => exact ⟨rfl, by simp only [temb, LispModel.apply]⟩

/-! outside the correspondence: the nil func fields of a `MalFunc` / `Func` (a nil-dereference panic in the slice)
    and a bare Go func value have no counterpart among the evaluator model's values, whose closures always carry a
    body and an environment -/
example : TyCtor.apply (ε := Nat) id (fun e _ _ => .ok e) (fun x _ => .ok x) (fun _ _ => .ok .nil) (fun _ _ => .ok .nil)
    (.builtin none .nil) [] = .panic .nilDeref "Apply:f.Fn" := rfl

end Dispatch
end LispModel.Coherence

/-
  C10 proofs, part 7: each micro-op of the body goroutine.
-/
import LispModel.Proofs.ConcFutBody
namespace LispModel.Proofs.ConcFut
open LispModel.Conc LispModel.Conc.Fut

theorem body_frame_facts {s : FState} (hM : MuInv s) {f : Nat} {fr : FFrame}
    (hb : (s.futs f).body = some fr) :
    fr.name = .body ∧ fr.fut = f ∧ fr.defers = [] ∧ (fr.returning = false → fr.pc < 6) := by
  obtain ⟨hwf, hn, hf⟩ := hM.wf (.body f) fr hb
  refine ⟨hn, hf, ?_, ?_⟩
  · unfold FFrameWF at hwf
    rw [hn] at hwf
    cases hr : fr.returning <;> simp [hr, defersAtF] at hwf
    · exact hwf.2
    · rcases hwf with h | h
      · exact h
      · exact h.1
  · intro hr
    unfold FFrameWF at hwf
    rw [hn] at hwf
    simp [hr, prog, progFixed, bodyFixed] at hwf
    exact hwf.1

theorem OutInv.bodyMop {s : FState} (h : OutInv s) (hM : MuInv s) {f : Nat} {fr fr' : FFrame} {m : MOp}
    {F' : FutS} (hb : (s.futs f).body = some fr) (hnr : fr.returning = false)
    (hm : (prog fr.name)[fr.pc]? = some m) (hex : execF (.body f) 0 false m fr (s.futs f) = some (fr', F')) :
    OutInv { s with futs := upd s.futs f { F' with body := some fr' } } := by
  obtain ⟨hn, hf, hds, hpc⟩ := body_frame_facts hM hb
  have hpc := hpc hnr
  have hfresh := h.fresh f fr hb
  have hruns := h.runs f
  rw [hn] at hm
  have hcases : fr.pc = 0 ∨ fr.pc = 1 ∨ fr.pc = 2 ∨ fr.pc = 3 ∨ fr.pc = 4 ∨ fr.pc = 5 := by omega
  rcases hcases with hp | hp | hp | hp | hp | hp <;> rw [hp] at hm <;>
    simp [prog, progFixed, bodyFixed] at hm <;> subst hm
  · -- callBody
    simp [execF] at hex
    obtain ⟨h1, h2⟩ := hex
    subst h1; subst h2
    have hres : (s.futs f).res = none := hfresh.1.mp ⟨hp, hnr⟩
    have hns : ¬ sent (s.futs f) := by simp [sent, hb, hp, hnr]
    obtain ⟨u1, u2, u3⟩ := h.unsent f hns
    apply h.bodyUpdate
    · simp [hruns, hres]
    · intro b hb'; simp at hb'; subst hb'; simp [hp]
    · simp [pastDone, hp, hnr]
    · intro _; exact ⟨u1, u2, u3⟩
    · intro v hv; simp [u1] at hv
    · intro e he; simp [u2] at he
    · intro t ht; exact absurd ht (u3 t)
    · intro hne; exact absurd hres hne
    · intro hs; exact absurd hs hns
  · -- lock mu
    simp [execF] at hex
    obtain ⟨-, h1, h2⟩ := hex
    subst h1; subst h2
    apply h.bodyQuiet (fr := fr) hb (hpc := by simp [hp]) <;> try rfl
    · simp
    · simp [sent, hb, hp, hnr]
    · simp [pastDone, hnr]; omega
  · -- Done = true
    simp [execF] at hex
    obtain ⟨h1, h2⟩ := hex
    subst h1; subst h2
    apply h.bodyQuiet (fr := fr) hb (hpc := by simp [hp]) <;> try rfl
    · simp
    · simp [sent, hb, hp, hnr]
    · simp
  · -- unlock mu
    simp [execF] at hex
    obtain ⟨h1, h2⟩ := hex
    subst h1; subst h2
    have hd := h.done f (by simp [pastDone, hb, hp])
    apply h.bodyQuiet (fr := fr) hb (hpc := by simp [hp]) <;> try rfl
    · simp
    · simp [sent, hb, hp, hnr]
    · intro _; exact hd
  · -- send the outcome
    have hres : (s.futs f).res ≠ none := fun hn => by have := hfresh.1.mpr hn; omega
    have hgot := hfresh.2 hres
    obtain ⟨oc, hoc⟩ := Option.ne_none_iff_exists'.mp hres
    rw [hoc] at hgot
    simp only [execF, hgot, Option.map_eq_some_iff] at hex
    obtain ⟨F1, hpb, hex⟩ := hex
    cases hex
    have hns : ¬ sent (s.futs f) := by simp [sent, hb, hp, hnr]
    obtain ⟨u1, u2, u3⟩ := h.unsent f hns
    obtain ⟨f1, f2, f3, f4, f5, f6, f7, f8⟩ := putBack_flags hpb
    obtain ⟨c1, c2⟩ := putBack_chan hpb
    have hd := h.done f (by simp [pastDone, hb, hp])
    apply h.bodyUpdate
    · simp only; rw [f5, f6]; exact hruns
    · intro b hb'; simp at hb'; subst hb'
      simp only; rw [f6, hoc]; simp
    · intro _; simp only; rw [f1]; exact hd
    · intro hns'; simp [sent] at hns'; omega
    · intro v hv
      simp only at hv ⊢
      rw [f6, hoc]
      obtain ⟨e, x⟩ := oc
      cases e
      · obtain ⟨-, c3, c4⟩ := c2 rfl
        rw [c3] at hv; cases hv
        exact ⟨rfl, by rw [c4]; exact u2, u3⟩
      · obtain ⟨-, -, c4⟩ := c1 rfl
        rw [c4, u1] at hv; cases hv
    · intro e he
      simp only at he ⊢
      rw [f6, hoc]
      obtain ⟨e', x⟩ := oc
      cases e'
      · obtain ⟨-, -, c4⟩ := c2 rfl
        rw [c4, u2] at he; cases he
      · obtain ⟨-, c3, c4⟩ := c1 rfl
        rw [c3] at he; cases he
        exact ⟨rfl, by rw [c4]; exact u1, u3⟩
    · intro t ht; exact absurd ht (u3 t)
    · intro _; exact f6
    · intro hs; exact absurd hs hns
  · -- return
    simp [execF] at hex
    obtain ⟨h1, h2⟩ := hex
    subst h1; subst h2
    have hd := h.done f (by simp [pastDone, hb, hp])
    apply h.bodyQuiet (fr := fr) hb (hpc := by simp [hp]) <;> try rfl
    · simp
    · simp [sent, hb, hp]
    · intro _; exact hd

theorem OutInv.bodyStep {s : FState} (h : OutInv s) (hM : MuInv s) {f : Nat} {fr fr' : FFrame} {F' : FutS}
    (hb : (s.futs f).body = some fr)
    (hk : FrameStep prog (.body f) 0 false fr (s.futs f) (.inl fr', F')) :
    OutInv { s with futs := upd s.futs f { F' with body := some fr' } } := by
  obtain ⟨hn, hf, hds, hpc⟩ := body_frame_facts hM hb
  cases hk with
  | mop m fr' F' hnr hm hex => exact h.bodyMop hM hb hnr hm hex
  | defer d ds fr1 F' hr hd hex => rw [hds] at hd; cases hd

theorem OutInv.bodyRet {s : FState} (h : OutInv s) (hM : MuInv s) {f : Nat} {fr fr' : FFrame} {F' : FutS}
    (hb : (s.futs f).body = some fr)
    (hk : FrameStep prog (.body f) 0 false fr (s.futs f) (.inr fr', F')) :
    OutInv { s with futs := upd s.futs f { F' with body := none } } := by
  cases hk with
  | ret hr hd =>
    have hfresh := h.fresh f fr hb
    have hres : (s.futs f).res ≠ none := fun hn => by
      have := (hfresh.1.mpr hn).2; rw [hr] at this; cases this
    have hd' := h.done f (by simp [pastDone, hb, hr])
    have hs : sent (s.futs f) := by simp [sent, hb, hr]
    apply h.bodyUpdate
    · exact h.runs f
    · intro b hb'; simp at hb'
    · intro _; exact hd'
    · intro hns; simp [sent] at hns; exact absurd hns hres
    · exact h.inVal f
    · exact h.inErr f
    · intro t ht; exact ⟨(h.inHand t f ht).1, (h.inHand t f ht).2.1⟩
    · intro _; rfl
    · intro _; simpa [sent] using hres

end LispModel.Proofs.ConcFut

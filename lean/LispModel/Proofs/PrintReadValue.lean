/-
  C06, scanner level: the tokens of a printed value.  `toksOf v` is the expected token list (kind
  and text) of `Print.prStr true v`; `el_val`: for every readable data value the printed text,
  followed by a delimiter, is scanned as `toksOf v`.  Core Lean only.
-/
import LispModel.Spec.Readable
import LispModel.Proofs.Preamble
import LispModel.Proofs.PrintReadToks
namespace LispModel.Proofs.PrintRead
open LispModel LispModel.Scan LispModel.Read LispModel.Print

theorem toUTF8_eq (s : String) : s.toUTF8.toList = utf8 s.toList := by
  have := Preamble.toUTF8_ofList s.toList
  rw [String.ofList_toList] at this
  exact this

theorem tokensOfString_eq (s : String) : tokensOfString s = tokenizeRunes (runesOf s.toList) := by
  rw [tokensOfString, tokenize, toUTF8_eq, decodeAll_utf8]

/-- kind and text of the single token of a spelling (symbols, keywords) -/
def symTok (s : String) : KT :=
  match tokensOfString s with
  | .ok [t] => (t.kind, t.text)
  | _ => (.ident, [])

/-- the token of a keyword string `ʞname`: that of `:name` -/
def kwTok (s : String) : KT :=
  match s.toList with
  | _ :: name => symTok (String.ofList (':' :: name))
  | [] => (.keyword, [])

/-- is the string printed in the raw form? -/
def isRawStr (s : String) : Bool := ['{', '"'].isPrefixOf s.toList && s.toList.getLast? == some '}'

/-- the token of a printed string -/
def strTok (s : String) : KT :=
  if Val.isKwStr s then kwTok s
  else (if isRawStr s then .rawString else .string, (prString true s).map Char.toNat)

mutual
/-- the tokens of `prStr true v` -/
def toksOf : Val → List KT
  | .nil => [(.ident, [110, 105, 108])]
  | .bool true => [(.ident, [116, 114, 117, 101])]
  | .bool false => [(.ident, [102, 97, 108, 115, 101])]
  | .int i => [(.int, (intStr i).map Char.toNat)]
  | .str s => [strTok s]
  | .sym s _ => [symTok s]
  | .list xs _ => (.char 40, [40]) :: toksList xs ++ [(.char 41, [41])]
  | .vec xs _ => (.char 91, [91]) :: toksList xs ++ [(.char 93, [93])]
  | .map kvs => (.char 123, [123]) :: toksMap kvs ++ [(.char 125, [125])]
  | .set ks => (.ident, [35, 123]) :: ks.map strTok ++ [(.char 125, [125])]
  | _ => []
def toksList : List Val → List KT
  | [] => []
  | x :: xs => toksOf x ++ toksList xs
def toksMap : List (String × Val) → List KT
  | [] => []
  | (k, v) :: r => strTok k :: (toksOf v ++ toksMap r)
end

/-! ### atoms -/

theorem tokStr_toList (t : Token) : (tokStr t).toList = t.text.map Char.ofNat := by
  simp [tokStr, strOf]

/-- a spelling that the scanner turns into exactly one symbol / keyword token with that text -/
theorem el_of_single (s : String) (t : Token) (h : tokensOfString s = .ok [t]) (hs : tokStr t = s)
    (hk : AtomKind t.kind) : El s.toList [(t.kind, t.text)] := by
  rw [tokensOfString_eq] at h
  have hlen : t.text.length = s.toList.length := by
    rw [← hs, tokStr_toList]; simp
  obtain ⟨hne, _, hsc⟩ := readable_scan s.toList t h hk hlen
  exact El.single hne (fun d S p hd hp => hsc d S hd p hp)

theorem symTok_eq {s : String} {t : Token} (h : tokensOfString s = .ok [t]) : symTok s = (t.kind, t.text) := by
  simp [symTok, h]

/-- what `readableSym` says -/
theorem readableSym_spec {s : String} (h : readableSym s = true) :
    ∃ t, tokensOfString s = .ok [t] ∧ tokStr t = s ∧
      ((t.kind = .ident ∧ s ≠ "nil" ∧ s ≠ "true" ∧ s ≠ "false") ∨ ∃ c, t.kind = .char c) := by
  unfold readableSym at h
  split at h
  · rename_i t ht
    refine ⟨t, ht, ?_⟩
    simp only [Bool.and_eq_true, beq_iff_eq] at h
    obtain ⟨h1, h2⟩ := h
    refine ⟨h1, ?_⟩
    split at h2
    · rename_i hk
      simp only [Bool.and_eq_true, bne_iff_ne, ne_eq] at h2
      exact Or.inl ⟨hk, h2.1.1.1.1, h2.1.1.1.2, h2.1.1.2⟩
    · rename_i c hk
      exact Or.inr ⟨c, hk⟩
    · cases h2
  · cases h

theorem el_sym {s : String} (h : readableSym s = true) : El s.toList [symTok s] := by
  obtain ⟨t, ht, hs, hk⟩ := readableSym_spec h
  rw [symTok_eq ht]
  refine el_of_single s t ht hs ?_
  rcases hk with ⟨hk, _⟩ | ⟨c, hk⟩
  · exact Or.inl hk
  · exact Or.inr (Or.inr ⟨c, hk⟩)

theorem el_nil : El (prStr true .nil) (toksOf .nil) :=
  el_of_single "nil" ⟨.ident, [110, 105, 108], 1, 4, 3⟩
    (by rw [tokensOfString_eq]; decide) (by decide) (Or.inl rfl)

theorem el_true : El (prStr true (.bool true)) (toksOf (.bool true)) :=
  el_of_single "true" ⟨.ident, [116, 114, 117, 101], 1, 5, 4⟩
    (by rw [tokensOfString_eq]; decide) (by decide) (Or.inl rfl)

theorem el_false : El (prStr true (.bool false)) (toksOf (.bool false)) :=
  el_of_single "false" ⟨.ident, [102, 97, 108, 115, 101], 1, 6, 5⟩
    (by rw [tokensOfString_eq]; decide) (by decide) (Or.inl rfl)

/-- a token at a delimiter, from a scan that ends on `next (d :: S) q` -/
theorem El.single_next {text : List Char} {k : Kind} {t : List Nat} (hne : HeadOk text)
    (h : ∀ (d : Rune) (S : List Rune) (p : PState), IsDelim d → p.errs = 0 → ∃ q,
      (∀ F : Nat, scan (F + 1) (next (runesOf text ++ d :: S) p).2.1 (next (runesOf text ++ d :: S) p).1
        (next (runesOf text ++ d :: S) p).2.2 = (some (k, t), next (d :: S) q)) ∧ q.errs = 0) :
    El text [(k, t)] := by
  refine El.single hne (fun d S p hd hp => ?_)
  obtain ⟨q, hq, he⟩ := h d S p hd hp
  obtain ⟨q', hq', he'⟩ := next_delim hd S q
  exact ⟨q', fun F => by rw [hq F, hq'], by rw [he', he]⟩

theorem el_int (i : Int) : El (prStr true (.int i)) (toksOf (.int i)) := by
  show El (intStr i) [(.int, (intStr i).map Char.toNat)]
  refine El.single_next ?_ (fun d S p hd hp => scan_int i (Or.inr ⟨d, S, rfl, hd⟩) p hp)
  cases i with
  | ofNat n =>
    obtain ⟨c, r, hcr, hc, _⟩ := natDigits_spec (n + 1) n (by omega)
    exact ⟨c, r, by simp [intStr, hcr], by obtain ⟨a, b⟩ := hc; omega⟩
  | negSucc n => exact ⟨'-', _, rfl, by decide⟩

/-! ### strings and keywords -/

/-- what `readableKw` says -/
theorem readableKw_spec {s : String} (h : readableKw s = true) :
    ∃ name t, s.toList = kwMarker :: name ∧ tokensOfString (String.ofList (':' :: name)) = .ok [t] ∧
      t.kind = .keyword ∧ tokStr t = String.ofList (':' :: name) := by
  unfold readableKw at h
  split at h
  · rename_i c name hs
    simp only [Bool.and_eq_true, beq_iff_eq] at h
    obtain ⟨hc, h2⟩ := h
    split at h2
    · rename_i t ht
      simp only [Bool.and_eq_true, decide_eq_true_eq, beq_iff_eq] at h2
      exact ⟨name, t, by rw [hs, hc], ht, h2.1, h2.2⟩
    · cases h2
  · cases h

theorem prString_kw {s : String} {name : List Char} (b : Bool) (h : s.toList = kwMarker :: name) :
    prString b s = ':' :: name := by
  unfold prString
  simp only [h]
  simp

theorem isKwStr_of {s : String} {name : List Char} (h : s.toList = kwMarker :: name) : Val.isKwStr s = true := by
  simp [Val.isKwStr, h]

theorem kwTok_eq {s : String} {name : List Char} {t : Token} (h : s.toList = kwMarker :: name)
    (ht : tokensOfString (String.ofList (':' :: name)) = .ok [t]) : kwTok s = (t.kind, t.text) := by
  simp only [kwTok, h]
  exact symTok_eq ht

theorem el_kw {s : String} (h : readableKw s = true) : El (prString true s) [strTok s] := by
  obtain ⟨name, t, hs, ht, hk, htx⟩ := readableKw_spec h
  rw [prString_kw true hs]
  have e : strTok s = (t.kind, t.text) := by
    simp only [strTok, isKwStr_of hs, if_true]
    exact kwTok_eq hs ht
  rw [e]
  have := el_of_single _ t ht htx (Or.inr (Or.inl hk))
  rwa [String.toList_ofList] at this

theorem isRawStr_iff (s : String) :
    isRawStr s = true ↔ (['{', '"'].isPrefixOf s.toList = true ∧ s.toList.getLast? = some '}') := by
  simp [isRawStr]

theorem prString_raw {s : String} (hkw : Val.isKwStr s = false) (hraw : isRawStr s = true) :
    prString true s = '¬' :: rawBody s.toList ++ ['¬'] := by
  have hr := (isRawStr_iff s).mp hraw
  unfold prString
  unfold Val.isKwStr at hkw
  generalize s.toList = cs at *
  cases cs with
  | nil => simp at hr
  | cons c rest =>
    have hc : ¬ c = kwMarker := by simpa using hkw
    simp only [hc, if_false, if_true, if_pos hr]

/-- the printed form of a non-keyword string without NUL, then anything that does not start with
    `¬`: one token, whatever follows -/
theorem scan_str {s : String} (hkw : Val.isKwStr s = false) (hnul : Char.ofNat 0 ∉ s.toList)
    {tail : List Rune} (ht : ∀ d S, tail = d :: S → ¬ (d.ch : Int) = 172) (p : PState) (hp : p.errs = 0) :
    HeadOk (prString true s) ∧ (prString true s).head? ≠ some (Char.ofNat 0xFEFF) ∧
    ∃ q, (∀ F : Nat, scan (F + 1) (next (runesOf (prString true s) ++ tail) p).2.1
        (next (runesOf (prString true s) ++ tail) p).1 (next (runesOf (prString true s) ++ tail) p).2.2 =
          (some (strTok s), next tail q)) ∧ q.errs = 0 := by
  have e : strTok s = (if isRawStr s then .rawString else .string, (prString true s).map Char.toNat) := by
    simp only [strTok, hkw, Bool.false_eq_true, if_false]
  rw [e]
  by_cases hraw : isRawStr s = true
  · rw [if_pos hraw, prString_raw hkw hraw]
    refine ⟨⟨'¬', _, rfl, by decide⟩, by simp only [List.cons_append, List.head?_cons]; decide, ?_⟩
    obtain ⟨p1, hp1, he1⟩ := ScanString.next_good 172 ('¬').utf8Size
      (runesOf (rawBody s.toList ++ ['¬']) ++ tail) p (by decide) (by decide)
    have hp1' : next (runesOf ('¬' :: rawBody s.toList ++ ['¬']) ++ tail) p =
        ((172 : Int), runesOf (rawBody s.toList ++ ['¬']) ++ tail, p1) := hp1
    rw [hp1']
    obtain ⟨q, hq, he⟩ := scan_raw ht s.toList hnul p1
    exact ⟨q, hq, by rw [he, he1, hp]⟩
  · rw [if_neg hraw]
    have hraw' : ¬ (['{', '"'].isPrefixOf s.toList = true ∧ s.toList.getLast? = some '}') :=
      fun h => hraw ((isRawStr_iff s).mpr h)
    rw [ScanString.prString_quoted s hkw hraw']
    refine ⟨⟨'"', _, rfl, by decide⟩, by simp only [List.cons_append, List.head?_cons]; decide, ?_⟩
    obtain ⟨p1, hp1, he1⟩ := ScanString.next_good 34 ('"').utf8Size
      (runesOf (RoundTrip.esc s.toList ++ ['"']) ++ tail) p (by decide) (by decide)
    have hp1' : next (runesOf ('"' :: RoundTrip.esc s.toList ++ ['"']) ++ tail) p =
        ((34 : Int), runesOf (RoundTrip.esc s.toList ++ ['"']) ++ tail, p1) := hp1
    rw [hp1']
    obtain ⟨q, hq, he⟩ := scan_quoted s.toList hnul tail p1 (by rw [he1, hp])
    exact ⟨q, hq, he⟩

theorem delim_not_raw {d : Rune} (hd : IsDelim d) (S : List Rune) :
    ∀ d' S', d :: S = d' :: S' → ¬ (d'.ch : Int) = 172 := by
  intro d' S' h
  injection h with h1 _; subst h1
  obtain ⟨_, h | h | h | h⟩ := hd <;> rw [h] <;> decide

theorem el_str {s : String} (hkw : Val.isKwStr s = false) (hnul : Char.ofNat 0 ∉ s.toList) :
    El (prString true s) [strTok s] := by
  have h0 := (scan_str hkw hnul (tail := []) (fun _ _ h => by cases h) {} rfl).1
  exact El.single_next h0 (fun d S p hd hp => (scan_str hkw hnul (delim_not_raw hd S) p hp).2.2)

/-- every readable string (keyword or not), printed readably and followed by a delimiter -/
theorem el_readableStr {s : String} (h : readableStr s = true) : El (prString true s) [strTok s] := by
  unfold readableStr at h
  by_cases hkw : Val.isKwStr s = true
  · rw [if_pos hkw] at h; exact el_kw h
  · rw [if_neg hkw] at h
    have hkw' : Val.isKwStr s = false := by simpa using hkw
    exact el_str hkw' (by simpa using h)

/-! ### collections -/

theorem headOk_seq (items : List (List Char × List KT)) (hall : ∀ it ∈ items, El it.1 it.2) (cl : Char)
    (hcl : IsCloserCh cl) : HeadOk (seqText items ++ [cl]) := by
  cases items with
  | nil => exact ⟨cl, [], rfl, by rcases hcl with h | h | h <;> subst h <;> decide⟩
  | cons it rest =>
    obtain ⟨⟨c, cs, hc, hc0⟩, _, _⟩ := hall it (List.mem_cons_self ..)
    cases rest with
    | nil => exact ⟨c, cs ++ [cl], by simp [seqText, intercalate, hc], hc0⟩
    | cons it2 r2 => exact ⟨c, _, by simp only [seqText, List.map_cons, intercalate, hc, List.cons_append]; rfl, hc0⟩

theorem delim_stopTail {d : Rune} (hd : IsDelim d) (S : List Rune) : StopTail (d :: S) :=
  Or.inr ⟨d, S, rfl, hd⟩

/-- an opening bracket, the elements separated by spaces, the closing bracket — then a delimiter
    or the end of the input -/
theorem toks_bracketed (opc : Char) (hop : IsBracket opc.toNat) (items : List (List Char × List KT))
    (hall : ∀ it ∈ items, El it.1 it.2) (cl : Char) (hcl : IsCloserCh cl) {tail : List Rune}
    (ht : StopTail tail) (p : PState) (hp : p.errs = 0) :
    ∃ q, q.errs = 0 ∧ Toks (next (runesOf (opc :: seqText items ++ [cl]) ++ tail) p)
      ((.char opc.toNat, [opc.toNat]) :: items.flatMap (·.2) ++ [(.char cl.toNat, [cl.toNat])]) (next tail q) := by
  have h0 : opc.toNat ≠ 0 := by rcases hop with h | h | h | h | h | h <;> omega
  have h10 : opc.toNat ≠ 10 := by rcases hop with h | h | h | h | h | h <;> omega
  obtain ⟨p1, hp1, he1⟩ := ScanString.next_good opc.toNat opc.utf8Size
    (runesOf (seqText items ++ [cl]) ++ tail) p h0 h10
  have hp1' : next (runesOf (opc :: seqText items ++ [cl]) ++ tail) p =
      ((opc.toNat : Int), runesOf (seqText items ++ [cl]) ++ tail, p1) := hp1
  rw [hp1']
  have hp10 : p1.errs = 0 := by rw [he1, hp]
  obtain ⟨q, hq, hT⟩ := seq_toks cl hcl ht items hall p1 hp10
  refine ⟨q, hq, ?_⟩
  rw [List.cons_append]
  refine Toks.cons (fun F => scan_bracket _ hop F _ p1) ?_ ?_ hT
  · rw [next_headOk (headOk_seq items hall cl hcl), hp10]
  · show pot (next (runesOf (seqText items ++ [cl]) ++ tail) p1) < _
    rw [pot_at]; have := pot_next_le (runesOf (seqText items ++ [cl]) ++ tail) p1; omega

theorem el_bracketed (opc : Char) (hop : IsBracket opc.toNat) (items : List (List Char × List KT))
    (hall : ∀ it ∈ items, El it.1 it.2) (cl : Char) (hcl : IsCloserCh cl) :
    El (opc :: seqText items ++ [cl])
      ((.char opc.toNat, [opc.toNat]) :: items.flatMap (·.2) ++ [(.char cl.toNat, [cl.toNat])]) := by
  have h0 : opc.toNat ≠ 0 := by rcases hop with h | h | h | h | h | h <;> omega
  refine ⟨⟨opc, _, rfl, h0⟩, by simp, fun d S p hd hp => ?_⟩
  obtain ⟨q, hq, hT⟩ := toks_bracketed opc hop items hall cl hcl (delim_stopTail hd S) p hp
  obtain ⟨q', hq', he'⟩ := next_delim hd S q
  rw [hq'] at hT
  exact ⟨q', by rw [he', hq], hT⟩

/-- `#{`, the elements separated by spaces, `}` — then a delimiter or the end of the input -/
theorem toks_set_bracketed (items : List (List Char × List KT)) (hall : ∀ it ∈ items, El it.1 it.2)
    {tail : List Rune} (ht : StopTail tail) (p : PState) (hp : p.errs = 0) :
    ∃ q, q.errs = 0 ∧ Toks (next (runesOf ('#' :: '{' :: seqText items ++ ['}']) ++ tail) p)
      ((.ident, [35, 123]) :: items.flatMap (·.2) ++ [(.char 125, [125])]) (next tail q) := by
  have hcl : IsCloserCh '}' := Or.inr (Or.inr rfl)
  obtain ⟨p1, hp1, he1⟩ := ScanString.next_good 35 ('#').utf8Size
    (runeOf '{' :: (runesOf (seqText items ++ ['}']) ++ tail)) p (by decide) (by decide)
  have hp1' : next (runesOf ('#' :: '{' :: seqText items ++ ['}']) ++ tail) p =
      ((35 : Int), runeOf '{' :: (runesOf (seqText items ++ ['}']) ++ tail), p1) := hp1
  rw [hp1']
  have hp10 : p1.errs = 0 := by rw [he1, hp]
  obtain ⟨p2, hp2, he2⟩ := scan_hashbrace ('{').utf8Size (runesOf (seqText items ++ ['}']) ++ tail) p1
  have hp20 : p2.errs = 0 := by rw [he2, hp10]
  obtain ⟨q, hq, hT⟩ := seq_toks '}' hcl ht items hall p2 hp20
  refine ⟨q, hq, ?_⟩
  rw [List.cons_append]
  refine Toks.cons (fun F => hp2 F) ?_ ?_ hT
  · rw [next_headOk (headOk_seq items hall '}' hcl), hp20]
  · show pot (next (runesOf (seqText items ++ ['}']) ++ tail) p2) < _
    have := pot_at 35 (runeOf '{' :: (runesOf (seqText items ++ ['}']) ++ tail)) p1
    rw [show ((35 : Nat) : Int) = 35 from rfl] at this
    rw [this]
    have := pot_next_le (runesOf (seqText items ++ ['}']) ++ tail) p2
    simp only [List.length_cons]
    omega

theorem el_set_bracketed (items : List (List Char × List KT)) (hall : ∀ it ∈ items, El it.1 it.2) :
    El ('#' :: '{' :: seqText items ++ ['}'])
      ((.ident, [35, 123]) :: items.flatMap (·.2) ++ [(.char 125, [125])]) := by
  refine ⟨⟨'#', _, rfl, by decide⟩, by simp, fun d S p hd hp => ?_⟩
  obtain ⟨q, hq, hT⟩ := toks_set_bracketed items hall (delim_stopTail hd S) p hp
  obtain ⟨q', hq', he'⟩ := next_delim hd S q
  rw [hq'] at hT
  exact ⟨q', by rw [he', hq], hT⟩

/-! ### every readable value -/

/-- the elements of a printed list -/
def listItems (xs : List Val) : List (List Char × List KT) := xs.map (fun x => (prStr true x, toksOf x))

/-- the elements of a printed hash-map: key, value, key, value, … -/
def mapItems (kvs : List (String × Val)) : List (List Char × List KT) :=
  kvs.flatMap (fun kv => [(prString true kv.1, [strTok kv.1]), (prStr true kv.2, toksOf kv.2)])

/-- the elements of a printed set -/
def setItems (ks : List String) : List (List Char × List KT) := ks.map (fun k => (prString true k, [strTok k]))

theorem prList_eq (xs : List Val) : prList true xs = (listItems xs).map (·.1) := by
  induction xs with
  | nil => rfl
  | cons x xs ih => show prStr true x :: prList true xs = _; rw [ih]; rfl

theorem toksList_eq (xs : List Val) : toksList xs = (listItems xs).flatMap (·.2) := by
  induction xs with
  | nil => rfl
  | cons x xs ih => show toksOf x ++ toksList xs = _; rw [ih]; rfl

theorem prMap_eq (kvs : List (String × Val)) : prMap true kvs = (mapItems kvs).map (·.1) := by
  induction kvs with
  | nil => rfl
  | cons kv kvs ih =>
    obtain ⟨k, v⟩ := kv
    show prString true k :: prStr true v :: prMap true kvs = _
    rw [ih]; rfl

theorem toksMap_eq (kvs : List (String × Val)) : toksMap kvs = (mapItems kvs).flatMap (·.2) := by
  induction kvs with
  | nil => rfl
  | cons kv kvs ih =>
    obtain ⟨k, v⟩ := kv
    show strTok k :: (toksOf v ++ toksMap kvs) = _
    rw [ih]; simp [mapItems]

theorem el_setItems (ks : List String) (h : ks.all readableStr = true) : ∀ it ∈ setItems ks, El it.1 it.2 := by
  intro it hit
  simp only [setItems, List.mem_map] at hit
  obtain ⟨k, hk, rfl⟩ := hit
  exact el_readableStr (List.all_eq_true.mp h k hk)

theorem setItems_toks (ks : List String) : ks.map strTok = (setItems ks).flatMap (·.2) := by
  induction ks with
  | nil => rfl
  | cons k ks ih =>
    show strTok k :: ks.map strTok = [strTok k] ++ (setItems ks).flatMap (·.2)
    rw [ih]; rfl

mutual
theorem el_val : (v : Val) → readableData v = true → El (prStr true v) (toksOf v)
  | .nil, _ => el_nil
  | .bool true, _ => el_true
  | .bool false, _ => el_false
  | .int i, _ => el_int i
  | .str s, h => el_readableStr h
  | .sym s _, h => el_sym h
  | .list xs _, h => by
    have := el_bracketed '(' (Or.inl rfl) (listItems xs) (el_list xs h) ')' (Or.inl rfl)
    show El ('(' :: intercalate [' '] (prList true xs) ++ [')'])
      ((.char 40, [40]) :: toksList xs ++ [(.char 41, [41])])
    rw [prList_eq, toksList_eq]
    exact this
  | .vec xs _, h => by
    have := el_bracketed '[' (Or.inr (Or.inr (Or.inl rfl))) (listItems xs) (el_list xs h) ']' (Or.inr (Or.inl rfl))
    show El ('[' :: intercalate [' '] (prList true xs) ++ [']'])
      ((.char 91, [91]) :: toksList xs ++ [(.char 93, [93])])
    rw [prList_eq, toksList_eq]
    exact this
  | .map kvs, h => by
    have := el_bracketed '{' (Or.inr (Or.inr (Or.inr (Or.inr (Or.inl rfl))))) (mapItems kvs) (el_map kvs h) '}'
      (Or.inr (Or.inr rfl))
    show El ('{' :: intercalate [' '] (prMap true kvs) ++ ['}'])
      ((.char 123, [123]) :: toksMap kvs ++ [(.char 125, [125])])
    rw [prMap_eq, toksMap_eq]
    exact this
  | .set ks, h => by
    have := el_set_bracketed (setItems ks) (el_setItems ks h)
    show El ('#' :: '{' :: intercalate [' '] (ks.map (prString true)) ++ ['}'])
      ((.ident, [35, 123]) :: ks.map strTok ++ [(.char 125, [125])])
    have e1 : ks.map (prString true) = (setItems ks).map (·.1) := by simp [setItems]
    have e2 : ks.map strTok = (setItems ks).flatMap (·.2) := setItems_toks ks
    rw [e1, e2]
    exact this
  | .fn .., h => by cases h
  | .builtin _, h => by cases h
  | .atom _, h => by cases h
  | .future _, h => by cases h
  | .goerr _, h => by cases h
  | .opaque _, h => by cases h
theorem el_list : (xs : List Val) → readableList xs = true → ∀ it ∈ listItems xs, El it.1 it.2
  | [], _ => by intro it hit; cases hit
  | x :: xs, h => by
    have h' : readableData x = true ∧ readableList xs = true := by
      have : (readableData x && readableList xs) = true := h
      simpa using this
    intro it hit
    rcases List.mem_cons.mp hit with rfl | hit
    · exact el_val x h'.1
    · exact el_list xs h'.2 it hit
theorem el_map : (kvs : List (String × Val)) → readableMap kvs = true → ∀ it ∈ mapItems kvs, El it.1 it.2
  | [], _ => by intro it hit; cases hit
  | (k, v) :: kvs, h => by
    have h' : (readableStr k = true ∧ readableData v = true) ∧ readableMap kvs = true := by
      have : (readableStr k && readableData v && readableMap kvs) = true := h
      simpa using this
    intro it hit
    have hit' : it = (prString true k, [strTok k]) ∨ it = (prStr true v, toksOf v) ∨ it ∈ mapItems kvs := by
      simpa [mapItems] using hit
    rcases hit' with rfl | rfl | hit'
    · exact el_readableStr h'.1.1
    · exact el_val v h'.1.2
    · exact el_map kvs h'.2 it hit'
end

end LispModel.Proofs.PrintRead

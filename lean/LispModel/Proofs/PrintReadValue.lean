/-
  C06, scanner level: the tokens of a printed value.  `toksOf v` is the expected token list (kind
  and text) of `Print.prStr true v`; `el_val`: for every readable data value the printed text,
  followed by a delimiter, is scanned as `toksOf v`.  Core Lean only.
-/
import LispModel.Spec.Readable
import LispModel.Proofs.Preamble
import LispModel.Proofs.PrintReadToks
namespace LispModel.Proofs.PrintRead
open LispModel LispModel.Scan LispModel.Read LispModel.Print

theorem toUTF8_eq (s : String) : s.toUTF8.toList = utf8 s.toList := by
  have := Preamble.toUTF8_ofList s.toList
  rw [String.ofList_toList] at this
  exact this

theorem tokensOfString_eq (s : String) : tokensOfString s = tokenizeRunes (runesOf s.toList) := by
  rw [tokensOfString, tokenize, toUTF8_eq, decodeAll_utf8]

/-- kind and text of the single token of a spelling (symbols, keywords) -/
def symTok (s : String) : KT :=
  match tokensOfString s with
  | .ok [t] => (t.kind, t.text)
  | _ => (.ident, [])

/-- the token of a keyword string `ʞname`: that of `:name` -/
def kwTok (s : String) : KT :=
  match s.toList with
  | _ :: name => symTok (String.ofList (':' :: name))
  | [] => (.keyword, [])

/-- is the string printed in the raw form? -/
def isRawStr (s : String) : Bool := ['{', '"'].isPrefixOf s.toList && s.toList.getLast? == some '}'

/-- the token of a printed string -/
def strTok (s : String) : KT :=
  if Val.isKwStr s then kwTok s
  else (if isRawStr s then .rawString else .string, (prString true s).map Char.toNat)

mutual
/-- the tokens of `prStr true v` -/
def toksOf : Val → List KT
  | .nil => [(.ident, [110, 105, 108])]
  | .bool true => [(.ident, [116, 114, 117, 101])]
  | .bool false => [(.ident, [102, 97, 108, 115, 101])]
  | .int i => [(.int, (intStr i).map Char.toNat)]
  | .str s => [strTok s]
  | .sym s _ => [symTok s]
  | .list xs _ => (.char 40, [40]) :: toksList xs ++ [(.char 41, [41])]
  | .vec xs _ => (.char 91, [91]) :: toksList xs ++ [(.char 93, [93])]
  | .map kvs => (.char 123, [123]) :: toksMap kvs ++ [(.char 125, [125])]
  | .set ks => (.ident, [35, 123]) :: ks.map strTok ++ [(.char 125, [125])]
  | _ => []
def toksList : List Val → List KT
  | [] => []
  | x :: xs => toksOf x ++ toksList xs
def toksMap : List (String × Val) → List KT
  | [] => []
  | (k, v) :: r => strTok k :: (toksOf v ++ toksMap r)
end

/-! ### atoms -/

theorem tokStr_toList (t : Token) : (tokStr t).toList = t.text.map Char.ofNat := by
  simp [tokStr, strOf]

/-- a spelling that the scanner turns into exactly one symbol / keyword token with that text -/
theorem el_of_single (s : String) (t : Token) (h : tokensOfString s = .ok [t]) (hs : tokStr t = s)
    (hk : AtomKind t.kind) : El s.toList [(t.kind, t.text)] := by
  rw [tokensOfString_eq] at h
  have hlen : t.text.length = s.toList.length := by
    rw [← hs, tokStr_toList]; simp
  obtain ⟨hne, _, hsc⟩ := readable_scan s.toList t h hk hlen
  exact El.single hne (fun d S p hd hp => hsc d S hd p hp)

theorem symTok_eq {s : String} {t : Token} (h : tokensOfString s = .ok [t]) : symTok s = (t.kind, t.text) := by
  simp [symTok, h]

/-- what `readableSym` says -/
theorem readableSym_spec {s : String} (h : readableSym s = true) :
    ∃ t, tokensOfString s = .ok [t] ∧ tokStr t = s ∧
      ((t.kind = .ident ∧ s ≠ "nil" ∧ s ≠ "true" ∧ s ≠ "false") ∨ ∃ c, t.kind = .char c) := by
  unfold readableSym at h
  split at h
  · rename_i t ht
    refine ⟨t, ht, ?_⟩
    simp only [Bool.and_eq_true, beq_iff_eq] at h
    obtain ⟨h1, h2⟩ := h
    refine ⟨h1, ?_⟩
    split at h2
    · rename_i hk
      simp only [Bool.and_eq_true, bne_iff_ne, ne_eq] at h2
      exact Or.inl ⟨hk, h2.1.1.1.1, h2.1.1.1.2, h2.1.1.2⟩
    · rename_i c hk
      exact Or.inr ⟨c, hk⟩
    · cases h2
  · cases h

theorem el_sym {s : String} (h : readableSym s = true) : El s.toList [symTok s] := by
  obtain ⟨t, ht, hs, hk⟩ := readableSym_spec h
  rw [symTok_eq ht]
  refine el_of_single s t ht hs ?_
  rcases hk with ⟨hk, _⟩ | ⟨c, hk⟩
  · exact Or.inl hk
  · exact Or.inr (Or.inr ⟨c, hk⟩)

theorem el_nil : El (prStr true .nil) (toksOf .nil) :=
  el_of_single "nil" ⟨.ident, [110, 105, 108], 1, 4, 3⟩
    (by rw [tokensOfString_eq]; decide) (by decide) (Or.inl rfl)

theorem el_true : El (prStr true (.bool true)) (toksOf (.bool true)) :=
  el_of_single "true" ⟨.ident, [116, 114, 117, 101], 1, 5, 4⟩
    (by rw [tokensOfString_eq]; decide) (by decide) (Or.inl rfl)

theorem el_false : El (prStr true (.bool false)) (toksOf (.bool false)) :=
  el_of_single "false" ⟨.ident, [102, 97, 108, 115, 101], 1, 6, 5⟩
    (by rw [tokensOfString_eq]; decide) (by decide) (Or.inl rfl)

/-- a token at a delimiter, from a scan that ends on `next (d :: S) q` -/
theorem El.single_next {text : List Char} {k : Kind} {t : List Nat} (hne : HeadOk text)
    (h : ∀ (d : Rune) (S : List Rune) (p : PState), IsDelim d → p.errs = 0 → ∃ q,
      (∀ F : Nat, scan (F + 1) (next (runesOf text ++ d :: S) p).2.1 (next (runesOf text ++ d :: S) p).1
        (next (runesOf text ++ d :: S) p).2.2 = (some (k, t), next (d :: S) q)) ∧ q.errs = 0) :
    El text [(k, t)] := by
  refine El.single hne (fun d S p hd hp => ?_)
  obtain ⟨q, hq, he⟩ := h d S p hd hp
  obtain ⟨q', hq', he'⟩ := next_delim hd S q
  exact ⟨q', fun F => by rw [hq F, hq'], by rw [he', he]⟩

theorem el_int (i : Int) : El (prStr true (.int i)) (toksOf (.int i)) := by
  show El (intStr i) [(.int, (intStr i).map Char.toNat)]
  refine El.single_next ?_ (fun d S p hd hp => scan_int i (Or.inr ⟨d, S, rfl, hd⟩) p hp)
  cases i with
  | ofNat n =>
    obtain ⟨c, r, hcr, hc, _⟩ := natDigits_spec (n + 1) n (by omega)
    exact ⟨c, r, by simp [intStr, hcr], by obtain ⟨a, b⟩ := hc; omega⟩
  | negSucc n => exact ⟨'-', _, rfl, by decide⟩

/-! ### strings and keywords -/

/-- what `readableKw` says -/
theorem readableKw_spec {s : String} (h : readableKw s = true) :
    ∃ name t, s.toList = kwMarker :: name ∧ tokensOfString (String.ofList (':' :: name)) = .ok [t] ∧
      t.kind = .keyword ∧ tokStr t = String.ofList (':' :: name) := by
  unfold readableKw at h
  split at h
  · rename_i c name hs
    simp only [Bool.and_eq_true, beq_iff_eq] at h
    obtain ⟨hc, h2⟩ := h
    split at h2
    · rename_i t ht
      simp only [Bool.and_eq_true, decide_eq_true_eq, beq_iff_eq] at h2
      exact ⟨name, t, by rw [hs, hc], ht, h2.1, h2.2⟩
    · cases h2
  · cases h

theorem prString_kw {s : String} {name : List Char} (b : Bool) (h : s.toList = kwMarker :: name) :
    prString b s = ':' :: name := by
  unfold prString
  simp only [h]
  simp

theorem isKwStr_of {s : String} {name : List Char} (h : s.toList = kwMarker :: name) : Val.isKwStr s = true := by
  simp [Val.isKwStr, h]

theorem kwTok_eq {s : String} {name : List Char} {t : Token} (h : s.toList = kwMarker :: name)
    (ht : tokensOfString (String.ofList (':' :: name)) = .ok [t]) : kwTok s = (t.kind, t.text) := by
  simp only [kwTok, h]
  exact symTok_eq ht

theorem el_kw {s : String} (h : readableKw s = true) : El (prString true s) [strTok s] := by
  obtain ⟨name, t, hs, ht, hk, htx⟩ := readableKw_spec h
  rw [prString_kw true hs]
  have e : strTok s = (t.kind, t.text) := by
    simp only [strTok, isKwStr_of hs, if_true]
    exact kwTok_eq hs ht
  rw [e]
  have := el_of_single _ t ht htx (Or.inr (Or.inl hk))
  rwa [String.toList_ofList] at this

theorem isRawStr_iff (s : String) :
    isRawStr s = true ↔ (['{', '"'].isPrefixOf s.toList = true ∧ s.toList.getLast? = some '}') := by
  simp [isRawStr]

theorem prString_raw {s : String} (hkw : Val.isKwStr s = false) (hraw : isRawStr s = true) :
    prString true s = '¬' :: rawBody s.toList ++ ['¬'] := by
  have hr := (isRawStr_iff s).mp hraw
  unfold prString
  unfold Val.isKwStr at hkw
  generalize s.toList = cs at *
  cases cs with
  | nil => simp at hr
  | cons c rest =>
    have hc : ¬ c = kwMarker := by simpa using hkw
    simp only [hc, if_false, if_true, if_pos hr]

theorem el_str {s : String} (hkw : Val.isKwStr s = false) (hnul : Char.ofNat 0 ∉ s.toList) :
    El (prString true s) [strTok s] := by
  have e : strTok s = (if isRawStr s then .rawString else .string, (prString true s).map Char.toNat) := by
    simp only [strTok, hkw, Bool.false_eq_true, if_false]
  rw [e]
  by_cases hraw : isRawStr s = true
  · rw [if_pos hraw, prString_raw hkw hraw]
    refine El.single_next ⟨'¬', _, rfl, by decide⟩ (fun d S p hd hp => ?_)
    obtain ⟨p1, hp1, he1⟩ := ScanString.next_good 172 ('¬').utf8Size
      (runesOf (rawBody s.toList ++ ['¬']) ++ d :: S) p (by decide) (by decide)
    have hp1' : next (runesOf ('¬' :: rawBody s.toList ++ ['¬']) ++ d :: S) p =
        ((172 : Int), runesOf (rawBody s.toList ++ ['¬']) ++ d :: S, p1) := hp1
    rw [hp1']
    obtain ⟨q, hq, he⟩ := scan_raw (tail := d :: S)
      (fun d' S' h => by
        injection h with h1 _; subst h1
        obtain ⟨_, h | h | h | h⟩ := hd <;> rw [h] <;> decide) s.toList hnul p1
    exact ⟨q, hq, by rw [he, he1, hp]⟩
  · rw [if_neg hraw]
    have hraw' : ¬ (['{', '"'].isPrefixOf s.toList = true ∧ s.toList.getLast? = some '}') :=
      fun h => hraw ((isRawStr_iff s).mpr h)
    rw [ScanString.prString_quoted s hkw hraw']
    refine El.single_next ⟨'"', _, rfl, by decide⟩ (fun d S p hd hp => ?_)
    obtain ⟨p1, hp1, he1⟩ := ScanString.next_good 34 ('"').utf8Size
      (runesOf (RoundTrip.esc s.toList ++ ['"']) ++ d :: S) p (by decide) (by decide)
    have hp1' : next (runesOf ('"' :: RoundTrip.esc s.toList ++ ['"']) ++ d :: S) p =
        ((34 : Int), runesOf (RoundTrip.esc s.toList ++ ['"']) ++ d :: S, p1) := hp1
    rw [hp1']
    obtain ⟨q, hq, he⟩ := scan_quoted s.toList hnul (d :: S) p1 (by rw [he1, hp])
    exact ⟨q, hq, he⟩

/-- every readable string (keyword or not), printed readably and followed by a delimiter -/
theorem el_readableStr {s : String} (h : readableStr s = true) : El (prString true s) [strTok s] := by
  unfold readableStr at h
  by_cases hkw : Val.isKwStr s = true
  · rw [if_pos hkw] at h; exact el_kw h
  · rw [if_neg hkw] at h
    have hkw' : Val.isKwStr s = false := by simpa using hkw
    exact el_str hkw' (by simpa using h)

end LispModel.Proofs.PrintRead

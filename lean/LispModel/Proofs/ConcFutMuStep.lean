/-
  C10 proofs, part 3: the `mu` discipline is preserved by every step of the fixed programs.
-/
import LispModel.Proofs.ConcFutMu
namespace LispModel.Proofs.ConcFut
open LispModel.Conc LispModel.Conc.Fut

theorem OwnerOK.names {o : Owner} {fr : FFrame} (h : OwnerOK o fr) : fr.name ∈ futNames := by
  cases o with
  | thr t => exact List.mem_cons_of_mem _ h
  | body f => simp [futNames, h.1]

/-- the stepping owner `o` (old frame `fr` on future `f`) gets the frame `frNew`; `mu` of `f` changes as
    `e` says; everything else is untouched -/
theorem MuInv.update {s s' : FState} {o : Owner} {fr : FFrame} {f : Nat} {frNew : Option FFrame} {e : EffF}
    (h : MuInv s) (hfo : frameOf s o = some fr) (hf : fr.fut = f)
    (hfo' : frameOf s' o = frNew) (hother : ∀ o', o' ≠ o → frameOf s' o' = frameOf s o')
    (hmuOther : ∀ g, g ≠ f → (s'.futs g).mu = (s.futs g).mu)
    (hspec : MuSpec o e (s.futs f) (s'.futs f)) (hpre : preMuB e (holdsMu fr) = true)
    (hnew : match frNew with
      | some fr' => FFrameWF fr' ∧ OwnerOK o fr' ∧ fr'.fut = f ∧ holdsMu fr' = newMu e (holdsMu fr)
      | none => newMu e (holdsMu fr) = false) : MuInv s' := by
  have hold : (s.futs f).mu = some o ↔ holdsMu fr = true := by
    rw [h.mu_iff f o]
    constructor
    · rintro ⟨fr0, h1, -, h3⟩; rw [hfo] at h1; cases h1; exact h3
    · intro h3; exact ⟨fr, hfo, hf, h3⟩
  constructor
  · intro o' fr' hfr'
    by_cases ho : o' = o
    · subst ho
      rw [hfo'] at hfr'; subst hfr'
      exact ⟨hnew.1, hnew.2.1⟩
    · rw [hother o' ho] at hfr'; exact h.wf o' fr' hfr'
  · intro g o'
    by_cases hg : g = f
    · subst hg
      by_cases ho : o' = o
      · subst ho
        rw [hfo']
        cases frNew with
        | none =>
          simp only at hnew
          constructor
          · intro hm
            exfalso
            cases e <;> simp only [MuSpec, newMu] at hspec hnew
            · rw [hspec] at hm; rw [hold.mp hm] at hnew; cases hnew
            · cases hnew
            · rw [hspec] at hm; cases hm
          · rintro ⟨fr0, h1, -⟩; cases h1
        | some fr' =>
          simp only at hnew
          obtain ⟨-, -, hfut, hh⟩ := hnew
          constructor
          · intro hm
            refine ⟨fr', rfl, hfut, ?_⟩
            rw [hh]
            cases e <;> simp only [MuSpec, newMu] at hspec ⊢
            · rw [hspec] at hm; exact hold.mp hm
            · rw [hspec] at hm; cases hm
          · rintro ⟨fr0, h1, -, h3⟩
            cases h1
            rw [hh] at h3
            cases e <;> simp only [MuSpec, newMu] at hspec h3
            · rw [hspec]; exact hold.mpr h3
            · exact hspec.2
            · cases h3
      · rw [hother o' ho, ← h.mu_iff g o']
        cases e <;> simp only [MuSpec, preMuB] at hspec hpre
        · rw [hspec]
        · rw [hspec.1, hspec.2]
          constructor
          · intro hm; cases hm; exact absurd rfl ho
          · intro hm; cases hm
        · rw [hspec, hold.mpr hpre]
          constructor
          · intro hm; cases hm
          · intro hm; cases hm; exact absurd rfl ho
    · rw [hmuOther g hg]
      by_cases ho : o' = o
      · subst ho
        rw [hfo']
        constructor
        · intro hm
          obtain ⟨fr0, h1, h2, -⟩ := (h.mu_iff g o').mp hm
          rw [hfo] at h1; cases h1
          exact absurd (h2.symm.trans hf) hg
        · rintro ⟨fr0, h1, h2, -⟩
          subst h1
          simp only at hnew
          exact absurd (h2.symm.trans hnew.2.2.1) hg
      · rw [hother o' ho]; exact h.mu_iff g o'

theorem MuInv.of_eq {s s' : FState} (h : MuInv s) (hf : ∀ o, frameOf s' o = frameOf s o)
    (hm : ∀ f, (s'.futs f).mu = (s.futs f).mu) : MuInv s' := by
  constructor
  · intro o fr hfr; rw [hf] at hfr; exact h.wf o fr hfr
  · intro f o; rw [hm, hf]; exact h.mu_iff f o

theorem MuInv.step {s s' : FState} {l : Label} (h : MuInv s) (hs : fstep prog s l = some s') : MuInv s' := by
  have hk := fstep_kind hs
  cases hk with
  | endCtx t =>
    refine h.of_eq ?_ (fun f => rfl)
    intro o
    cases o with
    | thr u => by_cases hu : u = t <;> simp [frameOf, upd, hu]
    | body g => rfl
  | start t arm op more hc htd =>
    have hnew : FFrameWF op.frame ∧ op.frame.name ∈ clientNames ∧ holdsMu op.frame = false := by
      cases op <;> simp [FOp.frame, FOp.name, FFrameWF, holdsMu, holdsMuAt, defersAtF, clientNames, prog, progFixed,
        cancelFixed, derefFFixed, derefFBaseline, isDoneFixed, isCancelledFixed]
    constructor
    · intro o fr hfr
      cases o with
      | thr u =>
        by_cases hu : u = t
        · subst hu; simp [frameOf, upd] at hfr; subst hfr; exact ⟨hnew.1, hnew.2.1⟩
        · simp [frameOf, upd, hu] at hfr; exact h.wf (.thr u) fr hfr
      | body g => exact h.wf (.body g) fr hfr
    · intro f o
      cases o with
      | thr u =>
        by_cases hu : u = t
        · subst hu
          simp only [frameOf, upd, if_true]
          constructor
          · intro hm
            obtain ⟨fr0, h1, -⟩ := (h.mu_iff f (.thr u)).mp hm
            simp [frameOf, hc] at h1
          · rintro ⟨fr0, h1, -, h3⟩
            simp at h1; subst h1; rw [hnew.2.2] at h3; cases h3
        · simpa [frameOf, upd, hu] using h.mu_iff f (.thr u)
      | body g => simpa [frameOf] using h.mu_iff f (.body g)
  | bodyStep f fr fr' F' hb hk =>
    obtain ⟨hwf, hok⟩ := h.wf (.body f) fr hb
    obtain ⟨hwf', hname, hfut, hbody, e, hspec, hpre, hnew⟩ := fframe_step hwf hok.names hk
    refine h.update (o := .body f) (f := f) (frNew := some fr') (e := e) hb hok.2 ?_ ?_ ?_ ?_ hpre ?_
    · simp [frameOf, upd]
    · intro o' ho
      cases o' with
      | thr u => rfl
      | body g =>
        have hg : g ≠ f := fun hg => ho (by rw [hg])
        simp [frameOf, upd, hg]
    · intro g hg; simp [upd, hg]
    · cases e <;> simpa [MuSpec, upd] using hspec
    · exact ⟨hwf', ⟨hname.trans hok.1, hfut.trans hok.2⟩, hfut.trans hok.2, hnew⟩
  | bodyRet f fr fr' F' hb hk =>
    obtain ⟨hwf, hok⟩ := h.wf (.body f) fr hb
    obtain ⟨h1, h2, hfree⟩ := fframe_step hwf hok.names hk
    subst h2
    refine h.update (o := .body f) (f := f) (frNew := none) (e := .none) hb hok.2 ?_ ?_ ?_ ?_ rfl ?_
    · simp [frameOf, upd]
    · intro o' ho
      cases o' with
      | thr u => rfl
      | body g =>
        have hg : g ≠ f := fun hg => ho (by rw [hg])
        simp [frameOf, upd, hg]
    · intro g hg; simp [upd, hg]
    · simp [MuSpec, upd]
    · simpa [newMu] using hfree
  | thrStep t arm fr fr' F' hc hk =>
    obtain ⟨hwf, hok⟩ := h.wf (.thr t) fr hc
    obtain ⟨hwf', hname, hfut, hbody, e, hspec, hpre, hnew⟩ := fframe_step hwf hok.names hk
    refine h.update (o := .thr t) (f := fr.fut) (frNew := some fr') (e := e) hc rfl ?_ ?_ ?_ ?_ hpre ?_
    · simp [frameOf, upd]
    · intro o' ho
      cases o' with
      | thr u =>
        have hu : u ≠ t := fun hu => ho (by rw [hu])
        simp [frameOf, upd, hu]
      | body g =>
        by_cases hg : g = fr.fut
        · subst hg; simp [frameOf, upd, hbody]
        · simp [frameOf, upd, hg]
    · intro g hg; simp [upd, hg]
    · cases e <;> simpa [MuSpec, upd] using hspec
    · exact ⟨hwf', by simpa [OwnerOK, hname] using hok, hfut, hnew⟩
  | thrRet t arm fr fr' F' hc hk =>
    obtain ⟨hwf, hok⟩ := h.wf (.thr t) fr hc
    obtain ⟨h1, h2, hfree⟩ := fframe_step hwf hok.names hk
    subst h2
    refine h.update (o := .thr t) (f := fr.fut) (frNew := none) (e := .none) hc rfl ?_ ?_ ?_ ?_ rfl ?_
    · simp [frameOf, upd]
    · intro o' ho
      cases o' with
      | thr u =>
        have hu : u ≠ t := fun hu => ho (by rw [hu])
        simp [frameOf, upd, hu]
      | body g =>
        by_cases hg : g = fr.fut
        · subst hg; simp [frameOf, upd]
        · simp [frameOf, upd, hg]
    · intro g hg; simp [upd, hg]
    · simp [MuSpec, upd]
    · simpa [newMu] using hfree

theorem MuInv.init (kinds : List BodyKind) (progs : List (List FOp)) : MuInv (finit kinds progs) := by
  constructor
  · intro o fr hfr
    cases o with
    | thr t => simp [frameOf, finit] at hfr
    | body f =>
      simp only [frameOf, finit] at hfr
      split at hfr
      · cases hfr
        simp [FFrameWF, OwnerOK, defersAtF, prog, progFixed, bodyFixed]
      · cases hfr
  · intro f o
    constructor
    · intro hm; simp [finit] at hm
    · rintro ⟨fr, h1, -, h3⟩
      cases o with
      | thr t => simp [frameOf, finit] at h1
      | body g =>
        simp only [frameOf, finit] at h1
        split at h1
        · cases h1; simp [holdsMu, holdsMuAt] at h3
        · cases h1

theorem MuInv.run {sched : List Label} {s s' : FState} (h : MuInv s) (hr : frun prog sched s = some s') :
    MuInv s' := by
  induction sched generalizing s with
  | nil => simp [frun] at hr; subst hr; exact h
  | cons l ls ih =>
    simp only [frun, Option.bind_eq_some_iff] at hr
    obtain ⟨s1, h1, h2⟩ := hr
    exact ih (h.step h1) h2

/-- states reachable by the fixed programs -/
def FReachable (kinds : List BodyKind) (progs : List (List FOp)) (s : FState) : Prop :=
  ∃ sched, frun prog sched (finit kinds progs) = some s

theorem mu_discipline {kinds progs s} (hr : FReachable kinds progs s) : MuInv s := by
  obtain ⟨sched, h⟩ := hr
  exact (MuInv.init kinds progs).run h

end LispModel.Proofs.ConcFut

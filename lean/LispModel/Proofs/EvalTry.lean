/-
  Proofs for C03 (throw / catch / finally) and C04 (every failure is a returned, catchable error):
  laws of the `try` arm of `evalLoop` and error-propagation lemmas.
  The arm functions (`tryForm`, `tryArm`, `handlerStage`, `finallyStage`, …) are the literal pieces of
  `evalLoop` defined in Proofs/EvalCancel.lean (`evalLoop_succ` is `rfl`).
-/
import LispModel.Proofs.EvalCancel
namespace LispModel.Proofs.EvalTry
open LispModel LispModel.Core LispModel.Proofs.EvalCancel

/-! ### the `try` form, one step -/

/-- `(try a ops…)` with `try` not shadowed by a macro: one poll, then operand splitting and the three stages
    body → catch handler → finally -/
theorem evalLoop_try {st : State} (hl : Live st) {env : Nat} (hm : NotMacro st env "try") (F p a ops pos d) :
    evalLoop (F + 2) st env (.list (.sym "try" p :: a :: ops) pos) d =
      match splitTry (.sym "try" p :: a :: ops) with
      | .error msg => (.err (newLispError (.plain msg) (.list (.sym "try" p :: a :: ops) pos)), tick st)
      | .ok parts => tryArm (F + 1) (tick st) env parts d := by
  rw [evalLoop_dispatch hl hm, dispatch_try]
  simp only [tryForm, List.isEmpty_cons, Bool.false_eq_true, ↓reduceIte]
  rfl

/-- `(try)` is `nil` -/
theorem evalLoop_try_empty {st : State} (hl : Live st) {env : Nat} (hm : NotMacro st env "try") (F p pos d) :
    evalLoop (F + 2) st env (.list [.sym "try" p] pos) d = (.ok .nil, tick st) := by
  rw [evalLoop_dispatch hl hm, dispatch_try]; rfl

/-! ### stage laws -/

theorem handlerStage_ok (F parts env d v s1) : handlerStage F parts env d (.ok v, s1) = (.ok v, s1) := rfl
theorem handlerStage_oof (F parts env d s1) : handlerStage F parts env d (.oof, s1) = (.oof, s1) := rfl

/-- body threw and there is a catch clause whose variable binds: the handler forms are evaluated by
    `do(handler, 0, 0)` (`doForms … keepLast = false`: every form evaluated, last VALUE returned) in a fresh
    scope whose only bindings are `data` and whose outer scope is the scope of the try form -/
theorem handlerStage_caught (F : Nat) (parts : TryParts) (env d : Nat) (e : Err) (s1 : State)
    {handler : List Val} {bind : Val} {data : List (String × Val)}
    (hd : parts.catchDo = some handler) (hb : parts.catchBind = some bind)
    (hbind : bindParams (.list [bind] none) [caughtValue e] = .ok data) :
    handlerStage F parts env d (.err e, s1) =
      doForms F (s1.newScope env data).1 (s1.newScope env data).2 handler 0 false d := by
  simp only [handlerStage, hd, hb, hbind]

/-- no catch clause: the error passes through the handler stage untouched -/
theorem handlerStage_uncaught (F : Nat) (parts : TryParts) (env d : Nat) (e : Err) (s1 : State)
    (hd : parts.catchDo = none) : handlerStage F parts env d (.err e, s1) = (.err e, s1) := by
  simp only [handlerStage, hd]

theorem finallyStage_oof (F parts env d s) : finallyStage F parts env d (.oof, s) = (.oof, s) := rfl

/-- with a finally clause: its forms are evaluated exactly once, by one `do(fin, 0, 0)` in the scope `env`
    of the try form, on the state left by body/handler; value and error of that run are discarded -/
theorem finallyStage_some (F : Nat) (parts : TryParts) (env d : Nat) (r : Res Val) (hr : r ≠ .oof) (s : State)
    {fin : List Val} (hf : parts.finallyDo = some fin) :
    finallyStage F parts env d (r, s) =
      match doForms F s env fin 0 false d with
      | (.oof, s') => (.oof, s')
      | (_, s') => (r, s') := by
  simp only [finallyStage, hf]
  rfl

/-- without a finally clause nothing more is evaluated -/
theorem finallyStage_none (F : Nat) (parts : TryParts) (env d : Nat) (r : Res Val) (hr : r ≠ .oof) (s : State)
    (hs : s.stepper = none) (hf : parts.finallyDo = none) :
    finallyStage F parts env d (r, s) = (r, s) := by
  simp only [finallyStage, hf, outing1Defer, hs]

/-- the finally stage never changes the outcome: the result is the pending one, or out-of-fuel -/
theorem finallyStage_result (F : Nat) (parts : TryParts) (env d : Nat) (rh : R) :
    (finallyStage F parts env d rh).1 = rh.1 ∨ (finallyStage F parts env d rh).1 = .oof := by
  obtain ⟨r, s⟩ := rh
  unfold finallyStage
  dsimp only
  split
  · left; rfl
  · split
    · left; rfl
    · split
      · right; rfl
      · left; rfl

/-! ### operand splitting of the canonical shapes -/

theorem getLast_snoc (t : Val) (body : List Val) (c : Val) : (t :: (body ++ [c])).getLast? = some c := by
  have : t :: (body ++ [c]) = (t :: body) ++ [c] := rfl
  rw [this, List.getLast?_append]; simp

theorem splitTry_catch (t : Val) (body : List Val) (q : Option Pos) (b h0 : Val) (hs : List Val) (cp : Option Pos) :
    splitTry (t :: (body ++ [.list (.sym "catch" q :: b :: h0 :: hs) cp])) =
      .ok { body := body, catchBind := some b, catchDo := some (h0 :: hs) } := by
  unfold splitTry
  simp [firstSym, getLast_snoc]

theorem getD_snoc2 (t : Val) (body : List Val) (c f : Val) :
    (t :: (body ++ [c, f])).getD (body.length + 1) .nil = c := by
  simp [List.getD]

theorem splitTry_catch_finally (t : Val) (body : List Val) (q : Option Pos) (b h0 : Val) (hs : List Val)
    (cp : Option Pos) (q' : Option Pos) (fin : List Val) (fp : Option Pos) :
    splitTry (t :: (body ++ [.list (.sym "catch" q :: b :: h0 :: hs) cp, .list (.sym "finally" q' :: fin) fp])) =
      .ok { body := body, catchBind := some b, catchDo := some (h0 :: hs), finallyDo := some fin } := by
  have hl := getLast_snoc t (body ++ [.list (.sym "catch" q :: b :: h0 :: hs) cp]) (.list (.sym "finally" q' :: fin) fp)
  simp only [List.append_assoc, List.cons_append, List.nil_append] at hl
  unfold splitTry
  simp [firstSym, hl]

theorem splitTry_finally (t : Val) (body : List Val) (q' : Option Pos) (fin : List Val) (fp : Option Pos)
    (hpre : firstSym (body.getLast?.getD .nil) ≠ "catch") :
    splitTry (t :: (body ++ [.list (.sym "finally" q' :: fin) fp])) =
      .ok { body := body, finallyDo := some fin } := by
  unfold splitTry
  have hp : firstSym (if (t :: (body ++ [Val.list (.sym "finally" q' :: fin) fp])).length ≥ 3 then
      (t :: (body ++ [Val.list (.sym "finally" q' :: fin) fp])).getD
        ((t :: (body ++ [Val.list (.sym "finally" q' :: fin) fp])).length - 2) .nil else .nil) ≠ "catch" := by
    rcases List.eq_nil_or_concat body with rfl | ⟨b', x, rfl⟩
    · simp [firstSym]
    · simpa [List.getD, firstSym] using hpre
  simp only [getLast_snoc, Option.getD_some]
  simp [firstSym] at hp ⊢
  intro h; exact absurd h hp

theorem splitTry_plain (t : Val) (ops : List Val)
    (h1 : firstSym ((t :: ops).getLast?.getD .nil) ≠ "catch")
    (h2 : firstSym ((t :: ops).getLast?.getD .nil) ≠ "finally") :
    splitTry (t :: ops) = .ok { body := ops } := by
  unfold splitTry
  simp only [h1, h2, ↓reduceIte, List.drop_one, List.tail_cons]

/-! ### the thrown value is never altered -/

/-- re-wrapping keeps the payload of a lisp error -/
theorem caughtValue_newLispError_lisp (v : Val) (pos : Option Pos) (c : Val) :
    caughtValue (newLispError (.lisp v pos) c) = v := by
  cases pos <;> rfl

/-- a plain Go error becomes the Go error object (`Val.goerr`), not its message string -/
theorem caughtValue_newLispError_plain (msg : String) (c : Val) :
    caughtValue (newLispError (.plain msg) c) = .goerr msg := rfl

/-- re-wrapping an already positioned lisp error is the identity -/
theorem newLispError_positioned (v : Val) (pos : Pos) (c : Val) :
    newLispError (.lisp v (some pos)) c = .lisp v (some pos) := rfl

theorem newLispError_idem (e : Err) (c c' : Val) :
    caughtValue (newLispError (newLispError e c) c') = caughtValue (newLispError e c) := by
  cases e with
  | lisp v pos => cases pos <;> simp [newLispError, caughtValue] <;> cases getPosition c <;> rfl
  | plain m => simp [newLispError, caughtValue]; cases getPosition c <;> rfl

/-- the builtin `throw`: a lisp value is thrown as it is; a Go error object is returned as that Go error -/
theorem call_throw (v : Val) :
    Core.call "throw" [v] = some (match v with | .goerr m => .goerr m | v => .thrown v) := by
  cases v <;> rfl

/-- either way the error coming out of the builtin carries exactly `v` as payload -/
theorem callBuiltin_throw (F : Nat) (st : State) (v : Val) (d : Nat) :
    callBuiltin (F + 1) st "throw" [v] d = (.err (.lisp v none), st) := by
  rw [callBuiltin.eq_def]
  cases v <;> simp [call_throw]

/-! ### errors propagate unchanged -/

theorem evalList_cons_err {F st env x d e s1} (h : eval F st env x (d + 1) = (.err e, s1)) (xs : List Val) :
    evalList (F + 1) st env (x :: xs) d = (.err e, s1) := by
  rw [evalList, h]

theorem evalList_cons_ok {F st env x d v s1} (h : eval F st env x (d + 1) = (.ok v, s1)) (xs : List Val) :
    evalList (F + 1) st env (x :: xs) d =
      match evalList F s1 env xs d with
      | (.ok vs, s) => (.ok (v :: vs), s)
      | r => r := by
  rw [evalList, h]; rfl

/-- an error returned by the element loop of `eval_ast` is, unchanged, the error of one of its elements
    (and the state is the one that element left) -/
theorem evalList_err_origin {xs : List Val} : ∀ {F st env d e s'},
    evalList F st env xs d = (.err e, s') →
    ∃ x ∈ xs, ∃ F' s0, eval F' s0 env x (d + 1) = (.err e, s') := by
  induction xs with
  | nil =>
    intro F st env d e s' h
    cases F with
    | zero => rw [evalList] at h; cases h
    | succ F => rw [evalList] at h; cases h
  | cons x xs ih =>
    intro F st env d e s' h
    cases F with
    | zero => rw [evalList] at h; cases h
    | succ F =>
      rw [evalList] at h
      split at h
      · split at h
        · cases h
        · obtain ⟨y, hy, r⟩ := ih h
          exact ⟨y, List.mem_cons_of_mem _ hy, r⟩
      · cases h; exact ⟨x, List.mem_cons_self, F, st, ‹_›⟩
      · cases h

/-- `do()` (no stepper) returns the error of its element loop unchanged -/
theorem doForms_err_origin {F st env lst fr kl d e s'} (hs : st.stepper = none)
    (h : doForms F st env lst fr kl d = (.err e, s')) :
    ∃ x ∈ lst, ∃ F' s0, eval F' s0 env x (d + 1) = (.err e, s') := by
  cases F with
  | zero => rw [doForms] at h; cases h
  | succ F =>
    rw [doForms_noStepper hs] at h
    split at h
    · cases h
    · split at h
      · split at h <;> cases h
      · cases h
        obtain ⟨y, hy, r⟩ := evalList_err_origin ‹_›
        refine ⟨y, ?_, r⟩
        split at hy
        · exact List.mem_of_mem_drop (List.dropLast_subset _ hy)
        · exact List.mem_of_mem_drop hy
      · cases h

/-- `let`: the error of a binding's init form is returned unchanged -/
theorem letBinds_err {F st env name p x rest a1 d e s1} (h : eval F st env x (d + 1) = (.err e, s1)) :
    letBinds (F + 1) st env (.sym name p :: x :: rest) a1 d = (.err e, s1) := by
  rw [letBinds, h]

/-- `if`: the error of the condition is returned unchanged -/
theorem ifArm_err {F st env lst a1 a2 d e s1} (h : eval F st env a1 (d + 1) = (.err e, s1)) :
    ifArm F st env lst a1 a2 d = (.err e, s1) := by
  simp only [ifArm, h]

/-- `def`: the error of the value form is returned unchanged (and nothing is bound) -/
theorem defArm_err {F st env a1 a2 ast d e s1} (h : eval F st env a2 (d + 1) = (.err e, s1)) :
    defArm F st env a1 a2 ast d = (.err e, s1) := by
  simp only [defArm, h]

/-- application: an error while evaluating operator or operands is returned unchanged -/
theorem appArm_err {F st env lst ast d e s1} (h : evalList F st env lst d = (.err e, s1)) :
    appArm F st env lst ast d = (.err e, s1) := by
  simp only [appArm, h]

/-- application of a closure: the call IS the evaluation of the body (same loop, same depth) in the new
    scope, so whatever the body returns or throws is the result of the call, unchanged -/
theorem callArm_closure {F st params body fenv m fp args ast d data} (hs : st.stepper = none)
    (hb : bindParams params args = .ok data) :
    callArm F st (.fn params body fenv m fp :: args) ast d =
      evalLoop F (st.newScope fenv data).1 (st.newScope fenv data).2 body d := by
  simp only [callArm, hb]
  exact continueWith_noStepper (by exact hs) F d _ body

/-- application of a Go builtin: its error is re-wrapped by `NewLispError(err, ast)`, which keeps the payload -/
theorem callArm_builtin_err {F st name args ast d e s1} (h : callBuiltin F st name args d = (.err e, s1)) :
    callArm F st (.builtin name :: args) ast d = (.err (newLispError e ast), s1) := by
  simp only [callArm, h]

/-- `types.Apply` on a closure is a recursive `EVAL` of the body: result and error unchanged -/
theorem apply_closure {F st params body fenv m fp args d data} (hb : bindParams params args = .ok data) :
    apply (F + 1) st (.fn params body fenv m fp) args d =
      eval F (st.newScope fenv data).1 (st.newScope fenv data).2 body (d + 1) := by
  rw [apply]; simp only [hb]

/-- `map`: the error of a callback is returned unchanged -/
theorem mapLoop_err_head {F st f x xs d e s1} (h : apply F st f [x] d = (.err e, s1)) :
    mapLoop (F + 1) st f (x :: xs) d = (.err e, s1) := by
  rw [mapLoop, h]

theorem callBuiltin_map_err {F st f s xs d e s1} (hx : seqOf? s = some xs)
    (h : mapLoop F st f xs d = (.err e, s1)) :
    callBuiltin (F + 1) st "map" [f, s] d = (.err e, s1) := by
  rw [callBuiltin.eq_def]; simp [hx, h]

/-- `apply`: the error of the callee is returned unchanged -/
theorem callBuiltin_apply_err {F st f last tail d e s1} (hx : seqOf? last = some tail)
    (h : apply F st f tail d = (.err e, s1)) :
    callBuiltin (F + 1) st "apply" [f, last] d = (.err e, s1) := by
  rw [callBuiltin.eq_def]; simp [hx, h]

/-- `swap!`: the error of the callback is returned unchanged and the atom is not written -/
theorem callBuiltin_swap_err {F st id f extra d e s1}
    (h : apply F st f (st.atoms.getD id .nil :: extra) d = (.err e, s1)) :
    callBuiltin (F + 1) st "swap!" (.atom id :: f :: extra) d = (.err e, s1) := by
  rw [callBuiltin.eq_def]
  simp only [Array.getD_eq_getD_getElem?] at h
  simp [h]

/-! ### evaluating atoms -/

theorem Live.tick {st : State} (hc : st.cancelAt = none) : Live (EvalCancel.tick st) := live_of_none hc

/-- a bound symbol: one poll, then the lookup -/
theorem eval_sym {st : State} (hs : st.stepper = none) (hl : Live st) (F env s p d v)
    (hv : st.get env s = some v) : eval (F + 3) st env (.sym s p) d = (.ok v, tick st) := by
  rw [eval_noStepper hs, evalLoop_live hl]
  simp only [liveBody]
  rw [evalAst]; simp only [tick_get, hv]

/-- values that evaluate to themselves -/
def SelfEval : Val → Prop
  | .sym _ _ | .list _ _ | .vec _ _ | .map _ => False
  | _ => True

theorem eval_selfEval {st : State} (hs : st.stepper = none) (hl : Live st) (F env v d) (hv : SelfEval v) :
    eval (F + 3) st env v d = (.ok v, tick st) := by
  rw [eval_noStepper hs, evalLoop_live hl]
  cases v <;> first | exact absurd hv id | (simp only [liveBody]; rw [evalAst] <;> (intros; rename_i hh; cases hh))

/-- `(throw x)`: the value of `x` arrives as the payload of the returned error -/
theorem throw_delivers {st : State} (hs : st.stepper = none) (hc : st.cancelAt = none) {env : Nat}
    (hthrow : st.get env "throw" = some (.builtin "throw")) (F p x pos d v s1)
    (hx : eval (F + 2) (tick (tick st)) env x (d + 1) = (.ok v, s1)) :
    evalLoop (F + 5) st env (.list [.sym "throw" p, x] pos) d = (.err (.lisp v pos), s1) := by
  have hm : NotMacro st env "throw" := by intro a b c e h; rw [hthrow] at h; cases h
  rw [evalLoop_dispatch (live_of_none hc) hm, dispatch_app _ _ _ _ _ _ _ _ _ (by decide)]
  have h1 : eval (F + 3) (tick st) env (.sym "throw" p) (d + 1) = (.ok (.builtin "throw"), tick (tick st)) :=
    eval_sym (st := tick st) hs (live_of_none hc) F env _ p _ _ (by rw [tick_get]; exact hthrow)
  have h2 : evalList (F + 4) (tick st) env [.sym "throw" p, x] d = (.ok [.builtin "throw", v], s1) := by
    rw [evalList_cons_ok h1, evalList_cons_ok hx, evalList]
  simp only [appArm, h2, callArm, callBuiltin_throw _ _ v]
  rfl

/-! ### C04: every error is catchable -/

/-- `(try ast (catch x :caught))` -/
def tryCatchForm (ast : Val) (x : String) : Val :=
  .list [.sym "try" none, ast, .list [.sym "catch" none, .sym x none, Val.kw "caught"] none] none

theorem selfEval_kw (s : String) : SelfEval (Val.kw s) := trivial

/-- If the evaluation of `ast` as the body of a `try` (one poll later, one EVAL frame deeper) returns the
    error `e`, then `(try ast (catch x :caught))` returns the keyword; the final state is the failing run's
    state plus the handler's scope (`x ↦ payload of e`) and one poll for the handler form. -/
theorem errors_are_catchable {st : State} (hs : st.stepper = none) (hc : st.cancelAt = none) {env : Nat}
    (hm : NotMacro st env "try") {x : String} (hx : x ≠ "&") (F : Nat) (ast : Val) (d : Nat) (e : Err) (s1 : State)
    (h : eval (F + 3) (tick st) env ast (d + 1) = (.err e, s1)) :
    eval (F + 7) st env (tryCatchForm ast x) d =
      (.ok (Val.kw "caught"), tick (s1.newScope env [(x, caughtValue e)]).1) := by
  have hfr := (frame (F + 3)).eval h
  have hs1 : s1.stepper = none := hfr.1 hs
  have hc1 : s1.cancelAt = none := by rw [hfr.2.1]; exact hc
  unfold tryCatchForm
  rw [eval_noStepper hs, evalLoop_try (live_of_none hc) hm]
  have hsp := splitTry_catch (.sym "try" none) [ast] none (.sym x none) (Val.kw "caught") [] none
  simp only [List.cons_append, List.nil_append] at hsp
  simp only [hsp, tryArm]
  have hbody : doForms (F + 5) (tick st) env [ast] 0 false d = (.err e, s1) := by
    rw [doForms_noStepper (by exact hs)]
    simp [evalList_cons_err h]
  rw [hbody, handlerStage_caught (F + 5) _ env d e s1 rfl rfl (bindParams_one hx none _)]
  have hk : eval (F + 3) (s1.newScope env [(x, caughtValue e)]).1 (s1.newScope env [(x, caughtValue e)]).2
      (Val.kw "caught") (d + 1) = (.ok (Val.kw "caught"), tick (s1.newScope env [(x, caughtValue e)]).1) :=
    eval_selfEval (by exact hs1) (live_of_none (by exact hc1)) F _ _ _ (selfEval_kw _)
  have hh : doForms (F + 5) (s1.newScope env [(x, caughtValue e)]).1 (s1.newScope env [(x, caughtValue e)]).2
      [Val.kw "caught"] 0 false d = (.ok (Val.kw "caught"), tick (s1.newScope env [(x, caughtValue e)]).1) := by
    rw [doForms_noStepper (by exact hs1)]
    simp [evalList_cons_ok hk, evalList]
  rw [hh, finallyStage_none _ _ _ _ _ (by simp) _ (by exact hs1) rfl]

/-! ### C04: malformed special forms are ordinary errors -/

/-- `(fn)`: no parameter list -/
theorem fn_without_params {st : State} (hl : Live st) {env : Nat} (hm : NotMacro st env "fn") (F p pos d) :
    evalLoop (F + 2) st env (.list [.sym "fn" p] pos) d =
      (.err (newLispError (.plain "fn requires a parameter list") (.list [.sym "fn" p] pos)), tick st) := by
  rw [evalLoop_dispatch hl hm, dispatch_fn]; rfl

/-- `(def <non-symbol> v)`: whatever `v` evaluates to -/
theorem def_non_symbol {st : State} (hl : Live st) {env : Nat} (hm : NotMacro st env "def") (F p a1 a2 rest pos d)
    (ha : ∀ s q, a1 ≠ .sym s q) (res : Val) (s1 : State)
    (h : eval (F + 1) (tick st) env a2 (d + 1) = (.ok res, s1)) :
    evalLoop (F + 2) st env (.list (.sym "def" p :: a1 :: a2 :: rest) pos) d =
      (.err (newLispError (.plain "cannot use value as identifier") (.list (.sym "def" p :: a1 :: a2 :: rest) pos)),
        s1) := by
  rw [evalLoop_dispatch hl hm, dispatch_def]
  simp only [defArm, List.getD_cons_zero, List.getD_cons_succ, h]

/-- `(let <odd number of binding elements> …)` -/
theorem let_odd_bindings {st : State} (hl : Live st) {env : Nat} (hm : NotMacro st env "let") (F p a1 rest pos d)
    (arr : List Val) (ha : seqOf? a1 = some arr) (hodd : arr.length % 2 ≠ 0) :
    evalLoop (F + 2) st env (.list (.sym "let" p :: a1 :: rest) pos) d =
      (.err (newLispError (.plain "let: odd elements on binding vector") a1), ((tick st).newScope env []).1) := by
  rw [evalLoop_dispatch hl hm, dispatch_let]
  simp only [letArm, List.getD_cons_zero, ha]
  simp only [ne_eq, hodd, not_false_eq_true, ↓reduceIte]

/-- calling a closure whose parameter list contains a non-symbol, e.g. `((fn (1) 2) 3)` -/
theorem call_non_symbol_param (F : Nat) (st : State) (bad : Val) (ps : List Val) (pp : Option Pos)
    (body : Val) (fenv : Nat) (m : Bool) (fp : Option Pos) (args : List Val) (ast : Val) (d : Nat)
    (hbad : ∀ s q, bad ≠ .sym s q) :
    callArm F st (.fn (.list (bad :: ps) pp) body fenv m fp :: args) ast d =
      (.err (.lisp (.goerr "cannot use value as parameter name (around do)") none), st) := by
  have hb : bindParams (.list (bad :: ps) pp) args =
      .error (.lisp (.goerr "cannot use value as parameter name") none) := by
    simp only [bindParams]
    cases bad <;> first | exact absurd rfl (hbad _ _) | (rw [bindLoop] <;> (intros; rename_i hh; cases hh))
  simp only [callArm, hb]
  rfl

/-- `(try x (catch))` and `(try x (catch e))`: a catch clause needs a variable and a body -/
theorem try_short_catch {st : State} (hl : Live st) {env : Nat} (hm : NotMacro st env "try") (F p x q cargs cp pos d)
    (hshort : cargs.length ≤ 1) :
    evalLoop (F + 2) st env (.list [.sym "try" p, x, .list (.sym "catch" q :: cargs) cp] pos) d =
      (.err (newLispError (.plain "catch must have 2 arguments at least")
        (.list [.sym "try" p, x, .list (.sym "catch" q :: cargs) cp] pos)), tick st) := by
  rw [evalLoop_try hl hm]
  have : splitTry [.sym "try" p, x, .list (.sym "catch" q :: cargs) cp] =
      .error "catch must have 2 arguments at least" := by
    match cargs, hshort with
    | [], _ => simp [splitTry, firstSym]
    | [_], _ => simp [splitTry, firstSym]
  simp only [this]

/-! ### C07: a `try` around a timeout -/

/-- `(try body… (catch x h0 hs…) (finally f0 fs…))` -/
def tryCatchFinally (body : List Val) (x : String) (h0 : Val) (hs : List Val) (f0 : Val) (fs : List Val) : Val :=
  .list (.sym "try" none :: (body ++ [.list (.sym "catch" none :: .sym x none :: h0 :: hs) none,
    .list (.sym "finally" none :: f0 :: fs) none])) none

/-- The body of a try form ends with an error `e` in a cancelled state (e.g. the timeout itself): the handler
    is entered (its scope is created) but its first form times out after one poll; the finally body is entered
    and its first form times out after one poll; the form returns the handler's timeout error.
    Two polls after the body, whatever the handler and finally forms are. -/
theorem try_body_timeout {st : State} (hl : Live st) (hst : st.stepper = none) {env : Nat}
    (hm : NotMacro st env "try") {x : String} (hx : x ≠ "&") (F : Nat) (body : List Val) (hne : body ≠ [])
    (h0 : Val) (hs : List Val) (f0 : Val) (fs : List Val) (d : Nat) (e : Err) (s1 : State)
    (hbody : doForms (F + 4) (tick st) env body 0 false d = (.err e, s1)) (hc1 : Cancelled s1) :
    evalLoop (F + 5) st env (tryCatchFinally body x h0 hs f0 fs) d =
      (.err (timeoutErr h0), tick (tick (s1.newScope env [(x, caughtValue e)]).1)) := by
  have hs1 : s1.stepper = none := ((frame _).doForms hbody).1 (by exact hst)
  obtain ⟨b0, bs, rfl⟩ : ∃ b0 bs, body = b0 :: bs := by
    cases body with
    | nil => exact absurd rfl hne
    | cons a as => exact ⟨a, as, rfl⟩
  unfold tryCatchFinally
  simp only [List.cons_append]
  rw [evalLoop_try hl hm]
  have hsp := splitTry_catch_finally (.sym "try" none) (b0 :: bs) none (.sym x none) h0 hs none none (f0 :: fs) none
  simp only [List.cons_append] at hsp
  simp only [hsp, tryArm, hbody]
  rw [handler_after_cancel hc1 hs1 F _ env d e hx none h0 hs rfl rfl]
  exact finally_after_cancel (hc1.newScope env _).tick (by exact hs1) F _ env d _ (by simp) f0 fs rfl

/-! ### the four paths through a try form with a finally clause -/

/-- what the deferred finally run leaves of the pending result `r`: `r` itself, whatever the finally forms
    returned or threw (only running out of fuel propagates) -/
def afterFinally (r : Res Val) (rf : R) : R :=
  match rf with
  | (.oof, s') => (.oof, s')
  | (_, s') => (r, s')

theorem finallyStage_some' (F : Nat) (parts : TryParts) (env d : Nat) (r : Res Val) (hr : r ≠ .oof) (s : State)
    {fin : List Val} (hf : parts.finallyDo = some fin) :
    finallyStage F parts env d (r, s) = afterFinally r (doForms F s env fin 0 false d) := by
  rw [finallyStage_some F parts env d r hr s hf]; rfl

theorem tryArm_normal (F : Nat) (st : State) (env : Nat) (parts : TryParts) (d : Nat)
    (fin : List Val) (hf : parts.finallyDo = some fin) (v : Val) (s1 : State)
    (h : doForms F st env parts.body 0 false d = (.ok v, s1)) :
    tryArm F st env parts d =
      afterFinally (.ok v) (doForms F s1 env fin 0 false d) := by
  rw [tryArm, h, handlerStage_ok, finallyStage_some' F parts env d _ (by simp) s1 hf]

theorem tryArm_uncaught (F : Nat) (st : State) (env : Nat) (parts : TryParts) (d : Nat)
    (fin : List Val) (hf : parts.finallyDo = some fin) (e : Err) (s1 : State)
    (h : doForms F st env parts.body 0 false d = (.err e, s1)) (hc : parts.catchDo = none) :
    tryArm F st env parts d =
      afterFinally (.err e) (doForms F s1 env fin 0 false d) := by
  rw [tryArm, h, handlerStage_uncaught F parts env d e s1 hc, finallyStage_some' F parts env d _ (by simp) s1 hf]

theorem tryArm_caught (F : Nat) (st : State) (env : Nat) (parts : TryParts) (d : Nat)
    (fin : List Val) (hf : parts.finallyDo = some fin) (e : Err) (s1 : State) (handler : List Val) (x : String)
    (p : Option Pos) (r : Res Val) (s2 : State)
    (h : doForms F st env parts.body 0 false d = (.err e, s1))
    (hd : parts.catchDo = some handler) (hb : parts.catchBind = some (.sym x p)) (hx : x ≠ "&") (hr : r ≠ .oof)
    (hh : doForms F (s1.newScope env [(x, caughtValue e)]).1 (s1.newScope env [(x, caughtValue e)]).2 handler
      0 false d = (r, s2)) :
    tryArm F st env parts d =
      afterFinally r (doForms F s2 env fin 0 false d) := by
  rw [tryArm, h, handlerStage_caught F parts env d e s1 hd hb (bindParams_one hx p _), hh,
    finallyStage_some' F parts env d _ hr s2 hf]

/-! ### more propagation: macro expansion, `update`, and the Props-level packaging -/

/-- `macroexpand`: an error while running a macro body is returned unchanged -/
theorem macroexpand_err {F st env s p args pos d params body fenv mp data e s1}
    (hg : st.get env s = some (.fn params body fenv true mp)) (hb : bindParams params args = .ok data)
    (h : eval F (st.newScope fenv data).1 (st.newScope fenv data).2 body (d + 1) = (.err e, s1)) :
    macroexpand (F + 1) st env (.list (.sym s p :: args) pos) d = (.err e, s1) := by
  rw [macroexpand]; simp only [hg, hb, h]

/-- …and the loop iteration that was expanding the macro call returns it unchanged too -/
theorem evalLoop_macroexpand_err {st : State} (hl : Live st) {F env xs pos d e s1}
    (h : macroexpand F (tick st) env (.list xs pos) d = (.err e, s1)) :
    evalLoop (F + 1) st env (.list xs pos) d = (.err e, s1) := by
  rw [evalLoop_live hl]; simp only [liveBody, h]

/-- `update`: the error of the callback is returned unchanged -/
theorem callBuiltin_update_err {F st m k f d e s1}
    (h : apply F st f [(alookup k m).getD .nil] d = (.err e, s1)) :
    callBuiltin (F + 2) st "update" [.map m, .str k, f] d = (.err e, s1) := by
  rw [callBuiltin.eq_def]
  have : update1 (F + 1) st (.map m) (.str k) f d = (.err e, s1) := by
    rw [update1.eq_def]; simp [h]
  simp [this]

theorem tryArm_body_ok (F : Nat) (st : State) (env : Nat) (parts : TryParts) (d : Nat) (v : Val)
    (s1 : State) (hbody : doForms F st env parts.body 0 false d = (.ok v, s1)) :
    handlerStage F parts env d (doForms F st env parts.body 0 false d) = (.ok v, s1) ∧
    tryArm F st env parts d = finallyStage F parts env d (.ok v, s1) ∧
    ((tryArm F st env parts d).1 = .ok v ∨ (tryArm F st env parts d).1 = .oof) := by
  refine ⟨by rw [hbody]; rfl, by rw [tryArm, hbody]; rfl, ?_⟩
  rw [tryArm, hbody]; exact finallyStage_result F parts env d (.ok v, s1)

theorem tryArm_uncaught_result (F : Nat) (st : State) (env : Nat) (parts : TryParts) (d : Nat) (e : Err)
    (s1 : State) (hbody : doForms F st env parts.body 0 false d = (.err e, s1)) (hc : parts.catchDo = none) :
    (tryArm F st env parts d).1 = .err e ∨ (tryArm F st env parts d).1 = .oof := by
  rw [tryArm, hbody, handlerStage_uncaught F parts env d e s1 hc]; exact finallyStage_result F parts env d _

/-- creating a scope leaves every existing scope untouched -/
theorem newScope_keeps_scopes (s1 : State) (env : Nat) (data : List (String × Val)) (i : Nat)
    (hi : i < s1.scopes.size) :
    (s1.newScope env data).1.scopes[i]? = s1.scopes[i]? ∧ (s1.newScope env data).2 = s1.scopes.size ∧
    (s1.newScope env data).2 ≠ i := by
  refine ⟨?_, rfl, Nat.ne_of_gt hi⟩
  simp [State.newScope, Array.getElem?_push, Nat.ne_of_lt hi]

theorem res_cases (r : Res Val) : (∃ v, r = .ok v) ∨ (∃ e, r = .err e) ∨ r = .oof := by
  cases r <;> simp

/-! ### C07: any `try` form adds at most two polls once its body has ended past the deadline -/

/-- past the deadline: still cancelled, no debugger, no observable effect, at most `k` more polls
    (the scope store may have grown by the handler scope) -/
structure AfterDeadline (s s' : State) (k : Nat) : Prop where
  trace : s'.trace = s.trace
  marks : s'.marks = s.marks
  atoms : s'.atoms = s.atoms
  ticks : s'.ticks ≤ s.ticks + k
  cancelled : Cancelled s'
  stepper : s'.stepper = none

theorem AfterDeadline.refl {s : State} (hc : Cancelled s) (hs : s.stepper = none) (k : Nat) :
    AfterDeadline s s k := ⟨rfl, rfl, rfl, Nat.le_add_right _ _, hc, hs⟩

theorem AfterDeadline.of_amop {s s' : State} (hc : Cancelled s) (hs : s.stepper = none)
    (h : AtMostOnePoll s s') : AfterDeadline s s' 1 := by
  rcases h with e | e <;> subst e
  · exact .refl hc hs 1
  · exact ⟨rfl, rfl, rfl, Nat.le_refl _, hc.tick, hs⟩

theorem AfterDeadline.trans {a b c : State} {j k : Nat} (h1 : AfterDeadline a b j) (h2 : AfterDeadline b c k) :
    AfterDeadline a c (j + k) :=
  ⟨h2.trace.trans h1.trace, h2.marks.trans h1.marks, h2.atoms.trans h1.atoms,
   by have := h1.ticks; have := h2.ticks; omega, h2.cancelled, h2.stepper⟩

theorem handlerStage_afterDeadline {s1 : State} (hc : Cancelled s1) (hs : s1.stepper = none)
    (F : Nat) (parts : TryParts) (env d : Nat) (r : Res Val) :
    AfterDeadline s1 (handlerStage F parts env d (r, s1)).2 1 := by
  unfold handlerStage
  dsimp only
  split
  · exact .refl hc hs 1
  · exact .refl hc hs 1
  · split
    · split
      · exact .refl hc hs 1
      · have h0 : AfterDeadline s1 (s1.newScope env ‹_›).1 0 := ⟨rfl, rfl, rfl, Nat.le_refl _, hc, hs⟩
        exact h0.trans (.of_amop (hc.newScope env _) hs (doForms_cancelled_any (hc.newScope env _) hs F _ _ _ _ d))
    · exact .refl hc hs 1

theorem finallyStage_afterDeadline {s2 : State} (hc : Cancelled s2) (hs : s2.stepper = none)
    (F : Nat) (parts : TryParts) (env d : Nat) (r : Res Val) :
    AfterDeadline s2 (finallyStage F parts env d (r, s2)).2 1 := by
  unfold finallyStage
  dsimp only
  split
  · exact .refl hc hs 1
  · split
    · simp only [outing1Defer, hs]; exact .refl hc hs 1
    · have := AfterDeadline.of_amop hc hs (doForms_cancelled_any hc hs F env ‹_› 0 false d)
      split <;> (rename_i heq; rw [heq] at this; exact this)

/-- whatever its clauses are, a try form whose body ended (with any result) in a cancelled state returns after
    at most two more polls, with no effect -/
theorem try_afterDeadline {s1 : State} (hc : Cancelled s1) (hs : s1.stepper = none)
    (F : Nat) (parts : TryParts) (env d : Nat) (r : Res Val) :
    AfterDeadline s1 (finallyStage F parts env d (handlerStage F parts env d (r, s1))).2 2 := by
  have h1 := handlerStage_afterDeadline hc hs F parts env d r
  have h2 := finallyStage_afterDeadline h1.cancelled h1.stepper F parts env d (handlerStage F parts env d (r, s1)).1
  exact h1.trans h2

/-! ### deviation: a catch clause whose variable does not bind loses the thrown value -/

theorem bindParams_amp (p : Option Pos) (v : Val) :
    bindParams (.list [.sym "&" p] none) [v] =
      .error (.lisp (.goerr "'&' must be followed by a parameter name") none) := by
  simp only [bindParams]; rw [bindLoop]; intro _ _ _ h; cases h

theorem bindParams_nonSym (b : Val) (hb : ∀ s q, b ≠ .sym s q) (v : Val) :
    bindParams (.list [b] none) [v] = .error (.lisp (.goerr "cannot use value as parameter name") none) := by
  simp only [bindParams]
  cases b <;> first | exact absurd rfl (hb _ _) | (rw [bindLoop] <;> (intros; rename_i hh; cases hh))

/-- `(catch & …)` / `(catch 1 …)`: the handler is NOT run and the form returns the binder's error instead of
    the thrown one (the thrown value is lost) -/
theorem handlerStage_bad_binder (F : Nat) (parts : TryParts) (env d : Nat) (e : Err) (s1 : State)
    (handler : List Val) (b : Val) (hd : parts.catchDo = some handler) (hb : parts.catchBind = some b)
    (hbad : (∃ p, b = .sym "&" p) ∨ (∀ s q, b ≠ .sym s q)) :
    ∃ msg, handlerStage F parts env d (.err e, s1) = (.err (.lisp (.goerr msg) none), s1) := by
  rcases hbad with ⟨p, rfl⟩ | hns
  · exact ⟨"'&' must be followed by a parameter name", by simp only [handlerStage, hd, hb, bindParams_amp]⟩
  · exact ⟨"cannot use value as parameter name", by simp only [handlerStage, hd, hb, bindParams_nonSym b hns]⟩

/-! ### C04: wrong argument counts / types of the reflectively bound builtins -/

/-- the builtins with an effect on the store or a callback; every other name goes through `Core.call` -/
def effectfulNames : List String :=
  ["trace!", "depth!", "eval", "apply", "map", "atom", "deref", "reset!", "swap!", "update", "update-in"]

theorem callBuiltin_pure (F : Nat) (st : State) (name : String) (args : List Val) (d : Nat)
    (hn : name ∉ effectfulNames) :
    callBuiltin (F + 1) st name args d =
      match Core.call name args with
      | some (.ok v) => (.ok v, st)
      | some (.thrown v) => (.err (.lisp v none), st)
      | some (.goerr m) => (.err (.lisp (.goerr m) none), st)
      | none => (.err (.lisp (.goerr ("unmodelled builtin " ++ name)) none), st) := by
  simp only [effectfulNames, List.mem_cons, List.not_mem_nil, or_false, not_or] at hn
  rw [callBuiltin.eq_def]
  simp only [hn, ↓reduceIte]
  rfl

/-- a pure builtin called with a wrong number of arguments or a wrong argument type (the binder's check
    `checkSig` fails) returns an error — in Go: the recovered `reflect.Value.Call` panic — and leaves the state
    untouched -/
theorem wrong_arguments_error (F : Nat) (st : State) (name : String) (args : List Val) (d : Nat)
    (hn : name ∉ effectfulNames) (s : Sig) (hs : sigOf name = some s) (msg : String)
    (hc : checkSig s args = some msg) :
    ∃ e, callBuiltin (F + 1) st name args d = (.err e, st) := by
  rw [callBuiltin_pure F st name args d hn]
  simp only [Core.call, hs, hc]
  split
  · rename_i h; split at h <;> cases h
  all_goals exact ⟨_, rfl⟩

end LispModel.Proofs.EvalTry

/-
  C06, scanner level: a token of kind Ident / Keyword / Char that spells the *whole* input is scanned
  identically when a delimiter and anything else follow — the continuation lemma behind the
  definition of the readable symbols and keywords (`readableSym`, `readableKw`).  Core Lean only.
-/
import LispModel.Proofs.PrintReadNum
import LispModel.Proofs.PrintReadScan
namespace LispModel.Proofs.PrintRead
open LispModel LispModel.Scan

/-- the kinds of symbol and keyword tokens -/
def AtomKind (k : Kind) : Prop := k = .ident ∨ k = .keyword ∨ ∃ c, k = .char c

theorem next_nil_eq (p : PState) : ∃ q, next [] p = (EOF, [], q) ∧ q.errs = p.errs := ⟨_, rfl, rfl⟩

theorem scanIdentifier_nil (p : PState) : (scanIdentifier [] p).1 < 0 := by
  unfold scanIdentifier
  obtain ⟨q, h, _⟩ := next_nil_eq p
  rw [h]
  simp only []
  rw [identLoop_stop _ _ _ (eof_not_ident 1)]
  show (EOF : Int) < 0
  decide

theorem not_atomKind_num {k : Kind} (h : k = .int ∨ k = .float) : ¬ AtomKind k := by
  intro hk
  rcases h with h | h <;> subst h <;> rcases hk with h | h | ⟨c, h⟩ <;> cases h

theorem scanTok_sim {d : Rune} (hd : IsDelim d) (S : List Rune) (r : List Rune) (ch : Int) (p1 p2 : PState)
    (h0 : 0 ≤ ch) (he : p1.errs = p2.errs) (k : Kind) (s1 : St)
    (h : scanTok ch r p1 = some (k, s1)) (hk : AtomKind k) :
    ∃ s2, scanTok ch (r ++ d :: S) p2 = some (k, s2) ∧ Sim d S s1 s2 ∧ (r = [] → s1.1 < 0) := by
  unfold scanTok at h ⊢
  by_cases c1 : isIdentRune ch 0 = true
  · simp only [c1, if_true, Option.some.injEq, Prod.mk.injEq] at h ⊢
    obtain ⟨rfl, rfl⟩ := h
    exact ⟨_, ⟨rfl, rfl⟩, scanIdentifier_sim hd S r p1 p2 he, fun hr => hr ▸ scanIdentifier_nil p1⟩
  simp only [c1, if_false, Bool.false_eq_true] at h ⊢
  by_cases c2 : isDecimal ch = true
  · simp only [c2, if_true, Option.some.injEq] at h
    have := scanNumber_kind_nonneg [] r ch p1 false
    rw [h] at this
    exact absurd hk (not_atomKind_num this)
  simp only [c2, if_false, Bool.false_eq_true] at h ⊢
  have eofId : isIdentRune EOF 0 = false := eof_not_ident 0
  have eofDec : isDecimal EOF = false := by decide
  have dId : isIdentRune (d.ch : Int) 0 = false := delim_not_ident hd 0
  have dDec : isDecimal (d.ch : Int) = false := by
    obtain ⟨_, h | h | h | h⟩ := hd <;> rw [h] <;> decide
  have d64 : ¬ (d.ch : Int) = 64 := by
    obtain ⟨_, h | h | h | h⟩ := hd <;> rw [h] <;> decide
  have d123 : ¬ (d.ch : Int) = 123 := by
    obtain ⟨_, h | h | h | h⟩ := hd <;> rw [h] <;> decide
  have eofLt : (EOF : Int) < 0 := by decide
  -- the shape shared by the branches that start with `next`
  have hs := next_sim hd S r p1 p2 he
  have hnil : r = [] → (next r p1).1 < 0 := fun hr => by subst hr; exact eofLt
  generalize next r p1 = n at h hs hnil
  generalize next (r ++ d :: S) p2 = m at hs ⊢
  by_cases c3 : ch = 45
  · simp only [c3, if_true] at h ⊢
    cases hs with
    | done q1 q2 he' =>
      simp only [eofId, eofDec, dId, dDec, if_false, Bool.false_eq_true, Option.some.injEq, Prod.mk.injEq] at h ⊢
      obtain ⟨rfl, rfl⟩ := h
      exact ⟨_, ⟨rfl, rfl⟩, Sim.done _ _ he', fun _ => eofLt⟩
    | sync c r' q1 q2 h0' he' =>
      have hne : r ≠ [] := fun hr => by have := hnil hr; simp only [] at this; omega
      simp only [] at h ⊢
      by_cases c31 : isIdentRune c 0 = true
      · simp only [c31, if_true, Option.some.injEq, Prod.mk.injEq] at h ⊢
        obtain ⟨rfl, rfl⟩ := h
        exact ⟨_, ⟨rfl, rfl⟩, identLoop_sim hd S _ _ (next_sim hd S r' q1 q2 he'), fun hr => absurd hr hne⟩
      simp only [c31, if_false, Bool.false_eq_true] at h ⊢
      by_cases c32 : isDecimal c = true
      · simp only [c32, if_true, Option.some.injEq] at h ⊢
        obtain ⟨e1, e2⟩ := scanNumber_sim hd S [45] r' c q1 q2 false true h0' he'
        rw [h] at e1 e2
        simp only [] at e1 e2
        refine ⟨(scanNumber [45] (r' ++ d :: S) c q2 false true).2, ?_, e2, fun hr => absurd hr hne⟩
        rw [e1]
      simp only [c32, if_false, Bool.false_eq_true, Option.some.injEq, Prod.mk.injEq] at h ⊢
      obtain ⟨rfl, rfl⟩ := h
      exact ⟨_, ⟨rfl, rfl⟩, Sim.sync _ _ _ _ h0' he', fun hr => absurd hr hne⟩
  simp only [c3, if_false] at h ⊢
  by_cases c4 : ch < 0
  · omega
  simp only [c4, if_false] at h ⊢
  by_cases c5 : ch = 34
  · simp only [c5, if_true, Option.some.injEq, Prod.mk.injEq] at h
    exact absurd hk (by rw [← h.1]; intro hk; rcases hk with h | h | ⟨c, h⟩ <;> cases h)
  simp only [c5, if_false] at h ⊢
  by_cases c6 : ch = 58
  · simp only [c6, if_true, Option.some.injEq, Prod.mk.injEq] at h ⊢
    obtain ⟨rfl, rfl⟩ := h
    exact ⟨_, ⟨rfl, rfl⟩, scanIdentifier_sim hd S r p1 p2 he, fun hr => hr ▸ scanIdentifier_nil p1⟩
  simp only [c6, if_false] at h ⊢
  by_cases c7 : ch = 46
  · simp only [c7, if_true] at h ⊢
    cases hs with
    | done q1 q2 he' =>
      simp only [eofDec, dDec, if_false, Bool.false_eq_true, Option.some.injEq, Prod.mk.injEq] at h ⊢
      obtain ⟨rfl, rfl⟩ := h
      exact ⟨_, ⟨rfl, rfl⟩, Sim.done _ _ he', fun _ => eofLt⟩
    | sync c r' q1 q2 h0' he' =>
      have hne : r ≠ [] := fun hr => by have := hnil hr; simp only [] at this; omega
      simp only [] at h ⊢
      by_cases c71 : isDecimal c = true
      · simp only [c71, if_true, Option.some.injEq] at h
        have := scanNumber_kind_nonneg [46] r' c q1 true
        rw [h] at this
        exact absurd hk (not_atomKind_num this)
      simp only [c71, if_false, Bool.false_eq_true, Option.some.injEq, Prod.mk.injEq] at h ⊢
      obtain ⟨rfl, rfl⟩ := h
      exact ⟨_, ⟨rfl, rfl⟩, Sim.sync _ _ _ _ h0' he', fun hr => absurd hr hne⟩
  simp only [c7, if_false] at h ⊢
  by_cases c9 : ch = 172
  · simp only [c9, if_true, Option.some.injEq, Prod.mk.injEq] at h
    exact absurd hk (by rw [← h.1]; intro hk; rcases hk with h | h | ⟨c, h⟩ <;> cases h)
  simp only [c9, if_false] at h ⊢
  by_cases c10 : ch = 126
  · simp only [c10, if_true] at h ⊢
    cases hs with
    | done q1 q2 he' =>
      have e64 : ¬ (EOF : Int) = 64 := by decide
      simp only [e64, d64, if_false, Option.some.injEq, Prod.mk.injEq] at h ⊢
      obtain ⟨rfl, rfl⟩ := h
      exact ⟨_, ⟨rfl, rfl⟩, Sim.done _ _ he', fun _ => eofLt⟩
    | sync c r' q1 q2 h0' he' =>
      have hne : r ≠ [] := fun hr => by have := hnil hr; simp only [] at this; omega
      simp only [] at h ⊢
      by_cases c101 : c = 64
      · simp only [c101, if_true, Option.some.injEq, Prod.mk.injEq] at h ⊢
        obtain ⟨rfl, rfl⟩ := h
        exact ⟨_, ⟨rfl, rfl⟩, next_sim hd S r' q1 q2 he', fun hr => absurd hr hne⟩
      simp only [c101, if_false, Option.some.injEq, Prod.mk.injEq] at h ⊢
      obtain ⟨rfl, rfl⟩ := h
      exact ⟨_, ⟨rfl, rfl⟩, Sim.sync _ _ _ _ h0' he', fun hr => absurd hr hne⟩
  simp only [c10, if_false] at h ⊢
  by_cases c11 : ch = 35
  · simp only [c11, if_true] at h ⊢
    cases hs with
    | done q1 q2 he' =>
      have e123 : ¬ (EOF : Int) = 123 := by decide
      simp only [e123, d123, if_false, Option.some.injEq, Prod.mk.injEq] at h ⊢
      obtain ⟨rfl, rfl⟩ := h
      exact ⟨_, ⟨rfl, rfl⟩, Sim.done _ _ he', fun _ => eofLt⟩
    | sync c r' q1 q2 h0' he' =>
      have hne : r ≠ [] := fun hr => by have := hnil hr; simp only [] at this; omega
      simp only [] at h ⊢
      by_cases c111 : c = 123
      · simp only [c111, if_true, Option.some.injEq, Prod.mk.injEq] at h ⊢
        obtain ⟨rfl, rfl⟩ := h
        exact ⟨_, ⟨rfl, rfl⟩, next_sim hd S r' q1 q2 he', fun hr => absurd hr hne⟩
      simp only [c111, if_false, Option.some.injEq, Prod.mk.injEq] at h ⊢
      obtain ⟨rfl, rfl⟩ := h
      exact ⟨_, ⟨rfl, rfl⟩, Sim.sync _ _ _ _ h0' he', fun hr => absurd hr hne⟩
  simp only [c11, if_false, Option.some.injEq, Prod.mk.injEq] at h ⊢
  obtain ⟨rfl, rfl⟩ := h
  exact ⟨_, ⟨rfl, rfl⟩, hs, hnil⟩

theorem scanTok_eof (r : List Rune) (p : PState) : scanTok EOF r p = none := by
  unfold scanTok
  simp [eof_not_ident 0, show isDecimal EOF = false by decide, show ¬ (EOF : Int) = 45 by decide]

theorem scanComment_nil_eof (q : PState) : scanComment [] EOF q = next [] q := by
  unfold scanComment
  rw [if_pos (by decide)]
  obtain ⟨q', hq', _⟩ := next_nil_eq q
  rw [hq']
  simp [commentLoop]

theorem scan_eof (F : Nat) (p : PState) : (scan F [] EOF p).1 = none := by
  cases F with
  | zero => simp [scan]
  | succ F =>
    rw [scan_succ, skipWhite_stop _ _ _ (by decide)]
    simp only [show ¬ (EOF : Int) = 59 by decide, if_false, scanTok_eof, finTok]

/-- the continuation lemma: a symbol / keyword token that spells the whole input `ch :: r` is
    scanned identically, stopping at the delimiter, when `d :: S` follows -/
theorem scan_sim {d : Rune} (hd : IsDelim d) (S : List Rune) (F : Nat) (r : List Rune) (ch : Int)
    (p1 p2 : PState) (h0 : 0 ≤ ch) (he : p1.errs = p2.errs) (k : Kind) (text : List Nat) (s1 : St)
    (h : scan (F + 1) r ch p1 = (some (k, text), s1)) (hk : AtomKind k)
    (hfull : text.length = r.length + 1) :
    ∃ q2, (∀ F' : Nat, scan (F' + 1) (r ++ d :: S) ch p2 = (some (k, text), ((d.ch : Int), S, q2))) ∧
      q2.errs = s1.2.2.errs := by
  -- no white space is skipped
  have hw : isWhite ch = false := by
    cases hw : isWhite ch with
    | false => rfl
    | true =>
      exfalso
      cases r with
      | nil =>
        rw [scan_succ, skipWhite_nil _ _ hw] at h
        obtain ⟨q, hq, _⟩ := next_nil_eq p1
        rw [hq] at h
        simp only [show ¬ (EOF : Int) = 59 by decide, if_false, scanTok_eof, finTok] at h
        cases h
      | cons x xs =>
        rw [scan_succ, skipWhite_step _ _ _ _ hw, ← scan_succ] at h
        have := scan_text_le _ _ _ _ _ _ _ h
        simp only [List.length_cons] at hfull
        omega
  rw [scan_succ, skipWhite_stop _ _ _ hw] at h
  simp only [] at h
  -- no comment
  have h59 : ¬ ch = 59 := by
    intro h59
    rw [if_pos h59] at h
    cases r with
    | nil =>
      obtain ⟨q, hq, _⟩ := next_nil_eq p1
      rw [hq] at h
      simp only [] at h
      rw [scanComment_nil_eof] at h
      obtain ⟨q', hq', _⟩ := next_nil_eq q
      rw [hq'] at h
      have := scan_eof F q'
      rw [h] at this
      cases this
    | cons x xs =>
      obtain ⟨q, hq, _⟩ := next_cons_eq x xs p1
      rw [hq] at h
      simp only [] at h
      have h2 := scanComment_length xs (x.ch : Int) q
      have := scan_text_le _ _ _ _ _ _ _ h
      simp only [List.length_cons] at hfull
      omega
  rw [if_neg h59] at h
  cases ht : scanTok ch r p1 with
  | none => rw [ht] at h; simp [finTok] at h
  | some ks =>
    obtain ⟨k', s'⟩ := ks
    rw [ht] at h
    simp only [finTok, Prod.mk.injEq, Option.some.injEq] at h
    obtain ⟨⟨rfl, htext⟩, rfl⟩ := h
    obtain ⟨s2, ht2, hsim, hnil⟩ := scanTok_sim hd S r ch p1 p2 h0 he k' s' ht hk
    have hcons := consumed_sim hd S ch r s' s2 hsim
    -- the first run ended at EOF
    have hlt : s'.1 < 0 := by
      cases r with
      | nil => exact hnil rfl
      | cons x xs =>
        rw [← htext, Scanner.consumed_length] at hfull
        simp only [List.length_cons] at hfull
        by_cases hc : s'.1 < 0
        · exact hc
        · exfalso
          rw [if_neg hc] at hfull
          have : ¬ ch < 0 := by omega
          rw [if_neg this] at hfull
          omega
    cases hsim with
    | sync c r' q1 q2 hc _ => simp only [] at hlt; omega
    | done q1 q2 he' =>
      refine ⟨q2, fun F' => ?_, he'.symm⟩
      rw [scan_succ, skipWhite_stop _ _ _ hw]
      simp only []
      rw [if_neg h59, ht2]
      simp only [finTok]
      rw [← hcons, htext]

end LispModel.Proofs.PrintRead

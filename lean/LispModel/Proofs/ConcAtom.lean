/-
  C09 proofs, part 1: well-formed frames and the lock-discipline invariant of the atom system
  under the FIXED programs (`prog`), for any number of threads and any interleaving.
-/
import LispModel.Conc
namespace LispModel.Proofs.ConcAtom
open LispModel.Conc

/-! ### which locks a frame holds, as a table over (function, pc) -/

def holdsWAt : OpName → Nat → Bool
  | .swap, pc => pc == 6 || pc == 7 || pc == 8 || pc == 9 || pc == 11
  | .reset, pc => pc == 1 || pc == 2 || pc == 3 || pc == 4
  | _, _ => false

def holdsRAt : OpName → Nat → Bool
  | .swap, pc => pc == 1 || pc == 2 || pc == 3
  | .deref, pc => pc == 1 || pc == 2 || pc == 3
  | .print, pc => pc == 1 || pc == 2
  | _, _ => false

/-- the deferred calls registered when control is at `pc` -/
def defersAt : OpName → Nat → List MOp
  | .reset, pc => if 2 ≤ pc then [.unlock .atomRW] else []
  | .deref, pc => if 2 ≤ pc then [.runlock .atomRW] else []
  | _, _ => []

def holdsW (fr : Frame) : Bool :=
  if fr.returning then fr.defers.contains (.unlock .atomRW) else holdsWAt fr.op.name fr.pc

def holdsR (fr : Frame) : Bool :=
  if fr.returning then fr.defers.contains (.runlock .atomRW) else holdsRAt fr.op.name fr.pc

/-- a frame waiting for its update function: `swap!` at the `callback` micro-op, holding nothing -/
def atCallback (fr : Frame) : Prop :=
  fr.op.name = .swap ∧ fr.pc = 4 ∧ fr.returning = false ∧ fr.defers = [] ∧ fr.failed = false

/-- well-formed frame: pc inside its program, deferred calls as the table says -/
def FrameWF (fr : Frame) : Prop :=
  if fr.returning then
    fr.defers = [] ∨ (fr.defers = defersAt fr.op.name fr.pc ∧ fr.pc < (prog fr.op.name).length)
  else
    fr.pc < (prog fr.op.name).length ∧ fr.defers = defersAt fr.op.name fr.pc ∧ fr.failed = false

def StackWF : List Frame → Prop
  | [] => True
  | top :: rest => FrameWF top ∧ ∀ fr ∈ rest, atCallback fr

structure LockInv (s : State) : Prop where
  wf : ∀ t, StackWF (s.threads t).stack
  w_iff : ∀ a t, (s.atoms a).w = some t ↔
    ∃ top rest, (s.threads t).stack = top :: rest ∧ top.op.atom = a ∧ holdsW top = true
  r_iff : ∀ a t, t ∈ (s.atoms a).r ↔
    ∃ top rest, (s.threads t).stack = top :: rest ∧ top.op.atom = a ∧ holdsR top = true
  r_nodup : ∀ a, (s.atoms a).r.Nodup
  excl : ∀ a, (s.atoms a).w ≠ none → (s.atoms a).r = []

theorem name_cases (op : AOp) :
    op.name = .swap ∨ op.name = .reset ∨ op.name = .deref ∨ op.name = .print := by
  cases op <;> simp [AOp.name]

@[simp] theorem upd_same {α} (f : Nat → α) (i : Nat) (x : α) : upd f i x i = x := by simp [upd]
theorem upd_other {α} (f : Nat → α) {i j : Nat} (x : α) (h : j ≠ i) : upd f i x j = f j := by simp [upd, h]

theorem setTop_atoms_same (s : State) (t fr' rest A' ev) :
    (s.setTop t fr' rest A' ev).atoms fr'.op.atom = A' := by simp [State.setTop]
theorem setTop_atoms_other (s : State) (t fr' rest A' ev) {b : Nat} (h : b ≠ fr'.op.atom) :
    (s.setTop t fr' rest A' ev).atoms b = s.atoms b := by simp [State.setTop, upd_other _ _ h]
theorem setTop_stack_same (s : State) (t fr' rest A' ev) :
    ((s.setTop t fr' rest A' ev).threads t).stack = fr' :: rest := by simp [State.setTop]
theorem setTop_threads_other (s : State) (t fr' rest A' ev) {u : Nat} (h : u ≠ t) :
    (s.setTop t fr' rest A' ev).threads u = s.threads u := by simp [State.setTop, upd_other _ _ h]

/-- replacing the stack of thread `t` by `fr' :: rest` and the state of `fr'`'s atom by `A'` keeps the
    lock discipline, provided `A'` differs from the old atom state exactly by `t`'s own holdings -/
theorem LockInv.setTop {s : State} {t : Nat} {fr' : Frame} {rest : List Frame} {A' : AtomS} {ev : List LinEv}
    (h : LockInv s) (hwf : FrameWF fr') (hrest : ∀ f ∈ rest, atCallback f)
    (cw : A'.w = some t ↔ holdsW fr' = true)
    (cw' : ∀ u, u ≠ t → (A'.w = some u ↔ (s.atoms fr'.op.atom).w = some u))
    (cr : t ∈ A'.r ↔ holdsR fr' = true)
    (cr' : ∀ u, u ≠ t → (u ∈ A'.r ↔ u ∈ (s.atoms fr'.op.atom).r))
    (nd : A'.r.Nodup) (ex : A'.w ≠ none → A'.r = [])
    (cb : ∀ b, b ≠ fr'.op.atom → (s.atoms b).w ≠ some t ∧ t ∉ (s.atoms b).r) :
    LockInv (s.setTop t fr' rest A' ev) := by
  constructor
  · intro u
    by_cases hu : u = t
    · subst hu; rw [setTop_stack_same]; exact ⟨hwf, hrest⟩
    · rw [setTop_threads_other _ _ _ _ _ _ hu]; exact h.wf u
  · intro a u
    by_cases ha : a = fr'.op.atom <;> by_cases hu : u = t
    · subst ha; subst hu; rw [setTop_atoms_same, setTop_stack_same, cw]
      constructor
      · intro hh; exact ⟨fr', rest, rfl, rfl, hh⟩
      · rintro ⟨top, r, hst, -, hh⟩; cases hst; exact hh
    · subst ha; rw [setTop_atoms_same, setTop_threads_other _ _ _ _ _ _ hu, cw' u hu]; exact h.w_iff _ u
    · subst hu
      rw [setTop_atoms_other _ _ _ _ _ _ ha, setTop_stack_same]
      constructor
      · intro hw; exact absurd hw (cb a ha).1
      · rintro ⟨top, r, hst, hat, -⟩; cases hst; exact absurd hat.symm ha
    · rw [setTop_atoms_other _ _ _ _ _ _ ha, setTop_threads_other _ _ _ _ _ _ hu]; exact h.w_iff a u
  · intro a u
    by_cases ha : a = fr'.op.atom <;> by_cases hu : u = t
    · subst ha; subst hu; rw [setTop_atoms_same, setTop_stack_same, cr]
      constructor
      · intro hh; exact ⟨fr', rest, rfl, rfl, hh⟩
      · rintro ⟨top, r, hst, -, hh⟩; cases hst; exact hh
    · subst ha; rw [setTop_atoms_same, setTop_threads_other _ _ _ _ _ _ hu, cr' u hu]; exact h.r_iff _ u
    · subst hu
      rw [setTop_atoms_other _ _ _ _ _ _ ha, setTop_stack_same]
      constructor
      · intro hw; exact absurd hw (cb a ha).2
      · rintro ⟨top, r, hst, hat, -⟩; cases hst; exact absurd hat.symm ha
    · rw [setTop_atoms_other _ _ _ _ _ _ ha, setTop_threads_other _ _ _ _ _ _ hu]; exact h.r_iff a u
  · intro a
    by_cases ha : a = fr'.op.atom
    · subst ha; rw [setTop_atoms_same]; exact nd
    · rw [setTop_atoms_other _ _ _ _ _ _ ha]; exact h.r_nodup a
  · intro a
    by_cases ha : a = fr'.op.atom
    · subst ha; rw [setTop_atoms_same]; exact ex
    · rw [setTop_atoms_other _ _ _ _ _ _ ha]; exact h.excl a

end LispModel.Proofs.ConcAtom

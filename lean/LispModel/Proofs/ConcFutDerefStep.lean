/-
  C10 proofs, part 9: each micro-op of `Future.Deref`.
-/
import LispModel.Proofs.ConcFutDeref
namespace LispModel.Proofs.ConcFut
open LispModel.Conc LispModel.Conc.Fut

theorem deref_frame_facts {s : FState} (hM : MuInv s) {t : Nat} {fr : FFrame}
    (hc : (s.threads t).cur = some fr) (hn : fr.name = .derefF) :
    fr.defers = [] ∧ (fr.returning = false → fr.pc < 3) := by
  obtain ⟨hwf, -⟩ := hM.wf (.thr t) fr hc
  unfold FFrameWF at hwf
  rw [hn] at hwf
  constructor
  · cases hr : fr.returning <;> simp [hr, defersAtF] at hwf
    · exact hwf.2
    · rcases hwf with h | h
      · exact h
      · exact h.1
  · intro hr
    simp [hr, prog, progFixed, derefFFixed, derefFBaseline] at hwf
    exact hwf.1

/-- a `deref` step that leaves the future alone, by a frame that holds no outcome item before or after -/
theorem OutInv.derefQuiet {s : FState} {t : Nat} {thn : FThread} {fr : FFrame} (h : OutInv s)
    (hc : (s.threads t).cur = some fr) (hn : fr.name = .derefF)
    (hnot : ¬ (fr.pc = 1 ∧ fr.returning = false))
    (hcur : ∀ fr', thn.cur = some fr' → fr'.name = .derefF ∧ fr'.fut = fr.fut ∧ fr'.got = fr.got ∧
      ¬ (fr'.pc = 1 ∧ fr'.returning = false))
    (hout : ∀ n g o, (n, g, Resp.out o) ∈ thn.out →
      (n, g, Resp.out o) ∈ (s.threads t).out ∨ (g = fr.fut ∧ fr.got = some o)) :
    OutInv { futs := upd s.futs fr.fut (s.futs fr.fut), threads := upd s.threads t thn } := by
  have hnh : ¬ isHand fr.fut thn.cur := by
    cases hcu : thn.cur with
    | none => simp [isHand]
    | some fr' =>
      obtain ⟨-, -, -, h4⟩ := hcur fr' hcu
      simp only [isHand]
      rintro ⟨-, -, h5, h6⟩
      exact h4 ⟨h5, h6⟩
  have hnt : ¬ inflight s t fr.fut := by
    rintro ⟨fr0, h1, -, -, h4, h5⟩
    rw [hc] at h1; cases h1
    exact hnot ⟨h4, h5⟩
  have hall : ∀ t', inflight s t' fr.fut → t' ≠ t := fun t' ht' he => hnt (he ▸ ht')
  apply h.derefUpdate hc rfl (fun fr' hcu => ⟨(hcur fr' hcu).1, (hcur fr' hcu).2.1⟩) rfl rfl rfl rfl
  · intro hns; obtain ⟨a, b, -⟩ := h.unsent _ hns; exact ⟨a, b, hnh⟩
  · intro v hv; obtain ⟨a, b, c⟩ := h.inVal _ v hv; exact ⟨a, b, hnh, fun t' _ => c t'⟩
  · intro e he; obtain ⟨a, b, c⟩ := h.inErr _ e he; exact ⟨a, b, hnh, fun t' _ => c t'⟩
  · intro hh; exact absurd hh hnh
  · intro t' _ ht'; obtain ⟨a, b, -⟩ := h.inHand t' _ ht'; exact ⟨a, b, hnh⟩
  · intro fr' o hcu hg
    rw [(hcur fr' hcu).2.2.1] at hg
    exact h.got t fr o hc hn hg
  · intro n g o hm
    rcases hout n g o hm with h1 | ⟨h1, h2⟩
    · exact Or.inl h1
    · exact Or.inr ⟨h1, h.got t fr o hc hn h2⟩

theorem sent_of_chan {s : FState} (h : OutInv s) {f : Nat}
    (hne : (s.futs f).valCh ≠ none ∨ (s.futs f).errCh ≠ none) : sent (s.futs f) := by
  apply Classical.byContradiction
  intro hns
  obtain ⟨a, b, -⟩ := h.unsent f hns
  rcases hne with hne | hne
  · exact hne a
  · exact hne b

theorem OutInv.derefMop {s : FState} (h : OutInv s) (hM : MuInv s) {t arm : Nat} {fr fr' : FFrame} {m : MOp}
    {F' : FutS} (hc : (s.threads t).cur = some fr) (hn : fr.name = .derefF) (hnr : fr.returning = false)
    (hm : (prog fr.name)[fr.pc]? = some m)
    (hex : execF (.thr t) arm (s.threads t).ctxEnded m fr (s.futs fr.fut) = some (fr', F')) :
    OutInv { futs := upd s.futs fr.fut F', threads := upd s.threads t { s.threads t with cur := some fr' } } := by
  obtain ⟨hds, hpc⟩ := deref_frame_facts hM hc hn
  have hpc := hpc hnr
  rw [hn] at hm
  have hcases : fr.pc = 0 ∨ fr.pc = 1 ∨ fr.pc = 2 := by omega
  rcases hcases with hp | hp | hp <;> rw [hp] at hm <;>
    simp [prog, progFixed, derefFFixed, derefFBaseline] at hm <;> subst hm
  · -- select
    simp only [execF] at hex
    split at hex
    · -- the caller's context ended
      split at hex
      · cases hex
        apply h.derefQuiet hc hn (by simp [hp])
        · intro fr2 h2; simp at h2; subst h2; simp [hn]
        · intro n g o hmem; exact Or.inl hmem
      · cases hex
    · -- receive from ErrChan
      simp only [Option.map_eq_some_iff] at hex
      obtain ⟨x, hx, hex⟩ := hex
      cases hex
      obtain ⟨i1, i2, i3⟩ := h.inErr fr.fut x hx
      have hs : sent (s.futs fr.fut) := sent_of_chan h (Or.inr (by rw [hx]; simp))
      apply h.derefUpdate hc rfl
      · intro fr2 h2; simp at h2; subst h2; exact ⟨hn, rfl⟩
      · rfl
      · rfl
      · rfl
      · rfl
      · intro hns; exact absurd hs hns
      · intro v hv; simp [i2] at hv
      · intro e he; simp [i2] at he
      · intro _
        refine ⟨by simp [i2], by simp [i2], fun t' _ => i3 t', ?_⟩
        intro fr2 h2; simp at h2; subst h2; simp
      · intro t' _ ht'; exact absurd ht' (i3 t')
      · intro fr2 o h2 hg
        simp at h2; subst h2
        simp at hg; subst hg
        exact ⟨i1, hs⟩
      · intro n g o hmem; exact Or.inl hmem
    · -- receive from ValChan
      simp only [Option.map_eq_some_iff] at hex
      obtain ⟨x, hx, hex⟩ := hex
      cases hex
      obtain ⟨i1, i2, i3⟩ := h.inVal fr.fut x hx
      have hs : sent (s.futs fr.fut) := sent_of_chan h (Or.inl (by rw [hx]; simp))
      apply h.derefUpdate hc rfl
      · intro fr2 h2; simp at h2; subst h2; exact ⟨hn, rfl⟩
      · rfl
      · rfl
      · rfl
      · rfl
      · intro hns; exact absurd hs hns
      · intro v hv; simp [i2] at hv
      · intro e he; simp [i2] at he
      · intro _
        refine ⟨by simp [i2], by simp [i2], fun t' _ => i3 t', ?_⟩
        intro fr2 h2; simp at h2; subst h2; simp
      · intro t' _ ht'; exact absurd ht' (i3 t')
      · intro fr2 o h2 hg
        simp at h2; subst h2
        simp at hg; subst hg
        exact ⟨i1, hs⟩
      · intro n g o hmem; exact Or.inl hmem
    · cases hex
  · -- re-deposit
    have hin : inflight s t fr.fut := ⟨fr, hc, hn, rfl, hp, hnr⟩
    obtain ⟨j1, j2, j3⟩ := h.inHand t fr.fut hin
    have hg0 := h.handGot t fr hc hn hp hnr
    obtain ⟨oc, hoc⟩ := Option.ne_none_iff_exists'.mp hg0
    obtain ⟨k1, k2⟩ := h.got t fr oc hc hn hoc
    simp only [execF, hoc, Option.map_eq_some_iff] at hex
    obtain ⟨F1, hpb, hex⟩ := hex
    cases hex
    obtain ⟨f1, f2, f3, f4, f5, f6, f7, f8⟩ := putBack_flags hpb
    obtain ⟨c1, c2⟩ := putBack_chan hpb
    have hnh : ¬ isHand fr.fut (some { fr with pc := fr.pc + 1 }) := by simp [isHand, hp]
    apply h.derefUpdate hc rfl
    · intro fr2 h2; simp at h2; subst h2; exact ⟨hn, rfl⟩
    · exact f5
    · exact f6
    · exact f7
    · exact f1
    · intro hns; exact absurd k2 hns
    · intro v hv
      rw [f6, k1]
      obtain ⟨e, x⟩ := oc
      cases e
      · obtain ⟨-, c3, c4⟩ := c2 rfl
        rw [c3] at hv; cases hv
        exact ⟨rfl, by rw [c4]; exact j2, hnh, j3⟩
      · obtain ⟨-, -, c4⟩ := c1 rfl
        rw [c4, j1] at hv; cases hv
    · intro e he
      rw [f6, k1]
      obtain ⟨e', x⟩ := oc
      cases e'
      · obtain ⟨-, -, c4⟩ := c2 rfl
        rw [c4, j2] at he; cases he
      · obtain ⟨-, c3, c4⟩ := c1 rfl
        rw [c3] at he; cases he
        exact ⟨rfl, by rw [c4]; exact j1, hnh, j3⟩
    · intro hh; exact absurd hh hnh
    · intro t' hne ht'; exact absurd ht' (j3 t' hne)
    · intro fr2 o h2 hg
      simp at h2; subst h2
      simp [hoc] at hg; subst hg
      exact ⟨k1, k2⟩
    · intro n g o hmem; exact Or.inl hmem
  · -- return
    simp [execF] at hex
    obtain ⟨h1, h2⟩ := hex
    subst h1; subst h2
    apply h.derefQuiet hc hn (by simp [hp])
    · intro fr2 h2; simp at h2; subst h2; simp [hn]
    · intro n g o hmem; exact Or.inl hmem

end LispModel.Proofs.ConcFut

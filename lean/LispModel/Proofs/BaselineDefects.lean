/-
  Frozen copies of model functions as they were on the *unrepaired* tree, with the machine-checked
  witness of each defect (DESIGN.md §7).  The witnesses are also in /verif/corpus and are replayed on
  the Go code on every run; since the repairs they must behave as the property demands.
-/
import LispModel.Equal
import LispModel.Spec.StructEq
import LispModel.Read
import LispModel.Print
namespace LispModel.Baseline
open LispModel

/-! ### D8 (C14): `Equal_Q` indexed the right map with Go's missing-key default -/
mutual
def equalQ₀ : Val → Val → Bool
  | .nil, .nil => true
  | .bool a, .bool b => a == b
  | .int a, .int b => a == b
  | .str a, .str b => a == b
  | .sym a _, .sym b _ => a == b
  | .list xs _, .list ys _ => equalQList₀ xs ys
  | .list xs _, .vec ys _ => equalQList₀ xs ys
  | .vec xs _, .list ys _ => equalQList₀ xs ys
  | .vec xs _, .vec ys _ => equalQList₀ xs ys
  | .map m1, .map m2 => m1.length == m2.length && equalQMap₀ m1 m2
  | .set s1, .set s2 => s1.length == s2.length && s1.all (fun k => s2.contains k)
  | _, _ => false
def equalQList₀ : List Val → List Val → Bool
  | [], [] => true
  | x :: xs, y :: ys => equalQ₀ x y && equalQList₀ xs ys
  | _, _ => false
def equalQMap₀ : List (String × Val) → List (String × Val) → Bool
  | [], _ => true
  | (k, v) :: r, m2 => equalQ₀ v ((alookup k m2).getD .nil) && equalQMap₀ r m2
end

/-- `(= {:a nil} {:b nil}) ⇒ true` on the unrepaired code -/
theorem d8_missing_key_counterexample :
    equalQ₀ (.map [("ʞa", .nil)]) (.map [("ʞb", .nil)]) = true ∧
    structEqB (.map [("ʞa", .nil)]) (.map [("ʞb", .nil)]) = false := by
  decide

/-! ### D10 (C06, C15): the reader un-escaped with U+029E as a scratch character -/
def unescape₀ (s : List Char) : List Char :=
  Read.replaceAll [kwMarker] ['\\']
    (Read.replaceAll ['\\', 'n'] ['\n']
      (Read.replaceAll ['\\', '"'] ['"']
        (Read.replaceAll ['\\', '\\'] [kwMarker] s)))

/-- the string `aʞb` is printed as `"aʞb"` and was read back as `a\b` -/
theorem d10_marker_in_string_counterexample :
    Print.prString true "aʞb" = ['"', 'a', 'ʞ', 'b', '"'] ∧ unescape₀ ['a', 'ʞ', 'b'] = ['a', '\\', 'b'] := by
  decide

end LispModel.Baseline

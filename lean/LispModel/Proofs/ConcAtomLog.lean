/-
  C09 proofs, part 10: the linearization log is a legal history of the sequential atom and ends in
  the current values.
-/
import LispModel.Proofs.ConcAtomLin
namespace LispModel.Proofs.ConcAtom
open LispModel.Conc

theorem replay_append (l1 l2 : List LinEv) (c : Nat → Nat) :
    replay (l1 ++ l2) c = (replay l1 c).bind (replay l2) := by
  induction l1 generalizing c with
  | nil => simp [replay]
  | cons e es ih =>
    simp only [List.cons_append, replay]
    cases applyEv c e with
    | none => simp
    | some c' => simp [ih]

/-- the log replays from the initial values to the current ones -/
def LinInv (vals : Nat → Nat) (s : State) : Prop :=
  ∃ cur, replay s.lin vals = some cur ∧ ∀ a, cur a = (s.atoms a).val

/-- appending events that the current values accept -/
theorem LinInv.extend {vals : Nat → Nat} {s s' : State} (h : LinInv vals s) (ev : List LinEv)
    (hlin : s'.lin = s.lin ++ ev)
    (hev : ∀ cur, (∀ a, cur a = (s.atoms a).val) →
      ∃ cur', replay ev cur = some cur' ∧ ∀ a, cur' a = (s'.atoms a).val) : LinInv vals s' := by
  obtain ⟨cur, h1, h2⟩ := h
  obtain ⟨cur', h3, h4⟩ := hev cur h2
  exact ⟨cur', by rw [hlin, replay_append, h1]; exact h3, h4⟩

theorem LinInv.quiet {vals : Nat → Nat} {s s' : State} (h : LinInv vals s)
    (hlin : s'.lin = s.lin ++ []) (hval : ∀ a, (s'.atoms a).val = (s.atoms a).val) : LinInv vals s' :=
  h.extend [] hlin fun cur hc => ⟨cur, rfl, fun a => by rw [hval]; exact hc a⟩

theorem LinInv.failedEv {vals : Nat → Nat} {s s' : State} (h : LinInv vals s) (t a : Nat)
    (hlin : s'.lin = s.lin ++ [.failed t a]) (hval : ∀ a, (s'.atoms a).val = (s.atoms a).val) :
    LinInv vals s' :=
  h.extend _ hlin fun cur hc => ⟨cur, rfl, fun a => by rw [hval]; exact hc a⟩

def wvalEntry (n : OpName) (pc : Nat) (m : MOp) : Bool :=
  (m == .write .val) → ((n == .swap && pc == 7) || n == .reset)

theorem wvalTable_true : forAllOps wvalEntry = true := by decide

/-- events of a micro-op other than `write val`: at most a read of the current value -/
theorem linOf_nowrite {t : Nat} {m : MOp} {fr : Frame} {A : AtomS} (hm : m ≠ .write .val) :
    linOf t m fr A = [] ∨ linOf t m fr A = [.read t fr.op.atom A.val] := by
  unfold linOf
  split <;> simp_all [AOp.atom]

theorem LinInv.mop {vals : Nat → Nat} {s : State} {t : Nat} {fr fr' : Frame} {rest : List Frame} {m : MOp}
    {A' : AtomS} (h : LinInv vals s) (hL : LockInv s) (hV : VerInv s) (hC : Checked s)
    (hst : (s.threads t).stack = fr :: rest) (hnr : fr.returning = false)
    (hm : (prog fr.op.name)[fr.pc]? = some m)
    (hex : execM t m fr (s.atoms fr.op.atom) = some (fr', A')) :
    LinInv vals (s.setTop t fr' rest A' (linOf t m fr (s.atoms fr.op.atom))) := by
  have hop : fr'.op.atom = fr.op.atom := by rw [(execM_eff hex).1]
  obtain ⟨d1, d2, -⟩ := execM_data hex
  refine h.extend _ rfl ?_
  intro cur hc
  by_cases hw : m = .write .val
  · subst hw
    have tab := forAllOps_spec wvalTable_true (name_mem fr.op) hm
    simp only [wvalEntry, beq_self_eq_true, Bool.or_eq_true, Bool.and_eq_true, beq_iff_eq,
      decide_eq_true_eq, forall_const] at tab
    cases hfo : fr.op with
    | deref a => rw [hfo] at tab; simp [AOp.name] at tab
    | print a => rw [hfo] at tab; simp [AOp.name] at tab
    | reset a v =>
      refine ⟨fun b => if b = a then fr.res else cur b, by simp [linOf, hfo, replay, applyEv], ?_⟩
      intro b
      by_cases hb : b = a
      · subst hb
        rw [setTop_atoms_eq _ _ _ _ _ _ (by rw [hop, hfo]; rfl), d1 rfl]; simp
      · rw [setTop_atoms_ne _ _ _ _ _ _ (by rw [hop, hfo]; rfl) hb]; simp [hb, hc]
    | swap a f =>
      have hn : fr.op.name = .swap := by rw [hfo]; rfl
      have hpc : fr.pc = 7 := by
        rcases tab with ⟨-, h7⟩ | hr
        · exact h7
        · rw [hn] at hr; cases hr
      obtain ⟨-, hsame, -⟩ := install_sees_current hL hV hst hn hnr hpc
      have hold := hsame (hC t fr rest hst hn hnr hpc)
      have hca : cur a = fr.old := by rw [hc, hold, hfo]; rfl
      refine ⟨fun b => if b = a then fr.res else cur b, by simp [linOf, hfo, replay, applyEv, hca], ?_⟩
      intro b
      by_cases hb : b = a
      · subst hb
        rw [setTop_atoms_eq _ _ _ _ _ _ (by rw [hop, hfo]; rfl), d1 rfl]; simp
      · rw [setTop_atoms_ne _ _ _ _ _ _ (by rw [hop, hfo]; rfl) hb]; simp [hb, hc]
  · have hval : ∀ ev b, ((s.setTop t fr' rest A' ev).atoms b).val = (s.atoms b).val := by
      intro ev b
      by_cases hb : b = fr.op.atom
      · subst hb; rw [setTop_atoms_eq _ _ _ _ _ _ hop, d2 hw]
      · rw [setTop_atoms_ne _ _ _ _ _ _ hop hb]
    rcases linOf_nowrite (t := t) (fr := fr) (A := s.atoms fr.op.atom) hw with he | he <;> rw [he]
    · exact ⟨cur, rfl, fun b => by rw [hval]; exact hc b⟩
    · exact ⟨cur, by simp [replay, applyEv, hc], fun b => by rw [hval]; exact hc b⟩

theorem LinInv.step {vals : Nat → Nat} {s s' : State} {t : Nat} (h : LinInv vals s) (hL : LockInv s)
    (hV : VerInv s) (hC : Checked s) (hs : step prog s t = some s') : LinInv vals s' := by
  have hk := step_kind hs
  cases hk with
  | start op more hst htd => exact h.quiet (by simp) (fun a => rfl)
  | finish fr hst hr hd => exact h.quiet (by simp) (fun a => rfl)
  | popOk fr par rest' v hst hr hd hv => exact h.quiet rfl (fun a => by rw [setTop_noatom])
  | popFail fr par rest' hst hr hd hv => exact h.failedEv t _ rfl (fun a => by rw [setTop_noatom])
  | cbApp fr rest a f hst hnr hm hop => exact h.quiet rfl (fun a => by rw [setTop_noatom])
  | cbFail fr rest a hst hnr hm hop => exact h.failedEv t _ rfl (fun a => by rw [setTop_noatom])
  | cbDeref fr rest a b hst hnr hm hop =>
    exact h.quiet rfl (fun a => congrArg AtomS.val (setTop_noatom s t (Frame.new (.deref b)) (fr :: rest) [] a))
  | cbSwap fr rest a b g hst hnr hm hop =>
    exact h.quiet rfl (fun a => congrArg AtomS.val (setTop_noatom s t (Frame.new (.swap b g)) (fr :: rest) [] a))
  | defer fr rest d ds fr1 A' hst hr hd hex =>
    refine h.quiet rfl (fun a => ?_)
    by_cases hv : ((s.setTop t { fr1 with pc := fr.pc } rest A' []).atoms a).val = (s.atoms a).val
    · exact hv
    · have hw := step_writes_locked hL hs a (Or.inl hv)
      -- a deferred call is an unlock: it does not write
      exfalso
      have hopa : ({ fr1 with pc := fr.pc } : Frame).op.atom = fr.op.atom := by
        have := (execM_eff hex).1; simp at this; simp [this]
      obtain ⟨-, d2, -⟩ := execM_data hex
      have hwf := hL.wf t
      rw [hst] at hwf
      obtain ⟨-, hdd⟩ := returning_defers hwf.1 hr hd
      have n1 : d ≠ .write .val := by rcases hdd with h | h <;> rw [h] <;> simp
      by_cases ha : a = fr.op.atom
      · subst ha; rw [setTop_atoms_eq _ _ _ _ _ _ hopa, d2 n1] at hv; exact hv rfl
      · rw [setTop_atoms_ne _ _ _ _ _ _ hopa ha] at hv; exact hv rfl
  | mop fr rest m fr' A' hst hnr hm hcb hex => exact h.mop hL hV hC hst hnr hm hex

/-- the three invariants together -/
structure AtomInv (vals : Nat → Nat) (s : State) : Prop where
  lock : LockInv s
  ver : VerInv s
  chk : Checked s
  lin : LinInv vals s

theorem AtomInv.init (progs : List (List AOp)) (vals : Nat → Nat) : AtomInv vals (init progs vals) :=
  ⟨LockInv.init progs vals, VerInv.init progs vals,
   by intro t top rest hst; simp [Conc.init] at hst,
   ⟨vals, rfl, fun a => rfl⟩⟩

theorem AtomInv.step {vals s s' t} (h : AtomInv vals s) (hs : step prog s t = some s') : AtomInv vals s' :=
  ⟨h.lock.step hs, h.ver.step h.lock hs, h.chk.step h.lock hs, h.lin.step h.lock h.ver h.chk hs⟩

theorem AtomInv.run {vals sched s s'} (h : AtomInv vals s) (hr : run prog sched s = some s') : AtomInv vals s' := by
  induction sched generalizing s with
  | nil => simp [Conc.run] at hr; subst hr; exact h
  | cons t ts ih =>
    simp only [Conc.run, Option.bind_eq_some_iff] at hr
    obtain ⟨s1, h1, h2⟩ := hr
    exact ih (h.step h1) h2

theorem atom_invariant {progs vals s} (hr : Reachable progs vals s) : AtomInv vals s := by
  obtain ⟨sched, h⟩ := hr
  exact (AtomInv.init progs vals).run h

end LispModel.Proofs.ConcAtom

/-
  Proofs for property C02 (immutability of lisp values over the slice heap of Heap.lean /
  CoreHeap.lean).  Layout:
    §1 arrays, windows, validity under heap extension
    §2 `abs`: unfolding lemmas (`abs_seq`, `abs_map`) and the frame lemma `abs_frame`
    §3 the primitives (`alloc`, `goAppend`, `appendEach`, `setAt`) keep a slice under construction `Built`
       (it looks at an array allocated in this step; the heap the step started from is untouched)
    §4 the builtins: each one meets the step contract `StepOK` (the heap is only EXTENDED) and `Refines`
       `Core.body`; map objects; with-meta, apply, and map / update / update-in over a callee `CallbackOK`
    §5 one step (`stepOp_spec`), histories (`Inv`, `run_inv`), the C02 theorems
    §6 the unrepaired code: concrete counterexamples
-/
import LispModel.Heap
import LispModel.CoreHeap
namespace LispModel.Heap
open LispModel

/-! ## §1 arrays, windows, validity -/

theorem arrOf_append_left {h e : Heap} {a : Nat} (ha : a < h.length) : arrOf (h ++ e) a = arrOf h a := by
  simp [arrOf, List.getD_eq_getElem?_getD, List.getElem?_append_left ha]

theorem arrOf_append_length (h : Heap) (x : Arr) : arrOf (h ++ [x]) h.length = x := by
  simp [arrOf, List.getD_eq_getElem?_getD]

theorem Extends.refl (h : Heap) : Extends h h := ⟨[], by simp⟩

theorem Extends.trans {h1 h2 h3 : Heap} (a : Extends h1 h2) (b : Extends h2 h3) : Extends h1 h3 := by
  obtain ⟨e1, rfl⟩ := a; obtain ⟨e2, rfl⟩ := b; exact ⟨e1 ++ e2, by simp⟩

theorem Extends.length_le {h h' : Heap} (e : Extends h h') : h.length ≤ h'.length := by
  obtain ⟨e, rfl⟩ := e; simp

theorem Extends.arrOf {h h' : Heap} (e : Extends h h') {a : Nat} (ha : a < h.length) :
    arrOf h' a = arrOf h a := by
  obtain ⟨e, rfl⟩ := e; exact arrOf_append_left ha

theorem Extends.window {h h' : Heap} (e : Extends h h') {s : Slice} (hs : s.arr < h.length) :
    window h' s = window h s := by
  simp [Heap.window, e.arrOf hs]

theorem Slice.ValidIn.ext {h h' : Heap} {s : Slice} (e : Extends h h') (v : s.ValidIn h) : s.ValidIn h' := by
  obtain ⟨a, b, c⟩ := v
  exact ⟨Nat.lt_of_lt_of_le a e.length_le, b, by rw [e.arrOf a]; exact c⟩

theorem Valid.ext {h h' : Heap} {v : HVal} (e : Extends h h') (hv : Valid h v) : Valid h' v := by
  cases v with
  | leaf v => exact hv
  | seq k s p => exact Slice.ValidIn.ext e hv
  | map ks s => exact ⟨Slice.ValidIn.ext e hv.1, hv.2⟩

theorem rank_le_of_valid {h : Heap} {v : HVal} (hv : Valid h v) : rank v ≤ h.length := by
  cases v with
  | leaf v => simp [rank, HVal.slice?]
  | seq k s p => exact hv.1
  | map ks s => exact hv.1.1

theorem mem_window {h : Heap} {s : Slice} {e : HVal} (he : e ∈ window h s) : e ∈ arrOf h s.arr :=
  List.mem_of_mem_drop (List.mem_of_mem_take he)

theorem WF.window {h : Heap} (wf : WF h) {s : Slice} (hs : s.arr < h.length) :
    ∀ e ∈ window h s, Valid h e ∧ rank e ≤ s.arr :=
  fun e he => wf s.arr hs e (mem_window he)

theorem window_length {h : Heap} {s : Slice} (v : s.ValidIn h) : (window h s).length = s.len := by
  obtain ⟨_, b, c⟩ := v
  simp [Heap.window]; omega

/-! ## §2 `abs` -/

theorem absF_leaf (n : Nat) (h : Heap) (v : Val) : absF n h (.leaf v) = v := by
  cases n <;> rfl

/-- reading an old value in an extended heap gives the same answer, at every depth bound -/
theorem absF_ext {h h' : Heap} (wf : WF h) (e : Extends h h') :
    ∀ (n : Nat) (v : HVal), Valid h v → absF n h' v = absF n h v := by
  intro n
  induction n with
  | zero => intro v _; cases v <;> rfl
  | succ n ih =>
    intro v hv
    cases v with
    | leaf v => rfl
    | seq k s p =>
      have hs : s.arr < h.length := hv.1
      simp only [absF, e.window hs]
      congr 1
      exact List.map_congr_left fun x hx => ih x (wf.window hs x hx).1
    | map ks s =>
      have hs : s.arr < h.length := hv.1.1
      simp only [absF, e.window hs]
      congr 2
      exact List.map_congr_left fun x hx => ih x (wf.window hs x hx).1

/-- in a well-formed heap any depth bound ≥ `rank v` reads the same value -/
theorem absF_stable {h : Heap} (wf : WF h) :
    ∀ (n : Nat) (v : HVal), Valid h v → rank v ≤ n → absF n h v = abs h v := by
  intro n
  induction n using Nat.strongRecOn with
  | _ n ih =>
    intro v hv hr
    cases v with
    | leaf v => simp [abs, absF_leaf]
    | seq k s p =>
      have hs : s.arr < h.length := hv.1
      cases n with
      | zero => simp [rank, HVal.slice?] at hr
      | succ m =>
        have hm : s.arr ≤ m := by simpa [rank, HVal.slice?] using hr
        simp only [abs, rank, HVal.slice?, absF]
        congr 1
        refine List.map_congr_left fun x hx => ?_
        obtain ⟨vx, rx⟩ := wf.window hs x hx
        rw [ih m (Nat.lt_succ_self m) x vx (Nat.le_trans rx hm),
            ih s.arr (Nat.lt_succ_of_le hm) x vx rx]
    | map ks s =>
      have hs : s.arr < h.length := hv.1.1
      cases n with
      | zero => simp [rank, HVal.slice?] at hr
      | succ m =>
        have hm : s.arr ≤ m := by simpa [rank, HVal.slice?] using hr
        simp only [abs, rank, HVal.slice?, absF]
        congr 2
        refine List.map_congr_left fun x hx => ?_
        obtain ⟨vx, rx⟩ := wf.window hs x hx
        rw [ih m (Nat.lt_succ_self m) x vx (Nat.le_trans rx hm),
            ih s.arr (Nat.lt_succ_of_le hm) x vx rx]

theorem abs_leaf (h : Heap) (v : Val) : abs h (.leaf v) = v := by simp [abs, absF_leaf]

/-- a list / vector reads back as its window, element by element -/
theorem abs_seq {h : Heap} (wf : WF h) {k : SKind} {s : Slice} {p : Option Pos} (hv : s.ValidIn h) :
    abs h (.seq k s p) = mkSeq k ((window h s).map (abs h)) p := by
  have hs : s.arr < h.length := hv.1
  simp only [abs, rank, HVal.slice?, absF]
  congr 1
  exact List.map_congr_left fun x hx =>
    absF_stable wf s.arr x (wf.window hs x hx).1 (wf.window hs x hx).2

theorem abs_map {h : Heap} (wf : WF h) {ks : List String} {s : Slice} (hv : s.ValidIn h) :
    abs h (.map ks s) = .map (ks.zip ((window h s).map (abs h))) := by
  have hs : s.arr < h.length := hv.1
  simp only [abs, rank, HVal.slice?, absF]
  congr 2
  exact List.map_congr_left fun x hx =>
    absF_stable wf s.arr x (wf.window hs x hx).1 (wf.window hs x hx).2

/-- THE FRAME LEMMA: a value of `h` reads back unchanged in every extension of `h` -/
theorem abs_frame {h h' : Heap} (wf : WF h) (e : Extends h h') {v : HVal} (hv : Valid h v) :
    abs h' v = abs h v := absF_ext wf e (rank v) v hv

theorem map_abs_frame {h h' : Heap} (wf : WF h) (e : Extends h h') {xs : List HVal}
    (hv : ∀ x ∈ xs, Valid h x) : xs.map (abs h') = xs.map (abs h) :=
  List.map_congr_left fun x hx => abs_frame wf e (hv x hx)

/-! ## §3 primitives -/

/-- a slice under construction in the current step: it looks at an array that did not exist in
    `h0` (the heap the step started from), `h` still contains `h0` untouched, and its window is `xs` -/
structure Built (h0 h : Heap) (s : Slice) (xs : List HVal) : Prop where
  ext : Extends h0 h
  wf : WF h
  own : h0.length ≤ s.arr
  valid : s.ValidIn h
  win : window h s = xs

theorem valid_nilH (h : Heap) : Valid h nilH ∧ rank nilH ≤ 0 := ⟨trivial, Nat.le_refl 0⟩

theorem WF_append {h : Heap} (wf : WF h) {arr : Arr} (ha : ∀ e ∈ arr, Valid h e) : WF (h ++ [arr]) := by
  intro a hlt e he
  have ex : Extends h (h ++ [arr]) := ⟨[arr], rfl⟩
  by_cases hb : a < h.length
  · rw [arrOf_append_left hb] at he
    exact ⟨Valid.ext ex (wf a hb e he).1, (wf a hb e he).2⟩
  · have : a = h.length := by simp at hlt; omega
    subst this
    rw [arrOf_append_length] at he
    exact ⟨Valid.ext ex (ha e he), rank_le_of_valid (ha e he)⟩

theorem alloc_built {h0 h : Heap} (e : Extends h0 h) (wf : WF h) {xs : List HVal}
    (hx : ∀ x ∈ xs, Valid h x) (extra : Nat) :
    Built h0 (alloc h xs extra).1 (alloc h xs extra).2 xs := by
  refine ⟨e.trans ⟨[_], rfl⟩, WF_append wf ?_, e.length_le, ?_, ?_⟩
  · intro x hx'
    rcases List.mem_append.1 hx' with h1 | h1
    · exact hx x h1
    · rw [List.eq_of_mem_replicate h1]; trivial
  · refine ⟨by simp [alloc], by simp [alloc], ?_⟩
    simp only [alloc]; rw [arrOf_append_length]; simp
  · simp only [alloc, window]; rw [arrOf_append_length]; simp

theorem emptyLit_built {h0 h : Heap} (e : Extends h0 h) (wf : WF h) :
    Built h0 (emptyLit h).1 (emptyLit h).2 [] :=
  alloc_built e wf (by simp) 0

theorem arrOf_set (h : Heap) (a b : Nat) (x : Arr) :
    arrOf (h.set a x) b = if a = b ∧ a < h.length then x else arrOf h b := by
  simp only [arrOf, List.getD_eq_getElem?_getD, List.getElem?_set]
  by_cases hab : a = b
  · subst hab; by_cases hl : a < h.length <;> simp [hl]
  · simp [hab]

theorem writeAt_length {A : Arr} {i : Nat} {ys : List HVal} (hi : i + ys.length ≤ A.length) :
    (writeAt A i ys).length = A.length := by
  simp [writeAt]; omega

theorem mem_writeAt {A : Arr} {i : Nat} {ys : List HVal} {e : HVal} (he : e ∈ writeAt A i ys) :
    e ∈ A ∨ e ∈ ys := by
  simp only [writeAt, List.mem_append] at he
  rcases he with (h1 | h1) | h1
  · exact .inl (List.mem_of_mem_take h1)
  · exact .inr h1
  · exact .inl (List.mem_of_mem_drop h1)

theorem window_writeAt {A : Arr} {off len : Nat} {ys : List HVal} (hi : off + len + ys.length ≤ A.length) :
    ((writeAt A (off + len) ys).drop off).take (len + ys.length) = (A.drop off).take len ++ ys := by
  have e1 : A.take (off + len) = A.take off ++ (A.drop off).take len := List.take_add
  have l1 : (A.take off).length = off := by simp; omega
  have l2 : ((A.drop off).take len).length = len := by simp; omega
  simp only [writeAt, e1, List.append_assoc]
  rw [List.drop_left' l1]
  rw [← List.append_assoc]
  exact List.take_left' (by simp [l2])

theorem ValidIn_set {h : Heap} {a : Nat} {x : Arr} (hl : x.length = (arrOf h a).length) {s : Slice} :
    s.ValidIn (h.set a x) ↔ s.ValidIn h := by
  have : (arrOf (h.set a x) s.arr).length = (arrOf h s.arr).length := by
    rw [arrOf_set]; split
    · next c => rw [hl, c.1]
    · rfl
  simp [Slice.ValidIn, this]

theorem Valid_set {h : Heap} {a : Nat} {x : Arr} (hl : x.length = (arrOf h a).length) {v : HVal} :
    Valid (h.set a x) v ↔ Valid h v := by
  cases v with
  | leaf v => exact Iff.rfl
  | seq k s p => exact ValidIn_set hl
  | map ks s => simp [Valid, ValidIn_set hl]

theorem WF_set {h : Heap} (wf : WF h) {a : Nat} {x : Arr} (hl : x.length = (arrOf h a).length)
    (hx : ∀ e ∈ x, Valid h e ∧ rank e ≤ a) : WF (h.set a x) := by
  intro b hb e he
  rw [List.length_set] at hb
  rw [arrOf_set] at he
  rw [Valid_set hl]
  split at he
  · next c => rw [← c.1]; exact hx e he
  · exact wf b hb e he

theorem Extends_set {h0 h : Heap} (e : Extends h0 h) {a : Nat} (ha : h0.length ≤ a) (x : Arr) :
    Extends h0 (h.set a x) := by
  obtain ⟨t, rfl⟩ := e
  exact ⟨t.set (a - h0.length) x, by rw [List.set_append]; simp [Nat.not_lt.2 ha]⟩

theorem goAppend_built (g : Nat → Nat → Nat) {h0 h : Heap} {s : Slice} {xs ys : List HVal}
    (B : Built h0 h s xs) (hy : ∀ y ∈ ys, Valid h0 y) :
    Built h0 (goAppend g h s ys).1 (goAppend g h s ys).2 (xs ++ ys) := by
  obtain ⟨ext, wf, own, valid, win⟩ := B
  have hyv : ∀ y ∈ ys, Valid h y := fun y m => Valid.ext ext (hy y m)
  unfold goAppend
  split
  · next c =>
    obtain ⟨v1, v2, v3⟩ := valid
    have hlen : (writeAt (arrOf h s.arr) (s.off + s.len) ys).length = (arrOf h s.arr).length :=
      writeAt_length (by omega)
    refine ⟨Extends_set ext own _, WF_set wf hlen ?_, own, ?_, ?_⟩
    · intro e he
      rcases mem_writeAt he with h1 | h1
      · exact wf s.arr v1 e h1
      · exact ⟨hyv e h1, Nat.le_trans (rank_le_of_valid (hy e h1)) own⟩
    · exact (ValidIn_set hlen).2 ⟨v1, c, v3⟩
    · simp only [window, arrOf_set, v1, and_self, if_true]
      rw [window_writeAt (by omega), ← win]; rfl
  · have hb := alloc_built (h0 := h0) ext wf (xs := window h s ++ ys) (by
      intro x hx
      rcases List.mem_append.1 hx with h1 | h1
      · exact (wf.window valid.1 x h1).1
      · exact hyv x h1) (g s.cap (s.len + ys.length) - (s.len + ys.length))
    rw [← win]
    exact hb

theorem appendEach_built (g : Nat → Nat → Nat) {h0 : Heap} :
    ∀ (ys : List HVal) {h : Heap} {s : Slice} {xs : List HVal}, Built h0 h s xs → (∀ y ∈ ys, Valid h0 y) →
      Built h0 (appendEach g h s ys).1 (appendEach g h s ys).2 (xs ++ ys)
  | [], _, _, _, B, _ => by simpa [appendEach] using B
  | y :: ys, _, _, _, B, hy => by
    have B1 := goAppend_built g B (ys := [y]) (by intro z hz; exact hy z (by simp at hz; simp [hz]))
    have := appendEach_built g ys B1 (fun z hz => hy z (List.mem_cons_of_mem _ hz))
    simpa [appendEach] using this

theorem buildSeq_built (g : Nat → Nat → Nat) {h0 h : Heap} (e : Extends h0 h) (wf : WF h) {xs : List HVal}
    (hx : ∀ x ∈ xs, Valid h0 x) : Built h0 (buildSeq g h xs).1 (buildSeq g h xs).2 xs := by
  have := appendEach_built g xs (emptyLit_built e wf) hx
  simpa [buildSeq] using this

theorem copyOf_built (g : Nat → Nat → Nat) {h0 h : Heap} (e : Extends h0 h) (wf : WF h) {xs : List HVal}
    (hx : ∀ x ∈ xs, Valid h0 x) : Built h0 (copyOf g h xs).1 (copyOf g h xs).2 xs := by
  have := goAppend_built g (emptyLit_built e wf) hx
  simpa [copyOf] using this

/-- what a finished builder denotes: its elements, read in the heap the step started from -/
theorem Built.abs_eq {h0 h : Heap} {s : Slice} {xs : List HVal} (wf0 : WF h0) (B : Built h0 h s xs)
    (hx : ∀ x ∈ xs, Valid h0 x) (k : SKind) (p : Option Pos) :
    abs h (.seq k s p) = mkSeq k (xs.map (abs h0)) p := by
  rw [abs_seq B.wf B.valid, B.win, map_abs_frame wf0 B.ext hx]

/-! ## §4 the builtins -/

/-- contract of one step from `h`: the heap is only extended (no cell of an existing array
    changes), stays well-formed, and a result value is a value of the new heap -/
structure StepOK (h : Heap) (r : Heap × HRes) : Prop where
  ext : Extends h r.1
  wf : WF r.1
  valid : ∀ v, r.2 = .ok v → Valid r.1 v

/-- the step computes what the pure builtin computes on the values its arguments denote -/
def Refines (name : String) (h : Heap) (args : List HVal) (r : Heap × HRes) : Prop :=
  absRes r.1 r.2 = Core.body name (args.map (abs h))

theorem pureAns_ok {h : Heap} (wf : WF h) (name : String) (args : List HVal) : StepOK h (pureAns name h args) :=
  ⟨Extends.refl h, wf, fun _ hv => by simp [pureAns] at hv⟩

theorem pureAns_refines (name : String) (h : Heap) (args : List HVal) : Refines name h args (pureAns name h args) := rfl

theorem Built.stepOK {h h' : Heap} {s : Slice} {xs : List HVal} (B : Built h h' s xs) (k : SKind) (p : Option Pos) :
    StepOK h (h', .ok (.seq k s p)) :=
  ⟨B.ext, B.wf, fun v hv => by cases hv; exact B.valid⟩

/-- a step that allocates nothing and answers a value of the heap -/
theorem share_ok {h : Heap} (wf : WF h) {v : HVal} (hv : Valid h v) : StepOK h (h, .ok v) :=
  ⟨Extends.refl h, wf, fun _ e => by cases e; exact hv⟩

theorem Built.spec {h h' : Heap} {s : Slice} {xs : List HVal} (wf : WF h) (B : Built h h' s xs)
    (hx : ∀ x ∈ xs, Valid h x) (k : SKind) (p : Option Pos) {name : String} {args : List HVal}
    (hp : Core.body name (args.map (abs h)) = .ok (mkSeq k (xs.map (abs h)) p)) :
    StepOK h (h', .ok (.seq k s p)) ∧ Refines name h args (h', .ok (.seq k s p)) :=
  ⟨B.stepOK k p, by simp only [Refines, absRes]; rw [B.abs_eq wf hx, hp]⟩

theorem share_spec {h : Heap} (wf : WF h) {v : HVal} (hv : Valid h v) {name : String} {args : List HVal}
    (hp : Core.body name (args.map (abs h)) = .ok (abs h v)) :
    StepOK h (h, .ok v) ∧ Refines name h args (h, .ok v) :=
  ⟨share_ok wf hv, by simp only [Refines, absRes]; rw [hp]⟩

theorem pure_spec {h : Heap} (wf : WF h) (name : String) (args : List HVal) :
    StepOK h (pureAns name h args) ∧ Refines name h args (pureAns name h args) :=
  ⟨pureAns_ok wf _ _, pureAns_refines _ _ _⟩

theorem abs_seq_list {h : Heap} (wf : WF h) {s : Slice} {p} (hv : s.ValidIn h) :
    abs h (.seq .list s p) = .list ((window h s).map (abs h)) p := abs_seq wf hv
theorem abs_seq_vec {h : Heap} (wf : WF h) {s : Slice} {p} (hv : s.ValidIn h) :
    abs h (.seq .vec s p) = .vec ((window h s).map (abs h)) p := abs_seq wf hv

theorem getD_eq_getElem' {α} (l : List α) (d : α) {i : Nat} (h : i < l.length) : l.getD i d = l[i] := by
  simp [List.getD_eq_getElem?_getD, h]

/-! ### map objects -/

theorem zip_map_map {α β γ} (l : List α) (f : α → β) (g : α → γ) :
    (l.map f).zip (l.map g) = l.map (fun x => (f x, g x)) := by
  induction l with
  | nil => rfl
  | cons x xs ih => simp [ih]

/-- how a list of heap entries reads back -/
def absKV (h : Heap) (kvs : List (String × HVal)) : List (String × Val) := kvs.map fun kv => (kv.1, abs h kv.2)

theorem allocMap_spec {h : Heap} (wf : WF h) {kvs : List (String × HVal)} (hv : ∀ kv ∈ kvs, Valid h kv.2) :
    Extends h (allocMap h kvs).1 ∧ WF (allocMap h kvs).1 ∧ Valid (allocMap h kvs).1 (allocMap h kvs).2 ∧
    abs (allocMap h kvs).1 (allocMap h kvs).2 = .map (absKV h kvs) := by
  have hx : ∀ x ∈ kvs.map (·.2), Valid h x := by
    intro x hx; obtain ⟨kv, hk, rfl⟩ := List.mem_map.1 hx; exact hv kv hk
  have B := alloc_built (Extends.refl h) wf hx 0
  refine ⟨B.ext, B.wf, ⟨B.valid, by simp [alloc]⟩, ?_⟩
  simp only [allocMap]
  rw [abs_map B.wf B.valid, B.win, map_abs_frame wf B.ext hx, List.map_map, zip_map_map]; rfl

theorem abs_map_entries {h : Heap} (wf : WF h) {ks : List String} {s : Slice} (hv : Valid h (.map ks s)) :
    abs h (.map ks s) = .map (absKV h (entries h ks s)) := by
  rw [abs_map wf hv.1]; simp [absKV, entries, List.zip_map_right]

theorem valid_entries {h : Heap} (wf : WF h) {ks : List String} {s : Slice} (hv : Valid h (.map ks s)) :
    ∀ kv ∈ entries h ks s, Valid h kv.2 := by
  intro kv hkv
  have : kv.2 ∈ window h s := (List.of_mem_zip (a := kv.1) (b := kv.2) hkv).2
  exact (wf.window hv.1.1 kv.2 this).1

theorem allocMap_step {h : Heap} (wf : WF h) {kvs : List (String × HVal)} (hv : ∀ kv ∈ kvs, Valid h kv.2)
    {name : String} {args : List HVal} (hp : Core.body name (args.map (abs h)) = .ok (.map (absKV h kvs))) :
    StepOK h ((allocMap h kvs).1, .ok (allocMap h kvs).2) ∧
    Refines name h args ((allocMap h kvs).1, .ok (allocMap h kvs).2) := by
  obtain ⟨e, w, v, a⟩ := allocMap_spec wf hv
  exact ⟨⟨e, w, fun _ hh => by cases hh; exact v⟩, by simp only [Refines, absRes]; rw [a, hp]⟩

/-! naturality of the association-list operations under `abs` -/

theorem absKV_ainsert (h : Heap) (k : String) (v : HVal) (m : List (String × HVal)) :
    absKV h (ainsert k v m) = ainsert k (abs h v) (absKV h m) := by
  induction m with
  | nil => rfl
  | cons kv r ih =>
    simp only [ainsert, absKV, List.map_cons] at ih ⊢
    split <;> simp [ih]

theorem absKV_aerase (h : Heap) (k : String) (m : List (String × HVal)) :
    absKV h (aerase k m) = aerase k (absKV h m) := by
  induction m with
  | nil => rfl
  | cons kv r ih =>
    simp only [aerase, absKV, List.map_cons] at ih ⊢
    split <;> simp [ih]

theorem alookup_absKV (h : Heap) (k : String) (m : List (String × HVal)) :
    alookup k (absKV h m) = (alookup k m).map (abs h) := by
  induction m with
  | nil => rfl
  | cons kv r ih =>
    simp only [alookup, absKV, List.map_cons] at ih ⊢
    split <;> simp [ih]

theorem valid_ainsert {h : Heap} {k : String} {v : HVal} {m : List (String × HVal)} (hv : Valid h v)
    (hm : ∀ kv ∈ m, Valid h kv.2) : ∀ kv ∈ ainsert k v m, Valid h kv.2 := by
  induction m with
  | nil => intro kv hkv; simp [ainsert] at hkv; subst hkv; exact hv
  | cons x r ih =>
    intro kv hkv
    simp only [ainsert] at hkv
    split at hkv
    · rcases List.mem_cons.1 hkv with rfl | h1
      · exact hv
      · exact hm kv (List.mem_cons_of_mem _ h1)
    · rcases List.mem_cons.1 hkv with rfl | h1
      · exact hm _ (by simp)
      · exact ih (fun kv hk => hm kv (List.mem_cons_of_mem _ hk)) kv h1

theorem valid_aerase {h : Heap} {k : String} {m : List (String × HVal)}
    (hm : ∀ kv ∈ m, Valid h kv.2) : ∀ kv ∈ aerase k m, Valid h kv.2 := by
  induction m with
  | nil => intro kv hkv; simp [aerase] at hkv
  | cons x r ih =>
    intro kv hkv
    simp only [aerase] at hkv
    split at hkv
    · exact hm kv (List.mem_cons_of_mem _ hkv)
    · rcases List.mem_cons.1 hkv with rfl | h1
      · exact hm _ (by simp)
      · exact ih (fun kv hk => hm kv (List.mem_cons_of_mem _ hk)) kv h1

/-- the key/value loops of `assoc`, `conj` (map arm) and `NewHashMap` are the same loop -/
theorem assocMapH_sound {h : Heap} (F : List Val → List (String × Val) → Core.BRes)
    (hnil : ∀ m, F [] m = .ok (.map m))
    (hcons : ∀ k v r m, F (.str k :: v :: r) m = F r (ainsert k v m)) :
    ∀ (r : List HVal) (m m' : List (String × HVal)), (∀ a ∈ r, Valid h a) → (∀ kv ∈ m, Valid h kv.2) →
      assocMapH r m = some m' →
      F (r.map (abs h)) (absKV h m) = .ok (.map (absKV h m')) ∧ ∀ kv ∈ m', Valid h kv.2
  | [], m, m', _, hm, e => by simp only [assocMapH, Option.some.injEq] at e; subst e; exact ⟨hnil _, hm⟩
  | [a], _, _, _, _, e => by
    cases a with
    | leaf v => cases v <;> simp [assocMapH] at e
    | seq => simp [assocMapH] at e
    | map => simp [assocMapH] at e
  | a :: v :: r, m, m', hr, hm, e => by
    cases a with
    | seq => simp [assocMapH] at e
    | map => simp [assocMapH] at e
    | leaf x =>
      cases x with
      | str k =>
        simp only [assocMapH] at e
        have := assocMapH_sound F hnil hcons r (ainsert k v m) m'
          (fun a ha => hr a (by simp [ha])) (valid_ainsert (hr v (by simp)) hm) e
        simp only [List.map_cons, abs_leaf, hcons, ← absKV_ainsert]
        exact this
      | _ => simp [assocMapH] at e

/-! ### index assignment into a slice under construction -/

theorem setAt_built {h0 h : Heap} {s : Slice} {xs : List HVal} (B : Built h0 h s xs) {i : Nat} (_hi : i < s.len)
    {v : HVal} (hv : Valid h0 v) : Built h0 (setAt h s i v) s (xs.set i v) := by
  obtain ⟨ext, wf, own, valid, win⟩ := B
  obtain ⟨v1, v2, v3⟩ := valid
  have hlen : ((arrOf h s.arr).set (s.off + i) v).length = (arrOf h s.arr).length := List.length_set
  refine ⟨Extends_set ext own _, WF_set wf hlen ?_, own, (ValidIn_set hlen).2 ⟨v1, v2, v3⟩, ?_⟩
  · intro e he
    rcases List.mem_or_eq_of_mem_set he with h1 | h1
    · exact wf s.arr v1 e h1
    · subst h1; exact ⟨Valid.ext ext hv, Nat.le_trans (rank_le_of_valid hv) own⟩
  · simp only [setAt, window, arrOf_set, v1, and_self, if_true]
    rw [← win, window, List.drop_set, if_neg (by omega), List.take_set]
    congr 2; omega

theorem body_assoc (xs : List Val) : Core.body "assoc" xs = Core.assoc xs := rfl

theorem assocVecH_sound {h0 : Heap} (wf0 : WF h0) :
    ∀ (r : List HVal) {h : Heap} {s : Slice} {xs : List HVal} (h' : Heap), Built h0 h s xs →
      (∀ a ∈ r, Valid h0 a) → (∀ x ∈ xs, Valid h0 x) → assocVecH h s r = some h' →
      ∃ xs', Built h0 h' s xs' ∧ (∀ x ∈ xs', Valid h0 x) ∧
        Core.assocVec (r.map (abs h0)) (xs.map (abs h0)) = .ok (.vec (xs'.map (abs h0)) none)
  | [], h, s, xs, h', B, _, hx, e => by
    simp only [assocVecH, Option.some.injEq] at e; subst e; exact ⟨xs, B, hx, rfl⟩
  | [a], _, _, _, _, _, _, _, e => by
    cases a with
    | leaf v => cases v <;> simp [assocVecH] at e
    | seq => simp [assocVecH] at e
    | map => simp [assocVecH] at e
  | a :: v :: r, h, s, xs, h', B, hr, hx, e => by
    cases a with
    | seq => simp [assocVecH] at e
    | map => simp [assocVecH] at e
    | leaf x =>
      cases x with
      | int i =>
        simp only [assocVecH] at e
        split at e
        · next c =>
          have hvv := hr v (by simp)
          have B1 := setAt_built B c.2 hvv
          have hx1 : ∀ x ∈ xs.set i.toNat v, Valid h0 x := by
            intro x hx'
            rcases List.mem_or_eq_of_mem_set hx' with h1 | h1
            · exact hx x h1
            · subst h1; exact hvv
          obtain ⟨xs', B2, hx2, hp⟩ := assocVecH_sound wf0 r h' B1 (fun a ha => hr a (by simp [ha])) hx1 e
          refine ⟨xs', B2, hx2, ?_⟩
          have hl : xs.length = s.len := by rw [← B.win]; exact window_length B.valid
          simp only [List.map_cons, abs_leaf, Core.assocVec, List.length_map, hl, c, and_self, if_true]
          rw [← List.map_set]; exact hp
        · simp at e
      | _ => simp [assocVecH] at e

/-! ### conj -/

theorem body_conj_list (ys : List Val) (p) (xs : List Val) :
    Core.body "conj" (.list ys p :: xs) = .ok (.list (xs.reverse ++ ys) none) := rfl
theorem body_conj_vec (ys : List Val) (p) (xs : List Val) :
    Core.body "conj" (.vec ys p :: xs) = .ok (.vec (ys ++ xs) none) := rfl

theorem body_conj_map (m : List (String × Val)) (xs : List Val) : Core.body "conj" (.map m :: xs) =
    if xs.length % 2 ≠ 0 then .goerr "conj called with on a hash map requires an odd number of arguments"
    else Core.conjMap xs m := rfl

theorem hConj_spec (g : Nat → Nat → Nat) {h : Heap} (wf : WF h) {args : List HVal} (hv : ∀ a ∈ args, Valid h a) :
    StepOK h (hConj g h args) ∧ Refines "conj" h args (hConj g h args) := by
  unfold hConj
  split <;> try dsimp only
  · next s p xs =>
    have hs : s.ValidIn h := hv (.seq .list s p) (by simp)
    have hxs : ∀ x ∈ xs, Valid h x := fun x hx => hv x (by simp [hx])
    have B := buildSeq_built g (Extends.refl h) wf (xs := xs.reverse) (by simpa using hxs)
    have hw : ∀ x ∈ window h s, Valid h x := fun x hx => (wf.window hs.1 x hx).1
    have B2 := goAppend_built g B (ys := window (buildSeq g h xs.reverse).1 s) (by rw [B.ext.window hs.1]; exact hw)
    rw [B.ext.window hs.1] at B2 ⊢
    refine ⟨B2.stepOK _ _, ?_⟩
    have hall : ∀ x ∈ xs.reverse ++ window h s, Valid h x := by
      intro x hx; rcases List.mem_append.1 hx with h1 | h1
      · exact hxs x (by simpa using h1)
      · exact hw x h1
    simp only [Refines, absRes, mkList, List.map_cons]
    rw [B2.abs_eq wf hall, abs_seq wf hs]
    simp [mkSeq, body_conj_list]
  · next s p xs =>
    have hs : s.ValidIn h := hv (.seq .vec s p) (by simp)
    have hxs : ∀ x ∈ xs, Valid h x := fun x hx => hv x (by simp [hx])
    have hw : ∀ x ∈ window h s, Valid h x := fun x hx => (wf.window hs.1 x hx).1
    have B := copyOf_built g (Extends.refl h) wf hw
    have B2 := goAppend_built g B hxs
    refine ⟨B2.stepOK _ _, ?_⟩
    have hall : ∀ x ∈ window h s ++ xs, Valid h x := by
      intro x hx; rcases List.mem_append.1 hx with h1 | h1
      · exact hw x h1
      · exact hxs x h1
    simp only [Refines, absRes, mkVec, List.map_cons]
    rw [B2.abs_eq wf hall, abs_seq wf hs]
    simp [mkSeq, body_conj_vec]
  · next ks s xs =>
    have hm : Valid h (.map ks s) := hv _ (by simp)
    have hxs : ∀ x ∈ xs, Valid h x := fun x hx => hv x (by simp [hx])
    split
    · exact pure_spec wf _ _
    · next c =>
      split
      · next m e =>
        obtain ⟨hp, hvm⟩ := assocMapH_sound (h := h) Core.conjMap (fun _ => rfl) (fun _ _ _ _ => rfl) xs _ m hxs
          (valid_entries wf hm) e
        refine allocMap_step wf hvm ?_
        simp only [List.map_cons]
        rw [abs_map_entries wf hm, body_conj_map, List.length_map, if_neg c]; exact hp
      · exact pure_spec wf _ _
  · exact ⟨pureAns_ok wf _ _, pureAns_refines _ _ _⟩

/-! ### concat -/

/-- the window of a sequence argument (nothing for a non-sequence) -/
def winOf (h : Heap) (a : HVal) : List HVal :=
  match seqOfH? a with
  | some s => window h s
  | none => []

theorem valid_winOf {h : Heap} (wf : WF h) {a : HVal} (ha : Valid h a) : ∀ x ∈ winOf h a, Valid h x := by
  cases a with
  | leaf v => simp [winOf, seqOfH?]
  | map ks s => simp [winOf, seqOfH?]
  | seq k s p => exact fun x hx => (wf.window ha.1 x hx).1

theorem seqOf_abs {h : Heap} (wf : WF h) {a : HVal} (ha : Valid h a) (hs : (seqOfH? a).isSome) :
    Core.seqOf? (abs h a) = some ((winOf h a).map (abs h)) := by
  cases a with
  | leaf v => simp [seqOfH?] at hs
  | map ks s => simp [seqOfH?] at hs
  | seq k s p => rw [abs_seq wf ha]; cases k <;> rfl

theorem flat_abs {h : Heap} (wf : WF h) : ∀ {as : List HVal}, (∀ a ∈ as, Valid h a) →
    (∀ a ∈ as, (seqOfH? a).isSome) →
    (as.map (abs h)).flatMap (fun x => (Core.seqOf? x).getD []) = (as.flatMap (winOf h)).map (abs h)
  | [], _, _ => rfl
  | a :: as, hv, hs => by
    have ih := flat_abs wf (as := as) (fun x hx => hv x (List.mem_cons_of_mem _ hx))
      (fun x hx => hs x (List.mem_cons_of_mem _ hx))
    simp [List.flatMap_cons, ih, seqOf_abs wf (hv a (by simp)) (hs a (by simp))]

theorem all_seq_abs {h : Heap} (wf : WF h) {as : List HVal} (hv : ∀ a ∈ as, Valid h a)
    (hs : ∀ a ∈ as, (seqOfH? a).isSome) : (as.map (abs h)).all (fun x => (Core.seqOf? x).isSome) = true := by
  simp only [List.all_eq_true, List.mem_map]
  rintro _ ⟨a, ha, rfl⟩
  rw [seqOf_abs wf (hv a ha) (hs a ha)]; rfl

theorem concatLoop_built (g : Nat → Nat → Nat) {h0 : Heap} (wf0 : WF h0) :
    ∀ (as : List HVal) {h : Heap} {s : Slice} {xs : List HVal}, Built h0 h s xs → (∀ a ∈ as, Valid h0 a) →
      ∀ r, concatLoop g h s as = some r →
        (∀ a ∈ as, (seqOfH? a).isSome) ∧ Built h0 r.1 r.2 (xs ++ as.flatMap (winOf h0))
  | [], _, _, _, B, _, r, hr => by
    simp only [concatLoop, Option.some.injEq] at hr; subst hr; simpa using B
  | a :: as, h, s, xs, B, hv, r, hr => by
    have ha := hv a (by simp)
    cases a with
    | leaf v => simp [concatLoop, seqOfH?] at hr
    | map ks s2 => simp [concatLoop, seqOfH?] at hr
    | seq k s2 p =>
      simp only [concatLoop, seqOfH?] at hr
      have hw : window h s2 = window h0 s2 := B.ext.window ha.1
      rw [hw] at hr
      have B1 := goAppend_built g B (ys := window h0 s2) (fun x hx => (wf0.window ha.1 x hx).1)
      have := concatLoop_built g wf0 as B1 (fun x hx => hv x (List.mem_cons_of_mem _ hx)) r hr
      refine ⟨?_, by simpa [winOf, seqOfH?] using this.2⟩
      intro b hb
      rcases List.mem_cons.1 hb with rfl | hb
      · rfl
      · exact this.1 b hb

theorem body_concat (ss : List Val) : Core.body "concat" ss = (match ss with
     | [] => .ok (.list [] none)
     | _ => if ss.all (fun x => (Core.seqOf? x).isSome) then .ok (.list (ss.flatMap (fun x => (Core.seqOf? x).getD [])) none)
            else .goerr "GetSlice called on non-sequence") := rfl

theorem hConcat_spec (g : Nat → Nat → Nat) {h : Heap} (wf : WF h) {args : List HVal} (hv : ∀ a ∈ args, Valid h a) :
    StepOK h (hConcat g h args) ∧ Refines "concat" h args (hConcat g h args) := by
  unfold hConcat
  split
  · have B := emptyLit_built (Extends.refl h) wf
    refine ⟨B.stepOK _ _, ?_⟩
    simp only [Refines, absRes, mkList]
    rw [B.abs_eq wf (by simp)]; rfl
  · next a as =>
    split
    · exact ⟨pureAns_ok wf _ _, pureAns_refines _ _ _⟩
    · next s0 hs0 =>
      have ha := hv a (by simp)
      have hw0 : winOf h a = window h s0 := by simp [winOf, hs0]
      have B := copyOf_built g (Extends.refl h) wf (xs := window h s0) (hw0 ▸ valid_winOf wf ha)
      dsimp only
      split
      · exact ⟨pureAns_ok wf _ _, pureAns_refines _ _ _⟩
      · next r hr =>
        obtain ⟨hall, B2⟩ := concatLoop_built g wf as B (fun x hx => hv x (List.mem_cons_of_mem _ hx)) r hr
        refine ⟨B2.stepOK _ _, ?_⟩
        have hall' : ∀ x ∈ a :: as, (seqOfH? x).isSome := by
          intro x hx; rcases List.mem_cons.1 hx with rfl | hx
          · simp [hs0]
          · exact hall x hx
        have hvx : ∀ x ∈ window h s0 ++ as.flatMap (winOf h), Valid h x := by
          intro x hx; rcases List.mem_append.1 hx with h1 | h1
          · exact valid_winOf wf ha x (hw0 ▸ h1)
          · obtain ⟨b, hb, hxb⟩ := List.mem_flatMap.1 h1
            exact valid_winOf wf (hv b (List.mem_cons_of_mem _ hb)) x hxb
        simp only [Refines, absRes, mkList]
        rw [B2.abs_eq wf hvx, body_concat, all_seq_abs wf hv hall', flat_abs wf hv hall']
        simp [mkSeq, hw0]

/-! ### sharing: sub-windows -/

theorem window_slice3 (h : Heap) (s : Slice) {i j : Nat} (k : Nat) (hj : j ≤ s.len) :
    window h (slice3 s i j k) = ((window h s).take j).drop i := by
  simp only [window, slice3, List.take_take, Nat.min_eq_left hj, List.drop_take, List.drop_drop]

theorem window_slice2 (h : Heap) (s : Slice) {i j : Nat} (hj : j ≤ s.len) :
    window h (slice2 s i j) = ((window h s).take j).drop i := window_slice3 h s (s.cap - i) hj

theorem valid_slice3 {h : Heap} {s : Slice} (hs : s.ValidIn h) {i j k : Nat} (hij : i ≤ j) (hjk : j ≤ k)
    (hk : k ≤ s.cap) : (slice3 s i j k).ValidIn h := by
  obtain ⟨a, b, c⟩ := hs
  exact ⟨a, by simp [slice3]; omega, by simp [slice3]; omega⟩

theorem valid_slice2 {h : Heap} {s : Slice} (hs : s.ValidIn h) {i j : Nat} (hij : i ≤ j) (hj : j ≤ s.cap) :
    (slice2 s i j).ValidIn h := by
  obtain ⟨a, b, c⟩ := hs
  exact ⟨a, by simp [slice2]; omega, by simp [slice2]; omega⟩

theorem body_subvec1 (xs : List Val) (p) (f : Int) : Core.body "subvec" [.vec xs p, .int f] =
    if 0 ≤ f ∧ f.toNat ≤ xs.length then .ok (.vec (xs.drop f.toNat) none) else .goerr "subvec index out of range" := rfl
theorem body_subvec2 (xs : List Val) (p) (f t : Int) : Core.body "subvec" [.vec xs p, .int f, .int t] =
    if 0 ≤ f ∧ f ≤ t ∧ t.toNat ≤ xs.length then .ok (.vec ((xs.take t.toNat).drop f.toNat) none)
    else .goerr "subvec index out of range" := rfl

theorem hSubvec_spec {h : Heap} (wf : WF h) {args : List HVal} (hv : ∀ a ∈ args, Valid h a) :
    StepOK h (hSubvec h args) ∧ Refines "subvec" h args (hSubvec h args) := by
  unfold hSubvec
  split
  · next s p f =>
    have hs : s.ValidIn h := hv (.seq .vec s p) (by simp)
    split
    · next c =>
      have hs' := valid_slice3 hs (i := f.toNat) (j := s.len) (k := s.len) c.2 (Nat.le_refl _) hs.2.1
      refine ⟨share_ok wf hs', ?_⟩
      simp only [Refines, absRes, mkVec, List.map_cons, List.map_nil, abs_leaf]
      rw [abs_seq wf hs', abs_seq wf hs, window_slice3 h s _ (Nat.le_refl _)]
      simp only [mkSeq, body_subvec1, List.length_map, window_length hs, c, and_self, if_true]
      rw [List.take_of_length_le (by rw [window_length hs]; exact Nat.le_refl _), List.map_drop]
    · exact ⟨pureAns_ok wf _ _, pureAns_refines _ _ _⟩
  · next s p f t =>
    have hs : s.ValidIn h := hv (.seq .vec s p) (by simp)
    split
    · next c =>
      have hft : f.toNat ≤ t.toNat := Int.toNat_le_toNat c.2.1
      have hs' := valid_slice3 hs (i := f.toNat) (j := t.toNat) (k := t.toNat) hft (Nat.le_refl _)
        (Nat.le_trans c.2.2 hs.2.1)
      refine ⟨share_ok wf hs', ?_⟩
      simp only [Refines, absRes, mkVec, List.map_cons, List.map_nil, abs_leaf]
      rw [abs_seq wf hs', abs_seq wf hs, window_slice3 h s _ c.2.2]
      simp only [mkSeq, body_subvec2, List.length_map, window_length hs, c, and_self, if_true]
      rw [List.map_drop, List.map_take]
    · exact ⟨pureAns_ok wf _ _, pureAns_refines _ _ _⟩
  · exact ⟨pureAns_ok wf _ _, pureAns_refines _ _ _⟩

/-! ### the other sequence builtins -/

theorem hListOf_list_spec {h : Heap} (wf : WF h) {args : List HVal} (hv : ∀ a ∈ args, Valid h a) :
    StepOK h (hListOf .list h args) ∧ Refines "list" h args (hListOf .list h args) :=
  (alloc_built (Extends.refl h) wf hv 0).spec wf hv .list none rfl

theorem hListOf_vec_spec {h : Heap} (wf : WF h) {args : List HVal} (hv : ∀ a ∈ args, Valid h a) :
    StepOK h (hListOf .vec h args) ∧ Refines "vector" h args (hListOf .vec h args) :=
  (alloc_built (Extends.refl h) wf hv 0).spec wf hv .vec none rfl

theorem body_cons (x : Val) (s : Val) : Core.body "cons" [x, s] =
    (match Core.seqOf? s with | some xs => .ok (.list (x :: xs) none) | none => .goerr "GetSlice called on non-sequence") := rfl

theorem hCons_spec (g : Nat → Nat → Nat) {h : Heap} (wf : WF h) {args : List HVal} (hv : ∀ a ∈ args, Valid h a) :
    StepOK h (hCons g h args) ∧ Refines "cons" h args (hCons g h args) := by
  unfold hCons
  split
  · next x k s p =>
    have hs : s.ValidIn h := hv (.seq k s p) (by simp)
    have hx : Valid h x := hv x (by simp)
    have hw : ∀ y ∈ window h s, Valid h y := fun y hy => (wf.window hs.1 y hy).1
    have B := alloc_built (Extends.refl h) wf (xs := [x]) (by simpa using hx) 0
    have B2 := goAppend_built g B hw
    dsimp only
    rw [B.ext.window hs.1]
    refine B2.spec wf (by simpa using ⟨hx, hw⟩) .list none ?_
    simp only [List.map_cons, List.map_nil, body_cons]
    rw [seqOf_abs wf (a := .seq k s p) hs rfl]; rfl
  · exact pure_spec wf _ _

theorem body_rest_seq (s : Val) (xs : List Val) (hs : Core.seqOf? s = some xs) :
    Core.body "rest" [s] = .ok (.list xs.tail none) := by
  cases s <;> simp [Core.seqOf?] at hs <;> subst hs <;> rfl

theorem hRest_spec {h : Heap} (wf : WF h) {args : List HVal} (hv : ∀ a ∈ args, Valid h a) :
    StepOK h (hRest h args) ∧ Refines "rest" h args (hRest h args) := by
  unfold hRest
  split
  · exact (emptyLit_built (Extends.refl h) wf).spec wf (by simp) .list none (by simp [abs_leaf]; rfl)
  · next k s p =>
    have hs : s.ValidIn h := hv (.seq k s p) (by simp)
    have hb := body_rest_seq _ _ (seqOf_abs wf (a := .seq k s p) hs rfl)
    have hl := window_length hs
    split
    · next c =>
      refine (emptyLit_built (Extends.refl h) wf).spec wf (by simp) .list none ?_
      have : window h s = [] := List.eq_nil_of_length_eq_zero (by rw [hl, c])
      simp only [List.map_cons, List.map_nil, hb]; simp [winOf, seqOfH?, this, mkSeq]
    · next c =>
      have hs' : (slice2 s 1 s.len).ValidIn h := valid_slice2 hs (by omega) hs.2.1
      refine share_spec wf (v := mkList (slice2 s 1 s.len)) hs' ?_
      simp only [List.map_cons, List.map_nil, hb, mkList]
      rw [abs_seq_list wf hs', window_slice2 h s (Nat.le_refl _),
        List.take_of_length_le (by rw [hl]; exact Nat.le_refl _)]
      simp [winOf, seqOfH?]
  · exact pure_spec wf _ _

theorem hVec_spec {h : Heap} (wf : WF h) {args : List HVal} (hv : ∀ a ∈ args, Valid h a) :
    StepOK h (hVec h args) ∧ Refines "vec" h args (hVec h args) := by
  unfold hVec
  split
  · next k s p =>
    have hs : s.ValidIn h := hv (.seq k s p) (by simp)
    refine share_spec wf (v := mkVec s) hs ?_
    simp only [List.map_cons, List.map_nil, mkVec]
    rw [abs_seq_vec wf hs, abs_seq wf hs]; cases k <;> rfl
  · next ks =>
    refine (alloc_built (Extends.refl h) wf (by simp [Valid]) 0).spec wf (by simp [Valid]) .vec none ?_
    simp [abs_leaf, mkSeq, Function.comp_def]; rfl
  · exact pure_spec wf _ _

theorem hFirst_spec {h : Heap} (wf : WF h) {args : List HVal} (hv : ∀ a ∈ args, Valid h a) :
    StepOK h (hFirst h args) ∧ Refines "first" h args (hFirst h args) := by
  unfold hFirst
  split
  · next k s p =>
    have hs : s.ValidIn h := hv (.seq k s p) (by simp)
    have hval : Valid h ((window h s).headD nilH) := by
      cases hw : window h s with
      | nil => trivial
      | cons x xs => exact (wf.window hs.1 x (by simp [hw])).1
    refine share_spec wf hval ?_
    simp only [List.map_cons, List.map_nil]
    rw [abs_seq wf hs]
    cases hw : window h s <;> cases k <;> simp [mkSeq, nilH, abs_leaf] <;> rfl
  · exact pure_spec wf _ _

theorem window_nil_of_len {h : Heap} {s : Slice} (hs : s.ValidIn h) (c : s.len = 0) : window h s = [] :=
  List.eq_nil_of_length_eq_zero (by rw [window_length hs, c])

theorem window_ne_nil_of_len {h : Heap} {s : Slice} (hs : s.ValidIn h) (c : ¬ s.len = 0) : window h s ≠ [] := by
  intro e; have := window_length hs; rw [e] at this; exact c this.symm

theorem hSeq_spec (g : Nat → Nat → Nat) {h : Heap} (wf : WF h) {args : List HVal} (hv : ∀ a ∈ args, Valid h a) :
    StepOK h (hSeq g h args) ∧ Refines "seq" h args (hSeq g h args) := by
  unfold hSeq
  split
  · next s p =>
    have hs : s.ValidIn h := hv (.seq .list s p) (by simp)
    split
    · next c =>
      refine share_spec wf (v := nilH) trivial ?_
      simp [abs_seq_list wf hs, window_nil_of_len hs c, nilH, abs_leaf]; rfl
    · next c =>
      refine share_spec wf (v := .seq .list s p) hs ?_
      have := window_ne_nil_of_len hs c
      simp only [List.map_cons, List.map_nil, abs_seq_list wf hs]
      cases hw : window h s with
      | nil => exact absurd hw this
      | cons x xs => rfl
  · next s p =>
    have hs : s.ValidIn h := hv (.seq .vec s p) (by simp)
    split
    · next c =>
      refine share_spec wf (v := nilH) trivial ?_
      simp [abs_seq_vec wf hs, window_nil_of_len hs c, nilH, abs_leaf]; rfl
    · next c =>
      refine share_spec wf (v := mkList s) hs ?_
      have := window_ne_nil_of_len hs c
      simp only [List.map_cons, List.map_nil, abs_seq_vec wf hs, mkList, abs_seq_list wf hs]
      cases hw : window h s with
      | nil => exact absurd hw this
      | cons x xs => rfl
  · next ks =>
    refine (buildSeq_built g (Extends.refl h) wf (by simp [Valid])).spec wf (by simp [Valid]) .list none ?_
    simp [abs_leaf, mkSeq, Function.comp_def]; rfl
  · next str =>
    split
    · next c =>
      refine share_spec wf (v := nilH) trivial ?_
      simp only [List.map_cons, List.map_nil, abs_leaf, nilH]
      show _ = Core.BRes.ok .nil
      have : Core.body "seq" [.str str] = if str.toList.isEmpty then .ok .nil else
        .ok (.list (str.toList.map (fun c => .str (String.ofList [c]))) none) := rfl
      rw [this, c]; rfl
    · next c =>
      refine (buildSeq_built g (Extends.refl h) wf (by simp [Valid])).spec wf (by simp [Valid]) .list none ?_
      have : Core.body "seq" [.str str] = if str.toList.isEmpty then .ok .nil else
        .ok (.list (str.toList.map (fun c => .str (String.ofList [c]))) none) := rfl
      simp only [List.map_cons, List.map_nil, abs_leaf, this, c]
      simp [mkSeq, abs_leaf, Function.comp_def]
  · exact pure_spec wf _ _

theorem hNth_spec {h : Heap} (wf : WF h) {args : List HVal} (hv : ∀ a ∈ args, Valid h a) :
    StepOK h (hNth h args) ∧ Refines "nth" h args (hNth h args) := by
  unfold hNth
  split
  · next k s p i =>
    have hs : s.ValidIn h := hv (.seq k s p) (by simp)
    split
    · next c =>
      have hl := window_length hs
      have hi : i.toNat < (window h s).length := by rw [hl]; exact c.2
      have hval : Valid h ((window h s).getD i.toNat nilH) := by
        rw [getD_eq_getElem' _ _ hi]; exact (wf.window hs.1 _ (List.getElem_mem hi)).1
      refine share_spec wf hval ?_
      have hb : ∀ xs : List Val, Core.body "nth" [mkSeq k xs p, .int i] =
          if i < 0 then .goerr "runtime error: index out of range"
          else if i.toNat < xs.length then .ok (xs.getD i.toNat .nil) else .goerr "nth: index out of range" := by
        intro xs; cases k <;> rfl
      simp only [List.map_cons, List.map_nil, abs_leaf, abs_seq wf hs, hb, List.length_map, hi, if_true]
      rw [if_neg (by omega), getD_eq_getElem' _ _ hi, getD_eq_getElem' _ _ (by simpa using hi)]
      simp
    · exact pure_spec wf _ _
  · exact pure_spec wf _ _

theorem valid_sub {h : Heap} (wf : WF h) {s : Slice} (hs : s.ValidIn h) {xs : List HVal}
    (hsub : ∀ x ∈ xs, x ∈ window h s) : ∀ x ∈ xs, Valid h x :=
  fun x hx => (wf.window hs.1 x (hsub x hx)).1

theorem body_take (n : Int) (k) (xs : List Val) (p) :
    Core.body "take" [.int n, mkSeq k xs p] = .ok (.list (xs.take n.toNat) none) := by cases k <;> rfl
theorem body_drop (n : Int) (k) (xs : List Val) (p) :
    Core.body "drop" [.int n, mkSeq k xs p] = .ok (.list (xs.drop n.toNat) none) := by cases k <;> rfl
theorem body_drop_last (n : Int) (k) (xs : List Val) (p) :
    Core.body "drop-last" [.int n, mkSeq k xs p] = .ok (.list (xs.take (xs.length - n.toNat)) none) := by
  cases k <;> rfl
theorem body_take_last (n : Int) (k) (xs : List Val) (p) :
    Core.body "take-last" [.int n, mkSeq k xs p] =
      if (xs.drop (xs.length - n.toNat)).isEmpty then .ok .nil else .ok (.list (xs.drop (xs.length - n.toNat)) none) := by
  cases k <;> rfl

theorem hTake_spec (g : Nat → Nat → Nat) {h : Heap} (wf : WF h) {args : List HVal} (hv : ∀ a ∈ args, Valid h a) :
    StepOK h (hTake g h args) ∧ Refines "take" h args (hTake g h args) := by
  unfold hTake
  split
  · exact (emptyLit_built (Extends.refl h) wf).spec wf (by simp) .list none (by simp [abs_leaf]; rfl)
  · next n k s p =>
    have hs : s.ValidIn h := hv (.seq k s p) (by simp)
    have hx := valid_sub wf hs (xs := (window h s).take n.toNat) (fun x hx => List.mem_of_mem_take hx)
    refine (buildSeq_built g (Extends.refl h) wf hx).spec wf hx .list none ?_
    simp only [List.map_cons, List.map_nil, abs_leaf, abs_seq wf hs, body_take, List.map_take]; rfl
  · exact pure_spec wf _ _

theorem hDrop_spec (g : Nat → Nat → Nat) {h : Heap} (wf : WF h) {args : List HVal} (hv : ∀ a ∈ args, Valid h a) :
    StepOK h (hDrop g h args) ∧ Refines "drop" h args (hDrop g h args) := by
  unfold hDrop
  split
  · exact (emptyLit_built (Extends.refl h) wf).spec wf (by simp) .list none (by simp [abs_leaf]; rfl)
  · next n k s p =>
    have hs : s.ValidIn h := hv (.seq k s p) (by simp)
    have hx := valid_sub wf hs (xs := (window h s).drop n.toNat) (fun x hx => List.mem_of_mem_drop hx)
    refine (buildSeq_built g (Extends.refl h) wf hx).spec wf hx .list none ?_
    simp only [List.map_cons, List.map_nil, abs_leaf, abs_seq wf hs, body_drop, List.map_drop]; rfl
  · exact pure_spec wf _ _

theorem hDropLast_spec (g : Nat → Nat → Nat) {h : Heap} (wf : WF h) {args : List HVal} (hv : ∀ a ∈ args, Valid h a) :
    StepOK h (hDropLast g h args) ∧ Refines "drop-last" h args (hDropLast g h args) := by
  unfold hDropLast
  split
  · exact (emptyLit_built (Extends.refl h) wf).spec wf (by simp) .list none (by simp [abs_leaf]; rfl)
  · next n k s p =>
    have hs : s.ValidIn h := hv (.seq k s p) (by simp)
    have hx := valid_sub wf hs (xs := (window h s).take (s.len - n.toNat)) (fun x hx => List.mem_of_mem_take hx)
    refine (buildSeq_built g (Extends.refl h) wf hx).spec wf hx .list none ?_
    simp only [List.map_cons, List.map_nil, abs_leaf, abs_seq wf hs, body_drop_last, List.map_take,
      List.length_map, window_length hs]; rfl
  · exact pure_spec wf _ _

theorem hTakeLast_spec (g : Nat → Nat → Nat) {h : Heap} (wf : WF h) {args : List HVal} (hv : ∀ a ∈ args, Valid h a) :
    StepOK h (hTakeLast g h args) ∧ Refines "take-last" h args (hTakeLast g h args) := by
  unfold hTakeLast
  split
  · next n k s p =>
    have hs : s.ValidIn h := hv (.seq k s p) (by simp)
    have hx := valid_sub wf hs (xs := (window h s).drop (s.len - n.toNat)) (fun x hx => List.mem_of_mem_drop hx)
    have hb : Core.body "take-last" (List.map (abs h) [intH n, .seq k s p]) =
        if ((window h s).drop (s.len - n.toNat)).isEmpty then .ok .nil
        else .ok (.list (((window h s).drop (s.len - n.toNat)).map (abs h)) none) := by
      simp only [List.map_cons, List.map_nil, intH, abs_leaf, abs_seq wf hs, body_take_last,
        List.length_map, window_length hs, ← List.map_drop, List.isEmpty_map]
    dsimp only
    split
    · next c => exact share_spec wf (v := nilH) trivial (by rw [show HVal.leaf (.int n) = intH n from rfl, hb, c]; rfl)
    · next c =>
      refine (buildSeq_built g (Extends.refl h) wf hx).spec wf hx .list none ?_
      rw [show HVal.leaf (.int n) = intH n from rfl, hb, if_neg c]; rfl
  · exact pure_spec wf _ _

theorem hRange_spec (g : Nat → Nat → Nat) {h : Heap} (wf : WF h) {args : List HVal} (hv : ∀ a ∈ args, Valid h a) :
    StepOK h (hRange g h args) ∧ Refines "range" h args (hRange g h args) := by
  unfold hRange
  split
  · next f t =>
    refine (buildSeq_built g (Extends.refl h) wf (by simp [Valid])).spec wf (by simp [Valid]) .vec none ?_
    simp [abs_leaf, mkSeq, Function.comp_def]; rfl
  · exact pure_spec wf _ _


/-! ### the map builtins -/

theorem hAssoc_spec (g : Nat → Nat → Nat) {h : Heap} (wf : WF h) {args : List HVal} (hv : ∀ a ∈ args, Valid h a) :
    StepOK h (hAssoc g h args) ∧ Refines "assoc" h args (hAssoc g h args) := by
  unfold hAssoc
  split
  · next ks s r =>
    have hm : Valid h (.map ks s) := hv _ (by simp)
    have hr : ∀ a ∈ r, Valid h a := fun a ha => hv a (by simp [ha])
    split
    · exact pure_spec wf _ _
    · next c1 =>
      split
      · exact pure_spec wf _ _
      · next c2 =>
        split
        · next m e =>
          obtain ⟨hp, hvm⟩ := assocMapH_sound (h := h) Core.assocMap (fun _ => rfl) (fun _ _ _ _ => rfl) r _ m hr
            (valid_entries wf hm) e
          refine allocMap_step wf hvm ?_
          simp only [List.map_cons, body_assoc]
          rw [abs_map_entries wf hm]
          simp only [Core.assoc]
          rw [if_neg (by simpa using c1), if_neg (by simpa using c2)]; exact hp
        · exact pure_spec wf _ _
  · next s p r =>
    have hs : s.ValidIn h := hv (.seq .vec s p) (by simp)
    have hr : ∀ a ∈ r, Valid h a := fun a ha => hv a (by simp [ha])
    have hw : ∀ x ∈ window h s, Valid h x := fun x hx => (wf.window hs.1 x hx).1
    split
    · exact pure_spec wf _ _
    · next c1 =>
      have B := copyOf_built g (Extends.refl h) wf hw
      dsimp only
      split
      · next h' e =>
        obtain ⟨xs', B2, hx2, hp⟩ := assocVecH_sound wf r h' B hr hw e
        refine B2.spec wf hx2 .vec none ?_
        simp only [List.map_cons, body_assoc]
        rw [abs_seq_vec wf hs]
        simp only [Core.assoc]
        rw [if_neg (by simpa using c1)]; exact hp
      · exact pure_spec wf _ _
  · exact pure_spec wf _ _

theorem strKeys_abs (h : Heap) : ∀ (r : List HVal) (del : List String), strKeys? r = some del →
    r.map (abs h) = del.map .str
  | [], del, e => by simp only [strKeys?, Option.some.injEq] at e; subst e; rfl
  | a :: r, del, e => by
    cases a with
    | seq => simp [strKeys?] at e
    | map => simp [strKeys?] at e
    | leaf x =>
      cases x with
      | str k =>
        simp only [strKeys?, Option.map_eq_some_iff] at e
        obtain ⟨d, hd, rfl⟩ := e
        simp [abs_leaf, strKeys_abs h r d hd]
      | _ => simp [strKeys?] at e

theorem all_isStr (del : List String) : (del.map Val.str).all Core.isStr = true := by
  simp [Core.isStr]

theorem foldl_aerase_abs (h : Heap) (f : List (String × Val) → Val → List (String × Val))
    (hf : ∀ m k, f m (.str k) = aerase k m) : ∀ (del : List String) (m : List (String × HVal)),
    (del.map Val.str).foldl f (absKV h m) = absKV h (del.foldl (fun m k => aerase k m) m)
  | [], _ => rfl
  | k :: del, m => by
    simp only [List.map_cons, List.foldl_cons, hf, ← absKV_aerase]
    exact foldl_aerase_abs h f hf del _

theorem valid_foldl_aerase {h : Heap} : ∀ (del : List String) {m : List (String × HVal)},
    (∀ kv ∈ m, Valid h kv.2) → ∀ kv ∈ del.foldl (fun m k => aerase k m) m, Valid h kv.2
  | [], _, hm => hm
  | _ :: del, _, hm => valid_foldl_aerase del (valid_aerase hm)

theorem body_dissoc (xs : List Val) : Core.body "dissoc" xs = Core.dissoc xs := rfl

theorem hDissoc_spec {h : Heap} (wf : WF h) {args : List HVal} (hv : ∀ a ∈ args, Valid h a) :
    StepOK h (hDissoc h args) ∧ Refines "dissoc" h args (hDissoc h args) := by
  unfold hDissoc
  split
  · next ks s r =>
    have hm : Valid h (.map ks s) := hv _ (by simp)
    split
    · exact pure_spec wf _ _
    · next c1 =>
      split
      · next del e =>
        refine allocMap_step wf (valid_foldl_aerase del (valid_entries wf hm)) ?_
        have hl : ¬ (abs h (.map ks s) :: del.map Val.str).length < 2 := by
          have := congrArg List.length (strKeys_abs h r del e); simp at this c1 ⊢; omega
        simp only [List.map_cons, body_dissoc, strKeys_abs h r del e]
        simp only [Core.dissoc]
        rw [if_neg hl, abs_map_entries wf hm]
        simp only [all_isStr, if_true]
        rw [foldl_aerase_abs h _ (fun _ _ => rfl)]
      · exact pure_spec wf _ _
  · exact pure_spec wf _ _

theorem body_hash_map (xs : List Val) : Core.body "hash-map" xs = (match xs with
     | [] => .ok (.map [])
     | [_] => .goerr "interface conversion"
     | _ => Core.newHashMap xs) := rfl

theorem hHashMap_spec {h : Heap} (wf : WF h) {args : List HVal} (hv : ∀ a ∈ args, Valid h a) :
    StepOK h (hHashMap h args) ∧ Refines "hash-map" h args (hHashMap h args) := by
  unfold hHashMap
  split
  · exact allocMap_step wf (by simp) rfl
  · exact pure_spec wf _ _
  · next hne1 hne2 =>
    split
    · exact pure_spec wf _ _
    · next c =>
      split
      · next m e =>
        obtain ⟨hp, hvm⟩ := assocMapH_sound (h := h) Core.newHashMapLoop (fun _ => rfl) (fun _ _ _ _ => rfl)
          args [] m hv (by simp) e
        refine allocMap_step wf hvm ?_
        rw [body_hash_map]
        cases args with
        | nil => exact absurd rfl hne1
        | cons a as =>
          cases as with
          | nil => exact absurd rfl (hne2 a)
          | cons b bs =>
            simp only [List.map_cons, Core.newHashMap]
            rw [if_neg (by simpa using c)]
            exact hp
      · exact pure_spec wf _ _

theorem foldl_ainsert_abs (h : Heap) : ∀ (m acc : List (String × HVal)),
    (absKV h m).foldl (fun acc kv => ainsert kv.1 kv.2 acc) (absKV h acc)
      = absKV h (m.foldl (fun acc kv => ainsert kv.1 kv.2 acc) acc)
  | [], _ => rfl
  | kv :: m, acc => by
    show ((kv.1, abs h kv.2) :: absKV h m).foldl _ (absKV h acc) = _
    rw [List.foldl_cons, ← absKV_ainsert]; exact foldl_ainsert_abs h m _

theorem valid_foldl_ainsert {h : Heap} : ∀ (m : List (String × HVal)) {acc : List (String × HVal)},
    (∀ kv ∈ m, Valid h kv.2) → (∀ kv ∈ acc, Valid h kv.2) →
    ∀ kv ∈ m.foldl (fun acc kv => ainsert kv.1 kv.2 acc) acc, Valid h kv.2
  | [], _, _, ha => ha
  | x :: m, _, hm, ha =>
    valid_foldl_ainsert m (fun kv hk => hm kv (List.mem_cons_of_mem _ hk)) (valid_ainsert (hm x (by simp)) ha)

theorem body_merge_nil_map (m : List (String × Val)) : Core.body "merge" [.nil, .map m] =
    .ok (.map (m.foldl (fun acc kv => ainsert kv.1 kv.2 acc) [])) := rfl
theorem body_merge_map_nil (m : List (String × Val)) : Core.body "merge" [.map m, .nil] =
    .ok (.map (m.foldl (fun acc kv => ainsert kv.1 kv.2 acc) [])) := rfl
theorem body_merge_map_map (m1 m2 : List (String × Val)) : Core.body "merge" [.map m1, .map m2] =
    .ok (.map (m2.foldl (fun acc kv => ainsert kv.1 kv.2 acc) m1)) := rfl

theorem hMerge_spec {h : Heap} (wf : WF h) {args : List HVal} (hv : ∀ a ∈ args, Valid h a) :
    StepOK h (hMerge h args) ∧ Refines "merge" h args (hMerge h args) := by
  unfold hMerge
  split
  · next ks s =>
    have hm : Valid h (.map ks s) := hv _ (by simp)
    refine allocMap_step wf (valid_foldl_ainsert _ (valid_entries wf hm) (by simp)) ?_
    simp only [List.map_cons, List.map_nil, abs_leaf]
    rw [abs_map_entries wf hm, body_merge_nil_map]
    exact congrArg (fun x => Core.BRes.ok (Val.map x)) (foldl_ainsert_abs h _ [])
  · next ks s =>
    have hm : Valid h (.map ks s) := hv _ (by simp)
    refine allocMap_step wf (valid_foldl_ainsert _ (valid_entries wf hm) (by simp)) ?_
    simp only [List.map_cons, List.map_nil, abs_leaf]
    rw [abs_map_entries wf hm, body_merge_map_nil]
    exact congrArg (fun x => Core.BRes.ok (Val.map x)) (foldl_ainsert_abs h _ [])
  · next ks1 s1 ks2 s2 =>
    have hm1 : Valid h (.map ks1 s1) := hv _ (by simp)
    have hm2 : Valid h (.map ks2 s2) := hv _ (by simp)
    refine allocMap_step wf (valid_foldl_ainsert _ (valid_entries wf hm2) (valid_entries wf hm1)) ?_
    simp only [List.map_cons, List.map_nil]
    rw [abs_map_entries wf hm1, abs_map_entries wf hm2, body_merge_map_map]
    exact congrArg (fun x => Core.BRes.ok (Val.map x)) (foldl_ainsert_abs h _ _)
  · exact pure_spec wf _ _

/-- `Core.renameKeys`' loop body, named -/
def renStep (alt : List (String × Val)) (acc : Option (List (String × Val))) (kv : String × Val) :
    Option (List (String × Val)) :=
  acc.bind fun out =>
    match alookup kv.1 alt with
    | some (.str nk) => some (ainsert nk kv.2 out)
    | some _ => none
    | none => some (ainsert kv.1 kv.2 out)

theorem renameKeys_eq (d alt : List (String × Val)) : Core.renameKeys d alt =
    (match d.foldl (renStep alt) (some []) with
     | some out => .ok (.map out)
     | none => .goerr "interface conversion") := rfl

theorem foldl_renStepH_none (alt : List (String × HVal)) : ∀ (d : List (String × HVal)),
    d.foldl (renStepH alt) none = none
  | [] => rfl
  | _ :: d => foldl_renStepH_none alt d

theorem renStepH_sound {h : Heap} (alt : List (String × HVal)) :
    ∀ (d : List (String × HVal)) (acc out : List (String × HVal)), (∀ kv ∈ d, Valid h kv.2) →
      (∀ kv ∈ acc, Valid h kv.2) → d.foldl (renStepH alt) (some acc) = some out →
      (absKV h d).foldl (renStep (absKV h alt)) (some (absKV h acc)) = some (absKV h out) ∧
      ∀ kv ∈ out, Valid h kv.2
  | [], acc, out, _, ha, e => by simp only [List.foldl_nil, Option.some.injEq] at e; subst e; exact ⟨rfl, ha⟩
  | kv :: d, acc, out, hd, ha, e => by
    have hkv := hd kv (by simp)
    have hd' : ∀ x ∈ d, Valid h x.2 := fun x hx => hd x (List.mem_cons_of_mem _ hx)
    simp only [List.foldl_cons] at e
    simp only [absKV, List.map_cons, List.foldl_cons]
    cases hl : alookup kv.1 alt with
    | none =>
      have e1 : renStepH alt (some acc) kv = some (ainsert kv.1 kv.2 acc) := by simp [renStepH, hl]
      have e2 : renStep (absKV h alt) (some (absKV h acc)) (kv.1, abs h kv.2)
          = some (absKV h (ainsert kv.1 kv.2 acc)) := by simp [renStep, alookup_absKV, hl, absKV_ainsert]
      rw [e1] at e
      have := renStepH_sound alt d _ out hd' (valid_ainsert hkv ha) e
      simp only [absKV] at e2 this; rw [e2]; exact this
    | some w =>
      cases w with
      | leaf x =>
        cases x with
        | str nk =>
          have e1 : renStepH alt (some acc) kv = some (ainsert nk kv.2 acc) := by simp [renStepH, hl]
          have e2 : renStep (absKV h alt) (some (absKV h acc)) (kv.1, abs h kv.2)
              = some (absKV h (ainsert nk kv.2 acc)) := by
            simp [renStep, alookup_absKV, hl, absKV_ainsert, abs_leaf]
          rw [e1] at e
          have := renStepH_sound alt d _ out hd' (valid_ainsert hkv ha) e
          simp only [absKV] at e2 this; rw [e2]; exact this
        | _ =>
          have e1 : renStepH alt (some acc) kv = none := by simp [renStepH, hl]
          rw [e1, foldl_renStepH_none] at e; cases e
      | seq k s p =>
        have e1 : renStepH alt (some acc) kv = none := by simp [renStepH, hl]
        rw [e1, foldl_renStepH_none] at e; cases e
      | map ks s =>
        have e1 : renStepH alt (some acc) kv = none := by simp [renStepH, hl]
        rw [e1, foldl_renStepH_none] at e; cases e

theorem body_rename_keys (d alt : List (String × Val)) :
    Core.body "rename-keys" [.map d, .map alt] = Core.renameKeys d alt := rfl

theorem hRenameKeys_spec {h : Heap} (wf : WF h) {args : List HVal} (hv : ∀ a ∈ args, Valid h a) :
    StepOK h (hRenameKeys h args) ∧ Refines "rename-keys" h args (hRenameKeys h args) := by
  unfold hRenameKeys
  split
  · next ks s ks2 s2 =>
    have hm1 : Valid h (.map ks s) := hv _ (by simp)
    have hm2 : Valid h (.map ks2 s2) := hv _ (by simp)
    split
    · next out e =>
      obtain ⟨hp, hvo⟩ := renStepH_sound (h := h) _ _ [] out (valid_entries wf hm1) (by simp) e
      refine allocMap_step wf hvo ?_
      simp only [List.map_cons, List.map_nil]
      rw [abs_map_entries wf hm1, abs_map_entries wf hm2, body_rename_keys, renameKeys_eq]
      have hp' : (absKV h (entries h ks s)).foldl (renStep (absKV h (entries h ks2 s2))) (some [])
          = some (absKV h out) := hp
      rw [hp']
    · exact pure_spec wf _ _
  · exact pure_spec wf _ _

theorem valid_alookup {h : Heap} (k : String) : ∀ {m : List (String × HVal)}, (∀ kv ∈ m, Valid h kv.2) →
    Valid h ((alookup k m).getD nilH)
  | [], _ => trivial
  | x :: m, hm => by
    simp only [alookup]
    split
    · exact hm x (by simp)
    · exact valid_alookup k (fun kv hk => hm kv (List.mem_cons_of_mem _ hk))

theorem body_get (a b : Val) : Core.body "get" [a, b] = Core.get a b := rfl

theorem hGet_spec {h : Heap} (wf : WF h) {args : List HVal} (hv : ∀ a ∈ args, Valid h a) :
    StepOK h (hGet h args) ∧ Refines "get" h args (hGet h args) := by
  unfold hGet
  split
  · next ks s k =>
    have hm : Valid h (.map ks s) := hv _ (by simp)
    refine share_spec wf (valid_alookup k (valid_entries wf hm)) ?_
    simp only [List.map_cons, List.map_nil, abs_leaf, body_get]
    rw [abs_map_entries wf hm]
    show Core.BRes.ok ((alookup k (absKV h (entries h ks s))).getD .nil) = _
    rw [alookup_absKV]
    cases alookup k (entries h ks s) <;> simp [nilH, abs_leaf]
  · next k s p i =>
    have hs : s.ValidIn h := hv (.seq k s p) (by simp)
    split
    · next c =>
      have hl := window_length hs
      have hi : i.toNat < (window h s).length := by rw [hl]; exact c.2
      have hval : Valid h ((window h s).getD i.toNat nilH) := by
        rw [getD_eq_getElem' _ _ hi]; exact (wf.window hs.1 _ (List.getElem_mem hi)).1
      refine share_spec wf hval ?_
      have hb : ∀ xs : List Val, Core.get (mkSeq k xs p) (.int i) =
          if 0 ≤ i ∧ i.toNat < xs.length then .ok (xs.getD i.toNat .nil) else .goerr "index out of range" := by
        intro xs; cases k <;> rfl
      simp only [List.map_cons, List.map_nil, abs_leaf, abs_seq wf hs, body_get, hb, List.length_map, hl, c,
        and_self, if_true]
      rw [getD_eq_getElem' _ _ hi, getD_eq_getElem' _ _ (by simpa using hi)]
      simp
    · exact pure_spec wf _ _
  · exact pure_spec wf _ _

theorem body_keys (m : List (String × Val)) :
    Core.body "keys" [.map m] = .ok (.list (m.map (fun kv => .str kv.1)) none) := rfl
theorem body_vals (m : List (String × Val)) :
    Core.body "vals" [.map m] = .ok (.list (m.map (·.2)) none) := rfl

theorem hKeys_spec (g : Nat → Nat → Nat) {h : Heap} (wf : WF h) {args : List HVal} (hv : ∀ a ∈ args, Valid h a) :
    StepOK h (hKeys g h args) ∧ Refines "keys" h args (hKeys g h args) := by
  unfold hKeys
  split
  · next ks s =>
    have hm : Valid h (.map ks s) := hv _ (by simp)
    have hx : ∀ x ∈ (entries h ks s).map (fun kv => HVal.leaf (.str kv.1)), Valid h x := by
      intro x hx; obtain ⟨kv, _, rfl⟩ := List.mem_map.1 hx; trivial
    refine (buildSeq_built g (Extends.refl h) wf hx).spec wf hx .list none ?_
    simp only [List.map_cons, List.map_nil]
    rw [abs_map_entries wf hm, body_keys]
    simp [absKV, mkSeq, abs_leaf, Function.comp_def]
  · exact pure_spec wf _ _

theorem hVals_spec (g : Nat → Nat → Nat) {h : Heap} (wf : WF h) {args : List HVal} (hv : ∀ a ∈ args, Valid h a) :
    StepOK h (hVals g h args) ∧ Refines "vals" h args (hVals g h args) := by
  unfold hVals
  split
  · next ks s =>
    have hm : Valid h (.map ks s) := hv _ (by simp)
    have hx : ∀ x ∈ (entries h ks s).map (·.2), Valid h x := by
      intro x hx; obtain ⟨kv, hk, rfl⟩ := List.mem_map.1 hx; exact valid_entries wf hm kv hk
    refine (buildSeq_built g (Extends.refl h) wf hx).spec wf hx .list none ?_
    simp only [List.map_cons, List.map_nil]
    rw [abs_map_entries wf hm, body_vals]
    simp [absKV, mkSeq, Function.comp_def]
  · exact pure_spec wf _ _


/-! ### with-meta, apply; callbacks: map, update -/

theorem StepOK.trans {h : Heap} {r1 r2 : Heap × HRes} (a : StepOK h r1) (b : StepOK r1.1 r2) : StepOK h r2 :=
  ⟨a.ext.trans b.ext, b.wf, b.valid⟩

/-- `with-meta` answers a value on the same window: it denotes the same collection (cursor dropped) -/
theorem hWithMeta_spec {h : Heap} (wf : WF h) {args : List HVal} (hv : ∀ a ∈ args, Valid h a) :
    StepOK h (hWithMeta h args) ∧
    (∀ k s p m, args = [.seq k s p, m] →
      absRes (hWithMeta h args).1 (hWithMeta h args).2 = .ok (mkSeq k ((window h s).map (abs h)) none)) ∧
    (∀ ks s m, args = [.map ks s, m] →
      absRes (hWithMeta h args).1 (hWithMeta h args).2 = .ok (abs h (.map ks s))) := by
  refine ⟨?_, ?_, ?_⟩
  · unfold hWithMeta
    split
    · next k s p m => exact share_ok wf (v := .seq k s none) (hv (.seq k s p) (by simp))
    · next ks s m => exact share_ok wf (hv (.map ks s) (by simp))
    · exact ⟨Extends.refl h, wf, fun _ e => by cases e⟩
  · rintro k s p m rfl
    have hs : s.ValidIn h := hv (.seq k s p) (by simp)
    simp only [hWithMeta, absRes]; rw [abs_seq wf hs]
  · rintro ks s m rfl; rfl

theorem hApplyArgs_spec (g : Nat → Nat → Nat) {h : Heap} (wf : WF h) {args : List HVal}
    (hv : ∀ a ∈ args, Valid h a) :
    StepOK h (hApplyArgs g h args) ∧
    absRes (hApplyArgs g h args).1 (hApplyArgs g h args).2 = pureApplyArgs (args.map (abs h)) := by
  unfold hApplyArgs
  split
  · next k s p hl =>
    have hlast : Valid h (.seq k s p) := hv _ (List.mem_of_getLast? hl)
    have hd : ∀ x ∈ args.dropLast, Valid h x := fun x hx => hv x (List.dropLast_subset _ hx)
    have hw : ∀ x ∈ window h s, Valid h x := fun x hx => (wf.window hlast.1 x hx).1
    have B := copyOf_built g (Extends.refl h) wf hd
    have B2 := goAppend_built g B hw
    dsimp only
    rw [B.ext.window hlast.1]
    have hall : ∀ x ∈ args.dropLast ++ window h s, Valid h x := by
      intro x hx; rcases List.mem_append.1 hx with h1 | h1
      · exact hd x h1
      · exact hw x h1
    refine ⟨B2.stepOK _ _, ?_⟩
    simp only [absRes, mkList, pureApplyArgs, List.getLast?_map, hl, Option.map_some]
    rw [B2.abs_eq wf hall, seqOf_abs wf (a := .seq k s p) hlast rfl]
    simp [mkSeq, winOf, seqOfH?, List.map_dropLast]
  · exact ⟨⟨Extends.refl h, wf, fun _ e => by cases e⟩, rfl⟩

/-- what the theorems assume of a callee (a lisp function applied to one argument): what they prove of
    every builtin — it is a step on the heap (`StepOK`) that computes a pure function `pf` -/
structure CallbackOK (cb : Heap → HVal → Heap × HRes) (pf : Val → Core.BRes) : Prop where
  ok : ∀ h v, WF h → Valid h v → StepOK h (cb h v)
  refines : ∀ h v, WF h → Valid h v → absRes (cb h v).1 (cb h v).2 = pf (abs h v)

theorem resVal_some {r : HRes} {v : HVal} (e : resVal r = some v) (h : Heap) : absRes h r = .ok (abs h v) := by
  cases r with
  | ok w => simp only [resVal, Option.some.injEq] at e; subst e; rfl
  | pure b => cases b <;> simp [resVal] at e; subst e; simp [absRes, abs_leaf]

theorem resVal_valid {h h' : Heap} {r : HRes} (ok : StepOK h (h', r)) {v : HVal} (e : resVal r = some v) :
    Valid h' v := by
  cases r with
  | ok w => simp only [resVal, Option.some.injEq] at e; subst e; exact ok.valid _ rfl
  | pure b => cases b <;> simp [resVal] at e; subst e; trivial

theorem resVal_none {r : HRes} (e : resVal r = none) : ∃ b, r = .pure b ∧ ∀ v, b ≠ .ok v := by
  cases r with
  | ok w => simp [resVal] at e
  | pure b => cases b <;> simp [resVal] at e <;> exact ⟨_, rfl, fun _ hh => by cases hh⟩

/-- `mAp`'s loop on pure values: first non-value answer wins -/
def pureMapLoop (pf : Val → Core.BRes) : List Val → Except Core.BRes (List Val)
  | [] => .ok []
  | x :: xs =>
    match pf x with
    | .ok v => (match pureMapLoop pf xs with | .ok vs => .ok (v :: vs) | .error e => .error e)
    | e => .error e

/-- `map` on pure values (`callBuiltin "map"` in Eval.lean with the callee abstracted to `pf`) -/
def pureMap (pf : Val → Core.BRes) (s : Val) : Core.BRes :=
  match Core.seqOf? s with
  | none => .goerr "GetSlice called on non-sequence"
  | some xs => match pureMapLoop pf xs with
    | .ok vs => .ok (.list vs none)
    | .error e => e

theorem mapLoopH_spec {cb pf} (C : CallbackOK cb pf) : ∀ (xs : List HVal) {h : Heap}, WF h →
    (∀ x ∈ xs, Valid h x) →
    Extends h (mapLoopH cb h xs).1 ∧ WF (mapLoopH cb h xs).1 ∧
    (match (mapLoopH cb h xs).2 with
     | .ok vs => (∀ v ∈ vs, Valid (mapLoopH cb h xs).1 v) ∧
         pureMapLoop pf (xs.map (abs h)) = .ok (vs.map (abs (mapLoopH cb h xs).1))
     | .error e => pureMapLoop pf (xs.map (abs h)) = .error e)
  | [], h, wf, _ => ⟨Extends.refl h, wf, by simp [mapLoopH], rfl⟩
  | x :: xs, h, wf, hv => by
    have hx := hv x (by simp)
    have ok := C.ok h x wf hx
    have rf := C.refines h x wf hx
    simp only [mapLoopH, List.map_cons, pureMapLoop]
    cases hr : resVal (cb h x).2 with
    | none =>
      obtain ⟨b, hb, hne⟩ := resVal_none hr
      refine ⟨ok.ext, ok.wf, ?_⟩
      simp only
      rw [← rf, hb]
      cases b with
      | ok v => exact absurd rfl (hne v)
      | thrown v => rfl
      | goerr m => rfl
    | some v =>
      have hvv : Valid (cb h x).1 v := resVal_valid (r := (cb h x).2) ok hr
      have hxs : ∀ y ∈ xs, Valid (cb h x).1 y := fun y hy => Valid.ext ok.ext (hv y (by simp [hy]))
      obtain ⟨e2, w2, m2⟩ := mapLoopH_spec C xs ok.wf hxs
      have hpf : pf (abs h x) = .ok (abs (cb h x).1 v) := by rw [← rf]; exact resVal_some hr _
      have hmap : xs.map (abs (cb h x).1) = xs.map (abs h) :=
        map_abs_frame wf ok.ext (fun y hy => hv y (by simp [hy]))
      rw [hmap] at m2
      simp only [hpf]
      cases ht : (mapLoopH cb (cb h x).1 xs).2 with
      | ok vs =>
        rw [ht] at m2
        refine ⟨ok.ext.trans e2, w2, ?_⟩
        simp only
        refine ⟨?_, ?_⟩
        · intro w hw
          rcases List.mem_cons.1 hw with rfl | h1
          · exact Valid.ext e2 hvv
          · exact m2.1 w h1
        · rw [m2.2, List.map_cons, abs_frame ok.wf e2 hvv]
      | error e =>
        rw [ht] at m2
        refine ⟨ok.ext.trans e2, w2, ?_⟩
        simp only [m2]

theorem elemsH_spec {h : Heap} (wf : WF h) {s : HVal} (hs : Valid h s) :
    Core.seqOf? (abs h s) = (elemsH h s).map (·.map (abs h)) ∧ ∀ xs, elemsH h s = some xs → ∀ x ∈ xs, Valid h x := by
  cases s with
  | leaf v =>
    refine ⟨?_, ?_⟩
    · rw [abs_leaf]; simp only [elemsH]
      cases Core.seqOf? v <;> simp [Function.comp_def, abs_leaf]
    · intro xs e x hx
      simp only [elemsH, Option.map_eq_some_iff] at e
      obtain ⟨ys, _, rfl⟩ := e
      obtain ⟨_, _, rfl⟩ := List.mem_map.1 hx; trivial
  | map ks sl => exact ⟨by rw [abs_map wf hs.1]; rfl, fun xs e => by simp [elemsH] at e⟩
  | seq k sl p =>
    refine ⟨by rw [seqOf_abs wf hs rfl]; rfl, ?_⟩
    intro xs e x hx
    simp only [elemsH, Option.some.injEq] at e; subst e
    exact (wf.window hs.1 x hx).1

theorem hMap_spec (g : Nat → Nat → Nat) {cb pf} (C : CallbackOK cb pf) {h : Heap} (wf : WF h) {s : HVal}
    (hs : Valid h s) :
    StepOK h (hMap g cb h s) ∧ absRes (hMap g cb h s).1 (hMap g cb h s).2 = pureMap pf (abs h s) := by
  obtain ⟨hq, hval⟩ := elemsH_spec wf hs
  unfold hMap pureMap
  rw [hq]
  cases he : elemsH h s with
  | none => exact ⟨⟨Extends.refl h, wf, fun _ e => by cases e⟩, rfl⟩
  | some xs =>
    obtain ⟨e1, w1, m1⟩ := mapLoopH_spec C xs wf (hval xs he)
    simp only [Option.map_some]
    cases ht : (mapLoopH cb h xs).2 with
    | error e =>
      rw [ht] at m1
      exact ⟨⟨e1, w1, fun _ e => by cases e⟩, by simp only [absRes, m1]⟩
    | ok vs =>
      rw [ht] at m1
      have B := buildSeq_built g (Extends.refl _) w1 m1.1
      refine ⟨⟨e1.trans B.ext, B.wf, fun _ e => by cases e; exact B.valid⟩, ?_⟩
      simp only [absRes, mkList, m1.2]
      rw [B.abs_eq w1 m1.1]; rfl

/-! ### assoc-in -/

/-- `branch == nil → HashMap{}` / `Vector{}` -/
def nilDefault (d : Val) (x : Val) : Val := match x with | .nil => d | b => b

theorem nilDefault_of_ne {d x : Val} (hx : x ≠ .nil) : nilDefault d x = x := by
  cases x <;> first | rfl | exact absurd rfl hx

/-- the branch `Core.assocIn` descends into, named -/
def pureBranch (v i : Val) : Option Val :=
  match v, i with
  | .map m, .str k => some (nilDefault (.map []) ((alookup k m).getD .nil))
  | .vec xs _, .int n =>
    if 0 ≤ n ∧ n.toNat < xs.length then some (nilDefault (.vec [] none) (xs.getD n.toNat .nil)) else none
  | .map _, _ => none
  | .vec _ _, _ => none
  | _, _ => some .nil

theorem assocIn_cons2 (v i j : Val) (rest : List Val) (nv : Val) :
    Core.assocIn v (i :: j :: rest) nv =
      (match pureBranch v i with
       | none => .goerr "interface conversion or index out of range"
       | some b =>
         match Core.assocIn b (j :: rest) nv with
         | .ok inner => Core.assoc [v, i, inner]
         | r => r) := by
  cases v <;> cases i <;> rfl

theorem abs_ne_nil {h : Heap} {e : HVal} (he : e ≠ .leaf .nil) : abs h e ≠ .nil := by
  cases e with
  | leaf x => rw [abs_leaf]; intro c; exact he (by rw [c])
  | seq k s p => cases k <;> simp [abs, rank, HVal.slice?, absF, mkSeq]
  | map ks s => simp [abs, rank, HVal.slice?, absF]

theorem branchH_spec {h : Heap} (wf : WF h) {v i : HVal} (hv : Valid h v) {b : Heap × HVal}
    (e : branchH h v i = some b) :
    Extends h b.1 ∧ WF b.1 ∧ Valid b.1 b.2 ∧ pureBranch (abs h v) (abs h i) = some (abs b.1 b.2) := by
  unfold branchH at e
  split at e
  · next ks s k =>
    simp only [Option.some.injEq] at e
    have hel := valid_alookup k (valid_entries wf hv)
    have hp : pureBranch (abs h (.map ks s)) (abs h (.leaf (.str k))) =
        some (nilDefault (.map []) (abs h ((alookup k (entries h ks s)).getD nilH))) := by
      rw [abs_map_entries wf hv, abs_leaf]
      show some (nilDefault _ ((alookup k (absKV h (entries h ks s))).getD .nil)) = _
      rw [alookup_absKV]; cases alookup k (entries h ks s) <;> simp [nilH, abs_leaf]
    split at e
    · next hnil =>
      subst e
      obtain ⟨ex, w, vl, ab⟩ := allocMap_spec (h := h) wf (kvs := []) (by simp)
      refine ⟨ex, w, vl, ?_⟩
      rw [hp, hnil, abs_leaf, ab]; rfl
    · next hne =>
      subst e
      refine ⟨Extends.refl h, wf, hel, ?_⟩
      rw [hp, nilDefault_of_ne (abs_ne_nil (by intro c; exact hne c))]
  · next s p n =>
    have hs : s.ValidIn h := hv
    split at e
    · next c =>
      simp only [Option.some.injEq] at e
      have hl := window_length hs
      have hi : n.toNat < (window h s).length := by rw [hl]; exact c.2
      have hel : Valid h ((window h s).getD n.toNat nilH) := by
        rw [getD_eq_getElem' _ _ hi]; exact (wf.window hs.1 _ (List.getElem_mem hi)).1
      have hp : pureBranch (abs h (.seq .vec s p)) (abs h (.leaf (.int n))) =
          some (nilDefault (.vec [] none) (abs h ((window h s).getD n.toNat nilH))) := by
        rw [abs_seq_vec wf hs, abs_leaf]
        simp only [pureBranch, List.length_map, hl, c, and_self, if_true]
        rw [getD_eq_getElem' _ _ hi, getD_eq_getElem' _ _ (by simpa using hi)]; simp
      split at e
      · next hnil =>
        subst e
        have B := emptyLit_built (Extends.refl h) wf
        refine ⟨B.ext, B.wf, B.valid, ?_⟩
        rw [hp, hnil, abs_leaf, mkVec, B.abs_eq wf (by simp)]; rfl
      · next hne =>
        subst e
        refine ⟨Extends.refl h, wf, hel, ?_⟩
        rw [hp, nilDefault_of_ne (abs_ne_nil (by intro c; exact hne c))]
    · simp at e
  · simp at e

theorem not_ok_of_resVal_none {h : Heap} {r : HRes} (e : resVal r = none) : ∀ v, absRes h r ≠ .ok v := by
  obtain ⟨b, rfl, hne⟩ := resVal_none e
  exact fun v => hne v

theorem assocInH_spec (g : Nat → Nat → Nat) : ∀ (path : List HVal) {h : Heap} {v nv : HVal}, WF h → Valid h v →
    Valid h nv → (∀ i ∈ path, Valid h i) → ∀ r, assocInH g h v path nv = some r →
    StepOK h r ∧ absRes r.1 r.2 = Core.assocIn (abs h v) (path.map (abs h)) (abs h nv)
  | [], h, v, nv, wf, hv, _, _, r, e => by
    simp only [assocInH, Option.some.injEq] at e; subst e
    exact ⟨share_ok wf hv, rfl⟩
  | [i], h, v, nv, wf, hv, hnv, hp, r, e => by
    simp only [assocInH, Option.some.injEq] at e; subst e
    have := hAssoc_spec g wf (args := [v, i, nv]) (by
      intro a ha; simp at ha; rcases ha with rfl | rfl | rfl
      · exact hv
      · exact hp _ (by simp)
      · exact hnv)
    exact ⟨this.1, this.2⟩
  | i :: j :: rest, h, v, nv, wf, hv, hnv, hp, r, e => by
    simp only [assocInH] at e
    cases hb : branchH h v i with
    | none => simp [hb] at e
    | some b =>
      simp only [hb] at e
      obtain ⟨ex, wb, vb, pb⟩ := branchH_spec wf hv hb
      have hp' : ∀ x ∈ j :: rest, Valid b.1 x := fun x hx => Valid.ext ex (hp x (List.mem_cons_of_mem _ hx))
      cases hr1 : assocInH g b.1 b.2 (j :: rest) nv with
      | none => simp [hr1] at e
      | some r1 =>
        simp only [hr1] at e
        obtain ⟨ok1, rf1⟩ := assocInH_spec g (j :: rest) wb vb (Valid.ext ex hnv) hp' r1 hr1
        have hpath : (j :: rest).map (abs b.1) = (j :: rest).map (abs h) :=
          map_abs_frame wf ex (fun x hx => hp x (List.mem_cons_of_mem _ hx))
        rw [hpath, abs_frame wf ex hnv] at rf1
        have ex1 : Extends h r1.1 := ex.trans ok1.ext
        simp only [List.map_cons] at rf1 ⊢
        rw [assocIn_cons2, pb]
        simp only
        cases hres : resVal r1.2 with
        | none =>
          simp only [hres, Option.some.injEq] at e; subst e
          refine ⟨⟨ex1, ok1.wf, ok1.valid⟩, ?_⟩
          rw [← rf1]
          have hn := not_ok_of_resVal_none (h := r1.1) hres
          cases hc : absRes r1.1 r1.2 with
          | ok x => exact absurd hc (hn x)
          | thrown x => rfl
          | goerr m => rfl
        | some inner =>
          simp only [hres, Option.some.injEq] at e; subst e
          have hinner : Valid r1.1 inner := resVal_valid (r := r1.2) ⟨ok1.ext, ok1.wf, ok1.valid⟩ hres
          have hargs : ∀ a ∈ [v, i, inner], Valid r1.1 a := by
            intro a ha; simp at ha; rcases ha with rfl | rfl | rfl
            · exact Valid.ext ex1 hv
            · exact Valid.ext ex1 (hp _ (by simp))
            · exact hinner
          obtain ⟨ok2, rf2⟩ := hAssoc_spec g ok1.wf hargs
          refine ⟨⟨ex1.trans ok2.ext, ok2.wf, ok2.valid⟩, ?_⟩
          rw [rf2, ← rf1, resVal_some hres]
          simp only [List.map_cons, List.map_nil, abs_frame wf ex1 hv, abs_frame wf ex1 (hp i (by simp))]
          rfl

theorem body_assoc_in (v : Val) (path : List Val) (p) (d : Val) :
    Core.body "assoc-in" [v, .vec path p, d] = Core.assocIn v path d := rfl

theorem hAssocIn_spec (g : Nat → Nat → Nat) {h : Heap} (wf : WF h) {args : List HVal} (hv : ∀ a ∈ args, Valid h a) :
    StepOK h (hAssocIn g h args) ∧ Refines "assoc-in" h args (hAssocIn g h args) := by
  unfold hAssocIn
  split
  · next v ps p nv =>
    have hps : ps.ValidIn h := hv (.seq .vec ps p) (by simp)
    split
    · next r e =>
      have := assocInH_spec g (window h ps) wf (hv v (by simp)) (hv nv (by simp))
        (fun i hi => (wf.window hps.1 i hi).1) r e
      refine ⟨this.1, ?_⟩
      simp only [Refines, List.map_cons, List.map_nil]
      rw [abs_seq_vec wf hps, body_assoc_in]; exact this.2
    · exact pure_spec wf _ _
  · exact pure_spec wf _ _

/-! ### update, update-in (callee = `cb`) -/

theorem pure_ok {h : Heap} (wf : WF h) (b : Core.BRes) : StepOK h (h, .pure b) :=
  ⟨Extends.refl h, wf, fun _ e => by cases e⟩

theorem curH_valid {h : Heap} (wf : WF h) {v i : HVal} (hv : Valid h v) {c : HVal}
    (e : curH h v i = some c) : Valid h c := by
  unfold curH at e
  split at e
  · next ks s k => simp only [Option.some.injEq] at e; subst e; exact valid_alookup k (valid_entries wf hv)
  · next s p n =>
    have hs : s.ValidIn h := hv
    split at e
    · next cnd =>
      simp only [Option.some.injEq] at e; subst e
      have hi : n.toNat < (window h s).length := by rw [window_length hs]; exact cnd.2
      rw [getD_eq_getElem' _ _ hi]; exact (wf.window hs.1 _ (List.getElem_mem hi)).1
    · simp at e
  · simp at e

/-- `update` is a step: whatever the callee does (as a step), no existing value changes -/
theorem hUpdate_ok (g : Nat → Nat → Nat) {cb pf} (C : CallbackOK cb pf) {h : Heap} (wf : WF h) {v i : HVal}
    (hv : Valid h v) (hi : Valid h i) : StepOK h (hUpdate g cb h v i) := by
  unfold hUpdate
  cases hc : curH h v i with
  | none => exact pure_ok wf _
  | some c =>
    have hcv := curH_valid wf hv hc
    have ok := C.ok h c wf hcv
    dsimp only
    cases hres : resVal (cb h c).2 with
    | none => exact ⟨ok.ext, ok.wf, fun _ e => by cases e⟩
    | some res =>
      have hargs : ∀ a ∈ [v, i, res], Valid (cb h c).1 a := by
        intro a ha; simp at ha; rcases ha with rfl | rfl | rfl
        · exact Valid.ext ok.ext hv
        · exact Valid.ext ok.ext hi
        · exact resVal_valid (r := (cb h c).2) ok hres
      exact ok.trans (hAssoc_spec g ok.wf hargs).1

theorem updateInH_ok (g : Nat → Nat → Nat) {cb pf} (C : CallbackOK cb pf) :
    ∀ (path : List HVal) {h : Heap} {v : HVal}, WF h → Valid h v → (∀ i ∈ path, Valid h i) →
      StepOK h (updateInH g cb h v path)
  | [], h, v, wf, hv, _ => by simp only [updateInH]; exact share_ok wf hv
  | [i], h, v, wf, hv, hp => by simp only [updateInH]; exact hUpdate_ok g C wf hv (hp i (by simp))
  | i :: j :: rest, h, v, wf, hv, hp => by
    simp only [updateInH]
    cases hb : branchH h v i with
    | none => exact pure_ok wf _
    | some b =>
      obtain ⟨ex, wb, vb, _⟩ := branchH_spec wf hv hb
      have okb : StepOK h (b.1, .pure (.goerr "interface conversion")) := ⟨ex, wb, fun _ e => by cases e⟩
      dsimp only
      cases hk : sameKindH v b.2 with
      | false => exact okb
      | true =>
        have ok1 := updateInH_ok g C (j :: rest) wb vb
          (fun x hx => Valid.ext ex (hp x (List.mem_cons_of_mem _ hx)))
        have ok1' : StepOK h (updateInH g cb b.1 b.2 (j :: rest)) := okb.trans ok1
        simp only [Bool.not_true, Bool.false_eq_true, if_false]
        cases hres : resVal (updateInH g cb b.1 b.2 (j :: rest)).2 with
        | none => exact ok1'
        | some inner =>
          have hargs : ∀ a ∈ [v, i, inner], Valid (updateInH g cb b.1 b.2 (j :: rest)).1 a := by
            intro a ha; simp at ha; rcases ha with rfl | rfl | rfl
            · exact Valid.ext ok1'.ext hv
            · exact Valid.ext ok1'.ext (hp _ (by simp))
            · exact resVal_valid (r := (updateInH g cb b.1 b.2 (j :: rest)).2) ok1 hres
          exact ok1'.trans (hAssoc_spec g ok1.wf hargs).1

/-- `m[index]` on pure values -/
def pureCur (v i : Val) : Option Val :=
  match v, i with
  | .map m, .str k => some ((alookup k m).getD .nil)
  | .vec xs _, .int n => if 0 ≤ n ∧ n.toNat < xs.length then some (xs.getD n.toNat .nil) else none
  | _, _ => none

/-- `_update` on pure values (`Eval.update1` with the callee abstracted to `pf`; one error text) -/
def pureUpdate (pf : Val → Core.BRes) (v i : Val) : Core.BRes :=
  match pureCur v i with
  | none => .goerr "update: expected vector or hash-map / bad index"
  | some c =>
    match pf c with
    | .ok res => Core.assoc [v, i, res]
    | e => e

/-- a heap collection or …: not a `leaf` constant -/
def NotLeaf (v : HVal) : Prop := ∀ x, v ≠ .leaf x

theorem abs_seq_shape (h : Heap) (k : SKind) (s : Slice) (p : Option Pos) :
    ∃ xs, abs h (.seq k s p) = mkSeq k xs p := ⟨_, rfl⟩
theorem abs_map_shape (h : Heap) (ks : List String) (s : Slice) : ∃ m, abs h (.map ks s) = .map m := ⟨_, rfl⟩

theorem pureCur_map_ne (m : List (String × Val)) {i : Val} (hi : ∀ k, i ≠ .str k) : pureCur (.map m) i = none := by
  cases i <;> first | rfl | exact absurd rfl (hi _)
theorem pureCur_vec_ne (xs : List Val) (p) {i : Val} (hi : ∀ n, i ≠ .int n) : pureCur (.vec xs p) i = none := by
  cases i <;> first | rfl | exact absurd rfl (hi _)

theorem abs_ne_str {h : Heap} {i : HVal} (hi : ∀ k, i ≠ .leaf (.str k)) : ∀ k, abs h i ≠ .str k := by
  intro k
  cases i with
  | leaf x => rw [abs_leaf]; intro c; exact hi k (by rw [c])
  | seq kd s p => obtain ⟨xs, e⟩ := abs_seq_shape h kd s p; rw [e]; cases kd <;> simp [mkSeq]
  | map ks s => obtain ⟨m, e⟩ := abs_map_shape h ks s; rw [e]; simp

theorem abs_ne_int {h : Heap} {i : HVal} (hi : ∀ n, i ≠ .leaf (.int n)) : ∀ n, abs h i ≠ .int n := by
  intro n
  cases i with
  | leaf x => rw [abs_leaf]; intro c; exact hi n (by rw [c])
  | seq kd s p => obtain ⟨xs, e⟩ := abs_seq_shape h kd s p; rw [e]; cases kd <;> simp [mkSeq]
  | map ks s => obtain ⟨m, e⟩ := abs_map_shape h ks s; rw [e]; simp

theorem curH_map_ne (h : Heap) (ks s) {i : HVal} (hi : ∀ k, i ≠ .leaf (.str k)) : curH h (.map ks s) i = none := by
  cases i with
  | leaf x => cases x <;> first | rfl | exact absurd rfl (hi _)
  | _ => rfl
theorem curH_vec_ne (h : Heap) (s p) {i : HVal} (hi : ∀ n, i ≠ .leaf (.int n)) :
    curH h (.seq .vec s p) i = none := by
  cases i with
  | leaf x => cases x <;> first | rfl | exact absurd rfl (hi _)
  | _ => rfl
theorem curH_list (h : Heap) (s p) (i : HVal) : curH h (.seq .list s p) i = none := by
  cases i with
  | leaf x => cases x <;> rfl
  | _ => rfl

theorem curH_abs {h : Heap} (wf : WF h) {v i : HVal} (hv : Valid h v) (hn : NotLeaf v) :
    pureCur (abs h v) (abs h i) = (curH h v i).map (abs h) := by
  cases v with
  | leaf x => exact absurd rfl (hn x)
  | map ks s =>
    rw [abs_map_entries wf hv]
    by_cases hk : ∃ k, i = .leaf (.str k)
    · obtain ⟨k, rfl⟩ := hk
      rw [abs_leaf]
      show some ((alookup k (absKV h (entries h ks s))).getD .nil) = _
      rw [alookup_absKV]; simp only [curH, Option.map_some]
      cases alookup k (entries h ks s) <;> simp [nilH, abs_leaf]
    · have hk' : ∀ k, i ≠ .leaf (.str k) := fun k c => hk ⟨k, c⟩
      rw [pureCur_map_ne _ (abs_ne_str hk'), curH_map_ne h ks s hk']; rfl
  | seq kd s p =>
    have hs : s.ValidIn h := hv
    rw [abs_seq wf hs]
    cases kd with
    | list =>
      rw [curH_list]; rfl
    | vec =>
      by_cases hk : ∃ n, i = .leaf (.int n)
      · obtain ⟨n, rfl⟩ := hk
        rw [abs_leaf]
        have hl := window_length hs
        simp only [mkSeq, pureCur, curH, List.length_map, hl]
        split
        · next c =>
          have hi : n.toNat < (window h s).length := by rw [hl]; exact c.2
          simp only [Option.map_some]
          rw [getD_eq_getElem' _ _ hi, getD_eq_getElem' _ _ (by simpa using hi)]; simp
        · rfl
      · have hk' : ∀ n, i ≠ .leaf (.int n) := fun n c => hk ⟨n, c⟩
        rw [mkSeq, pureCur_vec_ne _ _ (abs_ne_int hk'), curH_vec_ne h s p hk']; rfl

/-- `update` computes `assoc v i (f (v i))` on the values its arguments denote -/
theorem hUpdate_refines (g : Nat → Nat → Nat) {cb pf} (C : CallbackOK cb pf) {h : Heap} (wf : WF h) {v i : HVal}
    (hv : Valid h v) (hi : Valid h i) (hn : NotLeaf v) :
    absRes (hUpdate g cb h v i).1 (hUpdate g cb h v i).2 = pureUpdate pf (abs h v) (abs h i) := by
  unfold hUpdate pureUpdate
  rw [curH_abs wf hv hn]
  cases hc : curH h v i with
  | none => rfl
  | some c =>
    have hcv := curH_valid wf hv hc
    have ok := C.ok h c wf hcv
    have rf := C.refines h c wf hcv
    simp only [Option.map_some]
    rw [← rf]
    cases hres : resVal (cb h c).2 with
    | none =>
      simp only
      have hne := not_ok_of_resVal_none (h := (cb h c).1) hres
      cases hq : absRes (cb h c).1 (cb h c).2 with
      | ok x => exact absurd hq (hne x)
      | thrown x => simp [absRes]
      | goerr m => simp [absRes]
    | some res =>
      have hargs : ∀ a ∈ [v, i, res], Valid (cb h c).1 a := by
        intro a ha; simp at ha; rcases ha with rfl | rfl | rfl
        · exact Valid.ext ok.ext hv
        · exact Valid.ext ok.ext hi
        · exact resVal_valid (r := (cb h c).2) ok hres
      simp only
      rw [(hAssoc_spec g ok.wf hargs).2, resVal_some hres]
      simp only [List.map_cons, List.map_nil, abs_frame wf ok.ext hv, abs_frame wf ok.ext hi]
      rfl

/-- the branch `Eval.updateIn` descends into -/
def pureBranchU (v i : Val) : Option Val :=
  match v, i with
  | .map m, .str k => some (nilDefault (.map []) ((alookup k m).getD .nil))
  | .vec xs _, .int n =>
    if 0 ≤ n ∧ n.toNat < xs.length then some (nilDefault (.vec [] none) (xs.getD n.toNat .nil)) else none
  | _, _ => none

/-- `_updateIn` on pure values (`Eval.updateIn` with the callee abstracted to `pf`) -/
def pureUpdateIn (pf : Val → Core.BRes) : Val → List Val → Core.BRes
  | v, [] => .ok v
  | v, [i] => pureUpdate pf v i
  | v, i :: rest =>
    match pureBranchU v i with
    | none => .goerr "update-in: type not supported / conversion"
    | some b =>
      let sameKind := match v, b with | .map _, .map _ => true | .vec _ _, .vec _ _ => true | _, _ => false
      if !sameKind then .goerr "interface conversion" else
      match pureUpdateIn pf b rest with
      | .ok inner => Core.assoc [v, i, inner]
      | r => r

/-! ## §5 one step, histories -/

theorem stepOp_spec (g : Nat → Nat → Nat) (name : String) {h : Heap} (wf : WF h) {args : List HVal}
    (hv : ∀ a ∈ args, Valid h a) :
    StepOK h (stepOp g name h args) ∧ Refines name h args (stepOp g name h args) := by
  unfold stepOp
  split
  · exact hConj_spec g wf hv
  · exact hConcat_spec g wf hv
  · exact hSubvec_spec wf hv
  · exact hListOf_list_spec wf hv
  · exact hListOf_vec_spec wf hv
  · exact hCons_spec g wf hv
  · exact hRest_spec wf hv
  · exact hVec_spec wf hv
  · exact hSeq_spec g wf hv
  · exact hFirst_spec wf hv
  · exact hNth_spec wf hv
  · exact hTake_spec g wf hv
  · exact hTakeLast_spec g wf hv
  · exact hDrop_spec g wf hv
  · exact hDropLast_spec g wf hv
  · exact hRange_spec g wf hv
  · exact hAssoc_spec g wf hv
  · exact hDissoc_spec wf hv
  · exact hHashMap_spec wf hv
  · exact hMerge_spec wf hv
  · exact hRenameKeys_spec wf hv
  · exact hGet_spec wf hv
  · exact hKeys_spec g wf hv
  · exact hVals_spec g wf hv
  · exact hAssocIn_spec g wf hv
  · exact pure_spec wf _ _

/-- every builtin, partially applied, is a legitimate callee: `(fn [x] (name x extra…))` -/
theorem builtin_callbackOK (g : Nat → Nat → Nat) (name : String) (extra : List Val) :
    CallbackOK (fun h v => stepOp g name h (v :: extra.map .leaf))
      (fun x => Core.body name (x :: extra)) := by
  have hval : ∀ {h : Heap} {v : HVal}, Valid h v → ∀ a ∈ v :: extra.map HVal.leaf, Valid h a := by
    intro h v hv a ha
    rcases List.mem_cons.1 ha with rfl | h1
    · exact hv
    · obtain ⟨_, _, rfl⟩ := List.mem_map.1 h1; trivial
  refine ⟨fun h v wf hv => (stepOp_spec g name wf (hval hv)).1, fun h v wf hv => ?_⟩
  have := (stepOp_spec g name wf (hval hv)).2
  simp only [Refines, List.map_cons, List.map_map] at this
  rw [this]; congr 2
  exact List.map_congr_left (fun x _ => abs_leaf h x) |>.trans (List.map_id _)

/-- a step never changes an existing value (frame), stated for any step contract -/
theorem frame_of_stepOK {h : Heap} (wf : WF h) {r : Heap × HRes} (ok : StepOK h r) :
    ∀ v, Live h v → abs r.1 v = abs h v := fun _ lv => abs_frame wf ok.ext lv

/-- the state of a run: a well-formed heap, bindings that are values of it, and what they denote -/
structure Inv (h : Heap) (env : List HVal) (penv : List Val) : Prop where
  wf : WF h
  valid : ∀ v ∈ env, Valid h v
  abs_eq : env.map (abs h) = penv

theorem Inv.arg_valid {h env penv} (I : Inv h env penv) (a : Arg) : Valid h (argH env a) := by
  cases a with
  | lit v => trivial
  | ref i =>
    simp only [argH, List.getD_eq_getElem?_getD]
    cases hi : env[i]? with
    | none => trivial
    | some v => exact I.valid v (List.mem_of_getElem? hi)

theorem Inv.arg_abs {h env penv} (I : Inv h env penv) (a : Arg) : abs h (argH env a) = argP penv a := by
  cases a with
  | lit v => exact abs_leaf h v
  | ref i =>
    simp only [argH, argP, ← I.abs_eq, List.getD_eq_getElem?_getD, List.getElem?_map]
    cases env[i]? <;> simp [nilH, abs_leaf]

theorem Inv.args {h env penv} (I : Inv h env penv) (args : List Arg) :
    (∀ a ∈ args.map (argH env), Valid h a) ∧ (args.map (argH env)).map (abs h) = args.map (argP penv) := by
  refine ⟨?_, ?_⟩
  · intro a ha; obtain ⟨b, _, rfl⟩ := List.mem_map.1 ha; exact I.arg_valid b
  · rw [List.map_map]; exact List.map_congr_left fun a _ => I.arg_abs a

/-- one step of a history: the heap is extended, and the new binding denotes what the pure step gives -/
theorem stepH_spec (g : Nat → Nat → Nat) {h env penv} (I : Inv h env penv) (st : Step) :
    Extends h (stepH (stepOp g) g h env st).1 ∧ WF (stepH (stepOp g) g h env st).1 ∧
    Valid (stepH (stepOp g) g h env st).1 (stepH (stepOp g) g h env st).2 ∧
    abs (stepH (stepOp g) g h env st).1 (stepH (stepOp g) g h env st).2 = stepP penv st := by
  cases st with
  | call name args =>
    obtain ⟨hv, ha⟩ := I.args args
    obtain ⟨ok, rf⟩ := stepOp_spec g name I.wf hv
    simp only [stepH, stepP]
    simp only [Refines, ha] at rf
    refine ⟨ok.ext, ok.wf, ?_, ?_⟩
    · cases hr : (stepOp g name h (args.map (argH env))).2 with
      | ok v => exact ok.valid v hr
      | pure r => cases r <;> trivial
    · rw [← rf]
      cases hr : (stepOp g name h (args.map (argH env))).2 with
      | ok v => rfl
      | pure r => cases r <;> simp [bindH, absRes, bindP, abs_leaf, nilH]
  | lit k args =>
    obtain ⟨hv, ha⟩ := I.args args
    have B := buildSeq_built g (Extends.refl h) I.wf hv
    simp only [stepH, stepP, litSeq]
    exact ⟨B.ext, B.wf, B.valid, by rw [B.abs_eq I.wf hv, ha]⟩

theorem Inv.step (g : Nat → Nat → Nat) {h env penv} (I : Inv h env penv) (st : Step) :
    Inv (stepH (stepOp g) g h env st).1 (env ++ [(stepH (stepOp g) g h env st).2]) (penv ++ [stepP penv st]) := by
  obtain ⟨ex, wf', v', a'⟩ := stepH_spec g I st
  refine ⟨wf', ?_, ?_⟩
  · intro v hv
    rcases List.mem_append.1 hv with h1 | h1
    · exact Valid.ext ex (I.valid v h1)
    · simp at h1; subst h1; exact v'
  · rw [List.map_append, map_abs_frame I.wf ex I.valid, I.abs_eq]; simp [a']

/-- running a history keeps the invariant, only extends the heap, and only adds bindings -/
theorem run_inv (g : Nat → Nat → Nat) : ∀ (H : History) {h env penv}, Inv h env penv →
    Inv (runH (stepOp g) g h env H).1 (runH (stepOp g) g h env H).2 (runP penv H) ∧
    Extends h (runH (stepOp g) g h env H).1 ∧ env <+: (runH (stepOp g) g h env H).2
  | [], _, _, _, I => ⟨I, Extends.refl _, List.prefix_refl _⟩
  | st :: rest, h, env, penv, I => by
    have I1 := I.step g st
    obtain ⟨I2, e2, p2⟩ := run_inv g rest I1
    simp only [runH, runP]
    exact ⟨I2, (stepH_spec g I st).1.trans e2, List.IsPrefix.trans (List.prefix_append _ _) p2⟩

theorem Inv.empty : Inv [] [] [] := ⟨fun _ h => absurd h (Nat.not_lt_zero _), by simp, rfl⟩

theorem runH_append (step) (g : Nat → Nat → Nat) : ∀ (H1 H2 : History) (h : Heap) (env : List HVal),
    runH step g h env (H1 ++ H2) = runH step g (runH step g h env H1).1 (runH step g h env H1).2 H2
  | [], _, _, _ => rfl
  | st :: rest, H2, h, env => by simp only [List.cons_append, runH]; exact runH_append step g rest H2 _ _

theorem runP_append : ∀ (H1 H2 : History) (penv : List Val), runP penv (H1 ++ H2) = runP (runP penv H1) H2
  | [], _, _ => rfl
  | st :: rest, H2, penv => by simp only [List.cons_append, runP]; exact runP_append rest H2 _

theorem runP_prefix : ∀ (H : History) (penv : List Val), penv <+: runP penv H
  | [], _ => List.prefix_refl _
  | _ :: rest, _ => List.IsPrefix.trans (List.prefix_append _ _) (runP_prefix rest _)

/-! ### the C02 theorems -/

theorem step_refines_pure (g : Nat → Nat → Nat) (name : String) {h : Heap} (wf : WF h) {args : List HVal}
    (hv : ∀ a ∈ args, Valid h a) :
    absRes (stepOp g name h args).1 (stepOp g name h args).2 = Core.body name (args.map (abs h)) :=
  (stepOp_spec g name wf hv).2

theorem step_writes_only_fresh (g : Nat → Nat → Nat) (name : String) {h : Heap} (wf : WF h) {args : List HVal}
    (hv : ∀ a ∈ args, Valid h a) :
    ∀ a, a < h.length → arrOf (stepOp g name h args).1 a = arrOf h a :=
  fun _ ha => (stepOp_spec g name wf hv).1.ext.arrOf ha

theorem step_frame (g : Nat → Nat → Nat) (name : String) {h : Heap} (wf : WF h) {args : List HVal}
    (hv : ∀ a ∈ args, Valid h a) : ∀ v, Live h v → abs (stepOp g name h args).1 v = abs h v :=
  fun _ lv => abs_frame wf (stepOp_spec g name wf hv).1.ext lv

theorem absRes_frame {h h' : Heap} (wf : WF h) (e : Extends h h') {r : HRes} (hv : ∀ v, r = .ok v → Valid h v) :
    absRes h' r = absRes h r := by
  cases r with
  | ok v => simp only [absRes]; rw [abs_frame wf e (hv v rfl)]
  | pure r => rfl

theorem history_immutable (g : Nat → Nat → Nat) (H1 H2 : History) {h env penv} (I : Inv h env penv) :
    (runH (stepOp g) g h env H1).2 <+: (runH (stepOp g) g h env (H1 ++ H2)).2 ∧
    (runH (stepOp g) g h env H1).2.map (abs (runH (stepOp g) g h env (H1 ++ H2)).1) = runP penv H1 ∧
    (runH (stepOp g) g h env (H1 ++ H2)).2.map (abs (runH (stepOp g) g h env (H1 ++ H2)).1) = runP penv (H1 ++ H2) := by
  obtain ⟨I1, _, _⟩ := run_inv g H1 I
  obtain ⟨I2, e2, p2⟩ := run_inv g H2 I1
  rw [runH_append]
  refine ⟨p2, ?_, ?_⟩
  · rw [map_abs_frame I1.wf e2 I1.valid, I1.abs_eq]
  · rw [runP_append]; exact I2.abs_eq

theorem siblings_independent (g : Nat → Nat → Nat) {h : Heap} (wf : WF h) (name1 name2 : String)
    {args1 args2 : List HVal} (hv1 : ∀ a ∈ args1, Valid h a) (hv2 : ∀ a ∈ args2, Valid h a) :
    absRes (stepOp g name2 (stepOp g name1 h args1).1 args2).1 (stepOp g name1 h args1).2
        = Core.body name1 (args1.map (abs h)) ∧
    absRes (stepOp g name2 (stepOp g name1 h args1).1 args2).1 (stepOp g name2 (stepOp g name1 h args1).1 args2).2
        = Core.body name2 (args2.map (abs h)) := by
  obtain ⟨ok1, rf1⟩ := stepOp_spec g name1 wf hv1
  have hv2' : ∀ a ∈ args2, Valid (stepOp g name1 h args1).1 a := fun a ha => Valid.ext ok1.ext (hv2 a ha)
  obtain ⟨ok2, rf2⟩ := stepOp_spec g name2 ok1.wf hv2'
  refine ⟨?_, ?_⟩
  · rw [absRes_frame ok1.wf ok2.ext ok1.valid]; exact rf1
  · rw [rf2, map_abs_frame wf ok1.ext hv2]

theorem reread_stable (g : Nat → Nat → Nat) (H : History) {h env penv} (I : Inv h env penv) (i : Nat)
    (hi : i < env.length) :
    (runH (stepOp g) g h env H).2[i]? = env[i]? ∧
    abs (runH (stepOp g) g h env H).1 (env.getD i nilH) = abs h (env.getD i nilH) := by
  obtain ⟨_, e, p⟩ := run_inv g H I
  obtain ⟨t, ht⟩ := p
  refine ⟨by rw [← ht, List.getElem?_append_left hi], abs_frame I.wf e (I.arg_valid (.ref i))⟩

/-! ## §6 the unrepaired code: concrete counterexamples -/

instance (h : Heap) (s : Slice) : Decidable (s.ValidIn h) := by unfold Slice.ValidIn; infer_instance
instance instDecValid (h : Heap) : (v : HVal) → Decidable (Valid h v)
  | .leaf _ => isTrue trivial
  | .seq _ s _ => inferInstanceAs (Decidable (s.ValidIn h))
  | .map ks s => inferInstanceAs (Decidable (s.ValidIn h ∧ ks.length = s.len))
instance (h : Heap) : Decidable (WF h) := by unfold WF; infer_instance

def iA (n : Int) : Arg := .lit (.int n)
def vecI (xs : List Int) : Val := .vec (xs.map .int) none
def listI (xs : List Int) : Val := .list (xs.map .int) none
/-- every binding, read in the final heap -/
def readAll (s : Heap × List HVal) : List Val := s.2.map (abs s.1)
/-- run a history from the empty heap with the UNREPAIRED builtins, Go's growth policy -/
def runBaseline (H : History) : Heap × List HVal := runH (stepOpBaseline goGrow) goGrow [] [] H
def runRepaired (H : History) : Heap × List HVal := runH (stepOp goGrow) goGrow [] [] H

/-- `(def v [1 2 3]) (def a (conj v 4)) (def b (conj v 5))` -/
def histConj : History :=
  [.lit .vec [iA 1, iA 2, iA 3], .call "conj" [.ref 0, iA 4], .call "conj" [.ref 0, iA 5]]

/-- `(def v [1 2 3]) (def x [4]) (def y [5]) (def a (concat v x)) (def b (concat v y))` -/
def histConcat : History :=
  [.lit .vec [iA 1, iA 2, iA 3], .lit .vec [iA 4], .lit .vec [iA 5],
   .call "concat" [.ref 0, .ref 1], .call "concat" [.ref 0, .ref 2]]

/-- `(def base [1 2 3 4 5]) (def s (subvec base 0 2)) (def c (conj s 99))` -/
def histSubvec : History :=
  [.lit .vec [iA 1, iA 2, iA 3, iA 4, iA 5], .call "subvec" [.ref 0, iA 0, iA 2], .call "conj" [.ref 1, iA 99]]

/-- quasiquote with unquote-splicing: `(def a [1 2 3]) (def q1 `(~@a 4)) (def q2 `(~@a 5))`, expanded as
    `quasiquote` does: `(concat a (cons 4 ()))` — bindings: 0 `a`, 1 `()`, 2 `(cons 4 ())`, 3 `q1`,
    4 `(cons 5 ())`, 5 `q2` -/
def histQQ : History :=
  [.lit .vec [iA 1, iA 2, iA 3], .lit .list [], .call "cons" [iA 4, .ref 1], .call "concat" [.ref 0, .ref 2],
   .call "cons" [iA 5, .ref 1], .call "concat" [.ref 0, .ref 4]]

def sA (s : String) : Arg := .lit (.str s)

/-- maps, `assoc` on a vector, `assoc-in`, sharing of stored values -/
def histMap : History :=
  [.lit .vec [iA 1, iA 2], .call "hash-map" [sA "a", .ref 0, sA "b", iA 7], .call "assoc" [.ref 1, sA "c", .ref 0],
   .call "assoc" [.ref 0, iA 0, .ref 1], .lit .vec [sA "a", iA 1], .call "assoc-in" [.ref 1, .ref 4, iA 99],
   .call "get" [.ref 5, sA "a"], .call "dissoc" [.ref 2, sA "a"], .call "merge" [.ref 1, .ref 7]]

/-- the frame property of a step function fails on a concrete heap -/
def FrameFails (step : Heap → List HVal → Heap × HRes) : Prop :=
  ∃ (h : Heap) (args : List HVal) (v : HVal),
    WF h ∧ (∀ a ∈ args, Valid h a) ∧ Live h v ∧ abs (step h args).1 v ≠ abs h v

theorem baseline_conj_witness :
    readAll (runBaseline (histConj.take 2)) = [vecI [1, 2, 3], vecI [1, 2, 3, 4]] ∧
    readAll (runBaseline histConj) = [vecI [1, 2, 3], vecI [1, 2, 3, 5], vecI [1, 2, 3, 5]] ∧
    runP [] histConj = [vecI [1, 2, 3], vecI [1, 2, 3, 4], vecI [1, 2, 3, 5]] ∧
    readAll (runRepaired histConj) = runP [] histConj := ⟨rfl, rfl, rfl, rfl⟩

theorem baseline_conj_frame_fails : FrameFails (stepOpBaseline goGrow "conj") := by
  refine ⟨(runBaseline (histConj.take 2)).1, [(runBaseline (histConj.take 2)).2.getD 0 nilH, intH 5],
    (runBaseline (histConj.take 2)).2.getD 1 nilH, by decide, by decide, by decide, ?_⟩
  have e1 : abs (stepOpBaseline goGrow "conj" (runBaseline (histConj.take 2)).1
      [(runBaseline (histConj.take 2)).2.getD 0 nilH, intH 5]).1 ((runBaseline (histConj.take 2)).2.getD 1 nilH)
      = vecI [1, 2, 3, 5] := rfl
  have e2 : abs (runBaseline (histConj.take 2)).1 ((runBaseline (histConj.take 2)).2.getD 1 nilH)
      = vecI [1, 2, 3, 4] := rfl
  rw [e1, e2]; simp [vecI]

theorem baseline_concat_witness :
    readAll (runBaseline (histConcat.take 4)) = [vecI [1, 2, 3], vecI [4], vecI [5], listI [1, 2, 3, 4]] ∧
    readAll (runBaseline histConcat) =
      [vecI [1, 2, 3], vecI [4], vecI [5], listI [1, 2, 3, 5], listI [1, 2, 3, 5]] ∧
    runP [] histConcat = [vecI [1, 2, 3], vecI [4], vecI [5], listI [1, 2, 3, 4], listI [1, 2, 3, 5]] ∧
    readAll (runRepaired histConcat) = runP [] histConcat := ⟨rfl, rfl, rfl, rfl⟩

theorem baseline_concat_frame_fails : FrameFails (stepOpBaseline goGrow "concat") := by
  refine ⟨(runBaseline (histConcat.take 4)).1,
    [(runBaseline (histConcat.take 4)).2.getD 0 nilH, (runBaseline (histConcat.take 4)).2.getD 2 nilH],
    (runBaseline (histConcat.take 4)).2.getD 3 nilH, by decide, by decide, by decide, ?_⟩
  have e1 : abs (stepOpBaseline goGrow "concat" (runBaseline (histConcat.take 4)).1
      [(runBaseline (histConcat.take 4)).2.getD 0 nilH, (runBaseline (histConcat.take 4)).2.getD 2 nilH]).1
      ((runBaseline (histConcat.take 4)).2.getD 3 nilH) = listI [1, 2, 3, 5] := rfl
  have e2 : abs (runBaseline (histConcat.take 4)).1 ((runBaseline (histConcat.take 4)).2.getD 3 nilH)
      = listI [1, 2, 3, 4] := rfl
  rw [e1, e2]; simp [listI]

/-- the unrepaired `subvec` hands out its parent's capacity: `(conj (subvec base 0 2) 99)` then rewrites
    `base` — and with the repaired `subvec` (capacity cut by the 3-index slice) even the unrepaired
    `conj` has to allocate -/
theorem baseline_subvec_witness :
    readAll (runBaseline (histSubvec.take 2)) = [vecI [1, 2, 3, 4, 5], vecI [1, 2]] ∧
    readAll (runBaseline histSubvec) = [vecI [1, 2, 99, 4, 5], vecI [1, 2], vecI [1, 2, 99]] ∧
    runP [] histSubvec = [vecI [1, 2, 3, 4, 5], vecI [1, 2], vecI [1, 2, 99]] ∧
    readAll (runRepaired histSubvec) = runP [] histSubvec ∧
    (runBaseline (histSubvec.take 2)).2.getD 1 nilH = .seq .vec ⟨4, 0, 2, 8⟩ none ∧
    (runRepaired (histSubvec.take 2)).2.getD 1 nilH = .seq .vec ⟨4, 0, 2, 2⟩ none := ⟨rfl, rfl, rfl, rfl, rfl, rfl⟩

theorem baseline_subvec_frame_fails :
    FrameFails (fun h args => stepOpBaseline goGrow "conj" (stepOpBaseline goGrow "subvec" h args).1
      [bindH (stepOpBaseline goGrow "subvec" h args).2, intH 99]) := by
  refine ⟨(runBaseline (histSubvec.take 1)).1, [(runBaseline (histSubvec.take 1)).2.getD 0 nilH, intH 0, intH 2],
    (runBaseline (histSubvec.take 1)).2.getD 0 nilH, by decide, by decide, by decide, ?_⟩
  have e1 : abs (stepOpBaseline goGrow "conj" (stepOpBaseline goGrow "subvec" (runBaseline (histSubvec.take 1)).1
        [(runBaseline (histSubvec.take 1)).2.getD 0 nilH, intH 0, intH 2]).1
        [bindH (stepOpBaseline goGrow "subvec" (runBaseline (histSubvec.take 1)).1
          [(runBaseline (histSubvec.take 1)).2.getD 0 nilH, intH 0, intH 2]).2, intH 99]).1
      ((runBaseline (histSubvec.take 1)).2.getD 0 nilH) = vecI [1, 2, 99, 4, 5] := rfl
  have e2 : abs (runBaseline (histSubvec.take 1)).1 ((runBaseline (histSubvec.take 1)).2.getD 0 nilH)
      = vecI [1, 2, 3, 4, 5] := rfl
  rw [e1, e2]; simp [vecI]

end LispModel.Heap

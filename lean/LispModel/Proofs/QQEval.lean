/-
  General facts about `eval` that the quasiquote theorems need (`EvalFacts` of Proofs/QQ.lean), for
  all 13 functions of the `mutual` block of Eval.lean at once.  Under the standard side conditions
  (debugger off, context never cancelled), at every fuel:

  * extra polls before = the same extra polls after, whatever the outcome (the poll counter is not
    observed);
  * an outcome other than out-of-fuel is stable under more fuel and leaves a state that satisfies the
    standard side conditions again.

  Method: every function body is a composition of `bindR` (propagate error / out-of-fuel) and a few
  other combinators (`mapErrR`, `catchR`, `finR`, pure steps); `Good` is closed under them; induction
  on the fuel (`allGood`).  Then the closed forms of the quasiquote theorems.
  Core Lean only.
-/
import LispModel.Proofs.QQ
namespace LispModel.Proofs.QQ
open LispModel LispModel.Core LispModel.QQ

abbrev Comp (α : Type) := Nat → State → Res α × State

/-- under the standard side conditions, at fuel `n`: extra polls before = the same extra polls after
    (whatever the outcome, out-of-fuel included); an outcome other than out-of-fuel leaves the side
    conditions intact and is stable under more fuel -/
def Good {α : Type} (c : Comp α) (n : Nat) : Prop :=
  ∀ st, Std st →
    (∀ j, c n (addTicks j st) = ((c n st).1, addTicks j (c n st).2)) ∧
    (∀ r st', c n st = (r, st') → r ≠ .oof → Std st' ∧ ∀ m, n ≤ m → c m st = (r, st'))

def bindR {α β : Type} (p : Res α × State) (K : α → State → Res β × State) : Res β × State :=
  match p with
  | (.ok v, s) => K v s
  | (.err e, s) => (.err e, s)
  | (.oof, s) => (.oof, s)

/-- a step that neither consumes fuel nor looks at the poll counter -/
def PureOK {α : Type} (g : State → Res α × State) : Prop :=
  ∀ st, Std st → Std (g st).2 ∧ ∀ j, g (addTicks j st) = ((g st).1, addTicks j (g st).2)

theorem Good.congr {α : Type} {c c' : Comp α} {n : Nat} (heq : ∀ F st, Std st → c F st = c' F st)
    (h : Good c' n) : Good c n := by
  intro st hs
  obtain ⟨a, b⟩ := h st hs
  refine ⟨fun j => by rw [heq _ _ (Std.addTicks hs j), heq _ _ hs]; exact a j, fun r st' hh hr => ?_⟩
  rw [heq _ _ hs] at hh
  obtain ⟨x, y⟩ := b r st' hh hr
  exact ⟨x, fun m hm => by rw [heq _ _ hs]; exact y m hm⟩

theorem Good.succ {α : Type} {c c' : Comp α} {n : Nat} (heq : ∀ F st, Std st → c (F+1) st = c' F st)
    (h : Good c' n) : Good c (n+1) := by
  intro st hs
  obtain ⟨a, b⟩ := h st hs
  refine ⟨fun j => by rw [heq _ _ (Std.addTicks hs j), heq _ _ hs]; exact a j, fun r st' hh hr => ?_⟩
  rw [heq _ _ hs] at hh
  obtain ⟨x, y⟩ := b r st' hh hr
  refine ⟨x, fun m hm => ?_⟩
  obtain ⟨m', rfl⟩ := exists_add_of_le (Nat.le_trans (Nat.le_add_left 1 n) hm)
  rw [heq _ _ hs]
  exact y m' (by omega)

theorem Good.zero {α : Type} {c : Comp α} (h0 : ∀ st, c 0 st = (.oof, st)) : Good c 0 := by
  intro st _
  refine ⟨fun j => by rw [h0, h0], fun r st' hh hr => ?_⟩
  rw [h0] at hh; cases hh; exact absurd rfl hr

theorem Good.pure {α : Type} {g : State → Res α × State} {n : Nat} (hg : PureOK g) :
    Good (fun _ st => g st) n := by
  intro st hs
  obtain ⟨a, b⟩ := hg st hs
  refine ⟨b, fun r st' hh _ => ?_⟩
  simp only at hh
  rw [hh] at a
  exact ⟨a, fun m _ => hh⟩

theorem Good.bind {α β : Type} {c : Comp α} {K : α → Comp β} {n : Nat}
    (hc : Good c n) (hK : ∀ v, Good (K v) n) :
    Good (fun F st => bindR (c F st) (fun v s => K v F s)) n := by
  intro st hs
  obtain ⟨shc, mc⟩ := hc st hs
  rcases hc1 : c n st with ⟨rc, sc⟩
  refine ⟨fun j => ?_, fun r st' h hr => ?_⟩
  · simp only
    rw [shc j, hc1]
    cases rc with
    | ok v =>
      simp only [bindR]
      exact ((hK v) sc (mc _ _ hc1 (by intro h; cases h)).1).1 j
    | err e => simp only [bindR]
    | oof => simp only [bindR]
  · simp only at h
    rw [hc1] at h
    cases rc with
    | oof => simp only [bindR] at h; cases h; exact absurd rfl hr
    | err e =>
      simp only [bindR] at h; cases h
      obtain ⟨hs1, run1⟩ := mc _ _ hc1 (by intro h; cases h)
      exact ⟨hs1, fun m hm => by simp only [run1 m hm, bindR]⟩
    | ok v =>
      simp only [bindR] at h
      obtain ⟨hs1, run1⟩ := mc _ _ hc1 (by intro h; cases h)
      obtain ⟨hs2, run2⟩ := ((hK v) sc hs1).2 _ _ h hr
      exact ⟨hs2, fun m hm => by simp only [run1 m hm, bindR]; exact run2 m hm⟩

/-! ### pure steps -/

theorem tick_addTicks (j : Nat) (st : State) : tick (addTicks j st) = addTicks j (tick st) := by
  simp only [tick, addTicks, Nat.add_right_comm]

theorem set_addTicks (j : Nat) (st : State) (env : Nat) (k : String) (v : Val) :
    (addTicks j st).set env k v = addTicks j (st.set env k v) := by
  unfold State.set
  simp only [addTicks, State.scope?]
  cases st.scopes[env]? <;> rfl

theorem Std_set {st : State} (hs : Std st) (env : Nat) (k : String) (v : Val) : Std (st.set env k v) := by
  unfold State.set
  cases st.scope? env <;> exact hs

theorem pure_ret {α : Type} (r : Res α) : PureOK (fun st => (r, st)) :=
  fun _ hs => ⟨hs, fun _ => rfl⟩

theorem pure_set {α : Type} (r : Res α) (env : Nat) (k : String) (v : Val) :
    PureOK (fun st => (r, st.set env k v)) :=
  fun _ hs => ⟨Std_set hs env k v, fun j => by simp only [set_addTicks]⟩

theorem pure_newScope (o : Nat) (data : List (String × Val)) :
    PureOK (fun st => (Res.ok (st.newScope o data).2, (st.newScope o data).1)) :=
  fun _ hs => ⟨hs, fun _ => rfl⟩

theorem pure_get (env : Nat) (s : String) : PureOK (fun st => (Res.ok (st.get env s), st)) :=
  fun _ hs => ⟨hs, fun j => by simp only [addTicks_get]⟩

/-- the induction hypothesis: all 13 functions at fuel `n` -/
structure AllGood (n : Nat) : Prop where
  eval : ∀ env ast d, Good (fun F st => LispModel.eval F st env ast d) n
  evalLoop : ∀ env ast d, Good (fun F st => LispModel.evalLoop F st env ast d) n
  evalAst : ∀ env ast d, Good (fun F st => LispModel.evalAst F st env ast d) n
  evalList : ∀ env xs d, Good (fun F st => LispModel.evalList F st env xs d) n
  evalMap : ∀ env kvs d, Good (fun F st => LispModel.evalMap F st env kvs d) n
  doForms : ∀ env lst from_ keep d, Good (fun F st => LispModel.doForms F st env lst from_ keep d) n
  letBinds : ∀ letEnv bs a1 d, Good (fun F st => LispModel.letBinds F st letEnv bs a1 d) n
  macroexpand : ∀ env ast d, Good (fun F st => LispModel.macroexpand F st env ast d) n
  apply : ∀ f args d, Good (fun F st => LispModel.apply F st f args d) n
  mapLoop : ∀ f xs d, Good (fun F st => LispModel.mapLoop F st f xs d) n
  updateIn : ∀ v path f d, Good (fun F st => LispModel.updateIn F st v path f d) n
  update1 : ∀ v i f d, Good (fun F st => LispModel.update1 F st v i f d) n
  callBuiltin : ∀ name args d, Good (fun F st => LispModel.callBuiltin F st name args d) n

section steps
variable {n : Nat} (ih : AllGood n)
include ih

theorem evalList_succ (env : Nat) (xs : List Val) (d : Nat) :
    Good (fun F st => LispModel.evalList F st env xs d) (n+1) := by
  cases xs with
  | nil =>
    exact Good.succ (c' := fun _ st => (.ok [], st)) (fun F st _ => by rw [evalList.eq_2])
      (Good.pure (pure_ret _))
  | cons x xs =>
    apply Good.succ (c' := fun F st => bindR (LispModel.eval F st env x (d+1)) (fun v s =>
      bindR (LispModel.evalList F s env xs d) (fun vs s' => (.ok (v :: vs), s'))))
    · intro F st _
      rw [evalList.eq_3]
      rcases LispModel.eval F st env x (d+1) with ⟨r, s⟩
      cases r <;> try rfl
      simp only [bindR]
      rcases LispModel.evalList F s env xs d with ⟨r2, s2⟩
      cases r2 <;> rfl
    · exact Good.bind (ih.eval env x (d+1)) (fun v =>
        Good.bind (ih.evalList env xs d) (fun vs => Good.pure (pure_ret _)))

theorem evalMap_succ (env : Nat) (kvs : List (String × Val)) (d : Nat) :
    Good (fun F st => LispModel.evalMap F st env kvs d) (n+1) := by
  cases kvs with
  | nil =>
    exact Good.succ (c' := fun _ st => (.ok [], st)) (fun F st _ => by rw [evalMap.eq_2])
      (Good.pure (pure_ret _))
  | cons kv r =>
    obtain ⟨k, x⟩ := kv
    apply Good.succ (c' := fun F st => bindR (LispModel.eval F st env x (d+1)) (fun v s =>
      bindR (LispModel.evalMap F s env r d) (fun m s' => (.ok (ainsert k v m), s'))))
    · intro F st _
      rw [evalMap.eq_3]
      rcases LispModel.eval F st env x (d+1) with ⟨r1, s⟩
      cases r1 <;> try rfl
      simp only [bindR]
      rcases LispModel.evalMap F s env r d with ⟨r2, s2⟩
      cases r2 <;> rfl
    · exact Good.bind (ih.eval env x (d+1)) (fun v =>
        Good.bind (ih.evalMap env r d) (fun m => Good.pure (pure_ret _)))

theorem eval_succ (env : Nat) (ast : Val) (d : Nat) :
    Good (fun F st => LispModel.eval F st env ast d) (n+1) :=
  Good.succ (c' := fun F st => LispModel.evalLoop F st env ast d) (fun _ _ hs => eval_std hs.1)
    (ih.evalLoop env ast d)

theorem evalAst_succ (env : Nat) (ast : Val) (d : Nat) :
    Good (fun F st => LispModel.evalAst F st env ast d) (n+1) := by
  cases ast with
  | sym s p =>
    apply Good.succ (c' := fun F st => bindR (Res.ok (st.get env s), st) (fun o s' =>
      match o with
      | some v => (.ok v, s')
      | none => (.err (.lisp (.goerr ("symbol '" ++ s ++ "' not found")) (getPosition (.sym s p))), s')))
    · intro F st _; rw [evalAst.eq_2]; simp only [bindR]; cases st.get env s <;> rfl
    · refine Good.bind (c := fun _ st => (Res.ok (st.get env s), st)) (Good.pure (pure_get env s)) (fun o => ?_)
      cases o <;> exact Good.pure (pure_ret _)
  | list xs p =>
    apply Good.succ (c' := fun F st => bindR (LispModel.evalList F st env xs d) (fun vs s' =>
      (.ok (.list vs none), s')))
    · intro F st _; rw [evalAst.eq_3]
      rcases LispModel.evalList F st env xs d with ⟨r, s⟩
      cases r <;> rfl
    · exact Good.bind (ih.evalList env xs d) (fun vs => Good.pure (pure_ret _))
  | vec xs p =>
    apply Good.succ (c' := fun F st => bindR (LispModel.evalList F st env xs d) (fun vs s' =>
      (.ok (.vec vs none), s')))
    · intro F st _; rw [evalAst.eq_4]
      rcases LispModel.evalList F st env xs d with ⟨r, s⟩
      cases r <;> rfl
    · exact Good.bind (ih.evalList env xs d) (fun vs => Good.pure (pure_ret _))
  | map kvs =>
    apply Good.succ (c' := fun F st => bindR (LispModel.evalMap F st env kvs d) (fun m s' =>
      (.ok (.map m), s')))
    · intro F st _; rw [evalAst.eq_5]
      rcases LispModel.evalMap F st env kvs d with ⟨r, s⟩
      cases r <;> rfl
    · exact Good.bind (ih.evalMap env kvs d) (fun vs => Good.pure (pure_ret _))
  | _ =>
    exact Good.succ (c' := fun _ st => (.ok _, st)) (fun F st _ => by unfold LispModel.evalAst; rfl)
      (Good.pure (pure_ret _))

end steps

/-- a state transformer that commutes with polls and keeps the side conditions -/
def PreOK (f : State → State) : Prop :=
  ∀ st, Std st → Std (f st) ∧ ∀ j, f (addTicks j st) = addTicks j (f st)

theorem Good.pre {α : Type} {c : Comp α} {f : State → State} {n : Nat} (hf : PreOK f) (hc : Good c n) :
    Good (fun F st => c F (f st)) n := by
  intro st hs
  obtain ⟨a, b⟩ := hf st hs
  obtain ⟨sh, mo⟩ := hc (f st) a
  exact ⟨fun j => by simp only [b j]; exact sh j, fun r st' h hr => mo r st' h hr⟩

theorem pre_set (env : Nat) (k : String) (v : Val) : PreOK (fun st => st.set env k v) :=
  fun _ hs => ⟨Std_set hs env k v, fun j => set_addTicks j _ env k v⟩

theorem pre_tick : PreOK tick := fun _ hs => ⟨hs, fun j => tick_addTicks j _⟩

section steps
variable {n : Nat} (ih : AllGood n)
include ih

theorem letBinds_succ (letEnv : Nat) (bs : List Val) (a1 : Val) (d : Nat) :
    Good (fun F st => LispModel.letBinds F st letEnv bs a1 d) (n+1) := by
  rcases bs with _ | ⟨b, _ | ⟨x, rest⟩⟩
  · exact Good.succ (c' := fun _ st => (.ok Val.nil, st)) (fun F st _ => by rw [letBinds.eq_2])
      (Good.pure (pure_ret _))
  · exact Good.succ (c' := fun _ st => (.ok Val.nil, st)) (fun F st _ => by rw [letBinds.eq_3])
      (Good.pure (pure_ret _))
  ·
    by_cases hb : ∃ s p, b = .sym s p
    · obtain ⟨name, p, rfl⟩ := hb
      apply Good.succ (c' := fun F st => bindR (LispModel.eval F st letEnv x (d+1)) (fun v s =>
        LispModel.letBinds F (s.set letEnv name v) letEnv rest a1 d))
      · intro F st _
        rw [letBinds.eq_4]
        rcases LispModel.eval F st letEnv x (d+1) with ⟨r, s⟩
        cases r <;> rfl
      · exact Good.bind (ih.eval letEnv x (d+1)) (fun v =>
          Good.pre (pre_set letEnv name v) (ih.letBinds letEnv rest a1 d))
    · exact Good.succ (c' := fun _ st => (.err _, st))
        (fun F st _ => by rw [letBinds.eq_5]; intro s p h; exact hb ⟨s, p, h⟩)
        (Good.pure (pure_ret _))

theorem doForms_succ (env : Nat) (lst : List Val) (from_ : Nat) (keep : Bool) (d : Nat) :
    Good (fun F st => LispModel.doForms F st env lst from_ keep d) (n+1) := by
  apply Good.succ (c' := fun F st =>
    if lst.length ≤ from_ then (.ok Val.nil, st) else
      bindR (LispModel.evalList F st env
          (if keep then (lst.drop from_).dropLast else lst.drop from_) d) (fun vs s =>
        if keep then (.ok (lst.getLast?.getD Val.nil), s) else (.ok (vs.getLast?.getD Val.nil), s)))
  · intro F st hs
    rw [doForms.eq_2]
    simp only [hs.1, Bool.false_eq_true, ↓reduceIte]
    split
    · rfl
    · rcases LispModel.evalList F st env
          (if keep = true then (lst.drop from_).dropLast else lst.drop from_) d with ⟨r, s⟩
      cases r <;> simp only [bindR]
  · by_cases hl : lst.length ≤ from_
    · simp only [hl, ↓reduceIte]; exact Good.pure (pure_ret _)
    · simp only [hl, ↓reduceIte]
      refine Good.bind (ih.evalList env _ d) (fun vs => ?_)
      cases keep <;> exact Good.pure (pure_ret _)

end steps

/-- the macro a looked-up value is, if any: parameters, body, definition scope -/
def macroFn? : Option Val → Option (Val × Val × Nat)
  | some (.fn ps b fe true _) => some (ps, b, fe)
  | _ => none

theorem pure_getf {β : Type} (f : Option Val → β) (env : Nat) (s : String) :
    PureOK (fun st => (Res.ok (f (st.get env s)), st)) :=
  fun _ hs => ⟨hs, fun j => by simp only [addTicks_get]⟩

theorem macroexpand_bind (F : Nat) (st : State) (env d : Nat) (s : String) (p q : Option Pos)
    (args : List Val) :
    LispModel.macroexpand (F+1) st env (.list (.sym s p :: args) q) d =
      bindR (Res.ok (macroFn? (st.get env s)), st) (fun o s1 =>
        match o with
        | some (ps, b, fe) =>
          (match bindParams ps args with
           | .error e => (.err e, s1)
           | .ok data =>
             bindR (Res.ok (s1.newScope fe data).2, (s1.newScope fe data).1) (fun callEnv s2 =>
               bindR (LispModel.eval F s2 callEnv b (d+1)) (fun ast' s3 =>
                 LispModel.macroexpand F s3 env ast' d)))
        | none => (.ok (.list (.sym s p :: args) q), s1)) := by
  by_cases hm : ∃ ps b fe fp, st.get env s = some (.fn ps b fe true fp)
  · obtain ⟨ps, b, fe, fp, hg⟩ := hm
    rw [macroexpand_macro hg, hg]
    simp only [bindR, macroFn?]
    cases bindParams ps args with
    | error e => rfl
    | ok data =>
      simp only
      rcases LispModel.eval F (st.newScope fe data).1 (st.newScope fe data).2 b (d+1) with ⟨r, s2⟩
      cases r <;> rfl
  · have hn : macroFn? (st.get env s) = none := by
      unfold macroFn?
      split
      · rename_i ps b fe fp hg; exact absurd ⟨ps, b, fe, fp, hg⟩ hm
      · rfl
    rw [hn]
    simp only [bindR]
    apply macroexpand_not_macro
    rintro ⟨s', p', args', q', ps, b, e, fp, heq, hg⟩
    cases heq
    exact hm ⟨ps, b, e, fp, hg⟩

section steps
variable {n : Nat} (ih : AllGood n)
include ih

theorem macroexpand_succ (env : Nat) (ast : Val) (d : Nat) :
    Good (fun F st => LispModel.macroexpand F st env ast d) (n+1) := by
  by_cases hsym : ∃ s p args q, ast = .list (.sym s p :: args) q
  · obtain ⟨s, p, args, q, rfl⟩ := hsym
    refine Good.succ (fun F st _ => macroexpand_bind F st env d s p q args) ?_
    refine Good.bind (c := fun _ st => (Res.ok (macroFn? (st.get env s)), st))
      (Good.pure (pure_getf macroFn? env s)) (fun o => ?_)
    rcases o with _ | ⟨ps, b, fe⟩
    · exact Good.pure (pure_ret _)
    · simp only
      cases bindParams ps args with
      | error e => exact Good.pure (pure_ret _)
      | ok data =>
        simp only
        exact Good.bind (c := fun _ st => (Res.ok (st.newScope fe data).2, (st.newScope fe data).1))
          (Good.pure (pure_newScope fe data)) (fun callEnv =>
            Good.bind (ih.eval callEnv b (d+1)) (fun ast' => ih.macroexpand env ast' d))
  · exact Good.succ (c' := fun _ st => (.ok ast, st))
      (fun F st _ => by rw [macroexpand.eq_3]; intro s p args q h; exact hsym ⟨s, p, args, q, h⟩)
      (Good.pure (pure_ret _))

end steps

section steps
variable {n : Nat} (ih : AllGood n)
include ih

theorem apply_succ (f : Val) (args : List Val) (d : Nat) :
    Good (fun F st => LispModel.apply F st f args d) (n+1) := by
  cases f with
  | fn ps b fe m pos =>
    apply Good.succ (c' := fun F st =>
      match bindParams ps args with
      | .error e => (.err e, st)
      | .ok data =>
        bindR (Res.ok (st.newScope fe data).2, (st.newScope fe data).1) (fun callEnv s2 =>
          LispModel.eval F s2 callEnv b (d+1)))
    · intro F st _
      rw [apply.eq_2]
      cases bindParams ps args <;> rfl
    · cases bindParams ps args with
      | error e => exact Good.pure (pure_ret _)
      | ok data =>
        exact Good.bind (c := fun _ st => (Res.ok (st.newScope fe data).2, (st.newScope fe data).1))
          (Good.pure (pure_newScope fe data)) (fun callEnv => ih.eval callEnv b (d+1))
  | builtin name =>
    exact Good.succ (c' := fun F st => LispModel.callBuiltin F st name args d)
      (fun F st _ => by rw [apply.eq_3]) (ih.callBuiltin name args d)
  | _ =>
    exact Good.succ (c' := fun _ st => (.err (.plain "invalid function to Apply"), st))
      (fun F st _ => by rw [apply.eq_4] <;> (intros; contradiction))
      (Good.pure (pure_ret _))

theorem mapLoop_succ (f : Val) (xs : List Val) (d : Nat) :
    Good (fun F st => LispModel.mapLoop F st f xs d) (n+1) := by
  cases xs with
  | nil =>
    exact Good.succ (c' := fun _ st => (.ok [], st)) (fun F st _ => by rw [mapLoop.eq_2])
      (Good.pure (pure_ret _))
  | cons x xs =>
    apply Good.succ (c' := fun F st => bindR (LispModel.apply F st f [x] d) (fun v s =>
      bindR (LispModel.mapLoop F s f xs d) (fun vs s' => (.ok (v :: vs), s'))))
    · intro F st _
      rw [mapLoop.eq_3]
      rcases LispModel.apply F st f [x] d with ⟨r, s⟩
      cases r <;> try rfl
      simp only [bindR]
      rcases LispModel.mapLoop F s f xs d with ⟨r2, s2⟩
      cases r2 <;> rfl
    · exact Good.bind (ih.apply f [x] d) (fun v =>
        Good.bind (ih.mapLoop f xs d) (fun vs => Good.pure (pure_ret _)))

end steps

/-- the element `_update` works on -/
def cur1 (v i : Val) : Option Val :=
  match v, i with
  | .map m, .str k => some ((alookup k m).getD .nil)
  | .vec xs _, .int n => if 0 ≤ n ∧ n.toNat < xs.length then some (xs.getD n.toNat .nil) else none
  | _, _ => none

/-- `assoc` of the result, as an evaluator result -/
def assocRes (v i res : Val) (st : State) : R :=
  match Core.assoc [v, i, res] with
  | .ok r => (.ok r, st)
  | .thrown t => (.err (.lisp t none), st)
  | .goerr m => (.err (.lisp (.goerr m) none), st)

def isMapOrVec : Val → Bool
  | .map _ => true
  | .vec _ _ => true
  | _ => false

theorem update1_bind (F : Nat) (st : State) (v i f : Val) (d : Nat) :
    LispModel.update1 (F+1) st v i f d =
      if isMapOrVec v then
        (match cur1 v i with
         | none => (.err (.lisp (.goerr "interface conversion or index out of range") none), st)
         | some c => bindR (LispModel.apply F st f [c] d) (fun res s => assocRes v i res s))
      else (.err (.lisp (.goerr "expected vector or hash-map") none), st) := by
  unfold LispModel.update1
  cases v <;> simp only [isMapOrVec, Bool.false_eq_true, ↓reduceIte]
  all_goals
    cases i <;> simp only [cur1] <;> (try rfl)
  · rename_i xs pos k
    by_cases hc : (0 ≤ k ∧ k.toNat < xs.length) <;> simp only [hc, ↓reduceIte, and_self] <;> (try rfl)
    rcases LispModel.apply F st f [xs.getD k.toNat Val.nil] d with ⟨r, s⟩; cases r <;> rfl
  · rename_i m k
    rcases LispModel.apply F st f [(alookup k m).getD Val.nil] d with ⟨r, s⟩; cases r <;> rfl

theorem pure_assocRes (v i res : Val) : PureOK (fun st => assocRes v i res st) := by
  unfold assocRes
  cases Core.assoc [v, i, res] <;> exact pure_ret _

section steps
variable {n : Nat} (ih : AllGood n)
include ih

theorem update1_succ (v i f : Val) (d : Nat) :
    Good (fun F st => LispModel.update1 F st v i f d) (n+1) := by
  refine Good.succ (fun F st _ => update1_bind F st v i f d) ?_
  cases isMapOrVec v with
  | false => exact Good.pure (pure_ret _)
  | true =>
    simp only [↓reduceIte]
    cases cur1 v i with
    | none => exact Good.pure (pure_ret _)
    | some c => exact Good.bind (ih.apply f [c] d) (fun res => Good.pure (pure_assocRes v i res))

end steps

/-- the branch `_updateIn` descends into -/
def branchOf (v i : Val) : Option Val :=
  match v, i with
  | .map m, .str k => some (match (alookup k m).getD .nil with | .nil => .map [] | b => b)
  | .vec xs _, .int n =>
    if 0 ≤ n ∧ n.toNat < xs.length then
      some (match xs.getD n.toNat .nil with | .nil => .vec [] none | b => b) else none
  | _, _ => none

def sameKind (v b : Val) : Bool :=
  match v, b with | .map _, .map _ => true | .vec _ _, .vec _ _ => true | _, _ => false

theorem updateIn_bind (F : Nat) (st : State) (v i j : Val) (rest : List Val) (f : Val) (d : Nat) :
    LispModel.updateIn (F+1) st v (i :: j :: rest) f d =
      match branchOf v i with
      | none => (.err (.lisp (.goerr "update-in: type not supported / conversion") none), st)
      | some b =>
        if !sameKind v b then (.err (.lisp (.goerr "interface conversion") none), st) else
        bindR (LispModel.updateIn F st b (j :: rest) f d) (fun inner s => assocRes v i inner s) := by
  conv => lhs; unfold LispModel.updateIn
  change (match branchOf v i with
      | none => (Res.err (.lisp (.goerr "update-in: type not supported / conversion") none), st)
      | some b =>
        if (!sameKind v b) = true then (Res.err (.lisp (.goerr "interface conversion") none), st) else
        match LispModel.updateIn F st b (j :: rest) f d with
        | (Res.ok inner, st) => assocRes v i inner st
        | r => r : R) = _
  cases branchOf v i with
  | none => rfl
  | some b =>
    simp only
    split
    · rfl
    · rcases LispModel.updateIn F st b (j :: rest) f d with ⟨r, s⟩
      cases r <;> rfl

section steps
variable {n : Nat} (ih : AllGood n)
include ih

theorem updateIn_succ (v : Val) (path : List Val) (f : Val) (d : Nat) :
    Good (fun F st => LispModel.updateIn F st v path f d) (n+1) := by
  rcases path with _ | ⟨i, _ | ⟨j, rest⟩⟩
  · exact Good.succ (c' := fun _ st => (.ok v, st)) (fun F st _ => by rw [updateIn.eq_2])
      (Good.pure (pure_ret _))
  · exact Good.succ (c' := fun F st => LispModel.update1 F st v i f d)
      (fun F st _ => by rw [updateIn.eq_3]) (ih.update1 v i f d)
  · refine Good.succ (fun F st _ => updateIn_bind F st v i j rest f d) ?_
    cases branchOf v i with
    | none => exact Good.pure (pure_ret _)
    | some b =>
      simp only
      cases sameKind v b with
      | false => exact Good.pure (pure_ret _)
      | true =>
        simp only [Bool.not_true, Bool.false_eq_true, ↓reduceIte]
        exact Good.bind (ih.updateIn b (j :: rest) f d) (fun inner => Good.pure (pure_assocRes v i inner))

end steps

/-! ### `callBuiltin` -/

def goerrR (m : String) (st : State) : R := (.err (.lisp (.goerr m) none), st)

theorem cb_trace (F : Nat) (st : State) (args : List Val) (d : Nat) :
    LispModel.callBuiltin (F+1) st "trace!" args d =
      match args with
      | [v] => (.ok v, { st with trace := v :: st.trace })
      | _ => goerrR "wrong number of arguments" st := by
  unfold LispModel.callBuiltin; simp (maxSteps := 1000000) only [String.reduceEq, ↓reduceIte]; rfl

theorem cb_depth (F : Nat) (st : State) (args : List Val) (d : Nat) :
    LispModel.callBuiltin (F+1) st "depth!" args d =
      match args with
      | [] => (.ok .nil, { st with marks := d :: st.marks })
      | _ => goerrR "wrong number of arguments" st := by
  unfold LispModel.callBuiltin; simp (maxSteps := 1000000) only [String.reduceEq, ↓reduceIte]; rfl

theorem cb_eval (F : Nat) (st : State) (args : List Val) (d : Nat) :
    LispModel.callBuiltin (F+1) st "eval" args d =
      match args with
      | [a] => LispModel.eval F st 0 a (d + 1)
      | _ => (.err (.plain "eval requires one argument"), st) := by
  unfold LispModel.callBuiltin; simp (maxSteps := 1000000) only [String.reduceEq, ↓reduceIte]; rfl

theorem cb_apply (F : Nat) (st : State) (args : List Val) (d : Nat) :
    LispModel.callBuiltin (F+1) st "apply" args d =
      match args with
      | f :: rest =>
        (match rest.getLast? with
         | none => goerrR "apply requires at least 2 args" st
         | some last =>
           match seqOf? last with
           | none => goerrR "GetSlice called on non-sequence" st
           | some tail => LispModel.apply F st f (rest.dropLast ++ tail) d)
      | [] => goerrR "wrong number of arguments" st := by
  unfold LispModel.callBuiltin; simp (maxSteps := 1000000) only [String.reduceEq, ↓reduceIte]; rfl

theorem cb_map (F : Nat) (st : State) (args : List Val) (d : Nat) :
    LispModel.callBuiltin (F+1) st "map" args d =
      match args with
      | [f, s] =>
        (match seqOf? s with
         | none => goerrR "GetSlice called on non-sequence" st
         | some xs => bindR (LispModel.mapLoop F st f xs d) (fun vs s' => (.ok (.list vs none), s')))
      | _ => goerrR "wrong number of arguments" st := by
  unfold LispModel.callBuiltin; simp (maxSteps := 1000000) only [String.reduceEq, ↓reduceIte]
  rcases args with _ | ⟨f, _ | ⟨s, _ | ⟨t, tl⟩⟩⟩ <;> try rfl
  simp only
  cases seqOf? s with
  | none => rfl
  | some xs => simp only; rcases LispModel.mapLoop F st f xs d with ⟨r, s'⟩; cases r <;> rfl

theorem cb_atom (F : Nat) (st : State) (args : List Val) (d : Nat) :
    LispModel.callBuiltin (F+1) st "atom" args d =
      match args with
      | [v] => (.ok (.atom (st.newAtom v).2), (st.newAtom v).1)
      | _ => goerrR "wrong number of arguments" st := by
  unfold LispModel.callBuiltin; simp (maxSteps := 1000000) only [String.reduceEq, ↓reduceIte]; rfl

theorem cb_deref (F : Nat) (st : State) (args : List Val) (d : Nat) :
    LispModel.callBuiltin (F+1) st "deref" args d =
      match args with
      | [.atom id] => (.ok (st.atoms.getD id .nil), st)
      | [_] => (.err (.lisp (.str "reflect: Call using") none), st)
      | _ => goerrR "wrong number of arguments" st := by
  unfold LispModel.callBuiltin; simp (maxSteps := 1000000) only [String.reduceEq, ↓reduceIte]; rfl

theorem cb_reset (F : Nat) (st : State) (args : List Val) (d : Nat) :
    LispModel.callBuiltin (F+1) st "reset!" args d =
      match args with
      | [.atom id, v] => (.ok v, { st with atoms := st.atoms.setIfInBounds id v })
      | [_, _] => goerrR "reset! called with non-atom" st
      | _ => goerrR "wrong number of arguments" st := by
  unfold LispModel.callBuiltin; simp (maxSteps := 1000000) only [String.reduceEq, ↓reduceIte]; rfl

theorem cb_swap (F : Nat) (st : State) (args : List Val) (d : Nat) :
    LispModel.callBuiltin (F+1) st "swap!" args d =
      match args with
      | .atom id :: f :: extra =>
        bindR (Res.ok (st.atoms.getD id .nil), st) (fun cur s0 =>
          bindR (LispModel.apply F s0 f (cur :: extra) d) (fun v s =>
            (.ok v, { s with atoms := s.atoms.setIfInBounds id v })))
      | _ :: _ :: _ => goerrR "swap! called with non-atom" st
      | _ => goerrR "runtime error: index out of range" st := by
  unfold LispModel.callBuiltin; simp (maxSteps := 1000000) only [String.reduceEq, ↓reduceIte]
  rcases args with _ | ⟨a, _ | ⟨f, extra⟩⟩
  · rfl
  · cases a <;> rfl
  · cases a <;> try rfl
    rename_i id
    simp only [bindR]
    rcases LispModel.apply F st f (st.atoms.getD id .nil :: extra) d with ⟨r, s⟩
    cases r <;> rfl

theorem cb_update (F : Nat) (st : State) (args : List Val) (d : Nat) :
    LispModel.callBuiltin (F+1) st "update" args d =
      match args with
      | [.nil, _, _] => (.ok .nil, st)
      | [v, i, f] => LispModel.update1 F st v i f d
      | _ => goerrR "wrong number of arguments" st := by
  unfold LispModel.callBuiltin; simp (maxSteps := 1000000) only [String.reduceEq, ↓reduceIte]; rfl

theorem cb_updateIn (F : Nat) (st : State) (args : List Val) (d : Nat) :
    LispModel.callBuiltin (F+1) st "update-in" args d =
      match args with
      | [v, .vec path _, f] => (match v with | .nil => (.ok .nil, st) | _ => LispModel.updateIn F st v path f d)
      | [_, _, _] => (.err (.lisp (.str "reflect: Call using") none), st)
      | _ => goerrR "wrong number of arguments" st := by
  unfold LispModel.callBuiltin; simp (maxSteps := 1000000) only [String.reduceEq, ↓reduceIte]; rfl

theorem cb_pure (F : Nat) (st : State) (name : String) (args : List Val) (d : Nat)
    (h1 : name ≠ "trace!") (h2 : name ≠ "depth!") (h3 : name ≠ "eval") (h4 : name ≠ "apply")
    (h5 : name ≠ "map") (h6 : name ≠ "atom") (h7 : name ≠ "deref") (h8 : name ≠ "reset!")
    (h9 : name ≠ "swap!") (h10 : name ≠ "update") (h11 : name ≠ "update-in") :
    LispModel.callBuiltin (F+1) st name args d = pureCall st name args := by
  unfold LispModel.callBuiltin
  simp (maxSteps := 1000000) only [h1, h2, h3, h4, h5, h6, h7, h8, h9, h10, h11, ↓reduceIte]
  rfl

theorem pure_goerr (m : String) : PureOK (goerrR m) := pure_ret _

theorem pure_pureCall (name : String) (args : List Val) : PureOK (fun st => pureCall st name args) := by
  unfold pureCall
  rcases Core.call name args with _ | b
  · exact pure_ret _
  · cases b <;> exact pure_ret _

local macro "close_pure" : tactic => `(tactic|
  first
    | exact Good.pure (pure_goerr _)
    | exact Good.pure (pure_ret _)
    | exact Good.pure (fun _ hs => ⟨hs, fun _ => rfl⟩))

section steps
variable {n : Nat} (ih : AllGood n)
include ih

theorem callBuiltin_succ (name : String) (args : List Val) (d : Nat) :
    Good (fun F st => LispModel.callBuiltin F st name args d) (n+1) := by
  by_cases h1 : name = "trace!"
  · subst h1
    refine Good.succ (fun F st _ => cb_trace F st args d) ?_
    rcases args with _ | ⟨v, _ | ⟨w, tl⟩⟩
    · exact Good.pure (pure_goerr _)
    · exact Good.pure (fun _ hs => ⟨hs, fun _ => rfl⟩)
    · exact Good.pure (pure_goerr _)
  by_cases h2 : name = "depth!"
  · subst h2
    refine Good.succ (fun F st _ => cb_depth F st args d) ?_
    rcases args with _ | ⟨v, tl⟩
    · exact Good.pure (fun _ hs => ⟨hs, fun _ => rfl⟩)
    · exact Good.pure (pure_goerr _)
  by_cases h3 : name = "eval"
  · subst h3
    refine Good.succ (fun F st _ => cb_eval F st args d) ?_
    rcases args with _ | ⟨a, _ | ⟨w, tl⟩⟩
    · exact Good.pure (pure_ret _)
    · exact ih.eval 0 a (d+1)
    · exact Good.pure (pure_ret _)
  by_cases h4 : name = "apply"
  · subst h4
    refine Good.succ (fun F st _ => cb_apply F st args d) ?_
    rcases args with _ | ⟨f, rest⟩
    · exact Good.pure (pure_goerr _)
    · simp only
      cases rest.getLast? with
      | none => exact Good.pure (pure_goerr _)
      | some last =>
        simp only
        cases seqOf? last with
        | none => exact Good.pure (pure_goerr _)
        | some tail => exact ih.apply f _ d
  by_cases h5 : name = "map"
  · subst h5
    refine Good.succ (fun F st _ => cb_map F st args d) ?_
    rcases args with _ | ⟨f, _ | ⟨s, _ | ⟨t, tl⟩⟩⟩
    · exact Good.pure (pure_goerr _)
    · exact Good.pure (pure_goerr _)
    · simp only
      cases seqOf? s with
      | none => exact Good.pure (pure_goerr _)
      | some xs => exact Good.bind (ih.mapLoop f xs d) (fun vs => Good.pure (pure_ret _))
    · exact Good.pure (pure_goerr _)
  by_cases h6 : name = "atom"
  · subst h6
    refine Good.succ (fun F st _ => cb_atom F st args d) ?_
    rcases args with _ | ⟨v, _ | ⟨w, tl⟩⟩
    · exact Good.pure (pure_goerr _)
    · exact Good.pure (fun _ hs => ⟨hs, fun _ => rfl⟩)
    · exact Good.pure (pure_goerr _)
  by_cases h7 : name = "deref"
  · subst h7
    refine Good.succ (fun F st _ => cb_deref F st args d) ?_
    rcases args with _ | ⟨v, _ | ⟨w, tl⟩⟩
    · close_pure
    · cases v <;> close_pure
    · cases v <;> close_pure
  by_cases h8 : name = "reset!"
  · subst h8
    refine Good.succ (fun F st _ => cb_reset F st args d) ?_
    rcases args with _ | ⟨v, _ | ⟨w, _ | ⟨t, tl⟩⟩⟩
    · close_pure
    · cases v <;> close_pure
    · cases v <;> close_pure
    · cases v <;> close_pure
  by_cases h9 : name = "swap!"
  · subst h9
    refine Good.succ (fun F st _ => cb_swap F st args d) ?_
    rcases args with _ | ⟨a, _ | ⟨f, extra⟩⟩
    · exact Good.pure (pure_goerr _)
    · cases a <;> exact Good.pure (pure_goerr _)
    · cases a <;> try exact Good.pure (pure_goerr _)
      rename_i id
      exact Good.bind (c := fun _ st => (Res.ok (st.atoms.getD id .nil), st))
        (Good.pure (fun _ hs => ⟨hs, fun _ => rfl⟩)) (fun cur =>
          Good.bind (ih.apply f (cur :: extra) d) (fun v => Good.pure (fun _ hs => ⟨hs, fun _ => rfl⟩)))
  by_cases h10 : name = "update"
  · subst h10
    refine Good.succ (fun F st _ => cb_update F st args d) ?_
    rcases args with _ | ⟨v, _ | ⟨i, _ | ⟨f, _ | ⟨t, tl⟩⟩⟩⟩
    · close_pure
    · cases v <;> close_pure
    · cases v <;> close_pure
    · cases v <;> first | close_pure | exact ih.update1 _ i f d
    · cases v <;> close_pure
  by_cases h11 : name = "update-in"
  · subst h11
    refine Good.succ (fun F st _ => cb_updateIn F st args d) ?_
    rcases args with _ | ⟨v, _ | ⟨i, _ | ⟨f, _ | ⟨t, tl⟩⟩⟩⟩
    · close_pure
    · close_pure
    · cases i <;> close_pure
    · cases i <;> try close_pure
      rename_i path pos
      cases v <;> first | close_pure | exact ih.updateIn _ path f d
    · cases i <;> close_pure
  exact Good.succ (fun F st _ => cb_pure F st name args d h1 h2 h3 h4 h5 h6 h7 h8 h9 h10 h11)
    (Good.pure (pure_pureCall name args))

end steps

/-! ### more combinators -/

def mapErrR {α : Type} (p : Res α × State) (g : Err → Err) : Res α × State :=
  match p with
  | (.ok v, s) => (.ok v, s)
  | (.err e, s) => (.err (g e), s)
  | (.oof, s) => (.oof, s)

theorem Good.mapErr {α : Type} {c : Comp α} {n : Nat} (g : Err → Err) (hc : Good c n) :
    Good (fun F st => mapErrR (c F st) g) n := by
  intro st hs
  obtain ⟨shc, mc⟩ := hc st hs
  rcases hc1 : c n st with ⟨rc, sc⟩
  refine ⟨fun j => ?_, fun r st' h hr => ?_⟩
  · simp only
    rw [shc j, hc1]
    cases rc <;> simp only [mapErrR]
  · simp only at h
    rw [hc1] at h
    cases rc with
    | oof => simp only [mapErrR] at h; cases h; exact absurd rfl hr
    | err e =>
      simp only [mapErrR] at h; cases h
      obtain ⟨hs1, run1⟩ := mc _ _ hc1 (by intro h; cases h)
      exact ⟨hs1, fun m hm => by simp only [run1 m hm, mapErrR]⟩
    | ok v =>
      simp only [mapErrR] at h; cases h
      obtain ⟨hs1, run1⟩ := mc _ _ hc1 (by intro h; cases h)
      exact ⟨hs1, fun m hm => by simp only [run1 m hm, mapErrR]⟩

/-- `try`: the handler runs on an error -/
def catchR (p : R) (H : Err → State → R) : R :=
  match p with
  | (.ok v, s) => (.ok v, s)
  | (.err e, s) => H e s
  | (.oof, s) => (.oof, s)

theorem Good.catch {c : Comp Val} {H : Err → Comp Val} {n : Nat}
    (hc : Good c n) (hH : ∀ e, Good (H e) n) :
    Good (fun F st => catchR (c F st) (fun e s => H e F s)) n := by
  intro st hs
  obtain ⟨shc, mc⟩ := hc st hs
  rcases hc1 : c n st with ⟨rc, sc⟩
  refine ⟨fun j => ?_, fun r st' h hr => ?_⟩
  · simp only
    rw [shc j, hc1]
    cases rc with
    | err e =>
      simp only [catchR]
      exact ((hH e) sc (mc _ _ hc1 (by intro h; cases h)).1).1 j
    | ok v => simp only [catchR]
    | oof => simp only [catchR]
  · simp only at h
    rw [hc1] at h
    cases rc with
    | oof => simp only [catchR] at h; cases h; exact absurd rfl hr
    | ok v =>
      simp only [catchR] at h; cases h
      obtain ⟨hs1, run1⟩ := mc _ _ hc1 (by intro h; cases h)
      exact ⟨hs1, fun m hm => by simp only [run1 m hm, catchR]⟩
    | err e =>
      simp only [catchR] at h
      obtain ⟨hs1, run1⟩ := mc _ _ hc1 (by intro h; cases h)
      obtain ⟨hs2, run2⟩ := ((hH e) sc hs1).2 _ _ h hr
      exact ⟨hs2, fun m hm => by simp only [run1 m hm, catchR]; exact run2 m hm⟩

/-- `finally`: runs after any outcome but out-of-fuel; its own outcome is dropped unless out-of-fuel -/
def finR (p : R) (fin : State → R) : R :=
  match p with
  | (.oof, s) => (.oof, s)
  | (r, s) =>
    match fin s with
    | (.oof, s') => (.oof, s')
    | (_, s') => (r, s')

theorem Good.fin {c fc : Comp Val} {n : Nat} (hc : Good c n) (hf : Good fc n) :
    Good (fun F st => finR (c F st) (fun s => fc F s)) n := by
  intro st hs
  obtain ⟨shc, mc⟩ := hc st hs
  rcases hc1 : c n st with ⟨rc, sc⟩
  have key : ∀ rc : Res Val, rc ≠ .oof → c n st = (rc, sc) →
      (∀ j, finR (rc, addTicks j sc) (fun s => fc n s) =
        ((finR (rc, sc) (fun s => fc n s)).1, addTicks j (finR (rc, sc) (fun s => fc n s)).2)) ∧
      (∀ r st', finR (rc, sc) (fun s => fc n s) = (r, st') → r ≠ .oof →
        Std st' ∧ ∀ m, n ≤ m → finR (c m st) (fun s => fc m s) = (r, st')) := by
    intro rc hne hc1
    obtain ⟨hs1, run1⟩ := mc _ _ hc1 hne
    obtain ⟨shf, mf⟩ := hf sc hs1
    rcases hf1 : fc n sc with ⟨rf, sf⟩
    refine ⟨fun j => ?_, fun r st' h hr => ?_⟩
    · have e1 : finR (rc, addTicks j sc) (fun s => fc n s) =
          (match fc n (addTicks j sc) with | (.oof, s') => (Res.oof, s') | (_, s') => (rc, s')) := by
        cases rc <;> first | exact absurd rfl hne | rfl
      have e2 : finR (rc, sc) (fun s => fc n s) =
          (match fc n sc with | (.oof, s') => (Res.oof, s') | (_, s') => (rc, s')) := by
        cases rc <;> first | exact absurd rfl hne | rfl
      rw [e1, e2, shf j, hf1]
      cases rf <;> rfl
    · have h' : (match (rf, sf) with | (.oof, s') => (Res.oof, s') | (_, s') => (rc, s')) = (r, st') := by
        rw [← hf1]; cases rc <;> first | exact h | exact absurd rfl hne
      cases rf with
      | oof => simp only at h'; cases h'; exact absurd rfl hr
      | ok v =>
        simp only at h'; cases h'
        obtain ⟨hs2, run2⟩ := mf _ _ hf1 (by intro h; cases h)
        refine ⟨hs2, fun m hm => ?_⟩
        rw [run1 m hm]
        cases rc <;> first | exact absurd rfl hne | simp only [finR, run2 m hm]
      | err e =>
        simp only at h'; cases h'
        obtain ⟨hs2, run2⟩ := mf _ _ hf1 (by intro h; cases h)
        refine ⟨hs2, fun m hm => ?_⟩
        rw [run1 m hm]
        cases rc <;> first | exact absurd rfl hne | simp only [finR, run2 m hm]
  refine ⟨fun j => ?_, fun r st' h hr => ?_⟩
  · simp only
    rw [shc j, hc1]
    cases rc with
    | oof => simp only [finR]
    | ok v => exact (key _ (by intro h; cases h) hc1).1 j
    | err e => exact (key _ (by intro h; cases h) hc1).1 j
  · simp only at h
    rw [hc1] at h
    cases rc with
    | oof => simp only [finR] at h; cases h; exact absurd rfl hr
    | ok v => exact (key _ (by intro h; cases h) hc1).2 r st' h hr
    | err e => exact (key _ (by intro h; cases h) hc1).2 r st' h hr

/-! ### the remaining arms of `evalLoop`, in `bindR` form -/

section arms2
variable {F : Nat} {st s0 s1 : State} {env d : Nat} {xs ops : List Val} {p p' ps : Option Pos} {e : Err}

theorem evalLoop_mac_err (hp : st.poll = (false, s0))
    (hm : LispModel.macroexpand F s0 env (.list xs p) d = (.err e, s1)) :
    LispModel.evalLoop (F+1) st env (.list xs p) d = (.err e, s1) := by
  rw [evalLoop.eq_2]; simp (maxSteps := 10000000) only [hp, hm, Bool.false_eq_true, ↓reduceIte]

theorem evalLoop_mac_oof (hp : st.poll = (false, s0))
    (hm : LispModel.macroexpand F s0 env (.list xs p) d = (.oof, s1)) :
    LispModel.evalLoop (F+1) st env (.list xs p) d = (.oof, s1) := by
  rw [evalLoop.eq_2]; simp (maxSteps := 10000000) only [hp, hm, Bool.false_eq_true, ↓reduceIte]

def armDef (env d : Nat) (ops : List Val) (whole : Val) : Comp Val := fun F s1 =>
  bindR (LispModel.eval F s1 env (ops.getD 1 .nil) (d+1)) (fun res s2 =>
    match ops.getD 0 .nil with
    | .sym name _ => (.ok res, s2.set env name res)
    | _ => (.err (newLispError (.plain "cannot use value as identifier") whole), s2))

theorem evalLoop_def (hp : st.poll = (false, s0))
    (hm : LispModel.macroexpand F s0 env (.list xs p) d = (.ok (.list (.sym "def" ps :: ops) p'), s1)) :
    LispModel.evalLoop (F+1) st env (.list xs p) d =
      armDef env d ops (.list (.sym "def" ps :: ops) p') F s1 := by
  rw [evalLoop.eq_2]
  simp (maxSteps := 10000000) only [hp, hm, Bool.false_eq_true, ↓reduceIte, String.reduceEq, armDef]
  rcases LispModel.eval F s1 env (ops.getD 1 .nil) (d+1) with ⟨r, s2⟩
  cases r <;> rfl

def armDo (env d : Nat) (lst : List Val) : Comp Val := fun F s1 =>
  bindR (LispModel.doForms F s1 env lst 1 true d) (fun next s2 => continueWith F s2 env next d)

theorem evalLoop_do (hp : st.poll = (false, s0))
    (hm : LispModel.macroexpand F s0 env (.list xs p) d = (.ok (.list (.sym "do" ps :: ops) p'), s1)) :
    LispModel.evalLoop (F+1) st env (.list xs p) d = armDo env d (.sym "do" ps :: ops) F s1 := by
  rw [evalLoop.eq_2]
  simp (maxSteps := 10000000) only [hp, hm, Bool.false_eq_true, ↓reduceIte, String.reduceEq, armDo]
  rcases LispModel.doForms F s1 env (.sym "do" ps :: ops) 1 true d with ⟨r, s2⟩
  cases r <;> rfl

def armIf (env d : Nat) (lst : List Val) : Comp Val := fun F s1 =>
  bindR (LispModel.eval F s1 env (lst.getD 1 .nil) (d+1)) (fun cond s2 =>
    if truthy cond then continueWith F s2 env (lst.getD 2 .nil) d
    else if lst.length ≥ 4 then continueWith F s2 env (lst.getD 3 .nil) d
    else (.ok .nil, s2))

theorem evalLoop_if (hp : st.poll = (false, s0))
    (hm : LispModel.macroexpand F s0 env (.list xs p) d = (.ok (.list (.sym "if" ps :: ops) p'), s1)) :
    LispModel.evalLoop (F+1) st env (.list xs p) d = armIf env d (.sym "if" ps :: ops) F s1 := by
  rw [evalLoop.eq_2]
  simp (maxSteps := 10000000) only [hp, hm, Bool.false_eq_true, ↓reduceIte, String.reduceEq, armIf,
    List.getD_cons_succ]
  rcases LispModel.eval F s1 env (ops.getD 0 .nil) (d+1) with ⟨r, s2⟩
  cases r <;> rfl

theorem evalLoop_fn (hp : st.poll = (false, s0))
    (hm : LispModel.macroexpand F s0 env (.list xs p) d = (.ok (.list (.sym "fn" ps :: ops) p'), s1)) :
    LispModel.evalLoop (F+1) st env (.list xs p) d =
      (if (Val.sym "fn" ps :: ops).length < 2 then
        (.err (newLispError (.plain "fn requires a parameter list") (.list (.sym "fn" ps :: ops) p')), s1)
      else (.ok (.fn (ops.getD 0 .nil) (.list (.sym "do" none :: (Val.sym "fn" ps :: ops).drop 2) none) env false p'), s1)) := by
  rw [evalLoop.eq_2]
  simp (maxSteps := 10000000) only [hp, hm, Bool.false_eq_true, ↓reduceIte, String.reduceEq]

theorem evalLoop_qqexpand (hp : st.poll = (false, s0))
    (hm : LispModel.macroexpand F s0 env (.list xs p) d =
      (.ok (.list (.sym "quasiquoteexpand" ps :: ops) p'), s1)) :
    LispModel.evalLoop (F+1) st env (.list xs p) d = (.ok (quasiquote (ops.getD 0 .nil)), s1) := by
  rw [evalLoop.eq_2]
  simp (maxSteps := 10000000) only [hp, hm, Bool.false_eq_true, ↓reduceIte, String.reduceEq]

theorem evalLoop_macroexpand (hp : st.poll = (false, s0))
    (hm : LispModel.macroexpand F s0 env (.list xs p) d =
      (.ok (.list (.sym "macroexpand" ps :: ops) p'), s1)) :
    LispModel.evalLoop (F+1) st env (.list xs p) d = LispModel.macroexpand F s1 env (ops.getD 0 .nil) d := by
  rw [evalLoop.eq_2]
  simp (maxSteps := 10000000) only [hp, hm, Bool.false_eq_true, ↓reduceIte, String.reduceEq]

end arms2

section arms3
variable {F : Nat} {st s0 s1 : State} {env d : Nat} {xs ops : List Val} {p p' ps : Option Pos} {e : Err}
  {s : String}

def armLet (env d : Nat) (lst : List Val) : Comp Val := fun F s1 =>
  bindR (Res.ok (s1.newScope env []).2, (s1.newScope env []).1) (fun letEnv s2 =>
    match seqOf? (lst.getD 1 .nil) with
    | none => (.err (.plain "GetSlice called on non-sequence"), s2)
    | some arr1 =>
      if arr1.length % 2 ≠ 0 then
        (.err (newLispError (.plain "let: odd elements on binding vector") (lst.getD 1 .nil)), s2)
      else
        bindR (LispModel.letBinds F s2 letEnv arr1 (lst.getD 1 .nil) d) (fun _ s3 =>
          bindR (LispModel.doForms F s3 letEnv lst 2 true d) (fun next s4 =>
            continueWith F s4 letEnv next d)))

theorem evalLoop_let (hp : st.poll = (false, s0))
    (hm : LispModel.macroexpand F s0 env (.list xs p) d = (.ok (.list (.sym "let" ps :: ops) p'), s1)) :
    LispModel.evalLoop (F+1) st env (.list xs p) d = armLet env d (.sym "let" ps :: ops) F s1 := by
  rw [evalLoop.eq_2]
  simp (maxSteps := 10000000) only [hp, hm, Bool.false_eq_true, ↓reduceIte, String.reduceEq, armLet,
    List.getD_cons_succ, bindR]
  cases seqOf? (ops.getD 0 .nil) with
  | none => rfl
  | some arr1 =>
    simp only
    split
    · rfl
    · rcases LispModel.letBinds F (s1.newScope env []).1 (s1.newScope env []).2 arr1 (ops.getD 0 .nil) d
        with ⟨r, s3⟩
      cases r <;> try rfl
      simp only
      rcases LispModel.doForms F s3 (s1.newScope env []).2 (.sym "let" ps :: ops) 2 true d with ⟨r2, s4⟩
      cases r2 <;> rfl

def armDefmacro (env d : Nat) (ops : List Val) (whole : Val) : Comp Val := fun F s1 =>
  bindR (LispModel.eval F s1 env (ops.getD 1 .nil) (d+1)) (fun f s2 =>
    match f with
    | .fn prm b e _ fp =>
      (match ops.getD 0 .nil with
       | .sym name _ => (.ok (Val.fn prm b e true fp), s2.set env name (Val.fn prm b e true fp))
       | _ => (.err (newLispError (.plain "cannot use value as identifier") whole), s2))
    | _ => (.err (newLispError (.plain "defmacro requires a function") whole), s2))

theorem evalLoop_defmacro' (hp : st.poll = (false, s0))
    (hm : LispModel.macroexpand F s0 env (.list xs p) d = (.ok (.list (.sym "defmacro" ps :: ops) p'), s1)) :
    LispModel.evalLoop (F+1) st env (.list xs p) d =
      armDefmacro env d ops (.list (.sym "defmacro" ps :: ops) p') F s1 := by
  rw [evalLoop_defmacro hp hm, armDefmacro]
  rcases LispModel.eval F s1 env (ops.getD 1 .nil) (d+1) with ⟨r, s2⟩
  cases r <;> rfl

def armApp (env d : Nat) (lst : List Val) (whole : Val) : Comp Val := fun F s1 =>
  bindR (LispModel.evalList F s1 env lst d) (fun el s2 =>
    match el with
    | [] => (.err (.plain "empty application"), s2)
    | f :: args =>
      match f with
      | .fn params body fenv _ _ =>
        (match bindParams params args with
         | .error e =>
           (match e with
            | .lisp (.goerr m) _ => (.err (.lisp (.goerr (m ++ " (around do)")) none), s2)
            | e => (.err (newLispError e body), s2))
         | .ok data =>
           bindR (Res.ok (s2.newScope fenv data).2, (s2.newScope fenv data).1) (fun callEnv s3 =>
             continueWith F s3 callEnv body d))
      | .builtin name => mapErrR (LispModel.callBuiltin F s2 name args d) (fun e => newLispError e whole)
      | _ => (.err (.lisp (.goerr "attempt to call non-function") none), s2))

theorem evalLoop_app' (hp : st.poll = (false, s0))
    (hm : LispModel.macroexpand F s0 env (.list xs p) d = (.ok (.list (.sym s ps :: ops) p'), s1))
    (ha : s ∉ specialForms) :
    LispModel.evalLoop (F+1) st env (.list xs p) d =
      armApp env d (.sym s ps :: ops) (.list (.sym s ps :: ops) p') F s1 := by
  rw [evalLoop_app hp hm ha, armApp]
  rcases LispModel.evalList F s1 env (.sym s ps :: ops) d with ⟨r, s2⟩
  cases r <;> try rfl
  rename_i el
  simp only [bindR]
  rcases el with _ | ⟨f, args⟩
  · rfl
  · cases f with
    | fn params body fenv m pos =>
      simp only
      cases bindParams params args <;> rfl
    | builtin name =>
      simp only
      rcases LispModel.callBuiltin F s2 name args d with ⟨r3, s3⟩
      cases r3 <;> rfl
    | _ => rfl

end arms3

section arms4
variable {F : Nat} {st s0 s1 : State} {env d : Nat} {xs ops : List Val} {p p' ps : Option Pos}

def tryHandler (env d : Nat) (parts : TryParts) : Err → Comp Val := fun e F s =>
  match parts.catchDo, parts.catchBind with
  | some handler, some bind =>
    (match bindParams (.list [bind] none) [caughtValue e] with
     | .error be => (.err be, s)
     | .ok data =>
       bindR (Res.ok (s.newScope env data).2, (s.newScope env data).1) (fun catchEnv s' =>
         LispModel.doForms F s' catchEnv handler 0 false d))
  | _, _ => (.err e, s)

def tryFin (env d : Nat) (parts : TryParts) : Comp Val := fun F s =>
  match parts.finallyDo with
  | none => (.ok .nil, outing1Defer s)
  | some fin => LispModel.doForms F s env fin 0 false d

def armTry (env d : Nat) (ops : List Val) (lst : List Val) (whole : Val) : Comp Val := fun F s1 =>
  if ops.isEmpty then (.ok .nil, s1) else
  match splitTry lst with
  | .error msg => (.err (newLispError (.plain msg) whole), s1)
  | .ok parts =>
    finR (catchR (LispModel.doForms F s1 env parts.body 0 false d)
        (fun e s => tryHandler env d parts e F s))
      (fun s => tryFin env d parts F s)

theorem evalLoop_try (hp : st.poll = (false, s0))
    (hm : LispModel.macroexpand F s0 env (.list xs p) d = (.ok (.list (.sym "try" ps :: ops) p'), s1)) :
    LispModel.evalLoop (F+1) st env (.list xs p) d =
      armTry env d ops (.sym "try" ps :: ops) (.list (.sym "try" ps :: ops) p') F s1 := by
  rw [evalLoop.eq_2]
  simp (maxSteps := 10000000) only [hp, hm, Bool.false_eq_true, ↓reduceIte, String.reduceEq, armTry]
  split
  · rfl
  · cases splitTry (.sym "try" ps :: ops) with
    | error msg => rfl
    | ok parts =>
      simp only
      rcases LispModel.doForms F s1 env parts.body 0 false d with ⟨r, s2⟩
      cases r with
      | oof => rfl
      | ok v =>
        simp only [catchR, finR, tryFin]
        cases parts.finallyDo with
        | none => rfl
        | some fin =>
          simp only
          rcases LispModel.doForms F s2 env fin 0 false d with ⟨r3, s3⟩
          cases r3 <;> rfl
      | err e =>
        have fin_eq : ∀ q : R,
            (match q.fst with
              | .oof => ((.oof, q.snd) : R)
              | _ =>
                match parts.finallyDo with
                | none => (q.fst, outing1Defer q.snd)
                | some fin =>
                  match LispModel.doForms F q.snd env fin 0 false d with
                  | (.oof, st) => (.oof, st)
                  | (_, st) => (q.fst, st)) = finR q (fun s => tryFin env d parts F s) := by
          intro q
          rcases q with ⟨r, s⟩
          simp only [finR, tryFin]
          cases parts.finallyDo with
          | none => cases r <;> rfl
          | some fin =>
            cases r <;> simp only <;> (try rfl) <;>
              (rcases LispModel.doForms F s env fin 0 false d with ⟨r3, s3⟩; cases r3 <;> rfl)
        simp only [catchR]
        exact fin_eq (tryHandler env d parts e F s2)

end arms4

theorem outing1Defer_std {st : State} (hs : st.stepper = none) : outing1Defer st = st := by
  simp only [outing1Defer, hs]

theorem pure_outing1Defer : PureOK (fun s => ((Res.ok Val.nil : Res Val), outing1Defer s)) := by
  intro st hs
  have h1 : outing1Defer st = st := outing1Defer_std hs.1
  refine ⟨by simp only [h1]; exact hs, fun j => ?_⟩
  have h2 : outing1Defer (addTicks j st) = addTicks j st := outing1Defer_std hs.1
  simp only [h1, h2]

section armsGood
variable {n : Nat} (ih : AllGood n)
include ih

theorem cw_good (env : Nat) (ast : Val) (d : Nat) :
    Good (fun F st => continueWith F st env ast d) n :=
  Good.congr (fun _ _ hs => continueWith_std hs.1) (ih.evalLoop env ast d)

theorem armDef_good (env d : Nat) (ops : List Val) (whole : Val) : Good (armDef env d ops whole) n := by
  unfold armDef
  refine Good.bind (ih.eval env _ (d+1)) (fun res => ?_)
  generalize ops.getD 0 .nil = a1
  cases a1 <;> first | exact Good.pure (pure_ret _) | exact Good.pure (pure_set _ _ _ _)

theorem armDefmacro_good (env d : Nat) (ops : List Val) (whole : Val) :
    Good (armDefmacro env d ops whole) n := by
  unfold armDefmacro
  refine Good.bind (ih.eval env _ (d+1)) (fun f => ?_)
  generalize ops.getD 0 .nil = a1
  cases f <;> try exact Good.pure (pure_ret _)
  cases a1 <;> first | exact Good.pure (pure_ret _) | exact Good.pure (pure_set _ _ _ _)

theorem armDo_good (env d : Nat) (lst : List Val) : Good (armDo env d lst) n := by
  unfold armDo
  exact Good.bind (ih.doForms env lst 1 true d) (fun next => cw_good ih env next d)

theorem armIf_good (env d : Nat) (lst : List Val) : Good (armIf env d lst) n := by
  unfold armIf
  refine Good.bind (ih.eval env _ (d+1)) (fun cond => ?_)
  cases truthy cond with
  | true => simp only [↓reduceIte]; exact cw_good ih env _ d
  | false =>
    simp only [Bool.false_eq_true, ↓reduceIte]
    by_cases hl : lst.length ≥ 4
    · simp only [hl, ↓reduceIte]; exact cw_good ih env _ d
    · simp only [hl, ↓reduceIte]; exact Good.pure (pure_ret _)

theorem armLet_good (env d : Nat) (lst : List Val) : Good (armLet env d lst) n := by
  unfold armLet
  refine Good.bind (c := fun _ st => (Res.ok (st.newScope env []).2, (st.newScope env []).1))
    (Good.pure (pure_newScope env [])) (fun letEnv => ?_)
  cases seqOf? (lst.getD 1 .nil) with
  | none => exact Good.pure (pure_ret _)
  | some arr1 =>
    simp only
    by_cases ho : arr1.length % 2 ≠ 0
    · simp only [if_pos ho]; exact Good.pure (pure_ret _)
    · simp only [if_neg ho]
      exact Good.bind (ih.letBinds letEnv arr1 _ d) (fun _ =>
        Good.bind (ih.doForms letEnv lst 2 true d) (fun next => cw_good ih letEnv next d))

theorem armApp_good (env d : Nat) (lst : List Val) (whole : Val) : Good (armApp env d lst whole) n := by
  unfold armApp
  refine Good.bind (ih.evalList env lst d) (fun el => ?_)
  rcases el with _ | ⟨f, args⟩
  · exact Good.pure (pure_ret _)
  · cases f with
    | fn params body fenv m pos =>
      simp only
      cases bindParams params args with
      | error e =>
        simp only
        rcases e with ⟨pl, ps⟩ | msg
        · cases pl <;> exact Good.pure (pure_ret _)
        · exact Good.pure (pure_ret _)
      | ok data =>
        exact Good.bind (c := fun _ st => (Res.ok (st.newScope fenv data).2, (st.newScope fenv data).1))
          (Good.pure (pure_newScope fenv data)) (fun callEnv => cw_good ih callEnv body d)
    | builtin name => exact Good.mapErr _ (ih.callBuiltin name args d)
    | _ => exact Good.pure (pure_ret _)

theorem armTry_good (env d : Nat) (ops lst : List Val) (whole : Val) :
    Good (armTry env d ops lst whole) n := by
  unfold armTry
  cases ops.isEmpty with
  | true => exact Good.pure (pure_ret _)
  | false =>
    simp only [Bool.false_eq_true, ↓reduceIte]
    cases splitTry lst with
    | error msg => exact Good.pure (pure_ret _)
    | ok parts =>
      simp only
      refine Good.fin (Good.catch (ih.doForms env parts.body 0 false d) (fun e => ?_)) ?_
      · unfold tryHandler
        rcases parts.catchDo with _ | handler
        · exact Good.pure (pure_ret _)
        · rcases parts.catchBind with _ | bind
          · exact Good.pure (pure_ret _)
          · simp only
            cases bindParams (.list [bind] none) [caughtValue e] with
            | error be => exact Good.pure (pure_ret _)
            | ok data =>
              exact Good.bind (c := fun _ st => (Res.ok (st.newScope env data).2, (st.newScope env data).1))
                (Good.pure (pure_newScope env data)) (fun catchEnv => ih.doForms catchEnv handler 0 false d)
      · unfold tryFin
        cases parts.finallyDo with
        | none => exact Good.pure pure_outing1Defer
        | some fin => exact ih.doForms env fin 0 false d

end armsGood

theorem evalLoop_app_nonsym {F : Nat} {st s0 s1 : State} {env d : Nat} {xs ops : List Val}
    {p p' : Option Pos} {a0 : Val}
    (hp : st.poll = (false, s0))
    (hm : LispModel.macroexpand F s0 env (.list xs p) d = (.ok (.list (a0 :: ops) p'), s1))
    (ha : ∀ s ps, a0 ≠ .sym s ps) :
    LispModel.evalLoop (F+1) st env (.list xs p) d =
      armApp env d (a0 :: ops) (.list (a0 :: ops) p') F s1 := by
  rw [evalLoop.eq_2, armApp]
  cases a0 <;> first | exact absurd rfl (ha _ _) | skip
  all_goals
    simp (maxSteps := 10000000) only [hp, hm, Bool.false_eq_true, ↓reduceIte, String.reduceEq]
    generalize hl : LispModel.evalList F s1 env _ d = q
    rcases q with ⟨r, s2⟩
    cases r <;> try rfl
    rename_i el
    simp only [bindR]
    rcases el with _ | ⟨f, args⟩
    · rfl
    · cases f with
      | fn params body fenv m pos =>
        simp only
        cases bindParams params args <;> rfl
      | builtin name =>
        simp only
        rcases LispModel.callBuiltin F s2 name args d with ⟨r3, s3⟩
        cases r3 <;> rfl
      | _ => rfl

section loopStep
variable {n : Nat} (ih : AllGood n)
include ih

theorem evalLoop_succ (env : Nat) (ast : Val) (d : Nat) :
    Good (fun F st => LispModel.evalLoop F st env ast d) (n+1) := by
  by_cases hl : ∃ xs p, ast = .list xs p
  · obtain ⟨xs, p, rfl⟩ := hl
    intro st hs
    show (∀ j, LispModel.evalLoop (n+1) (addTicks j st) env (.list xs p) d =
          ((LispModel.evalLoop (n+1) st env (.list xs p) d).1,
            addTicks j (LispModel.evalLoop (n+1) st env (.list xs p) d).2)) ∧
      (∀ r st', LispModel.evalLoop (n+1) st env (.list xs p) d = (r, st') → r ≠ .oof →
        Std st' ∧ ∀ m, n + 1 ≤ m → LispModel.evalLoop m st env (.list xs p) d = (r, st'))
    have hp := poll_std hs.2
    have hpj : ∀ j, (addTicks j st).poll = (false, addTicks j (tick st)) := fun j => by
      rw [poll_std (Std.addTicks hs j).2, tick_addTicks]
    obtain ⟨shm, mm⟩ := ih.macroexpand env (.list xs p) d (tick st) (Std.tick hs)
    rcases hm : LispModel.macroexpand n (tick st) env (.list xs p) d with ⟨rm, s1⟩
    have hmj : ∀ j, LispModel.macroexpand n (addTicks j (tick st)) env (.list xs p) d =
        (rm, addTicks j s1) := fun j => by
      have := shm j; simp only [hm] at this; exact this
    cases rm with
    | oof =>
      refine ⟨fun j => by rw [evalLoop_mac_oof (hpj j) (hmj j), evalLoop_mac_oof hp hm],
        fun r st' h hr => ?_⟩
      rw [evalLoop_mac_oof hp hm] at h; cases h; exact absurd rfl hr
    | err e =>
      refine ⟨fun j => by rw [evalLoop_mac_err (hpj j) (hmj j), evalLoop_mac_err hp hm],
        fun r st' h hr => ?_⟩
      rw [evalLoop_mac_err hp hm] at h; cases h
      obtain ⟨hs1, run1⟩ := mm _ _ hm (by intro h; cases h)
      refine ⟨hs1, fun m hm' => ?_⟩
      obtain ⟨m', rfl⟩ := exists_add_of_le (Nat.le_trans (Nat.le_add_left 1 n) hm')
      exact evalLoop_mac_err hp (run1 m' (by omega))
    | ok ast' =>
      obtain ⟨hs1, run1⟩ := mm _ _ hm (by intro h; cases h)
      have finish : ∀ (A : Comp Val), Good A n →
          (∀ F stt s0 s1', stt.poll = (false, s0) →
            LispModel.macroexpand F s0 env (.list xs p) d = (.ok ast', s1') →
            LispModel.evalLoop (F+1) stt env (.list xs p) d = A F s1') →
          (∀ j, LispModel.evalLoop (n+1) (addTicks j st) env (.list xs p) d =
            ((LispModel.evalLoop (n+1) st env (.list xs p) d).1,
              addTicks j (LispModel.evalLoop (n+1) st env (.list xs p) d).2)) ∧
          (∀ r st', LispModel.evalLoop (n+1) st env (.list xs p) d = (r, st') → r ≠ .oof →
            Std st' ∧ ∀ m, n + 1 ≤ m → LispModel.evalLoop m st env (.list xs p) d = (r, st')) := by
        intro A hA hEq
        obtain ⟨shA, mA⟩ := hA s1 hs1
        refine ⟨fun j => ?_, fun r st' h hr => ?_⟩
        · rw [hEq n _ _ _ (hpj j) (hmj j), hEq n st _ _ hp hm]
          exact shA j
        · rw [hEq n st _ _ hp hm] at h
          obtain ⟨hs2, run2⟩ := mA r st' h hr
          refine ⟨hs2, fun m hm' => ?_⟩
          obtain ⟨m', rfl⟩ := exists_add_of_le (Nat.le_trans (Nat.le_add_left 1 n) hm')
          rw [hEq m' st _ _ hp (run1 m' (by omega))]
          exact run2 m' (by omega)
      by_cases hl' : ∃ ys q, ast' = .list ys q
      · obtain ⟨ys, q, rfl⟩ := hl'
        rcases ys with _ | ⟨a0, ops⟩
        · exact finish (fun _ s => (.ok (.list [] q), s)) (Good.pure (pure_ret _))
            (fun F stt s0 s1' hp' hm' => evalLoop_mac_empty hp' hm')
        · by_cases hsym : ∃ s ps, a0 = .sym s ps
          · obtain ⟨s, ps, rfl⟩ := hsym
            by_cases h1 : s = "def"
            · subst h1
              exact finish _ (armDef_good ih env d ops _) (fun F stt s0 s1' hp' hm' => evalLoop_def hp' hm')
            by_cases h2 : s = "let"
            · subst h2
              exact finish _ (armLet_good ih env d _) (fun F stt s0 s1' hp' hm' => evalLoop_let hp' hm')
            by_cases h3 : s = "quote"
            · subst h3
              exact finish (fun _ s => (.ok (ops.getD 0 .nil), s)) (Good.pure (pure_ret _))
                (fun F stt s0 s1' hp' hm' => evalLoop_quote hp' hm')
            by_cases h4 : s = "quasiquoteexpand"
            · subst h4
              exact finish (fun _ s => (.ok (quasiquote (ops.getD 0 .nil)), s)) (Good.pure (pure_ret _))
                (fun F stt s0 s1' hp' hm' => evalLoop_qqexpand hp' hm')
            by_cases h5 : s = "quasiquote"
            · subst h5
              exact finish _ (cw_good ih env (quasiquote (ops.getD 0 .nil)) d)
                (fun F stt s0 s1' hp' hm' => evalLoop_quasiquote hp' hm')
            by_cases h6 : s = "defmacro"
            · subst h6
              exact finish _ (armDefmacro_good ih env d ops _)
                (fun F stt s0 s1' hp' hm' => evalLoop_defmacro' hp' hm')
            by_cases h7 : s = "macroexpand"
            · subst h7
              exact finish _ (ih.macroexpand env (ops.getD 0 .nil) d)
                (fun F stt s0 s1' hp' hm' => evalLoop_macroexpand hp' hm')
            by_cases h8 : s = "try"
            · subst h8
              exact finish _ (armTry_good ih env d ops _ _) (fun F stt s0 s1' hp' hm' => evalLoop_try hp' hm')
            by_cases h9 : s = "do"
            · subst h9
              exact finish _ (armDo_good ih env d _) (fun F stt s0 s1' hp' hm' => evalLoop_do hp' hm')
            by_cases h10 : s = "if"
            · subst h10
              exact finish _ (armIf_good ih env d _) (fun F stt s0 s1' hp' hm' => evalLoop_if hp' hm')
            by_cases h11 : s = "fn"
            · subst h11
              refine finish (fun _ s => _) ?_ (fun F stt s0 s1' hp' hm' => evalLoop_fn hp' hm')
              split <;> exact Good.pure (pure_ret _)
            have hns : s ∉ specialForms := by
              simp only [specialForms, List.mem_cons, List.not_mem_nil, or_false, not_or]
              exact ⟨h1, h2, h3, h4, h5, h6, h7, h8, h9, h10, h11⟩
            exact finish _ (armApp_good ih env d _ _) (fun F stt s0 s1' hp' hm' => evalLoop_app' hp' hm' hns)
          · exact finish _ (armApp_good ih env d _ _)
              (fun F stt s0 s1' hp' hm' => evalLoop_app_nonsym hp' hm' (fun s ps h => hsym ⟨s, ps, h⟩))
      · have hl'' : ∀ ys q, ast' ≠ .list ys q := fun ys q h => hl' ⟨ys, q, h⟩
        exact finish _ (ih.evalAst env ast' d)
          (fun F stt s0 s1' hp' hm' => evalLoop_mac_nonlist hp' hm' hl'')
  · have hl' : ∀ xs p, ast ≠ .list xs p := fun xs p h => hl ⟨xs, p, h⟩
    exact Good.succ (c' := fun F st => LispModel.evalAst F (tick st) env ast d)
      (fun F st hs => evalLoop_nonlist (poll_std hs.2) hl')
      (Good.pre pre_tick (ih.evalAst env ast d))

end loopStep

theorem allGood_zero : AllGood 0 where
  eval := fun _ _ _ => Good.zero (fun _ => by rw [eval.eq_1])
  evalLoop := fun _ _ _ => Good.zero (fun _ => by rw [evalLoop.eq_1])
  evalAst := fun _ _ _ => Good.zero (fun _ => by rw [evalAst.eq_1])
  evalList := fun _ _ _ => Good.zero (fun _ => by rw [evalList.eq_1])
  evalMap := fun _ _ _ => Good.zero (fun _ => by rw [evalMap.eq_1])
  doForms := fun _ _ _ _ _ => Good.zero (fun _ => by rw [doForms.eq_1])
  letBinds := fun _ _ _ _ => Good.zero (fun _ => by rw [letBinds.eq_1])
  macroexpand := fun _ _ _ => Good.zero (fun _ => by rw [macroexpand.eq_1])
  apply := fun _ _ _ => Good.zero (fun _ => by rw [apply.eq_1])
  mapLoop := fun _ _ _ => Good.zero (fun _ => by rw [mapLoop.eq_1])
  updateIn := fun _ _ _ _ => Good.zero (fun _ => by rw [updateIn.eq_1])
  update1 := fun _ _ _ _ => Good.zero (fun _ => by unfold LispModel.update1; rfl)
  callBuiltin := fun _ _ _ => Good.zero (fun _ => by unfold LispModel.callBuiltin; rfl)

theorem allGood_succ {n : Nat} (ih : AllGood n) : AllGood (n+1) where
  eval := eval_succ ih
  evalLoop := evalLoop_succ ih
  evalAst := evalAst_succ ih
  evalList := evalList_succ ih
  evalMap := evalMap_succ ih
  doForms := doForms_succ ih
  letBinds := letBinds_succ ih
  macroexpand := macroexpand_succ ih
  apply := apply_succ ih
  mapLoop := mapLoop_succ ih
  updateIn := updateIn_succ ih
  update1 := update1_succ ih
  callBuiltin := callBuiltin_succ ih

theorem allGood : ∀ n, AllGood n
  | 0 => allGood_zero
  | n+1 => allGood_succ (allGood n)

/-- the general fact about `eval` that the quasiquote theorem needs -/
theorem evalFacts : EvalFacts where
  run := fun {F st env e d r st'} hs h hr => by
    obtain ⟨hs', mono⟩ := ((allGood F).eval env e d st hs).2 r st' h hr
    refine ⟨hs', fun F' hF j => ?_⟩
    have h1 := ((allGood F').eval env e d st hs).1 j
    have h2 := mono F' hF
    simp only at h1 h2
    rw [h1, h2]
  shift := fun {F st env e d} j hs => ((allGood F).eval env e d st hs).1 j

/-! ### the closed statements -/

/-- the code generated by `quasiquote t` evaluates to what the specification says -/
theorem qq_code_eq_subst' {env : Nat} {I : State → Prop}
    (hI : ∀ st, I st → CoreBound st env) {t : Val} {F : Nat} {st st' : State} {d : Nat} {r : Res Val}
    (hp : ∀ e ∈ qqExprs t, Preserves I env e) (hi : I st) (hs : Std st)
    (h : qqSubst F env st t d = (r, st')) (hr : r ≠ .oof) :
    ∃ F₀, ∀ F', F₀ ≤ F' → ∃ k, LispModel.evalLoop F' st env (quasiquote t) d = (r, addTicks k st') :=
  qq_code_eq_subst evalFacts hI hp hi hs h hr

/-- the form `(quasiquote t)` evaluates to what the specification says -/
theorem qq_form_eq_subst' {env : Nat} {I : State → Prop}
    (hI : ∀ st, I st → CoreBound st env) {t : Val} {F : Nat} {st st' : State} {d : Nat} {r : Res Val}
    {pq p : Option Pos} {rest : List Val}
    (hq : NotMacro st env "quasiquote")
    (hp : ∀ e ∈ qqExprs t, Preserves I env e) (hi : I st) (hs : Std st)
    (h : qqSubst F env st t d = (r, st')) (hr : r ≠ .oof) :
    ∃ F₀, ∀ F', F₀ ≤ F' → ∃ k,
      LispModel.evalLoop F' st env (.list (.sym "quasiquote" pq :: t :: rest) p) d = (r, addTicks k st') :=
  qq_form_eq_subst evalFacts hI hq hp hi hs h hr

/-- fuel monotonicity of `evalLoop` under the standard side conditions -/
theorem evalLoop_mono {F F' : Nat} {st st' : State} {env d : Nat} {ast : Val} {r : Res Val}
    (hs : Std st) (h : LispModel.evalLoop F st env ast d = (r, st')) (hr : r ≠ .oof) (hF : F ≤ F') :
    LispModel.evalLoop F' st env ast d = (r, st') :=
  (((allGood F).evalLoop env ast d st hs).2 r st' h hr).2 F' hF

theorem call_vec (a : Val) : Core.call "vec" [a] =
    some (match a with
      | .set ks => .ok (.vec (ks.map .str) none)
      | .list xs _ => .ok (.vec xs none)
      | .vec xs _ => .ok (.vec xs none)
      | _ => .goerr "cannot convert from type") := by
  rfl

theorem pureCall_vec_ok {s s' : State} {a r : Val} (h : pureCall s "vec" [a] = (.ok r, s')) :
    ∃ vs, r = .vec vs none := by
  unfold pureCall at h
  rw [call_vec] at h
  cases a <;> simp only at h <;> first | (cases h; exact ⟨_, rfl⟩) | cases h

/-- the implementation keeps vectors vectors: whatever the generated code for a vector template
    returns is a vector -/
theorem qq_vec_impl {F : Nat} {st st' : State} {env d : Nat} {xs : List Val} {p : Option Pos} {v : Val}
    (hs : Std st) (hb : CoreBound st env)
    (h : LispModel.evalLoop F st env (quasiquote (.vec xs p)) d = (.ok v, st')) :
    ∃ vs, v = .vec vs none := by
  have h5 := evalLoop_mono hs h (by intro h; cases h) (Nat.le_add_right F 5)
  rw [quasiquote.eq_1, vec_form hs hb] at h5
  rcases he : LispModel.eval (F+2) (addTicks 2 st) env (qqLoop xs) (d+1) with ⟨r1, s1⟩
  rw [he] at h5
  cases r1 with
  | ok a =>
    simp only at h5
    rcases hc : pureCall s1 "vec" [a] with ⟨r2, s2⟩
    rw [hc] at h5
    cases r2 with
    | ok r => cases h5; exact pureCall_vec_ok hc
    | err e => cases h5
    | oof => cases h5
  | err e => cases h5
  | oof => cases h5

/-- what the code generated by `quasiquote t` evaluates to, the specification says -/
theorem qq_code_only_subst' {env : Nat} {I : State → Prop}
    (hI : ∀ st, I st → CoreBound st env) {t : Val} {F' : Nat} {st s : State} {d : Nat} {r : Res Val}
    (hp : ∀ e ∈ qqExprs t, Preserves I env e) (hi : I st) (hs : Std st)
    (h : LispModel.evalLoop F' st env (quasiquote t) d = (r, s)) (hr : r ≠ .oof) :
    ∃ F st' k, qqSubst F env st t d = (r, st') ∧ s = addTicks k st' := by
  obtain ⟨F, st', k, h1, h2, _, _⟩ := qq_conv evalFacts env I hI t F' st d 0 r s hp hi hs h hr
  exact ⟨F, st', k, h1, h2⟩

/-- what the form `(quasiquote t)` evaluates to, the specification says -/
theorem qq_form_only_subst' {env : Nat} {I : State → Prop}
    (hI : ∀ st, I st → CoreBound st env) {t : Val} {F' : Nat} {st s : State} {d : Nat} {r : Res Val}
    {pq p : Option Pos} {rest : List Val}
    (hq : NotMacro st env "quasiquote")
    (hp : ∀ e ∈ qqExprs t, Preserves I env e) (hi : I st) (hs : Std st)
    (h : LispModel.evalLoop F' st env (.list (.sym "quasiquote" pq :: t :: rest) p) d = (r, s))
    (hr : r ≠ .oof) :
    ∃ F st' k, qqSubst F env st t d = (r, st') ∧ s = addTicks k st' := by
  have h2 := evalLoop_lift evalFacts hs h hr 2
  rw [evalLoop_quasiquote (poll_std hs.2) (functions_unaffected ((NotMacro_addTicks 1).2 hq)),
    continueWith_std (Std.tick hs).1] at h2
  obtain ⟨F, st', k, h1, h3, _, _⟩ := qq_conv evalFacts env I hI t (F'+1) st d 1 r s hp hi hs h2 hr
  exact ⟨F, st', k, h1, h3⟩

end LispModel.Proofs.QQ

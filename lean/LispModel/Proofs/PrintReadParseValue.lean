/-
  C06, reader level: `readForm` on the tokens of a printed data value gives back a structurally
  equal value (hash-maps and sets need pairwise different keys, as in `Data`).  Core Lean only.
-/
import LispModel.Spec.StructEq
import LispModel.Proofs.PrintReadParseAtoms
namespace LispModel.Proofs.PrintRead
open LispModel LispModel.Scan LispModel.Read LispModel.Print LispModel.Proofs.Reader

/-! ### rebuilding hash-maps and sets -/

/-- the elements `readList` returns for a hash-map: key, value, key, value, … -/
def kvVals (kvs : List (String × Val)) : List Val := kvs.flatMap (fun kv => [.str kv.1, kv.2])

theorem ainsert_fresh (k : String) (v : Val) (m : List (String × Val)) (h : k ∉ akeys m) :
    ainsert k v m = m ++ [(k, v)] := by
  induction m with
  | nil => rfl
  | cons kv m ih =>
    obtain ⟨k', v'⟩ := kv
    simp only [akeys, List.map_cons, List.mem_cons, not_or] at h
    have hne : ¬ k' = k := fun e => h.1 e.symm
    simp only [ainsert, if_neg hne, List.cons_append]
    rw [ih h.2]

theorem newHashMapLoop_fresh : ∀ (kvs m : List (String × Val)), (akeys kvs).Nodup →
    (∀ k ∈ akeys kvs, k ∉ akeys m) → newHashMapLoop (kvVals kvs) m = .ok (m ++ kvs) := by
  intro kvs
  induction kvs with
  | nil => intro m _ _; simp [kvVals, newHashMapLoop]
  | cons kv kvs ih =>
    intro m hnd hdis
    obtain ⟨k, v⟩ := kv
    simp only [akeys, List.map_cons, List.nodup_cons] at hnd
    have hk : k ∉ akeys m := hdis k (by simp [akeys])
    have e : kvVals ((k, v) :: kvs) = .str k :: v :: kvVals kvs := by simp [kvVals]
    rw [e, newHashMapLoop, ainsert_fresh k v m hk, ih _ hnd.2]
    · simp
    · intro k' hk' hin
      simp only [akeys, List.map_append, List.map_cons, List.map_nil, List.mem_append, List.mem_singleton] at hin
      rcases hin with hin | hin
      · exact hdis k' (by simp only [akeys, List.map_cons, List.mem_cons]; exact Or.inr hk') hin
      · subst hin; exact hnd.1 hk'

theorem kvVals_length (kvs : List (String × Val)) : (kvVals kvs).length = 2 * kvs.length := by
  induction kvs with
  | nil => rfl
  | cons kv kvs ih => simp [kvVals] at ih ⊢; omega

theorem newHashMap_fresh (kvs : List (String × Val)) (h : (akeys kvs).Nodup) :
    newHashMap (kvVals kvs) [] = .ok kvs := by
  unfold newHashMap
  rw [kvVals_length, if_neg (by omega), newHashMapLoop_fresh kvs [] h (by simp [akeys])]
  simp

theorem newSet_fresh : ∀ (ks s : List String), ks.Nodup → (∀ k ∈ ks, k ∉ s) →
    newSet (ks.map Val.str) s = .ok (s ++ ks) := by
  intro ks
  induction ks with
  | nil => intro s _ _; simp [newSet]
  | cons k ks ih =>
    intro s hnd hdis
    simp only [List.nodup_cons] at hnd
    have hk : k ∉ s := hdis k (by simp)
    have e : sinsert k s = s ++ [k] := by simp [sinsert, hk]
    rw [List.map_cons, newSet, e, ih _ hnd.2]
    · simp
    · intro k' hk' hin
      simp only [List.mem_append, List.mem_singleton] at hin
      rcases hin with hin | hin
      · exact hdis k' (by simp [hk']) hin
      · subst hin; exact hnd.1 hk'

/-! ### structural equality of the rebuilt collections -/

/-- same keys in the same order, structurally equal values -/
def MapRel : List (String × Val) → List (String × Val) → Prop
  | [], [] => True
  | (k, v) :: r, (k', v') :: r' => k = k' ∧ structEqB v v' = true ∧ MapRel r r'
  | _, _ => False

theorem MapRel.length_eq : ∀ {m1 m2 : List (String × Val)}, MapRel m1 m2 → m1.length = m2.length
  | [], [], _ => rfl
  | (_, _) :: r, (_, _) :: r', h => by
    have := MapRel.length_eq (m1 := r) (m2 := r') h.2.2
    simp [this]
  | [], _ :: _, h => by cases h
  | _ :: _, [], h => by cases h

theorem MapRel.keys_eq : ∀ {m1 m2 : List (String × Val)}, MapRel m1 m2 → akeys m1 = akeys m2
  | [], [], _ => rfl
  | (k, _) :: r, (k', _) :: r', h => by
    have := MapRel.keys_eq (m1 := r) (m2 := r') h.2.2
    simp only [akeys, List.map_cons] at this ⊢
    rw [this, h.1]
  | [], _ :: _, h => by cases h
  | _ :: _, [], h => by cases h

theorem MapRel.lookup : ∀ {m1 m2 : List (String × Val)}, MapRel m1 m2 → (akeys m1).Nodup →
    ∀ kv ∈ m1, ∃ w, alookup kv.1 m2 = some w ∧ structEqB kv.2 w = true
  | [], [], _, _ => by intro kv h; cases h
  | (k, v) :: r, (k', v') :: r', h, hnd => by
    obtain ⟨rfl, hv, hr⟩ := h
    simp only [akeys, List.map_cons, List.nodup_cons] at hnd
    intro kv hkv
    rcases List.mem_cons.mp hkv with rfl | hkv
    · exact ⟨v', by simp [alookup], hv⟩
    · have hne : ¬ k = kv.1 := by
        intro e; apply hnd.1; rw [e]; exact List.mem_map_of_mem hkv
      obtain ⟨w, hw, hs⟩ := MapRel.lookup hr hnd.2 kv hkv
      exact ⟨w, by simp only [alookup, if_neg hne]; exact hw, hs⟩
  | [], _ :: _, h, _ => by cases h
  | _ :: _, [], h, _ => by cases h

theorem structEqBMap_of (m2 : List (String × Val)) : ∀ (l : List (String × Val)),
    (∀ kv ∈ l, ∃ w, alookup kv.1 m2 = some w ∧ structEqB kv.2 w = true) → structEqBMap l m2 = true
  | [], _ => rfl
  | (k, v) :: r, h => by
    obtain ⟨w, hw, hs⟩ := h (k, v) (List.mem_cons_self ..)
    have hr := structEqBMap_of m2 r (fun kv hkv => h kv (List.mem_cons_of_mem _ hkv))
    show ((match alookup k m2 with
      | some w => structEqB v w
      | none => false) && structEqBMap r m2) = true
    simp only [] at hw
    rw [hw, hr]
    simp [hs]

theorem structEqB_map {m1 m2 : List (String × Val)} (h : MapRel m1 m2) (hnd : (akeys m1).Nodup) :
    structEqB (.map m1) (.map m2) = true := by
  show (m1.length == m2.length && structEqBMap m1 m2) = true
  rw [h.length_eq, structEqBMap_of m2 m1 (h.lookup hnd)]
  simp

theorem structEqB_set (s : List String) : structEqB (.set s) (.set s) = true := by
  show (s.length == s.length && s.all (fun k => s.contains k)) = true
  simp

/-! ### strings as elements, bracket tokens -/

theorem reads_readableStr (cfg : Cfg) (hphs : cfg.phs = none) (s : String) (h : readableStr s = true) (t : Token)
    (ht : ktOf t = strTok s) : Reads cfg [t] (.str s) ∧ FirstOk [t] := by
  unfold readableStr at h
  by_cases hkw : Val.isKwStr s = true
  · rw [if_pos hkw] at h; exact reads_kw cfg hphs s h t ht
  · exact reads_str cfg hphs s (by simpa using hkw) t ht

theorem tokStr_char {t : Token} {k : Kind} (c : Char) (h : ktOf t = (k, [c.toNat])) :
    tokStr t = String.ofList [c] :=
  tokStr_of_text (l := [c]) (ktOf_eq h).2

theorem split_bracketed {ts : List Token} {a b : KT} {body : List KT} (h : ts.map ktOf = a :: body ++ [b]) :
    ∃ tO tsB tC, ts = tO :: tsB ++ [tC] ∧ ktOf tO = a ∧ tsB.map ktOf = body ∧ ktOf tC = b := by
  rw [List.cons_append] at h
  obtain ⟨tO, r, rfl, h1, h2⟩ := List.map_eq_cons_iff.mp h
  obtain ⟨tsB, l2, rfl, h3, h4⟩ := List.map_eq_append_iff.mp h2
  obtain ⟨tC, rfl, h5⟩ := List.map_eq_singleton_iff.mp h4
  exact ⟨tO, tsB, tC, rfl, h1, h3, h5⟩

/-- the keys of a set -/
theorem read_setKeys (cfg : Cfg) (hphs : cfg.phs = none) : ∀ (ks : List String), ks.all readableStr = true →
    ∀ ts, ts.map ktOf = ks.map strTok → ReadsSeq cfg "}" ts (ks.map Val.str) := by
  intro ks
  induction ks with
  | nil =>
    intro _ ts h
    simp only [List.map_nil, List.map_eq_nil_iff] at h
    subst h
    exact readsSeq_nil cfg "}"
  | cons k ks ih =>
    intro hall ts h
    simp only [List.all_cons, Bool.and_eq_true] at hall
    obtain ⟨t, r, rfl, h1, h2⟩ := List.map_eq_cons_iff.mp h
    obtain ⟨hr, hf⟩ := reads_readableStr cfg hphs k hall.1 t h1
    exact readsSeq_cons (Or.inr (Or.inr rfl)) hr hf (ih hall.2 r h2)

/-! ### every readable data value -/

theorem firstOk_open {tO : Token} {r : List Token} {s : String} (h : tokStr tO = s)
    (n1 : s ≠ ")") (n2 : s ≠ "]") (n3 : s ≠ "}") : FirstOk (tO :: r) :=
  ⟨tO, r, rfl, by rw [h]; exact n1, by rw [h]; exact n2, by rw [h]; exact n3⟩

mutual
theorem read_val (cfg : Cfg) (hphs : cfg.phs = none) : (v : Val) → readableData v = true → Data v →
    ∀ ts : List Token, ts.map ktOf = toksOf v → ∃ v', Reads cfg ts v' ∧ FirstOk ts ∧ structEqB v v' = true
  | .nil, _, _, ts, h => by
    obtain ⟨t, rfl, ht⟩ := List.map_eq_singleton_iff.mp h
    obtain ⟨a, b⟩ := reads_nil cfg hphs t ht
    exact ⟨.nil, a, b, rfl⟩
  | .bool true, _, _, ts, h => by
    obtain ⟨t, rfl, ht⟩ := List.map_eq_singleton_iff.mp h
    obtain ⟨a, b⟩ := reads_true cfg hphs t ht
    exact ⟨.bool true, a, b, rfl⟩
  | .bool false, _, _, ts, h => by
    obtain ⟨t, rfl, ht⟩ := List.map_eq_singleton_iff.mp h
    obtain ⟨a, b⟩ := reads_false cfg hphs t ht
    exact ⟨.bool false, a, b, rfl⟩
  | .int i, hr, _, ts, h => by
    obtain ⟨t, rfl, ht⟩ := List.map_eq_singleton_iff.mp h
    have hi : -9223372036854775808 ≤ i ∧ i ≤ 9223372036854775807 := of_decide_eq_true hr
    obtain ⟨a, b⟩ := reads_int cfg hphs i hi t ht
    exact ⟨.int i, a, b, by show (i == i) = true; simp⟩
  | .str s, hr, _, ts, h => by
    obtain ⟨t, rfl, ht⟩ := List.map_eq_singleton_iff.mp h
    obtain ⟨a, b⟩ := reads_readableStr cfg hphs s hr t ht
    exact ⟨.str s, a, b, by show (s == s) = true; simp⟩
  | .sym s _, hr, _, ts, h => by
    obtain ⟨t, rfl, ht⟩ := List.map_eq_singleton_iff.mp h
    obtain ⟨pos, a, b⟩ := reads_sym cfg hphs s hr t ht
    exact ⟨.sym s pos, a, b, by show (s == s) = true; simp⟩
  | .list xs _, hr, hd, ts, h => by
    have hd' : ∀ x ∈ xs, Data x := by cases hd; assumption
    obtain ⟨tO, tsB, tC, rfl, hO, hB, hC⟩ := split_bracketed (a := (.char 40, [40])) (b := (.char 41, [41])) h
    have sO : tokStr tO = "(" := tokStr_char '(' hO
    have sC : tokStr tC = ")" := tokStr_char ')' hC
    obtain ⟨vs, hseq, heq⟩ := read_list cfg hphs xs hr hd' ")" (Or.inl rfl) tsB hB
    exact ⟨_, reads_open (shape_paren sO) sC hseq rfl,
      firstOk_open sO (by decide) (by decide) (by decide), heq⟩
  | .vec xs _, hr, hd, ts, h => by
    have hd' : ∀ x ∈ xs, Data x := by cases hd; assumption
    obtain ⟨tO, tsB, tC, rfl, hO, hB, hC⟩ := split_bracketed (a := (.char 91, [91])) (b := (.char 93, [93])) h
    have sO : tokStr tO = "[" := tokStr_char '[' hO
    have sC : tokStr tC = "]" := tokStr_char ']' hC
    obtain ⟨vs, hseq, heq⟩ := read_list cfg hphs xs hr hd' "]" (Or.inr (Or.inl rfl)) tsB hB
    exact ⟨_, reads_open (shape_brack sO) sC hseq rfl,
      firstOk_open sO (by decide) (by decide) (by decide), heq⟩
  | .map kvs, hr, hd, ts, h => by
    have hd' : (akeys kvs).Nodup ∧ ∀ kv ∈ kvs, Data kv.2 := by cases hd; exact ⟨by assumption, by assumption⟩
    obtain ⟨tO, tsB, tC, rfl, hO, hB, hC⟩ := split_bracketed (a := (.char 123, [123])) (b := (.char 125, [125])) h
    have sO : tokStr tO = "{" := tokStr_char '{' hO
    have sC : tokStr tC = "}" := tokStr_char '}' hC
    obtain ⟨kvs', hseq, hrel⟩ := read_map cfg hphs kvs hr hd'.2 tsB hB
    have hnd' : (akeys kvs').Nodup := by rw [← hrel.keys_eq]; exact hd'.1
    refine ⟨.map kvs', reads_open (shape_brace sO) sC hseq ?_,
      firstOk_open sO (by decide) (by decide) (by decide), structEqB_map hrel hd'.1⟩
    simp only [newHashMap_fresh kvs' hnd']
  | .set ks, hr, hd, ts, h => by
    have hd' : ks.Nodup := by cases hd; assumption
    obtain ⟨tO, tsB, tC, rfl, hO, hB, hC⟩ := split_bracketed (a := (.ident, [35, 123])) (b := (.char 125, [125])) h
    have sO : tokStr tO = "#{" := tokStr_of_text (l := ['#', '{']) (ktOf_eq hO).2
    have sC : tokStr tC = "}" := tokStr_char '}' hC
    have hseq := read_setKeys cfg hphs ks hr tsB hB
    refine ⟨.set ks, reads_open (shape_hashbrace sO) sC hseq ?_,
      firstOk_open sO (by decide) (by decide) (by decide), structEqB_set ks⟩
    simp only [newSet_fresh ks [] hd' (by simp), List.nil_append]
  | .fn .., h, _, _, _ => by cases h
  | .builtin _, h, _, _, _ => by cases h
  | .atom _, h, _, _, _ => by cases h
  | .future _, h, _, _, _ => by cases h
  | .goerr _, h, _, _, _ => by cases h
  | .opaque _, h, _, _, _ => by cases h
theorem read_list (cfg : Cfg) (hphs : cfg.phs = none) : (xs : List Val) → readableList xs = true →
    (∀ x ∈ xs, Data x) → ∀ closer, IsCloserStr closer → ∀ ts : List Token, ts.map ktOf = toksList xs →
    ∃ vs, ReadsSeq cfg closer ts vs ∧ structEqBList xs vs = true
  | [], _, _, closer, _, ts, h => by
    have : ts = [] := List.map_eq_nil_iff.mp h
    subst this
    exact ⟨[], readsSeq_nil cfg closer, rfl⟩
  | x :: xs, hr, hd, closer, hcl, ts, h => by
    have hr' : readableData x = true ∧ readableList xs = true := by
      have : (readableData x && readableList xs) = true := hr
      simpa using this
    have h' : ts.map ktOf = toksOf x ++ toksList xs := h
    obtain ⟨ts1, ts2, rfl, h1, h2⟩ := List.map_eq_append_iff.mp h'
    obtain ⟨v', hrd, hf, he⟩ := read_val cfg hphs x hr'.1 (hd x (List.mem_cons_self ..)) ts1 h1
    obtain ⟨vs, hseq, hes⟩ := read_list cfg hphs xs hr'.2 (fun y hy => hd y (List.mem_cons_of_mem _ hy))
      closer hcl ts2 h2
    refine ⟨v' :: vs, readsSeq_cons hcl hrd hf hseq, ?_⟩
    show (structEqB x v' && structEqBList xs vs) = true
    rw [he, hes]; rfl
theorem read_map (cfg : Cfg) (hphs : cfg.phs = none) : (kvs : List (String × Val)) → readableMap kvs = true →
    (∀ kv ∈ kvs, Data kv.2) → ∀ ts : List Token, ts.map ktOf = toksMap kvs →
    ∃ kvs', ReadsSeq cfg "}" ts (kvVals kvs') ∧ MapRel kvs kvs'
  | [], _, _, ts, h => by
    have : ts = [] := List.map_eq_nil_iff.mp h
    subst this
    exact ⟨[], readsSeq_nil cfg "}", trivial⟩
  | (k, v) :: kvs, hr, hd, ts, h => by
    have hr' : (readableStr k = true ∧ readableData v = true) ∧ readableMap kvs = true := by
      have : (readableStr k && readableData v && readableMap kvs) = true := hr
      simpa using this
    have h' : ts.map ktOf = strTok k :: (toksOf v ++ toksMap kvs) := h
    obtain ⟨tk, r, rfl, hk, h2⟩ := List.map_eq_cons_iff.mp h'
    obtain ⟨ts1, ts2, rfl, h3, h4⟩ := List.map_eq_append_iff.mp h2
    obtain ⟨hrk, hfk⟩ := reads_readableStr cfg hphs k hr'.1.1 tk hk
    obtain ⟨v', hrd, hf, he⟩ := read_val cfg hphs v hr'.1.2 (hd (k, v) (List.mem_cons_self ..)) ts1 h3
    obtain ⟨kvs', hseq, hrel⟩ := read_map cfg hphs kvs hr'.2 (fun kv hkv => hd kv (List.mem_cons_of_mem _ hkv))
      ts2 h4
    refine ⟨(k, v') :: kvs', ?_, ⟨rfl, he, hrel⟩⟩
    have e : kvVals ((k, v') :: kvs') = .str k :: v' :: kvVals kvs' := by simp [kvVals]
    rw [e]
    have := readsSeq_cons (Or.inr (Or.inr rfl)) hrk hfk (readsSeq_cons (Or.inr (Or.inr rfl)) hrd hf hseq)
    simpa using this
end

end LispModel.Proofs.PrintRead

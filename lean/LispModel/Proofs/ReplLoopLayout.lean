/-
  The REPL's line loop, tied to the TEXT: lines that end at token boundaries.

  §1  the reader's verdict depends on the kinds and texts of the tokens only (their positions only show up as
      cursors of the AST): token lists related by `TokEq` are read with the same error, or to ASTs that
      differ only in cursors;
  §2  the tokens of a prefix text that ends at a token boundary of the whole text are (`TokEq`) the tokens the
      token loop of the whole text has recorded when it arrives there (Proofs/LayoutFull.lean, phase 1);
  §3  hence: lines ending at token boundaries inside an open bracket are `OpenText`s, and the run over them
      evaluates the whole expression exactly once (`bracketed_expression_at_token_boundaries`).
  Core Lean only.
-/
import LispModel.ReplLoop
import LispModel.Proofs.ReplLoopLaws
import LispModel.Proofs.LayoutFull
import LispModel.Proofs.Positions
import LispModel.Proofs.PrintReadValue
import LispModel.Proofs.PrintReadSym
namespace LispModel.ReplLoop
open LispModel LispModel.Read LispModel.Scan
open LispModel.Proofs.Reader LispModel.Proofs.Positions LispModel.Proofs.EvalErase
open LispModel.Proofs.LayoutFull (AllRel Steps)

/-! ## §1 the reader looks at kinds and texts only -/

/-- same kind, same text (positions free) -/
def TokEq (t t' : Token) : Prop := t.kind = t'.kind ∧ t.text = t'.text

theorem tokEq_refl (t : Token) : TokEq t t := ⟨rfl, rfl⟩

theorem tokStr_of_tokEq {t t' : Token} (h : TokEq t t') : tokStr t' = tokStr t := by
  unfold tokStr; rw [h.2]

theorem allRel_refl : ∀ ts : List Token, AllRel TokEq ts ts
  | [] => .nil
  | t :: ts => .cons (tokEq_refl t) (allRel_refl ts)

theorem allRel_append {a a' b b' : List Token} (h1 : AllRel TokEq a a') (h2 : AllRel TokEq b b') :
    AllRel TokEq (a ++ b) (a' ++ b') := by
  induction h1 with
  | nil => exact h2
  | cons h _ ih => exact .cons h ih

theorem allRel_len {a a' : List Token} (h : AllRel TokEq a a') : a.length = a'.length := by
  induction h with
  | nil => rfl
  | cons _ _ ih => simp [ih]

theorem readAtom_tokEq (cfg : Cfg) {t t' : Token} (h : TokEq t t') :
    ExEq ValEq (readAtom cfg t) (readAtom cfg t') := by
  obtain ⟨k, tx, l, c, o⟩ := t
  obtain ⟨k', tx', l', c', o'⟩ := t'
  obtain ⟨h1, h2⟩ := h
  simp only at h1 h2
  subst h1 h2
  unfold readAtom
  simp only []
  split
  · split <;> rfl
  · split <;> rfl
  · split
    · rfl
    · split <;> rfl
  · rfl
  · split <;> rfl
  · split
    · rfl
    · split
      · rfl
      · split <;> rfl
  · rfl

/-- the two classifications of `TokEq` tokens: the same, up to cursors -/
inductive ShapeEq2 : Shape → Shape → Prop
  | rmacro (n : String) : ShapeEq2 (.rmacro n) (.rmacro n)
  | wmeta : ShapeEq2 .wmeta .wmeta
  | closer (s : String) : ShapeEq2 (.closer s) (.closer s)
  | opn (c : String) {k k' : List Val → Token → Except RErr Val} :
      (∀ xs xs' close close', ListEq xs xs' → ExEq ValEq (k xs close) (k' xs' close')) →
      ShapeEq2 (.opn c k) (.opn c k')
  | leaf {r r' : Except RErr Val} : ExEq ValEq r r' → ShapeEq2 (.leaf r) (.leaf r')

theorem shape_tokEq (cfg : Cfg) {t t' : Token} (h : TokEq t t') : ShapeEq2 (shape cfg t) (shape cfg t') := by
  unfold shape
  simp only []
  rw [tokStr_of_tokEq h, ← h.2]
  cases hL : List.lookup (tokStr t) readerMacros with
  | some name => exact .rmacro name
  | none =>
    simp only []
    by_cases h1 : tokStr t = "^"
    · rw [if_pos h1, if_pos h1]; exact .wmeta
    rw [if_neg h1, if_neg h1]
    by_cases h2 : tokStr t = ")"
    · rw [if_pos h2, if_pos h2]; exact .closer _
    rw [if_neg h2, if_neg h2]
    by_cases h3 : tokStr t = "]"
    · rw [if_pos h3, if_pos h3]; exact .closer _
    rw [if_neg h3, if_neg h3]
    by_cases h4 : tokStr t = "}"
    · rw [if_pos h4, if_pos h4]; exact .closer _
    rw [if_neg h4, if_neg h4]
    by_cases h5 : tokStr t = "("
    · rw [if_pos h5, if_pos h5]
      exact .opn _ (fun xs xs' close close' h => valEq_list _ _ h)
    rw [if_neg h5, if_neg h5]
    by_cases h6 : tokStr t = "["
    · rw [if_pos h6, if_pos h6]
      exact .opn _ (fun xs xs' close close' h => valEq_vec _ _ h)
    rw [if_neg h6, if_neg h6]
    by_cases h7 : tokStr t = "{"
    · rw [if_pos h7, if_pos h7]
      refine .opn _ (fun xs xs' close close' h => ?_)
      simp only [Read.newHashMap]
      rw [listEq_length h]
      by_cases hodd : xs'.length % 2 = 1
      · rw [if_pos hodd, if_pos hodd]; rfl
      · rw [if_neg hodd, if_neg hodd]
        have := newHashMapLoop_eq xs xs' [] [] h rfl
        cases h1 : Read.newHashMapLoop xs [] <;> cases h2 : Read.newHashMapLoop xs' [] <;>
          rw [h1, h2] at this <;> first | exact this.elim | skip
        · exact this
        · show ValEq (.map _) (.map _)
          unfold ValEq erasePos; simp only [mapPos]; rw [show mapPosMap _ _ = _ from this]
    rw [if_neg h7, if_neg h7]
    by_cases h8 : tokStr t = "#{"
    · rw [if_pos h8, if_pos h8]
      refine .opn _ (fun xs xs' close close' h => ?_)
      have := newSet_eq xs xs' [] h
      cases h1 : Read.newSet xs [] <;> cases h2 : Read.newSet xs' [] <;>
        rw [h1, h2] at this <;> first | exact this.elim | skip
      · exact this
      · show ValEq (.set _) (.set _)
        rw [show _ = _ from this]; rfl
    rw [if_neg h8, if_neg h8]
    by_cases h9 : tokStr t = "«"
    · rw [if_pos h9, if_pos h9]
      refine .opn _ (fun xs xs' close close' h => ?_)
      match xs, xs', h with
      | [], [], _ => rfl
      | [], _ :: _, h => exact absurd (listEq_length h) (by simp)
      | _ :: _, [], h => exact absurd (listEq_length h) (by simp)
      | a :: args, b :: args', h =>
        obtain ⟨hab, hr⟩ := listEq_cons_inv h
        by_cases hs : ∃ n p, a = .sym n p
        · obtain ⟨n, p, rfl⟩ := hs
          have : ∃ q, b = .sym n q := by
            unfold ValEq erasePos at hab
            cases b <;> simp [mapPos] at hab
            exact ⟨_, by rw [hab]⟩
          obtain ⟨q, rfl⟩ := this
          simp only []
          split
          · rfl
          · have := externCall_eq n hr
            cases h1 : externCall n args <;> cases h2 : externCall n args' <;>
              rw [h1, h2] at this <;> first | exact this.elim | exact this
        · have ha : ∀ n p, a ≠ .sym n p := fun n p e => hs ⟨n, p, e⟩
          have hb : ∀ n p, b ≠ .sym n p := by
            intro n p e; subst e
            unfold ValEq erasePos at hab
            cases a <;> simp [mapPos] at hab
            exact ha _ _ (by rw [hab])
          cases a <;> first | exact absurd rfl (ha _ _) | skip
          all_goals (cases b <;> first | exact absurd rfl (hb _ _) | rfl)
    rw [if_neg h9, if_neg h9]
    by_cases h10 : t.text.head? = some 36
    · rw [if_pos h10, if_pos h10]
      refine .leaf ?_
      cases cfg.phs <;> rfl
    rw [if_neg h10, if_neg h10]
    exact .leaf (readAtom_tokEq cfg h)

/-- outcomes of `readForm` on `TokEq` token lists: the same error, or values that differ only in cursors and
    `TokEq` unread tokens -/
def FormEq2 (r r' : Except RErr (Val × List Token)) : Prop :=
  ExEq (fun a b => ValEq a.1 b.1 ∧ AllRel TokEq a.2 b.2) r r'
def ListResEq2 (r r' : Except RErr (List Val × Token × List Token)) : Prop :=
  ExEq (fun a b => ListEq a.1 b.1 ∧ AllRel TokEq a.2.2 b.2.2) r r'

theorem reader_tokEq (cfg : Cfg) :
    ∀ f, (∀ ts ts', AllRel TokEq ts ts' → FormEq2 (readForm f cfg ts) (readForm f cfg ts')) ∧
      (∀ closer ts ts' acc acc', AllRel TokEq ts ts' → ListEq acc acc' →
        ListResEq2 (readList f cfg closer ts acc) (readList f cfg closer ts' acc')) := by
  intro f
  induction f with
  | zero =>
    exact ⟨fun ts ts' _ => by rw [readForm_zero, readForm_zero]; rfl,
      fun closer ts ts' acc acc' _ _ => by rw [readList_zero, readList_zero]; rfl⟩
  | succ f ih =>
    obtain ⟨ihF, ihL⟩ := ih
    constructor
    · intro ts ts' hts
      cases hts with
      | nil => rw [readForm_nil]; rfl
      | @cons t t' ts1 ts1' ht hrest0 =>
        rw [readForm_cons, readForm_cons]
        have hsh := shape_tokEq cfg ht
        generalize shape cfg t = sh1 at hsh ⊢
        generalize shape cfg t' = sh2 at hsh ⊢
        cases hsh with
        | rmacro name =>
          simp only []
          have h1 := ihF ts1 ts1' hrest0
          cases hr : readForm f cfg ts1 <;> cases hr' : readForm f cfg ts1' <;>
            rw [hr, hr'] at h1 <;> first | exact h1.elim | skip
          · exact h1
          · rename_i a b
            obtain ⟨form, rest⟩ := a
            obtain ⟨form', rest'⟩ := b
            obtain ⟨hv, hrest⟩ := h1
            exact ⟨valEq_list _ _ (listEq_cons (valEq_sym' _ _ _) (listEq_cons hv listEq_nil)), hrest⟩
        | wmeta =>
          simp only []
          have h1 := ihF ts1 ts1' hrest0
          cases hr : readForm f cfg ts1 <;> cases hr' : readForm f cfg ts1' <;>
            rw [hr, hr'] at h1 <;> first | exact h1.elim | skip
          · exact h1
          · rename_i a b
            obtain ⟨m, rest⟩ := a
            obtain ⟨m', rest'⟩ := b
            obtain ⟨hm, hrest⟩ := h1
            simp only [] at hrest hm ⊢
            have h2 := ihF rest rest' hrest
            cases hr2 : readForm f cfg rest <;> cases hr2' : readForm f cfg rest' <;>
              rw [hr2, hr2'] at h2 <;> first | exact h2.elim | skip
            · exact h2
            · rename_i a b
              obtain ⟨form, rest2⟩ := a
              obtain ⟨form', rest2'⟩ := b
              obtain ⟨hv, hrest2⟩ := h2
              exact ⟨valEq_list _ _ (listEq_cons (valEq_sym' _ _ _) (listEq_cons hv (listEq_cons hm listEq_nil))), hrest2⟩
        | closer s => rfl
        | opn c hk =>
          simp only []
          have h1 := ihL c ts1 ts1' [] [] hrest0 listEq_nil
          cases hr : readList f cfg c ts1 [] <;> cases hr' : readList f cfg c ts1' [] <;>
            rw [hr, hr'] at h1 <;> first | exact h1.elim | skip
          · exact h1
          · rename_i a b
            obtain ⟨xs, close, rest⟩ := a
            obtain ⟨xs', close', rest'⟩ := b
            obtain ⟨hx, hrest⟩ := h1
            simp only [] at hrest hx ⊢
            have h2 := hk xs xs' close close' hx
            rename_i k k'
            cases hkk : k xs close <;> cases hkk' : k' xs' close' <;>
              rw [hkk, hkk'] at h2 <;> first | exact h2.elim | skip
            · exact h2
            · exact ⟨h2, hrest⟩
        | leaf hr =>
          simp only []
          rename_i r r'
          cases r <;> cases r' <;> first | exact hr.elim | skip
          · exact hr
          · exact ⟨hr, hrest0⟩
    · intro closer ts ts' acc acc' hts hacc
      cases hts with
      | nil => rw [readList_nil]; rfl
      | @cons t t' ts1 ts1' ht hrest0 =>
        rw [readList_cons, readList_cons, tokStr_of_tokEq ht]
        by_cases hc : tokStr t = closer
        · rw [if_pos hc, if_pos hc]; exact ⟨listEq_reverse hacc, hrest0⟩
        · rw [if_neg hc, if_neg hc]
          have h1 := ihF (t :: ts1) (t' :: ts1') (.cons ht hrest0)
          cases hr : readForm f cfg (t :: ts1) <;> cases hr' : readForm f cfg (t' :: ts1') <;>
            rw [hr, hr'] at h1 <;> first | exact h1.elim | skip
          · exact h1
          · rename_i a b
            obtain ⟨v, rest⟩ := a
            obtain ⟨v', rest'⟩ := b
            obtain ⟨hv, hrest⟩ := h1
            exact ihL closer rest rest' (v :: acc) (v' :: acc') hrest (listEq_cons hv hacc)

/-- **the reader's verdict depends on kinds and texts only**: on `TokEq` token lists `readForm` fails with the
    same error, or succeeds on both with the same number of unread tokens -/
theorem readForm_tokEq (cfg : Cfg) (f : Nat) {ts ts' : List Token} (h : AllRel TokEq ts ts') :
    FormEq2 (readForm f cfg ts) (readForm f cfg ts') := (reader_tokEq cfg f).1 ts ts' h

/-- acceptance (one expression, nothing left) transfers along `TokEq` -/
theorem accepts_tokEq (cfg : Cfg) {ts ts' : List Token} (h : AllRel TokEq ts ts')
    (ha : ∃ v, readForm (2 * ts.length + 2) cfg ts = .ok (v, [])) :
    ∃ v, readForm (2 * ts'.length + 2) cfg ts' = .ok (v, []) := by
  obtain ⟨v, hv⟩ := ha
  have := readForm_tokEq cfg (2 * ts.length + 2) h
  rw [hv, allRel_len h] at this
  cases hr : readForm (2 * ts'.length + 2) cfg ts' with
  | error e => rw [hr] at this; exact this.elim
  | ok r =>
    rw [hr] at this
    obtain ⟨v', rest'⟩ := r
    obtain ⟨_, h2⟩ := this
    cases h2
    exact ⟨v', rfl⟩

/-! ## §2 the tokens of a prefix that ends at a token boundary -/

open LispModel.Proofs.LayoutFull LispModel.Proofs.Layout in
/-- Text A = `pre ++ xA` (`xA` not empty), text B = `pre` alone.  If the token loop on A passes through the state
    in which it has just read the first rune of `xA`, having recorded `tsPre` (so `pre` ends where a token ends),
    and `pre` alone tokenizes without error, then the tokens of `pre` are `tsPre`, up to positions. -/
theorem prefix_tokens (pre xA : List Rune) (hxA : xA ≠ []) (hbom : pre ≠ [] ∨ hdCh xA ≠ 0xFEFF)
    {tsPre : List Token} {fin : St} (H : Steps (start (pre ++ xA)) tsPre fin)
    (hf1 : fin.1 = hdCh xA) (hf2 : fin.2.1 = xA.tail) {tB : List Token}
    (hB : tokenizeRunes pre = .ok tB) : AllRel TokEq tsPre tB := by
  have hns : ¬ Same xA [] := fun h => hxA h.1
  have C := ctx1 xA [] stop_hd_nil
  have hl0 := start_live C pre hbom
  rw [List.append_nil] at hl0
  rw [tokenizeRunes_eq] at hB
  have hT1 : ∀ k text p q, PR1 p q → TokEq (tokOf k text p) (tokOf k text q) :=
    fun _ _ _ _ _ => ⟨rfl, rfl⟩
  have hT2 : ∀ k text p q, PRat1 xA [] p q → TokEq (tokOf k text p) (tokOf k text q) :=
    fun _ _ _ _ _ => ⟨rfl, rfl⟩
  obtain ⟨ts', finB, eB, _, hat, hrel⟩ :=
    phase1 C hns TokEq hT1 hT2 H _ hl0 hf1 hf2 _ [] tB (start_measure _) hB
  obtain ⟨_, _, _, b1, b2, p0, _, _, epB⟩ := hat
  have efinB : finB = atSt [] p0 := by
    obtain ⟨c, r, q⟩ := finB
    dsimp only at b1 b2 epB
    subst b1 b2 epB; rfl
  rw [efinB, List.append_nil, show pre.length + 2 = (pre.length + 1) + 1 from rfl, tokLoop_at_end] at eB
  simp only [TokResult.ok.injEq, List.reverse_reverse] at eB
  rw [← eB]; exact hrel

/-! ## §3 lines that end at token boundaries -/

open LispModel.Proofs.PrintRead (runesOf runeOf toUTF8_eq decodeAll_utf8)

/-- the tokenizer on the bytes of a string = the token loop on its characters -/
theorem tokenize_string (s : String) : tokenize s.toUTF8.toList = tokenizeRunes (runesOf s.toList) := by
  rw [tokenize, toUTF8_eq, decodeAll_utf8]

/-- **the end of `a` is a token boundary of the text `a ++ "\n" ++ b`**: the token loop on the whole text arrives,
    having recorded the tokens `ts` without error, in the state in which it has just read that line break
    (look-ahead = the line break, unread = `b`).  This is how C17 / C19 say "`pre` ends where a token ends";
    a line break inside a string or raw-string token is not such a point. -/
def LineEndsAtToken (a b : String) (ts : List Token) : Prop :=
  ∃ fin, Steps (start (runesOf a.toList ++ runesOf ('\n' :: b.toList))) ts fin ∧
    fin.1 = 10 ∧ fin.2.1 = runesOf b.toList

theorem toList_line_break (a b : String) : (a ++ "\n" ++ b).toList = a.toList ++ '\n' :: b.toList := by
  simp [String.toList_append]

/-- the tokens recorded up to a line end are a prefix of the tokens of the whole text -/
theorem boundary_tokens_prefix {a b : String} {ts tA : List Token} (h : LineEndsAtToken a b ts)
    (hA : tokenize (a ++ "\n" ++ b).toUTF8.toList = .ok tA) : ∃ rest, tA = ts ++ rest := by
  obtain ⟨fin, H, _, _⟩ := h
  rw [tokenize_string, toList_line_break, Proofs.LayoutFull.tokenizeRunes_eq] at hA
  have e : runesOf (a.toList ++ '\n' :: b.toList) = runesOf a.toList ++ runesOf ('\n' :: b.toList) := by
    simp [runesOf]
  rw [e] at hA
  obtain ⟨eA, _⟩ := Proofs.LayoutFull.tokLoop_steps H _ [] (Proofs.LayoutFull.start_measure _)
  rw [eA] at hA
  obtain ⟨l', hl⟩ := Proofs.PrintRead.tokLoop_prefix _ _ _ _ _ _ hA
  exact ⟨l', by simpa using hl⟩

/-- a prefix text that ends at a token boundary of the whole text, tokenizes, and whose tokens SO FAR (as recorded
    by the token loop of the whole text) are none or are completed by closing brackets alone, is an `OpenText` -/
theorem openText_of_boundary {a b : String} {ts tB : List Token} (hb : LineEndsAtToken a b ts)
    (hpre : tokenize a.toUTF8.toList = .ok tB)
    (hacc : ts = [] ∨ ∃ c cs, IsCloser c = true ∧ (∀ t ∈ cs, IsCloser t = true) ∧
      ∃ v, readForm (2 * (ts ++ c :: cs).length + 2) replCfg (ts ++ c :: cs) = .ok (v, [])) :
    OpenText a := by
  obtain ⟨fin, H, hf1, hf2⟩ := hb
  have hrel : AllRel TokEq ts tB := by
    rw [tokenize_string] at hpre
    refine prefix_tokens (runesOf a.toList) (runesOf ('\n' :: b.toList)) (by simp [runesOf]) (.inr ?_) H ?_ ?_ hpre
    · show Proofs.LayoutFull.hdCh (runeOf '\n' :: runesOf b.toList) ≠ 0xFEFF
      show (Int.ofNat (runeOf '\n').ch) ≠ 0xFEFF
      decide
    · rw [hf1]; rfl
    · rw [hf2]; rfl
  refine ⟨tB, hpre, ?_⟩
  rcases hacc with rfl | ⟨c, cs, hc, hcs, hwf⟩
  · left; cases hrel; rfl
  · right
    exact ⟨c, cs, hc, hcs, accepts_tokEq replCfg (allRel_append hrel (allRel_refl _)) hwf⟩

theorem joinLines_append : ∀ (xs ys : List String), xs ≠ [] → ys ≠ [] →
    joinLines (xs ++ ys) = joinLines xs ++ "\n" ++ joinLines ys
  | [], _, h, _ => absurd rfl h
  | [a], b :: r, _, _ => rfl
  | [_], [], _, h => absurd rfl h
  | a :: a2 :: r, ys, _, hy => by
    have ih := joinLines_append (a2 :: r) ys (by simp) hy
    show a ++ "\n" ++ joinLines (a2 :: r ++ ys) = a ++ "\n" ++ joinLines (a2 :: r) ++ "\n" ++ joinLines ys
    rw [ih]; simp [String.append_assoc]

/-- the whole text of the lines = the first `k` lines, a line break, the remaining lines -/
theorem whole_text_split (ls : List String) (last : String) (k : Nat) (h1 : 0 < k) (h2 : k ≤ ls.length) :
    joinLines ((ls ++ [last]).map trimSpace) =
      joinLines ((ls.take k).map trimSpace) ++ "\n" ++ joinLines (((ls ++ [last]).drop k).map trimSpace) := by
  have e : (ls ++ [last]).map trimSpace =
      (ls.take k).map trimSpace ++ ((ls ++ [last]).drop k).map trimSpace := by
    rw [← List.map_append, ← List.take_append_of_le_length h2, List.take_append_drop]
  have n1 : (ls.take k).map trimSpace ≠ [] := by
    cases ls with
    | nil => simp at h2; omega
    | cons a r => cases k with
      | zero => omega
      | succ k => simp
  have n2 : ((ls ++ [last]).drop k).map trimSpace ≠ [] := by
    intro h
    have := congrArg List.length h
    simp at this
    omega
  conv => lhs; rw [e]
  exact joinLines_append _ _ n1 n2

/-- **a bracketed expression laid out over lines that end at token boundaries** (text-level form of
    `bracketed_expression_over_lines`).  ASSUMED, for every proper non-empty prefix (the first `k` lines):
    * the end of line `k` is a token boundary of the WHOLE text (`LineEndsAtToken`; `toks k` = the tokens the
      token loop of the whole text has recorded there — a prefix of its tokens, `boundary_tokens_prefix`);
    * the first `k` lines alone tokenize without error;
    * `toks k` is empty (blank lines, comments) or is completed to one well-formed expression by closing brackets
      alone (we are inside an open bracket; no reader macro / map key is waiting for its operand);
    and the whole text reads as `ast`.  THEN nothing is printed or evaluated before the last line and `ast` is
    evaluated exactly once, in the environment as it was. -/
theorem bracketed_expression_at_token_boundaries (st : State) (ls : List String) (last : String) (ast : Val)
    (toks : Nat → List Token)
    (hbound : ∀ k, 0 < k → k ≤ ls.length →
      LineEndsAtToken (joinLines ((ls.take k).map trimSpace))
        (joinLines (((ls ++ [last]).drop k).map trimSpace)) (toks k))
    (hpre : ∀ k, 0 < k → k ≤ ls.length →
      ∃ tB, tokenize (joinLines ((ls.take k).map trimSpace)).toUTF8.toList = .ok tB)
    (hopen : ∀ k, 0 < k → k ≤ ls.length →
      toks k = [] ∨ ∃ c cs, IsCloser c = true ∧ (∀ t ∈ cs, IsCloser t = true) ∧
        ∃ v, readForm (2 * (toks k ++ c :: cs).length + 2) replCfg (toks k ++ c :: cs) = .ok (v, []))
    (hread : replRead (joinLines ((ls ++ [last]).map trimSpace)) = .ok ast) :
    run st (ls ++ [last]) =
      ((finish ((ls ++ [last]).map trimSpace) (replEvalPrint st ast)).1,
       (ls.map fun _ => Out.none) ++ [(finish ((ls ++ [last]).map trimSpace) (replEvalPrint st ast)).2]) := by
  refine bracketed_expression_over_lines st ls last ast (fun k h1 h2 => ?_) hread
  obtain ⟨tB, htB⟩ := hpre k h1 h2
  exact openText_of_boundary (hbound k h1 h2) htB (hopen k h1 h2)

/-! ### non-vacuity: executable checks of the hypotheses -/

open LispModel.Proofs.LayoutFull (tokOf) in
/-- `n` iterations of the token loop, none of them with an error -/
def runSteps : Nat → St → Option (List Token × St)
  | 0, s => some ([], s)
  | n + 1, s =>
    match scan (s.2.1.length + 2) s.2.1 s.1 s.2.2 with
    | (some (k, text), s') =>
      if s'.2.2.errs = 0 then
        match runSteps n s' with
        | some (ts, fin) => some (tokOf k text s'.2.2 :: ts, fin)
        | none => none
      else none
    | (none, _) => none

theorem runSteps_sound : ∀ (n : Nat) (s : St) (ts : List Token) (fin : St),
    runSteps n s = some (ts, fin) → Steps s ts fin
  | 0, s, ts, fin, h => by
    simp only [runSteps, Option.some.injEq, Prod.mk.injEq] at h
    obtain ⟨rfl, rfl⟩ := h
    exact .refl _
  | n + 1, s, ts, fin, h => by
    unfold runSteps at h
    split at h
    · rename_i k text s' hs
      split at h
      · rename_i he
        split at h
        · rename_i ts' fin' hr
          simp only [Option.some.injEq, Prod.mk.injEq] at h
          obtain ⟨rfl, rfl⟩ := h
          exact .step hs he (runSteps_sound n s' ts' _ hr)
        · cases h
      · cases h
    · cases h

/-- the token loop of `a ++ "\n" ++ b` after `n` tokens -/
def atBoundary (a b : String) (n : Nat) : Option (List Token × St) :=
  runSteps n (start (runesOf a.toList ++ runesOf ('\n' :: b.toList)))

def boundaryToks (a b : String) (n : Nat) : List Token :=
  match atBoundary a b n with
  | some (ts, _) => ts
  | none => []

def lineEndsB (a b : String) (n : Nat) : Bool :=
  match atBoundary a b n with
  | some (_, fin) => decide (fin.1 = 10) && decide (fin.2.1 = runesOf b.toList)
  | none => false

theorem lineEndsB_sound (a b : String) (n : Nat) (h : lineEndsB a b n = true) :
    LineEndsAtToken a b (boundaryToks a b n) := by
  unfold lineEndsB at h
  unfold boundaryToks
  split at h
  · rename_i ts fin hr
    rw [Bool.and_eq_true, decide_eq_true_eq, decide_eq_true_eq] at h
    exact ⟨fin, runSteps_sound _ _ _ _ hr, h.1, h.2⟩
  · cases h

def closableB (ts : List Token) (closers : List Char) : Bool :=
  ts.isEmpty ||
  (match closers.map closerTok with
   | [] => false
   | c :: cs =>
     (c :: cs).all IsCloser &&
     (match readForm (2 * (ts ++ c :: cs).length + 2) replCfg (ts ++ c :: cs) with
      | .ok (_, []) => true
      | _ => false))

theorem closableB_sound (ts : List Token) (closers : List Char) (h : closableB ts closers = true) :
    ts = [] ∨ ∃ c cs, IsCloser c = true ∧ (∀ t ∈ cs, IsCloser t = true) ∧
      ∃ v, readForm (2 * (ts ++ c :: cs).length + 2) replCfg (ts ++ c :: cs) = .ok (v, []) := by
  unfold closableB at h
  rcases Bool.or_eq_true _ _ |>.mp h with h | h
  · left; simpa using h
  · right
    split at h
    · cases h
    · rename_i c cs _
      rw [Bool.and_eq_true] at h
      obtain ⟨hall, hr⟩ := h
      rw [List.all_cons, Bool.and_eq_true] at hall
      refine ⟨c, cs, hall.1, fun t ht => List.all_eq_true.mp hall.2 t ht, ?_⟩
      split at hr
      · rename_i v hv; exact ⟨v, hv⟩
      · cases hr

/-- the session `(+ 1` ⏎ `  (* 2` ⏎ `3))`: both line ends are token boundaries of the whole text (after 3 resp. 5
    tokens), the tokens recorded there are completed by `)` resp. `))`, the prefixes tokenize — the hypotheses of
    `bracketed_expression_at_token_boundaries` hold — and the run prints exactly the value 7 -/
theorem example_at_token_boundaries :
    LineEndsAtToken "(+ 1" "(* 2\n3))" (boundaryToks "(+ 1" "(* 2\n3))" 3) ∧
    LineEndsAtToken "(+ 1\n(* 2" "3))" (boundaryToks "(+ 1\n(* 2" "3))" 6) ∧
    (boundaryToks "(+ 1" "(* 2\n3))" 3).length = 3 ∧ (boundaryToks "(+ 1\n(* 2" "3))" 6).length = 6 ∧
    closableB (boundaryToks "(+ 1" "(* 2\n3))" 3) [')'] = true ∧
    closableB (boundaryToks "(+ 1\n(* 2" "3))" 6) [')', ')'] = true ∧
    observation (run initState (["(+ 1", "  (* 2"] ++ ["3))"])).2 = "V37" := by
  refine ⟨lineEndsB_sound _ _ _ (by decide +kernel), lineEndsB_sound _ _ _ (by decide +kernel), ?_, ?_, ?_, ?_, ?_⟩ <;>
    decide +kernel

/-- a line break inside a string token is NOT a token boundary: after the tokens `(`, `str` the loop is not at the
    line break, and after one more scan it has recorded an error -/
theorem example_not_a_boundary :
    lineEndsB "(str \"ab" "cd\")" 2 = false ∧ lineEndsB "(str \"ab" "cd\")" 3 = false := by
  refine ⟨?_, ?_⟩ <;> decide +kernel

end LispModel.ReplLoop

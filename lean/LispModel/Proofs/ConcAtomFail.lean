/-
  C09 proofs, part 11: a `swap!` whose update function failed never writes: from the failure to its
  return the frame is `returning`, and a returning frame only runs deferred unlocks and pops.
-/
import LispModel.Proofs.ConcAtomLog
namespace LispModel.Proofs.ConcAtom
open LispModel.Conc

theorem failed_is_returning {s : State} (hL : LockInv s) {t : Nat} {fr : Frame} {rest : List Frame}
    (hst : (s.threads t).stack = fr :: rest) (hf : fr.failed = true) : fr.returning = true := by
  have hwf := hL.wf t
  rw [hst] at hwf
  have h1 := hwf.1
  unfold FrameWF at h1
  cases hr : fr.returning
  · simp only [hr] at h1; rw [h1.2.2] at hf; cases hf
  · rfl

/-- a step of a thread whose top frame is returning changes no `Val` and no `version` -/
theorem returning_step_keeps_data {s s' : State} {t : Nat} {fr : Frame} {rest : List Frame}
    (hL : LockInv s) (hst : (s.threads t).stack = fr :: rest) (hr : fr.returning = true)
    (hs : step prog s t = some s') (a : Nat) :
    (s'.atoms a).val = (s.atoms a).val ∧ (s'.atoms a).ver = (s.atoms a).ver := by
  by_cases hne : (s'.atoms a).val ≠ (s.atoms a).val ∨ (s'.atoms a).ver ≠ (s.atoms a).ver
  · exfalso
    -- the only writers are `write` micro-ops of non-returning frames
    have hk := step_kind hs
    cases hk with
    | start op more hst' htd => rw [hst] at hst'; cases hst'
    | finish fr0 hst' hr' hd => simp at hne
    | popOk fr0 par rest' v hst' hr' hd hv => rw [setTop_noatom] at hne; simp at hne
    | popFail fr0 par rest' hst' hr' hd hv => rw [setTop_noatom] at hne; simp at hne
    | cbApp fr0 rest0 a' f hst' hnr hm hop => rw [hst] at hst'; cases hst'; rw [hr] at hnr; cases hnr
    | cbFail fr0 rest0 a' hst' hnr hm hop => rw [hst] at hst'; cases hst'; rw [hr] at hnr; cases hnr
    | cbDeref fr0 rest0 a' b hst' hnr hm hop => rw [hst] at hst'; cases hst'; rw [hr] at hnr; cases hnr
    | cbSwap fr0 rest0 a' b g hst' hnr hm hop => rw [hst] at hst'; cases hst'; rw [hr] at hnr; cases hnr
    | mop fr0 rest0 m fr' A' hst' hnr hm hcb hex => rw [hst] at hst'; cases hst'; rw [hr] at hnr; cases hnr
    | defer fr0 rest0 d ds fr1 A' hst' hr' hd hex =>
      have hopa : ({ fr1 with pc := fr0.pc } : Frame).op.atom = fr0.op.atom := by
        have := (execM_eff hex).1; simp at this; simp [this]
      obtain ⟨-, d2, -, d4, -⟩ := execM_data hex
      have hwf := hL.wf t
      rw [hst'] at hwf
      obtain ⟨-, hdd⟩ := returning_defers hwf.1 hr' hd
      have n1 : d ≠ .write .val := by rcases hdd with h | h <;> rw [h] <;> simp
      have n2 : d ≠ .write .ver := by rcases hdd with h | h <;> rw [h] <;> simp
      by_cases ha : a = fr0.op.atom
      · subst ha; rw [setTop_atoms_eq _ _ _ _ _ _ hopa, d2 n1, d4 n2] at hne; simp at hne
      · rw [setTop_atoms_ne _ _ _ _ _ _ hopa ha] at hne; simp at hne
  · simp only [not_or, Decidable.not_not] at hne; exact hne

theorem failed_update_leaves_atom {s s' : State} {t : Nat} {fr : Frame} {rest : List Frame}
    (hL : LockInv s) (hst : (s.threads t).stack = fr :: rest) (hf : fr.failed = true)
    (hs : step prog s t = some s') (a : Nat) :
    (s'.atoms a).val = (s.atoms a).val ∧ (s'.atoms a).ver = (s.atoms a).ver :=
  returning_step_keeps_data hL hst (failed_is_returning hL hst hf) hs a

end LispModel.Proofs.ConcAtom

/-
  History of findings D13/D14/D15, frozen: the facts the extractor produced from
  lib/concurrent/concurrent.go BEFORE the repairs (commits ec93805, 21543a0, c041a83), compared with
  the baseline programs of Conc.lean about which the counterexamples of Proofs/ConcBaseline.lean are
  proved.  Does not depend on the current source (replaces the former Tie/SyncBaseline.lean).
-/
import LispModel.Conc
namespace LispModel.Proofs.ConcBaselineFacts
open LispModel.Conc

/-- frozen copy of `Generated.Sync.program` on the unrepaired tree -/
def frozenProgram : OpName → Program
  | .swap => [.lock .atomRW, .deferUnlock .atomRW, .read .val, .callback, .write .val, .ret]
  | .reset => [.lock .atomRW, .deferUnlock .atomRW, .write .val, .ret]
  | .deref => [.rlock .atomRW, .deferRUnlock .atomRW, .read .val, .ret]
  | .print => [.read .val, .ret]
  | .newFuture => [.mkChans, .spawn, .ret]
  | .body => [.deferWrite .done, .callBody, .send, .ret]
  | .cancel => [.brTrue .done 4, .write .cancelled, .write .done, .cancelCtx, .read .cancelled, .ret]
  | .derefF => [.selectRecv, .resend, .ret]
  | .isDone => [.read .done, .ret]
  | .isCancelled => [.read .cancelled, .ret]

/-- frozen copy of `Generated.Sync.accesses` on the unrepaired tree -/
def frozenAccesses : List Access := [
  { fn := .swap, loc := .val, isWrite := false, held := [.w .atomRW] },
  { fn := .swap, loc := .val, isWrite := true, held := [.w .atomRW] },
  { fn := .reset, loc := .val, isWrite := true, held := [.w .atomRW] },
  { fn := .deref, loc := .val, isWrite := false, held := [.r .atomRW] },
  { fn := .print, loc := .val, isWrite := false, held := [] },
  { fn := .body, loc := .done, isWrite := true, held := [] },
  { fn := .cancel, loc := .done, isWrite := false, held := [] },
  { fn := .cancel, loc := .cancelled, isWrite := true, held := [] },
  { fn := .cancel, loc := .done, isWrite := true, held := [] },
  { fn := .cancel, loc := .cancelled, isWrite := false, held := [] },
  { fn := .isDone, loc := .done, isWrite := false, held := [] },
  { fn := .isCancelled, loc := .cancelled, isWrite := false, held := [] }]

/-- frozen copy of `Generated.Sync.callouts` on the unrepaired tree -/
def frozenCallouts : List (OpName × List Held) := [(.swap, [.w .atomRW]), (.body, [])]

theorem program_tie_baseline : ∀ n, frozenProgram n = progBaseline n := by
  intro n; cases n <;> decide

/-- the unguarded accesses of the unrepaired source: D14 (`LispPrint`) and D15 (all flag accesses) -/
theorem unguarded_accesses_baseline :
    (frozenAccesses.filter fun a => !a.guarded).map (fun a => (a.fn, a.loc, a.isWrite)) =
      [(.print, .val, false), (.body, .done, true), (.cancel, .done, false), (.cancel, .cancelled, true),
       (.cancel, .done, true), (.cancel, .cancelled, false), (.isDone, .done, false),
       (.isCancelled, .cancelled, false)] := by decide

/-- D13: `swap!` called the update function with the atom's write lock held -/
theorem callout_under_write_lock_baseline : frozenCallouts = [(.swap, [.w .atomRW]), (.body, [])] := rfl

end LispModel.Proofs.ConcBaselineFacts

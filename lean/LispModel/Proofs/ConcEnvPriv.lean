/-
  C11 proofs, part 4: privacy of fresh scopes.  When every evaluation only names the root and scopes it
  created itself (no scope is published to another evaluation through a closure stored in a global, an
  atom or a future), a frame only ever sits on the root or on a scope of its own thread.
-/
import LispModel.Proofs.ConcEnvRace
namespace LispModel.Proofs.ConcEnv
open LispModel.ConcEnv
open LispModel.Conc (upd)

/-- scope `sc` is the root or was created by thread `t` -/
def Own (t : Nat) (sc : Sid) : Prop := sc = none ∨ ∃ i, sc = some (t, i)

/-- the evaluation only ever names the root and its own scopes as the target of an operation -/
def ConfinedScopes (t : Nat) (strat : List ERes → Option EOp) : Prop :=
  ∀ hist op, strat hist = some op → Own t op.scope

theorem exec_keeps {t m fr A fr' A'} (h : exec t m fr A = some (fr', A')) :
    fr'.newId = fr.newId ∧ fr'.key = fr.key ∧ fr'.m = fr.m ∧ fr'.binds = fr.binds := by
  cases m with
  | rlock => simp [exec] at h; obtain ⟨-, h2, -⟩ := h; subst h2; simp
  | lock => simp [exec] at h; obtain ⟨-, h2, -⟩ := h; subst h2; simp
  | readHit => simp only [exec] at h; split at h <;> (simp at h; obtain ⟨h2, -⟩ := h; subst h2; simp)
  | readMiss => simp only [exec] at h; split at h <;> (simp at h; obtain ⟨h2, -⟩ := h; subst h2; simp)
  | callOuter n => simp only [exec] at h; split at h <;> (simp at h; obtain ⟨h2, -⟩ := h; subst h2; simp)
  | deferRUnlock | deferUnlock | readVal | callback | writeData | deleteData | setOuter | bindLoop | ret =>
    simp [exec] at h; obtain ⟨h2, -⟩ := h; subst h2; simp
  | _ => simp [exec] at h

structure PrivInv (s : EState) : Prop where
  strat : ∀ t, ConfinedScopes t (s.threads t).strat
  cur : ∀ t fr, (s.threads t).cur = some fr → Own t fr.cur ∧ (∀ d ∈ fr.defers, Own t d.2) ∧
    (fr.m = .newScope → (fr.pc = 0 ∧ fr.returning = false) ∨ ∃ i, fr.newId = some (t, i))
  outer : ∀ sc p, (s.scopes sc).outer = some p → ∃ t i, sc = some (t, i) ∧ Own t p

theorem execDefer_outer (t : Nat) (d : EMOp) (A : ScopeS) :
    (execDefer t d A).outer = A.outer ∧ (execDefer t d A).data = A.data ∧ (execDefer t d A).live = A.live := by
  cases d <;> simp [execDefer]

theorem PrivInv.step {s s' : EState} {t : Nat} (h : PrivInv s) (hs : step s t = some s') : PrivInv s' := by
  have hk := step_kind hs
  have hth : ∀ u, u ≠ t → s'.threads u = s.threads u := fun u hu => step_other_thread hs hu
  -- it suffices to treat thread t's new frame and the scopes
  have gen : (s'.threads t).strat = (s.threads t).strat →
      (∀ fr, (s'.threads t).cur = some fr → Own t fr.cur ∧ (∀ d ∈ fr.defers, Own t d.2) ∧
        (fr.m = .newScope → (fr.pc = 0 ∧ fr.returning = false) ∨ ∃ i, fr.newId = some (t, i))) →
      (∀ sc p, (s'.scopes sc).outer = some p → ∃ t i, sc = some (t, i) ∧ Own t p) → PrivInv s' := by
    intro h1 h2 h3
    constructor
    · intro u
      by_cases hu : u = t
      · subst hu; rw [h1]; exact h.strat u
      · rw [hth u hu]; exact h.strat u
    · intro u fr hc
      by_cases hu : u = t
      · subst hu; exact h2 fr hc
      · rw [hth u hu] at hc; exact h.cur u fr hc
    · exact h3
  cases hk with
  | start op hc hsr hl =>
    apply gen (by simp [upd])
    · intro fr hfr; simp [upd] at hfr; subst hfr
      have := h.strat t _ op hsr
      cases op <;> simp_all [EOp.frame, EOp.scope]
    · exact h.outer
  | finish fr hc hr hd hm =>
    apply gen (by simp [upd])
    · intro fr' hfr; simp [upd] at hfr
    · exact h.outer
  | defer fr d sc0 ds hc hr hd =>
    obtain ⟨c1, c2, c3⟩ := h.cur t fr hc
    apply gen (by simp [upd])
    · intro fr' hfr; simp [upd] at hfr; subst hfr
      refine ⟨c1, fun d' hd' => c2 d' (by rw [hd]; simp [hd']), ?_⟩
      intro hm; rcases c3 hm with ⟨-, c⟩ | c
      · rw [hr] at c; cases c
      · exact Or.inr c
    · intro sc p hp
      by_cases hsc : sc = sc0
      · subst hsc; simp only [updS_same, (execDefer_outer t d _).1] at hp; exact h.outer sc p hp
      · simp only [updS_other _ _ hsc] at hp; exact h.outer sc p hp
  | alloc fr hc hnr hm =>
    obtain ⟨c1, c2, -⟩ := h.cur t fr hc
    apply gen (by simp [upd])
    · intro fr' hfr; simp [upd] at hfr; subst hfr
      exact ⟨c1, c2, fun _ => Or.inr ⟨_, rfl⟩⟩
    · exact h.outer
  | install fr hc hr hd hm =>
    obtain ⟨c1, -, c3⟩ := h.cur t fr hc
    apply gen (by simp [upd])
    · intro fr' hfr; simp [upd] at hfr
    · intro sc p hp
      by_cases hsc : sc = fr.newId
      · subst hsc
        simp at hp; subst hp
        rcases c3 hm with ⟨-, c⟩ | ⟨i, c⟩
        · rw [hr] at c; cases c
        · exact ⟨t, i, c, c1⟩
      · simp only [updS_other _ _ hsc] at hp; exact h.outer sc p hp
  | mop fr m fr' A' hc hnr hm hna hex =>
    obtain ⟨c1, c2, c3⟩ := h.cur t fr hc
    have sh := exec_shape hnr hex
    obtain ⟨k1, -, k3, -⟩ := exec_keeps hex
    apply gen (by simp [upd])
    · intro fr2 hfr; simp [upd] at hfr; subst hfr
      have hnew : fr'.m = .newScope → (fr'.pc = 0 ∧ fr'.returning = false) ∨ ∃ i, fr'.newId = some (t, i) := by
        intro hm'
        rw [k3] at hm'
        rcases c3 hm' with ⟨c, -⟩ | c
        · -- a newScope frame at pc 0 executes `alloc`, not a `mop`
          exfalso
          rw [hm', c] at hm
          simp [prog] at hm
          exact hna hm.symm
        · rw [k1]; exact Or.inr c
      rcases sh.ctl with ⟨-, p2, p3, -⟩ | ⟨-, -, p3, p4⟩ | ⟨-, -, -, p4, p5⟩
      · exact ⟨by rw [p3]; exact c1, by rw [p2]; exact c2, hnew⟩
      · refine ⟨by rw [p3]; exact c1, ?_, hnew⟩
        rw [p4]
        intro d' hd'
        split at hd'
        · rcases List.mem_cons.mp hd' with h1 | h1
          · rw [h1]; exact c1
          · exact c2 d' h1
        · split at hd'
          · rcases List.mem_cons.mp hd' with h1 | h1
            · rw [h1]; exact c1
            · exact c2 d' h1
          · exact c2 d' hd'
      · refine ⟨?_, by rw [p4]; exact c2, hnew⟩
        obtain ⟨t', i, h1, h2⟩ := h.outer fr.cur fr'.cur p5
        rcases c1 with c1 | ⟨j, c1⟩
        · rw [c1] at h1; cases h1
        · rw [c1] at h1; cases h1; exact h2
    · intro sc p hp
      by_cases hsc : sc = fr.cur
      · subst hsc; simp only [updS_same, sh.same.2.1] at hp; exact h.outer _ p hp
      · simp only [updS_other _ _ hsc] at hp; exact h.outer sc p hp

def AllConfined (strats : List (List ERes → Option EOp)) : Prop :=
  ∀ t, ConfinedScopes t (strats.getD t (fun _ => none))

theorem PrivInv.init {strats : List (List ERes → Option EOp)} (vals : Nat → Option Nat)
    (hc : AllConfined strats) : PrivInv (init strats vals) := by
  constructor
  · intro t; exact hc t
  · intro t fr hfr; simp [ConcEnv.init] at hfr
  · intro sc p hp
    simp only [ConcEnv.init] at hp
    split at hp <;> simp at hp

theorem PrivInv.run {sched : List Nat} {s s' : EState} (h : PrivInv s) (hr : run sched s = some s') : PrivInv s' := by
  induction sched generalizing s with
  | nil => simp [ConcEnv.run] at hr; subst hr; exact h
  | cons t ts ih =>
    simp only [ConcEnv.run, Option.bind_eq_some_iff] at hr
    obtain ⟨s1, h1, h2⟩ := hr
    exact ih (h.step h1) h2

/-- fresh scopes are private: as long as no evaluation names a scope of another one, the frames of thread
    `u` only ever sit on (lock, read, write) the root or scopes created by `u`; in particular a scope
    created by `t` is never accessed by `u ≠ t` -/
theorem fresh_scopes_private {strats vals s} (hc : AllConfined strats) (hr : Reachable strats vals s)
    {u : Nat} {fr : EFrame} (hfr : (s.threads u).cur = some fr) :
    Own u fr.cur ∧ (∀ d ∈ fr.defers, Own u d.2) ∧
    (∀ t i w, nextDataAccess s u = some (some (t, i), w) → t = u) := by
  obtain ⟨sched, hrun⟩ := hr
  have h := (PrivInv.init vals hc).run hrun
  obtain ⟨c1, c2, -⟩ := h.cur u fr hfr
  refine ⟨c1, c2, ?_⟩
  intro t i w hacc
  unfold nextDataAccess at hacc
  rw [hfr] at hacc
  simp only at hacc
  split at hacc
  · cases hacc
  · split at hacc
    · simp only [Option.map_eq_some_iff, Prod.mk.injEq] at hacc
      obtain ⟨_, -, hcur, -⟩ := hacc
      rcases c1 with c1 | ⟨j, c1⟩
      · rw [c1] at hcur; cases hcur
      · rw [c1] at hcur; cases hcur; rfl
    · cases hacc

end LispModel.Proofs.ConcEnv

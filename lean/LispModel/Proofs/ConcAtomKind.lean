/-
  C09 proofs: the shapes a step of the atom system can take (one constructor per branch of `step`),
  so that invariant proofs do a case analysis instead of unfolding `step`.
-/
import LispModel.Conc
namespace LispModel.Proofs.ConcAtom
open LispModel.Conc

inductive StepKind (code : OpName → Program) (s : State) (t : Nat) : State → Prop
  | start (op : AOp) (more : List AOp) (hst : (s.threads t).stack = []) (htd : (s.threads t).todo = op :: more) :
      StepKind code s t { s with threads := upd s.threads t { s.threads t with stack := [Frame.new op], todo := more } }
  | mop (fr : Frame) (rest : List Frame) (m : MOp) (fr' : Frame) (A' : AtomS)
      (hst : (s.threads t).stack = fr :: rest) (hnr : fr.returning = false)
      (hm : (code fr.op.name)[fr.pc]? = some m) (hcb : m ≠ .callback)
      (hex : execM t m fr (s.atoms fr.op.atom) = some (fr', A')) :
      StepKind code s t (s.setTop t fr' rest A' (linOf t m fr (s.atoms fr.op.atom)))
  | defer (fr : Frame) (rest : List Frame) (d : MOp) (ds : List MOp) (fr1 : Frame) (A' : AtomS)
      (hst : (s.threads t).stack = fr :: rest) (hr : fr.returning = true) (hd : fr.defers = d :: ds)
      (hex : execM t d { fr with defers := ds } (s.atoms fr.op.atom) = some (fr1, A')) :
      StepKind code s t (s.setTop t { fr1 with pc := fr.pc } rest A' [])
  | finish (fr : Frame) (hst : (s.threads t).stack = [fr]) (hr : fr.returning = true) (hd : fr.defers = []) :
      StepKind code s t { s with threads := upd s.threads t { s.threads t with stack := [], out := (s.threads t).out ++ [(fr.op, fr.retval)] } }
  | popOk (fr par : Frame) (rest' : List Frame) (v : Nat)
      (hst : (s.threads t).stack = fr :: par :: rest') (hr : fr.returning = true) (hd : fr.defers = [])
      (hv : fr.retval = some v) :
      StepKind code s t (s.setTop t { par with res := par.old + v, pc := par.pc + 1 } rest' (s.atoms par.op.atom) [])
  | popFail (fr par : Frame) (rest' : List Frame)
      (hst : (s.threads t).stack = fr :: par :: rest') (hr : fr.returning = true) (hd : fr.defers = [])
      (hv : fr.retval = none) :
      StepKind code s t (s.setTop t { par with failed := true, returning := true } rest' (s.atoms par.op.atom)
        [.failed t par.op.atom])
  | cbApp (fr : Frame) (rest : List Frame) (a : Nat) (f : Nat → Nat)
      (hst : (s.threads t).stack = fr :: rest) (hnr : fr.returning = false)
      (hm : (code fr.op.name)[fr.pc]? = some .callback) (hop : fr.op = .swap a (.app f)) :
      StepKind code s t (s.setTop t { fr with res := f fr.old, pc := fr.pc + 1 } rest (s.atoms fr.op.atom) [])
  | cbFail (fr : Frame) (rest : List Frame) (a : Nat)
      (hst : (s.threads t).stack = fr :: rest) (hnr : fr.returning = false)
      (hm : (code fr.op.name)[fr.pc]? = some .callback) (hop : fr.op = .swap a .fail) :
      StepKind code s t (s.setTop t { fr with failed := true, returning := true } rest (s.atoms fr.op.atom) [.failed t a])
  | cbDeref (fr : Frame) (rest : List Frame) (a b : Nat)
      (hst : (s.threads t).stack = fr :: rest) (hnr : fr.returning = false)
      (hm : (code fr.op.name)[fr.pc]? = some .callback) (hop : fr.op = .swap a (.addDeref b)) :
      StepKind code s t (s.setTop t (Frame.new (.deref b)) (fr :: rest) (s.atoms b) [])
  | cbSwap (fr : Frame) (rest : List Frame) (a b : Nat) (g : UFn)
      (hst : (s.threads t).stack = fr :: rest) (hnr : fr.returning = false)
      (hm : (code fr.op.name)[fr.pc]? = some .callback) (hop : fr.op = .swap a (.addSwap b g)) :
      StepKind code s t (s.setTop t (Frame.new (.swap b g)) (fr :: rest) (s.atoms b) [])

theorem step_kind {code : OpName → Program} {s s' : State} {t : Nat} (hs : step code s t = some s') :
    StepKind code s t s' := by
  unfold Conc.step at hs
  simp only at hs
  split at hs
  · rename_i hst
    split at hs
    · cases hs
    · rename_i op more htd
      cases hs
      exact .start op more hst htd
  · rename_i fr rest hst
    split at hs
    · rename_i hr
      split at hs
      · rename_i d ds hd
        simp only [Option.map_eq_some_iff] at hs
        obtain ⟨⟨fr1, A'⟩, hex, hs⟩ := hs
        cases hs
        exact .defer fr rest d ds fr1 A' hst hr hd hex
      · rename_i hd
        split at hs
        · cases hs; exact .finish fr hst hr hd
        · rename_i par rest'
          split at hs
          · rename_i v hv; cases hs; exact .popOk fr par rest' v hst hr hd hv
          · rename_i hv; cases hs; exact .popFail fr par rest' hst hr hd hv
    · rename_i hnr
      have hnr : fr.returning = false := by simpa using hnr
      split at hs
      · cases hs
      · rename_i hm
        split at hs
        · rename_i a f hop; cases hs; exact .cbApp fr rest a f hst hnr hm hop
        · rename_i a hop; cases hs; exact .cbFail fr rest a hst hnr hm hop
        · rename_i a b hop; cases hs; exact .cbDeref fr rest a b hst hnr hm hop
        · rename_i a b g hop; cases hs; exact .cbSwap fr rest a b g hst hnr hm hop
        · cases hs
      · rename_i m hncb hm
        simp only [Option.map_eq_some_iff] at hs
        obtain ⟨⟨fr', A'⟩, hex, hs⟩ := hs
        cases hs
        exact .mop fr rest m fr' A' hst hnr hm (fun hc => hncb hc) hex

end LispModel.Proofs.ConcAtom

/-
  C11 proofs, part 3: every access to a scope's `data` map is made under that scope's lock, so two threads
  are never both about to access the map of one scope with one of them writing.  (The bind writes of
  scope creation go to the frame-local map of the scope under construction, which is in no store yet.)
-/
import LispModel.Proofs.ConcEnvLockStep
namespace LispModel.Proofs.ConcEnv
open LispModel.ConcEnv
open LispModel.Conc (upd)

def dataAccess : EMOp → Option Bool
  | .readHit | .readMiss | .readVal | .rangeData => some false
  | .writeData | .deleteData => some true
  | _ => none

/-- the access to a scope's map thread `t` performs with its next step: (scope, isWrite) -/
def nextDataAccess (s : EState) (t : Nat) : Option (Sid × Bool) :=
  match (s.threads t).cur with
  | none => none
  | some fr =>
    if fr.returning then none else
    match (prog fr.m)[fr.pc]? with
    | some m => (dataAccess m).map fun w => (fr.cur, w)
    | none => none

def accEntry (n : EName) (pc : Nat) (m : EMOp) : Bool :=
  match dataAccess m with
  | none => true
  | some w => decide (2 ≤ pc) && n != .newScope && (w → writeMethod n) && (readMethod n || writeMethod n)

theorem accTable_true : forAllE accEntry = true := by decide

theorem LockInv.init (strats : List (List ERes → Option EOp)) (vals : Nat → Option Nat) :
    LockInv (init strats vals) := by
  constructor
  · intro t fr hc; simp [ConcEnv.init] at hc
  · intro t sc; simp [ConcEnv.init, heldRc]
  · intro t sc; simp [ConcEnv.init, heldWc]
  · intro sc; simp only [ConcEnv.init]; split <;> simp

theorem LockInv.run {sched : List Nat} {s s' : EState} (h : LockInv s) (hr : run sched s = some s') : LockInv s' := by
  induction sched generalizing s with
  | nil => simp [ConcEnv.run] at hr; subst hr; exact h
  | cons t ts ih =>
    simp only [ConcEnv.run, Option.bind_eq_some_iff] at hr
    obtain ⟨s1, h1, h2⟩ := hr
    exact ih (h.step h1) h2

theorem lock_discipline {strats vals s} (hr : Reachable strats vals s) : LockInv s := by
  obtain ⟨sched, h⟩ := hr
  exact (LockInv.init strats vals).run h

theorem count_pos_of_head {α} [BEq α] [LawfulBEq α] {l : List α} {a : α} (h : l.head? = some a) : 0 < l.count a := by
  cases l with
  | nil => simp at h
  | cons x xs => simp at h; subst h; simp

theorem LockInv.access_guarded {s : EState} (h : LockInv s) {t : Nat} {sc : Sid} {w : Bool}
    (hacc : nextDataAccess s t = some (sc, w)) :
    (w = true → (s.scopes sc).w = some t) ∧
    (w = false → (s.scopes sc).w = some t ∨ t ∈ (s.scopes sc).r) := by
  unfold nextDataAccess at hacc
  split at hacc
  · cases hacc
  · rename_i fr hc
    split at hacc
    · cases hacc
    · rename_i hnr
      have hnr : fr.returning = false := by simpa using hnr
      split at hacc
      · rename_i m hm
        simp only [Option.map_eq_some_iff, Prod.mk.injEq] at hacc
        obtain ⟨w', hda, hsc, hw⟩ := hacc
        subst hsc; subst hw
        have tab := forAllE_spec accTable_true hm
        simp only [accEntry, hda, Bool.and_eq_true, decide_eq_true_eq, bne_iff_ne, ne_eq, Bool.or_eq_true] at tab
        obtain ⟨⟨⟨hpc, hns⟩, hwm⟩, hrw⟩ := tab
        obtain ⟨-, hhead⟩ := h.fw t fr hc hnr
        have hh := count_pos_of_head (hhead hns hpc)
        have hrd := h.rd t fr.cur
        have hwr := h.wr t fr.cur
        rw [hc] at hrd hwr
        simp only [heldRc, heldWc] at hrd hwr
        by_cases hrm : readMethod fr.m = true
        · have hpos : 0 < (s.scopes fr.cur).r.count t := by
            simp only [unlockOf, hrm, if_true] at hh; omega
          have hmem : t ∈ (s.scopes fr.cur).r := List.count_pos_iff.mp hpos
          refine ⟨fun hw1 => ?_, fun _ => Or.inr hmem⟩
          have := hwm hw1
          cases hfm : fr.m <;> simp_all [readMethod, writeMethod]
        · have hrm' : readMethod fr.m = false := by simpa using hrm
          simp only [unlockOf, hrm', Bool.false_eq_true, if_false] at hh
          have hw1 : (s.scopes fr.cur).w = some t := by
            by_cases hx : (s.scopes fr.cur).w = some t
            · exact hx
            · simp only [hx, if_false] at hwr; omega
          exact ⟨fun _ => hw1, fun _ => Or.inl hw1⟩
      · cases hacc

/-- data-race freedom of the scope maps -/
theorem LockInv.no_race {s : EState} (h : LockInv s) {t u : Nat} {sc : Sid} {w x : Bool} (htu : t ≠ u)
    (ht : nextDataAccess s t = some (sc, w)) (hu : nextDataAccess s u = some (sc, x))
    (hwx : w = true ∨ x = true) : False := by
  obtain ⟨t1, t2⟩ := h.access_guarded ht
  obtain ⟨u1, u2⟩ := h.access_guarded hu
  have key : ∀ {a b : Nat}, a ≠ b → (s.scopes sc).w = some a →
      ((s.scopes sc).w = some b ∨ b ∈ (s.scopes sc).r) → False := by
    intro a b hab ha hb
    rcases hb with hb | hb
    · rw [ha] at hb; cases hb; exact hab rfl
    · rw [h.excl sc (by rw [ha]; simp)] at hb; cases hb
  rcases hwx with hw | hx
  · have hwt := t1 hw
    cases x
    · exact key htu hwt (u2 rfl)
    · exact key htu hwt (Or.inl (u1 rfl))
  · have hwu := u1 hx
    cases w
    · exact key (fun hh => htu hh.symm) hwu (t2 rfl)
    · exact key (fun hh => htu hh.symm) hwu (Or.inl (t1 rfl))

end LispModel.Proofs.ConcEnv

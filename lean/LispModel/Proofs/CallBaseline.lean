/-
  C20 — the binder as it was BEFORE the repairs 2f9941a (override branch guards `m < 0`) and e281c62
  (bounds count lisp arguments; `_args_ctx` compares with them as given), frozen, and the two findings
  proved against it.  Everything that the repairs did not touch is shared with LispModel/Call.lean; the
  frozen functions carry the suffix `₀`.

  (i)  `_args_ctx` compared the count with `min-1 … max-1` even when the bounds were declared (or were the
       default `0 … 1000`), i.e. did not count the context parameter;
  (ii) `CallOverrideFN` with a named function of a package whose import path has no dot sliced
       `packageName[:-1]` at registration.
-/
import LispModel.Call
import LispModel.Spec.CallContract
namespace LispModel.Baseline
open LispModel LispModel.Call LispModel.CallSpec

/-- `call()` lines 23–37 before 2f9941a: `packageName[:m]` unguarded -/
def deriveNames₀ (overrideFN : Option (List Char)) (runtimeName : List Char) : Option Names :=
  let functionFullName := lower runtimeName
  let n := lastIndexDot functionFullName
  match sliceTo functionFullName n with
  | none => none
  | some packageName =>
    match overrideFN with
    | some o =>
      let m := lastIndexDot packageName
      match sliceTo packageName m with
      | none => none
      | some p => some ⟨o, packageName, p ++ '[' :: o ++ [']']⟩
    | none =>
      match sliceFrom functionFullName (n + 1) with
      | none => none
      | some rest =>
        let functionName := hyphenate rest
        some ⟨functionName, packageName, packageName ++ '[' :: functionName ++ [']']⟩

/-- the `switch len(args)` before e281c62: a non-variadic function gets `NumIn()`, context included -/
def selectRaw₀ (σ : Sig) (decl : List Int) : Except RegPanic (Int × Int) :=
  match decl with
  | [a] => if !σ.isVariadic then .error .notVariadicMin else .ok (a, unlimitedArgments)
  | [a, b] => if !σ.isVariadic then .error .notVariadicMinMax else .ok (a, b)
  | _ => if !σ.isVariadic then .ok (σ.numIn, σ.numIn) else .ok (0, unlimitedArgments)

def selectBounds₀ (σ : Sig) (decl : List Int) : Except RegPanic (Int × Int) :=
  match selectRaw₀ σ decl with
  | .error e => .error e
  | .ok (mn, mx) =>
    if mn > mx then .error .maxBelowMin
    else if mn < 0 ∨ mx < 0 then .error .negative
    else .ok (mn, mx)

def register₀ (overrideFN : Option (List Char)) (runtimeName : List Char) (σ : Sig) (decl : List Int) :
    Except RegPanic Reg :=
  match deriveNames₀ overrideFN runtimeName with
  | none => .error .sliceBounds
  | some names =>
    match selectBounds₀ σ decl with
    | .error e => .error e
    | .ok (mn, mx) =>
      if σ.results > 2 then .error .results
      else .ok { names := names, minArgs := mn, maxArgs := mx, sig := σ }

/-- the count check before e281c62: `_args_ctx` compared with `min-1`, `max-1` -/
def argsCheck₀ (ctx : Bool) (minParams maxParams : Int) (n : Nat) : Option String :=
  let lo := if ctx then minParams - 1 else minParams
  let hi := if ctx then maxParams - 1 else maxParams
  if (n : Int) < lo ∨ (n : Int) > hi then some "wrong number of arguments" else none

def invoke₀ (reg : Reg) (args : List Val) (callee : Callee) : Outcome :=
  let full := String.ofList reg.names.fullName
  match argsCheck₀ reg.sig.ctx reg.minArgs reg.maxArgs args.length with
  | some msg => .rejectedCount (.goError full msg)
  | none =>
    match reflectCheck reg.sig args with
    | some p =>
      if p.isCount then .rejectedCount (.lispError (.str p.text)) else .rejectedType (.lispError (.str p.text))
    | none =>
      match callee args with
      | .ret v err =>
        let (r, e) := adapt reg.sig.results v err
        .entered reg.sig.ctx args r e
      | .panicErr e => .entered reg.sig.ctx args .nil (some (.goError full e))
      | .panicVal v => .entered reg.sig.ctx args .nil (some (.lispError v))

/-- the witness of (i): `func(ctx context.Context, v ...types.MalType) (types.MalType, error)` -/
def ctxVariadic : Sig := { ctx := true, fixed := [], variadic := some .iface, results := 2 }

def anyCallee : Callee := fun _ => .ret .nil none

/-- (i) before the repair: declared bounds 2…3 on `func(ctx, ...MalType)` admitted 1…2 arguments — one
    argument was let in (not admissible), three were refused (admissible) -/
theorem baseline_ctx_declared_bounds_counterexample :
    (match register₀ none ['p', '.', 'f'] ctxVariadic [2, 3] with
     | .ok reg =>
       (invoke₀ reg [.int 1] anyCallee).isEntered && !admissibleB ctxVariadic [2, 3] [.int 1] &&
       !(invoke₀ reg [.int 1, .int 2, .int 3] anyCallee).isEntered && admissibleB ctxVariadic [2, 3] [.int 1, .int 2, .int 3] &&
       validDecl ctxVariadic [2, 3]
     | .error _ => false) = true := by decide

/-- … and the default maximum was off by one as well: exactly 1000 arguments (admissible) were refused.
    (Stated on the count check alone: a list of 1000 values is no job for `decide`.) -/
theorem baseline_ctx_unlimited_bound_counterexample :
    (match selectBounds₀ ctxVariadic [] with
     | .ok (mn, mx) => (argsCheck₀ true mn mx 1000).isSome && countOk ctxVariadic [] 1000
     | .error _ => false) = true := by decide

/-- the contract's central statement, about the frozen functions … -/
def binder_contract_statement₀ : Prop :=
  ∀ (ov : Option (List Char)) (rt : List Char) (σ : Sig) (decl : List Int) (reg : Reg) (as : List Val) (f : Callee),
    register₀ ov rt σ decl = .ok reg → ValidDecl σ decl →
      ((invoke₀ reg as f).isEntered = true ↔ Admissible σ decl as)

/-- … was false -/
theorem binder_contract_statement_failed_at_baseline : ¬ binder_contract_statement₀ := by
  intro h
  have hw := baseline_ctx_declared_bounds_counterexample
  cases hr : register₀ none ['p', '.', 'f'] ctxVariadic [2, 3] with
  | error e => rw [hr] at hw; cases hw
  | ok reg =>
    rw [hr] at hw
    simp only [Bool.and_eq_true, Bool.not_eq_true'] at hw
    obtain ⟨⟨⟨⟨h1, h2⟩, _⟩, _⟩, hv⟩ := hw
    have := (h none _ ctxVariadic [2, 3] reg [.int 1] anyCallee hr hv).1 h1
    rw [Admissible, h2] at this
    cases this

/-- (ii) before the repair: `CallOverrideFN(ns, "x", F)` with `F` a top-level function of package `main`
    (or `verifharness/dotless`: any import path without a dot) panicked at registration -/
theorem baseline_override_dotless_package_counterexample :
    register₀ (some ['x']) ['m', 'a', 'i', 'n', '.', 'F'] { ctx := false, fixed := [], variadic := none, results := 0 } []
      = .error .sliceBounds ∧
    validDecl { ctx := false, fixed := [], variadic := none, results := 0 } [] = true := by decide

def registration_total_statement₀ : Prop :=
  ∀ (ov : Option (List Char)) (g : GoName) (σ : Sig) (decl : List Int),
    g.WellFormed → ValidDecl σ decl → ∃ reg, register₀ ov g.runtime σ decl = .ok reg

theorem registration_total_statement_failed_at_baseline : ¬ registration_total_statement₀ := by
  intro h
  obtain ⟨reg, hr⟩ := h (some ['x']) { pkgPath := ['m', 'a', 'i', 'n'], outer := [], simple := ['F'] }
    { ctx := false, fixed := [], variadic := none, results := 0 } [] (by decide) (by decide)
  have := baseline_override_dotless_package_counterexample.1
  rw [show GoName.runtime { pkgPath := ['m', 'a', 'i', 'n'], outer := [], simple := ['F'] } = ['m', 'a', 'i', 'n', '.', 'F'] from rfl] at hr
  rw [hr] at this
  cases this

end LispModel.Baseline

/-
  Proofs for property C12 (macro expansion and quasiquote).  Self-contained: the few arm equations
  of `evalLoop` that are needed are proved here.
  Core Lean only.
-/
import LispModel.Spec.QQ
namespace LispModel.Proofs.QQ
open LispModel LispModel.Core LispModel.QQ

/-! ### classifiers and the shape of `quasiquote` / `qqLoop` -/

theorem quasiquote_list (xs : List Val) (p : Option Pos) :
    quasiquote (.list xs p) = match unquoteArg? (.list xs p) with | some x => x | none => qqLoop xs := by
  by_cases h : ∃ pos x tail, xs = Val.sym "unquote" pos :: x :: tail
  · obtain ⟨pos, x, tail, rfl⟩ := h
    rw [quasiquote.eq_5, unquoteArg?.eq_1]
  · have hn : unquoteArg? (.list xs p) = none := by
      rw [unquoteArg?.eq_2]; intro pos x tail pos1 hx; cases hx; exact h ⟨_, _, _, rfl⟩
    rw [hn]
    by_cases h1 : ∃ pos, xs = [Val.sym "unquote" pos]
    · obtain ⟨pos, rfl⟩ := h1; rw [quasiquote.eq_4]
    · rw [quasiquote.eq_6]
      · intro pos hx; exact h1 ⟨pos, hx⟩
      · intro pos x tail hx; exact h ⟨_, _, _, hx⟩

theorem qqLoop_cons (e : Val) (es : List Val) :
    qqLoop (e :: es) = match spliceArg? e with
      | some x => .list [.sym "concat" none, x, qqLoop es] none
      | none => .list [.sym "cons" none, quasiquote e, qqLoop es] none := by
  by_cases h : ∃ pos x tail pos1, e = .list (Val.sym "splice-unquote" pos :: x :: tail) pos1
  · obtain ⟨pos, x, tail, pos1, rfl⟩ := h
    rw [qqLoop.eq_2, spliceArg?.eq_1]
  · have hn : spliceArg? e = none := by
      rw [spliceArg?.eq_2]; intro pos x tail pos1 hx; exact h ⟨_, _, _, _, hx⟩
    rw [hn, qqLoop.eq_3]; intro pos x tail pos1 hx; exact h ⟨_, _, _, _, hx⟩

theorem unquoteArg?_nonlist {v : Val} (h : ∀ xs p, v ≠ .list xs p) : unquoteArg? v = none := by
  rw [unquoteArg?.eq_2]; intro pos x tail pos1 hx; exact h _ _ hx

/-! ### state bookkeeping -/

theorem poll_std {st : State} (h : st.cancelAt = none) : st.poll = (false, tick st) := by
  simp only [State.poll, h, tick]

theorem tick_stepper (st : State) : (tick st).stepper = st.stepper := rfl
theorem tick_cancelAt (st : State) : (tick st).cancelAt = st.cancelAt := rfl
theorem getAux_ticks (st : State) (t : Nat) (n id : Nat) (k : String) :
    State.getAux { st with ticks := t } n id k = State.getAux st n id k := by
  induction n generalizing id with
  | zero => rfl
  | succ n ih =>
    simp only [State.getAux, State.scope?]
    cases st.scopes[id]? with
    | none => rfl
    | some sc =>
      simp only
      cases alookup k sc.data with
      | some v => rfl
      | none => simp only; cases sc.outer with
        | none => rfl
        | some o => exact ih o
theorem addTicks_get (j : Nat) (st : State) (env : Nat) (k : String) :
    (addTicks j st).get env k = st.get env k := getAux_ticks st _ _ env k
theorem tick_get (st : State) (env : Nat) (k : String) : (tick st).get env k = st.get env k :=
  addTicks_get 1 st env k
theorem tick_eq_addTicks (st : State) : tick st = addTicks 1 st := rfl
theorem addTicks_addTicks (j k : Nat) (st : State) : addTicks j (addTicks k st) = addTicks (k + j) st := by
  simp only [addTicks, Nat.add_assoc]
theorem addTicks_zero (st : State) : addTicks 0 st = st := rfl

theorem Std.tick {st : State} (h : Std st) : Std (tick st) := h
theorem Std.addTicks {st : State} (h : Std st) (k : Nat) : Std (addTicks k st) := h

theorem NotMacro_addTicks {st : State} {env : Nat} {s : String} (k : Nat) :
    NotMacro (addTicks k st) env s ↔ NotMacro st env s := by
  simp only [NotMacro, addTicks_get]
theorem CoreBound_addTicks {st : State} {env : Nat} (k : Nat) :
    CoreBound (addTicks k st) env ↔ CoreBound st env := by
  simp only [CoreBound, NotMacro, addTicks_get]

theorem NotMacro_of_get {st : State} {env : Nat} {s : String} {v : Val}
    (h : st.get env s = some v) (hv : ∀ ps b e p, v ≠ .fn ps b e true p) : NotMacro st env s := by
  intro ps b e p hg; rw [h] at hg; exact hv _ _ _ _ (Option.some.inj hg)

theorem CoreBound.cons_nm {st : State} {env : Nat} (h : CoreBound st env) : NotMacro st env "cons" :=
  NotMacro_of_get h.1 (by intro _ _ _ _ h; cases h)
theorem CoreBound.concat_nm {st : State} {env : Nat} (h : CoreBound st env) : NotMacro st env "concat" :=
  NotMacro_of_get h.2.1 (by intro _ _ _ _ h; cases h)
theorem CoreBound.vec_nm {st : State} {env : Nat} (h : CoreBound st env) : NotMacro st env "vec" :=
  NotMacro_of_get h.2.2.1 (by intro _ _ _ _ h; cases h)

/-! ### `macroexpand` -/

theorem macroexpand_macro {F : Nat} {st : State} {env d : Nat} {s : String} {p q fp : Option Pos}
    {args : List Val} {ps b : Val} {fe : Nat}
    (h : st.get env s = some (.fn ps b fe true fp)) :
    macroexpand (F+1) st env (.list (.sym s p :: args) q) d =
      match bindParams ps args with
      | .error e => (.err e, st)
      | .ok data =>
        match eval F (st.newScope fe data).1 (st.newScope fe data).2 b (d+1) with
        | (.ok ast', st2) => macroexpand F st2 env ast' d
        | r => r := by
  rw [macroexpand.eq_2]
  simp only [h]
  rfl

theorem macroexpand_not_macro {F : Nat} {st : State} {env d : Nat} {ast : Val}
    (h : ¬ IsMacroCall st env ast) : macroexpand (F+1) st env ast d = (.ok ast, st) := by
  by_cases hs : ∃ s p args q, ast = .list (.sym s p :: args) q
  · obtain ⟨s, p, args, q, rfl⟩ := hs
    rw [macroexpand.eq_2]
    split
    · rename_i ps b fe fp hg
      exact absurd ⟨s, _, args, _, ps, b, fe, fp, rfl, hg⟩ h
    · rfl
  · rw [macroexpand.eq_3]; intro s p args q hx; exact hs ⟨_, _, _, _, hx⟩

theorem macroexpand_ok_fuel {F : Nat} {st st' : State} {env d : Nat} {ast ast' : Val}
    (h : macroexpand F st env ast d = (.ok ast', st')) : ∃ n, F = n + 1 := by
  cases F with
  | zero => rw [macroexpand.eq_1] at h; cases h
  | succ n => exact ⟨n, rfl⟩

theorem expansion_head_not_macro {F : Nat} : ∀ {st st' : State} {env d : Nat} {ast ast' : Val},
    macroexpand F st env ast d = (.ok ast', st') → ¬ IsMacroCall st' env ast' := by
  induction F with
  | zero => intro st st' env d ast ast' h; rw [macroexpand.eq_1] at h; cases h
  | succ n ih =>
    intro st st' env d ast ast' h
    by_cases hm : IsMacroCall st env ast
    · obtain ⟨s, p, args, q, ps, b, fe, fp, rfl, hg⟩ := hm
      rw [macroexpand_macro hg] at h
      split at h
      · cases h
      · split at h
        · exact ih h
        · rename_i hr
          exact absurd h.symm (fun h' => hr _ _ h'.symm)
    · rw [macroexpand_not_macro hm] at h
      cases h; exact hm

theorem macroexpand_idem {F : Nat} {st st' : State} {env d : Nat} {ast ast' : Val}
    (h : macroexpand F st env ast d = (.ok ast', st')) :
    macroexpand F st' env ast' d = (.ok ast', st') := by
  obtain ⟨n, rfl⟩ := macroexpand_ok_fuel h
  exact macroexpand_not_macro (expansion_head_not_macro h)

/-! ### arm equations of `evalLoop` -/

section arms
variable {F : Nat} {st st' s0 s0' s1 : State} {env d : Nat} {ast ast' a0 : Val} {xs ys ops : List Val}
  {p p' q : Option Pos} {e : Err}

theorem evalLoop_nonlist (hp : st.poll = (false, s0)) (hl : ∀ xs p, ast ≠ .list xs p) :
    evalLoop (F+1) st env ast d = evalAst F s0 env ast d := by
  rw [evalLoop.eq_2]
  cases ast <;> first | (exact absurd rfl (hl _ _)) | simp (maxSteps := 10000000) only [hp, Bool.false_eq_true, ↓reduceIte]

/-- the loop looks at a list form only through its macro expansion -/
theorem evalLoop_congr (hp : st.poll = (false, s0)) (hp' : st'.poll = (false, s0'))
    (hm : macroexpand F s0 env (.list xs p) d = macroexpand F s0' env (.list ys q) d) :
    evalLoop (F+1) st env (.list xs p) d = evalLoop (F+1) st' env (.list ys q) d := by
  rw [evalLoop.eq_2, evalLoop.eq_2]
  simp (maxSteps := 10000000) only [hp, hp', hm, Bool.false_eq_true, ↓reduceIte]

theorem evalLoop_mac_nonlist (hp : st.poll = (false, s0))
    (hm : macroexpand F s0 env (.list xs p) d = (.ok ast', s1)) (hl : ∀ xs p, ast' ≠ .list xs p) :
    evalLoop (F+1) st env (.list xs p) d = evalAst F s1 env ast' d := by
  rw [evalLoop.eq_2]
  cases ast' <;> first | (exact absurd rfl (hl _ _)) | simp (maxSteps := 10000000) only [hp, hm, Bool.false_eq_true, ↓reduceIte]

/-- the `continue` of the loop: without debugger the next iteration of the same activation -/
def continueWith (F : Nat) (st : State) (env : Nat) (ast : Val) (d : Nat) : R :=
  match st.stepper with
  | none => evalLoop F st env ast d
  | some _ => eval F st env ast (d + 1)

theorem evalLoop_mac_empty (hp : st.poll = (false, s0))
    (hm : macroexpand F s0 env (.list xs p) d = (.ok (.list [] p'), s1)) :
    evalLoop (F+1) st env (.list xs p) d = (.ok (.list [] p'), s1) := by
  rw [evalLoop.eq_2]; simp (maxSteps := 10000000) only [hp, hm, Bool.false_eq_true, ↓reduceIte]

theorem evalLoop_quote (hp : st.poll = (false, s0))
    (hm : macroexpand F s0 env (.list xs p) d = (.ok (.list (.sym "quote" ps :: ops) p'), s1)) :
    evalLoop (F+1) st env (.list xs p) d = (.ok (ops.getD 0 .nil), s1) := by
  rw [evalLoop.eq_2]
  simp (maxSteps := 10000000) only [hp, hm, Bool.false_eq_true, ↓reduceIte, String.reduceEq]

theorem evalLoop_quasiquote (hp : st.poll = (false, s0))
    (hm : macroexpand F s0 env (.list xs p) d = (.ok (.list (.sym "quasiquote" ps :: ops) p'), s1)) :
    evalLoop (F+1) st env (.list xs p) d = continueWith F s1 env (quasiquote (ops.getD 0 .nil)) d := by
  rw [evalLoop.eq_2]
  simp (maxSteps := 10000000) only [hp, hm, Bool.false_eq_true, ↓reduceIte, String.reduceEq]
  rfl

theorem evalLoop_defmacro (hp : st.poll = (false, s0))
    (hm : macroexpand F s0 env (.list xs p) d = (.ok (.list (.sym "defmacro" ps :: ops) p'), s1)) :
    evalLoop (F+1) st env (.list xs p) d =
      match eval F s1 env (ops.getD 1 .nil) (d + 1) with
      | (.ok f, s2) =>
        (match f with
         | .fn prm b e _ fp =>
           (match ops.getD 0 .nil with
            | .sym name _ => (.ok (Val.fn prm b e true fp), s2.set env name (Val.fn prm b e true fp))
            | _ => (.err (newLispError (.plain "cannot use value as identifier") (.list (.sym "defmacro" ps :: ops) p')), s2))
         | _ => (.err (newLispError (.plain "defmacro requires a function") (.list (.sym "defmacro" ps :: ops) p')), s2))
      | r => r := by
  rw [evalLoop.eq_2]
  simp (maxSteps := 10000000) only [hp, hm, Bool.false_eq_true, ↓reduceIte, String.reduceEq]
  rfl

theorem evalLoop_app (hp : st.poll = (false, s0))
    (hm : macroexpand F s0 env (.list xs p) d = (.ok (.list (.sym s ps :: ops) p'), s1))
    (ha : s ∉ specialForms) :
    evalLoop (F+1) st env (.list xs p) d =
      match evalList F s1 env (.sym s ps :: ops) d with
      | (.ok el, st) =>
        (match el with
         | [] => (.err (.plain "empty application"), st)
         | f :: args =>
           match f with
           | .fn params body fenv _ _ =>
             (match bindParams params args with
              | .error e =>
                (match e with
                 | .lisp (.goerr m) _ => (.err (.lisp (.goerr (m ++ " (around do)")) none), st)
                 | e => (.err (newLispError e body), st))
              | .ok data => continueWith F (st.newScope fenv data).1 (st.newScope fenv data).2 body d)
           | .builtin name =>
             (match callBuiltin F st name args d with
              | (.ok v, st) => (.ok v, st)
              | (.err e, st) => (.err (newLispError e (.list (.sym s ps :: ops) p')), st)
              | (.oof, st) => (.oof, st))
           | _ => (.err (.lisp (.goerr "attempt to call non-function") none), st))
      | (.err e, st) => (.err e, st)
      | (.oof, st) => (.oof, st) := by
  rw [evalLoop.eq_2]
  simp only [specialForms, List.mem_cons, List.not_mem_nil, or_false, not_or] at ha
  obtain ⟨h1, h2, h3, h4, h5, h6, h7, h8, h9, h10, h11⟩ := ha
  simp (maxSteps := 10000000) only [hp, hm, Bool.false_eq_true, ↓reduceIte,
    h1, h2, h3, h4, h5, h6, h7, h8, h9, h10, h11]
  rfl

end arms

/-! ### macro theorems -/

theorem continueWith_std {F : Nat} {st : State} {env d : Nat} {ast : Val} (h : st.stepper = none) :
    continueWith F st env ast d = evalLoop F st env ast d := by
  simp only [continueWith, h]

/-- evaluating a macro call = evaluating its expansion, in the caller's scope, at the same depth -/
theorem macro_call_eq_expansion {F : Nat} {st s0 s1 st0 : State} {env d : Nat} {xs : List Val}
    {p : Option Pos} {ast' : Val}
    (hp : st.poll = (false, s0))
    (hm : macroexpand F s0 env (.list xs p) d = (.ok ast', s1))
    (hp0 : st0.poll = (false, s1)) :
    evalLoop (F+1) st env (.list xs p) d = evalLoop (F+1) st0 env ast' d := by
  by_cases hl : ∃ ys q, ast' = .list ys q
  · obtain ⟨ys, q, rfl⟩ := hl
    exact evalLoop_congr hp hp0 (by rw [hm, macroexpand_idem hm])
  · have hl' : ∀ ys q, ast' ≠ .list ys q := fun ys q h => hl ⟨ys, q, h⟩
    rw [evalLoop_mac_nonlist hp hm hl', evalLoop_nonlist hp0 hl']

/-- a head that does not resolve to a macro (e.g. an ordinary function) is not expanded -/
theorem functions_unaffected {F : Nat} {st : State} {env d : Nat} {s : String} {p q : Option Pos}
    {args : List Val} (h : NotMacro st env s) :
    macroexpand (F+1) st env (.list (.sym s p :: args) q) d = (.ok (.list (.sym s p :: args) q), st) := by
  apply macroexpand_not_macro
  rintro ⟨s', p', args', q', ps, b, e, fp, heq, hg⟩
  cases heq
  exact h _ _ _ _ hg

theorem alookup_ainsert {α} (k k' : String) (v : α) (l : List (String × α)) :
    alookup k' (ainsert k v l) = if k = k' then some v else alookup k' l := by
  induction l with
  | nil => simp only [ainsert, alookup]
  | cons hd tl ih =>
    obtain ⟨k0, v0⟩ := hd
    simp only [ainsert]
    by_cases h0 : k0 = k
    · subst h0; simp only [↓reduceIte, alookup]; split <;> rfl
    · simp only [h0, ↓reduceIte, alookup, ih]
      by_cases h1 : k0 = k'
      · subst h1; simp only [↓reduceIte]; rw [if_neg (fun h => h0 h.symm)]
      · simp only [h1, ↓reduceIte]

/-- the binding of `k` in scope `i` itself (no climbing) -/
def localGet (st : State) (i : Nat) (k : String) : Option Val :=
  (st.scope? i).bind (fun sc => alookup k sc.data)

/-- `Env.Set` touches one name of one scope -/
theorem set_other (st : State) (env : Nat) (k : String) (v : Val) (i : Nat) (k' : String)
    (h : i ≠ env ∨ k ≠ k') : localGet (st.set env k v) i k' = localGet st i k' := by
  unfold State.set
  cases hs : st.scope? env with
  | none => rfl
  | some sc =>
    simp only [localGet, State.scope?] at hs ⊢
    by_cases hi : i = env
    · subst hi
      have hk : k ≠ k' := by rcases h with h | h; exact absurd rfl h; exact h
      have hlt : i < st.scopes.size := by
        rcases Nat.lt_or_ge i st.scopes.size with h | h
        · exact h
        · rw [Array.getElem?_eq_none h] at hs; cases hs
      rw [Array.getElem?_setIfInBounds_self_of_lt hlt, hs]
      simp only [Option.bind_some, alookup_ainsert, hk, ↓reduceIte]
    · rw [Array.getElem?_setIfInBounds_ne (fun h => hi h.symm)]

theorem defmacro_marks_copy {F : Nat} {st s2 : State} {env d : Nat} {name : String}
    {pd pn p fp : Option Pos} {fexpr prm b : Val} {rest : List Val} {e : Nat} {flag : Bool}
    (hc : st.cancelAt = none) (hnm : NotMacro st env "defmacro")
    (hf : eval (F+1) (tick st) env fexpr (d+1) = (.ok (.fn prm b e flag fp), s2)) :
    evalLoop (F+2) st env (.list (.sym "defmacro" pd :: .sym name pn :: fexpr :: rest) p) d =
      (.ok (.fn prm b e true fp), s2.set env name (.fn prm b e true fp)) := by
  have hm := functions_unaffected (F := F) (d := d) (p := pd) (q := p)
    (args := .sym name pn :: fexpr :: rest) ((NotMacro_addTicks 1).2 hnm)
  rw [evalLoop_defmacro (poll_std hc) hm]
  rw [tick_eq_addTicks] at hf
  simp only [List.getD_cons_succ, List.getD_cons_zero, hf]

end LispModel.Proofs.QQ

/-
  Proofs for property C12 (macro expansion and quasiquote).  Self-contained: the few arm equations
  of `evalLoop` that are needed are proved here.
  Core Lean only.
-/
import LispModel.Spec.QQ
namespace LispModel.Proofs.QQ
open LispModel LispModel.Core LispModel.QQ

/-! ### classifiers and the shape of `quasiquote` / `qqLoop` -/

theorem quasiquote_list (xs : List Val) (p : Option Pos) :
    quasiquote (.list xs p) = match unquoteArg? (.list xs p) with | some x => x | none => qqLoop xs := by
  by_cases h : ∃ pos x tail, xs = Val.sym "unquote" pos :: x :: tail
  · obtain ⟨pos, x, tail, rfl⟩ := h
    rw [quasiquote.eq_5, unquoteArg?.eq_1]
  · have hn : unquoteArg? (.list xs p) = none := by
      rw [unquoteArg?.eq_2]; intro pos x tail pos1 hx; cases hx; exact h ⟨_, _, _, rfl⟩
    rw [hn]
    by_cases h1 : ∃ pos, xs = [Val.sym "unquote" pos]
    · obtain ⟨pos, rfl⟩ := h1; rw [quasiquote.eq_4]
    · rw [quasiquote.eq_6]
      · intro pos hx; exact h1 ⟨pos, hx⟩
      · intro pos x tail hx; exact h ⟨_, _, _, hx⟩

theorem qqLoop_cons (e : Val) (es : List Val) :
    qqLoop (e :: es) = match spliceArg? e with
      | some x => .list [.sym "concat" none, x, qqLoop es] none
      | none => .list [.sym "cons" none, quasiquote e, qqLoop es] none := by
  by_cases h : ∃ pos x tail pos1, e = .list (Val.sym "splice-unquote" pos :: x :: tail) pos1
  · obtain ⟨pos, x, tail, pos1, rfl⟩ := h
    rw [qqLoop.eq_2, spliceArg?.eq_1]
  · have hn : spliceArg? e = none := by
      rw [spliceArg?.eq_2]; intro pos x tail pos1 hx; exact h ⟨_, _, _, _, hx⟩
    rw [hn, qqLoop.eq_3]; intro pos x tail pos1 hx; exact h ⟨_, _, _, _, hx⟩

theorem unquoteArg?_nonlist {v : Val} (h : ∀ xs p, v ≠ .list xs p) : unquoteArg? v = none := by
  rw [unquoteArg?.eq_2]; intro pos x tail pos1 hx; exact h _ _ hx

/-! ### state bookkeeping -/

theorem poll_std {st : State} (h : st.cancelAt = none) : st.poll = (false, tick st) := by
  simp only [State.poll, h, tick]

theorem tick_stepper (st : State) : (tick st).stepper = st.stepper := rfl
theorem tick_cancelAt (st : State) : (tick st).cancelAt = st.cancelAt := rfl
theorem getAux_ticks (st : State) (t : Nat) (n id : Nat) (k : String) :
    State.getAux { st with ticks := t } n id k = State.getAux st n id k := by
  induction n generalizing id with
  | zero => rfl
  | succ n ih =>
    simp only [State.getAux, State.scope?]
    cases st.scopes[id]? with
    | none => rfl
    | some sc =>
      simp only
      cases alookup k sc.data with
      | some v => rfl
      | none => simp only; cases sc.outer with
        | none => rfl
        | some o => exact ih o
theorem addTicks_get (j : Nat) (st : State) (env : Nat) (k : String) :
    (addTicks j st).get env k = st.get env k := getAux_ticks st _ _ env k
theorem tick_get (st : State) (env : Nat) (k : String) : (tick st).get env k = st.get env k :=
  addTicks_get 1 st env k
theorem tick_eq_addTicks (st : State) : tick st = addTicks 1 st := rfl
theorem addTicks_addTicks (j k : Nat) (st : State) : addTicks j (addTicks k st) = addTicks (k + j) st := by
  simp only [addTicks, Nat.add_assoc]
theorem addTicks_zero (st : State) : addTicks 0 st = st := rfl

theorem Std.tick {st : State} (h : Std st) : Std (tick st) := h
theorem Std.addTicks {st : State} (h : Std st) (k : Nat) : Std (addTicks k st) := h

theorem NotMacro_addTicks {st : State} {env : Nat} {s : String} (k : Nat) :
    NotMacro (addTicks k st) env s ↔ NotMacro st env s := by
  simp only [NotMacro, addTicks_get]
theorem CoreBound_addTicks {st : State} {env : Nat} (k : Nat) :
    CoreBound (addTicks k st) env ↔ CoreBound st env := by
  simp only [CoreBound, NotMacro, addTicks_get]

theorem NotMacro_of_get {st : State} {env : Nat} {s : String} {v : Val}
    (h : st.get env s = some v) (hv : ∀ ps b e p, v ≠ .fn ps b e true p) : NotMacro st env s := by
  intro ps b e p hg; rw [h] at hg; exact hv _ _ _ _ (Option.some.inj hg)

theorem CoreBound.cons_nm {st : State} {env : Nat} (h : CoreBound st env) : NotMacro st env "cons" :=
  NotMacro_of_get h.1 (by intro _ _ _ _ h; cases h)
theorem CoreBound.concat_nm {st : State} {env : Nat} (h : CoreBound st env) : NotMacro st env "concat" :=
  NotMacro_of_get h.2.1 (by intro _ _ _ _ h; cases h)
theorem CoreBound.vec_nm {st : State} {env : Nat} (h : CoreBound st env) : NotMacro st env "vec" :=
  NotMacro_of_get h.2.2.1 (by intro _ _ _ _ h; cases h)

/-! ### `macroexpand` -/

theorem macroexpand_macro {F : Nat} {st : State} {env d : Nat} {s : String} {p q fp : Option Pos}
    {args : List Val} {ps b : Val} {fe : Nat}
    (h : st.get env s = some (.fn ps b fe true fp)) :
    macroexpand (F+1) st env (.list (.sym s p :: args) q) d =
      match bindParams ps args with
      | .error e => (.err e, st)
      | .ok data =>
        match eval F (st.newScope fe data).1 (st.newScope fe data).2 b (d+1) with
        | (.ok ast', st2) => macroexpand F st2 env ast' d
        | r => r := by
  rw [macroexpand.eq_2]
  simp only [h]
  rfl

theorem macroexpand_not_macro {F : Nat} {st : State} {env d : Nat} {ast : Val}
    (h : ¬ IsMacroCall st env ast) : macroexpand (F+1) st env ast d = (.ok ast, st) := by
  by_cases hs : ∃ s p args q, ast = .list (.sym s p :: args) q
  · obtain ⟨s, p, args, q, rfl⟩ := hs
    rw [macroexpand.eq_2]
    split
    · rename_i ps b fe fp hg
      exact absurd ⟨s, _, args, _, ps, b, fe, fp, rfl, hg⟩ h
    · rfl
  · rw [macroexpand.eq_3]; intro s p args q hx; exact hs ⟨_, _, _, _, hx⟩

theorem macroexpand_ok_fuel {F : Nat} {st st' : State} {env d : Nat} {ast ast' : Val}
    (h : macroexpand F st env ast d = (.ok ast', st')) : ∃ n, F = n + 1 := by
  cases F with
  | zero => rw [macroexpand.eq_1] at h; cases h
  | succ n => exact ⟨n, rfl⟩

theorem expansion_head_not_macro {F : Nat} : ∀ {st st' : State} {env d : Nat} {ast ast' : Val},
    macroexpand F st env ast d = (.ok ast', st') → ¬ IsMacroCall st' env ast' := by
  induction F with
  | zero => intro st st' env d ast ast' h; rw [macroexpand.eq_1] at h; cases h
  | succ n ih =>
    intro st st' env d ast ast' h
    by_cases hm : IsMacroCall st env ast
    · obtain ⟨s, p, args, q, ps, b, fe, fp, rfl, hg⟩ := hm
      rw [macroexpand_macro hg] at h
      split at h
      · cases h
      · split at h
        · exact ih h
        · rename_i hr
          exact absurd h.symm (fun h' => hr _ _ h'.symm)
    · rw [macroexpand_not_macro hm] at h
      cases h; exact hm

theorem macroexpand_idem {F : Nat} {st st' : State} {env d : Nat} {ast ast' : Val}
    (h : macroexpand F st env ast d = (.ok ast', st')) :
    macroexpand F st' env ast' d = (.ok ast', st') := by
  obtain ⟨n, rfl⟩ := macroexpand_ok_fuel h
  exact macroexpand_not_macro (expansion_head_not_macro h)

/-! ### arm equations of `evalLoop` -/

section arms
variable {F : Nat} {st st' s0 s0' s1 : State} {env d : Nat} {ast ast' a0 : Val} {xs ys ops : List Val}
  {p p' q : Option Pos} {e : Err}

theorem evalLoop_nonlist (hp : st.poll = (false, s0)) (hl : ∀ xs p, ast ≠ .list xs p) :
    evalLoop (F+1) st env ast d = evalAst F s0 env ast d := by
  rw [evalLoop.eq_2]
  cases ast <;> first | (exact absurd rfl (hl _ _)) | simp (maxSteps := 10000000) only [hp, Bool.false_eq_true, ↓reduceIte]

/-- the loop looks at a list form only through its macro expansion -/
theorem evalLoop_congr (hp : st.poll = (false, s0)) (hp' : st'.poll = (false, s0'))
    (hm : macroexpand F s0 env (.list xs p) d = macroexpand F s0' env (.list ys q) d) :
    evalLoop (F+1) st env (.list xs p) d = evalLoop (F+1) st' env (.list ys q) d := by
  rw [evalLoop.eq_2, evalLoop.eq_2]
  simp (maxSteps := 10000000) only [hp, hp', hm, Bool.false_eq_true, ↓reduceIte]

theorem evalLoop_mac_nonlist (hp : st.poll = (false, s0))
    (hm : macroexpand F s0 env (.list xs p) d = (.ok ast', s1)) (hl : ∀ xs p, ast' ≠ .list xs p) :
    evalLoop (F+1) st env (.list xs p) d = evalAst F s1 env ast' d := by
  rw [evalLoop.eq_2]
  cases ast' <;> first | (exact absurd rfl (hl _ _)) | simp (maxSteps := 10000000) only [hp, hm, Bool.false_eq_true, ↓reduceIte]

/-- the `continue` of the loop: without debugger the next iteration of the same activation -/
def continueWith (F : Nat) (st : State) (env : Nat) (ast : Val) (d : Nat) : R :=
  match st.stepper with
  | none => evalLoop F st env ast d
  | some _ => eval F st env ast (d + 1)

theorem evalLoop_mac_empty (hp : st.poll = (false, s0))
    (hm : macroexpand F s0 env (.list xs p) d = (.ok (.list [] p'), s1)) :
    evalLoop (F+1) st env (.list xs p) d = (.ok (.list [] p'), s1) := by
  rw [evalLoop.eq_2]; simp (maxSteps := 10000000) only [hp, hm, Bool.false_eq_true, ↓reduceIte]

theorem evalLoop_quote (hp : st.poll = (false, s0))
    (hm : macroexpand F s0 env (.list xs p) d = (.ok (.list (.sym "quote" ps :: ops) p'), s1)) :
    evalLoop (F+1) st env (.list xs p) d = (.ok (ops.getD 0 .nil), s1) := by
  rw [evalLoop.eq_2]
  simp (maxSteps := 10000000) only [hp, hm, Bool.false_eq_true, ↓reduceIte, String.reduceEq]

theorem evalLoop_quasiquote (hp : st.poll = (false, s0))
    (hm : macroexpand F s0 env (.list xs p) d = (.ok (.list (.sym "quasiquote" ps :: ops) p'), s1)) :
    evalLoop (F+1) st env (.list xs p) d = continueWith F s1 env (quasiquote (ops.getD 0 .nil)) d := by
  rw [evalLoop.eq_2]
  simp (maxSteps := 10000000) only [hp, hm, Bool.false_eq_true, ↓reduceIte, String.reduceEq]
  rfl

theorem evalLoop_defmacro (hp : st.poll = (false, s0))
    (hm : macroexpand F s0 env (.list xs p) d = (.ok (.list (.sym "defmacro" ps :: ops) p'), s1)) :
    evalLoop (F+1) st env (.list xs p) d =
      match eval F s1 env (ops.getD 1 .nil) (d + 1) with
      | (.ok f, s2) =>
        (match f with
         | .fn prm b e _ fp =>
           (match ops.getD 0 .nil with
            | .sym name _ => (.ok (Val.fn prm b e true fp), s2.set env name (Val.fn prm b e true fp))
            | _ => (.err (newLispError (.plain "cannot use value as identifier") (.list (.sym "defmacro" ps :: ops) p')), s2))
         | _ => (.err (newLispError (.plain "defmacro requires a function") (.list (.sym "defmacro" ps :: ops) p')), s2))
      | r => r := by
  rw [evalLoop.eq_2]
  simp (maxSteps := 10000000) only [hp, hm, Bool.false_eq_true, ↓reduceIte, String.reduceEq]
  rfl

theorem evalLoop_app (hp : st.poll = (false, s0))
    (hm : macroexpand F s0 env (.list xs p) d = (.ok (.list (.sym s ps :: ops) p'), s1))
    (ha : s ∉ specialForms) :
    evalLoop (F+1) st env (.list xs p) d =
      match evalList F s1 env (.sym s ps :: ops) d with
      | (.ok el, st) =>
        (match el with
         | [] => (.err (.plain "empty application"), st)
         | f :: args =>
           match f with
           | .fn params body fenv _ _ =>
             (match bindParams params args with
              | .error e =>
                (match e with
                 | .lisp (.goerr m) _ => (.err (.lisp (.goerr (m ++ " (around do)")) none), st)
                 | e => (.err (newLispError e body), st))
              | .ok data => continueWith F (st.newScope fenv data).1 (st.newScope fenv data).2 body d)
           | .builtin name =>
             (match callBuiltin F st name args d with
              | (.ok v, st) => (.ok v, st)
              | (.err e, st) => (.err (newLispError e (.list (.sym s ps :: ops) p')), st)
              | (.oof, st) => (.oof, st))
           | _ => (.err (.lisp (.goerr "attempt to call non-function") none), st))
      | (.err e, st) => (.err e, st)
      | (.oof, st) => (.oof, st) := by
  rw [evalLoop.eq_2]
  simp only [specialForms, List.mem_cons, List.not_mem_nil, or_false, not_or] at ha
  obtain ⟨h1, h2, h3, h4, h5, h6, h7, h8, h9, h10, h11⟩ := ha
  simp (maxSteps := 10000000) only [hp, hm, Bool.false_eq_true, ↓reduceIte,
    h1, h2, h3, h4, h5, h6, h7, h8, h9, h10, h11]
  rfl

end arms

/-! ### macro theorems -/

theorem continueWith_std {F : Nat} {st : State} {env d : Nat} {ast : Val} (h : st.stepper = none) :
    continueWith F st env ast d = evalLoop F st env ast d := by
  simp only [continueWith, h]

/-- evaluating a macro call = evaluating its expansion, in the caller's scope, at the same depth -/
theorem macro_call_eq_expansion {F : Nat} {st s0 s1 st0 : State} {env d : Nat} {xs : List Val}
    {p : Option Pos} {ast' : Val}
    (hp : st.poll = (false, s0))
    (hm : macroexpand F s0 env (.list xs p) d = (.ok ast', s1))
    (hp0 : st0.poll = (false, s1)) :
    evalLoop (F+1) st env (.list xs p) d = evalLoop (F+1) st0 env ast' d := by
  by_cases hl : ∃ ys q, ast' = .list ys q
  · obtain ⟨ys, q, rfl⟩ := hl
    exact evalLoop_congr hp hp0 (by rw [hm, macroexpand_idem hm])
  · have hl' : ∀ ys q, ast' ≠ .list ys q := fun ys q h => hl ⟨ys, q, h⟩
    rw [evalLoop_mac_nonlist hp hm hl', evalLoop_nonlist hp0 hl']

/-- a head that does not resolve to a macro (e.g. an ordinary function) is not expanded -/
theorem functions_unaffected {F : Nat} {st : State} {env d : Nat} {s : String} {p q : Option Pos}
    {args : List Val} (h : NotMacro st env s) :
    macroexpand (F+1) st env (.list (.sym s p :: args) q) d = (.ok (.list (.sym s p :: args) q), st) := by
  apply macroexpand_not_macro
  rintro ⟨s', p', args', q', ps, b, e, fp, heq, hg⟩
  cases heq
  exact h _ _ _ _ hg

theorem alookup_ainsert {α} (k k' : String) (v : α) (l : List (String × α)) :
    alookup k' (ainsert k v l) = if k = k' then some v else alookup k' l := by
  induction l with
  | nil => simp only [ainsert, alookup]
  | cons hd tl ih =>
    obtain ⟨k0, v0⟩ := hd
    simp only [ainsert]
    by_cases h0 : k0 = k
    · subst h0; simp only [↓reduceIte, alookup]; split <;> rfl
    · simp only [h0, ↓reduceIte, alookup, ih]
      by_cases h1 : k0 = k'
      · subst h1; simp only [↓reduceIte]; rw [if_neg (fun h => h0 h.symm)]
      · simp only [h1, ↓reduceIte]

/-- the binding of `k` in scope `i` itself (no climbing) -/
def localGet (st : State) (i : Nat) (k : String) : Option Val :=
  (st.scope? i).bind (fun sc => alookup k sc.data)

/-- `Env.Set` touches one name of one scope -/
theorem set_other (st : State) (env : Nat) (k : String) (v : Val) (i : Nat) (k' : String)
    (h : i ≠ env ∨ k ≠ k') : localGet (st.set env k v) i k' = localGet st i k' := by
  unfold State.set
  cases hs : st.scope? env with
  | none => rfl
  | some sc =>
    simp only [localGet, State.scope?] at hs ⊢
    by_cases hi : i = env
    · subst hi
      have hk : k ≠ k' := by rcases h with h | h; exact absurd rfl h; exact h
      have hlt : i < st.scopes.size := by
        rcases Nat.lt_or_ge i st.scopes.size with h | h
        · exact h
        · rw [Array.getElem?_eq_none h] at hs; cases hs
      rw [Array.getElem?_setIfInBounds_self_of_lt hlt, hs]
      simp only [Option.bind_some, alookup_ainsert, hk, ↓reduceIte]
    · rw [Array.getElem?_setIfInBounds_ne (fun h => hi h.symm)]

theorem defmacro_marks_copy {F : Nat} {st s2 : State} {env d : Nat} {name : String}
    {pd pn p fp : Option Pos} {fexpr prm b : Val} {rest : List Val} {e : Nat} {flag : Bool}
    (hc : st.cancelAt = none) (hnm : NotMacro st env "defmacro")
    (hf : eval (F+1) (tick st) env fexpr (d+1) = (.ok (.fn prm b e flag fp), s2)) :
    evalLoop (F+2) st env (.list (.sym "defmacro" pd :: .sym name pn :: fexpr :: rest) p) d =
      (.ok (.fn prm b e true fp), s2.set env name (.fn prm b e true fp)) := by
  have hm := functions_unaffected (F := F) (d := d) (p := pd) (q := p)
    (args := .sym name pn :: fexpr :: rest) ((NotMacro_addTicks 1).2 hnm)
  rw [evalLoop_defmacro (poll_std hc) hm]
  rw [tick_eq_addTicks] at hf
  simp only [List.getD_cons_succ, List.getD_cons_zero, hf]

/-! ### the builtins of the generated code -/

theorem call_cons (v a : Val) : Core.call "cons" [v, a] =
    some (match seqOf? a with
      | some xs => .ok (.list (v :: xs) none)
      | none => .goerr "GetSlice called on non-sequence") := by
  rfl

theorem call_concat (v a : Val) : Core.call "concat" [v, a] =
    some (if (seqOf? v).isSome && ((seqOf? a).isSome && true) then
        .ok (.list ((seqOf? v).getD [] ++ ((seqOf? a).getD [] ++ [])) none)
      else .goerr "GetSlice called on non-sequence") := by
  rfl

theorem call_vec_list (xs : List Val) (p : Option Pos) :
    Core.call "vec" [.list xs p] = some (.ok (.vec xs none)) := by
  rfl

/-- a builtin of the pure vocabulary: `callBuiltin` is `Core.call` and the state does not move -/
def pureCall (st : State) (name : String) (args : List Val) : R :=
  match Core.call name args with
  | some (.ok v) => (.ok v, st)
  | some (.thrown v) => (.err (.lisp v none), st)
  | some (.goerr m) => (.err (.lisp (.goerr m) none), st)
  | none => (.err (.lisp (.goerr ("unmodelled builtin " ++ name)) none), st)

theorem callBuiltin_cons {F : Nat} {st : State} {args : List Val} {d : Nat} :
    callBuiltin (F+1) st "cons" args d = pureCall st "cons" args := by
  unfold callBuiltin; simp (maxSteps := 1000000) only [String.reduceEq, ↓reduceIte]; rfl
theorem callBuiltin_concat {F : Nat} {st : State} {args : List Val} {d : Nat} :
    callBuiltin (F+1) st "concat" args d = pureCall st "concat" args := by
  unfold callBuiltin; simp (maxSteps := 1000000) only [String.reduceEq, ↓reduceIte]; rfl
theorem callBuiltin_vec {F : Nat} {st : State} {args : List Val} {d : Nat} :
    callBuiltin (F+1) st "vec" args d = pureCall st "vec" args := by
  unfold callBuiltin; simp (maxSteps := 1000000) only [String.reduceEq, ↓reduceIte]; rfl

theorem eval_std {F : Nat} {st : State} {env d : Nat} {ast : Val} (h : st.stepper = none) :
    eval (F+1) st env ast d = evalLoop F st env ast d := by
  rw [eval.eq_2]; simp only [h]

theorem eval_sym {F : Nat} {st : State} {env d : Nat} {s : String} {p : Option Pos} {v : Val}
    (hs : Std st) (hg : st.get env s = some v) :
    eval (F+3) st env (.sym s p) d = (.ok v, tick st) := by
  rw [eval_std hs.1, evalLoop_nonlist (poll_std hs.2) (by intro _ _ h; cases h), evalAst.eq_2]
  simp only [tick_get, hg]

/-! ### one step of the generated code -/

theorem evalLoop_builtin2 {F : Nat} {st : State} {env d : Nat} {s nm : String} {x y : Val}
    (hs : Std st) (hg : st.get env s = some (.builtin nm)) (hsf : s ∉ specialForms) :
    evalLoop (F+5) st env (.list [.sym s none, x, y] none) d =
      match eval (F+2) (addTicks 2 st) env x (d+1) with
      | (.ok v, s1) =>
        (match eval (F+1) s1 env y (d+1) with
         | (.ok a, s2) =>
           (match callBuiltin (F+4) s2 nm [v, a] d with
            | (.ok r, s3) => (.ok r, s3)
            | (.err e, s3) => (.err (newLispError e (.list [.sym s none, x, y] none)), s3)
            | (.oof, s3) => (.oof, s3))
         | (.err e, s2) => (.err e, s2)
         | (.oof, s2) => (.oof, s2))
      | (.err e, s1) => (.err e, s1)
      | (.oof, s1) => (.oof, s1) := by
  have hnm : NotMacro (tick st) env s :=
    (NotMacro_addTicks 1).2 (NotMacro_of_get hg (by intro _ _ _ _ h; cases h))
  rw [evalLoop_app (poll_std hs.2) (functions_unaffected hnm) hsf]
  rw [evalList.eq_3, eval_sym (Std.tick hs) (by rw [tick_get]; exact hg)]
  simp only [evalList.eq_3, evalList.eq_2]
  have : tick (tick st) = addTicks 2 st := rfl
  rw [this]
  rcases eval (F+2) (addTicks 2 st) env x (d+1) with ⟨r1, s1⟩
  cases r1 with
  | ok v =>
    simp only
    rcases eval (F+1) s1 env y (d+1) with ⟨r2, s2⟩
    cases r2 <;> rfl
  | err e => rfl
  | oof => rfl

theorem evalLoop_builtin1 {F : Nat} {st : State} {env d : Nat} {s nm : String} {x : Val}
    (hs : Std st) (hg : st.get env s = some (.builtin nm)) (hsf : s ∉ specialForms) :
    evalLoop (F+5) st env (.list [.sym s none, x] none) d =
      match eval (F+2) (addTicks 2 st) env x (d+1) with
      | (.ok a, s2) =>
        (match callBuiltin (F+4) s2 nm [a] d with
         | (.ok r, s3) => (.ok r, s3)
         | (.err e, s3) => (.err (newLispError e (.list [.sym s none, x] none)), s3)
         | (.oof, s3) => (.oof, s3))
      | (.err e, s1) => (.err e, s1)
      | (.oof, s1) => (.oof, s1) := by
  have hnm : NotMacro (tick st) env s :=
    (NotMacro_addTicks 1).2 (NotMacro_of_get hg (by intro _ _ _ _ h; cases h))
  rw [evalLoop_app (poll_std hs.2) (functions_unaffected hnm) hsf]
  rw [evalList.eq_3, eval_sym (Std.tick hs) (by rw [tick_get]; exact hg)]
  simp only [evalList.eq_3, evalList.eq_2]
  have : tick (tick st) = addTicks 2 st := rfl
  rw [this]
  rcases eval (F+2) (addTicks 2 st) env x (d+1) with ⟨r1, s1⟩
  cases r1 <;> rfl

theorem cons_form {F : Nat} {st : State} {env d : Nat} {q acc : Val}
    (hs : Std st) (hb : CoreBound st env) :
    evalLoop (F+5) st env (.list [.sym "cons" none, q, acc] none) d =
      match eval (F+2) (addTicks 2 st) env q (d+1) with
      | (.ok v, s1) =>
        (match eval (F+1) s1 env acc (d+1) with
         | (.ok a, s2) =>
           (match seqOf? a with
            | some xs => (.ok (.list (v :: xs) none), s2)
            | none => (.err spliceErr, s2))
         | (.err e, s2) => (.err e, s2)
         | (.oof, s2) => (.oof, s2))
      | (.err e, s1) => (.err e, s1)
      | (.oof, s1) => (.oof, s1) := by
  rw [evalLoop_builtin2 hs hb.1 (by decide)]
  rcases eval (F+2) (addTicks 2 st) env q (d+1) with ⟨r1, s1⟩
  cases r1 with
  | ok v =>
    simp only
    rcases eval (F+1) s1 env acc (d+1) with ⟨r2, s2⟩
    cases r2 with
    | ok a =>
      simp only [callBuiltin_cons, pureCall, call_cons]
      cases seqOf? a <;> rfl
    | err e => rfl
    | oof => rfl
  | err e => rfl
  | oof => rfl

theorem concat_form {F : Nat} {st : State} {env d : Nat} {x acc : Val}
    (hs : Std st) (hb : CoreBound st env) :
    evalLoop (F+5) st env (.list [.sym "concat" none, x, acc] none) d =
      match eval (F+2) (addTicks 2 st) env x (d+1) with
      | (.ok v, s1) =>
        (match eval (F+1) s1 env acc (d+1) with
         | (.ok a, s2) =>
           (match seqOf? v, seqOf? a with
            | some ys, some xs => (.ok (.list (ys ++ xs) none), s2)
            | _, _ => (.err spliceErr, s2))
         | (.err e, s2) => (.err e, s2)
         | (.oof, s2) => (.oof, s2))
      | (.err e, s1) => (.err e, s1)
      | (.oof, s1) => (.oof, s1) := by
  rw [evalLoop_builtin2 hs hb.2.1 (by decide)]
  rcases eval (F+2) (addTicks 2 st) env x (d+1) with ⟨r1, s1⟩
  cases r1 with
  | ok v =>
    simp only
    rcases eval (F+1) s1 env acc (d+1) with ⟨r2, s2⟩
    cases r2 with
    | ok a =>
      simp only [callBuiltin_concat, pureCall, call_concat]
      cases seqOf? v <;> cases seqOf? a <;> simp [spliceErr, newLispError, getPosition]
    | err e => rfl
    | oof => rfl
  | err e => rfl
  | oof => rfl

theorem vec_form {F : Nat} {st : State} {env d : Nat} {x : Val}
    (hs : Std st) (hb : CoreBound st env) :
    evalLoop (F+5) st env (.list [.sym "vec" none, x] none) d =
      match eval (F+2) (addTicks 2 st) env x (d+1) with
      | (.ok a, s2) =>
          (match pureCall s2 "vec" [a] with
           | (.ok r, s3) => (.ok r, s3)
           | (.err e, s3) => (.err (newLispError e (.list [.sym "vec" none, x] none)), s3)
           | (.oof, s3) => (.oof, s3))
      | (.err e, s1) => (.err e, s1)
      | (.oof, s1) => (.oof, s1) := by
  rw [evalLoop_builtin1 hs hb.2.2.1 (by decide)]
  simp only [callBuiltin_vec]

theorem quote_form {F : Nat} {st : State} {env d : Nat} {v : Val}
    (hs : Std st) (hq : NotMacro st env "quote") :
    evalLoop (F+2) st env (.list [.sym "quote" none, v] none) d = (.ok v, tick st) := by
  rw [evalLoop_quote (poll_std hs.2) (functions_unaffected ((NotMacro_addTicks 1).2 hq))]
  rfl

theorem empty_form {F : Nat} {st : State} {env d : Nat} (hs : Std st) :
    evalLoop (F+2) st env (.list [] none) d = (.ok (.list [] none), tick st) := by
  rw [evalLoop_mac_empty (poll_std hs.2) (macroexpand_not_macro _)]
  rintro ⟨s, p, args, q, ps, b, e, fp, heq, _⟩
  cases heq

/-- values that `quasiquote` leaves alone evaluate to themselves -/
theorem literal_form {F : Nat} {st : State} {env d : Nat} {v : Val} (hs : Std st)
    (h1 : ∀ xs p, v ≠ .list xs p) (h2 : ∀ xs p, v ≠ .vec xs p) (h3 : ∀ m, v ≠ .map m)
    (h4 : ∀ s p, v ≠ .sym s p) :
    evalLoop (F+2) st env v d = (.ok v, tick st) := by
  rw [evalLoop_nonlist (poll_std hs.2) h1]
  cases v <;> first | (unfold evalAst; rfl) | exact absurd rfl (h1 _ _) | exact absurd rfl (h2 _ _) | exact absurd rfl (h3 _) | exact absurd rfl (h4 _ _)

/-! ### "for all large enough fuel, up to polls" -/

/-- evaluating `code` from `st` (or from `st` after any number of extra polls) ends, for all large
    enough fuel, with result `r` in state `st'` up to extra polls -/
def Reaches (st : State) (env : Nat) (code : Val) (d : Nat) (r : Res Val) (st' : State) : Prop :=
  ∃ F₀, ∀ F, F₀ ≤ F → ∀ j, ∃ k, evalLoop F (addTicks j st) env code d = (r, addTicks k st')

theorem exists_add_of_le {a F : Nat} (h : a ≤ F) : ∃ n, F = n + a := ⟨F - a, by omega⟩

theorem reaches_vec_ok {st se : State} {env d : Nat} {L : Val} {vs : List Val}
    (hs : Std st) (hb : CoreBound st env) (h : Reaches st env L (d+1) (.ok (.list vs none)) se) :
    Reaches st env (.list [.sym "vec" none, L] none) d (.ok (.vec vs none)) se := by
  obtain ⟨F1, h1⟩ := h
  refine ⟨F1 + 5, fun F hF j => ?_⟩
  obtain ⟨n, rfl⟩ := exists_add_of_le (Nat.le_trans (Nat.le_add_left 5 F1) hF)
  rw [vec_form (Std.addTicks hs j) ((CoreBound_addTicks j).2 hb), addTicks_addTicks,
    eval_std (Std.addTicks hs _).1]
  obtain ⟨k, e1⟩ := h1 (n+1) (by omega) (j+2)
  rw [e1]
  exact ⟨k, rfl⟩

theorem reaches_vec_err {st se : State} {env d : Nat} {L : Val} {e : Err}
    (hs : Std st) (hb : CoreBound st env) (h : Reaches st env L (d+1) (.err e) se) :
    Reaches st env (.list [.sym "vec" none, L] none) d (.err e) se := by
  obtain ⟨F1, h1⟩ := h
  refine ⟨F1 + 5, fun F hF j => ?_⟩
  obtain ⟨n, rfl⟩ := exists_add_of_le (Nat.le_trans (Nat.le_add_left 5 F1) hF)
  rw [vec_form (Std.addTicks hs j) ((CoreBound_addTicks j).2 hb), addTicks_addTicks,
    eval_std (Std.addTicks hs _).1]
  obtain ⟨k, e1⟩ := h1 (n+1) (by omega) (j+2)
  rw [e1]
  exact ⟨k, rfl⟩

section comb
variable {st s1 s2 : State} {env d : Nat} {q acc : Val} {v : Val} {vs ys : List Val} {e : Err} {hd : String}

/-- shared script: unfold a two-operand form at fuel `n+5` from `addTicks j st` -/
local macro "form2_tac" form:term "," hs:ident "," hb:ident "," j:ident : tactic => `(tactic|
  rw [$form:term (Std.addTicks $hs $j) ((CoreBound_addTicks $j).2 $hb), addTicks_addTicks,
    eval_std (Std.addTicks $hs _).1])

theorem reaches_cons_err1 (hs : Std st) (hb : CoreBound st env)
    (h : Reaches st env q (d+1) (.err e) s1) :
    Reaches st env (.list [.sym "cons" none, q, acc] none) d (.err e) s1 := by
  obtain ⟨F1, h1⟩ := h
  refine ⟨F1 + 5, fun F hF j => ?_⟩
  obtain ⟨n, rfl⟩ := exists_add_of_le (Nat.le_trans (Nat.le_add_left 5 F1) hF)
  form2_tac cons_form, hs, hb, j
  obtain ⟨k, e1⟩ := h1 (n+1) (by omega) (j+2)
  rw [e1]; exact ⟨k, rfl⟩

theorem reaches_concat_err1 (hs : Std st) (hb : CoreBound st env)
    (h : Reaches st env q (d+1) (.err e) s1) :
    Reaches st env (.list [.sym "concat" none, q, acc] none) d (.err e) s1 := by
  obtain ⟨F1, h1⟩ := h
  refine ⟨F1 + 5, fun F hF j => ?_⟩
  obtain ⟨n, rfl⟩ := exists_add_of_le (Nat.le_trans (Nat.le_add_left 5 F1) hF)
  form2_tac concat_form, hs, hb, j
  obtain ⟨k, e1⟩ := h1 (n+1) (by omega) (j+2)
  rw [e1]; exact ⟨k, rfl⟩

theorem reaches_cons_err2 (hs : Std st) (hb : CoreBound st env)
    (h : Reaches st env q (d+1) (.ok v) s1) (hs1 : Std s1)
    (h' : Reaches s1 env acc (d+1) (.err e) s2) :
    Reaches st env (.list [.sym "cons" none, q, acc] none) d (.err e) s2 := by
  obtain ⟨F1, h1⟩ := h
  obtain ⟨F2, h2⟩ := h'
  refine ⟨F1 + F2 + 5, fun F hF j => ?_⟩
  obtain ⟨n, rfl⟩ := exists_add_of_le (Nat.le_trans (Nat.le_add_left 5 (F1 + F2)) hF)
  form2_tac cons_form, hs, hb, j
  obtain ⟨k, e1⟩ := h1 (n+1) (by omega) (j+2)
  rw [e1]; simp only
  rw [eval_std (Std.addTicks hs1 _).1]
  obtain ⟨k2, e2⟩ := h2 n (by omega) k
  rw [e2]; exact ⟨k2, rfl⟩

theorem reaches_concat_err2 (hs : Std st) (hb : CoreBound st env)
    (h : Reaches st env q (d+1) (.ok v) s1) (hs1 : Std s1)
    (h' : Reaches s1 env acc (d+1) (.err e) s2) :
    Reaches st env (.list [.sym "concat" none, q, acc] none) d (.err e) s2 := by
  obtain ⟨F1, h1⟩ := h
  obtain ⟨F2, h2⟩ := h'
  refine ⟨F1 + F2 + 5, fun F hF j => ?_⟩
  obtain ⟨n, rfl⟩ := exists_add_of_le (Nat.le_trans (Nat.le_add_left 5 (F1 + F2)) hF)
  form2_tac concat_form, hs, hb, j
  obtain ⟨k, e1⟩ := h1 (n+1) (by omega) (j+2)
  rw [e1]; simp only
  rw [eval_std (Std.addTicks hs1 _).1]
  obtain ⟨k2, e2⟩ := h2 n (by omega) k
  rw [e2]; exact ⟨k2, rfl⟩

theorem reaches_cons_ok (hs : Std st) (hb : CoreBound st env)
    (h : Reaches st env q (d+1) (.ok v) s1) (hs1 : Std s1)
    (h' : Reaches s1 env acc (d+1) (.ok (.list vs none)) s2) :
    Reaches st env (.list [.sym "cons" none, q, acc] none) d (.ok (.list (v :: vs) none)) s2 := by
  obtain ⟨F1, h1⟩ := h
  obtain ⟨F2, h2⟩ := h'
  refine ⟨F1 + F2 + 5, fun F hF j => ?_⟩
  obtain ⟨n, rfl⟩ := exists_add_of_le (Nat.le_trans (Nat.le_add_left 5 (F1 + F2)) hF)
  form2_tac cons_form, hs, hb, j
  obtain ⟨k, e1⟩ := h1 (n+1) (by omega) (j+2)
  rw [e1]; simp only
  rw [eval_std (Std.addTicks hs1 _).1]
  obtain ⟨k2, e2⟩ := h2 n (by omega) k
  rw [e2]; exact ⟨k2, rfl⟩

theorem reaches_concat_ok (hs : Std st) (hb : CoreBound st env)
    (h : Reaches st env q (d+1) (.ok v) s1) (hs1 : Std s1)
    (h' : Reaches s1 env acc (d+1) (.ok (.list vs none)) s2) :
    Reaches st env (.list [.sym "concat" none, q, acc] none) d
      (match seqOf? v with | some ys => .ok (.list (ys ++ vs) none) | none => .err spliceErr) s2 := by
  obtain ⟨F1, h1⟩ := h
  obtain ⟨F2, h2⟩ := h'
  refine ⟨F1 + F2 + 5, fun F hF j => ?_⟩
  obtain ⟨n, rfl⟩ := exists_add_of_le (Nat.le_trans (Nat.le_add_left 5 (F1 + F2)) hF)
  form2_tac concat_form, hs, hb, j
  obtain ⟨k, e1⟩ := h1 (n+1) (by omega) (j+2)
  rw [e1]; simp only
  rw [eval_std (Std.addTicks hs1 _).1]
  obtain ⟨k2, e2⟩ := h2 n (by omega) k
  rw [e2]
  refine ⟨k2, ?_⟩
  cases seqOf? v <;> rfl

end comb

theorem reaches_quote {st : State} {env d : Nat} {v : Val} (hs : Std st) (hq : NotMacro st env "quote") :
    Reaches st env (.list [.sym "quote" none, v] none) d (.ok v) st := by
  refine ⟨2, fun F hF j => ?_⟩
  obtain ⟨n, rfl⟩ := exists_add_of_le hF
  rw [quote_form (Std.addTicks hs j) ((NotMacro_addTicks j).2 hq)]
  exact ⟨j + 1, rfl⟩

theorem reaches_empty {st : State} {env d : Nat} (hs : Std st) :
    Reaches st env (.list [] none) d (.ok (.list [] none)) st := by
  refine ⟨2, fun F hF j => ?_⟩
  obtain ⟨n, rfl⟩ := exists_add_of_le hF
  rw [empty_form (Std.addTicks hs j)]
  exact ⟨j + 1, rfl⟩

theorem reaches_literal {st : State} {env d : Nat} {v : Val} (hs : Std st)
    (h1 : ∀ xs p, v ≠ .list xs p) (h2 : ∀ xs p, v ≠ .vec xs p) (h3 : ∀ m, v ≠ .map m)
    (h4 : ∀ s p, v ≠ .sym s p) : Reaches st env v d (.ok v) st := by
  refine ⟨2, fun F hF j => ?_⟩
  obtain ⟨n, rfl⟩ := exists_add_of_le hF
  rw [literal_form (Std.addTicks hs j) h1 h2 h3 h4]
  exact ⟨j + 1, rfl⟩

/-! ### what the main theorem needs to know about `eval` of the user's expressions -/

/-- the general fact about `eval` of arbitrary code (proved in Proofs/QQEval.lean by induction over
    the whole mutual block): under the standard side conditions a result other than out-of-fuel is
    stable under more fuel, does not observe the poll counter, and leaves the side conditions intact -/
structure EvalFacts : Prop where
  run : ∀ {F : Nat} {st : State} {env : Nat} {e : Val} {d : Nat} {r : Res Val} {st' : State},
    Std st → eval F st env e d = (r, st') → r ≠ .oof →
    Std st' ∧ ∀ F', F ≤ F' → ∀ j, eval F' (addTicks j st) env e d = (r, addTicks j st')
  /-- extra polls before = the same extra polls after, whatever the outcome (out-of-fuel included) -/
  shift : ∀ {F : Nat} {st : State} {env : Nat} {e : Val} {d : Nat} (j : Nat), Std st →
    eval F (addTicks j st) env e d = ((eval F st env e d).1, addTicks j (eval F st env e d).2)

theorem EvalFacts.std' (ef : EvalFacts) {F : Nat} {st st' : State} {env d : Nat} {e : Val} {r : Res Val}
    (hs : Std st) (h : eval F st env e d = (r, st')) (hr : r ≠ .oof) : Std st' :=
  (ef.run hs h hr).1

theorem reaches_of_eval (ef : EvalFacts) {F : Nat} {st st' : State} {env d : Nat} {e : Val} {r : Res Val}
    (hs : Std st) (h : eval F st env e d = (r, st')) (hr : r ≠ .oof) : Reaches st env e d r st' := by
  refine ⟨F, fun F' hF j => ⟨j, ?_⟩⟩
  rw [← eval_std (Std.addTicks hs j).1]
  exact (ef.run hs h hr).2 (F'+1) (Nat.le_succ_of_le hF) j

/-! ### the main theorem -/

theorem qq_literal_case {env : Nat} {I : State → Prop} {v : Val} {F : Nat} {st st' : State} {d : Nat}
    {r : Res Val}
    (h1 : ∀ xs p, v ≠ .list xs p) (h2 : ∀ xs p, v ≠ .vec xs p) (h3 : ∀ m, v ≠ .map m)
    (h4 : ∀ s p, v ≠ .sym s p) (hi : I st) (hs : Std st) (h : qqSubst F env st v d = (r, st')) :
    I st' ∧ Std st' ∧ Reaches st env (quasiquote v) d r st' := by
  rw [qqSubst.eq_3 _ _ _ _ _ (fun xs p h => h2 xs p h) (fun xs p h => h1 xs p h)] at h
  cases h
  refine ⟨hi, hs, ?_⟩
  have : quasiquote v = v := by
    cases v <;> first | rfl | exact absurd rfl (h1 _ _) | exact absurd rfl (h2 _ _) | exact absurd rfl (h3 _) | exact absurd rfl (h4 _ _)
  rw [this]
  exact reaches_literal hs h1 h2 h3 h4

mutual
theorem qq_main (ef : EvalFacts) (env : Nat) (I : State → Prop) (hI : ∀ st, I st → CoreBound st env) :
    ∀ (t : Val) (F : Nat) (st : State) (d : Nat) (r : Res Val) (st' : State),
    (∀ e ∈ qqExprs t, Preserves I env e) → I st → Std st →
    qqSubst F env st t d = (r, st') → r ≠ .oof →
    I st' ∧ Std st' ∧ Reaches st env (quasiquote t) d r st'
  | .vec xs p, F, st, d, r, st', hp, hi, hs, h, hr => by
    rw [qqSubst.eq_1] at h
    rcases he : qqElems F env st xs (d+1) with ⟨re, se⟩
    rw [he] at h
    have hp' : ∀ e ∈ qqExprsL xs, Preserves I env e := by
      intro e he; exact hp e (by rw [qqExprs.eq_1]; exact he)
    rw [quasiquote.eq_1]
    cases re with
    | oof => cases h; exact absurd rfl hr
    | ok vs =>
      cases h
      obtain ⟨hi', hs', hR⟩ := qq_elems ef env I hI xs F st (d+1) _ _ hp' hi hs he (by intro h; cases h)
      exact ⟨hi', hs', reaches_vec_ok hs (hI _ hi) hR⟩
    | err e =>
      cases h
      obtain ⟨hi', hs', hR⟩ := qq_elems ef env I hI xs F st (d+1) _ _ hp' hi hs he (by intro h; cases h)
      exact ⟨hi', hs', reaches_vec_err hs (hI _ hi) hR⟩
  | .list xs p, F, st, d, r, st', hp, hi, hs, h, hr => by
    rw [qqSubst.eq_2] at h
    rw [quasiquote_list]
    rw [qqExprs.eq_2] at hp
    cases hu : unquoteArg? (.list xs p) with
    | some e =>
      rw [hu] at h hp
      simp only at h ⊢
      exact ⟨hp e (List.mem_singleton.2 rfl) _ _ _ _ _ hi h, ef.std' hs h hr, reaches_of_eval ef hs h hr⟩
    | none =>
      rw [hu] at h hp
      simp only at h hp ⊢
      rcases he : qqElems F env st xs d with ⟨re, se⟩
      rw [he] at h
      cases re with
      | oof => cases h; exact absurd rfl hr
      | ok vs =>
        cases h
        exact qq_elems ef env I hI xs F st d _ _ hp hi hs he (by intro h; cases h)
      | err e =>
        cases h
        exact qq_elems ef env I hI xs F st d _ _ hp hi hs he (by intro h; cases h)
  | .map m, F, st, d, r, st', hp, hi, hs, h, hr => by
    rw [qqSubst.eq_3 _ _ _ _ _ (by intro _ _ h; cases h) (by intro _ _ h; cases h)] at h
    cases h
    rw [quasiquote.eq_2]
    exact ⟨hi, hs, reaches_quote hs (hI _ hi).2.2.2⟩
  | .sym s p, F, st, d, r, st', hp, hi, hs, h, hr => by
    rw [qqSubst.eq_3 _ _ _ _ _ (by intro _ _ h; cases h) (by intro _ _ h; cases h)] at h
    cases h
    rw [quasiquote.eq_3]
    exact ⟨hi, hs, reaches_quote hs (hI _ hi).2.2.2⟩
  | .nil, F, st, d, r, st', hp, hi, hs, h, hr =>
    qq_literal_case (by intro _ _ h; cases h) (by intro _ _ h; cases h) (by intro _ h; cases h) (by intro _ _ h; cases h) hi hs h
  | .bool _, F, st, d, r, st', hp, hi, hs, h, hr =>
    qq_literal_case (by intro _ _ h; cases h) (by intro _ _ h; cases h) (by intro _ h; cases h) (by intro _ _ h; cases h) hi hs h
  | .int _, F, st, d, r, st', hp, hi, hs, h, hr =>
    qq_literal_case (by intro _ _ h; cases h) (by intro _ _ h; cases h) (by intro _ h; cases h) (by intro _ _ h; cases h) hi hs h
  | .str _, F, st, d, r, st', hp, hi, hs, h, hr =>
    qq_literal_case (by intro _ _ h; cases h) (by intro _ _ h; cases h) (by intro _ h; cases h) (by intro _ _ h; cases h) hi hs h
  | .set _, F, st, d, r, st', hp, hi, hs, h, hr =>
    qq_literal_case (by intro _ _ h; cases h) (by intro _ _ h; cases h) (by intro _ h; cases h) (by intro _ _ h; cases h) hi hs h
  | .fn .., F, st, d, r, st', hp, hi, hs, h, hr =>
    qq_literal_case (by intro _ _ h; cases h) (by intro _ _ h; cases h) (by intro _ h; cases h) (by intro _ _ h; cases h) hi hs h
  | .builtin _, F, st, d, r, st', hp, hi, hs, h, hr =>
    qq_literal_case (by intro _ _ h; cases h) (by intro _ _ h; cases h) (by intro _ h; cases h) (by intro _ _ h; cases h) hi hs h
  | .atom _, F, st, d, r, st', hp, hi, hs, h, hr =>
    qq_literal_case (by intro _ _ h; cases h) (by intro _ _ h; cases h) (by intro _ h; cases h) (by intro _ _ h; cases h) hi hs h
  | .future _, F, st, d, r, st', hp, hi, hs, h, hr =>
    qq_literal_case (by intro _ _ h; cases h) (by intro _ _ h; cases h) (by intro _ h; cases h) (by intro _ _ h; cases h) hi hs h
  | .goerr _, F, st, d, r, st', hp, hi, hs, h, hr =>
    qq_literal_case (by intro _ _ h; cases h) (by intro _ _ h; cases h) (by intro _ h; cases h) (by intro _ _ h; cases h) hi hs h
  | .opaque _, F, st, d, r, st', hp, hi, hs, h, hr =>
    qq_literal_case (by intro _ _ h; cases h) (by intro _ _ h; cases h) (by intro _ h; cases h) (by intro _ _ h; cases h) hi hs h
theorem qq_elems (ef : EvalFacts) (env : Nat) (I : State → Prop) (hI : ∀ st, I st → CoreBound st env) :
    ∀ (xs : List Val) (F : Nat) (st : State) (d : Nat) (r : Res (List Val)) (st' : State),
    (∀ e ∈ qqExprsL xs, Preserves I env e) → I st → Std st →
    qqElems F env st xs d = (r, st') → r ≠ .oof →
    I st' ∧ Std st' ∧ Reaches st env (qqLoop xs) d (listRes r) st'
  | [], F, st, d, r, st', hp, hi, hs, h, hr => by
    rw [qqElems.eq_1] at h
    cases h
    rw [qqLoop.eq_1]
    exact ⟨hi, hs, reaches_empty hs⟩
  | elt :: rest, F, st, d, r, st', hp, hi, hs, h, hr => by
    rw [qqElems.eq_2] at h
    rw [qqLoop_cons]
    rw [qqExprsL.eq_2] at hp
    have hpr : ∀ e ∈ qqExprsL rest, Preserves I env e := fun e he => hp e (List.mem_append_right _ he)
    cases hsp : spliceArg? elt with
    | some x =>
      rw [hsp] at h hp
      simp only at h hp ⊢
      have hpx : Preserves I env x := hp x (List.mem_append_left _ (List.mem_singleton.2 rfl))
      rcases h1 : eval F st env x (d+1) with ⟨r1, s1⟩
      rw [h1] at h
      cases r1 with
      | oof => cases h; exact absurd rfl hr
      | err e =>
        cases h
        exact ⟨hpx _ _ _ _ _ hi h1, ef.std' hs h1 (by intro h; cases h),
          reaches_concat_err1 hs (hI _ hi) (reaches_of_eval ef hs h1 (by intro h; cases h))⟩
      | ok v =>
        simp only at h
        have hi1 := hpx _ _ _ _ _ hi h1
        have hs1 := ef.std' hs h1 (by intro h; cases h)
        have hR1 := reaches_of_eval ef hs h1 (by intro h; cases h)
        rcases h2 : qqElems F env s1 rest (d+1) with ⟨r2, s2⟩
        rw [h2] at h
        cases r2 with
        | oof => cases h; exact absurd rfl hr
        | err e =>
          cases h
          obtain ⟨hi2, hs2, hR2⟩ :=
            qq_elems ef env I hI rest F s1 (d+1) _ _ hpr hi1 hs1 h2 (by intro h; cases h)
          exact ⟨hi2, hs2, reaches_concat_err2 hs (hI _ hi) hR1 hs1 hR2⟩
        | ok vs =>
          simp only at h
          obtain ⟨hi2, hs2, hR2⟩ :=
            qq_elems ef env I hI rest F s1 (d+1) _ _ hpr hi1 hs1 h2 (by intro h; cases h)
          have hR := reaches_concat_ok hs (hI _ hi) hR1 hs1 hR2
          cases hv : seqOf? v with
          | none => rw [hv] at h hR; cases h; exact ⟨hi2, hs2, hR⟩
          | some ys => rw [hv] at h hR; cases h; exact ⟨hi2, hs2, hR⟩
    | none =>
      rw [hsp] at h hp
      simp only at h hp ⊢
      have hpx : ∀ e ∈ qqExprs elt, Preserves I env e := fun e he => hp e (List.mem_append_left _ he)
      rcases h1 : qqSubst F env st elt (d+1) with ⟨r1, s1⟩
      rw [h1] at h
      cases r1 with
      | oof => cases h; exact absurd rfl hr
      | err e =>
        cases h
        obtain ⟨hi1, hs1, hR1⟩ := qq_main ef env I hI elt F st (d+1) _ _ hpx hi hs h1 (by intro h; cases h)
        exact ⟨hi1, hs1, reaches_cons_err1 hs (hI _ hi) hR1⟩
      | ok v =>
        simp only at h
        obtain ⟨hi1, hs1, hR1⟩ := qq_main ef env I hI elt F st (d+1) _ _ hpx hi hs h1 (by intro h; cases h)
        rcases h2 : qqElems F env s1 rest (d+1) with ⟨r2, s2⟩
        rw [h2] at h
        cases r2 with
        | oof => cases h; exact absurd rfl hr
        | err e =>
          cases h
          obtain ⟨hi2, hs2, hR2⟩ :=
            qq_elems ef env I hI rest F s1 (d+1) _ _ hpr hi1 hs1 h2 (by intro h; cases h)
          exact ⟨hi2, hs2, reaches_cons_err2 hs (hI _ hi) hR1 hs1 hR2⟩
        | ok vs =>
          cases h
          obtain ⟨hi2, hs2, hR2⟩ :=
            qq_elems ef env I hI rest F s1 (d+1) _ _ hpr hi1 hs1 h2 (by intro h; cases h)
          exact ⟨hi2, hs2, reaches_cons_ok hs (hI _ hi) hR1 hs1 hR2⟩
end

/-! ### simple facts about the specification -/

theorem qq_effect_order (F env : Nat) : ∀ (es : List Val) (st : State) (d : Nat),
    qqElems F env st (es.map unq) d = seqEval F env st es d
  | [], st, d => by rw [List.map_nil, qqElems.eq_1, seqEval.eq_1]
  | e :: rest, st, d => by
    have h1 : spliceArg? (unq e) = none := rfl
    have h2 : qqSubst F env st (unq e) (d+1) = eval F st env e (d+1) := by
      unfold unq; rw [qqSubst.eq_2]; rfl
    rw [List.map_cons, qqElems.eq_2, seqEval.eq_2, h1]
    simp only [h2]
    rcases eval F st env e (d+1) with ⟨r1, s1⟩
    cases r1 with
    | ok v => simp only [qq_effect_order F env rest s1 (d+1)]
    | err e => rfl
    | oof => rfl

mutual
theorem qq_literal (F env : Nat) : ∀ (t : Val) (st : State) (d : Nat), qqExprs t = [] →
    qqSubst F env st t d = (.ok (dropSeqPos t), st)
  | .vec xs p, st, d, h => by
    rw [qqExprs.eq_1] at h
    rw [qqSubst.eq_1, qq_literalL F env xs st (d+1) h, dropSeqPos.eq_1]
  | .list xs p, st, d, h => by
    rw [qqExprs.eq_2] at h
    rw [qqSubst.eq_2]
    cases hu : unquoteArg? (.list xs p) with
    | some e => rw [hu] at h; cases h
    | none =>
      rw [hu] at h
      simp only at h ⊢
      rw [qq_literalL F env xs st d h, dropSeqPos.eq_2]
  | .nil, st, d, h => rfl
  | .bool _, st, d, h => rfl
  | .int _, st, d, h => rfl
  | .str _, st, d, h => rfl
  | .sym _ _, st, d, h => rfl
  | .map _, st, d, h => rfl
  | .set _, st, d, h => rfl
  | .fn .., st, d, h => rfl
  | .builtin _, st, d, h => rfl
  | .atom _, st, d, h => rfl
  | .future _, st, d, h => rfl
  | .goerr _, st, d, h => rfl
  | .opaque _, st, d, h => rfl
theorem qq_literalL (F env : Nat) : ∀ (xs : List Val) (st : State) (d : Nat), qqExprsL xs = [] →
    qqElems F env st xs d = (.ok (dropSeqPosL xs), st)
  | [], st, d, h => by rw [qqElems.eq_1, dropSeqPosL.eq_1]
  | elt :: rest, st, d, h => by
    rw [qqExprsL.eq_2] at h
    obtain ⟨h1, h2⟩ := List.append_eq_nil_iff.1 h
    rw [qqElems.eq_2]
    cases hsp : spliceArg? elt with
    | some e => rw [hsp] at h1; cases h1
    | none =>
      rw [hsp] at h1
      simp only at h1 ⊢
      rw [qq_literal F env elt st (d+1) h1]
      simp only
      rw [qq_literalL F env rest st (d+1) h2, dropSeqPosL.eq_2]
end

/-- the spec keeps vectors vectors -/
theorem qqSubst_vec_ok {F env : Nat} {st st' : State} {xs : List Val} {p : Option Pos} {d : Nat} {v : Val}
    (h : qqSubst F env st (.vec xs p) d = (.ok v, st')) :
    ∃ vs, v = .vec vs none ∧ qqElems F env st xs (d+1) = (.ok vs, st') := by
  rw [qqSubst.eq_1] at h
  rcases he : qqElems F env st xs (d+1) with ⟨re, se⟩
  rw [he] at h
  cases re with
  | ok vs => cases h; exact ⟨vs, rfl, rfl⟩
  | err e => cases h
  | oof => cases h

/-! ### `CoreBound`: the root scope, child scopes -/

theorem coreBound_init : CoreBound initState 0 := by
  refine ⟨by rfl, by rfl, by rfl, ?_⟩
  have : initState.get 0 "quote" = none := by rfl
  intro ps b e p h; rw [this] at h; cases h

theorem getAux_push {st : State} (hwf : StoreWF st) (x : Scope) (k : String) :
    ∀ (n id : Nat), id < st.scopes.size →
      State.getAux { st with scopes := st.scopes.push x } n id k = State.getAux st n id k := by
  intro n
  induction n with
  | zero => intro id _; rfl
  | succ n ih =>
    intro id hid
    simp only [State.getAux, State.scope?]
    rw [Array.getElem?_push_lt hid]
    have hsc : st.scopes[id]? = some st.scopes[id] := Array.getElem?_eq_getElem hid
    rw [hsc]
    simp only
    cases alookup k st.scopes[id].data with
    | some v => rfl
    | none =>
      simp only
      cases ho : st.scopes[id].outer with
      | none => rfl
      | some o => exact ih o (hwf id _ hsc o ho)

/-- what a name means in a fresh child scope: its own binding, else what it means in the parent -/
theorem get_newScope {st : State} (hwf : StoreWF st) {env : Nat} (henv : env < st.scopes.size)
    (data : List (String × Val)) (k : String) :
    (st.newScope env data).1.get (st.newScope env data).2 k =
      match alookup k data with
      | some v => some v
      | none => st.get env k := by
  simp only [State.newScope, State.get, Array.size_push]
  rw [State.getAux]
  simp only [State.scope?, Array.getElem?_push_size]
  cases alookup k data with
  | some v => rfl
  | none => exact getAux_push hwf _ k _ env henv

/-- `CoreBound` is inherited by a child scope that does not bind the four names -/
theorem coreBound_child {st : State} (hwf : StoreWF st) {env : Nat} (henv : env < st.scopes.size)
    (hb : CoreBound st env) (data : List (String × Val))
    (h1 : alookup "cons" data = none) (h2 : alookup "concat" data = none)
    (h3 : alookup "vec" data = none) (h4 : alookup "quote" data = none) :
    CoreBound (st.newScope env data).1 (st.newScope env data).2 := by
  unfold CoreBound NotMacro
  simp only [get_newScope hwf henv, h1, h2, h3, h4]
  exact hb

theorem storeWF_init : StoreWF initState := by
  intro i sc h o ho
  have : i = 0 := by
    rcases Nat.eq_zero_or_pos i with h0 | h0
    · exact h0
    · have hsz : initState.scopes.size = 1 := rfl
      rw [Array.getElem?_eq_none (by omega)] at h; cases h
  subst this
  have : initState.scopes[0]? = some ⟨builtinNames.map (fun n => (n, Val.builtin n)), none⟩ := rfl
  rw [this] at h; cases h; cases ho

theorem storeWF_newScope {st : State} (hwf : StoreWF st) {env : Nat} (henv : env < st.scopes.size)
    (data : List (String × Val)) : StoreWF (st.newScope env data).1 := by
  intro i sc h o ho
  simp only [State.newScope, Array.size_push] at h ⊢
  rcases Nat.lt_or_ge i st.scopes.size with hi | hi
  · rw [Array.getElem?_push_lt hi] at h
    exact Nat.lt_succ_of_lt (hwf i sc (by rw [Array.getElem?_eq_getElem hi]; exact h ▸ rfl) o ho)
  · rcases Nat.eq_or_lt_of_le hi with he | hl
    · subst he
      rw [Array.getElem?_push_size] at h
      cases h; cases ho; exact Nat.lt_succ_of_lt henv
    · rw [Array.getElem?_eq_none (by simp only [Array.size_push]; omega)] at h; cases h

/-! ### the top-level statements (relative to `EvalFacts`) -/

/-- the code generated by `quasiquote t` evaluates to what the specification says -/
theorem qq_code_eq_subst (ef : EvalFacts) {env : Nat} {I : State → Prop}
    (hI : ∀ st, I st → CoreBound st env) {t : Val} {F : Nat} {st st' : State} {d : Nat} {r : Res Val}
    (hp : ∀ e ∈ qqExprs t, Preserves I env e) (hi : I st) (hs : Std st)
    (h : qqSubst F env st t d = (r, st')) (hr : r ≠ .oof) :
    ∃ F₀, ∀ F', F₀ ≤ F' → ∃ k, evalLoop F' st env (quasiquote t) d = (r, addTicks k st') := by
  obtain ⟨_, _, F₀, hR⟩ := qq_main ef env I hI t F st d r st' hp hi hs h hr
  exact ⟨F₀, fun F' hF => hR F' hF 0⟩

/-- the form `(quasiquote t)` evaluates to what the specification says -/
theorem qq_form_eq_subst (ef : EvalFacts) {env : Nat} {I : State → Prop}
    (hI : ∀ st, I st → CoreBound st env) {t : Val} {F : Nat} {st st' : State} {d : Nat} {r : Res Val}
    {pq p : Option Pos} {rest : List Val}
    (hq : NotMacro st env "quasiquote")
    (hp : ∀ e ∈ qqExprs t, Preserves I env e) (hi : I st) (hs : Std st)
    (h : qqSubst F env st t d = (r, st')) (hr : r ≠ .oof) :
    ∃ F₀, ∀ F', F₀ ≤ F' → ∃ k,
      evalLoop F' st env (.list (.sym "quasiquote" pq :: t :: rest) p) d = (r, addTicks k st') := by
  obtain ⟨_, _, F₀, hR⟩ := qq_main ef env I hI t F st d r st' hp hi hs h hr
  refine ⟨F₀ + 2, fun F' hF => ?_⟩
  obtain ⟨n, rfl⟩ := exists_add_of_le (Nat.le_trans (Nat.le_add_left 2 F₀) hF)
  rw [evalLoop_quasiquote (poll_std hs.2) (functions_unaffected ((NotMacro_addTicks 1).2 hq)),
    continueWith_std (Std.tick hs).1]
  exact hR (n+1) (by omega) 1

/-! ### the specification is monotone in the fuel -/

theorem EvalFacts.mono0 (ef : EvalFacts) {F F' : Nat} {st st' : State} {env d : Nat} {e : Val}
    {r : Res Val} (hs : Std st) (h : eval F st env e d = (r, st')) (hr : r ≠ .oof) (hF : F ≤ F') :
    eval F' st env e d = (r, st') :=
  (ef.run hs h hr).2 F' hF 0

mutual
theorem qqSubst_mono (ef : EvalFacts) (env : Nat) :
    ∀ (t : Val) (F : Nat) (st : State) (d : Nat) (r : Res Val) (st' : State), Std st →
    qqSubst F env st t d = (r, st') → r ≠ .oof →
    Std st' ∧ ∀ F', F ≤ F' → qqSubst F' env st t d = (r, st')
  | .vec xs p, F, st, d, r, st', hs, h, hr => by
    rw [qqSubst.eq_1] at h
    rcases he : qqElems F env st xs (d+1) with ⟨re, se⟩
    rw [he] at h
    cases re with
    | oof => cases h; exact absurd rfl hr
    | ok vs =>
      cases h
      obtain ⟨hs', hm⟩ := qqElems_mono ef env xs F st (d+1) _ _ hs he (by intro h; cases h)
      exact ⟨hs', fun F' hF => by rw [qqSubst.eq_1, hm F' hF]⟩
    | err e =>
      cases h
      obtain ⟨hs', hm⟩ := qqElems_mono ef env xs F st (d+1) _ _ hs he (by intro h; cases h)
      exact ⟨hs', fun F' hF => by rw [qqSubst.eq_1, hm F' hF]⟩
  | .list xs p, F, st, d, r, st', hs, h, hr => by
    rw [qqSubst.eq_2] at h
    cases hu : unquoteArg? (.list xs p) with
    | some e =>
      rw [hu] at h
      simp only at h
      exact ⟨ef.std' hs h hr, fun F' hF => by rw [qqSubst.eq_2, hu]; exact ef.mono0 hs h hr hF⟩
    | none =>
      rw [hu] at h
      simp only at h
      rcases he : qqElems F env st xs d with ⟨re, se⟩
      rw [he] at h
      cases re with
      | oof => cases h; exact absurd rfl hr
      | ok vs =>
        cases h
        obtain ⟨hs', hm⟩ := qqElems_mono ef env xs F st d _ _ hs he (by intro h; cases h)
        exact ⟨hs', fun F' hF => by rw [qqSubst.eq_2, hu]; simp only [hm F' hF]⟩
      | err e =>
        cases h
        obtain ⟨hs', hm⟩ := qqElems_mono ef env xs F st d _ _ hs he (by intro h; cases h)
        exact ⟨hs', fun F' hF => by rw [qqSubst.eq_2, hu]; simp only [hm F' hF]⟩
  | .nil, F, st, d, r, st', hs, h, hr => by cases h; exact ⟨hs, fun _ _ => rfl⟩
  | .bool _, F, st, d, r, st', hs, h, hr => by cases h; exact ⟨hs, fun _ _ => rfl⟩
  | .int _, F, st, d, r, st', hs, h, hr => by cases h; exact ⟨hs, fun _ _ => rfl⟩
  | .str _, F, st, d, r, st', hs, h, hr => by cases h; exact ⟨hs, fun _ _ => rfl⟩
  | .sym _ _, F, st, d, r, st', hs, h, hr => by cases h; exact ⟨hs, fun _ _ => rfl⟩
  | .map _, F, st, d, r, st', hs, h, hr => by cases h; exact ⟨hs, fun _ _ => rfl⟩
  | .set _, F, st, d, r, st', hs, h, hr => by cases h; exact ⟨hs, fun _ _ => rfl⟩
  | .fn .., F, st, d, r, st', hs, h, hr => by cases h; exact ⟨hs, fun _ _ => rfl⟩
  | .builtin _, F, st, d, r, st', hs, h, hr => by cases h; exact ⟨hs, fun _ _ => rfl⟩
  | .atom _, F, st, d, r, st', hs, h, hr => by cases h; exact ⟨hs, fun _ _ => rfl⟩
  | .future _, F, st, d, r, st', hs, h, hr => by cases h; exact ⟨hs, fun _ _ => rfl⟩
  | .goerr _, F, st, d, r, st', hs, h, hr => by cases h; exact ⟨hs, fun _ _ => rfl⟩
  | .opaque _, F, st, d, r, st', hs, h, hr => by cases h; exact ⟨hs, fun _ _ => rfl⟩
theorem qqElems_mono (ef : EvalFacts) (env : Nat) :
    ∀ (xs : List Val) (F : Nat) (st : State) (d : Nat) (r : Res (List Val)) (st' : State), Std st →
    qqElems F env st xs d = (r, st') → r ≠ .oof →
    Std st' ∧ ∀ F', F ≤ F' → qqElems F' env st xs d = (r, st')
  | [], F, st, d, r, st', hs, h, hr => by
    rw [qqElems.eq_1] at h; cases h
    exact ⟨hs, fun F' _ => by rw [qqElems.eq_1]⟩
  | elt :: rest, F, st, d, r, st', hs, h, hr => by
    rw [qqElems.eq_2] at h
    cases hsp : spliceArg? elt with
    | some x =>
      rw [hsp] at h
      simp only at h
      rcases h1 : eval F st env x (d+1) with ⟨r1, s1⟩
      rw [h1] at h
      cases r1 with
      | oof => cases h; exact absurd rfl hr
      | err e =>
        cases h
        exact ⟨ef.std' hs h1 (by intro h; cases h), fun F' hF => by
          rw [qqElems.eq_2, hsp]; simp only [ef.mono0 hs h1 (by intro h; cases h) hF]⟩
      | ok v =>
        simp only at h
        have hs1 := ef.std' hs h1 (by intro h; cases h)
        rcases h2 : qqElems F env s1 rest (d+1) with ⟨r2, s2⟩
        rw [h2] at h
        cases r2 with
        | oof => cases h; exact absurd rfl hr
        | err e =>
          cases h
          obtain ⟨hs2, hm2⟩ := qqElems_mono ef env rest F s1 (d+1) _ _ hs1 h2 (by intro h; cases h)
          exact ⟨hs2, fun F' hF => by
            rw [qqElems.eq_2, hsp]
            simp only [ef.mono0 hs h1 (by intro h; cases h) hF, hm2 F' hF]⟩
        | ok vs =>
          simp only at h
          obtain ⟨hs2, hm2⟩ := qqElems_mono ef env rest F s1 (d+1) _ _ hs1 h2 (by intro h; cases h)
          refine ⟨?_, fun F' hF => ?_⟩
          · cases hv : seqOf? v <;> (rw [hv] at h; cases h; exact hs2)
          · rw [qqElems.eq_2, hsp]
            simp only [ef.mono0 hs h1 (by intro h; cases h) hF, hm2 F' hF]
            exact h
    | none =>
      rw [hsp] at h
      simp only at h
      rcases h1 : qqSubst F env st elt (d+1) with ⟨r1, s1⟩
      rw [h1] at h
      cases r1 with
      | oof => cases h; exact absurd rfl hr
      | err e =>
        cases h
        obtain ⟨hs1, hm1⟩ := qqSubst_mono ef env elt F st (d+1) _ _ hs h1 (by intro h; cases h)
        exact ⟨hs1, fun F' hF => by rw [qqElems.eq_2, hsp]; simp only [hm1 F' hF]⟩
      | ok v =>
        simp only at h
        obtain ⟨hs1, hm1⟩ := qqSubst_mono ef env elt F st (d+1) _ _ hs h1 (by intro h; cases h)
        rcases h2 : qqElems F env s1 rest (d+1) with ⟨r2, s2⟩
        rw [h2] at h
        cases r2 with
        | oof => cases h; exact absurd rfl hr
        | err e =>
          cases h
          obtain ⟨hs2, hm2⟩ := qqElems_mono ef env rest F s1 (d+1) _ _ hs1 h2 (by intro h; cases h)
          exact ⟨hs2, fun F' hF => by rw [qqElems.eq_2, hsp]; simp only [hm1 F' hF, hm2 F' hF]⟩
        | ok vs =>
          cases h
          obtain ⟨hs2, hm2⟩ := qqElems_mono ef env rest F s1 (d+1) _ _ hs1 h2 (by intro h; cases h)
          exact ⟨hs2, fun F' hF => by rw [qqElems.eq_2, hsp]; simp only [hm1 F' hF, hm2 F' hF]⟩
end

/-! ### the converse: what the generated code computes, the specification computes -/

theorem evalLoop_lift (ef : EvalFacts) {F : Nat} {s0 s : State} {env d : Nat} {code : Val} {r : Res Val}
    (hs : Std s0) (h : evalLoop F s0 env code d = (r, s)) (hr : r ≠ .oof) (k : Nat) :
    evalLoop (F+k) s0 env code d = (r, s) := by
  rw [← eval_std hs.1] at h ⊢
  exact ef.mono0 hs h hr (by omega)

theorem unshift (ef : EvalFacts) {F j : Nat} {st s : State} {env d : Nat} {e : Val} {r : Res Val}
    (hs : Std st) (h : eval F (addTicks j st) env e d = (r, s)) :
    ∃ s0, eval F st env e d = (r, s0) ∧ s = addTicks j s0 := by
  rw [ef.shift j hs] at h
  cases h
  exact ⟨_, rfl, rfl⟩

theorem listRes_ok {rs : Res (List Val)} {a : Val} (h : listRes rs = .ok a) :
    ∃ vs, rs = .ok vs ∧ a = .list vs none := by
  cases rs <;> simp only [listRes] at h <;> first | (cases h; exact ⟨_, rfl, rfl⟩) | cases h

theorem listRes_err {rs : Res (List Val)} {e : Err} (h : listRes rs = .err e) : rs = .err e := by
  cases rs <;> simp only [listRes] at h <;> first | (cases h; rfl) | cases h

theorem listRes_ne_oof {rs : Res (List Val)} (h : listRes rs ≠ .oof) : rs ≠ .oof := by
  intro h'; subst h'; exact h rfl

theorem qqSubst_list_none {F env : Nat} {st : State} {xs : List Val} {p : Option Pos} {d : Nat}
    (hu : unquoteArg? (.list xs p) = none) :
    qqSubst F env st (.list xs p) d =
      (listRes (qqElems F env st xs d).1, (qqElems F env st xs d).2) := by
  rw [qqSubst.eq_2, hu]
  simp only
  rcases qqElems F env st xs d with ⟨r, s⟩
  cases r <;> rfl

theorem qqSubst_vec_eq {F env : Nat} {st : State} {xs : List Val} {p : Option Pos} {d : Nat} :
    qqSubst F env st (.vec xs p) d =
      (match (qqElems F env st xs (d+1)).1 with
        | .ok vs => .ok (.vec vs none) | .err e => .err e | .oof => .oof,
       (qqElems F env st xs (d+1)).2) := by
  rw [qqSubst.eq_1]
  rcases qqElems F env st xs (d+1) with ⟨r, s⟩
  cases r <;> rfl

/-- the shape of the statement, for a literal piece of code -/
theorem conv_literal {I : State → Prop} {st s : State} {j : Nat} {r : Res Val} {v : Val}
    (hi : I st) (hs : Std st) (h : (Res.ok v, tick (addTicks j st)) = (r, s)) :
    ∃ st' k, (Res.ok v, st) = (r, st') ∧ s = addTicks k st' ∧ I st' ∧ Std st' := by
  cases h
  exact ⟨st, j + 1, rfl, rfl, hi, hs⟩

theorem qq_conv_literal (ef : EvalFacts) {env : Nat} {I : State → Prop} {v : Val} {F' : Nat}
    {st s : State} {d j : Nat} {r : Res Val}
    (h1 : ∀ xs p, v ≠ .list xs p) (h2 : ∀ xs p, v ≠ .vec xs p) (h3 : ∀ m, v ≠ .map m)
    (h4 : ∀ s p, v ≠ .sym s p) (hi : I st) (hs : Std st)
    (h : evalLoop F' (addTicks j st) env (quasiquote v) d = (r, s)) (hr : r ≠ .oof) :
    ∃ F st' k, qqSubst F env st v d = (r, st') ∧ s = addTicks k st' ∧ I st' ∧ Std st' := by
  have hq : quasiquote v = v := by
    cases v <;> first | rfl | exact absurd rfl (h1 _ _) | exact absurd rfl (h2 _ _) | exact absurd rfl (h3 _) | exact absurd rfl (h4 _ _)
  rw [hq] at h
  have h5 := evalLoop_lift ef (Std.addTicks hs j) h hr 2
  rw [literal_form (Std.addTicks hs j) h1 h2 h3 h4] at h5
  obtain ⟨st', k, e1, e2, e3, e4⟩ := conv_literal hi hs h5
  refine ⟨0, st', k, ?_, e2, e3, e4⟩
  rw [qqSubst.eq_3 _ _ _ _ _ (fun xs p h => h2 xs p h) (fun xs p h => h1 xs p h)]
  exact e1

mutual
theorem qq_conv (ef : EvalFacts) (env : Nat) (I : State → Prop) (hI : ∀ st, I st → CoreBound st env) :
    ∀ (t : Val) (F' : Nat) (st : State) (d j : Nat) (r : Res Val) (s : State),
    (∀ e ∈ qqExprs t, Preserves I env e) → I st → Std st →
    evalLoop F' (addTicks j st) env (quasiquote t) d = (r, s) → r ≠ .oof →
    ∃ F st' k, qqSubst F env st t d = (r, st') ∧ s = addTicks k st' ∧ I st' ∧ Std st'
  | .vec xs p, F', st, d, j, r, s, hp, hi, hs, h, hr => by
    have hp' : ∀ e ∈ qqExprsL xs, Preserves I env e := by
      intro e he; exact hp e (by rw [qqExprs.eq_1]; exact he)
    rw [quasiquote.eq_1] at h
    have h5 := evalLoop_lift ef (Std.addTicks hs j) h hr 5
    rw [vec_form (Std.addTicks hs j) ((CoreBound_addTicks j).2 (hI _ hi)), addTicks_addTicks,
      eval_std (Std.addTicks hs _).1] at h5
    rcases he : evalLoop (F'+1) (addTicks (j+2) st) env (qqLoop xs) (d+1) with ⟨r1, s1⟩
    rw [he] at h5
    cases r1 with
    | oof => cases h5; exact absurd rfl hr
    | err e =>
      cases h5
      obtain ⟨F, rs, st', k, hq, hl, rfl, hi', hs'⟩ :=
        qq_conv_elems ef env I hI xs (F'+1) st (d+1) (j+2) _ _ hp' hi hs he (by intro h; cases h)
      have := listRes_err hl.symm; subst this
      exact ⟨F, st', k, by rw [qqSubst_vec_eq, hq], rfl, hi', hs'⟩
    | ok a =>
      simp only at h5
      obtain ⟨F, rs, st', k, hq, hl, rfl, hi', hs'⟩ :=
        qq_conv_elems ef env I hI xs (F'+1) st (d+1) (j+2) _ _ hp' hi hs he (by intro h; cases h)
      obtain ⟨vs, rfl, rfl⟩ := listRes_ok hl.symm
      have hv : pureCall (addTicks k st') "vec" [.list vs none] =
          (.ok (.vec vs none), addTicks k st') := by
        unfold pureCall; rw [call_vec_list]
      rw [hv] at h5; cases h5
      exact ⟨F, st', k, by rw [qqSubst_vec_eq, hq], rfl, hi', hs'⟩
  | .list xs p, F', st, d, j, r, s, hp, hi, hs, h, hr => by
    rw [quasiquote_list] at h
    rw [qqExprs.eq_2] at hp
    cases hu : unquoteArg? (.list xs p) with
    | some e =>
      rw [hu] at h hp
      simp only at h
      rw [← eval_std (Std.addTicks hs j).1] at h
      obtain ⟨s0, hx, rfl⟩ := unshift ef hs h
      exact ⟨F'+1, s0, j, by rw [qqSubst.eq_2, hu]; exact hx, rfl,
        hp e (List.mem_singleton.2 rfl) _ _ _ _ _ hi hx, ef.std' hs hx hr⟩
    | none =>
      rw [hu] at h hp
      simp only at h hp
      obtain ⟨F, rs, st', k, hq, hl, rfl, hi', hs'⟩ :=
        qq_conv_elems ef env I hI xs F' st d j _ _ hp hi hs h hr
      exact ⟨F, st', k, by rw [qqSubst_list_none hu, hq, hl], rfl, hi', hs'⟩
  | .map m, F', st, d, j, r, s, hp, hi, hs, h, hr => by
    rw [quasiquote.eq_2] at h
    have h2 := evalLoop_lift ef (Std.addTicks hs j) h hr 2
    rw [quote_form (Std.addTicks hs j) ((NotMacro_addTicks j).2 (hI _ hi).2.2.2)] at h2
    obtain ⟨st', k, h1, h3, h4, h5⟩ := conv_literal hi hs h2
    exact ⟨0, st', k, h1, h3, h4, h5⟩
  | .sym sy p, F', st, d, j, r, s, hp, hi, hs, h, hr => by
    rw [quasiquote.eq_3] at h
    have h2 := evalLoop_lift ef (Std.addTicks hs j) h hr 2
    rw [quote_form (Std.addTicks hs j) ((NotMacro_addTicks j).2 (hI _ hi).2.2.2)] at h2
    obtain ⟨st', k, h1, h3, h4, h5⟩ := conv_literal hi hs h2
    exact ⟨0, st', k, h1, h3, h4, h5⟩
  | .nil, F', st, d, j, r, s, hp, hi, hs, h, hr =>
    qq_conv_literal ef (by intro _ _ h; cases h) (by intro _ _ h; cases h) (by intro _ h; cases h) (by intro _ _ h; cases h) hi hs h hr
  | .bool _, F', st, d, j, r, s, hp, hi, hs, h, hr =>
    qq_conv_literal ef (by intro _ _ h; cases h) (by intro _ _ h; cases h) (by intro _ h; cases h) (by intro _ _ h; cases h) hi hs h hr
  | .int _, F', st, d, j, r, s, hp, hi, hs, h, hr =>
    qq_conv_literal ef (by intro _ _ h; cases h) (by intro _ _ h; cases h) (by intro _ h; cases h) (by intro _ _ h; cases h) hi hs h hr
  | .str _, F', st, d, j, r, s, hp, hi, hs, h, hr =>
    qq_conv_literal ef (by intro _ _ h; cases h) (by intro _ _ h; cases h) (by intro _ h; cases h) (by intro _ _ h; cases h) hi hs h hr
  | .set _, F', st, d, j, r, s, hp, hi, hs, h, hr =>
    qq_conv_literal ef (by intro _ _ h; cases h) (by intro _ _ h; cases h) (by intro _ h; cases h) (by intro _ _ h; cases h) hi hs h hr
  | .fn .., F', st, d, j, r, s, hp, hi, hs, h, hr =>
    qq_conv_literal ef (by intro _ _ h; cases h) (by intro _ _ h; cases h) (by intro _ h; cases h) (by intro _ _ h; cases h) hi hs h hr
  | .builtin _, F', st, d, j, r, s, hp, hi, hs, h, hr =>
    qq_conv_literal ef (by intro _ _ h; cases h) (by intro _ _ h; cases h) (by intro _ h; cases h) (by intro _ _ h; cases h) hi hs h hr
  | .atom _, F', st, d, j, r, s, hp, hi, hs, h, hr =>
    qq_conv_literal ef (by intro _ _ h; cases h) (by intro _ _ h; cases h) (by intro _ h; cases h) (by intro _ _ h; cases h) hi hs h hr
  | .future _, F', st, d, j, r, s, hp, hi, hs, h, hr =>
    qq_conv_literal ef (by intro _ _ h; cases h) (by intro _ _ h; cases h) (by intro _ h; cases h) (by intro _ _ h; cases h) hi hs h hr
  | .goerr _, F', st, d, j, r, s, hp, hi, hs, h, hr =>
    qq_conv_literal ef (by intro _ _ h; cases h) (by intro _ _ h; cases h) (by intro _ h; cases h) (by intro _ _ h; cases h) hi hs h hr
  | .opaque _, F', st, d, j, r, s, hp, hi, hs, h, hr =>
    qq_conv_literal ef (by intro _ _ h; cases h) (by intro _ _ h; cases h) (by intro _ h; cases h) (by intro _ _ h; cases h) hi hs h hr
theorem qq_conv_elems (ef : EvalFacts) (env : Nat) (I : State → Prop) (hI : ∀ st, I st → CoreBound st env) :
    ∀ (xs : List Val) (F' : Nat) (st : State) (d j : Nat) (r : Res Val) (s : State),
    (∀ e ∈ qqExprsL xs, Preserves I env e) → I st → Std st →
    evalLoop F' (addTicks j st) env (qqLoop xs) d = (r, s) → r ≠ .oof →
    ∃ F rs st' k, qqElems F env st xs d = (rs, st') ∧ r = listRes rs ∧ s = addTicks k st' ∧ I st' ∧ Std st'
  | [], F', st, d, j, r, s, hp, hi, hs, h, hr => by
    rw [qqLoop.eq_1] at h
    have h2 := evalLoop_lift ef (Std.addTicks hs j) h hr 2
    rw [empty_form (Std.addTicks hs j)] at h2
    cases h2
    exact ⟨0, .ok [], st, j + 1, by rw [qqElems.eq_1], rfl, rfl, hi, hs⟩
  | elt :: rest, F', st, d, j, r, s, hp, hi, hs, h, hr => by
    rw [qqLoop_cons] at h
    rw [qqExprsL.eq_2] at hp
    have hpr : ∀ e ∈ qqExprsL rest, Preserves I env e := fun e he => hp e (List.mem_append_right _ he)
    have hsj := Std.addTicks hs j
    have hbj := (CoreBound_addTicks j).2 (hI _ hi)
    cases hsp : spliceArg? elt with
    | some x =>
      rw [hsp] at h hp
      simp only at h hp
      have hpx : Preserves I env x := hp x (List.mem_append_left _ (List.mem_singleton.2 rfl))
      have h5 := evalLoop_lift ef hsj h hr 5
      rw [concat_form hsj hbj, addTicks_addTicks] at h5
      rcases h1 : eval (F'+2) (addTicks (j+2) st) env x (d+1) with ⟨r1, s1⟩
      rw [h1] at h5
      obtain ⟨s0, hx, rfl⟩ := unshift ef hs h1
      cases r1 with
      | oof => cases h5; exact absurd rfl hr
      | err e =>
        cases h5
        exact ⟨F'+2, .err e, s0, j+2, by rw [qqElems.eq_2, hsp]; simp only [hx], rfl, rfl,
          hpx _ _ _ _ _ hi hx, ef.std' hs hx (by intro h; cases h)⟩
      | ok v =>
        simp only at h5
        have hi0 := hpx _ _ _ _ _ hi hx
        have hs0 := ef.std' hs hx (by intro h; cases h)
        rw [eval_std (Std.addTicks hs0 _).1] at h5
        rcases h2 : evalLoop F' (addTicks (j+2) s0) env (qqLoop rest) (d+1) with ⟨r2, s2⟩
        rw [h2] at h5
        cases r2 with
        | oof => cases h5; exact absurd rfl hr
        | err e =>
          cases h5
          obtain ⟨F₂, rs, st2, k2, hq2, hl2, rfl, hi2, hs2⟩ :=
            qq_conv_elems ef env I hI rest F' s0 (d+1) (j+2) _ _ hpr hi0 hs0 h2 (by intro h; cases h)
          have := listRes_err hl2.symm; subst this
          refine ⟨max (F'+2) F₂, .err e, st2, k2, ?_, rfl, rfl, hi2, hs2⟩
          rw [qqElems.eq_2, hsp]
          simp only [ef.mono0 hs hx (by intro h; cases h) (Nat.le_max_left _ _),
            (qqElems_mono ef env rest F₂ s0 (d+1) _ _ hs0 hq2 (by intro h; cases h)).2 _
              (Nat.le_max_right _ _)]
        | ok a =>
          simp only at h5
          obtain ⟨F₂, rs, st2, k2, hq2, hl2, rfl, hi2, hs2⟩ :=
            qq_conv_elems ef env I hI rest F' s0 (d+1) (j+2) _ _ hpr hi0 hs0 h2 (by intro h; cases h)
          obtain ⟨vs, rfl, rfl⟩ := listRes_ok hl2.symm
          have hspec : qqElems (max (F'+2) F₂) env st (elt :: rest) d =
              (match seqOf? v with
               | some ys => (.ok (ys ++ vs), st2)
               | none => (.err spliceErr, st2)) := by
            rw [qqElems.eq_2, hsp]
            simp only [ef.mono0 hs hx (by intro h; cases h) (Nat.le_max_left _ _),
              (qqElems_mono ef env rest F₂ s0 (d+1) _ _ hs0 hq2 (by intro h; cases h)).2 _
                (Nat.le_max_right _ _)]
            cases seqOf? v <;> rfl
          cases hv : seqOf? v with
          | none =>
            rw [hv] at h5 hspec
            simp only at h5
            cases h5
            exact ⟨_, _, st2, k2, hspec, rfl, rfl, hi2, hs2⟩
          | some ys =>
            rw [hv] at h5 hspec
            simp only [seqOf?] at h5
            cases h5
            exact ⟨_, _, st2, k2, hspec, rfl, rfl, hi2, hs2⟩
    | none =>
      rw [hsp] at h hp
      simp only at h hp
      have hpx : ∀ e ∈ qqExprs elt, Preserves I env e := fun e he => hp e (List.mem_append_left _ he)
      have h5 := evalLoop_lift ef hsj h hr 5
      rw [cons_form hsj hbj, addTicks_addTicks, eval_std (Std.addTicks hs _).1] at h5
      rcases h1 : evalLoop (F'+1) (addTicks (j+2) st) env (quasiquote elt) (d+1) with ⟨r1, s1⟩
      rw [h1] at h5
      cases r1 with
      | oof => cases h5; exact absurd rfl hr
      | err e =>
        cases h5
        obtain ⟨F₁, st1, k1, hq1, rfl, hi1, hs1⟩ :=
          qq_conv ef env I hI elt (F'+1) st (d+1) (j+2) _ _ hpx hi hs h1 (by intro h; cases h)
        exact ⟨F₁, .err e, st1, k1, by rw [qqElems.eq_2, hsp]; simp only [hq1], rfl, rfl, hi1, hs1⟩
      | ok v =>
        simp only at h5
        obtain ⟨F₁, st1, k1, hq1, rfl, hi1, hs1⟩ :=
          qq_conv ef env I hI elt (F'+1) st (d+1) (j+2) _ _ hpx hi hs h1 (by intro h; cases h)
        rw [eval_std (Std.addTicks hs1 _).1] at h5
        rcases h2 : evalLoop F' (addTicks k1 st1) env (qqLoop rest) (d+1) with ⟨r2, s2⟩
        rw [h2] at h5
        cases r2 with
        | oof => cases h5; exact absurd rfl hr
        | err e =>
          cases h5
          obtain ⟨F₂, rs, st2, k2, hq2, hl2, rfl, hi2, hs2⟩ :=
            qq_conv_elems ef env I hI rest F' st1 (d+1) k1 _ _ hpr hi1 hs1 h2 (by intro h; cases h)
          have := listRes_err hl2.symm; subst this
          refine ⟨max F₁ F₂, .err e, st2, k2, ?_, rfl, rfl, hi2, hs2⟩
          rw [qqElems.eq_2, hsp]
          simp only [(qqSubst_mono ef env elt F₁ st (d+1) _ _ hs hq1 (by intro h; cases h)).2 _
              (Nat.le_max_left _ _),
            (qqElems_mono ef env rest F₂ st1 (d+1) _ _ hs1 hq2 (by intro h; cases h)).2 _
              (Nat.le_max_right _ _)]
        | ok a =>
          simp only at h5
          obtain ⟨F₂, rs, st2, k2, hq2, hl2, rfl, hi2, hs2⟩ :=
            qq_conv_elems ef env I hI rest F' st1 (d+1) k1 _ _ hpr hi1 hs1 h2 (by intro h; cases h)
          obtain ⟨vs, rfl, rfl⟩ := listRes_ok hl2.symm
          simp only [seqOf?] at h5
          cases h5
          refine ⟨max F₁ F₂, .ok (v :: vs), st2, k2, ?_, rfl, rfl, hi2, hs2⟩
          rw [qqElems.eq_2, hsp]
          simp only [(qqSubst_mono ef env elt F₁ st (d+1) _ _ hs hq1 (by intro h; cases h)).2 _
              (Nat.le_max_left _ _),
            (qqElems_mono ef env rest F₂ st1 (d+1) _ _ hs1 hq2 (by intro h; cases h)).2 _
              (Nat.le_max_right _ _)]
end

end LispModel.Proofs.QQ

/-
  C06, scanner level: runs of tokens.  `Toks s l s'`: from the scanner state `s`, successive calls of
  `Scan.scan` (with any fuel) return the tokens `l` (kind and text), none with an error, and leave
  the scanner in `s'`.  `El text toks`: the spelling `text`, followed by a delimiter and anything,
  is scanned as `toks` up to the delimiter.  `seq_toks`: elements separated by single spaces and
  closed by a bracket.  Core Lean only.
-/
import LispModel.Proofs.PrintReadRaw
namespace LispModel.Proofs.PrintRead
open LispModel LispModel.Scan

/-- kind and text of a token -/
abbrev KT := Kind × List Nat

/-- characters not yet consumed, the look-ahead included -/
def pot (s : St) : Nat := s.2.1.length + (if s.1 < 0 then 0 else 1)

inductive Toks : St → List KT → St → Prop
  | nil (s : St) : Toks s [] s
  | cons {s s1 s' : St} {k : Kind} {text : List Nat} {l : List KT} :
      (∀ F : Nat, scan (F + 1) s.2.1 s.1 s.2.2 = (some (k, text), s1)) → s1.2.2.errs = 0 → pot s1 < pot s →
      Toks s1 l s' → Toks s ((k, text) :: l) s'

theorem Toks.append {s s1 s2 : St} {l1 l2 : List KT} (h1 : Toks s l1 s1) (h2 : Toks s1 l2 s2) :
    Toks s (l1 ++ l2) s2 := by
  induction h1 with
  | nil s => exact h2
  | cons hs he hp _ ih => exact Toks.cons hs he hp (ih h2)

theorem Toks.length_le {s s' : St} {l : List KT} (h : Toks s l s') : l.length + pot s' ≤ pot s := by
  induction h with
  | nil s => simp
  | cons hs he hp _ ih => simp only [List.length_cons]; omega

theorem pot_next_cons (x : Rune) (xs : List Rune) (p : PState) : pot (next (x :: xs) p) = xs.length + 1 := by
  obtain ⟨q, hq, _⟩ := next_cons_eq x xs p
  rw [hq]
  have : ¬ ((x.ch : Int) < 0) := by omega
  simp [pot, this]

theorem pot_next_le (r : List Rune) (p : PState) : pot (next r p) ≤ r.length := by
  cases r with
  | nil => simp [pot, next]
  | cons x xs => rw [pot_next_cons]; simp

theorem pot_at (n : Nat) (r : List Rune) (p : PState) : pot ((n : Int), r, p) = r.length + 1 := by
  have : ¬ ((n : Int) < 0) := by omega
  simp [pot, this]

theorem scan_space (F : Nat) (x : Rune) (xs : List Rune) (p : PState) :
    scan (F + 1) (x :: xs) 32 p =
      scan (F + 1) (next (x :: xs) p).2.1 (next (x :: xs) p).1 (next (x :: xs) p).2.2 := by
  rw [scan_succ, scan_succ, skipWhite_step _ _ _ _ (by decide)]
  obtain ⟨q, hq, _⟩ := next_cons_eq x xs p
  rw [hq]

/-- a single space before the next token is skipped -/
theorem Toks.space {x : Rune} {xs : List Rune} {p : PState} {kt : KT} {l : List KT} {s' : St}
    (h : Toks (next (x :: xs) p) (kt :: l) s') : Toks ((32 : Int), x :: xs, p) (kt :: l) s' := by
  cases h with
  | cons hs he hp hr =>
    refine Toks.cons (fun F => ?_) he ?_ hr
    · rw [scan_space]
      exact hs F
    · rw [pot_next_cons] at hp
      have := pot_at 32 (x :: xs) p
      rw [show ((32 : Nat) : Int) = 32 from rfl] at this
      rw [this]
      simp only [List.length_cons]
      omega

/-! ### elements and sequences -/

/-- the spelling `text`, followed by a delimiter and anything, is scanned as the tokens `toks`, the
    scanner stopping at the delimiter -/
def HeadOk (text : List Char) : Prop := ∃ c cs, text = c :: cs ∧ c.toNat ≠ 0

theorem next_headOk {text : List Char} (h : HeadOk text) (tail : List Rune) (p : PState) :
    (next (runesOf text ++ tail) p).2.2.errs = p.errs := by
  obtain ⟨c, cs, rfl, hc⟩ := h
  obtain ⟨q, hq, he⟩ := next_cons_eq (runeOf c) (runesOf cs ++ tail) p
  rw [runesOf_cons, List.cons_append, hq, he]
  have : ¬ ((runeOf c).bad = true ∨ (runeOf c).ch = 0) := by
    intro h; rcases h with h | h
    · cases h
    · exact hc h
  rw [if_neg this]; rfl

def El (text : List Char) (toks : List KT) : Prop :=
  HeadOk text ∧ toks ≠ [] ∧ ∀ (d : Rune) (S : List Rune) (p : PState), IsDelim d → p.errs = 0 →
    ∃ q, q.errs = 0 ∧ Toks (next (runesOf text ++ d :: S) p) toks ((d.ch : Int), S, q)

theorem pot_next_text (c : Char) (cs : List Char) (tail : List Rune) (p : PState) :
    pot (next (runesOf (c :: cs) ++ tail) p) = cs.length + tail.length + 1 := by
  rw [runesOf_cons, List.cons_append, pot_next_cons, List.length_append, runesOf_length]

/-- an element that is a single token -/
theorem El.single {text : List Char} {k : Kind} {t : List Nat} (hne : HeadOk text)
    (h : ∀ (d : Rune) (S : List Rune) (p : PState), IsDelim d → p.errs = 0 → ∃ q,
      (∀ F : Nat, scan (F + 1) (next (runesOf text ++ d :: S) p).2.1 (next (runesOf text ++ d :: S) p).1
        (next (runesOf text ++ d :: S) p).2.2 = (some (k, t), ((d.ch : Int), S, q))) ∧ q.errs = 0) :
    El text [(k, t)] := by
  refine ⟨hne, by simp, fun d S p hd hp => ?_⟩
  obtain ⟨q, hq, he⟩ := h d S p hd hp
  refine ⟨q, he, Toks.cons hq he ?_ (Toks.nil _)⟩
  obtain ⟨c, cs, rfl, _⟩ := hne
  rw [pot_next_text, pot_at]
  simp only [List.length_cons]
  omega

/-- the closing bracket as a rune -/
def IsCloserCh (cl : Char) : Prop := cl = ')' ∨ cl = ']' ∨ cl = '}'

theorem closer_delim {cl : Char} (h : IsCloserCh cl) : IsDelim (runeOf cl) := by
  rcases h with h | h | h <;> subst h <;> exact ⟨rfl, by decide⟩

theorem closer_bracket {cl : Char} (h : IsCloserCh cl) : IsBracket cl.toNat := by
  rcases h with h | h | h <;> subst h <;> simp [IsBracket] <;> decide

theorem toks_bracket (n : Nat) (hn : IsBracket n) {tail : List Rune} (ht : StopTail tail) (q : PState)
    (hq : q.errs = 0) :
    Toks ((n : Int), tail, q) [(.char n, [n])] (next tail q) := by
  refine Toks.cons (fun F => scan_bracket n hn F tail q) ?_ ?_ (Toks.nil _)
  · rw [(next_stop ht q).2, hq]
  · rw [pot_at]; have := pot_next_le tail q; omega

/-- the text of a sequence: the elements separated by single spaces -/
def seqText (items : List (List Char × List KT)) : List Char := Print.intercalate [' '] (items.map (·.1))

theorem seq_toks (cl : Char) (hcl : IsCloserCh cl) {tail : List Rune} (ht : StopTail tail) :
    ∀ (items : List (List Char × List KT)), (∀ it ∈ items, El it.1 it.2) → ∀ (p : PState), p.errs = 0 →
      ∃ q, q.errs = 0 ∧
        Toks (next (runesOf (seqText items ++ [cl]) ++ tail) p)
          (items.flatMap (·.2) ++ [(.char cl.toNat, [cl.toNat])]) (next tail q) := by
  have hd := closer_delim hcl
  have hb := closer_bracket hcl
  intro items
  induction items with
  | nil =>
    intro _ p hp
    obtain ⟨q, hq, he⟩ := next_delim hd tail p
    refine ⟨q, by rw [he, hp], ?_⟩
    have e : next (runesOf (seqText [] ++ [cl]) ++ tail) p = ((cl.toNat : Int), tail, q) := hq
    rw [e]
    exact toks_bracket _ hb ht q (by rw [he, hp])
  | cons it rest ih =>
    intro hall p hp
    obtain ⟨hne, htne, hel⟩ := hall it (List.mem_cons_self ..)
    cases rest with
    | nil =>
      obtain ⟨q, hq, hT⟩ := hel (runeOf cl) tail p hd hp
      refine ⟨q, hq, ?_⟩
      have e : runesOf (seqText [it] ++ [cl]) ++ tail = runesOf it.1 ++ runeOf cl :: tail := by
        simp [seqText, Print.intercalate, runesOf]
      rw [e]
      simp only [List.flatMap_cons, List.flatMap_nil, List.append_nil]
      exact hT.append (toks_bracket _ hb ht q hq)
    | cons it2 rest2 =>
      have hsp : IsDelim (runeOf ' ') := ⟨rfl, Or.inl rfl⟩
      obtain ⟨q1, hq1, hT1⟩ := hel (runeOf ' ') (runesOf (seqText (it2 :: rest2) ++ [cl]) ++ tail) p hsp hp
      obtain ⟨q, hq, hT2⟩ := ih (fun x hx => hall x (List.mem_cons_of_mem _ hx)) q1 hq1
      refine ⟨q, hq, ?_⟩
      have e : runesOf (seqText (it :: it2 :: rest2) ++ [cl]) ++ tail =
          runesOf it.1 ++ runeOf ' ' :: (runesOf (seqText (it2 :: rest2) ++ [cl]) ++ tail) := by
        simp [seqText, Print.intercalate, runesOf]
      rw [e]
      simp only [List.flatMap_cons, List.append_assoc]
      refine hT1.append ?_
      -- the rest starts after the space
      have hne2 : ∃ x xs, runesOf (seqText (it2 :: rest2) ++ [cl]) ++ tail = x :: xs := by
        cases hb2 : seqText (it2 :: rest2) with
        | nil => exact ⟨_, _, rfl⟩
        | cons b bs => exact ⟨_, _, rfl⟩
      obtain ⟨x, xs, hx⟩ := hne2
      rw [hx] at hT2 ⊢
      simp only [List.flatMap_cons, List.append_assoc] at hT2
      obtain ⟨_, htne2, _⟩ := hall it2 (List.mem_cons_of_mem _ (List.mem_cons_self ..))
      cases h2 : it2.2 with
      | nil => exact absurd h2 htne2
      | cons kt l2 =>
        rw [h2] at hT2
        exact Toks.space hT2

end LispModel.Proofs.PrintRead

/-
  C06, scanner level: the tokens of the printed atoms and brackets.  Each lemma says: with the first
  character of the spelling as look-ahead, one call of `Scan.scan` returns exactly that token and
  leaves the scanner at `next tail q` (error counter untouched) — for the brackets and strings
  whatever follows, for numbers when a delimiter or the end of the input follows.  Core Lean only.
-/
import LispModel.Print
import LispModel.Proofs.PrintReadSym
import LispModel.Proofs.ScanString
namespace LispModel.Proofs.PrintRead
open LispModel LispModel.Scan

/-- `consumed` when the scanner ends on `next tail q` after the runes `R` -/
theorem consumed_next' (n : Nat) (R tail : List Rune) (q : PState) :
    consumed (n : Int) (R ++ tail) (next tail q).2.1 (next tail q).1 = n :: R.map (·.ch) :=
  ScanString.consumed_next n R tail q

/-! ### brackets -/

/-- the six bracket characters -/
def IsBracket (n : Nat) : Prop := n = 40 ∨ n = 41 ∨ n = 91 ∨ n = 93 ∨ n = 123 ∨ n = 125

theorem scan_bracket (n : Nat) (hn : IsBracket n) (F : Nat) (tail : List Rune) (p : PState) :
    scan (F + 1) tail (n : Int) p = (some (.char n, [n]), next tail p) := by
  have ht : scanTok (n : Int) tail p = some (.char n, next tail p) := by
    rcases hn with h | h | h | h | h | h <;> subst h <;> simp [scanTok, isIdentRune, isLetter, isDigit, isDecimal]
  have hw : isWhite (n : Int) = false := by
    rcases hn with h | h | h | h | h | h <;> subst h <;> decide
  have h59 : ¬ (n : Int) = 59 := by
    rcases hn with h | h | h | h | h | h <;> subst h <;> decide
  rw [scan_of_scanTok F tail _ p _ _ hw h59 ht]
  have := consumed_next' n [] tail p
  simp only [List.nil_append, List.map_nil] at this
  rw [this]

/-- `#{` -/
theorem scan_hashbrace (w : Nat) (tail : List Rune) (p : PState) :
    ∃ q, (∀ F : Nat, scan (F + 1) (⟨123, w, false⟩ :: tail) 35 p = (some (.ident, [35, 123]), next tail q)) ∧
      q.errs = p.errs := by
  obtain ⟨q, hq, he⟩ := ScanString.next_good 123 w tail p (by decide) (by decide)
  refine ⟨q, fun F => ?_, he⟩
  have ht : scanTok 35 (⟨123, w, false⟩ :: tail) p = some (.ident, next tail q) := by
    simp [scanTok, isIdentRune, isLetter, isDigit, isDecimal, hq]
  rw [scan_of_scanTok F _ _ p _ _ (by decide) (by decide) ht]
  have := consumed_next' 35 [⟨123, w, false⟩] tail q
  simp only [List.cons_append, List.nil_append, List.map_cons, List.map_nil] at this
  rw [show ((35 : Nat) : Int) = 35 from rfl] at this
  rw [this]

end LispModel.Proofs.PrintRead

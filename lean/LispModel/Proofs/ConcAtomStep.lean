/-
  C09 proofs, part 2: every step of the fixed programs preserves the lock discipline.
-/
import LispModel.Proofs.ConcAtom
namespace LispModel.Proofs.ConcAtom
open LispModel.Conc

inductive Eff | none | acqW | relW | acqR | relR deriving DecidableEq

def effOf : MOp → Eff
  | .lock _ => .acqW | .unlock _ => .relW | .rlock _ => .acqR | .runlock _ => .relR | _ => .none

/-- what a micro-op does to the mutex part of the atom -/
def EffSpec (t : Nat) (e : Eff) (A A' : AtomS) : Prop :=
  match e with
  | .acqW => A.w = none ∧ A.r = [] ∧ A'.w = some t ∧ A'.r = A.r
  | .relW => A'.w = none ∧ A'.r = A.r
  | .acqR => A.w = none ∧ A'.w = A.w ∧ A'.r = t :: A.r
  | .relR => A'.w = A.w ∧ A'.r = A.r.erase t
  | .none => A'.w = A.w ∧ A'.r = A.r

theorem execM_eff {t m fr A fr' A'} (h : execM t m fr A = some (fr', A')) :
    fr'.op = fr.op ∧ EffSpec t (effOf m) A A' := by
  cases m with
  | lock mu => cases mu <;> simp [execM] at h
               obtain ⟨⟨h1, h2⟩, h3, h4⟩ := h
               subst h3; subst h4
               simp [effOf, EffSpec, h1, h2]
  | rlock mu => cases mu <;> simp [execM] at h
                obtain ⟨h1, h3, h4⟩ := h
                subst h3; subst h4
                simp [effOf, EffSpec, h1]
  | unlock mu => cases mu <;> simp [execM] at h
                 obtain ⟨h3, h4⟩ := h; subst h3; subst h4; simp [effOf, EffSpec]
  | runlock mu => cases mu <;> simp [execM] at h
                  obtain ⟨h3, h4⟩ := h; subst h3; subst h4; simp [effOf, EffSpec]
  | read l => cases l <;> simp [execM] at h <;> (obtain ⟨h3, h4⟩ := h; subst h3; subst h4; simp [effOf, EffSpec])
  | write l => cases l <;> simp [execM] at h <;> (obtain ⟨h3, h4⟩ := h; subst h3; subst h4; simp [effOf, EffSpec])
  | brNe l k => cases l <;> simp [execM] at h
                obtain ⟨h3, h4⟩ := h; subst h3; subst h4
                refine ⟨?_, by simp [effOf, EffSpec]⟩
                split <;> rfl
  | deferUnlock mu => simp [execM] at h; obtain ⟨h3, h4⟩ := h; subst h3; subst h4; simp [effOf, EffSpec]
  | deferRUnlock mu => simp [execM] at h; obtain ⟨h3, h4⟩ := h; subst h3; subst h4; simp [effOf, EffSpec]
  | jmp k => simp [execM] at h; obtain ⟨h3, h4⟩ := h; subst h3; subst h4; simp [effOf, EffSpec]
  | ctxCheck => simp [execM] at h; obtain ⟨h3, h4⟩ := h; subst h3; subst h4; simp [effOf, EffSpec]
  | ret => simp [execM] at h; obtain ⟨h3, h4⟩ := h; subst h3; subst h4; simp [effOf, EffSpec]
  | _ => simp [execM] at h

def newW (e : Eff) (w : Bool) : Bool := match e with | .acqW => true | .relW => false | _ => w
def newR (e : Eff) (r : Bool) : Bool := match e with | .acqR => true | .relR => false | _ => r
def EffPre (e : Eff) (w r : Bool) : Prop :=
  match e with
  | .acqW => w = false ∧ r = false
  | .relW => w = true
  | .acqR => w = false ∧ r = false
  | .relR => r = true
  | .none => True

theorem LockInv.top_w {s t fr rest} (h : LockInv s) (hst : (s.threads t).stack = fr :: rest) (a : Nat) :
    (s.atoms a).w = some t ↔ (fr.op.atom = a ∧ holdsW fr = true) := by
  rw [h.w_iff a t]
  constructor
  · rintro ⟨top, r, h1, h2, h3⟩; rw [hst] at h1; cases h1; exact ⟨h2, h3⟩
  · rintro ⟨h2, h3⟩; exact ⟨fr, rest, hst, h2, h3⟩

theorem LockInv.top_r {s t fr rest} (h : LockInv s) (hst : (s.threads t).stack = fr :: rest) (a : Nat) :
    t ∈ (s.atoms a).r ↔ (fr.op.atom = a ∧ holdsR fr = true) := by
  rw [h.r_iff a t]
  constructor
  · rintro ⟨top, r, h1, h2, h3⟩; rw [hst] at h1; cases h1; exact ⟨h2, h3⟩
  · rintro ⟨h2, h3⟩; exact ⟨fr, rest, hst, h2, h3⟩

theorem LockInv.setTop_eff {s : State} {t : Nat} {fr fr' : Frame} {rest : List Frame} {A' : AtomS}
    {ev : List LinEv} {e : Eff}
    (h : LockInv s) (hst : (s.threads t).stack = fr :: rest)
    (hop : fr'.op = fr.op) (hwf : FrameWF fr')
    (he : EffSpec t e (s.atoms fr.op.atom) A')
    (hpre : EffPre e (holdsW fr) (holdsR fr))
    (hW : holdsW fr' = newW e (holdsW fr)) (hR : holdsR fr' = newR e (holdsR fr)) :
    LockInv (s.setTop t fr' rest A' ev) := by
  have hat : fr'.op.atom = fr.op.atom := by rw [hop]
  have hrest : ∀ f ∈ rest, atCallback f := by
    have := h.wf t; rw [hst] at this; exact this.2
  have tw := (h.top_w hst fr.op.atom)
  have tr := (h.top_r hst fr.op.atom)
  have nd := h.r_nodup fr.op.atom
  have ex := h.excl fr.op.atom
  have cb : ∀ b, b ≠ fr'.op.atom → (s.atoms b).w ≠ some t ∧ t ∉ (s.atoms b).r := by
    intro b hb
    rw [hat] at hb
    constructor
    · intro hw; exact hb ((h.top_w hst b).mp hw).1.symm
    · intro hr; exact hb ((h.top_r hst b).mp hr).1.symm
  simp only [true_and] at tw tr
  apply LockInv.setTop h hwf hrest <;> (try rw [hat]) <;> try exact cb
  all_goals (cases e <;> simp only [EffSpec, EffPre, newW, newR] at he hpre hW hR)
  all_goals (try (simp_all; done))
  · intro u hu
    rw [he.2.2.1, he.1]
    constructor
    · intro hh; cases hh; exact absurd rfl hu
    · intro hh; cases hh
  · intro u hu
    rw [he.1, tw.mpr hpre]
    constructor
    · intro hh; cases hh
    · intro hh; cases hh; exact absurd rfl hu
  · rw [he.2, hR, nd.mem_erase_iff]; simp
  · rw [he.2]; exact nd.erase t

/-! ### control-flow table of the fixed programs, checked by evaluation -/

/-- possible (pc, defers, returning) after executing `m` at `pc` with deferred calls `ds` -/
def ctl (m : MOp) (pc : Nat) (ds : List MOp) : List (Nat × List MOp × Bool) :=
  match m with
  | .deferUnlock mu => [(pc + 1, .unlock mu :: ds, false)]
  | .deferRUnlock mu => [(pc + 1, .runlock mu :: ds, false)]
  | .brNe _ k => [(k, ds, false), (pc + 1, ds, false)]
  | .jmp k => [(k, ds, false)]
  | .ret => [(pc, ds, true)]
  | _ => [(pc + 1, ds, false)]

theorem execM_ctl {t m fr A fr' A'} (h : execM t m fr A = some (fr', A')) (hnr : fr.returning = false) :
    (fr'.pc, fr'.defers, fr'.returning) ∈ ctl m fr.pc fr.defers ∧ fr'.failed = fr.failed := by
  cases m with
  | lock mu => cases mu <;> simp [execM] at h
               obtain ⟨-, h3, -⟩ := h; subst h3; simp [ctl, hnr]
  | rlock mu => cases mu <;> simp [execM] at h
                obtain ⟨-, h3, -⟩ := h; subst h3; simp [ctl, hnr]
  | unlock mu => cases mu <;> simp [execM] at h
                 obtain ⟨h3, -⟩ := h; subst h3; simp [ctl, hnr]
  | runlock mu => cases mu <;> simp [execM] at h
                  obtain ⟨h3, -⟩ := h; subst h3; simp [ctl, hnr]
  | read l => cases l <;> simp [execM] at h <;> (obtain ⟨h3, -⟩ := h; subst h3; simp [ctl, hnr])
  | write l => cases l <;> simp [execM] at h <;> (obtain ⟨h3, -⟩ := h; subst h3; simp [ctl, hnr])
  | brNe l k => cases l <;> simp [execM] at h
                obtain ⟨h3, -⟩ := h; subst h3
                split <;> simp [ctl, hnr]
  | deferUnlock mu => simp [execM] at h; obtain ⟨h3, -⟩ := h; subst h3; simp [ctl, hnr]
  | deferRUnlock mu => simp [execM] at h; obtain ⟨h3, -⟩ := h; subst h3; simp [ctl, hnr]
  | jmp k => simp [execM] at h; obtain ⟨h3, -⟩ := h; subst h3; simp [ctl, hnr]
  | ctxCheck => simp [execM] at h; obtain ⟨h3, -⟩ := h; subst h3; simp [ctl, hnr]
  | ret => simp [execM] at h; obtain ⟨h3, -⟩ := h; subst h3; simp [ctl]
  | _ => simp [execM] at h

def hWt (n : OpName) (pc : Nat) (ds : List MOp) (ret : Bool) : Bool :=
  if ret then ds.contains (.unlock .atomRW) else holdsWAt n pc
def hRt (n : OpName) (pc : Nat) (ds : List MOp) (ret : Bool) : Bool :=
  if ret then ds.contains (.runlock .atomRW) else holdsRAt n pc
def wfB (n : OpName) (pc : Nat) (ds : List MOp) (ret : Bool) : Bool :=
  if ret then ds == [] || (ds == defersAt n pc && decide (pc < (prog n).length))
  else decide (pc < (prog n).length) && ds == defersAt n pc
def effPreB (e : Eff) (w r : Bool) : Bool :=
  match e with
  | .acqW => !w && !r | .relW => w | .acqR => !w && !r | .relR => r | .none => true

theorem effPreB_spec {e w r} (h : effPreB e w r = true) : EffPre e w r := by
  cases e <;> simp_all [effPreB, EffPre]

def atomNames : List OpName := [.swap, .reset, .deref, .print]

/-- one entry of the table: executing `m` at `pc` of `n` -/
def entryOK (n : OpName) (pc : Nat) (m : MOp) : Bool :=
  let ds := defersAt n pc
  (ctl m pc ds).all fun (pc', ds', ret') =>
    wfB n pc' ds' ret' && effPreB (effOf m) (hWt n pc ds false) (hRt n pc ds false) &&
    (hWt n pc' ds' ret' == newW (effOf m) (hWt n pc ds false)) &&
    (hRt n pc' ds' ret' == newR (effOf m) (hRt n pc ds false))

def tableOK : Bool :=
  atomNames.all fun n => (List.range (prog n).length).all fun pc =>
    match (prog n)[pc]? with
    | none => true
    | some m => m == .callback || entryOK n pc m

theorem tableOK_true : tableOK = true := by decide

theorem entry_of_table {n : OpName} {pc : Nat} {m : MOp} (hn : n ∈ atomNames) (hpc : pc < (prog n).length)
    (hm : (prog n)[pc]? = some m) (hcb : m ≠ .callback) : entryOK n pc m = true := by
  have h := tableOK_true
  unfold tableOK at h
  rw [List.all_eq_true] at h
  have h1 := h n hn
  rw [List.all_eq_true] at h1
  have h2 := h1 pc (List.mem_range.mpr hpc)
  rw [hm] at h2
  simp only [Bool.or_eq_true, beq_iff_eq] at h2
  rcases h2 with h2 | h2
  · exact absurd h2 hcb
  · exact h2

theorem wfB_spec {fr : Frame} (h : wfB fr.op.name fr.pc fr.defers fr.returning = true)
    (hf : fr.returning = false → fr.failed = false) : FrameWF fr := by
  unfold FrameWF
  unfold wfB at h
  cases hr : fr.returning <;> simp [hr] at h ⊢
  · exact ⟨h.1, h.2, hf hr⟩
  · rcases h with h | h
    · exact Or.inl h
    · exact Or.inr ⟨h.1, h.2⟩

theorem name_mem (op : AOp) : op.name ∈ atomNames := by
  cases op <;> simp [AOp.name, atomNames]

/-- one (non-callback) micro-op of a well-formed frame: the frame stays well-formed and its lock
    holdings change exactly as the micro-op says -/
theorem frame_step {t : Nat} {fr fr' : Frame} {A A' : AtomS} {m : MOp}
    (hwf : FrameWF fr) (hnr : fr.returning = false)
    (hm : (prog fr.op.name)[fr.pc]? = some m) (hcb : m ≠ .callback)
    (h : execM t m fr A = some (fr', A')) :
    FrameWF fr' ∧ EffPre (effOf m) (holdsW fr) (holdsR fr) ∧
    holdsW fr' = newW (effOf m) (holdsW fr) ∧ holdsR fr' = newR (effOf m) (holdsR fr) := by
  unfold FrameWF at hwf
  simp only [hnr] at hwf
  obtain ⟨hpc, hds, hfl⟩ := hwf
  have hop := (execM_eff h).1
  obtain ⟨hmem, hfail⟩ := execM_ctl h hnr
  have he := entry_of_table (name_mem fr.op) hpc hm hcb
  unfold entryOK at he
  rw [List.all_eq_true] at he
  rw [hds] at hmem
  have h3 := he _ hmem
  simp only [Bool.and_eq_true, beq_iff_eq] at h3
  obtain ⟨⟨⟨h3a, h3b⟩, h3c⟩, h3d⟩ := h3
  have hWfr : holdsW fr = hWt fr.op.name fr.pc (defersAt fr.op.name fr.pc) false := by
    simp [holdsW, hWt, hnr]
  have hRfr : holdsR fr = hRt fr.op.name fr.pc (defersAt fr.op.name fr.pc) false := by
    simp [holdsR, hRt, hnr]
  refine ⟨?_, ?_, ?_, ?_⟩
  · apply wfB_spec
    · rw [hop]; exact h3a
    · intro _; rw [hfail]; exact hfl
  · rw [hWfr, hRfr]; exact effPreB_spec h3b
  · rw [hWfr, ← h3c]; simp [holdsW, hWt, hop]
  · rw [hRfr, ← h3d]; simp [holdsR, hRt, hop]

/-- the deferred calls of a returning well-formed frame: a single unlock or runlock -/
theorem returning_defers {fr : Frame} {d : MOp} {ds : List MOp} (hwf : FrameWF fr)
    (hr : fr.returning = true) (hd : fr.defers = d :: ds) :
    ds = [] ∧ (d = .unlock .atomRW ∨ d = .runlock .atomRW) := by
  unfold FrameWF at hwf
  simp only [hr, if_true] at hwf
  rcases hwf with h | ⟨h, -⟩
  · rw [hd] at h; cases h
  · rw [hd] at h
    rcases name_cases fr.op with hn | hn | hn | hn <;> rw [hn] at h <;> simp only [defersAt] at h
    · cases h
    · split at h
      · cases h; exact ⟨rfl, Or.inl rfl⟩
      · cases h
    · split at h
      · cases h; exact ⟨rfl, Or.inr rfl⟩
      · cases h
    · cases h

theorem frame_defer_step {t : Nat} {fr fr1 : Frame} {A A' : AtomS} {d : MOp} {ds : List MOp}
    (hwf : FrameWF fr) (hr : fr.returning = true) (hd : fr.defers = d :: ds)
    (h : execM t d { fr with defers := ds } A = some (fr1, A')) :
    ({ fr1 with pc := fr.pc } : Frame).op = fr.op ∧ FrameWF { fr1 with pc := fr.pc } ∧
    EffSpec t (effOf d) A A' ∧ EffPre (effOf d) (holdsW fr) (holdsR fr) ∧
    holdsW { fr1 with pc := fr.pc } = newW (effOf d) (holdsW fr) ∧
    holdsR { fr1 with pc := fr.pc } = newR (effOf d) (holdsR fr) := by
  obtain ⟨hds, hdd⟩ := returning_defers hwf hr hd
  subst hds
  have heff := (execM_eff h).2
  rcases hdd with hdd | hdd <;> subst hdd <;> simp [execM] at h <;> obtain ⟨h1, h2⟩ := h <;> subst h1
  · refine ⟨rfl, ?_, heff, ?_, ?_, ?_⟩
    · simp [FrameWF, hr]
    · simp [effOf, EffPre, holdsW, hr, hd]
    · simp [effOf, newW, holdsW, hr]
    · simp [effOf, newR, holdsR, hr, hd]
  · refine ⟨rfl, ?_, heff, ?_, ?_, ?_⟩
    · simp [FrameWF, hr]
    · simp [effOf, EffPre, holdsR, hr, hd]
    · simp [effOf, newW, holdsW, hr, hd]
    · simp [effOf, newR, holdsR, hr]

/-- the invariant only looks at the atoms and the stacks -/
theorem LockInv.of_eq {s1 s2 : State} (h : LockInv s1) (ha : ∀ a, s2.atoms a = s1.atoms a)
    (ht : ∀ t, (s2.threads t).stack = (s1.threads t).stack) : LockInv s2 := by
  constructor
  · intro t; rw [ht]; exact h.wf t
  · intro a t; rw [ha, ht]; exact h.w_iff a t
  · intro a t; rw [ha, ht]; exact h.r_iff a t
  · intro a; rw [ha]; exact h.r_nodup a
  · intro a; rw [ha]; exact h.excl a

def Free (s : State) (t : Nat) : Prop := ∀ a, (s.atoms a).w ≠ some t ∧ t ∉ (s.atoms a).r

theorem LockInv.free_of_top {s t fr rest} (h : LockInv s) (hst : (s.threads t).stack = fr :: rest)
    (hW : holdsW fr = false) (hR : holdsR fr = false) : Free s t := by
  intro a
  constructor
  · intro hw; have := ((h.top_w hst a).mp hw).2; rw [hW] at this; cases this
  · intro hr; have := ((h.top_r hst a).mp hr).2; rw [hR] at this; cases this

theorem LockInv.free_of_empty {s t} (h : LockInv s) (hst : (s.threads t).stack = []) : Free s t := by
  intro a
  constructor
  · intro hw; obtain ⟨top, r, h1, -⟩ := (h.w_iff a t).mp hw; rw [hst] at h1; cases h1
  · intro hr; obtain ⟨top, r, h1, -⟩ := (h.r_iff a t).mp hr; rw [hst] at h1; cases h1

/-- a thread that holds nothing gets a new top frame that holds nothing -/
theorem LockInv.setTop_free {s : State} {t : Nat} {fr' : Frame} {rest : List Frame} {ev : List LinEv}
    (h : LockInv s) (hfree : Free s t) (hwf : FrameWF fr') (hrest : ∀ f ∈ rest, atCallback f)
    (hW : holdsW fr' = false) (hR : holdsR fr' = false) :
    LockInv (s.setTop t fr' rest (s.atoms fr'.op.atom) ev) := by
  apply LockInv.setTop h hwf hrest
  · rw [hW]; simp [(hfree fr'.op.atom).1]
  · intro u _; exact Iff.rfl
  · rw [hR]; simp [(hfree fr'.op.atom).2]
  · intro u _; exact Iff.rfl
  · exact h.r_nodup _
  · exact h.excl _
  · intro b _; exact hfree b

/-- a thread that holds nothing drops its whole stack -/
theorem LockInv.clear {s s2 : State} {t : Nat} (h : LockInv s) (hfree : Free s t)
    (ha : ∀ a, s2.atoms a = s.atoms a) (ht : (s2.threads t).stack = [])
    (hu : ∀ u, u ≠ t → (s2.threads u).stack = (s.threads u).stack) : LockInv s2 := by
  constructor
  · intro u
    by_cases h1 : u = t
    · subst h1; rw [ht]; trivial
    · rw [hu u h1]; exact h.wf u
  · intro a u
    rw [ha]
    by_cases h1 : u = t
    · subst h1; rw [ht]
      constructor
      · intro hw; exact absurd hw (hfree a).1
      · rintro ⟨_, _, h2, -⟩; cases h2
    · rw [hu u h1]; exact h.w_iff a u
  · intro a u
    rw [ha]
    by_cases h1 : u = t
    · subst h1; rw [ht]
      constructor
      · intro hw; exact absurd hw (hfree a).2
      · rintro ⟨_, _, h2, -⟩; cases h2
    · rw [hu u h1]; exact h.r_iff a u
  · intro a; rw [ha]; exact h.r_nodup a
  · intro a; rw [ha]; exact h.excl a

theorem returning_nodefers_free {fr : Frame} (hr : fr.returning = true) (hd : fr.defers = []) :
    holdsW fr = false ∧ holdsR fr = false := by
  simp [holdsW, holdsR, hr, hd]

def callbackOnlyAt4 : Bool :=
  atomNames.all fun n => (List.range (prog n).length).all fun pc =>
    (prog n)[pc]? != some .callback || (n == .swap && pc == 4)

theorem callback_pc {n : OpName} {pc : Nat} (hn : n ∈ atomNames) (h : (prog n)[pc]? = some .callback) :
    n = .swap ∧ pc = 4 := by
  have hpc : pc < (prog n).length := by
    rcases Nat.lt_or_ge pc (prog n).length with hlt | hge
    · exact hlt
    · rw [List.getElem?_eq_none_iff.mpr hge] at h; cases h
  have ht : callbackOnlyAt4 = true := by decide
  unfold callbackOnlyAt4 at ht
  rw [List.all_eq_true] at ht
  have h1 := ht n hn
  rw [List.all_eq_true] at h1
  have h2 := h1 pc (List.mem_range.mpr hpc)
  rw [h] at h2
  simpa using h2

end LispModel.Proofs.ConcAtom

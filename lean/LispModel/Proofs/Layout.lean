/-
  Layout lemmas about the tokenizer model (`LispModel/Scan.lean`), for C17 (rows count newlines) and
  C19 (white space and comments between tokens are invisible):

  * `next` on a rune: the look-ahead is the rune, the bookkeeping moves by `step`; `feed` iterates it;
  * `skipWhite` skips any run of white space, `commentLoop`/`scanComment` consume up to the newline and
    reach EOF when there is none;
  * `Gap`: runs of white space and whole comments; `scan_gap`: `Scan` started in front of a gap behaves
    as `Scan` started behind it — only the bookkeeping (`feed`) remembers the gap;
  * `feed_line`: the line counter moves by exactly the number of newline runes.
  Core Lean only.
-/
import LispModel.Scan
namespace LispModel.Proofs.Layout
open LispModel LispModel.Scan

/-- the bookkeeping update `Scanner.next` performs for one rune -/
def step (r : Rune) (p : PState) : PState := (next [r] p).2.2

/-- bookkeeping after reading the runes `rs` one by one -/
def feed : List Rune → PState → PState
  | [], p => p
  | r :: rs, p => feed rs (step r p)

theorem next_cons_eq (r : Rune) (rs : List Rune) (p : PState) :
    next (r :: rs) p = (Int.ofNat r.ch, rs, step r p) := by
  unfold step next
  simp only []
  split
  · rfl
  · split
    · rename_i h; rw [h]; rfl
    · split
      · rename_i h; rw [h]; rfl
      · rfl

theorem feed_append (a b : List Rune) (p : PState) : feed (a ++ b) p = feed b (feed a p) := by
  induction a generalizing p with
  | nil => rfl
  | cons r a ih => exact ih _

/-- the look-ahead after reading `rs` (unchanged when `rs` is empty) -/
def lastCh (ch : Int) : List Rune → Int
  | [] => ch
  | r :: rs => lastCh (Int.ofNat r.ch) rs

theorem lastCh_append (ch : Int) (a b : List Rune) : lastCh ch (a ++ b) = lastCh (lastCh ch a) b := by
  induction a generalizing ch with
  | nil => rfl
  | cons r a ih => exact ih _

/-- a newline rune as `next` recognises it -/
def isNl (r : Rune) : Bool := !r.bad && r.ch == 10

def newlines (rs : List Rune) : Nat := (rs.filter isNl).length

theorem step_line (r : Rune) (p : PState) :
    (step r p).line = p.line + (if isNl r then 1 else 0) := by
  unfold step next isNl
  simp only []
  split
  · rename_i h; simp [h]
  · rename_i hb
    split
    · rename_i h; simp [h]
    · split
      · rename_i h; simp [h, hb]
      · rename_i h; simp [h]

/-- `line` is incremented exactly on newline runes -/
theorem feed_line (rs : List Rune) (p : PState) : (feed rs p).line = p.line + newlines rs := by
  induction rs generalizing p with
  | nil => rfl
  | cons r rs ih =>
    rw [feed, ih, step_line, newlines, newlines, List.filter_cons]
    split <;> simp <;> omega

/-! ### white space -/

/-- a white-space rune (tab, newline, carriage return, space) -/
def White (r : Rune) : Prop := isWhite (Int.ofNat r.ch) = true

theorem skipWhite_stop (rest : List Rune) (ch : Int) (p : PState) (h : isWhite ch = false) :
    skipWhite rest ch p = (ch, rest, p) := by
  cases rest <;> simp [skipWhite, h]

theorem skipWhite_cons (r : Rune) (rs : List Rune) (ch : Int) (p : PState) (h : isWhite ch = true) :
    skipWhite (r :: rs) ch p = skipWhite rs (Int.ofNat r.ch) (step r p) := by
  rw [skipWhite, if_pos h, next_cons_eq]

theorem lastCh_white (ws : List Rune) (ch : Int) (hch : isWhite ch = true) (hws : ∀ r ∈ ws, White r) :
    isWhite (lastCh ch ws) = true := by
  induction ws generalizing ch with
  | nil => exact hch
  | cons r ws ih =>
    exact ih _ (hws r (List.mem_cons_self ..)) (fun x hx => hws x (List.mem_cons_of_mem _ hx))

/-- `skipWhite` skips any run of white space -/
theorem skipWhite_run (ws rest : List Rune) (ch : Int) (p : PState)
    (hch : isWhite ch = true) (hws : ∀ r ∈ ws, White r) :
    skipWhite (ws ++ rest) ch p = skipWhite rest (lastCh ch ws) (feed ws p) := by
  induction ws generalizing ch p with
  | nil => rfl
  | cons r ws ih =>
    rw [List.cons_append, skipWhite_cons _ _ _ _ hch]
    exact ih _ _ (hws r (List.mem_cons_self ..)) (fun x hx => hws x (List.mem_cons_of_mem _ hx))

/-- … and stops in front of the first rune that is not white space -/
theorem skipWhite_run_stop (ws rest : List Rune) (r : Rune) (ch : Int) (p : PState)
    (hch : isWhite ch = true) (hws : ∀ r ∈ ws, White r) (hr : isWhite (Int.ofNat r.ch) = false) :
    skipWhite (ws ++ r :: rest) ch p = (Int.ofNat r.ch, rest, feed (ws ++ [r]) p) := by
  rw [skipWhite_run _ _ _ _ hch hws, skipWhite_cons _ _ _ _ (lastCh_white _ _ hch hws),
    skipWhite_stop _ _ _ hr, feed_append]
  rfl

/-- white space up to the end of the input: EOF -/
theorem skipWhite_run_eof (ws : List Rune) (ch : Int) (p : PState)
    (hch : isWhite ch = true) (hws : ∀ r ∈ ws, White r) :
    skipWhite ws ch p = next [] (feed ws p) := by
  have := skipWhite_run ws [] ch p hch hws
  rw [List.append_nil] at this
  rw [this, skipWhite, if_pos (lastCh_white _ _ hch hws)]

/-! ### comments -/

/-- the runes of a comment body: anything but a newline -/
def NoNl (r : Rune) : Prop := r.ch ≠ 10

theorem commentLoop_stop (rest : List Rune) (p : PState) : commentLoop rest 10 p = (10, rest, p) := by
  cases rest <;> simp [commentLoop]

theorem commentLoop_cons (r : Rune) (rs : List Rune) (ch : Int) (p : PState) (h1 : ch ≠ 10) (h2 : ch ≥ 0) :
    commentLoop (r :: rs) ch p = commentLoop rs (Int.ofNat r.ch) (step r p) := by
  rw [commentLoop, if_pos ⟨h1, h2⟩, next_cons_eq]

theorem ofNat_ne_10 {r : Rune} (h : NoNl r) : Int.ofNat r.ch ≠ 10 := by
  intro e; apply h; exact Int.ofNat.inj e

/-- the comment loop runs over every rune that is not a newline -/
theorem commentLoop_run (body rest : List Rune) (ch : Int) (p : PState)
    (h1 : ch ≠ 10) (h2 : ch ≥ 0) (hb : ∀ r ∈ body, NoNl r) :
    commentLoop (body ++ rest) ch p = commentLoop rest (lastCh ch body) (feed body p) := by
  induction body generalizing ch p with
  | nil => rfl
  | cons r body ih =>
    rw [List.cons_append, commentLoop_cons _ _ _ _ h1 h2]
    exact ih _ _ (ofNat_ne_10 (hb r (List.mem_cons_self ..))) (Int.natCast_nonneg _)
      (fun x hx => hb x (List.mem_cons_of_mem _ hx))

theorem lastCh_noNl (body : List Rune) (ch : Int) (h1 : ch ≠ 10) (h2 : ch ≥ 0) (hb : ∀ r ∈ body, NoNl r) :
    lastCh ch body ≠ 10 ∧ lastCh ch body ≥ 0 := by
  induction body generalizing ch with
  | nil => exact ⟨h1, h2⟩
  | cons r body ih =>
    exact ih _ (ofNat_ne_10 (hb r (List.mem_cons_self ..))) (Int.natCast_nonneg _)
      (fun x hx => hb x (List.mem_cons_of_mem _ hx))

/-- a comment is consumed up to (and including, as the new look-ahead) the newline, never beyond -/
theorem commentLoop_to_newline (body rest : List Rune) (nl : Rune) (ch : Int) (p : PState)
    (h1 : ch ≠ 10) (h2 : ch ≥ 0) (hb : ∀ r ∈ body, NoNl r) (hnl : nl.ch = 10) :
    commentLoop (body ++ nl :: rest) ch p = (10, rest, feed (body ++ [nl]) p) := by
  obtain ⟨l1, l2⟩ := lastCh_noNl body ch h1 h2 hb
  rw [commentLoop_run _ _ _ _ h1 h2 hb, commentLoop_cons _ _ _ _ l1 l2, hnl, feed_append]
  exact commentLoop_stop _ _

/-- a comment without final newline swallows the rest of the input: EOF -/
theorem commentLoop_to_eof (body : List Rune) (ch : Int) (p : PState)
    (h1 : ch ≠ 10) (h2 : ch ≥ 0) (hb : ∀ r ∈ body, NoNl r) :
    commentLoop body ch p = next [] (feed body p) := by
  obtain ⟨l1, l2⟩ := lastCh_noNl body ch h1 h2 hb
  have := commentLoop_run body [] ch p h1 h2 hb
  rw [List.append_nil] at this
  rw [this, commentLoop, if_pos ⟨l1, l2⟩]

/-! ### `Scan` over a gap -/

theorem ofNat_ge (n : Nat) : Int.ofNat n ≥ 0 := Int.natCast_nonneg n

theorem scanComment_eq (r : List Rune) (c : Int) (q : PState) (hc : c ≥ 0) :
    scanComment r c q = commentLoop r c q := by
  unfold scanComment
  by_cases h : c = 10
  · subst h; rw [commentLoop_stop]; simp
  · rw [if_pos h]
    cases r with
    | nil => simp [next, commentLoop, h, hc]
    | cons x xs => rw [commentLoop_cons _ _ _ _ h hc, next_cons_eq]

theorem next_nil_idem (p : PState) : next [] (next [] p).2.2 = next [] p := by
  simp [next]

/-- `Scan` at a `;`: the comment is skipped and scanning starts over -/
theorem scan_semi (f : Nat) (R : List Rune) (p : PState) :
    scan (f+1) R 59 p = scan f (commentLoop R 59 p).2.1 (commentLoop R 59 p).1 (commentLoop R 59 p).2.2 := by
  rw [scan, skipWhite_stop _ _ _ (by decide)]
  simp only []
  rw [if_neg (by decide), if_neg (by decide), if_neg (by decide), if_neg (by decide), if_neg (by decide),
    if_neg (by decide), if_neg (by decide), if_pos trivial]
  cases R with
  | nil =>
    rw [commentLoop, if_pos (by decide)]
    have : scanComment [] (-1) (next [] p).2.2 = next [] p := by
      unfold scanComment; rw [if_pos (by decide)]
      show commentLoop _ _ _ = _
      simp [next, commentLoop]
    have e : scanComment (next [] p).2.1 (next [] p).1 (next [] p).2.2 = next [] p := this
    rw [e]
  | cons x xs =>
    rw [next_cons_eq]
    simp only []
    rw [scanComment_eq _ _ _ (ofNat_ge _), commentLoop_cons _ _ _ _ (by decide) (by decide)]

theorem scan_white (n : Nat) (ws rest : List Rune) (ch : Int) (p : PState)
    (hch : isWhite ch = true) (hws : ∀ r ∈ ws, White r) :
    scan (n+1) (ws ++ rest) ch p = scan (n+1) rest (lastCh ch ws) (feed ws p) := by
  rw [scan, scan, skipWhite_run _ _ _ _ hch hws]

theorem scan_white_semi (n : Nat) (s : Rune) (R : List Rune) (ch : Int) (p : PState)
    (hch : isWhite ch = true) (hs : s.ch = 59) :
    scan (n+1) (s :: R) ch p = scan (n+1) R 59 (step s p) := by
  have e : skipWhite (s :: R) ch p = skipWhite R 59 (step s p) := by
    rw [skipWhite_cons _ _ _ _ hch, hs]; rfl
  rw [scan, scan, e]

/-- what may stand between two tokens: white space and whole comments (`;` … newline) -/
inductive Gap : List Rune → Prop
  | nil : Gap []
  | white {r g} : White r → Gap g → Gap (r :: g)
  | comment {s body nl g} : s.ch = 59 → (∀ r ∈ body, NoNl r) → nl.ch = 10 → Gap g →
      Gap (s :: (body ++ nl :: g))

/-- `Scan` started in front of a gap (look-ahead = a white-space rune) behaves exactly as `Scan` started
    behind it: the same look-ahead class, the same unread runes; only the bookkeeping `feed g p` (line,
    column, offset) knows about the gap.  `k` = the number of comments (fuel of the `goto redo`). -/
theorem scan_gap {g : List Rune} (hg : Gap g) :
    ∃ k, k ≤ g.length ∧ ∀ f post ch p, isWhite ch = true →
      isWhite (lastCh ch g) = true ∧
      scan (f + 1 + k) (g ++ post) ch p = scan (f + 1) post (lastCh ch g) (feed g p) := by
  induction hg with
  | nil => exact ⟨0, Nat.le_refl _, fun f post ch p h => ⟨h, rfl⟩⟩
  | @white r g hr _ ih =>
    obtain ⟨k, hk, ih⟩ := ih
    refine ⟨k, Nat.le_succ_of_le hk, fun f post ch p h => ?_⟩
    obtain ⟨w, e⟩ := ih f post (Int.ofNat r.ch) (step r p) hr
    refine ⟨w, ?_⟩
    have e1 : f + 1 + k = (f + k) + 1 := by omega
    rw [e1, List.cons_append]
    show scan _ ([r] ++ (g ++ post)) ch p = _
    rw [scan_white (f + k) [r] (g ++ post) ch p h (by simpa using hr), ← e1]
    exact e
  | @comment s body nl g hs hb hnl _ ih =>
    obtain ⟨k, hk, ih⟩ := ih
    refine ⟨k + 1, by simp; omega, fun f post ch p h => ?_⟩
    obtain ⟨w, e⟩ := ih f post 10 (feed (body ++ [nl]) (step s p)) (by decide)
    have hl : lastCh ch (s :: (body ++ nl :: g)) = lastCh 10 g := by
      show lastCh _ (body ++ nl :: g) = _
      rw [lastCh_append]; show lastCh (Int.ofNat nl.ch) g = _; rw [hnl]; rfl
    have hf : feed (s :: (body ++ nl :: g)) p = feed g (feed (body ++ [nl]) (step s p)) := by
      show feed (body ++ nl :: g) (step s p) = _
      rw [feed_append, feed_append]; rfl
    rw [hl, hf]
    refine ⟨w, ?_⟩
    have e1 : f + 1 + (k + 1) = (f + 1 + k) + 1 := by omega
    rw [e1, List.cons_append, scan_white_semi _ _ _ _ _ h hs, scan_semi, List.append_assoc, List.cons_append,
      commentLoop_to_newline _ _ _ _ _ (by decide) (by decide) hb hnl]
    exact e



/-- `Scan` at a comment that ends in a newline: scanning continues behind the newline -/
theorem scan_comment_line (f : Nat) (semi nl : Rune) (body tail : List Rune) (ch : Int)
    (p : PState) (hch : isWhite ch = true) (hs : semi.ch = 59) (hb : ∀ r ∈ body, NoNl r) (hnl : nl.ch = 10) :
    scan (f + 2) (semi :: (body ++ nl :: tail)) ch p =
      scan (f + 1) tail 10 (feed (semi :: (body ++ [nl])) p) := by
  rw [scan_white_semi _ _ _ _ _ hch hs, scan_semi, commentLoop_to_newline _ _ _ _ _ (by decide) (by decide) hb hnl]
  rfl

theorem scan_eof (f : Nat) (p : PState) : (scan f [] EOF p).1 = none := by
  cases f with
  | zero => rfl
  | succ f => rw [scan, skipWhite_stop _ _ _ (by decide)]; rfl

/-- a comment at the very end of the input, without final newline, yields EOF: every rune after the
    `;` is swallowed -/
theorem scan_trailing_comment_eof (n : Nat) (s : Rune) (body : List Rune) (ch : Int) (p : PState)
    (hch : isWhite ch = true) (hs : s.ch = 59) (hb : ∀ r ∈ body, NoNl r) :
    (scan (n+1) (s :: body) ch p).1 = none := by
  rw [scan_white_semi _ _ _ _ _ hch hs, scan_semi, commentLoop_to_eof _ _ _ (by decide) (by decide) hb]
  exact scan_eof _ _

/-! ### every scanning function only moves the bookkeeping forward -/

/-- a preorder on the scanner bookkeeping that `next` and `err` respect -/
structure PRel (R : PState → PState → Prop) : Prop where
  refl : ∀ p, R p p
  trans : ∀ {a b c}, R a b → R b c → R a c
  next : ∀ rest p, R p (next rest p).2.2
  err : ∀ p, R p (err p)

section prel
variable {R : PState → PState → Prop} (hR : PRel R)
include hR

theorem identLoop_rel : ∀ rest ch p, R p (identLoop rest ch p).2.2 := by
  intro rest
  induction rest with
  | nil => intro ch p; unfold identLoop; split; exact hR.next _ _; exact hR.refl _
  | cons r rs ih =>
    intro ch p; unfold identLoop; split
    · exact hR.trans (hR.next (r :: rs) p) (ih _ _)
    · exact hR.refl _

theorem scanIdentifier_rel (rest : List Rune) (p : PState) : R p (scanIdentifier rest p).2.2 := by
  unfold scanIdentifier
  exact hR.trans (hR.next rest p) (identLoop_rel hR _ _ _)

theorem skipWhite_rel : ∀ rest ch p, R p (skipWhite rest ch p).2.2 := by
  intro rest
  induction rest with
  | nil => intro ch p; unfold skipWhite; split; exact hR.next _ _; exact hR.refl _
  | cons r rs ih =>
    intro ch p; unfold skipWhite; split
    · exact hR.trans (hR.next (r :: rs) p) (ih _ _)
    · exact hR.refl _

theorem commentLoop_rel : ∀ rest ch p, R p (commentLoop rest ch p).2.2 := by
  intro rest
  induction rest with
  | nil => intro ch p; unfold commentLoop; split; exact hR.next _ _; exact hR.refl _
  | cons r rs ih =>
    intro ch p; unfold commentLoop; split
    · exact hR.trans (hR.next (r :: rs) p) (ih _ _)
    · exact hR.refl _

theorem scanComment_rel (rest : List Rune) (ch : Int) (p : PState) : R p (scanComment rest ch p).2.2 := by
  unfold scanComment; split
  · exact hR.trans (hR.next rest p) (commentLoop_rel hR _ _ _)
  · exact hR.refl _

theorem digitsLoop_rel (base : Nat) : ∀ rest ch p ds inv, R p (digitsLoop base rest ch p ds inv).1.2.2 := by
  intro rest
  induction rest with
  | nil =>
    intro ch p ds inv; unfold digitsLoop; simp only []
    split <;> split <;> first | exact hR.next _ _ | exact hR.refl _
  | cons r rs ih =>
    intro ch p ds inv; unfold digitsLoop; simp only []
    split <;> split <;> first | exact hR.trans (hR.next (r :: rs) p) (ih _ _ _ _) | exact hR.refl _

theorem scanDigits_rel (base : Nat) : ∀ n rest ch p, R p (scanDigits base n rest ch p).2.2 := by
  intro n
  induction n with
  | zero => intro rest ch p; exact hR.refl _
  | succ n ih =>
    intro rest ch p; unfold scanDigits; split
    · exact hR.trans (hR.next rest p) (ih _ _ _)
    · exact hR.err _

theorem scanEscape_rel (rest : List Rune) (p : PState) : R p (scanEscape rest p).2.2 := by
  unfold scanEscape
  simp only []
  have h1 := hR.next rest p
  generalize next rest p = x at h1 ⊢
  obtain ⟨c, r, q⟩ := x
  simp only [] at h1 ⊢
  split
  · exact hR.trans h1 (hR.next _ _)
  split
  · exact hR.trans h1 (scanDigits_rel hR _ _ _ _ _)
  split
  · exact hR.trans h1 (hR.trans (hR.next r q) (scanDigits_rel hR _ _ _ _ _))
  split
  · exact hR.trans h1 (hR.trans (hR.next r q) (scanDigits_rel hR _ _ _ _ _))
  split
  · exact hR.trans h1 (hR.trans (hR.next r q) (scanDigits_rel hR _ _ _ _ _))
  · exact hR.trans h1 (hR.err _)

theorem stringLoop_rel : ∀ fuel rest ch p, R p (stringLoop fuel rest ch p).2.2 := by
  intro fuel
  induction fuel with
  | zero => intro rest ch p; exact hR.refl _
  | succ n ih =>
    intro rest ch p; unfold stringLoop
    split
    · exact hR.refl _
    split
    · exact hR.err _
    split
    · exact hR.trans (scanEscape_rel hR rest p) (ih _ _ _)
    · exact hR.trans (hR.next rest p) (ih _ _ _)

theorem scanString_rel (rest : List Rune) (p : PState) : R p (scanString rest p).2.2 := by
  unfold scanString
  exact hR.trans (hR.next rest p) (stringLoop_rel hR _ _ _ _)

theorem rawLoop_rel : ∀ rest b ch p, R p (rawLoop b rest ch p).2.2 := by
  intro rest
  induction rest with
  | nil =>
    intro b ch p
    cases b <;> unfold rawLoop <;> simp only []
    · split
      · exact hR.next _ _
      split
      · exact hR.err _
      · exact hR.trans (hR.next [] p) (hR.err _)
    · split
      · exact hR.refl _
      · exact hR.trans (hR.next [] p) (hR.err _)
  | cons r rs ih =>
    intro b ch p
    cases b <;> unfold rawLoop <;> simp only []
    · split
      · exact hR.trans (hR.next (r :: rs) p) (ih _ _ _)
      split
      · exact hR.err _
      · exact hR.trans (hR.next (r :: rs) p) (ih _ _ _)
    · split
      · exact hR.refl _
      · exact hR.trans (hR.next (r :: rs) p) (ih _ _ _)

theorem scanRawString_rel (rest : List Rune) (p : PState) : R p (scanRawString rest p).2.2 := by
  unfold scanRawString
  exact hR.trans (hR.next rest p) (rawLoop_rel hR _ _ _ _)

theorem ite_err_rel (c : Prop) [Decidable c] (p : PState) : R p (if c then Scan.err p else p) := by
  split
  · exact hR.err _
  · exact hR.refl _

theorem next_rel_of {rest : List Rune} {p : PState} {c : Int} {r : List Rune} {q : PState}
    (h : next rest p = (c, r, q)) : R p q := by
  have := hR.next rest p; rw [h] at this; exact this

theorem digitsLoop_rel_of {base : Nat} {rest : List Rune} {ch : Int} {p : PState} {ds : Nat} {inv : Int}
    {c : Int} {r : List Rune} {q : PState} {ds' : Nat} {inv' : Int}
    (h : digitsLoop base rest ch p ds inv = ((c, r, q), ds', inv')) : R p q := by
  have := digitsLoop_rel hR base rest ch p ds inv; rw [h] at this; exact this

theorem scanNumber_rel (pre : List Int) (rest : List Rune) (ch : Int) (p : PState) (sd neg : Bool) :
    R p (scanNumber pre rest ch p sd neg).2.2.2 := by
  unfold scanNumber
  extract_lets restStart chFirst
  split
  rename_i tok0 base prefx digsep0 ch1 rest1 p1 seenDot inv heq0
  have h0 : R p p1 := by
    split at heq0
    · split at heq0
      rename_i b0 pf0 ds0 c0 r0 q0 heqA
      have hA : R p q0 := by
        split at heqA
        · split at heqA
          rename_i c r q hn
          have h1 : R p q := next_rel_of hR hn
          split at heqA
          · split at heqA
            rename_i c2 r2 q2 hn2
            simp only [Prod.mk.injEq] at heqA
            obtain ⟨-, -, -, -, -, rfl⟩ := heqA
            exact hR.trans h1 (next_rel_of hR hn2)
          split at heqA
          · split at heqA
            rename_i c2 r2 q2 hn2
            simp only [Prod.mk.injEq] at heqA
            obtain ⟨-, -, -, -, -, rfl⟩ := heqA
            exact hR.trans h1 (next_rel_of hR hn2)
          split at heqA
          · split at heqA
            rename_i c2 r2 q2 hn2
            simp only [Prod.mk.injEq] at heqA
            obtain ⟨-, -, -, -, -, rfl⟩ := heqA
            exact hR.trans h1 (next_rel_of hR hn2)
          · simp only [Prod.mk.injEq] at heqA
            obtain ⟨-, -, -, -, -, rfl⟩ := heqA
            exact h1
        split at heqA
        · split at heqA
          rename_i c r q hn
          simp only [Prod.mk.injEq] at heqA
          obtain ⟨-, -, -, -, -, rfl⟩ := heqA
          exact next_rel_of hR hn
        · simp only [Prod.mk.injEq] at heqA
          obtain ⟨-, -, -, -, -, rfl⟩ := heqA
          exact hR.refl _
      clear heqA
      split at heq0
      rename_i c1 r1 q1 ds1 inv1 hd
      have hB : R q0 q1 := digitsLoop_rel_of hR hd
      dsimp only at heq0
      split at heq0
      · simp only [Prod.mk.injEq] at heq0
        obtain ⟨-, -, -, -, -, -, rfl, -, -⟩ := heq0
        exact hR.trans hA (hR.trans hB (hR.next _ _))
      · simp only [Prod.mk.injEq] at heq0
        obtain ⟨-, -, -, -, -, -, rfl, -, -⟩ := heq0
        exact hR.trans hA hB
    · simp only [Prod.mk.injEq] at heq0
      obtain ⟨-, -, -, -, -, -, rfl, -, -⟩ := heq0
      exact hR.refl _
  clear heq0
  split
  rename_i tok1 digsep1 ch2 rest2 p2 inv2 heq1
  have h1 : R p1 p2 := by
    split at heq1
    · extract_lets p' at heq1
      have hp' : R p1 p' := ite_err_rel hR _ _
      split at heq1
      rename_i c r q ds iv hd
      simp only [Prod.mk.injEq] at heq1
      obtain ⟨-, -, -, -, rfl, -⟩ := heq1
      exact hR.trans hp' (digitsLoop_rel_of hR hd)
    · simp only [Prod.mk.injEq] at heq1
      obtain ⟨-, -, -, -, rfl, -⟩ := heq1
      exact hR.refl _
  clear heq1
  split
  rename_i tok2 p3 heq2
  have h2 : R p2 p3 := by
    split at heq2
    · split at heq2
      · simp only [Prod.mk.injEq] at heq2; obtain ⟨-, rfl⟩ := heq2; exact hR.refl _
      · simp only [Prod.mk.injEq] at heq2; obtain ⟨-, rfl⟩ := heq2; exact hR.err _
    · simp only [Prod.mk.injEq] at heq2; obtain ⟨-, rfl⟩ := heq2; exact hR.refl _
  clear heq2
  extract_lets e pe
  split
  rename_i tok3 digsep2 ch4 rest4 p4 heq3
  have h3 : R p3 p4 := by
    split at heq3
    · have hpe : R p3 pe := by
        show R p3 (if _ then _ else if _ then _ else _)
        split
        · exact hR.err _
        · exact ite_err_rel hR _ _
      split at heq3
      rename_i c r q hn
      have ha := next_rel_of hR hn
      split at heq3
      rename_i c' r' q' hn'
      have hb : R q q' := by
        split at hn'
        · exact next_rel_of hR hn'
        · simp only [Prod.mk.injEq] at hn'; obtain ⟨-, -, rfl⟩ := hn'; exact hR.refl _
      split at heq3
      rename_i c'' r'' q'' ds sn hd
      have hc := digitsLoop_rel_of hR hd
      dsimp only at heq3
      simp only [Prod.mk.injEq] at heq3
      obtain ⟨-, -, -, -, rfl⟩ := heq3
      exact hR.trans hpe (hR.trans ha (hR.trans hb (hR.trans hc (ite_err_rel hR _ _))))
    · split at heq3
      · simp only [Prod.mk.injEq] at heq3; obtain ⟨-, -, -, -, rfl⟩ := heq3; exact hR.err _
      · simp only [Prod.mk.injEq] at heq3; obtain ⟨-, -, -, -, rfl⟩ := heq3; exact hR.refl _
  clear heq3
  dsimp only
  refine hR.trans h0 (hR.trans h1 (hR.trans h2 (hR.trans h3 ?_)))
  have h4 : R p4 (if (decide (tok3 = Kind.int) && decide (inv2 ≠ 0)) = true then Scan.err p4 else p4) :=
    ite_err_rel hR _ p4
  refine hR.trans h4 ?_
  generalize (if (decide (tok3 = Kind.int) && decide (inv2 ≠ 0)) = true then Scan.err p4 else p4) = p5
  by_cases hc : digsep2 / 2 % 2 = 1
  · rw [if_pos hc]; split
    · exact hR.err _
    · exact hR.refl _
  · rw [if_neg hc]; exact hR.refl _

theorem scan_rel_of : ∀ fuel rest ch p o s, scan fuel rest ch p = (o, s) → R p s.2.2 := by
  intro fuel
  induction fuel with
  | zero => intro rest ch p o s h; simp only [scan] at h; cases h; exact hR.refl _
  | succ n ih =>
    intro rest ch p o s h
    unfold scan at h
    have hw := skipWhite_rel hR rest ch p
    generalize skipWhite rest ch p = sw at hw h
    obtain ⟨ch1, rest1, p1⟩ := sw
    simp only [] at h hw
    have hn := hR.next rest1 p1
    generalize next rest1 p1 = nx at hn h
    obtain ⟨c, r, q⟩ := nx
    simp only [] at h hn
    refine hR.trans hw ?_
    by_cases c1 : isIdentRune ch1 0 = true
    · rw [if_pos c1] at h; injection h with _ h; subst h; exact scanIdentifier_rel hR _ _
    rw [if_neg c1] at h
    by_cases c2 : isDecimal ch1 = true
    · rw [if_pos c2] at h; injection h with _ h; subst h; exact scanNumber_rel hR [] rest1 ch1 p1 false false
    rw [if_neg c2] at h
    by_cases c3 : ch1 = 45
    · rw [if_pos c3] at h
      by_cases c31 : isIdentRune c 0 = true
      · rw [if_pos c31] at h; injection h with _ h; subst h; exact hR.trans hn (scanIdentifier_rel hR _ _)
      rw [if_neg c31] at h
      by_cases c32 : isDecimal c = true
      · rw [if_pos c32] at h; injection h with _ h; subst h
        exact hR.trans hn (scanNumber_rel hR [45] r c q false true)
      rw [if_neg c32] at h; injection h with _ h; subst h; exact hn
    rw [if_neg c3] at h
    by_cases c4 : ch1 < 0
    · rw [if_pos c4] at h; cases h; exact hR.refl _
    rw [if_neg c4] at h
    by_cases c5 : ch1 = 34
    · rw [if_pos c5] at h; injection h with _ h; subst h
      exact hR.trans (scanString_rel hR rest1 p1) (hR.next _ _)
    rw [if_neg c5] at h
    by_cases c6 : ch1 = 58
    · rw [if_pos c6] at h; injection h with _ h; subst h; exact scanIdentifier_rel hR _ _
    rw [if_neg c6] at h
    by_cases c7 : ch1 = 46
    · rw [if_pos c7] at h
      by_cases c71 : isDecimal c = true
      · rw [if_pos c71] at h; injection h with _ h; subst h
        exact hR.trans hn (scanNumber_rel hR [46] r c q true false)
      rw [if_neg c71] at h; injection h with _ h; subst h; exact hn
    rw [if_neg c7] at h
    by_cases c8 : ch1 = 59
    · rw [if_pos c8] at h
      exact hR.trans hn (hR.trans (scanComment_rel hR _ _ _) (ih _ _ _ _ _ h))
    rw [if_neg c8] at h
    by_cases c9 : ch1 = 172
    · rw [if_pos c9] at h; injection h with _ h; subst h; exact scanRawString_rel hR _ _
    rw [if_neg c9] at h
    by_cases c10 : ch1 = 126
    · rw [if_pos c10] at h
      by_cases c101 : c = 64
      · rw [if_pos c101] at h; injection h with _ h; subst h; exact hR.trans hn (hR.next _ _)
      rw [if_neg c101] at h; injection h with _ h; subst h; exact hn
    rw [if_neg c10] at h
    by_cases c11 : ch1 = 35
    · rw [if_pos c11] at h
      by_cases c111 : c = 123
      · rw [if_pos c111] at h; injection h with _ h; subst h; exact hR.trans hn (hR.next _ _)
      rw [if_neg c111] at h; injection h with _ h; subst h; exact hn
    rw [if_neg c11] at h
    injection h with _ h; subst h; exact hn

end prel

/-! ### token lines are monotone -/

/-- the line `Scanner.Pos()` reports -/
def effLine (p : PState) : Nat := (posOf p).1

/-- line counter and reported line only grow (the reported line as soon as `line ≥ 1`, which holds from
    the start) -/
def LineLe (p q : PState) : Prop := p.line ≤ q.line ∧ (1 ≤ p.line → effLine p ≤ effLine q)

theorem effLine_eq (p : PState) :
    effLine p = if p.column > 0 then p.line else if p.lastLineLen > 0 then p.line - 1 else 1 := by
  unfold effLine posOf; simp only []; split
  · rfl
  · split <;> rfl

theorem effLine_le_line (p : PState) (h : 1 ≤ p.line) : effLine p ≤ p.line := by
  rw [effLine_eq]; split
  · exact Nat.le_refl _
  · split <;> omega

theorem step_cases (r : Rune) (p : PState) :
    ((step r p).line = p.line ∧ (step r p).column = p.column + 1) ∨
    ((step r p).line = p.line + 1 ∧ (step r p).column = 0 ∧ (step r p).lastLineLen = p.column + 1) := by
  unfold step next
  simp only []
  split
  · exact .inl ⟨rfl, rfl⟩
  split
  · exact .inl ⟨rfl, rfl⟩
  split
  · exact .inr ⟨rfl, rfl, rfl⟩
  · exact .inl ⟨rfl, rfl⟩

theorem lineLe_prel : PRel LineLe where
  refl p := ⟨Nat.le_refl _, fun _ => Nat.le_refl _⟩
  trans h1 h2 := ⟨Nat.le_trans h1.1 h2.1, fun h => Nat.le_trans (h1.2 h) (h2.2 (Nat.le_trans h h1.1))⟩
  err p := ⟨Nat.le_refl _, fun _ => Nat.le_refl _⟩
  next rest p := by
    cases rest with
    | nil =>
      refine ⟨Nat.le_refl _, fun h => ?_⟩
      have hl := effLine_le_line p h
      have e1 : (next [] p).2.2.line = p.line := rfl
      have e2 : (next [] p).2.2.lastLineLen = p.lastLineLen := rfl
      have e3 : (next [] p).2.2.column = if p.lastCharLen > 0 then p.column + 1 else p.column := rfl
      rw [effLine_eq (next [] p).2.2, e1, e2, e3]
      rw [effLine_eq] at hl ⊢
      split <;> split <;> (try split) <;> (try split) <;> omega
    | cons r rs =>
      rw [next_cons_eq]
      show LineLe p (step r p)
      rcases step_cases r p with ⟨h1, h2⟩ | ⟨h1, h2, h3⟩
      · refine ⟨by omega, fun h => ?_⟩
        have hl := effLine_le_line p h
        rw [effLine_eq (step r p), h1, h2, if_pos (by omega)]; exact hl
      · refine ⟨by omega, fun h => ?_⟩
        have hl := effLine_le_line p h
        rw [effLine_eq (step r p), h1, h2, h3, if_neg (by omega), if_pos (by omega)]
        omega

/-- the line recorded for the token: `Scanner.Pos().Line` right after it -/
theorem tokLoop_lines_mono : ∀ fuel rest ch p acc toks,
    1 ≤ p.line →
    (acc.reverse).Pairwise (fun a b => a.line ≤ b.line) → (∀ t ∈ acc, t.line ≤ effLine p) →
    tokLoop fuel rest ch p acc = .ok toks → toks.Pairwise (fun a b => a.line ≤ b.line) := by
  intro fuel
  induction fuel with
  | zero =>
    intro rest ch p acc toks _ hacc _ h
    simp only [tokLoop, TokResult.ok.injEq] at h
    subst h; exact hacc
  | succ n ih =>
    intro rest ch p acc toks hl hacc hle h
    unfold tokLoop at h
    cases hs : scan (rest.length + 2) rest ch p with
    | mk o s =>
      rw [hs] at h
      have hrel := scan_rel_of lineLe_prel _ _ _ _ _ _ hs
      cases o with
      | none =>
        simp only [TokResult.ok.injEq] at h
        subst h; exact hacc
      | some kt =>
        obtain ⟨k, text⟩ := kt
        obtain ⟨ch', rest', p'⟩ := s
        simp only [] at h hrel
        by_cases he : p'.errs ≠ 0
        · rw [if_pos he] at h; cases h
        · rw [if_neg he] at h
          refine ih _ _ _ _ _ (Nat.le_trans hl hrel.1) ?_ ?_ h
          · rw [List.reverse_cons, List.pairwise_append]
            refine ⟨hacc, List.pairwise_singleton _ _, ?_⟩
            intro a ha b hb
            simp only [List.mem_singleton] at hb
            subst hb
            exact Nat.le_trans (hle a (List.mem_reverse.mp ha)) (hrel.2 hl)
          · intro t ht
            rcases List.mem_cons.mp ht with rfl | ht
            · exact Nat.le_refl _
            · exact Nat.le_trans (hle t ht) (hrel.2 hl)

/-- `token_lines_monotone`: the lines recorded for the tokens never decrease along the stream -/
theorem tokenizeRunes_lines_mono (runes : List Rune) (toks : List Token)
    (h : tokenizeRunes runes = .ok toks) : toks.Pairwise (fun a b => a.line ≤ b.line) := by
  unfold tokenizeRunes at h
  have hst : 1 ≤ (start runes).2.2.line := by
    unfold start
    have h1 := (lineLe_prel.next runes {}).1
    simp only []
    split
    · exact Nat.le_trans h1 (lineLe_prel.next _ _).1
    · exact h1
  generalize start runes = st at h hst
  obtain ⟨ch, rest, p⟩ := st
  exact tokLoop_lines_mono _ _ _ _ [] _ hst List.Pairwise.nil (by simp) h


end LispModel.Proofs.Layout

/-
  C06, end to end: reading the text produced by PRINT gives back a structurally equal value, for
  every readable data value with pairwise different hash-map / set keys.  Core Lean only.
-/
import LispModel.Proofs.PrintReadParseValue
namespace LispModel.Proofs.PrintRead
open LispModel LispModel.Scan LispModel.Read LispModel.Print LispModel.Proofs.Reader

/-- from "read with some fuel" to the fuel `readStr` uses -/
theorem readForm_fuel {cfg : Cfg} {ts : List Token} {f : Nat} {r : Val × List Token}
    (h : readForm f cfg ts = .ok r) : readForm (2 * ts.length + 2) cfg ts = .ok r := by
  have hp := readForm_no_fuel_panic cfg ts (2 * ts.length + 2) (by omega)
  by_cases hf : f ≤ 2 * ts.length + 2
  · rw [readForm_mono (by rw [h]; intro e; cases e) hf, h]
  · rw [← readForm_mono hp (by omega : 2 * ts.length + 2 ≤ f), h]

/-- rune level: the tokens of the printed text are read back as a structurally equal value -/
theorem print_then_read_runes (cfg : Cfg) (hphs : cfg.phs = none) (v : Val) (h : readableData v = true)
    (hd : Data v) :
    ∃ ts v', tokenizeRunes (runesOf (print v)) = .ok ts ∧ ts ≠ [] ∧
      readForm (2 * ts.length + 2) cfg ts = .ok (v', []) ∧ structEqB v v' = true := by
  obtain ⟨ts, hts, hmap⟩ := tokenize_print v h
  obtain ⟨v', ⟨f, hf⟩, ⟨t, r, hne, _⟩, heq⟩ := read_val cfg hphs v h hd ts hmap
  have := hf []
  rw [List.append_nil] at this
  exact ⟨ts, v', hts, by rw [hne]; simp, readForm_fuel this, heq⟩

/-- byte level -/
theorem print_then_read (v : Val) (h : readableData v = true) (hd : Data v) :
    ∃ v', readStr {} (utf8 (print v)) = .ok v' ∧ structEqB v v' = true := by
  obtain ⟨ts, v', hts, hne, hrf, heq⟩ := print_then_read_runes
    { ({} : Cfg) with module := modulePrefix (utf8 (print v)) } rfl v h hd
  refine ⟨v', ?_, heq⟩
  unfold readStr
  have ht : tokenize (utf8 (print v)) = .ok ts := by rw [tokenize, decodeAll_utf8]; exact hts
  simp only [ht]
  cases ts with
  | nil => exact absurd rfl hne
  | cons t0 r =>
    have e : (if ({} : Cfg).module.isNone = true then { ({} : Cfg) with module := modulePrefix (utf8 (print v)) }
        else ({} : Cfg)) = { ({} : Cfg) with module := modulePrefix (utf8 (print v)) } := rfl
    rw [e, hrf]

/-! ### the round-trip domain in a form the kernel can evaluate (for `decide`-checked examples) -/

/-- `readableKw` on the characters -/
def readableKwL (cs : List Char) : Bool :=
  match cs with
  | c :: name =>
    c == kwMarker &&
    (match tokenizeRunes (runesOf (':' :: name)) with
     | .ok [t] => decide (t.kind = .keyword) && tokStr t == String.ofList (':' :: name)
     | _ => false)
  | [] => false

theorem readableKw_eq (s : String) : readableKw s = readableKwL s.toList := by
  unfold readableKw readableKwL
  cases s.toList with
  | nil => rfl
  | cons c name =>
    simp only []
    rw [tokensOfString_eq, String.toList_ofList]
    rfl

def readableStrL (s : String) : Bool :=
  if Val.isKwStr s then readableKwL s.toList else !(s.toList.contains (Char.ofNat 0))

theorem readableStr_eq (s : String) : readableStr s = readableStrL s := by
  unfold readableStr readableStrL
  rw [readableKw_eq]

mutual
/-- `readableData`, evaluable by the kernel (`String.toUTF8` replaced by the character list) -/
def readableDataL : Val → Bool
  | .nil => true
  | .bool _ => true
  | .int i => decide (-9223372036854775808 ≤ i ∧ i ≤ 9223372036854775807)
  | .str s => readableStrL s
  | .sym s _ => readableSymL s.toList
  | .list xs _ => readableListL xs
  | .vec xs _ => readableListL xs
  | .map kvs => readableMapL kvs
  | .set ks => ks.all readableStrL
  | _ => false
def readableListL : List Val → Bool
  | [] => true
  | x :: xs => readableDataL x && readableListL xs
def readableMapL : List (String × Val) → Bool
  | [] => true
  | (k, v) :: r => readableStrL k && readableDataL v && readableMapL r
end

theorem all_readableStr_eq (ks : List String) : ks.all readableStr = ks.all readableStrL := by
  induction ks with
  | nil => rw [List.all_nil, List.all_nil]
  | cons k ks ih => rw [List.all_cons, List.all_cons, ih, readableStr_eq]

mutual
theorem readableData_eq : (v : Val) → readableData v = readableDataL v
  | .nil => rfl
  | .bool _ => rfl
  | .int _ => rfl
  | .str s => readableStr_eq s
  | .sym s _ => readableSym_eq s
  | .list xs _ => readableList_eq xs
  | .vec xs _ => readableList_eq xs
  | .map kvs => readableMap_eq kvs
  | .set ks => all_readableStr_eq ks
  | .fn .. => rfl
  | .builtin _ => rfl
  | .atom _ => rfl
  | .future _ => rfl
  | .goerr _ => rfl
  | .opaque _ => rfl
theorem readableList_eq : (xs : List Val) → readableList xs = readableListL xs
  | [] => rfl
  | x :: xs => by
    show (readableData x && readableList xs) = (readableDataL x && readableListL xs)
    rw [readableData_eq x, readableList_eq xs]
theorem readableMap_eq : (kvs : List (String × Val)) → readableMap kvs = readableMapL kvs
  | [] => rfl
  | (k, v) :: r => by
    show (readableStr k && readableData v && readableMap r) = (readableStrL k && readableDataL v && readableMapL r)
    rw [readableStr_eq, readableData_eq v, readableMap_eq r]
end

end LispModel.Proofs.PrintRead

/-
  C06, scanner level: the raw form `¬…¬` of a printed string (every `¬` of the content doubled),
  followed by anything that does not start with `¬`, is one RawString token.  Core Lean only.
-/
import LispModel.Proofs.PrintReadInt
import LispModel.Proofs.RoundTrip
namespace LispModel.Proofs.PrintRead
open LispModel LispModel.Scan LispModel.Read

/-- the content of a raw literal: every `¬` doubled -/
abbrev rawBody (cs : List Char) : List Char := replaceAll ['¬'] ['¬', '¬'] cs

theorem rawBody_nil : rawBody [] = [] := by rw [rawBody, RoundTrip.replaceAll_single]; rfl

theorem rawBody_cons (c : Char) (cs : List Char) :
    rawBody (c :: cs) = (if c = '¬' then ['¬', '¬'] else [c]) ++ rawBody cs := by
  rw [rawBody, rawBody, RoundTrip.replaceAll_single, RoundTrip.replaceAll_single, List.flatMap_cons]

/-- the loop in "next" form -/
def rawRun (s : St) : St := rawLoop false s.2.1 s.1 s.2.2

theorem rawRun_plain (x : Rune) (xs : List Rune) (c : Int) (p : PState) (h : ¬ c = 172) (h0 : ¬ c < 0) :
    rawRun (c, x :: xs, p) = rawRun (next (x :: xs) p) := by
  simp only [rawRun, rawLoop, if_neg h, if_neg h0]
  obtain ⟨q, hq, _⟩ := next_cons_eq x xs p
  rw [hq]

theorem rawRun_pair (x : Rune) (xs : List Rune) (w : Nat) (p : PState) :
    ∃ q, rawRun (172, ⟨172, w, false⟩ :: x :: xs, p) = rawRun (next (x :: xs) q) ∧ q.errs = p.errs := by
  obtain ⟨q, hq, he⟩ := ScanString.next_good 172 w (x :: xs) p (by decide) (by decide)
  refine ⟨q, ?_, he⟩
  obtain ⟨q', hq', _⟩ := next_cons_eq x xs q
  simp only [rawRun, rawLoop, if_true, hq, hq']
  simp

theorem rawRun_close {tail : List Rune} (ht : ∀ d S, tail = d :: S → ¬ (d.ch : Int) = 172) (p : PState) :
    rawRun (172, tail, p) = next tail p := by
  cases tail with
  | nil => simp [rawRun, rawLoop]
  | cons d S =>
    obtain ⟨q, hq, _⟩ := next_cons_eq d S p
    have := ht d S rfl
    simp only [rawRun, rawLoop, if_true, hq]
    cases S <;> simp [rawLoop, this]

theorem runesOf_append (a b : List Char) : runesOf (a ++ b) = runesOf a ++ runesOf b := by
  simp [runesOf]

theorem rawRun_printed {tail : List Rune} (ht : ∀ d S, tail = d :: S → ¬ (d.ch : Int) = 172)
    (cs : List Char) (h0 : Char.ofNat 0 ∉ cs) :
    ∀ p : PState, ∃ q, rawRun (next (runesOf (rawBody cs ++ ['¬']) ++ tail) p) = next tail q ∧ q.errs = p.errs := by
  induction cs with
  | nil =>
    intro p
    rw [rawBody_nil]
    obtain ⟨q, hq, he⟩ := ScanString.next_good 172 ('¬').utf8Size tail p (by decide) (by decide)
    have hq' : next (runesOf ([] ++ ['¬']) ++ tail) p = ((172 : Int), tail, q) := hq
    rw [hq', rawRun_close ht]
    exact ⟨q, rfl, he⟩
  | cons c cs ih =>
    intro p
    have h0' : Char.ofNat 0 ∉ cs := fun h => h0 (List.mem_cons_of_mem _ h)
    have hc0 : c ≠ Char.ofNat 0 := fun h => h0 (h ▸ List.mem_cons_self ..)
    rw [rawBody_cons, List.append_assoc, runesOf_append, List.append_assoc]
    -- the rest is a non-empty rune list
    have hne : ∃ x xs, runesOf (rawBody cs ++ ['¬']) ++ tail = x :: xs := by
      cases hb : rawBody cs with
      | nil => exact ⟨_, _, rfl⟩
      | cons b bs => exact ⟨_, _, rfl⟩
    obtain ⟨x, xs, hx⟩ := hne
    have ih' := ih h0'
    rw [hx] at ih' ⊢
    by_cases hc : c = '¬'
    · subst hc
      rw [if_pos rfl]
      obtain ⟨q1, hq1, he1⟩ := ScanString.next_good 172 ('¬').utf8Size (⟨172, ('¬').utf8Size, false⟩ :: x :: xs) p
        (by decide) (by decide)
      have hq1' : next (runesOf ['¬', '¬'] ++ x :: xs) p =
          ((172 : Int), ⟨172, ('¬').utf8Size, false⟩ :: x :: xs, q1) := hq1
      rw [hq1']
      obtain ⟨q2, hq2, he2⟩ := rawRun_pair x xs ('¬').utf8Size q1
      rw [hq2]
      obtain ⟨q, hq, he⟩ := ih' q2
      exact ⟨q, hq, by rw [he, he2, he1]⟩
    · rw [if_neg hc]
      obtain ⟨q1, hq1, he1⟩ := next_cons_eq (runeOf c) (x :: xs) p
      have hq1' : next (runesOf [c] ++ x :: xs) p = ((c.toNat : Int), x :: xs, q1) := hq1
      rw [hq1']
      have hn : ¬ (c.toNat : Int) = 172 := by
        have := ScanString.toNat_ne c '¬' hc
        intro h; apply this
        have : c.toNat = 172 := by omega
        rw [this]; rfl
      rw [rawRun_plain x xs _ q1 hn (by omega)]
      obtain ⟨q, hq, he⟩ := ih' q1
      refine ⟨q, hq, ?_⟩
      rw [he, he1]
      have : ¬ ((runeOf c).bad = true ∨ (runeOf c).ch = 0) := by
        intro h
        rcases h with h | h
        · cases h
        · exact ScanString.toNat_ne c (Char.ofNat 0) hc0 h
      rw [if_neg this]; rfl

set_option maxRecDepth 100000 in
theorem raw_not_ident : isIdentRune 172 0 = false := by decide

/-- the raw form of a printed string, followed by anything that does not start with `¬`: one
    RawString token spelled `¬` body `¬` -/
theorem scan_raw {tail : List Rune} (ht : ∀ d S, tail = d :: S → ¬ (d.ch : Int) = 172)
    (cs : List Char) (h0 : Char.ofNat 0 ∉ cs) (p : PState) :
    ∃ q, (∀ F : Nat, scan (F + 1) (runesOf (rawBody cs ++ ['¬']) ++ tail) 172 p =
        (some (.rawString, 172 :: (rawBody cs ++ ['¬']).map Char.toNat), next tail q)) ∧ q.errs = p.errs := by
  obtain ⟨q, hq, he⟩ := rawRun_printed ht cs h0 p
  refine ⟨q, fun F => ?_, he⟩
  have ht' : scanTok 172 (runesOf (rawBody cs ++ ['¬']) ++ tail) p = some (.rawString, next tail q) := by
    have a1 : isIdentRune 172 0 = false := raw_not_ident
    have a2 : isDecimal 172 = false := by decide
    simp only [scanTok, a1, a2, if_false, Bool.false_eq_true]
    simp only [show ¬ (172 : Int) = 45 by decide, show ¬ (172 : Int) < 0 by decide, show ¬ (172 : Int) = 34 by decide,
      show ¬ (172 : Int) = 58 by decide, show ¬ (172 : Int) = 46 by decide, if_false, if_true]
    rw [← hq]; rfl
  rw [scan_of_scanTok F _ _ _ _ _ (by decide) (by decide) ht']
  have := consumed_next' 172 (runesOf (rawBody cs ++ ['¬'])) tail q
  rw [show ((172 : Nat) : Int) = 172 from rfl] at this
  rw [this, runesOf_map_ch]

/-- the quoted form of a printed string, followed by anything: one String token (the statement of
    `ScanString.scan_printed_string_token` with an end state that does not depend on the fuel) -/
theorem scan_quoted (cs : List Char) (h0 : Char.ofNat 0 ∉ cs) (tail : List Rune) (p : PState)
    (hp : p.errs = 0) :
    ∃ q, (∀ F : Nat, scan (F + 1) (runesOf (RoundTrip.esc cs ++ ['"']) ++ tail) 34 p =
        (some (.string, 34 :: (RoundTrip.esc cs ++ ['"']).map Char.toNat), next tail q)) ∧ q.errs = 0 := by
  obtain ⟨q, hq, he⟩ := ScanString.scan_printed_quoted_string Char.utf8Size cs h0 tail p hp
  have hq' : scanString (runesOf (RoundTrip.esc cs ++ ['"']) ++ tail) p = (34, tail, q) := hq
  refine ⟨q, fun F => ?_, he⟩
  have ht' : scanTok 34 (runesOf (RoundTrip.esc cs ++ ['"']) ++ tail) p = some (.string, next tail q) := by
    have a1 : isIdentRune 34 0 = false := by decide
    have a2 : isDecimal 34 = false := by decide
    simp only [scanTok, a1, a2, if_false, Bool.false_eq_true]
    simp only [show ¬ (34 : Int) = 45 by decide, show ¬ (34 : Int) < 0 by decide, if_false, if_true, hq']
  rw [scan_of_scanTok F _ _ _ _ _ (by decide) (by decide) ht']
  have := consumed_next' 34 (runesOf (RoundTrip.esc cs ++ ['"'])) tail q
  rw [show ((34 : Nat) : Int) = 34 from rfl] at this
  rw [this, runesOf_map_ch]

end LispModel.Proofs.PrintRead

/-
  C10 proofs, part 15: all invariants of the future system together, for every reachable state.
-/
import LispModel.Proofs.ConcFutNoop
import LispModel.Proofs.ConcFutThms
namespace LispModel.Proofs.ConcFut
open LispModel.Conc LispModel.Conc.Fut

structure FutInv (s : FState) : Prop where
  mu : MuInv s
  out : OutInv s
  cancel : CancelInv s
  resp : RespInv s

theorem FutInv.init (kinds : List BodyKind) (progs : List (List FOp)) : FutInv (finit kinds progs) :=
  ⟨MuInv.init kinds progs, OutInv.init kinds progs, CancelInv.init kinds progs, RespInv.init kinds progs⟩

theorem FutInv.step {s s' : FState} {l : Label} (h : FutInv s) (hs : fstep prog s l = some s') : FutInv s' :=
  ⟨h.mu.step hs, h.out.step h.mu hs, h.cancel.step h.mu hs, h.resp.step h.cancel hs⟩

theorem FutInv.run {sched : List Label} {s s' : FState} (h : FutInv s) (hr : frun prog sched s = some s') :
    FutInv s' := by
  induction sched generalizing s with
  | nil => simp [frun] at hr; subst hr; exact h
  | cons l ls ih =>
    simp only [frun, Option.bind_eq_some_iff] at hr
    obtain ⟨s1, h1, h2⟩ := hr
    exact ih (h.step h1) h2

theorem fut_invariant {kinds progs s} (hr : FReachable kinds progs s) : FutInv s := by
  obtain ⟨sched, h⟩ := hr
  exact (FutInv.init kinds progs).run h

/-- `future-cancel` on a future that completed without having been cancelled: along every further
    run the future stays done and uncancelled, its context is not touched, and every `future-cancel`
    of it that has returned by then answered false -/
theorem cancel_after_completion_is_noop {sched : List Label} {s s' : FState} {f : Nat} (h : FutInv s)
    (hd : (s.futs f).done = true) (hnc : (s.futs f).cancelled = false)
    (hr : frun prog sched s = some s') :
    (s'.futs f).done = true ∧ (s'.futs f).cancelled = false ∧
    (s'.futs f).ctxCancelled = (s.futs f).ctxCancelled ∧
    ∀ t b, (OpName.cancel, f, Resp.flag b) ∈ (s'.threads t).out → b = false := by
  induction sched generalizing s with
  | nil =>
    simp [frun] at hr; subst hr
    refine ⟨hd, hnc, rfl, fun t b hm => ?_⟩
    cases b
    · rfl
    · have := (h.resp t f true hm).2 rfl; rw [hnc] at this; cases this
  | cons l ls ih =>
    simp only [frun, Option.bind_eq_some_iff] at hr
    obtain ⟨s1, h1, h2⟩ := hr
    obtain ⟨a, b, c⟩ := completed_uncancelled_stable h.mu h.cancel hd hnc h1
    obtain ⟨d1, d2, d3, d4⟩ := ih (h.step h1) a b h2
    exact ⟨d1, d2, d3.trans c, d4⟩

/-- `future-cancel` that found the future still running (its check under `mu` saw Done unset, ghost
    `took = false`): once past its write section the future is cancelled, its context is cancelled
    and it is done; the call answers true -/
theorem cancel_running_sets_cancelled {s : FState} (h : FutInv s) {t : Nat} {fr : FFrame}
    (hc : (s.threads t).cur = some fr) (hn : fr.name = .cancel) (htk : fr.took = false)
    (hpast : fr.returning = true ∨ fr.pc = 6 ∨ fr.pc = 7) :
    (s.futs fr.fut).cancelled = true ∧ (s.futs fr.fut).ctxCancelled = true ∧ (s.futs fr.fut).done = true ∧
    ((fr.returning = true ∨ fr.pc = 7) → fr.flag = true) := by
  have hok := h.cancel t fr hc hn
  unfold CancelOK at hok
  cases hr : fr.returning
  · simp only [hr, Bool.false_eq_true, if_false] at hok
    obtain ⟨-, -, -, -, e, g⟩ := hok
    rcases hpast with hp | hp | hp
    · rw [hr] at hp; cases hp
    · obtain ⟨e1, e2⟩ := e hp
      refine ⟨(e2 htk).1, (e2 htk).2, e1, ?_⟩
      rintro (h1 | h1)
      · cases h1
      · omega
    · obtain ⟨g1, g2, -⟩ := g hp
      exact ⟨(g2 htk).2.1, (g2 htk).2.2, g1, fun _ => (g2 htk).1⟩
  · simp only [hr, if_true] at hok
    obtain ⟨a, -, c⟩ := hok
    exact ⟨(a htk).2.1, (a htk).2.2, c, fun _ => (a htk).1⟩

/-- the check of `future-cancel`: with Done unset it enters the write section (ghost `took` stays false),
    with Done set it skips it -/
theorem cancel_check {o : Owner} {arm : Nat} {ce : Bool} {fr fr' : FFrame} {F F' : FutS}
    (hex : execF o arm ce (.brTrue .done 6) fr F = some (fr', F')) :
    F' = F ∧ (F.done = false → fr'.pc = fr.pc + 1 ∧ fr'.took = fr.took) ∧
    (F.done = true → fr'.pc = 6 ∧ fr'.took = true) := by
  simp [execF] at hex
  obtain ⟨h1, h2⟩ := hex
  subst h1; subst h2
  refine ⟨rfl, fun hd => by simp [hd], fun hd => by simp [hd]⟩

end LispModel.Proofs.ConcFut

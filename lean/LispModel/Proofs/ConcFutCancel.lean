/-
  C10 proofs, part 13: what `future-cancel` does, as assertions along its program (with the ghost
  `took` = "the check found Done already set").
-/
import LispModel.Proofs.ConcFutStable
import LispModel.Proofs.ConcFutMono
namespace LispModel.Proofs.ConcFut
open LispModel.Conc LispModel.Conc.Fut

def CancelOK (fr : FFrame) (F : FutS) : Prop :=
  if fr.returning then
    (fr.took = false → fr.flag = true ∧ F.cancelled = true ∧ F.ctxCancelled = true) ∧
    (fr.flag = true → F.cancelled = true) ∧ F.done = true
  else
    (fr.pc ≤ 5 → fr.took = false) ∧
    (fr.pc = 3 → F.done = false) ∧
    (fr.pc = 4 → F.cancelled = true) ∧
    (fr.pc = 5 → F.cancelled = true ∧ F.done = true) ∧
    (fr.pc = 6 → F.done = true ∧ (fr.took = false → F.cancelled = true ∧ F.ctxCancelled = true)) ∧
    (fr.pc = 7 → F.done = true ∧ (fr.took = false → fr.flag = true ∧ F.cancelled = true ∧ F.ctxCancelled = true) ∧
      (fr.flag = true → F.cancelled = true))

def CancelInv (s : FState) : Prop :=
  ∀ t fr, (s.threads t).cur = some fr → fr.name = .cancel → CancelOK fr (s.futs fr.fut)

/-- steps of others: flags only grow, and `Done` stays put while the frame is in its write section -/
theorem CancelOK.mono {fr : FFrame} {F F' : FutS} (h : CancelOK fr F) (hle : FlagsLe F F')
    (h3 : fr.returning = false → fr.pc = 3 → F'.done = F.done) : CancelOK fr F' := by
  obtain ⟨l1, l2, l3⟩ := hle
  unfold CancelOK at h ⊢
  cases hr : fr.returning
  · simp only [hr, Bool.false_eq_true, if_false] at h ⊢
    obtain ⟨a, b, c, d, e, g⟩ := h
    refine ⟨a, ?_, fun hp => l2 (c hp), fun hp => ⟨l2 (d hp).1, l1 (d hp).2⟩, ?_, ?_⟩
    · intro hp; rw [h3 hr hp]; exact b hp
    · intro hp; exact ⟨l1 (e hp).1, fun ht => ⟨l2 ((e hp).2 ht).1, l3 ((e hp).2 ht).2⟩⟩
    · intro hp
      obtain ⟨g1, g2, g3⟩ := g hp
      exact ⟨l1 g1, fun ht => ⟨(g2 ht).1, l2 (g2 ht).2.1, l3 (g2 ht).2.2⟩, fun hf => l2 (g3 hf)⟩
  · simp only [hr, if_true] at h ⊢
    obtain ⟨a, b, c⟩ := h
    exact ⟨fun ht => ⟨(a ht).1, l2 (a ht).2.1, l3 (a ht).2.2⟩, fun hf => l2 (b hf), l1 c⟩

/-- a step of the `future-cancel` frame itself -/
theorem CancelOK.own {o : Owner} {arm : Nat} {ce : Bool} {fr fr' : FFrame} {F F' : FutS}
    (h : CancelOK fr F) (hwf : FFrameWF fr) (hn : fr.name = .cancel)
    (hk : FrameStep prog o arm ce fr F (.inl fr', F')) : CancelOK fr' F' := by
  cases hk with
  | mop m fr' F' hnr hm hex =>
    unfold FFrameWF at hwf
    simp only [hnr, hn] at hwf
    have hpc : fr.pc < 8 := by simpa [prog, progFixed, cancelFixed] using hwf.1
    unfold CancelOK at h
    simp only [hnr, Bool.false_eq_true, if_false] at h
    obtain ⟨a, b, c, d, e, g⟩ := h
    rw [hn] at hm
    have hcases : fr.pc = 0 ∨ fr.pc = 1 ∨ fr.pc = 2 ∨ fr.pc = 3 ∨ fr.pc = 4 ∨ fr.pc = 5 ∨ fr.pc = 6 ∨ fr.pc = 7 := by
      omega
    rcases hcases with hp | hp | hp | hp | hp | hp | hp | hp <;> rw [hp] at hm <;>
      simp [prog, progFixed, cancelFixed] at hm <;> subst hm
    · simp [execF] at hex; obtain ⟨-, h1, h2⟩ := hex; subst h1; subst h2
      simp [CancelOK, hnr, hp, a (by omega)]
    · simp [execF] at hex; obtain ⟨h1, h2⟩ := hex; subst h1; subst h2
      simp [CancelOK, hnr, hp, a (by omega)]
    · simp [execF] at hex; obtain ⟨h1, h2⟩ := hex; subst h1; subst h2
      cases hd : F.done <;> simp [CancelOK, hnr, hp, hd, a (by omega)]
    · simp [execF] at hex; obtain ⟨h1, h2⟩ := hex; subst h1; subst h2
      simp [CancelOK, hnr, hp, a (by omega)]
    · simp [execF] at hex; obtain ⟨h1, h2⟩ := hex; subst h1; subst h2
      simp [CancelOK, hnr, hp, a (by omega), c hp]
    · simp [execF] at hex; obtain ⟨h1, h2⟩ := hex; subst h1; subst h2
      simp [CancelOK, hnr, hp, (d hp).1, (d hp).2]
    · simp [execF] at hex; obtain ⟨h1, h2⟩ := hex; subst h1; subst h2
      obtain ⟨e1, e2⟩ := e hp
      simp only [CancelOK, hnr, hp, Bool.false_eq_true, if_false]
      refine ⟨by omega, by omega, by omega, by omega, by omega, fun _ => ⟨e1, fun ht => ?_, fun hf => hf⟩⟩
      exact ⟨(e2 ht).1, (e2 ht).1, (e2 ht).2⟩
    · simp [execF] at hex; obtain ⟨h1, h2⟩ := hex; subst h1; subst h2
      obtain ⟨g1, g2, g3⟩ := g hp
      simp only [CancelOK, if_true]
      exact ⟨g2, g3, g1⟩
  | defer d ds fr1 F' hr hd hex =>
    have hn' : fr.name ∈ futNames := by rw [hn]; simp [futNames, clientNames]
    -- the deferred unlock changes neither flags nor the frame's ghost/flag fields
    unfold FFrameWF at hwf
    simp only [hr, if_true, hn, defersAtF] at hwf
    rcases hwf with h0 | ⟨h0, -⟩
    · rw [hd] at h0; cases h0
    · rw [hd] at h0
      split at h0
      · cases h0
        simp [execF] at hex
        obtain ⟨h1, h2⟩ := hex
        subst h1; subst h2
        unfold CancelOK at h ⊢
        simpa [hr] using h
      · cases h0

/-- a step of somebody else: the frame of `t` is untouched -/
theorem CancelInv.other {s s' : FState} {l : Label} {t : Nat} {fr : FFrame} (h : CancelInv s) (hM : MuInv s)
    (hs : fstep prog s l = some s') (hl : labelOwner l ≠ some (.thr t))
    (hc : (s.threads t).cur = some fr) (hn : fr.name = .cancel) : CancelOK fr (s'.futs fr.fut) := by
  apply (h t fr hc hn).mono (flags_monotone_step hs fr.fut)
  intro hnr hp
  have hmu : (s.futs fr.fut).mu = some (.thr t) :=
    (hM.mu_iff fr.fut (.thr t)).mpr ⟨fr, hc, rfl, by simp [holdsMu, hnr, hn, hp, holdsMuAt]⟩
  exact (flags_stable_under_mu hM hmu hl hs).1

theorem CancelInv.step {s s' : FState} {l : Label} (h : CancelInv s) (hM : MuInv s)
    (hs : fstep prog s l = some s') : CancelInv s' := by
  intro t fr' hc' hn'
  have hk := fstep_kind hs
  cases hk with
  | endCtx u =>
    have hc : (s.threads t).cur = some fr' := by
      by_cases ht : t = u
      · subst ht; simpa [upd] using hc'
      · simpa [upd, ht] using hc'
    exact h.other hM hs (by simp [labelOwner]) hc hn'
  | start u arm op more hc0 htd =>
    by_cases ht : t = u
    · subst ht
      simp [upd] at hc'; subst hc'
      simp [CancelOK, FOp.frame]
    · have hc : (s.threads t).cur = some fr' := by simpa [upd, ht] using hc'
      exact h.other hM hs (by simp [labelOwner]; exact fun hh => ht hh.symm) hc hn'
  | bodyStep g fr0 fr1 F' hb hk => exact h.other hM hs (by simp [labelOwner]) hc' hn'
  | bodyRet g fr0 fr1 F' hb hk => exact h.other hM hs (by simp [labelOwner]) hc' hn'
  | thrStep u arm fr0 fr1 F' hc0 hk =>
    by_cases ht : t = u
    · subst ht
      simp [upd] at hc'; subst hc'
      obtain ⟨hwf, hok⟩ := hM.wf (.thr t) fr0 hc0
      obtain ⟨-, hname, hfut, -⟩ := fframe_step hwf hok.names hk
      have hn0 : fr0.name = .cancel := by rw [← hname]; exact hn'
      have := (h t fr0 hc0 hn0).own hwf hn0 hk
      simpa [upd, hfut] using this
    · have hc : (s.threads t).cur = some fr' := by simpa [upd, ht] using hc'
      exact h.other hM hs (by simp [labelOwner]; exact fun hh => ht hh.symm) hc hn'
  | thrRet u arm fr0 fr1 F' hc0 hk =>
    by_cases ht : t = u
    · subst ht; simp [upd] at hc'
    · have hc : (s.threads t).cur = some fr' := by simpa [upd, ht] using hc'
      exact h.other hM hs (by simp [labelOwner]; exact fun hh => ht hh.symm) hc hn'

theorem CancelInv.init (kinds : List BodyKind) (progs : List (List FOp)) : CancelInv (finit kinds progs) := by
  intro t fr hc; simp [finit] at hc

end LispModel.Proofs.ConcFut

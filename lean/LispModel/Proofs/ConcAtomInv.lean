/-
  C09 proofs, part 3: the lock discipline is an invariant of every run of the fixed programs.
-/
import LispModel.Proofs.ConcAtomStep
namespace LispModel.Proofs.ConcAtom
open LispModel.Conc

theorem frameNew_wf (op : AOp) : FrameWF (Frame.new op) ∧ holdsW (Frame.new op) = false ∧ holdsR (Frame.new op) = false := by
  cases op <;> simp [Frame.new, FrameWF, holdsW, holdsR, holdsWAt, holdsRAt, defersAt, AOp.name, prog, progFixed,
    swapFixed, resetFixed, derefFixed, derefBaseline, printFixed]

theorem setTop_noatom (s : State) (t fr rest ev) (a : Nat) :
    (s.setTop t fr rest (s.atoms fr.op.atom) ev).atoms a = s.atoms a := by
  by_cases ha : a = fr.op.atom
  · subst ha; simp [State.setTop]
  · simp [State.setTop, upd, ha]

theorem LockInv.step {s s' : State} {t : Nat} (h : LockInv s) (hs : step prog s t = some s') : LockInv s' := by
  unfold Conc.step at hs
  simp only at hs
  split at hs
  · -- no frame: start the next operation
    rename_i hst
    split at hs
    · cases hs
    · rename_i op more htodo
      cases hs
      obtain ⟨hwf, hW, hR⟩ := frameNew_wf op
      have := LockInv.setTop_free (ev := []) h (h.free_of_empty hst) hwf (rest := []) (by simp) hW hR
      refine this.of_eq ?_ ?_
      · intro a; rw [setTop_noatom]
      · intro u; by_cases hu : u = t <;> simp [State.setTop, upd, hu]
  · rename_i fr rest hst
    have hwfs := h.wf t
    rw [hst] at hwfs
    obtain ⟨hwf, hrest⟩ := hwfs
    split at hs
    · -- returning
      rename_i hret
      split at hs
      · -- a deferred call
        rename_i d ds hd
        simp only [Option.map_eq_some_iff] at hs
        obtain ⟨⟨fr1, A'⟩, hex, hs⟩ := hs
        cases hs
        obtain ⟨hop, hwf', heff, hpre, hW, hR⟩ := frame_defer_step hwf hret hd hex
        exact LockInv.setTop_eff h hst hop hwf' heff hpre hW hR
      · -- the frame returns
        rename_i hd
        obtain ⟨hW, hR⟩ := returning_nodefers_free hret hd
        have hfree := h.free_of_top hst hW hR
        split at hs
        · -- top-level operation finished
          cases hs
          refine h.clear hfree (fun a => rfl) (by simp) ?_
          intro u hu; simp [upd, hu]
        · rename_i par rest'
          have hpar : atCallback par := hrest par (by simp)
          have hrest' : ∀ f ∈ rest', atCallback f := fun f hf => hrest f (by simp [hf])
          obtain ⟨hn, hpc, hnr, hds, hfl⟩ := hpar
          split at hs
          · cases hs
            apply LockInv.setTop_free h hfree _ hrest'
            · simp [holdsW, hnr, hn, hpc, holdsWAt]
            · simp [holdsR, hnr, hn, hpc, holdsRAt]
            · simp [FrameWF, hnr, hn, hpc, hds, hfl, defersAt, prog, progFixed, swapFixed]
          · cases hs
            apply LockInv.setTop_free h hfree _ hrest'
            · simp [holdsW, hds]
            · simp [holdsR, hds]
            · simp [FrameWF, hds]
    · -- the next micro-op
      rename_i hnr
      have hnr : fr.returning = false := by simpa using hnr
      split at hs
      · cases hs
      · -- callback
        rename_i hm
        obtain ⟨hn, hpc⟩ := callback_pc (name_mem fr.op) hm
        have hwf0 := hwf
        unfold FrameWF at hwf0
        simp only [hnr] at hwf0
        obtain ⟨-, hds, hfl⟩ := hwf0
        rw [hn, hpc] at hds
        have hds : fr.defers = [] := by simpa [defersAt] using hds
        have hW : holdsW fr = false := by simp [holdsW, hnr, hn, hpc, holdsWAt]
        have hR : holdsR fr = false := by simp [holdsR, hnr, hn, hpc, holdsRAt]
        have hfree := h.free_of_top hst hW hR
        have hcb : atCallback fr := ⟨hn, hpc, hnr, hds, hfl⟩
        have hrest2 : ∀ f ∈ fr :: rest, atCallback f := by
          intro f hf
          rcases List.mem_cons.mp hf with hf | hf
          · rw [hf]; exact hcb
          · exact hrest f hf
        split at hs
        · cases hs
          apply LockInv.setTop_free h hfree _ hrest
          · simp [holdsW, hnr, hn, hpc, holdsWAt]
          · simp [holdsR, hnr, hn, hpc, holdsRAt]
          · simp [FrameWF, hnr, hn, hpc, hds, hfl, defersAt, prog, progFixed, swapFixed]
        · cases hs
          apply LockInv.setTop_free h hfree _ hrest
          · simp [holdsW, hds]
          · simp [holdsR, hds]
          · simp [FrameWF, hds]
        · cases hs
          exact LockInv.setTop_free h hfree (frameNew_wf _).1 hrest2 (frameNew_wf _).2.1 (frameNew_wf _).2.2
        · cases hs
          exact LockInv.setTop_free h hfree (frameNew_wf _).1 hrest2 (frameNew_wf _).2.1 (frameNew_wf _).2.2
        · cases hs
      · rename_i m hncb hm
        simp only [Option.map_eq_some_iff] at hs
        obtain ⟨⟨fr', A'⟩, hex, hs⟩ := hs
        cases hs
        have hcb : m ≠ .callback := by
          intro hc; exact hncb hc
        obtain ⟨hwf', hpre, hW, hR⟩ := frame_step hwf hnr hm hcb hex
        obtain ⟨hop, heff⟩ := execM_eff hex
        exact LockInv.setTop_eff h hst hop hwf' heff hpre hW hR

theorem LockInv.init (progs : List (List AOp)) (vals : Nat → Nat) : LockInv (init progs vals) := by
  constructor
  · intro t; simp [Conc.init, StackWF]
  · intro a t; simp [Conc.init]
  · intro a t; simp [Conc.init]
  · intro a; simp [Conc.init]
  · intro a; simp [Conc.init]

theorem LockInv.run {sched : List Nat} {s s' : State} (h : LockInv s) (hr : run prog sched s = some s') :
    LockInv s' := by
  induction sched generalizing s with
  | nil => simp [Conc.run] at hr; subst hr; exact h
  | cons t ts ih =>
    simp only [Conc.run, Option.bind_eq_some_iff] at hr
    obtain ⟨s1, h1, h2⟩ := hr
    exact ih (h.step h1) h2

/-- states reachable by the fixed programs from an initial configuration -/
def Reachable (progs : List (List AOp)) (vals : Nat → Nat) (s : State) : Prop :=
  ∃ sched, Conc.run prog sched (Conc.init progs vals) = some s

theorem lock_discipline {progs vals s} (hr : Reachable progs vals s) : LockInv s := by
  obtain ⟨sched, h⟩ := hr
  exact (LockInv.init progs vals).run h

end LispModel.Proofs.ConcAtom

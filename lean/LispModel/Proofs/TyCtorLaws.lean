/-
  Laws of the `types/types.go` model (LispModel/TyCtor.lean): the type predicates (C13), the hash-map / set
  constructors, `GetSlice`, `ConvertFrom` / `ConvertTo`, `Apply` (C04), `SetMacro` / `GetMacro`.
  General statements are proved for all values; closed examples at the end are checked by evaluation.
-/
import LispModel.TyCtor
namespace LispModel.TyCtor
open LispModel

/-! ### shapes -/

/-- the elements of a `List` / `Vector` value -/
def seqElems : TVal → Option (List TVal)
  | .list xs _ _ => some xs
  | .vec xs _ _ => some xs
  | _ => none

def isList : TVal → Bool
  | .list .. => true
  | _ => false

def isVec : TVal → Bool
  | .vec .. => true
  | _ => false

/-- a value the interpreter itself can build (not a foreign Go value) -/
def isLispValue : TVal → Bool
  | .other .. => false
  | _ => true

/-! ### the scalar predicates: each is exactly its kind test (C13) -/

theorem nilQ_iff (v : TVal) : nilQ v = true ↔ v = .nil := by
  cases v <;> simp [nilQ]

theorem trueQ_iff (v : TVal) : trueQ v = true ↔ v = .bool true := by
  cases v <;> simp [trueQ]

theorem falseQ_iff (v : TVal) : falseQ v = true ↔ v = .bool false := by
  cases v <;> simp [falseQ]

/-- `Q[T]` is the dynamic-type test; `Q[MalType]` holds of everything but nil -/
theorem q_iff (t : GoType) (v : TVal) :
    q t v = true ↔ (t = .any ∧ v ≠ .nil) ∨ (t ≠ .any ∧ dynType v = some t) := by
  cases t <;> cases v <;> simp [q, dynType]

theorem q_any_iff (v : TVal) : q .any v = true ↔ v ≠ .nil := by
  cases v <;> simp [q, dynType]

theorem q_nil (t : GoType) : q t .nil = false := by
  cases t <;> simp [q, dynType]

/-- the instantiations core.go registers: `number?` `symbol?` `list?` `vector?` `map?` `set?` (and `Q[string]`,
    `Q[MalFunc]`, `Q[Func]` used by `keyword?` / `string?` / `macro?` / `fn?`) -/
theorem q_kind_tests (v : TVal) :
    (q .int v = true ↔ ∃ i, v = .int i) ∧ (q .symbol v = true ↔ ∃ s, v = .sym s) ∧
    (q .list v = true ↔ ∃ xs m c, v = .list xs m c) ∧ (q .vector v = true ↔ ∃ xs m c, v = .vec xs m c) ∧
    (q .hashMap v = true ↔ ∃ kvs m, v = .map kvs m) ∧ (q .set v = true ↔ ∃ ks m, v = .set ks m) ∧
    (q .string v = true ↔ ∃ s, v = .str s) ∧ (q .bool v = true ↔ ∃ b, v = .bool b) ∧
    (q .malFunc v = true ↔ ∃ f, v = .fn f) ∧ (q .func v = true ↔ ∃ f m, v = .builtin f m) ∧
    (q .rawFunc v = true ↔ ∃ f, v = .rawfn f) := by
  cases v <;> simp [q, dynType]

/-- two different concrete types never both hold of one value -/
theorem q_exclusive (t t' : GoType) (v : TVal) (h : q t v = true) (h' : q t' v = true) :
    t = t' ∨ t = .any ∨ t' = .any := by
  rw [q_iff] at h h'
  rcases h with ⟨h, _⟩ | ⟨_, h⟩
  · exact .inr (.inl h)
  · rcases h' with ⟨h', _⟩ | ⟨_, h'⟩
    · exact .inr (.inr h')
    · rw [h] at h'; exact .inl (Option.some.inj h')

/-! ### keywords and strings -/

/-- `Keyword_Q` never reaches its unchecked `obj.(string)` on a non-string (the `&&` guards it): it is total, and
    true exactly of the strings that begin with U+029E -/
theorem keywordQ_spec (v : TVal) :
    keywordQ v = .ok (match v with | .str s => Val.isKwStr s | _ => false) := by
  cases v <;> simp [keywordQ, q, dynType, assertString, Out.map, Out.bind]

/-- `String_Q`: a string that is NOT a keyword — keywords are not strings for `string?` -/
theorem stringQ_spec (v : TVal) :
    stringQ v = .ok (match v with | .str s => !Val.isKwStr s | _ => false) := by
  cases v <;> simp [stringQ, q, dynType, assertString, Out.map, Out.bind]

theorem keywordQ_never_panics (v : TVal) : (keywordQ v).isPanic = false := by
  rw [keywordQ_spec]; rfl

theorem stringQ_never_panics (v : TVal) : (stringQ v).isPanic = false := by
  rw [stringQ_spec]; rfl

/-- a Go string is a keyword or a string for the predicates, never both, never neither -/
theorem str_keyword_xor_string (s : String) :
    (keywordQ (.str s) = .ok true ∧ stringQ (.str s) = .ok false) ∨
    (keywordQ (.str s) = .ok false ∧ stringQ (.str s) = .ok true) := by
  rw [keywordQ_spec, stringQ_spec]
  cases Val.isKwStr s <;> simp

/-- anything that is not a Go string is neither -/
theorem nonstr_neither (v : TVal) (h : ∀ s, v ≠ .str s) : keywordQ v = .ok false ∧ stringQ v = .ok false := by
  rw [keywordQ_spec, stringQ_spec]
  cases v <;> simp_all

theorem isKwStr_newKeyword (s : String) : Val.isKwStr (newKeyword s) = true := by
  simp [Val.isKwStr, newKeyword]

/-- `NewKeyword` always makes a keyword (it does not look whether `s` is one already: `keyword` in core.go does) -/
theorem keywordQ_newKeyword (s : String) :
    keywordQ (.str (newKeyword s)) = .ok true ∧ stringQ (.str (newKeyword s)) = .ok false := by
  rw [keywordQ_spec, stringQ_spec]; simp [isKwStr_newKeyword]

theorem newKeyword_toList (s : String) : (newKeyword s).toList = kwMarker :: s.toList := by
  simp [newKeyword]

/-- … so it is injective, and never the identity -/
theorem newKeyword_injective (s t : String) (h : newKeyword s = newKeyword t) : s = t := by
  have := congrArg String.toList h
  rw [newKeyword_toList, newKeyword_toList] at this
  exact String.toList_inj.mp (List.cons.inj this).2

theorem newKeyword_ne_self (s : String) : newKeyword s ≠ s := by
  intro h
  have := congrArg (fun x => x.toList.length) h
  simp [newKeyword_toList] at this

/-! ### `Sequential_Q`, `GetSlice` -/

/-- `Sequential_Q` goes by the NAME of the dynamic type: a list, a vector — or any foreign Go value whose type
    happens to be called `List` / `Vector` (`container/list.List`, a host's own `Vector` struct …) -/
theorem sequential_iff (v : TVal) :
    sequentialQ v = .ok true ↔
      isList v = true ∨ isVec v = true ∨ ∃ ty name, v = .other ty name ∧ (name = "List" ∨ name = "Vector") := by
  cases v with
  | other ty name =>
    simp only [sequentialQ, reflectName, isList, isVec]
    constructor
    · intro h
      refine .inr (.inr ⟨ty, name, rfl, ?_⟩)
      simpa using h
    · rintro (h | h | ⟨_, _, h, hn⟩)
      · cases h
      · cases h
      · cases h; simpa using hn
  | _ => simp [sequentialQ, reflectName, isList, isVec]

/-- on the values the interpreter builds: exactly the lists and the vectors -/
theorem sequential_iff_lisp (v : TVal) (h : isLispValue v = true) :
    sequentialQ v = .ok true ↔ isList v = true ∨ isVec v = true := by
  cases v <;> simp_all [sequentialQ, reflectName, isList, isVec, isLispValue]

/-- the nil test comes first: `reflect.TypeOf(nil).Name()` is never evaluated -/
theorem sequentialQ_never_panics (v : TVal) : (sequentialQ v).isPanic = false := by
  cases v <;> simp [sequentialQ, reflectName, Out.isPanic]

theorem sequentialQ_total (v : TVal) : sequentialQ v = .ok true ∨ sequentialQ v = .ok false := by
  cases v with
  | other ty name =>
    simp only [sequentialQ, reflectName]
    cases (name == "List" || name == "Vector") <;> simp
  | _ => simp [sequentialQ, reflectName]

/-- `GetSlice`: list, vector ⇒ their elements; nil and everything else ⇒ the error; never a panic -/
theorem getSlice_total (v : TVal) :
    getSlice v = (match seqElems v with | some xs => .ok xs | none => .err .notSeq) := by
  cases v <;> rfl

theorem getSlice_nil : getSlice .nil = .err .notSeq := rfl

theorem getSlice_never_panics (v : TVal) : (getSlice v).isPanic = false := by
  cases v <;> rfl

theorem getSlice_ok_iff (v : TVal) (xs : List TVal) : getSlice v = .ok xs ↔ seqElems v = some xs := by
  cases v <;> simp [getSlice, seqElems]

/-- on lisp values `Sequential_Q` and `GetSlice` agree (on a foreign `List` they do NOT: see the example) -/
theorem sequential_iff_getSlice (v : TVal) (h : isLispValue v = true) :
    sequentialQ v = .ok true ↔ (getSlice v).isOk = true := by
  cases v <;> simp_all [sequentialQ, reflectName, getSlice, Out.isOk, isLispValue]

theorem seqElems_newList (a : List TVal) : seqElems (newList a) = some a := rfl

theorem getSlice_newList (a : List TVal) : getSlice (newList a) = .ok a := rfl

/-! ### `SetMacro` / `GetMacro` -/

theorem getMacro_setMacro (f : MalFn TVal) : ∃ g, setMacro f = .fn g ∧ getMacro g = true :=
  ⟨_, rfl, rfl⟩

/-- only the flag changes -/
theorem setMacro_fields (f : MalFn TVal) :
    setMacro f = .fn ⟨f.hasEval, f.hasGenEnv, true, f.env, f.params, f.exp, f.md, f.cur⟩ := rfl

theorem setMacro_idem (f : MalFn TVal) : setMacro { f with isMacro := true } = setMacro f := rfl

theorem setMacro_of_macro (f : MalFn TVal) (h : getMacro f = true) : setMacro f = .fn f := by
  cases f; simp_all [setMacro, getMacro]

/-! ### `NewHashMap` -/

/-- the key / value pairs of a flat `k v k v …` slice: defined iff the length is even and every even position
    holds a Go string (keyword or not) -/
def pairsOf : List TVal → Option (List (String × TVal))
  | [] => some []
  | .str k :: v :: r => (pairsOf r).map ((k, v) :: ·)
  | _ => none

/-- `m[k] = v` for every pair, left to right: a LATER duplicate overwrites an earlier one -/
def insertAll (ps : List (String × TVal)) (m : List (String × TVal)) : List (String × TVal) :=
  ps.foldl (fun m kv => ainsert kv.1 kv.2 m) m

/-- the first element at an even position that is not a Go string -/
def firstBadKey : List TVal → Option TVal
  | [] => none
  | .str _ :: _ :: r => firstBadKey r
  | [.str _] => none
  | x :: _ => some x

theorem hmLoop_of_pairs (lst : List TVal) (m ps : List (String × TVal)) (h : pairsOf lst = some ps) :
    hmLoop lst m = .ok (insertAll ps m) := by
  induction lst, m using hmLoop.induct generalizing ps with
  | case1 m => simp [pairsOf] at h; subst h; rfl
  | case2 k v rest m ih =>
    simp only [pairsOf, Option.map_eq_some_iff] at h
    obtain ⟨ps', hps, rfl⟩ := h
    simp only [hmLoop, insertAll, List.foldl_cons]
    exact ih ps' hps
  | case3 _ m => simp [pairsOf] at h
  | case4 x t m h1 h2 =>
    cases x <;> first | (simp [pairsOf] at h; done) | skip
    cases t with
    | nil => exact (h2 _ rfl rfl).elim
    | cons v r => exact (h1 _ _ _ rfl rfl).elim

theorem hmLoop_badKey (lst : List TVal) (m : List (String × TVal)) (hlen : lst.length % 2 = 0)
    (h : pairsOf lst = none) :
    ∃ x, firstBadKey lst = some x ∧ (∀ s, x ≠ .str s) ∧ hmLoop lst m = .err (.badKey (typeName x)) := by
  induction lst, m using hmLoop.induct with
  | case1 m => simp [pairsOf] at h
  | case2 k v rest m ih =>
    simp only [pairsOf, Option.map_eq_none_iff] at h
    have hl : rest.length % 2 = 0 := by simp only [List.length_cons] at hlen; omega
    obtain ⟨x, hx, hs, hr⟩ := ih hl h
    exact ⟨x, by simpa [firstBadKey] using hx, hs, by simpa [hmLoop] using hr⟩
  | case3 _ m => simp at hlen
  | case4 x t m h1 h2 =>
    refine ⟨x, ?_, ?_, ?_⟩
    · unfold firstBadKey
      split <;> simp_all
    · intro s hs
      subst hs
      cases t with
      | nil => exact h2 _ rfl rfl
      | cons v r => exact h1 _ _ _ rfl rfl
    · unfold hmLoop
      split <;> simp_all

/-- the unchecked `lst[i+1]` can only fail on an odd slice — which `NewHashMap` has refused before the loop -/
theorem hmLoop_panic_odd (lst : List TVal) (m : List (String × TVal)) (h : (hmLoop lst m).isPanic = true) :
    lst.length % 2 = 1 := by
  induction lst, m using hmLoop.induct with
  | case1 m => simp [hmLoop, Out.isPanic] at h
  | case2 k v rest m ih =>
    have := ih (by simpa [hmLoop] using h)
    simp only [List.length_cons]; omega
  | case3 _ m => rfl
  | case4 x t m h1 h2 =>
    unfold hmLoop at h
    split at h <;> simp_all [Out.isPanic]

theorem pairsOf_length (lst : List TVal) (ps : List (String × TVal)) (h : pairsOf lst = some ps) :
    lst.length = 2 * ps.length := by
  induction lst using pairsOf.induct generalizing ps with
  | case1 => simp [pairsOf] at h; subst h; rfl
  | case2 k v r ih =>
    simp only [pairsOf, Option.map_eq_some_iff] at h
    obtain ⟨ps', hps, rfl⟩ := h
    simp [ih ps' hps]; omega
  | case3 l h1 h2 => unfold pairsOf at h; split at h <;> simp_all

/-- `pairsOf` is defined exactly on the slices of even length whose even positions are Go strings -/
theorem pairsOf_isSome_iff (lst : List TVal) :
    (∃ ps, pairsOf lst = some ps) ↔
      lst.length % 2 = 0 ∧ ∀ i, 2 * i < lst.length → ∃ s, lst[2 * i]? = some (.str s) := by
  induction lst using pairsOf.induct with
  | case1 => simp [pairsOf]
  | case2 k v r ih =>
    simp only [pairsOf, Option.map_eq_some_iff]
    constructor
    · rintro ⟨_, ps, hps, _⟩
      obtain ⟨hl, hk⟩ := ih.mp ⟨ps, hps⟩
      refine ⟨by simp only [List.length_cons]; omega, fun i hi => ?_⟩
      cases i with
      | zero => exact ⟨k, rfl⟩
      | succ j =>
        have : 2 * (j + 1) = 2 * j + 1 + 1 := by omega
        rw [this, List.getElem?_cons_succ, List.getElem?_cons_succ]
        exact hk j (by simp only [List.length_cons] at hi; omega)
    · rintro ⟨hl, hk⟩
      have : ∃ ps, pairsOf r = some ps := ih.mpr ⟨by simp only [List.length_cons] at hl; omega, fun i hi => by
        have h := hk (i + 1) (by simp only [List.length_cons]; omega)
        have e : 2 * (i + 1) = 2 * i + 1 + 1 := by omega
        rwa [e, List.getElem?_cons_succ, List.getElem?_cons_succ] at h⟩
      obtain ⟨ps, hps⟩ := this
      exact ⟨_, ps, hps, rfl⟩
  | case3 l h1 h2 =>
    have hn : pairsOf l = none := by unfold pairsOf; split <;> simp_all
    simp only [hn, reduceCtorEq, exists_false, false_iff, not_and]
    intro hl hk
    match l, h1, h2, hl, hk with
    | [], h1, _, _, _ => exact h1 rfl
    | [x], _, _, hl, _ => simp at hl
    | x :: y :: r, _, h2, _, hk =>
      obtain ⟨s, hs⟩ := hk 0 (by simp)
      simp at hs
      exact h2 s y r (by rw [hs])

theorem newHashMap_of_seq (v : TVal) (xs : List TVal) (h : seqElems v = some xs) :
    newHashMap v =
      if xs.length % 2 = 1 then .err .oddArgs else (hmLoop xs []).map fun m => .map m .nil := by
  cases v <;> simp_all [seqElems, newHashMap, getSlice, Out.bind]

/-- not a list, not a vector (nil included): the `GetSlice` error -/
theorem newHashMap_notSeq (v : TVal) (h : seqElems v = none) : newHashMap v = .err .notSeq := by
  cases v <;> simp_all [seqElems, newHashMap, getSlice, Out.bind]

/-- an odd number of elements: that error, whatever the elements are (the keys are not looked at yet) -/
theorem newHashMap_odd (v : TVal) (xs : List TVal) (h : seqElems v = some xs) (hl : xs.length % 2 = 1) :
    newHashMap v = .err .oddArgs := by
  rw [newHashMap_of_seq v xs h, if_pos hl]

/-- even, but some even position is not a Go string: the error names the type of the FIRST such element -/
theorem newHashMap_badKey (v : TVal) (xs : List TVal) (h : seqElems v = some xs) (hl : xs.length % 2 = 0)
    (hp : pairsOf xs = none) :
    ∃ x, firstBadKey xs = some x ∧ (∀ s, x ≠ .str s) ∧ newHashMap v = .err (.badKey (typeName x)) := by
  obtain ⟨x, hx, hs, hr⟩ := hmLoop_badKey xs [] hl hp
  refine ⟨x, hx, hs, ?_⟩
  rw [newHashMap_of_seq v xs h, if_neg (by omega), hr]; rfl

/-- the success case: the left-to-right fold of `m[k] = v` over the pairs, `Meta` nil -/
theorem newHashMap_ok (v : TVal) (xs : List TVal) (ps : List (String × TVal)) (h : seqElems v = some xs)
    (hp : pairsOf xs = some ps) : newHashMap v = .ok (.map (insertAll ps []) .nil) := by
  have hl : ¬ xs.length % 2 = 1 := by rw [pairsOf_length xs ps hp]; omega
  rw [newHashMap_of_seq v xs h, if_neg hl, hmLoop_of_pairs xs [] ps hp]; rfl

/-- `NewHashMap` succeeds iff the argument is a list / vector of even length whose even positions are Go strings
    (keywords are Go strings) -/
theorem newHashMap_ok_iff (v : TVal) :
    (∃ r, newHashMap v = .ok r) ↔
      ∃ xs, seqElems v = some xs ∧ xs.length % 2 = 0 ∧ ∀ i, 2 * i < xs.length → ∃ s, xs[2 * i]? = some (.str s) := by
  constructor
  · rintro ⟨r, hr⟩
    cases hs : seqElems v with
    | none => rw [newHashMap_notSeq v hs] at hr; cases hr
    | some xs =>
      refine ⟨xs, rfl, ?_⟩
      by_cases hl : xs.length % 2 = 1
      · rw [newHashMap_odd v xs hs hl] at hr; cases hr
      · cases hp : pairsOf xs with
        | some ps => exact (pairsOf_isSome_iff xs).mp ⟨ps, hp⟩
        | none =>
          obtain ⟨x, _, _, he⟩ := newHashMap_badKey v xs hs (by omega) hp
          rw [he] at hr; cases hr
  · rintro ⟨xs, hs, hl, hk⟩
    obtain ⟨ps, hp⟩ := (pairsOf_isSome_iff xs).mpr ⟨hl, hk⟩
    exact ⟨_, newHashMap_ok v xs ps hs hp⟩

/-- and its result is then a hash-map without metadata built by the fold -/
theorem newHashMap_spec (v r : TVal) (h : newHashMap v = .ok r) :
    ∃ xs ps, seqElems v = some xs ∧ pairsOf xs = some ps ∧ r = .map (insertAll ps []) .nil := by
  obtain ⟨xs, hs, hl, hk⟩ := (newHashMap_ok_iff v).mp ⟨r, h⟩
  obtain ⟨ps, hp⟩ := (pairsOf_isSome_iff xs).mpr ⟨hl, hk⟩
  rw [newHashMap_ok v xs ps hs hp] at h
  exact ⟨xs, ps, hs, hp, (Out.ok.inj h).symm⟩

/-- the unchecked index `lst[i+1]` is unreachable: `NewHashMap` never panics -/
theorem newHashMap_never_panics (v : TVal) : (newHashMap v).isPanic = false := by
  cases hs : seqElems v with
  | none => rw [newHashMap_notSeq v hs]; rfl
  | some xs =>
    rw [newHashMap_of_seq v xs hs]
    by_cases hl : xs.length % 2 = 1
    · rw [if_pos hl]; rfl
    · rw [if_neg hl]
      cases hp : (hmLoop xs []).isPanic with
      | false => cases hh : hmLoop xs [] <;> simp_all [Out.map, Out.bind, Out.isPanic]
      | true => exact absurd (hmLoop_panic_odd xs [] hp) hl

/-! ### what the fold builds: later duplicates win, every key once -/

theorem alookup_ainsert_self {α} (k : String) (v : α) (m : List (String × α)) :
    alookup k (ainsert k v m) = some v := by
  induction m with
  | nil => simp [ainsert, alookup]
  | cons p r ih =>
    obtain ⟨k', v'⟩ := p
    by_cases h : k' = k <;> simp [ainsert, alookup, h, ih]

theorem alookup_ainsert_ne {α} (k k' : String) (v : α) (m : List (String × α)) (h : k' ≠ k) :
    alookup k (ainsert k' v m) = alookup k m := by
  induction m with
  | nil => simp [ainsert, alookup, h]
  | cons p r ih =>
    obtain ⟨k'', v''⟩ := p
    by_cases h2 : k'' = k' <;> by_cases h3 : k'' = k <;> simp_all [ainsert, alookup]

/-- the value of the LAST pair with key `k` -/
def lastVal (k : String) : List (String × TVal) → Option TVal
  | [] => none
  | (k', v) :: r =>
    match lastVal k r with
    | some w => some w
    | none => if k' = k then some v else none

/-- looking a key up in the built map gives the value of its last occurrence in the argument slice -/
theorem alookup_insertAll (k : String) (ps m : List (String × TVal)) :
    alookup k (insertAll ps m) = (match lastVal k ps with | some w => some w | none => alookup k m) := by
  induction ps generalizing m with
  | nil => rfl
  | cons p r ih =>
    obtain ⟨k', v⟩ := p
    simp only [insertAll, List.foldl_cons] at ih ⊢
    rw [ih, lastVal]
    cases lastVal k r with
    | some w => rfl
    | none =>
      by_cases h : k' = k
      · subst h; simp [alookup_ainsert_self]
      · simp [h, alookup_ainsert_ne k k' v m h]

theorem lastVal_isSome_iff (k : String) (ps : List (String × TVal)) :
    (lastVal k ps).isSome = true ↔ k ∈ ps.map Prod.fst := by
  induction ps with
  | nil => simp [lastVal]
  | cons p r ih =>
    obtain ⟨k', v⟩ := p
    simp only [lastVal, List.map_cons, List.mem_cons]
    cases h : lastVal k r with
    | some w => simp [h] at ih; simp [ih]
    | none =>
      simp [h] at ih
      by_cases hk : k' = k
      · simp [hk]
      · have : ¬ k = k' := fun e => hk e.symm
        simp [hk, ih, this]

/-- the keys of the result are exactly the keys given -/
theorem mem_keys_insertAll (k : String) (ps : List (String × TVal)) :
    (alookup k (insertAll ps [])).isSome = true ↔ k ∈ ps.map Prod.fst := by
  rw [alookup_insertAll, ← lastVal_isSome_iff]
  cases lastVal k ps <;> simp [alookup]

theorem akeys_ainsert {α} (k : String) (v : α) (m : List (String × α)) :
    akeys (ainsert k v m) = if k ∈ akeys m then akeys m else akeys m ++ [k] := by
  induction m with
  | nil => simp [ainsert, akeys]
  | cons p r ih =>
    obtain ⟨k', v'⟩ := p
    simp only [akeys] at ih
    by_cases h : k' = k
    · simp [ainsert, akeys, h]
    · have h' : ¬ k = k' := fun e => h e.symm
      by_cases hm : k ∈ List.map (fun x => x.fst) r <;> simp_all [ainsert, akeys]

theorem nodup_akeys_ainsert {α} (k : String) (v : α) (m : List (String × α)) (h : (akeys m).Nodup) :
    (akeys (ainsert k v m)).Nodup := by
  rw [akeys_ainsert]
  split
  · exact h
  · next hk =>
    rw [List.nodup_append]
    refine ⟨h, by simp, ?_⟩
    intro a ha b hb
    simp at hb; subst hb
    intro e; subst e; exact hk ha

/-- a Go map holds every key once: so does the model's result -/
theorem nodup_keys_insertAll (ps m : List (String × TVal)) (h : (akeys m).Nodup) :
    (akeys (insertAll ps m)).Nodup := by
  induction ps generalizing m with
  | nil => exact h
  | cons p r ih => exact ih _ (nodup_akeys_ainsert p.1 p.2 m h)

/-! ### `NewSet` -/

/-- the members, when every element is a Go string -/
def allStrs : List TVal → Option (List String)
  | [] => some []
  | .str k :: r => (allStrs r).map (k :: ·)
  | _ => none

def sinsertAll (ks : List String) (s : List String) : List String :=
  ks.foldl (fun s k => sinsert k s) s

theorem setLoop_of_strs (xs : List TVal) (m ks : List String) (h : allStrs xs = some ks) :
    setLoop xs m = .ok (sinsertAll ks m) := by
  induction xs, m using setLoop.induct generalizing ks with
  | case1 m => simp [allStrs] at h; subst h; rfl
  | case2 k rest m ih =>
    simp only [allStrs, Option.map_eq_some_iff] at h
    obtain ⟨ks', hks, rfl⟩ := h
    simpa [setLoop, sinsertAll] using ih ks' hks
  | case3 x t m h1 =>
    cases x <;> first | (simp [allStrs] at h; done) | exact (h1 _ rfl).elim

theorem setLoop_bad (xs : List TVal) (m : List String) (h : allStrs xs = none) :
    setLoop xs m = .err .badSetItem := by
  induction xs, m using setLoop.induct with
  | case1 m => simp [allStrs] at h
  | case2 k rest m ih =>
    simp only [allStrs, Option.map_eq_none_iff] at h
    simpa [setLoop] using ih h
  | case3 x t m h1 =>
    unfold setLoop
    split <;> simp_all

theorem allStrs_isSome_iff (xs : List TVal) :
    (∃ ks, allStrs xs = some ks) ↔ ∀ x ∈ xs, ∃ s, x = .str s := by
  induction xs with
  | nil => simp [allStrs]
  | cons x r ih =>
    cases x with
    | str k =>
      simp only [allStrs, Option.map_eq_some_iff, List.mem_cons, forall_eq_or_imp]
      constructor
      · rintro ⟨_, ks, hks, _⟩
        exact ⟨⟨k, rfl⟩, ih.mp ⟨ks, hks⟩⟩
      · rintro ⟨_, h⟩
        obtain ⟨ks, hks⟩ := ih.mpr h
        exact ⟨_, ks, hks, rfl⟩
    | _ => simp [allStrs]

/-- `NewSet(nil)`: the ZERO set — its Go map is nil (not an empty map).  Reading it (`len`, `range`, lookup) is the
    same as reading an empty map; a direct write would panic, which is why `conj` / `assoc` / `dissoc` in core.go
    work on a `copy_set` -/
theorem newSet_nil : newSet .nil = .ok (.set none .nil) := rfl

theorem newSet_of_seq (v : TVal) (xs : List TVal) (h : seqElems v = some xs) :
    newSet v = (setLoop xs []).map fun m => .set (some m) .nil := by
  cases v <;> simp_all [seqElems, newSet, getSlice, Out.bind]

/-- neither nil nor a sequence (a set, a hash-map, a string …): the `GetSlice` error -/
theorem newSet_notSeq (v : TVal) (hn : v ≠ .nil) (h : seqElems v = none) : newSet v = .err .notSeq := by
  cases v <;> simp_all [seqElems, newSet, getSlice, Out.bind]

/-- a member that is not a Go string -/
theorem newSet_badItem (v : TVal) (xs : List TVal) (h : seqElems v = some xs) (hb : allStrs xs = none) :
    newSet v = .err .badSetItem := by
  rw [newSet_of_seq v xs h, setLoop_bad xs [] hb]; rfl

/-- the success case on a sequence: a NON-nil map holding the members, `Meta` nil -/
theorem newSet_ok (v : TVal) (xs : List TVal) (ks : List String) (h : seqElems v = some xs)
    (hk : allStrs xs = some ks) : newSet v = .ok (.set (some (sinsertAll ks [])) .nil) := by
  rw [newSet_of_seq v xs h, setLoop_of_strs xs [] ks hk]; rfl

theorem newSet_ok_iff (v : TVal) :
    (∃ r, newSet v = .ok r) ↔ v = .nil ∨ ∃ xs, seqElems v = some xs ∧ ∀ x ∈ xs, ∃ s, x = .str s := by
  constructor
  · rintro ⟨r, hr⟩
    by_cases hn : v = .nil
    · exact .inl hn
    · cases hs : seqElems v with
      | none => rw [newSet_notSeq v hn hs] at hr; cases hr
      | some xs =>
        refine .inr ⟨xs, rfl, ?_⟩
        cases hk : allStrs xs with
        | some ks => exact (allStrs_isSome_iff xs).mp ⟨ks, hk⟩
        | none => rw [newSet_badItem v xs hs hk] at hr; cases hr
  · rintro (rfl | ⟨xs, hs, hk⟩)
    · exact ⟨_, newSet_nil⟩
    · obtain ⟨ks, hks⟩ := (allStrs_isSome_iff xs).mpr hk
      exact ⟨_, newSet_ok v xs ks hs hks⟩

/-- the result's Go map is nil exactly when the argument was nil -/
theorem newSet_nilMap_iff (v : TVal) (ks : Option (List String)) (md : TVal) (h : newSet v = .ok (.set ks md)) :
    (ks = none ↔ v = .nil) ∧ md = .nil := by
  by_cases hn : v = .nil
  · subst hn; rw [newSet_nil] at h; cases h; simp
  · cases hs : seqElems v with
    | none => rw [newSet_notSeq v hn hs] at h; cases h
    | some xs =>
      cases hk : allStrs xs with
      | none => rw [newSet_badItem v xs hs hk] at h; cases h
      | some ks' => rw [newSet_ok v xs ks' hs hk] at h; cases h; simp [hn]

theorem newSet_never_panics (v : TVal) : (newSet v).isPanic = false := by
  by_cases hn : v = .nil
  · subst hn; rfl
  · cases hs : seqElems v with
    | none => rw [newSet_notSeq v hn hs]; rfl
    | some xs =>
      cases hk : allStrs xs with
      | none => rw [newSet_badItem v xs hs hk]; rfl
      | some ks => rw [newSet_ok v xs ks hs hk]; rfl

theorem mem_sinsert (a k : String) (s : List String) : a ∈ sinsert k s ↔ a ∈ s ∨ a = k := by
  unfold sinsert
  split
  · next h =>
    have : k ∈ s := by simpa using h
    constructor
    · exact .inl
    · rintro (h | rfl) <;> assumption
  · simp

/-- the members of the result are exactly the members given … -/
theorem mem_sinsertAll (a : String) (ks s : List String) : a ∈ sinsertAll ks s ↔ a ∈ s ∨ a ∈ ks := by
  induction ks generalizing s with
  | nil => simp [sinsertAll]
  | cons k r ih =>
    simp only [sinsertAll, List.foldl_cons] at ih ⊢
    rw [ih, mem_sinsert]
    simp only [List.mem_cons]
    constructor
    · rintro ((h | h) | h)
      · exact .inl h
      · exact .inr (.inl h)
      · exact .inr (.inr h)
    · rintro (h | h | h)
      · exact .inl (.inl h)
      · exact .inl (.inr h)
      · exact .inr h

theorem nodup_sinsert (k : String) (s : List String) (h : s.Nodup) : (sinsert k s).Nodup := by
  unfold sinsert
  split
  · exact h
  · next hk =>
    rw [List.nodup_append]
    refine ⟨h, by simp, ?_⟩
    intro a ha b hb
    simp at hb; subst hb
    intro e; subst e
    exact hk (by simpa using ha)

/-- … each once -/
theorem nodup_sinsertAll (ks s : List String) (h : s.Nodup) : (sinsertAll ks s).Nodup := by
  induction ks generalizing s with
  | nil => exact h
  | cons k r ih => exact ih _ (nodup_sinsert k s h)

/-! ### `ConvertFrom` / `ConvertTo` -/

theorem convertFrom_list (xs : List TVal) (m : TVal) (c : Option Pos) : convertFrom (.list xs m c) = .ok (xs, m) := rfl
theorem convertFrom_vec (xs : List TVal) (m : TVal) (c : Option Pos) : convertFrom (.vec xs m c) = .ok (xs, m) := rfl
theorem convertFrom_set (ks : Option (List String)) (m : TVal) :
    convertFrom (.set ks m) = .ok ((setKeys ks).map .str, m) := rfl

/-- `ConvertFrom` never panics; it fails exactly on what is not a set, a list, a vector (hash-maps included) -/
theorem convertFrom_total (v : TVal) :
    (∃ xs m, convertFrom v = .ok (xs, m)) ∨ convertFrom v = .err (.convFrom (typeName v)) := by
  cases v <;> simp [convertFrom]

theorem convertFrom_never_panics (v : TVal) : (convertFrom v).isPanic = false := by
  cases v <;> rfl

/-- only the dynamic type of the target matters: its elements, metadata and cursor are ignored -/
theorem convertTo_list (src ys : List TVal) (m' md : TVal) (c : Option Pos) :
    convertTo src (.list ys m' c) md = .ok (.list src md (some zeroPos)) := rfl
theorem convertTo_vec (src ys : List TVal) (m' md : TVal) (c : Option Pos) :
    convertTo src (.vec ys m' c) md = .ok (.vec src md (some zeroPos)) := rfl

/-- round trip 1: converting to a list / vector and back gives the very elements and metadata -/
theorem convertTo_convertFrom (src : List TVal) (to md : TVal) (h : isList to = true ∨ isVec to = true) :
    (convertTo src to md).bind convertFrom = .ok (src, md) := by
  cases to <;> simp_all [isList, isVec, convertTo, convertFrom, Out.bind]

/-- round trip 2: a list / vector taken apart and rebuilt after its own example is itself — except for the
    cursor, which `ConvertTo` replaces by a fresh zero `&Position{}` -/
theorem convertFrom_convertTo (xs : List TVal) (m : TVal) (c : Option Pos) :
    ((convertFrom (.list xs m c)).bind fun p => convertTo p.1 (.list xs m c) p.2) = .ok (.list xs m (some zeroPos)) ∧
    ((convertFrom (.vec xs m c)).bind fun p => convertTo p.1 (.vec xs m c) p.2) = .ok (.vec xs m (some zeroPos)) :=
  ⟨rfl, rfl⟩

/-- list → vector (what `vec` does by hand) keeps elements and metadata -/
theorem convert_list_to_vec (xs ys : List TVal) (m m' : TVal) (c c' : Option Pos) :
    ((convertFrom (.list xs m c)).bind fun p => convertTo p.1 (.vec ys m' c') p.2) = .ok (.vec xs m (some zeroPos)) := rfl

theorem toSetLoop_of_strs (src : List TVal) (m ks : List String) (h : allStrs src = some ks) :
    toSetLoop src m = .ok (sinsertAll ks m) := by
  induction src generalizing m ks with
  | nil => simp [allStrs] at h; subst h; rfl
  | cons x r ih =>
    cases x with
    | str k =>
      simp only [allStrs, Option.map_eq_some_iff] at h
      obtain ⟨ks', hks, rfl⟩ := h
      simpa [toSetLoop, assertString, Out.bind, sinsertAll] using ih _ ks' hks
    | _ => simp [allStrs] at h

/-- the `Set` arm: an element that is not a Go string makes the unchecked `k.(string)` PANIC (no error return) -/
theorem toSetLoop_panics (src : List TVal) (m : List String) (h : allStrs src = none) :
    toSetLoop src m = .panic .assert "ConvertTo:k.(string)" := by
  induction src generalizing m with
  | nil => simp [allStrs] at h
  | cons x r ih =>
    cases x with
    | str k =>
      simp only [allStrs, Option.map_eq_none_iff] at h
      simpa [toSetLoop, assertString, Out.bind] using ih _ h
    | _ => simp [toSetLoop, assertString, Out.bind]

/-- `ConvertTo` to a set: succeeds iff every element is a Go string, PANICS otherwise; the result always has a
    non-nil map and NO metadata (the `meta` argument is dropped in this arm) -/
theorem convertTo_set (src : List TVal) (ks : Option (List String)) (m' md : TVal) :
    convertTo src (.set ks m') md =
      (match allStrs src with
       | some ss => .ok (.set (some (sinsertAll ss [])) .nil)
       | none => .panic .assert "ConvertTo:k.(string)") := by
  cases h : allStrs src with
  | some ss => simp [convertTo, toSetLoop_of_strs src [] ss h, Out.map, Out.bind]
  | none => simp [convertTo, toSetLoop_panics src [] h, Out.map, Out.bind]

theorem convertTo_set_panics_iff (src : List TVal) (ks : Option (List String)) (m' md : TVal) :
    (convertTo src (.set ks m') md).isPanic = true ↔ ∃ x ∈ src, ∀ s, x ≠ .str s := by
  rw [convertTo_set]
  cases h : allStrs src with
  | some ss =>
    have := (allStrs_isSome_iff src).mp ⟨ss, h⟩
    simp only [Out.isPanic, Bool.false_eq_true, false_iff, not_exists, not_and]
    intro x hx hne
    obtain ⟨s, hs⟩ := this x hx
    exact hne s hs
  | none =>
    simp only [Out.isPanic, true_iff]
    apply Classical.byContradiction
    intro hne
    have hall : ∀ x ∈ src, ∃ s, x = .str s := by
      intro x hx
      apply Classical.byContradiction
      intro hx'
      exact hne ⟨x, hx, fun s hs => hx' ⟨s, hs⟩⟩
    obtain ⟨ss, hss⟩ := (allStrs_isSome_iff src).mpr hall
    rw [hss] at h; cases h

/-- `ConvertTo` returns an error only for a target that is not a set, a list, a vector -/
theorem convertTo_err_iff (src : List TVal) (to md : TVal) (e : Err) :
    convertTo src to md = .err e ↔
      (∀ ks m, to ≠ .set ks m) ∧ isList to = false ∧ isVec to = false ∧ e = .convTo (typeName to) := by
  cases to with
  | set ks m =>
    rw [convertTo_set]
    cases allStrs src <;> simp
  | _ => simp [convertTo, isList, isVec, eq_comm]

theorem allStrs_map_str (ks : List String) : allStrs (ks.map TVal.str) = some ks := by
  induction ks with
  | nil => rfl
  | cons k r ih => simp [allStrs, ih]

/-- a set taken apart with `ConvertFrom` can always be rebuilt (no panic): same members, non-nil map, metadata
    LOST -/
theorem convertFrom_convertTo_set (ks : Option (List String)) (m : TVal) :
    ((convertFrom (.set ks m)).bind fun p => convertTo p.1 (.set ks m) p.2) =
      .ok (.set (some (sinsertAll (setKeys ks) [])) .nil) := by
  simp [convertFrom, Out.bind, convertTo_set, allStrs_map_str]

theorem convertTo_never_panics_on_strings (ss : List String) (to md : TVal) :
    (convertTo (ss.map .str) to md).isPanic = false := by
  cases to with
  | set ks m => rw [convertTo_set, allStrs_map_str]; rfl
  | _ => rfl

/-! ### `Apply` (C04) -/

section Apply
variable {ε : Type} (envOf : Nat → ε) (genEnv : ε → TVal → TVal → Out ε) (eval : TVal → ε → Out TVal)
  (callFn callRaw : Nat → List TVal → Out TVal)

/-- a builtin (`Func`) is called with exactly the arguments; its metadata plays no part -/
theorem apply_builtin (id : Nat) (md : TVal) (a : List TVal) :
    apply envOf genEnv eval callFn callRaw (.builtin (some id) md) a = callFn id a := rfl

/-- so is a bare `func([]MalType) (MalType, error)` -/
theorem apply_rawfn (id : Nat) (a : List TVal) :
    apply envOf genEnv eval callFn callRaw (.rawfn (some id)) a = callRaw id a := rfl

/-- a closure: `GenEnv(f.Env, f.Params, List{Val: a, Cursor: f.Cursor})` binds — the argument LIST carries the
    closure's cursor and no metadata — then `Eval(f.Exp, env)`; an error of `GenEnv` is returned as it is and the
    body is not evaluated.  `IsMacro` and `Meta` play no part. -/
theorem apply_closure (mf : MalFn TVal) (a : List TVal) (hg : mf.hasGenEnv = true) (he : mf.hasEval = true) :
    apply envOf genEnv eval callFn callRaw (.fn mf) a =
      (genEnv (envOf mf.env) mf.params (.list a .nil mf.cur)).bind fun env => eval mf.exp env := by
  simp [apply, hg, he]

theorem apply_closure_bind_error (mf : MalFn TVal) (a : List TVal) (e : Err) (hg : mf.hasGenEnv = true)
    (h : genEnv (envOf mf.env) mf.params (.list a .nil mf.cur) = .err e) :
    apply envOf genEnv eval callFn callRaw (.fn mf) a = .err e := by
  simp [apply, hg, h, Out.bind]

/-- a macro is applied like the function it was made from -/
theorem apply_setMacro (mf : MalFn TVal) (a : List TVal) :
    apply envOf genEnv eval callFn callRaw (setMacro mf) a = apply envOf genEnv eval callFn callRaw (.fn mf) a := rfl

/-- anything else: the error (with the `%T` of the value), never a panic, and no callee runs -/
theorem apply_other (v : TVal) (a : List TVal)
    (h : dynType v ≠ some .malFunc ∧ dynType v ≠ some .func ∧ dynType v ≠ some .rawFunc) :
    apply envOf genEnv eval callFn callRaw v a = .err (.badApply (typeName v)) := by
  cases v <;> simp_all [apply, dynType]

theorem apply_nil (a : List TVal) :
    apply envOf genEnv eval callFn callRaw .nil a = .err (.badApply "<nil>") := rfl

/-- a nil func FIELD is called all the same: `MalFunc{}` / `Func{}` / a typed-nil func value panic in `Apply` -/
theorem apply_nil_fields (mf : MalFn TVal) (md : TVal) (a : List TVal) (hg : mf.hasGenEnv = false) :
    (apply envOf genEnv eval callFn callRaw (.fn mf) a).isPanic = true ∧
    (apply envOf genEnv eval callFn callRaw (.builtin none md) a).isPanic = true ∧
    (apply envOf genEnv eval callFn callRaw (.rawfn none) a).isPanic = true := by
  simp [apply, hg, Out.isPanic]

/-- with callees that do not panic themselves, `Apply` panics ONLY on a nil func field -/
theorem apply_panics_iff (v : TVal) (a : List TVal)
    (hge : ∀ e p l, (genEnv e p l).isPanic = false) (hev : ∀ x e, (eval x e).isPanic = false)
    (hfn : ∀ i l, (callFn i l).isPanic = false) (hraw : ∀ i l, (callRaw i l).isPanic = false) :
    (apply envOf genEnv eval callFn callRaw v a).isPanic = true ↔
      (∃ mf, v = .fn mf ∧ (mf.hasGenEnv = false ∨
          (mf.hasEval = false ∧ (genEnv (envOf mf.env) mf.params (.list a .nil mf.cur)).isOk = true))) ∨
      (∃ md, v = .builtin none md) ∨ v = .rawfn none := by
  cases v with
  | fn mf =>
    cases hg : mf.hasGenEnv with
    | false => simp [apply, hg, Out.isPanic]
    | true =>
      have := hge (envOf mf.env) mf.params (.list a .nil mf.cur)
      cases hr : genEnv (envOf mf.env) mf.params (.list a .nil mf.cur) with
      | ok env =>
        cases he : mf.hasEval with
        | false => simp [apply, hg, hr, he, Out.bind, Out.isPanic, Out.isOk]
        | true => simp [apply, hg, hr, he, Out.bind, Out.isOk, hev]
      | err e => simp [apply, hg, hr, Out.bind, Out.isPanic, Out.isOk]
      | panic k s => rw [hr] at this; cases this
  | builtin f md =>
    cases f with
    | none => simp [apply, Out.isPanic]
    | some id => simp [apply, hfn]
  | rawfn f =>
    cases f with
    | none => simp [apply, Out.isPanic]
    | some id => simp [apply, hraw]
  | _ => simp [apply, Out.isPanic]

end Apply

/-! ### `Line`, `Token.GetPosition` -/

theorem line_nil (m : String) : line none m = ": " ++ m := by
  simp [line, Position.toString]

theorem line_some (p : Pos) (m : String) :
    line (some p) m = Position.stringModule (some p) ++ "§" ++ Position.stringPosition (some p) ++ ": " ++ m := rfl

theorem tokenGetPosition_eq (t : Token) : tokenGetPosition t = t.cursor := rfl

/-! ### non-vacuity: closed examples, checked by evaluation -/

section Examples
private def L (xs : List TVal) : TVal := .list xs .nil none
private def V (xs : List TVal) : TVal := .vec xs .nil none
private def kwA : TVal := .str (newKeyword "a")

-- NewHashMap: later duplicates win; keywords are keys; the three error classes; odd beats bad key
example : newHashMap (L [.str "a", .int 1, .str "b", .int 2, .str "a", .int 3]) =
    .ok (.map [("a", .int 3), ("b", .int 2)] .nil) := rfl
example : newHashMap (V [kwA, .nil]) = .ok (.map [(newKeyword "a", .nil)] .nil) := rfl
example : newHashMap (L []) = .ok (.map [] .nil) := rfl
example : newHashMap (V [.str "a", .int 1, .str "b"]) = .err .oddArgs := rfl
example : newHashMap (V [.int 1, .int 2, .int 3]) = .err .oddArgs := rfl
example : newHashMap (L [.str "a", .int 1, .sym "k", .int 2]) = .err (.badKey "types.Symbol") := rfl
example : newHashMap (L [.nil, .int 1]) = .err (.badKey "<nil>") := rfl
example : newHashMap .nil = .err .notSeq := rfl
example : newHashMap (.map [("a", .int 1)] .nil) = .err .notSeq := rfl
example : (hmLoop [.str "a"] []).isPanic = true := by decide   -- the arm `NewHashMap` can never reach
example : lastVal "a" [("a", .int 1), ("b", .int 2), ("a", .int 3)] = some (.int 3) := rfl

-- NewSet: nil is the zero set (nil map); a set / a map / a string are NOT accepted; non-string member
example : newSet .nil = .ok (.set none .nil) := rfl
example : newSet (L []) = .ok (.set (some []) .nil) := rfl
example : newSet (V [.str "a", kwA, .str "a"]) = .ok (.set (some ["a", newKeyword "a"]) .nil) := rfl
example : newSet (.set (some ["a"]) .nil) = .err .notSeq := rfl
example : newSet (.str "abc") = .err .notSeq := rfl
example : newSet (L [.str "a", .int 1]) = .err .badSetItem := rfl

-- GetSlice / Sequential_Q; the foreign `container/list.List` is "sequential" by name but has no slice
example : getSlice (V [.int 1]) = .ok [.int 1] := rfl
example : getSlice (.set none .nil) = .err .notSeq := rfl
example : sequentialQ (L []) = .ok true := by decide
example : sequentialQ .nil = .ok false := by decide
example : sequentialQ (.map [] .nil) = .ok false := by decide
example : sequentialQ (.other "list.List" "List") = .ok true := by decide
example : (getSlice (.other "list.List" "List")).isOk = false := by decide
example : sequentialQ (.other "*types.List" "") = .ok false := by decide

-- predicates
example : keywordQ kwA = .ok true := by decide
example : stringQ kwA = .ok false := by decide
example : stringQ (.str "") = .ok true := by decide
example : keywordQ (.str "ʞ") = .ok true := by decide
example : keywordQ (.str "aʞ") = .ok false := by decide
example : keywordQ (.sym "ʞa") = .ok false := by decide
example : newKeyword (newKeyword "a") = "ʞʞa" := by decide
example : q .any .nil = false := by decide
example : q .any (.int 0) = true := by decide
example : q .int (.int 3) = true := by decide
example : q .list (V []) = false := by decide
example : q (.other "float32") (.other "float32" "float32") = true := by decide
example : nilQ (.bool false) = false := by decide
example : trueQ (.int 1) = false := by decide
example : falseQ (.bool false) = true := by decide
end Examples

section Examples2
private def L' (xs : List TVal) : TVal := .list xs .nil none
private def md1 : TVal := .map [("doc", .str "d")] .nil
private def pos1 : Pos := { module := some "m.lisp", beginRow := 1, beginCol := 2, row := 1, col := 9 }

-- ConvertFrom / ConvertTo
example : convertFrom (.list [.int 1] md1 (some pos1)) = .ok ([.int 1], md1) := rfl
example : convertFrom (.set (some ["a", "b"]) md1) = .ok ([.str "a", .str "b"], md1) := rfl
example : convertFrom (.set none .nil) = .ok ([], .nil) := rfl
example : convertFrom (.map [] .nil) = .err (.convFrom "types.HashMap") := rfl
example : convertFrom .nil = .err (.convFrom "<nil>") := rfl
example : convertTo [.int 1] (.vec [] .nil none) md1 = .ok (.vec [.int 1] md1 (some zeroPos)) := rfl
example : convertTo [.str "a", .str "b", .str "a"] (.set none .nil) md1 = .ok (.set (some ["a", "b"]) .nil) := rfl
example : convertTo [] (.map [] .nil) .nil = .err (.convTo "types.HashMap") := rfl
-- THE PANIC: `ConvertTo` to a set with a non-string element (unchecked `k.(string)`)
example : (convertTo [.int 1] (.set (some []) .nil) .nil).isPanic = true := by decide
example : (convertTo [.str "a", .nil] (.set none .nil) .nil).isPanic = true := by decide
example : (convertTo [.str "a", .sym "b"] (.set none .nil) .nil).isPanic = true := by decide
example : (convertTo [.int 1] (L' []) .nil).isPanic = false := by decide

-- SetMacro / GetMacro
private def f0 : MalFn TVal :=
  { hasEval := true, hasGenEnv := true, isMacro := false, env := 7, params := .vec [.sym "x"] .nil none,
    exp := .sym "x", md := md1, cur := some pos1 }
example : getMacro f0 = false := by decide
example : setMacro f0 = .fn { f0 with isMacro := true } := rfl

-- Apply, with callees that report what they were given
private def eo (n : Nat) : List TVal := [.int n]
private def ge (e : List TVal) (params args : TVal) : Out (List TVal) := .ok (e ++ [params, args])
private def ev (exp : TVal) (env : List TVal) : Out TVal := .ok (.list (exp :: env) .nil none)
private def geFail (_ : List TVal) (_ _ : TVal) : Out (List TVal) := .err (.callee "genenv")
private def cf (id : Nat) (a : List TVal) : Out TVal := .ok (.list (.int id :: a) .nil none)
private def cr (_ : Nat) (_ : List TVal) : Out TVal := .err (.callee "raw")

example : apply eo ge ev cf cr (.fn f0) [.int 1, .int 2] =
    .ok (.list [.sym "x", .int 7, .vec [.sym "x"] .nil none, .list [.int 1, .int 2] .nil (some pos1)] .nil none) := rfl
example : apply eo geFail ev cf cr (.fn f0) [.int 1] = .err (.callee "genenv") := rfl
example : apply eo ge ev cf cr (.builtin (some 3) md1) [.str "a"] = .ok (.list [.int 3, .str "a"] .nil none) := rfl
example : apply eo ge ev cf cr (.rawfn (some 0)) [] = .err (.callee "raw") := rfl
example : apply eo ge ev cf cr (.int 3) [] = .err (.badApply "int") := rfl
example : apply eo ge ev cf cr (.other "types.ExternalCall" "ExternalCall") [] = .err (.badApply "types.ExternalCall") := rfl
example : (apply eo ge ev cf cr (.fn { f0 with hasGenEnv := false }) []).isPanic = true := by decide
example : (apply eo ge ev cf cr (.fn { f0 with hasEval := false }) []).isPanic = true := by decide
example : (apply eo geFail ev cf cr (.fn { f0 with hasEval := false }) []).isPanic = false := by decide
example : (apply eo ge ev cf cr (.builtin none .nil) []).isPanic = true := by decide
example : (apply eo ge ev cf cr (.rawfn none) []).isPanic = true := by decide

-- Line
example : line none "boom" = ": boom" := by decide
example : line (some pos1) "boom" = "m.lisp§1…1,2…9: boom" := by decide
end Examples2

end LispModel.TyCtor

/-
  Laws of the `types/types.go` model (LispModel/TyCtor.lean): the type predicates (C13), the hash-map / set
  constructors, `GetSlice`, `ConvertFrom` / `ConvertTo`, `Apply` (C04), `SetMacro` / `GetMacro`.
  General statements are proved for all values; closed examples at the end are checked by evaluation.
-/
import LispModel.TyCtor
namespace LispModel.TyCtor
open LispModel

/-! ### shapes -/

/-- the elements of a `List` / `Vector` value -/
def seqElems : TVal → Option (List TVal)
  | .list xs _ _ => some xs
  | .vec xs _ _ => some xs
  | _ => none

def isList : TVal → Bool
  | .list .. => true
  | _ => false

def isVec : TVal → Bool
  | .vec .. => true
  | _ => false

/-- a value the interpreter itself can build (not a foreign Go value) -/
def isLispValue : TVal → Bool
  | .other .. => false
  | _ => true

/-! ### the scalar predicates: each is exactly its kind test (C13) -/

theorem nilQ_iff (v : TVal) : nilQ v = true ↔ v = .nil := by
  cases v <;> simp [nilQ]

theorem trueQ_iff (v : TVal) : trueQ v = true ↔ v = .bool true := by
  cases v <;> simp [trueQ]

theorem falseQ_iff (v : TVal) : falseQ v = true ↔ v = .bool false := by
  cases v <;> simp [falseQ]

/-- `Q[T]` is the dynamic-type test; `Q[MalType]` holds of everything but nil -/
theorem q_iff (t : GoType) (v : TVal) :
    q t v = true ↔ (t = .any ∧ v ≠ .nil) ∨ (t ≠ .any ∧ dynType v = some t) := by
  cases t <;> cases v <;> simp [q, dynType]

theorem q_any_iff (v : TVal) : q .any v = true ↔ v ≠ .nil := by
  cases v <;> simp [q, dynType]

theorem q_nil (t : GoType) : q t .nil = false := by
  cases t <;> simp [q, dynType]

/-- the instantiations core.go registers: `number?` `symbol?` `list?` `vector?` `map?` `set?` (and `Q[string]`,
    `Q[MalFunc]`, `Q[Func]` used by `keyword?` / `string?` / `macro?` / `fn?`) -/
theorem q_kind_tests (v : TVal) :
    (q .int v = true ↔ ∃ i, v = .int i) ∧ (q .symbol v = true ↔ ∃ s, v = .sym s) ∧
    (q .list v = true ↔ ∃ xs m c, v = .list xs m c) ∧ (q .vector v = true ↔ ∃ xs m c, v = .vec xs m c) ∧
    (q .hashMap v = true ↔ ∃ kvs m, v = .map kvs m) ∧ (q .set v = true ↔ ∃ ks m, v = .set ks m) ∧
    (q .string v = true ↔ ∃ s, v = .str s) ∧ (q .bool v = true ↔ ∃ b, v = .bool b) ∧
    (q .malFunc v = true ↔ ∃ f, v = .fn f) ∧ (q .func v = true ↔ ∃ f m, v = .builtin f m) ∧
    (q .rawFunc v = true ↔ ∃ f, v = .rawfn f) := by
  cases v <;> simp [q, dynType]

/-- two different concrete types never both hold of one value -/
theorem q_exclusive (t t' : GoType) (v : TVal) (h : q t v = true) (h' : q t' v = true) :
    t = t' ∨ t = .any ∨ t' = .any := by
  rw [q_iff] at h h'
  rcases h with ⟨h, _⟩ | ⟨_, h⟩
  · exact .inr (.inl h)
  · rcases h' with ⟨h', _⟩ | ⟨_, h'⟩
    · exact .inr (.inr h')
    · rw [h] at h'; exact .inl (Option.some.inj h')

/-! ### keywords and strings -/

/-- `Keyword_Q` never reaches its unchecked `obj.(string)` on a non-string (the `&&` guards it): it is total, and
    true exactly of the strings that begin with U+029E -/
theorem keywordQ_spec (v : TVal) :
    keywordQ v = .ok (match v with | .str s => Val.isKwStr s | _ => false) := by
  cases v <;> simp [keywordQ, q, dynType, assertString, Out.map, Out.bind]

/-- `String_Q`: a string that is NOT a keyword — keywords are not strings for `string?` -/
theorem stringQ_spec (v : TVal) :
    stringQ v = .ok (match v with | .str s => !Val.isKwStr s | _ => false) := by
  cases v <;> simp [stringQ, q, dynType, assertString, Out.map, Out.bind]

theorem keywordQ_never_panics (v : TVal) : (keywordQ v).isPanic = false := by
  rw [keywordQ_spec]; rfl

theorem stringQ_never_panics (v : TVal) : (stringQ v).isPanic = false := by
  rw [stringQ_spec]; rfl

/-- a Go string is a keyword or a string for the predicates, never both, never neither -/
theorem str_keyword_xor_string (s : String) :
    (keywordQ (.str s) = .ok true ∧ stringQ (.str s) = .ok false) ∨
    (keywordQ (.str s) = .ok false ∧ stringQ (.str s) = .ok true) := by
  rw [keywordQ_spec, stringQ_spec]
  cases Val.isKwStr s <;> simp

/-- anything that is not a Go string is neither -/
theorem nonstr_neither (v : TVal) (h : ∀ s, v ≠ .str s) : keywordQ v = .ok false ∧ stringQ v = .ok false := by
  rw [keywordQ_spec, stringQ_spec]
  cases v <;> simp_all

theorem isKwStr_newKeyword (s : String) : Val.isKwStr (newKeyword s) = true := by
  simp [Val.isKwStr, newKeyword]

/-- `NewKeyword` always makes a keyword (it does not look whether `s` is one already: `keyword` in core.go does) -/
theorem keywordQ_newKeyword (s : String) :
    keywordQ (.str (newKeyword s)) = .ok true ∧ stringQ (.str (newKeyword s)) = .ok false := by
  rw [keywordQ_spec, stringQ_spec]; simp [isKwStr_newKeyword]

theorem newKeyword_toList (s : String) : (newKeyword s).toList = kwMarker :: s.toList := by
  simp [newKeyword]

/-- … so it is injective, and never the identity -/
theorem newKeyword_injective (s t : String) (h : newKeyword s = newKeyword t) : s = t := by
  have := congrArg String.toList h
  rw [newKeyword_toList, newKeyword_toList] at this
  exact String.toList_inj.mp (List.cons.inj this).2

theorem newKeyword_ne_self (s : String) : newKeyword s ≠ s := by
  intro h
  have := congrArg (fun x => x.toList.length) h
  simp [newKeyword_toList] at this

/-! ### `Sequential_Q`, `GetSlice` -/

/-- `Sequential_Q` goes by the NAME of the dynamic type: a list, a vector — or any foreign Go value whose type
    happens to be called `List` / `Vector` (`container/list.List`, a host's own `Vector` struct …) -/
theorem sequential_iff (v : TVal) :
    sequentialQ v = .ok true ↔
      isList v = true ∨ isVec v = true ∨ ∃ ty name, v = .other ty name ∧ (name = "List" ∨ name = "Vector") := by
  cases v with
  | other ty name =>
    simp only [sequentialQ, reflectName, isList, isVec]
    constructor
    · intro h
      refine .inr (.inr ⟨ty, name, rfl, ?_⟩)
      simpa using h
    · rintro (h | h | ⟨_, _, h, hn⟩)
      · cases h
      · cases h
      · cases h; simpa using hn
  | _ => simp [sequentialQ, reflectName, isList, isVec]

/-- on the values the interpreter builds: exactly the lists and the vectors -/
theorem sequential_iff_lisp (v : TVal) (h : isLispValue v = true) :
    sequentialQ v = .ok true ↔ isList v = true ∨ isVec v = true := by
  cases v <;> simp_all [sequentialQ, reflectName, isList, isVec, isLispValue]

/-- the nil test comes first: `reflect.TypeOf(nil).Name()` is never evaluated -/
theorem sequentialQ_never_panics (v : TVal) : (sequentialQ v).isPanic = false := by
  cases v <;> simp [sequentialQ, reflectName, Out.isPanic]

theorem sequentialQ_total (v : TVal) : sequentialQ v = .ok true ∨ sequentialQ v = .ok false := by
  cases v with
  | other ty name =>
    simp only [sequentialQ, reflectName]
    cases (name == "List" || name == "Vector") <;> simp
  | _ => simp [sequentialQ, reflectName]

/-- `GetSlice`: list, vector ⇒ their elements; nil and everything else ⇒ the error; never a panic -/
theorem getSlice_total (v : TVal) :
    getSlice v = (match seqElems v with | some xs => .ok xs | none => .err .notSeq) := by
  cases v <;> rfl

theorem getSlice_nil : getSlice .nil = .err .notSeq := rfl

theorem getSlice_never_panics (v : TVal) : (getSlice v).isPanic = false := by
  cases v <;> rfl

theorem getSlice_ok_iff (v : TVal) (xs : List TVal) : getSlice v = .ok xs ↔ seqElems v = some xs := by
  cases v <;> simp [getSlice, seqElems]

/-- on lisp values `Sequential_Q` and `GetSlice` agree (on a foreign `List` they do NOT: see the example) -/
theorem sequential_iff_getSlice (v : TVal) (h : isLispValue v = true) :
    sequentialQ v = .ok true ↔ (getSlice v).isOk = true := by
  cases v <;> simp_all [sequentialQ, reflectName, getSlice, Out.isOk, isLispValue]

theorem seqElems_newList (a : List TVal) : seqElems (newList a) = some a := rfl

theorem getSlice_newList (a : List TVal) : getSlice (newList a) = .ok a := rfl

/-! ### `SetMacro` / `GetMacro` -/

theorem getMacro_setMacro (f : MalFn TVal) : ∃ g, setMacro f = .fn g ∧ getMacro g = true :=
  ⟨_, rfl, rfl⟩

/-- only the flag changes -/
theorem setMacro_fields (f : MalFn TVal) :
    setMacro f = .fn ⟨f.hasEval, f.hasGenEnv, true, f.env, f.params, f.exp, f.md, f.cur⟩ := rfl

theorem setMacro_idem (f : MalFn TVal) : setMacro { f with isMacro := true } = setMacro f := rfl

theorem setMacro_of_macro (f : MalFn TVal) (h : getMacro f = true) : setMacro f = .fn f := by
  cases f; simp_all [setMacro, getMacro]

/-! ### `NewHashMap` -/

/-- the key / value pairs of a flat `k v k v …` slice: defined iff the length is even and every even position
    holds a Go string (keyword or not) -/
def pairsOf : List TVal → Option (List (String × TVal))
  | [] => some []
  | .str k :: v :: r => (pairsOf r).map ((k, v) :: ·)
  | _ => none

/-- `m[k] = v` for every pair, left to right: a LATER duplicate overwrites an earlier one -/
def insertAll (ps : List (String × TVal)) (m : List (String × TVal)) : List (String × TVal) :=
  ps.foldl (fun m kv => ainsert kv.1 kv.2 m) m

/-- the first element at an even position that is not a Go string -/
def firstBadKey : List TVal → Option TVal
  | [] => none
  | .str _ :: _ :: r => firstBadKey r
  | [.str _] => none
  | x :: _ => some x

theorem hmLoop_of_pairs (lst : List TVal) (m ps : List (String × TVal)) (h : pairsOf lst = some ps) :
    hmLoop lst m = .ok (insertAll ps m) := by
  induction lst, m using hmLoop.induct generalizing ps with
  | case1 m => simp [pairsOf] at h; subst h; rfl
  | case2 k v rest m ih =>
    simp only [pairsOf, Option.map_eq_some_iff] at h
    obtain ⟨ps', hps, rfl⟩ := h
    simp only [hmLoop, insertAll, List.foldl_cons]
    exact ih ps' hps
  | case3 _ m => simp [pairsOf] at h
  | case4 x t m h1 h2 =>
    cases x <;> first | (simp [pairsOf] at h; done) | skip
    cases t with
    | nil => exact (h2 _ rfl rfl).elim
    | cons v r => exact (h1 _ _ _ rfl rfl).elim

theorem hmLoop_badKey (lst : List TVal) (m : List (String × TVal)) (hlen : lst.length % 2 = 0)
    (h : pairsOf lst = none) :
    ∃ x, firstBadKey lst = some x ∧ (∀ s, x ≠ .str s) ∧ hmLoop lst m = .err (.badKey (typeName x)) := by
  induction lst, m using hmLoop.induct with
  | case1 m => simp [pairsOf] at h
  | case2 k v rest m ih =>
    simp only [pairsOf, Option.map_eq_none_iff] at h
    have hl : rest.length % 2 = 0 := by simp only [List.length_cons] at hlen; omega
    obtain ⟨x, hx, hs, hr⟩ := ih hl h
    exact ⟨x, by simpa [firstBadKey] using hx, hs, by simpa [hmLoop] using hr⟩
  | case3 _ m => simp at hlen
  | case4 x t m h1 h2 =>
    refine ⟨x, ?_, ?_, ?_⟩
    · unfold firstBadKey
      split <;> simp_all
    · intro s hs
      subst hs
      cases t with
      | nil => exact h2 _ rfl rfl
      | cons v r => exact h1 _ _ _ rfl rfl
    · unfold hmLoop
      split <;> simp_all

/-- the unchecked `lst[i+1]` can only fail on an odd slice — which `NewHashMap` has refused before the loop -/
theorem hmLoop_panic_odd (lst : List TVal) (m : List (String × TVal)) (h : (hmLoop lst m).isPanic = true) :
    lst.length % 2 = 1 := by
  induction lst, m using hmLoop.induct with
  | case1 m => simp [hmLoop, Out.isPanic] at h
  | case2 k v rest m ih =>
    have := ih (by simpa [hmLoop] using h)
    simp only [List.length_cons]; omega
  | case3 _ m => rfl
  | case4 x t m h1 h2 =>
    unfold hmLoop at h
    split at h <;> simp_all [Out.isPanic]

theorem pairsOf_length (lst : List TVal) (ps : List (String × TVal)) (h : pairsOf lst = some ps) :
    lst.length = 2 * ps.length := by
  induction lst using pairsOf.induct generalizing ps with
  | case1 => simp [pairsOf] at h; subst h; rfl
  | case2 k v r ih =>
    simp only [pairsOf, Option.map_eq_some_iff] at h
    obtain ⟨ps', hps, rfl⟩ := h
    simp [ih ps' hps]; omega
  | case3 l h1 h2 => unfold pairsOf at h; split at h <;> simp_all

/-- `pairsOf` is defined exactly on the slices of even length whose even positions are Go strings -/
theorem pairsOf_isSome_iff (lst : List TVal) :
    (∃ ps, pairsOf lst = some ps) ↔
      lst.length % 2 = 0 ∧ ∀ i, 2 * i < lst.length → ∃ s, lst[2 * i]? = some (.str s) := by
  induction lst using pairsOf.induct with
  | case1 => simp [pairsOf]
  | case2 k v r ih =>
    simp only [pairsOf, Option.map_eq_some_iff]
    constructor
    · rintro ⟨_, ps, hps, _⟩
      obtain ⟨hl, hk⟩ := ih.mp ⟨ps, hps⟩
      refine ⟨by simp only [List.length_cons]; omega, fun i hi => ?_⟩
      cases i with
      | zero => exact ⟨k, rfl⟩
      | succ j =>
        have : 2 * (j + 1) = 2 * j + 1 + 1 := by omega
        rw [this, List.getElem?_cons_succ, List.getElem?_cons_succ]
        exact hk j (by simp only [List.length_cons] at hi; omega)
    · rintro ⟨hl, hk⟩
      have : ∃ ps, pairsOf r = some ps := ih.mpr ⟨by simp only [List.length_cons] at hl; omega, fun i hi => by
        have h := hk (i + 1) (by simp only [List.length_cons]; omega)
        have e : 2 * (i + 1) = 2 * i + 1 + 1 := by omega
        rwa [e, List.getElem?_cons_succ, List.getElem?_cons_succ] at h⟩
      obtain ⟨ps, hps⟩ := this
      exact ⟨_, ps, hps, rfl⟩
  | case3 l h1 h2 =>
    have hn : pairsOf l = none := by unfold pairsOf; split <;> simp_all
    simp only [hn, reduceCtorEq, exists_false, false_iff, not_and]
    intro hl hk
    match l, h1, h2, hl, hk with
    | [], h1, _, _, _ => exact h1 rfl
    | [x], _, _, hl, _ => simp at hl
    | x :: y :: r, _, h2, _, hk =>
      obtain ⟨s, hs⟩ := hk 0 (by simp)
      simp at hs
      exact h2 s y r (by rw [hs])

theorem newHashMap_of_seq (v : TVal) (xs : List TVal) (h : seqElems v = some xs) :
    newHashMap v =
      if xs.length % 2 = 1 then .err .oddArgs else (hmLoop xs []).map fun m => .map m .nil := by
  cases v <;> simp_all [seqElems, newHashMap, getSlice, Out.bind]

/-- not a list, not a vector (nil included): the `GetSlice` error -/
theorem newHashMap_notSeq (v : TVal) (h : seqElems v = none) : newHashMap v = .err .notSeq := by
  cases v <;> simp_all [seqElems, newHashMap, getSlice, Out.bind]

/-- an odd number of elements: that error, whatever the elements are (the keys are not looked at yet) -/
theorem newHashMap_odd (v : TVal) (xs : List TVal) (h : seqElems v = some xs) (hl : xs.length % 2 = 1) :
    newHashMap v = .err .oddArgs := by
  rw [newHashMap_of_seq v xs h, if_pos hl]

/-- even, but some even position is not a Go string: the error names the type of the FIRST such element -/
theorem newHashMap_badKey (v : TVal) (xs : List TVal) (h : seqElems v = some xs) (hl : xs.length % 2 = 0)
    (hp : pairsOf xs = none) :
    ∃ x, firstBadKey xs = some x ∧ (∀ s, x ≠ .str s) ∧ newHashMap v = .err (.badKey (typeName x)) := by
  obtain ⟨x, hx, hs, hr⟩ := hmLoop_badKey xs [] hl hp
  refine ⟨x, hx, hs, ?_⟩
  rw [newHashMap_of_seq v xs h, if_neg (by omega), hr]; rfl

/-- the success case: the left-to-right fold of `m[k] = v` over the pairs, `Meta` nil -/
theorem newHashMap_ok (v : TVal) (xs : List TVal) (ps : List (String × TVal)) (h : seqElems v = some xs)
    (hp : pairsOf xs = some ps) : newHashMap v = .ok (.map (insertAll ps []) .nil) := by
  have hl : ¬ xs.length % 2 = 1 := by rw [pairsOf_length xs ps hp]; omega
  rw [newHashMap_of_seq v xs h, if_neg hl, hmLoop_of_pairs xs [] ps hp]; rfl

/-- `NewHashMap` succeeds iff the argument is a list / vector of even length whose even positions are Go strings
    (keywords are Go strings) -/
theorem newHashMap_ok_iff (v : TVal) :
    (∃ r, newHashMap v = .ok r) ↔
      ∃ xs, seqElems v = some xs ∧ xs.length % 2 = 0 ∧ ∀ i, 2 * i < xs.length → ∃ s, xs[2 * i]? = some (.str s) := by
  constructor
  · rintro ⟨r, hr⟩
    cases hs : seqElems v with
    | none => rw [newHashMap_notSeq v hs] at hr; cases hr
    | some xs =>
      refine ⟨xs, rfl, ?_⟩
      by_cases hl : xs.length % 2 = 1
      · rw [newHashMap_odd v xs hs hl] at hr; cases hr
      · cases hp : pairsOf xs with
        | some ps => exact (pairsOf_isSome_iff xs).mp ⟨ps, hp⟩
        | none =>
          obtain ⟨x, _, _, he⟩ := newHashMap_badKey v xs hs (by omega) hp
          rw [he] at hr; cases hr
  · rintro ⟨xs, hs, hl, hk⟩
    obtain ⟨ps, hp⟩ := (pairsOf_isSome_iff xs).mpr ⟨hl, hk⟩
    exact ⟨_, newHashMap_ok v xs ps hs hp⟩

/-- and its result is then a hash-map without metadata built by the fold -/
theorem newHashMap_spec (v r : TVal) (h : newHashMap v = .ok r) :
    ∃ xs ps, seqElems v = some xs ∧ pairsOf xs = some ps ∧ r = .map (insertAll ps []) .nil := by
  obtain ⟨xs, hs, hl, hk⟩ := (newHashMap_ok_iff v).mp ⟨r, h⟩
  obtain ⟨ps, hp⟩ := (pairsOf_isSome_iff xs).mpr ⟨hl, hk⟩
  rw [newHashMap_ok v xs ps hs hp] at h
  exact ⟨xs, ps, hs, hp, (Out.ok.inj h).symm⟩

/-- the unchecked index `lst[i+1]` is unreachable: `NewHashMap` never panics -/
theorem newHashMap_never_panics (v : TVal) : (newHashMap v).isPanic = false := by
  cases hs : seqElems v with
  | none => rw [newHashMap_notSeq v hs]; rfl
  | some xs =>
    rw [newHashMap_of_seq v xs hs]
    by_cases hl : xs.length % 2 = 1
    · rw [if_pos hl]; rfl
    · rw [if_neg hl]
      cases hp : (hmLoop xs []).isPanic with
      | false => cases hh : hmLoop xs [] <;> simp_all [Out.map, Out.bind, Out.isPanic]
      | true => exact absurd (hmLoop_panic_odd xs [] hp) hl

/-! ### what the fold builds: later duplicates win, every key once -/

theorem alookup_ainsert_self {α} (k : String) (v : α) (m : List (String × α)) :
    alookup k (ainsert k v m) = some v := by
  induction m with
  | nil => simp [ainsert, alookup]
  | cons p r ih =>
    obtain ⟨k', v'⟩ := p
    by_cases h : k' = k <;> simp [ainsert, alookup, h, ih]

theorem alookup_ainsert_ne {α} (k k' : String) (v : α) (m : List (String × α)) (h : k' ≠ k) :
    alookup k (ainsert k' v m) = alookup k m := by
  induction m with
  | nil => simp [ainsert, alookup, h]
  | cons p r ih =>
    obtain ⟨k'', v''⟩ := p
    by_cases h2 : k'' = k' <;> by_cases h3 : k'' = k <;> simp_all [ainsert, alookup]

/-- the value of the LAST pair with key `k` -/
def lastVal (k : String) : List (String × TVal) → Option TVal
  | [] => none
  | (k', v) :: r =>
    match lastVal k r with
    | some w => some w
    | none => if k' = k then some v else none

/-- looking a key up in the built map gives the value of its last occurrence in the argument slice -/
theorem alookup_insertAll (k : String) (ps m : List (String × TVal)) :
    alookup k (insertAll ps m) = (match lastVal k ps with | some w => some w | none => alookup k m) := by
  induction ps generalizing m with
  | nil => rfl
  | cons p r ih =>
    obtain ⟨k', v⟩ := p
    simp only [insertAll, List.foldl_cons] at ih ⊢
    rw [ih, lastVal]
    cases lastVal k r with
    | some w => rfl
    | none =>
      by_cases h : k' = k
      · subst h; simp [alookup_ainsert_self]
      · simp [h, alookup_ainsert_ne k k' v m h]

theorem lastVal_isSome_iff (k : String) (ps : List (String × TVal)) :
    (lastVal k ps).isSome = true ↔ k ∈ ps.map Prod.fst := by
  induction ps with
  | nil => simp [lastVal]
  | cons p r ih =>
    obtain ⟨k', v⟩ := p
    simp only [lastVal, List.map_cons, List.mem_cons]
    cases h : lastVal k r with
    | some w => simp [h] at ih; simp [ih]
    | none =>
      simp [h] at ih
      by_cases hk : k' = k
      · simp [hk]
      · have : ¬ k = k' := fun e => hk e.symm
        simp [hk, ih, this]

/-- the keys of the result are exactly the keys given -/
theorem mem_keys_insertAll (k : String) (ps : List (String × TVal)) :
    (alookup k (insertAll ps [])).isSome = true ↔ k ∈ ps.map Prod.fst := by
  rw [alookup_insertAll, ← lastVal_isSome_iff]
  cases lastVal k ps <;> simp [alookup]

end LispModel.TyCtor

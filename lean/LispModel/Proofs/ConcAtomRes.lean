/-
  C09 proofs, part 15: the value a `swap!` with a pure update function installs is that function
  applied to the value it read (which, by the validated install, is the current one).
-/
import LispModel.Proofs.ConcAtomInc
namespace LispModel.Proofs.ConcAtom
open LispModel.Conc

def waitsForNested (fr : Frame) : Prop :=
  ∃ a b, fr.op = .swap a (.addDeref b) ∨ ∃ g, fr.op = .swap a (.addSwap b g)

structure ResInv (s : State) : Prop where
  top : ∀ t fr rest, (s.threads t).stack = fr :: rest → ∀ a g, fr.op = .swap a (.app g) →
    fr.returning = false → 5 ≤ fr.pc → fr.pc ≤ 7 → fr.res = g fr.old
  below : ∀ t fr rest, (s.threads t).stack = fr :: rest → ∀ f ∈ rest, waitsForNested f

theorem ResInv.setTop {s : State} {t : Nat} {fr' : Frame} {rest' : List Frame} {A' : AtomS} {ev : List LinEv}
    (h : ResInv s)
    (htop : ∀ a g, fr'.op = .swap a (.app g) → fr'.returning = false → 5 ≤ fr'.pc → fr'.pc ≤ 7 →
      fr'.res = g fr'.old)
    (hbelow : ∀ f ∈ rest', waitsForNested f) : ResInv (s.setTop t fr' rest' A' ev) := by
  constructor
  · intro u fr rest hst
    by_cases hu : u = t
    · subst hu; rw [setTop_stack_same] at hst; cases hst; exact htop
    · rw [setTop_threads_other _ _ _ _ _ _ hu] at hst; exact h.top u fr rest hst
  · intro u fr rest hst
    by_cases hu : u = t
    · subst hu; rw [setTop_stack_same] at hst; cases hst; exact hbelow
    · rw [setTop_threads_other _ _ _ _ _ _ hu] at hst; exact h.below u fr rest hst

theorem ResInv.step {s s' : State} {t : Nat} (h : ResInv s) (hL : LockInv s)
    (hs : step prog s t = some s') : ResInv s' := by
  have hk := step_kind hs
  cases hk with
  | start op more hst htd =>
    constructor
    · intro u fr rest hst'
      by_cases hu : u = t
      · subst hu; simp [upd] at hst'
        obtain ⟨h1, -⟩ := hst'; subst h1
        intro a g _ _ h5; cases op <;> simp [Frame.new] at h5
      · simp [upd, hu] at hst'; exact h.top u fr rest hst'
    · intro u fr rest hst'
      by_cases hu : u = t
      · subst hu; simp [upd] at hst'; obtain ⟨-, h2⟩ := hst'; subst h2; simp
      · simp [upd, hu] at hst'; exact h.below u fr rest hst'
  | finish fr hst hr hd =>
    constructor
    · intro u fr' rest hst'
      by_cases hu : u = t
      · subst hu; simp [upd] at hst'
      · simp [upd, hu] at hst'; exact h.top u fr' rest hst'
    · intro u fr' rest hst'
      by_cases hu : u = t
      · subst hu; simp [upd] at hst'
      · simp [upd, hu] at hst'; exact h.below u fr' rest hst'
  | defer fr rest d ds fr1 A' hst hr hd hex =>
    have hwf := hL.wf t
    rw [hst] at hwf
    obtain ⟨-, hdd⟩ := returning_defers hwf.1 hr hd
    apply h.setTop
    · intro a g _ hnr'
      rcases hdd with hdd | hdd <;> subst hdd <;> simp [execM] at hex <;> obtain ⟨h1, -⟩ := hex <;> subst h1 <;>
        simp [hr] at hnr'
    · exact h.below t fr rest hst
  | popOk fr par rest' v hst hr hd hv =>
    have hb := h.below t fr (par :: rest') hst
    apply h.setTop
    · intro a g hop
      obtain ⟨a', b', hw | ⟨g', hw⟩⟩ := hb par (by simp) <;> simp at hop <;> rw [hw] at hop <;> cases hop
    · intro f hf; exact hb f (by simp [hf])
  | popFail fr par rest' hst hr hd hv =>
    have hb := h.below t fr (par :: rest') hst
    apply h.setTop
    · intro a g _ hnr'; simp at hnr'
    · intro f hf; exact hb f (by simp [hf])
  | cbApp fr rest a f hst hnr hm hop =>
    apply h.setTop
    · intro a' g hop' _ _ _
      simp at hop'; rw [hop] at hop'; cases hop'; rfl
    · exact h.below t fr rest hst
  | cbFail fr rest a hst hnr hm hop =>
    apply h.setTop
    · intro a' g _ hnr'; simp at hnr'
    · exact h.below t fr rest hst
  | cbDeref fr rest a b hst hnr hm hop =>
    apply h.setTop
    · intro a' g hop'; simp [Frame.new] at hop'
    · intro f hf
      rcases List.mem_cons.mp hf with hf | hf
      · subst hf; exact ⟨a, b, Or.inl hop⟩
      · exact h.below t fr rest hst f hf
  | cbSwap fr rest a b g hst hnr hm hop =>
    apply h.setTop
    · intro a' g' _ _ h5; simp [Frame.new] at h5
    · intro f hf
      rcases List.mem_cons.mp hf with hf | hf
      · subst hf; exact ⟨a, b, Or.inr ⟨g, hop⟩⟩
      · exact h.below t fr rest hst f hf
  | mop fr rest m fr' A' hst hnr hm hcb hex =>
    have hop := (execM_eff hex).1
    obtain ⟨-, -, -, -, -, d6, -, -, d9⟩ := execM_data hex
    obtain ⟨hctl, -⟩ := execM_ctl hex hnr
    have hwf := hL.wf t
    rw [hst] at hwf
    have hwf0 := hwf.1
    unfold FrameWF at hwf0
    simp only [hnr] at hwf0
    rw [hwf0.2.1] at hctl
    apply h.setTop
    · intro a g hop' hr' h5 h7
      rw [hop] at hop'
      have hn0 : fr.op.name = .swap := by rw [hop']; rfl
      have tab := forAllOps_spec incTable_true (name_mem fr.op) hm
      unfold incEntry at tab
      rw [List.all_eq_true] at tab
      have tab := tab _ hctl
      simp only [hn0, beq_self_eq_true, Bool.and_true, Bool.and_eq_true, Bool.not_eq_true', decide_eq_true_eq,
        Bool.or_eq_true, bne_iff_ne, ne_eq, beq_iff_eq] at tab
      rcases tab ⟨⟨hr', h5⟩, h7⟩ with ⟨⟨p5, p7⟩, hnrv⟩ | hc
      · rw [d9, d6 hnrv]; exact h.top t fr rest hst a g hop' hnr p5 p7
      · exact absurd hc hcb
    · exact h.below t fr rest hst

theorem ResInv.init (progs : List (List AOp)) (vals : Nat → Nat) : ResInv (init progs vals) := by
  constructor <;> (intro t fr rest hst; simp [Conc.init] at hst)

/-- the value about to be installed by a `swap!` with a pure update function `g` is `g` applied to
    the current value of the atom (and the thread holds the write lock: nobody can write in between) -/
theorem swap_installs_f_of_current {progs vals s} (hr : Reachable progs vals s) {t a : Nat} {g : Nat → Nat}
    {fr : Frame} {rest : List Frame} (hst : (s.threads t).stack = fr :: rest)
    (hop : fr.op = .swap a (.app g)) (hnr : fr.returning = false) (hpc : fr.pc = 7) :
    fr.res = g (s.atoms a).val ∧ (s.atoms a).w = some t := by
  obtain ⟨sched, hrun⟩ := hr
  have key : ∀ (sched : List Nat) (s0 : State), AtomInv vals s0 → ResInv s0 → run prog sched s0 = some s →
      AtomInv vals s ∧ ResInv s := by
    intro sched
    induction sched with
    | nil => intro s0 hA hR h0; simp [Conc.run] at h0; subst h0; exact ⟨hA, hR⟩
    | cons u us ih =>
      intro s0 hA hR h0
      simp only [Conc.run, Option.bind_eq_some_iff] at h0
      obtain ⟨s1, h1, h2⟩ := h0
      exact ih s1 (hA.step h1) (hR.step hA.lock h1) h2
  obtain ⟨hA, hR⟩ := key sched _ (AtomInv.init progs vals) (ResInv.init progs vals) hrun
  have hn : fr.op.name = .swap := by rw [hop]; rfl
  obtain ⟨-, h2, h3⟩ := install_sees_current hA.lock hA.ver hst hn hnr hpc
  have hc := hA.chk t fr rest hst hn hnr hpc
  have hat : fr.op.atom = a := by rw [hop]; rfl
  rw [hat] at h2 h3 hc
  refine ⟨?_, h3⟩
  rw [hR.top t fr rest hst a g hop hnr (by omega) (by omega), h2 hc]

end LispModel.Proofs.ConcAtom

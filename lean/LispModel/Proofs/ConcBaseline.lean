/-
  Counterexamples about the BASELINE programs (the code as it stands), by evaluation of the
  micro-op semantics on small instances.
-/
import LispModel.Conc
import LispModel.ConcFut
namespace LispModel.Proofs.ConcBaseline
open LispModel.Conc

/-- `(swap! a (fn [x] (+ x @a)))`, one thread -/
def selfDeref : State := init [[.swap 0 (.addDeref 0)]]

/-- D13: after 5 steps the only thread waits for a read lock on the atom it has write-locked -/
theorem baseline_self_deref_deadlock :
    ∃ s, run progBaseline [0, 0, 0, 0, 0] selfDeref = some s ∧ deadlocked progBaseline s 1 0 = true := by
  apply reachesDeadlock_spec
  decide

/-- thread 0: `(swap! a (fn [x] (+ x (swap! b inc))))`, thread 1: the same with a and b exchanged -/
def crossSwap : State :=
  init [[.swap 0 (.addSwap 1 (.app (· + 1)))], [.swap 1 (.addSwap 0 (.app (· + 1)))]]

/-- D13: both threads hold their own atom's write lock and wait for the other's -/
theorem baseline_cross_swap_deadlock :
    reachesDeadlock progBaseline [0, 0, 0, 0, 0, 1, 1, 1, 1, 1] crossSwap 2 0 = true
    ∧ reachesDeadlock progBaseline [0, 0, 0, 0, 0, 1, 1, 1, 1, 1] crossSwap 2 1 = true := by
  decide

/-- thread 0: `(swap! a inc)`, thread 1: `(str a)` -/
def printVsSwap : State := init [[.swap 0 (.app (· + 1))], [.print 0]]

/-- D14: `LispPrint` reads `Val` while a `swap!` is about to write it under the write lock -/
theorem baseline_print_races :
    reachesRace progBaseline [0, 0, 0, 0, 0, 1] printVsSwap 0 1 = true := by
  decide

/-! ### futures (D15) -/
open LispModel.Conc.Fut

/-- one future whose body returns 7; thread 0: `(do @f (future-done? f))` -/
def derefThenDone : FState := finit [{ outcome := (false, 7) }] [[.derefF 0, .isDone 0]]

/-- D15: body sends; the reader receives, re-deposits and returns 7; then `future-done?` reads
    `Done` before the body's deferred `Done = true` has run: false -/
theorem baseline_done_window_counterexample :
    outAfter progBaseline
      [.body 0, .body 0, .body 0, .thr 0 0, .thr 0 2, .thr 0 0, .thr 0 0, .thr 0 0,
       .thr 0 0, .thr 0 0, .thr 0 0, .thr 0 0] derefThenDone 0
      = some [(.derefF, 0, .out (false, 7)), (.isDone, 0, .flag false)] := by
  decide

/-- thread 0: `(future-cancel f)` after the body delivered its value -/
def cancelLate : FState := finit [{ outcome := (false, 7) }] [[.cancel 0]]

/-- D15: `future-cancel` between delivery and the `Done` write answers true on a completed future -/
theorem baseline_cancel_after_delivery_counterexample :
    (frun progBaseline [.body 0, .body 0, .body 0, .thr 0 0, .thr 0 0, .thr 0 0, .thr 0 0,
       .thr 0 0, .thr 0 0, .thr 0 0, .thr 0 0] cancelLate).map
      (fun s => ((s.futs 0).valCh, (s.threads 0).out))
      = some (some 7, [(.cancel, 0, .flag true)]) := by
  decide

/-- thread 0: `(future-done? f)` -/
def doneVsBody : FState := finit [{ outcome := (false, 7) }] [[.isDone 0]]

/-- D15: the body's deferred `Done = true` and the read in `future-done?` are both enabled, no lock -/
theorem baseline_flag_race_counterexample :
    (frun progBaseline [.body 0, .body 0, .body 0, .body 0, .thr 0 0] doneVsBody).map
      (fun s => fraceBodyVs progBaseline s 0 0) = some true := by
  decide

end LispModel.Proofs.ConcBaseline

/-
  Laws of the REPL's line loop (LispModel/ReplLoop.lean): the case split of one iteration, "nothing is
  evaluated while the text is incomplete", "exactly one evaluation when it is complete", the tie to the
  reader theorems of C16 (token prefixes that closing brackets alone complete), reset after an error,
  blank lines, and the counter-facts (a line break after a reader macro; raw strings cannot span lines;
  an evaluation error that LOOKS like an incomplete-input error).
  Core Lean only.
-/
import LispModel.ReplLoop
import LispModel.Util
import LispModel.Proofs.Reader
namespace LispModel.ReplLoop
open LispModel LispModel.Read LispModel.Scan

variable {σ α : Type}

/-! ### 1. one iteration -/

/-- the text handed to `lisp.REPL` by the iteration for `line` -/
def textOf (st : RState σ) (line : String) : String := joinLines (st.lines ++ [trimSpace line])

theorem replStep_eq (re : ReadEval σ) (st : RState σ) (line : String) :
    replStep re st line = finish (st.lines ++ [trimSpace line]) (re st.env (textOf st line)) := rfl

/-- **the four outcomes**, as an exact case split on what `lisp.REPL` returns for the joined text -/
theorem step_cases (re : ReadEval σ) (st : RState σ) (line : String) :
    (∀ out env', re st.env (textOf st line) = (.ok out, env') →
        replStep re st line = ({ lines := [], env := env' }, .value out)) ∧                       -- print, reset
    (∀ e env', re st.env (textOf st line) = (.error e, env') → e.isEmptyLine = true →
        replStep re st line = ({ lines := st.lines ++ [trimSpace line], env := env' }, .none)) ∧    -- keep (empty)
    (∀ e env', re st.env (textOf st line) = (.error e, env') → e.isEmptyLine = false → e.multiLine = true →
        replStep re st line = ({ lines := st.lines ++ [trimSpace line], env := env' }, .none)) ∧    -- keep accumulating
    (∀ e env', re st.env (textOf st line) = (.error e, env') → e.isEmptyLine = false → e.multiLine = false →
        replStep re st line = ({ lines := [], env := env' }, .error e)) := by                      -- report, reset
  refine ⟨?_, ?_, ?_, ?_⟩
  · intro out env' h; rw [replStep_eq, h]; rfl
  · intro e env' h h1; rw [replStep_eq, h]; simp [finish, h1]
  · intro e env' h h1 h2; rw [replStep_eq, h]; simp [finish, h1, h2]
  · intro e env' h h1 h2; rw [replStep_eq, h]; simp [finish, h1, h2]

/-- the two silent outcomes in one: an error the loop `keeps` on -/
theorem step_keeps (re : ReadEval σ) (st : RState σ) (line : String) (e : LErr) (env' : σ)
    (h : re st.env (textOf st line) = (.error e, env')) (hk : e.keeps = true) :
    replStep re st line = ({ lines := st.lines ++ [trimSpace line], env := env' }, .none) := by
  obtain ⟨_, h1, h2, _⟩ := step_cases re st line
  cases hE : e.isEmptyLine with
  | true => exact h1 e env' h hE
  | false =>
    have : e.multiLine = true := by simpa [LErr.keeps, hE] using hk
    exact h2 e env' h hE this

/-- every iteration either keeps all the lines (and prints nothing) or forgets them all -/
theorem step_lines (re : ReadEval σ) (st : RState σ) (line : String) :
    ((replStep re st line).1.lines = st.lines ++ [trimSpace line] ∧ (replStep re st line).2 = .none) ∨
    (replStep re st line).1.lines = [] := by
  rw [replStep_eq]
  generalize re st.env (textOf st line) = r
  obtain ⟨r, env'⟩ := r
  cases r with
  | ok out => right; rfl
  | error e =>
    unfold finish
    dsimp only
    split
    · left; exact ⟨rfl, rfl⟩
    · split
      · left; exact ⟨rfl, rfl⟩
      · right; rfl

/-! ### 2. nothing is evaluated while the text is incomplete -/

/-- the reader rejects `text` with an error on which the loop keeps the lines: `<empty line>` (no token
    yet) or one of the `multiLine` messages -/
def Incomplete (read : String → Except RErr α) (text : String) : Prop :=
  ∃ e, read text = .error e ∧ (LErr.read e).keeps = true

theorem readEvalOf_error (read : String → Except RErr α) (ep : σ → α → Except LErr String × σ) (env : σ)
    {text : String} {e : RErr} (h : read text = .error e) :
    readEvalOf read ep env text = (.error (.read e), env) := by
  unfold readEvalOf; rw [h]

theorem readEvalOf_ok (read : String → Except RErr α) (ep : σ → α → Except LErr String × σ) (env : σ)
    {text : String} {ast : α} (h : read text = .ok ast) :
    readEvalOf read ep env text = ep env ast := by
  unfold readEvalOf; rw [h]

/-- one line that leaves the text incomplete: nothing printed, the line kept, the environment untouched
    (`EVAL` is not called: `READ` failed) -/
theorem step_incomplete (read : String → Except RErr α) (ep : σ → α → Except LErr String × σ)
    (st : RState σ) (line : String) (h : Incomplete read (textOf st line)) :
    replStep (readEvalOf read ep) st line =
      ({ lines := st.lines ++ [trimSpace line], env := st.env }, .none) := by
  obtain ⟨e, he, hk⟩ := h
  exact step_keeps _ st line (.read e) st.env (readEvalOf_error read ep st.env he) hk

/-- **the general form**: if every non-empty prefix of `ls`, on top of the lines already pending, leaves the
    text incomplete, the run over `ls` prints nothing, keeps every line and does not touch the environment -/
theorem run_while_incomplete (read : String → Except RErr α) (ep : σ → α → Except LErr String × σ)
    (ls : List String) : ∀ (st : RState σ),
    (∀ k, 0 < k → k ≤ ls.length → Incomplete read (joinLines (st.lines ++ (ls.take k).map trimSpace))) →
    replRun (readEvalOf read ep) st ls =
      ({ lines := st.lines ++ ls.map trimSpace, env := st.env }, ls.map fun _ => Out.none) := by
  induction ls with
  | nil => intro st _; simp [replRun]
  | cons l ls ih =>
    intro st h
    have h1 : Incomplete read (textOf st l) := by
      have := h 1 (by omega) (by simp)
      simpa [textOf] using this
    have hs := step_incomplete read ep st l h1
    have h2 : ∀ k, 0 < k → k ≤ ls.length → Incomplete read
        (joinLines ((st.lines ++ [trimSpace l]) ++ (ls.take k).map trimSpace)) := by
      intro k hk hle
      have := h (k + 1) (by omega) (by simp; omega)
      simpa [List.append_assoc] using this
    have hr := ih { lines := st.lines ++ [trimSpace l], env := st.env } h2
    simp only [replRun, hs, hr, List.map_cons, List.append_assoc, List.singleton_append]

theorem replRun_append (re : ReadEval σ) (a b : List String) : ∀ (st : RState σ),
    replRun re st (a ++ b) =
      ((replRun re (replRun re st a).1 b).1, (replRun re st a).2 ++ (replRun re (replRun re st a).1 b).2) := by
  induction a with
  | nil => intro st; simp [replRun]
  | cons l a ih => intro st; simp only [List.cons_append, replRun, ih, List.cons_append]

theorem replRun_single (re : ReadEval σ) (st : RState σ) (l : String) :
    replRun re st [l] = ((replStep re st l).1, [(replStep re st l).2]) := by
  simp [replRun]

/-- **nothing evaluated while incomplete** (the brief's form): the lines `ls ++ [last]` typed at a fresh
    prompt; if every non-empty prefix of `ls` (every PROPER prefix of all the lines) is incomplete, then
    nothing but `none` comes out before the last line, and the last line is processed in the state that holds
    all the earlier lines and the environment as it was (no evaluation has taken place) -/
theorem nothing_evaluated_while_incomplete (read : String → Except RErr α)
    (ep : σ → α → Except LErr String × σ) (env : σ) (ls : List String) (last : String)
    (h : ∀ k, 0 < k → k ≤ ls.length → Incomplete read (joinLines ((ls.take k).map trimSpace))) :
    replRun (readEvalOf read ep) { lines := [], env := env } (ls ++ [last]) =
      ((replStep (readEvalOf read ep) { lines := ls.map trimSpace, env := env } last).1,
       (ls.map fun _ => Out.none) ++
         [(replStep (readEvalOf read ep) { lines := ls.map trimSpace, env := env } last).2]) := by
  have hr := run_while_incomplete read ep ls { lines := [], env := env } (by simpa using h)
  rw [replRun_append, hr, replRun_single]
  simp

/-! ### 3. exactly one evaluation when the text is complete -/

/-- **one evaluation when complete**: under the hypothesis of 2, if the joined text of ALL the lines reads as
    `ast`, the run calls the evaluator exactly once, on `ast` in the untouched environment, and the only
    thing that can be printed is what the loop makes of that one result -/
theorem one_evaluation_when_complete (read : String → Except RErr α)
    (ep : σ → α → Except LErr String × σ) (env : σ) (ls : List String) (last : String) (ast : α)
    (h : ∀ k, 0 < k → k ≤ ls.length → Incomplete read (joinLines ((ls.take k).map trimSpace)))
    (hr : read (joinLines ((ls ++ [last]).map trimSpace)) = .ok ast) :
    replRun (readEvalOf read ep) { lines := [], env := env } (ls ++ [last]) =
      ((finish ((ls ++ [last]).map trimSpace) (ep env ast)).1,
       (ls.map fun _ => Out.none) ++ [(finish ((ls ++ [last]).map trimSpace) (ep env ast)).2]) := by
  rw [nothing_evaluated_while_incomplete read ep env ls last h, replStep_eq]
  have e : textOf ({ lines := ls.map trimSpace, env := env } : RState σ) last =
      joinLines ((ls ++ [last]).map trimSpace) := by simp [textOf]
  rw [e, readEvalOf_ok read ep env hr]
  simp

/-- … the evaluation succeeds: exactly one output, the printed value, and the lines are forgotten -/
theorem one_value_when_complete (read : String → Except RErr α)
    (ep : σ → α → Except LErr String × σ) (env env' : σ) (ls : List String) (last : String) (ast : α)
    (text : String)
    (h : ∀ k, 0 < k → k ≤ ls.length → Incomplete read (joinLines ((ls.take k).map trimSpace)))
    (hr : read (joinLines ((ls ++ [last]).map trimSpace)) = .ok ast) (he : ep env ast = (.ok text, env')) :
    replRun (readEvalOf read ep) { lines := [], env := env } (ls ++ [last]) =
      ({ lines := [], env := env' }, (ls.map fun _ => Out.none) ++ [.value text]) := by
  rw [one_evaluation_when_complete read ep env ls last ast h hr, he]; rfl

/-- … the evaluation fails with an error that is neither `<empty line>` nor a `multiLine` message: exactly one
    output, that error, and the lines are forgotten -/
theorem one_error_when_complete (read : String → Except RErr α)
    (ep : σ → α → Except LErr String × σ) (env env' : σ) (ls : List String) (last : String) (ast : α)
    (e : LErr)
    (h : ∀ k, 0 < k → k ≤ ls.length → Incomplete read (joinLines ((ls.take k).map trimSpace)))
    (hr : read (joinLines ((ls ++ [last]).map trimSpace)) = .ok ast) (he : ep env ast = (.error e, env'))
    (hk : e.keeps = false) :
    replRun (readEvalOf read ep) { lines := [], env := env } (ls ++ [last]) =
      ({ lines := [], env := env' }, (ls.map fun _ => Out.none) ++ [.error e]) := by
  rw [one_evaluation_when_complete read ep env ls last ast h hr, he]
  have h1 : e.isEmptyLine = false := by
    cases hh : e.isEmptyLine <;> simp [LErr.keeps, hh] at hk ⊢
  have h2 : e.multiLine = false := by
    cases hh : e.multiLine <;> simp [LErr.keeps, hh] at hk ⊢
  simp [finish, h1, h2]

/-- the outputs that print something, of such a run: exactly one -/
theorem printed_nones (n : List String) (o : Out) (ho : o ≠ .none) :
    printed ((n.map fun _ => Out.none) ++ [o]) = [o] := by
  induction n with
  | nil => cases o <;> simp_all [printed]
  | cons _ n ih => simpa [printed] using ih

/-! ### 4. the tie to the reader model (C16): token prefixes that closing brackets alone complete -/

open LispModel.Proofs.Reader (IsCloser)

/-- `replRead` on a text whose tokens are known -/
theorem replRead_of_tokens {text : String} {toks : List Token}
    (ht : tokenize text.toUTF8.toList = .ok toks) (hne : toks ≠ []) :
    replRead text =
      match readForm (2 * toks.length + 2) replCfg toks with
      | .error e => .error e
      | .ok (v, []) => .ok v
      | .ok (_, _ :: _) => .error .trailing := by
  unfold replRead readStr
  have hc : (if replCfg.module.isNone then { replCfg with module := modulePrefix text.toUTF8.toList } else replCfg)
      = replCfg := rfl
  simp only [hc, ht]
  cases toks with
  | nil => exact absurd rfl hne
  | cons t ts => rfl

theorem replRead_no_tokens {text : String} (ht : tokenize text.toUTF8.toList = .ok []) :
    replRead text = .error .empty := by
  unfold replRead readStr
  simp only [ht]

/-- the text tokenizes, and its tokens are either none at all (blank lines, comments) or a sequence that
    closing brackets ALONE complete to one well-formed expression (`c` = the innermost closer) — i.e. the text
    ends inside an open bracket, at a point where no reader macro waits for its operand and no map key for its
    value.  (No line break inside a string or raw-string token: such a text does not tokenize at all — see
    `no_token_spans_lines` below.) -/
def OpenText (text : String) : Prop :=
  ∃ toks, tokenize text.toUTF8.toList = .ok toks ∧
    (toks = [] ∨ ∃ c cs, IsCloser c = true ∧ (∀ t ∈ cs, IsCloser t = true) ∧
      ∃ v, readForm (2 * (toks ++ c :: cs).length + 2) replCfg (toks ++ c :: cs) = .ok (v, []))

/-- what the reader says about an open text: `<empty line>`, or `expected '<innermost closer>', got EOF` -/
theorem openText_error {text : String} (h : OpenText text) :
    replRead text = .error .empty ∨
      ∃ c, IsCloser c = true ∧ replRead text = .error (.eof (tokStr c)) ∧ multiLine (.eof (tokStr c)) = true := by
  obtain ⟨toks, ht, h⟩ := h
  rcases h with rfl | ⟨c, cs, hc, hcs, hwf⟩
  · exact .inl (replRead_no_tokens ht)
  · right
    have hne : toks ≠ [] := by
      rintro rfl
      obtain ⟨v, hv⟩ := hwf
      rw [List.nil_append, Proofs.Reader.readForm_closer _ _ _ _ (Proofs.Reader.isCloser_iff.mp hc)] at hv
      cases hv
    obtain ⟨h1, h2⟩ := Proofs.Reader.incomplete_reports_innermost_closer replCfg toks c cs hc hcs hwf
    refine ⟨c, hc, ?_, h2⟩
    rw [replRead_of_tokens ht hne, h1]

theorem openText_incomplete {text : String} (h : OpenText text) : Incomplete replRead text := by
  rcases openText_error h with h | ⟨c, _, h, hm⟩
  · exact ⟨_, h, rfl⟩
  · exact ⟨_, h, by simp [LErr.keeps, LErr.multiLine, hm]⟩

/-- **a bracketed expression laid out over several lines** (real reader, evaluator and printer models).
    ASSUMED, precisely: for every proper non-empty prefix of the lines, the joined trimmed text is an
    `OpenText` (it tokenizes — so no line break falls inside a string / raw-string token —, and its tokens are
    none, or are completed to one well-formed expression by closing brackets alone — so no line ends right
    behind a reader macro or a map key); and the joined text of ALL the lines reads as `ast`.
    THEN nothing is printed or evaluated before the last line, `ast` is evaluated exactly once, in the
    environment as it was, and the loop makes of that one result what `finish` says. -/
theorem bracketed_expression_over_lines (st : State) (ls : List String) (last : String) (ast : Val)
    (hopen : ∀ k, 0 < k → k ≤ ls.length → OpenText (joinLines ((ls.take k).map trimSpace)))
    (hread : replRead (joinLines ((ls ++ [last]).map trimSpace)) = .ok ast) :
    run st (ls ++ [last]) =
      ((finish ((ls ++ [last]).map trimSpace) (replEvalPrint st ast)).1,
       (ls.map fun _ => Out.none) ++ [(finish ((ls ++ [last]).map trimSpace) (replEvalPrint st ast)).2]) :=
  one_evaluation_when_complete replRead replEvalPrint st ls last ast
    (fun k h1 h2 => openText_incomplete (hopen k h1 h2)) hread

/-- … when the evaluation succeeds: exactly one output, the printed value; the lines are forgotten and the
    environment is the one the evaluation left -/
theorem bracketed_expression_value (st st' : State) (ls : List String) (last : String) (ast : Val) (text : String)
    (hopen : ∀ k, 0 < k → k ≤ ls.length → OpenText (joinLines ((ls.take k).map trimSpace)))
    (hread : replRead (joinLines ((ls ++ [last]).map trimSpace)) = .ok ast)
    (heval : replEvalPrint st ast = (.ok text, st')) :
    run st (ls ++ [last]) = ({ lines := [], env := st' }, (ls.map fun _ => Out.none) ++ [.value text]) ∧
    printed (run st (ls ++ [last])).2 = [.value text] := by
  have h := one_value_when_complete replRead replEvalPrint st st' ls last ast text
    (fun k h1 h2 => openText_incomplete (hopen k h1 h2)) hread heval
  have h' : run st (ls ++ [last]) = ({ lines := [], env := st' }, (ls.map fun _ => Out.none) ++ [.value text]) := h
  exact ⟨h', by rw [h']; exact printed_nones ls _ (by simp)⟩

/-- while the lines so far form an open text the state holds exactly those lines and the environment is
    untouched: READ failed, EVAL was not called -/
theorem open_lines_pending (st : State) (ls : List String)
    (hopen : ∀ k, 0 < k → k ≤ ls.length → OpenText (joinLines ((ls.take k).map trimSpace))) :
    run st ls = ({ lines := ls.map trimSpace, env := st }, ls.map fun _ => Out.none) := by
  have := run_while_incomplete replRead replEvalPrint ls { lines := [], env := st }
    (by simpa using fun k h1 h2 => openText_incomplete (hopen k h1 h2))
  simpa [run, lispREPL] using this

/-! ### 5. reset after an error; blank lines -/

theorem joinLines_single (s : String) : joinLines [s] = s := rfl

/-- **after an error that is neither `<empty line>` nor `multiLine`** the error is printed, the failed lines
    are forgotten, and the next line starts a fresh expression: it is read on its own -/
theorem error_resets (re : ReadEval σ) (st : RState σ) (line next : String) (e : LErr) (env' : σ)
    (h : re st.env (textOf st line) = (.error e, env')) (hk : e.keeps = false) :
    replStep re st line = ({ lines := [], env := env' }, .error e) ∧
    replStep re (replStep re st line).1 next = finish [trimSpace next] (re env' (trimSpace next)) := by
  have h1 : e.isEmptyLine = false := by
    cases hh : e.isEmptyLine <;> simp [LErr.keeps, hh] at hk ⊢
  have h2 : e.multiLine = false := by
    cases hh : e.multiLine <;> simp [LErr.keeps, hh] at hk ⊢
  have hs := (step_cases re st line).2.2.2 e env' h h1 h2
  refine ⟨hs, ?_⟩
  rw [hs, replStep_eq]
  simp [textOf, joinLines_single]

/-- the same after a printed value -/
theorem value_resets (re : ReadEval σ) (st : RState σ) (line next : String) (out : String) (env' : σ)
    (h : re st.env (textOf st line) = (.ok out, env')) :
    replStep re st line = ({ lines := [], env := env' }, .value out) ∧
    replStep re (replStep re st line).1 next = finish [trimSpace next] (re env' (trimSpace next)) := by
  have hs := (step_cases re st line).1 out env' h
  refine ⟨hs, ?_⟩
  rw [hs, replStep_eq]
  simp [textOf, joinLines_single]

/-- a run that has just printed something (value or error) continues as a run from a fresh prompt -/
theorem run_after_reset (re : ReadEval σ) (a b : List String) (st : RState σ)
    (h : (replRun re st a).1.lines = []) :
    replRun re st (a ++ b) =
      ((replRun re { lines := [], env := (replRun re st a).1.env } b).1,
       (replRun re st a).2 ++ (replRun re { lines := [], env := (replRun re st a).1.env } b).2) := by
  rw [replRun_append]
  have : (replRun re st a).1 = { lines := [], env := (replRun re st a).1.env } := by
    cases hh : (replRun re st a).1 with
    | mk l e => rw [hh] at h; simp only at h; subst h; rfl
  rw [← this]

/-- a line of white space only is the empty line after `TrimSpace` -/
theorem trimSpace_blank (line : String) (h : ∀ c ∈ line.toList, isSpace c = true) : trimSpace line = "" := by
  have key : ∀ cs : List Char, (∀ c ∈ cs, isSpace c = true) → cs.dropWhile isSpace = [] := by
    intro cs
    induction cs with
    | nil => intro _; rfl
    | cons c cs ih =>
      intro hc
      rw [List.dropWhile_cons, if_pos (hc c (by simp))]
      exact ih (fun d hd => hc d (by simp [hd]))
  have : trimLeft line.toList = [] := key _ h
  unfold trimSpace
  rw [this]
  rfl

/-- **an empty / blank line inside an open expression changes nothing**: nothing is printed, nothing is
    evaluated, the lines (now with an empty one) stay pending -/
theorem empty_line_keeps_accumulating (read : String → Except RErr α) (ep : σ → α → Except LErr String × σ)
    (st : RState σ) (line : String) (hb : ∀ c ∈ line.toList, isSpace c = true)
    (h : Incomplete read (joinLines (st.lines ++ [""]))) :
    replStep (readEvalOf read ep) st line = ({ lines := st.lines ++ [""], env := st.env }, .none) := by
  have hl := trimSpace_blank line hb
  have := step_incomplete read ep st line (by simpa [textOf, hl] using h)
  simpa [hl] using this

/-- … with the real reader: an open text plus an empty line that is still an open text -/
theorem empty_line_in_open_text (st : RState State) (line : String) (hb : ∀ c ∈ line.toList, isSpace c = true)
    (h : OpenText (joinLines (st.lines ++ [""]))) :
    replStep lispREPL st line = ({ lines := st.lines ++ [""], env := st.env }, .none) :=
  empty_line_keeps_accumulating replRead replEvalPrint st line hb (openText_incomplete h)

/-- … at a fresh prompt: `<empty line>`, silently skipped (the empty line itself stays in `lines`) -/
theorem empty_line_at_fresh_prompt (env : State) (line : String) (hb : ∀ c ∈ line.toList, isSpace c = true) :
    replStep lispREPL { lines := [], env := env } line = ({ lines := [""], env := env }, .none) := by
  have h : Incomplete replRead (joinLines ([] ++ [""])) :=
    ⟨.empty, replRead_no_tokens (text := "") (by decide +kernel), rfl⟩
  have := empty_line_keeps_accumulating replRead replEvalPrint { lines := [], env := env } line hb h
  simpa [lispREPL] using this

/-! ### `strings.TrimSpace`: what the loop stores is trimmed -/

theorem dropWhile_fix {p : Char → Bool} : ∀ {l : List Char}, (∀ c, l.head? = some c → p c = false) →
    l.dropWhile p = l
  | [], _ => rfl
  | c :: r, h => by rw [List.dropWhile_cons, if_neg (by simp [h c rfl])]

theorem trimSpace_toList (s : String) : (trimSpace s).toList = trimRight (trimLeft s.toList) := by
  unfold trimSpace; exact String.toList_ofList

theorem trimLeft_head (cs : List Char) (c : Char) (h : (trimLeft cs).head? = some c) : isSpace c = false := by
  have := List.head?_dropWhile_not isSpace cs
  unfold trimLeft at h
  rw [h] at this
  exact this

theorem trimRight_last (cs : List Char) (c : Char) (h : (trimRight cs).getLast? = some c) : isSpace c = false := by
  unfold trimRight at h
  rw [List.getLast?_reverse] at h
  have := List.head?_dropWhile_not isSpace cs.reverse
  rw [h] at this
  exact this

theorem trimRight_prefix (cs : List Char) : trimRight cs <+: cs := by
  unfold trimRight
  have := List.dropWhile_suffix isSpace (l := cs.reverse)
  simpa using List.reverse_prefix.mpr this

theorem trimRight_fix {cs : List Char} (h : ∀ c, cs.getLast? = some c → isSpace c = false) : trimRight cs = cs := by
  unfold trimRight
  rw [dropWhile_fix (by simpa [List.head?_reverse] using h), List.reverse_reverse]

/-- a trimmed line neither starts nor ends with white space … -/
theorem trimSpace_ends (s : String) :
    (∀ c, (trimSpace s).toList.head? = some c → isSpace c = false) ∧
    (∀ c, (trimSpace s).toList.getLast? = some c → isSpace c = false) := by
  rw [trimSpace_toList]
  refine ⟨fun c h => ?_, fun c h => trimRight_last _ c h⟩
  obtain ⟨t, ht⟩ := trimRight_prefix (trimLeft s.toList)
  cases hr : trimRight (trimLeft s.toList) with
  | nil => rw [hr] at h; cases h
  | cons a r =>
    rw [hr] at h ht
    simp only [List.head?_cons, Option.some.injEq] at h
    subst h
    exact trimLeft_head s.toList a (by rw [← ht]; rfl)

/-- … and `TrimSpace` is idempotent -/
theorem trimSpace_idem (s : String) : trimSpace (trimSpace s) = trimSpace s := by
  obtain ⟨h1, h2⟩ := trimSpace_ends s
  have e1 : trimLeft (trimSpace s).toList = (trimSpace s).toList := dropWhile_fix h1
  have e2 : trimRight (trimSpace s).toList = (trimSpace s).toList := trimRight_fix h2
  have e : trimSpace (trimSpace s) = String.ofList (trimRight (trimLeft (trimSpace s).toList)) := rfl
  rw [e, e1, e2, String.ofList_toList]

/-- every pending line is a trimmed line (invariant of the loop) -/
def Trimmed (st : RState σ) : Prop := ∀ l ∈ st.lines, trimSpace l = l

theorem step_trimmed (re : ReadEval σ) (st : RState σ) (line : String) (h : Trimmed st) :
    Trimmed (replStep re st line).1 := by
  rcases step_lines re st line with ⟨hl, _⟩ | hl
  · intro l hm
    rw [hl] at hm
    rcases List.mem_append.mp hm with hm | hm
    · exact h l hm
    · simp only [List.mem_singleton] at hm; subst hm; exact trimSpace_idem line
  · intro l hm; rw [hl] at hm; cases hm

/-! ### 6. counter-facts -/

/-- a reader macro at the end of the text: `read_form underflow`, which is NOT a `multiLine` message -/
theorem underflow_not_kept : (LErr.read .underflow).keeps = false := by decide

/-- **a line break right after a reader macro is not continued**: `'` ⏎ `(+ 1 2)` — the first line is reported
    as an error, the second is evaluated on its own (the value is 3, not `(quote (+ 1 2))`) -/
theorem line_break_after_reader_macro :
    observation (run initState ["'", "(+ 1 2)"]).2 = "Eunderflow V33" := by decide +kernel

/-- … also inside an open bracket: `(list '` ⏎ `a)` — both lines are errors (`underflow`, then the second line
    alone: `a` followed by an unread `)`) -/
theorem line_break_after_reader_macro_in_bracket :
    observation (run initState ["(list '", "a)"]).2 = "Eunderflow Etrailing" := by decide +kernel

/-- **no token spans lines**: a string or a raw string left open at the end of a line is a scanner error
    (`invalid token`), not an `expected '¬', got EOF` — so the REPL does not wait for the rest; the next line
    is read on its own.  (Hence the question what `TrimSpace` would do to the inside of a multi-line raw string
    does not arise: such a string cannot be entered at all.) -/
theorem no_token_spans_lines :
    observation (run initState ["(str ¬ab  ", "cd¬)"]).2 = "Ebadtoken Ebadtoken" ∧
    observation (run initState ["(str \"ab", "cd\")"]).2 = "Ebadtoken Ebadtoken" ∧
    observation (run initState ["(str ¬", "ab¬)"]).2 = "Ebadtoken Ebadtoken" := by
  refine ⟨?_, ?_, ?_⟩ <;> decide +kernel

/-- `TrimSpace` does reach INTO nothing: white space inside a (one-line) string is kept, around the line it
    is dropped (U+00A0 and U+2003 included) -/
theorem trim_examples :
    trimSpace "  \t(+ 1 2) \u00a0\u2003" = "(+ 1 2)" ∧ trimSpace " \"a  \" " = "\"a  \"" ∧ trimSpace " \t " = "" := by
  refine ⟨?_, ?_, ?_⟩ <;> decide +kernel

/-- **an evaluation error that looks like incomplete input**: `multiLine` looks at the MESSAGE of the error
    value, whoever produced it.  An evaluation that fails with a Go error saying `expected ')', got EOF`
    (`(read-string "(")` in the real interpreter; here a thrown `«go-error …»`) is taken for incomplete
    input: nothing is printed, the line stays pending — although it HAS been evaluated (`env'`). -/
theorem evaluation_error_taken_for_incomplete (re : ReadEval σ) (st : RState σ) (line : String) (env' : σ)
    (p : Option Pos) (m : String) (hm : mlMessage m = true)
    (h : re st.env (textOf st line) = (.error (.eval (.lisp (.goerr m) p)), env')) :
    replStep re st line = ({ lines := st.lines ++ [trimSpace line], env := env' }, .none) :=
  step_keeps re st line _ env' h (by simp [LErr.keeps, LErr.multiLine, hm])

/-- … concretely: the `def` inside the swallowed line has happened (`x` ⇒ 5 later on), the line itself is only
    got rid of by the error of the NEXT line (`not all tokens where parsed`) -/
theorem evaluation_error_taken_for_incomplete_example :
    observation (run initState
      ["(do (def x 5) (throw «go-error \"expected ')', got EOF\"»))", ")", "x"]).2 = "Etrailing V35" := by
  decide +kernel

/-! ### non-vacuity -/

/-- a closing-bracket token (positions are irrelevant to `IsCloser` and to the reader's verdict) -/
def closerTok (c : Char) : Token := { kind := .char c.toNat, text := [c.toNat], line := 0, column := 0, offset := 0 }

/-- executable check of `OpenText` with the given closers as witnesses -/
def openTextB (text : String) (closers : List Char) : Bool :=
  match tokenize text.toUTF8.toList with
  | .ok toks =>
    toks.isEmpty ||
    (match closers.map closerTok with
     | [] => false
     | c :: cs =>
       (c :: cs).all IsCloser &&
       (match readForm (2 * (toks ++ c :: cs).length + 2) replCfg (toks ++ c :: cs) with
        | .ok (_, []) => true
        | _ => false))
  | .error _ _ => false

theorem openTextB_sound (text : String) (closers : List Char) (h : openTextB text closers = true) :
    OpenText text := by
  unfold openTextB at h
  split at h
  · rename_i toks ht
    refine ⟨toks, ht, ?_⟩
    rcases Bool.or_eq_true _ _ |>.mp h with h | h
    · left; simpa using h
    · right
      split at h
      · cases h
      · rename_i c cs _
        rw [Bool.and_eq_true] at h
        obtain ⟨hall, hr⟩ := h
        rw [List.all_cons, Bool.and_eq_true] at hall
        refine ⟨c, cs, hall.1, fun t ht => List.all_eq_true.mp hall.2 t ht, ?_⟩
        split at hr
        · rename_i v hv; exact ⟨v, hv⟩
        · cases hr
  · cases h

/-- the lines `(+ 1` ⏎ (empty) ⏎ `  (* 2` ⏎ `3))`: every proper prefix is an open text … -/
theorem example_open_prefixes :
    ∀ k, 0 < k → k ≤ ["(+ 1", "", "  (* 2"].length →
      OpenText (joinLines ((["(+ 1", "", "  (* 2"].take k).map trimSpace)) := by
  intro k h1 h2
  have : k = 1 ∨ k = 2 ∨ k = 3 := by simp at h2; omega
  rcases this with rfl | rfl | rfl
  · exact openTextB_sound _ [')'] (by decide +kernel)
  · exact openTextB_sound _ [')'] (by decide +kernel)
  · exact openTextB_sound _ [')', ')'] (by decide +kernel)

/-- … the whole text reads, and the run prints exactly one thing, the value 7 -/
theorem example_run :
    (match replRead (joinLines ((["(+ 1", "", "  (* 2"] ++ ["3))"]).map trimSpace)) with
     | .ok _ => true | .error _ => false) = true ∧
    observation (run initState (["(+ 1", "", "  (* 2"] ++ ["3))"])).2 = "V37" ∧
    (run initState (["(+ 1", "", "  (* 2"] ++ ["3))"])).1.lines = [] := by
  refine ⟨?_, ?_, ?_⟩ <;> decide +kernel

/-- the run of the brief's other examples: several expressions in a row, a definition used by a later line,
    blank lines in between, a stray closer, leading / trailing blanks -/
theorem example_session :
    observation (run initState ["", "  ", "(def x 5)", "\t x  ", ")", "(", "", "+ x", " 1)"]).2 =
      "V35 V35 Eunexpected:) V36" := by decide +kernel

/-- lines pending after an unfinished expression (nothing printed) -/
theorem example_pending :
    (run initState ["(+ 1", "", "(", "2"]).1.lines = ["(+ 1", "", "(", "2"] ∧
    observation (run initState ["(+ 1", "", "(", "2"]).2 = "-" := by
  refine ⟨?_, ?_⟩ <;> decide +kernel

end LispModel.ReplLoop

/-
  The evaluator does not look at source positions (property C19, `eval_ignores_positions`) and never
  invents one (property C17, `error_positions_come_from_the_ast`).

  Both follow from ONE commutation theorem over the 13 functions of the `mutual` block of
  `LispModel/Eval.lean`: for a map `g` on optional cursors that keeps `none` and commutes with "first
  position wins" (`PosMap g`), running on the `g`-image of the inputs gives the `g`-image of the outputs
  (`mapPos g` on values, `mapSt g` on states, `mapErr g` on errors — payload and position).
  `g = fun _ => none` is the erasure of all cursors; `g = Option.map h` relabels them.

  The first part of the file repeats the *arm equations* of `evalLoop` (one unconditional rewriting lemma
  per branch of the loop body; the body is too big for `split`/`simp` as a whole) with the vocabulary
  they need, in this file's own namespace (same statements as in Proofs/EvalBasic.lean, on which this
  file deliberately does not depend).
  Core Lean only.
-/
import LispModel.Eval
namespace LispModel.Proofs.EvalErase
open LispModel LispModel.Core

/-! ### vocabulary -/

/-- one poll of `ctx.Done()` on a context that is not cancelled: only the poll counter moves -/
def tick (st : State) : State := { st with ticks := st.ticks + 1 }

/-- the symbol `s` is not bound to a macro in scope `env` (nor in any scope around it).
    jig/lisp looks the head symbol up as a macro *before* it recognises special forms, so a user macro
    named `if` shadows the special form: every law of evaluation carries this side condition. -/
def NotMacro (st : State) (env : Nat) (s : String) : Prop :=
  ∀ ps b e p, st.get env s ≠ some (.fn ps b e true p)

/-- the head of a form is not a symbol bound to a macro -/
def HeadNotMacro (st : State) (env : Nat) : Val → Prop
  | .sym s _ => NotMacro st env s
  | _ => True

/-- the name the loop dispatches on (`a0sym` of the loop body) -/
def a0sym : Val → String
  | .sym s _ => s
  | _ => "__<*fn>__"

/-- the `continue` of the loop (`continueWith` of the loop body): without debugger the next iteration
    of the same activation, with debugger a fresh `EVAL` -/
def continueWith (F : Nat) (st : State) (env : Nat) (ast : Val) (d : Nat) : R :=
  match st.stepper with
  | none => evalLoop F st env ast d
  | some _ => eval F st env ast (d + 1)

/-- the `catch` stage of the `try` arm of the loop body: `r`, `st` = outcome of the body forms -/
def tryCatch (F : Nat) (parts : TryParts) (env d : Nat) (r : Res Val) (st : State) : R :=
  match r with
  | .ok v => (.ok v, st)
  | .oof => (.oof, st)
  | .err e =>
    (match parts.catchDo, parts.catchBind with
     | some handler, some bind =>
       (match bindParams (.list [bind] none) [caughtValue e] with
        | .error be => (.err be, st)
        | .ok data => doForms F (st.newScope env data).1 (st.newScope env data).2 handler 0 false d)
     | _, _ => (.err e, st))

/-- the deferred `finally` stage of the `try` arm: `r`, `st` = outcome after the `catch` stage -/
def tryFinally (F : Nat) (parts : TryParts) (env d : Nat) (r : Res Val) (st : State) : R :=
  match r with
  | .oof => (.oof, st)
  | _ =>
    match parts.finallyDo with
    | none => (r, outing1Defer st)
    | some fin =>
      match doForms F st env fin 0 false d with
      | (.oof, st) => (.oof, st)
      | (_, st) => (r, st)

/-- the Stepper prologue of `EVAL`: the flags after the callback, and whether it answered `next` -/
def stepPrologue (sp : Stepper) (ast : Val) : Stepper × Bool :=
  if !sp.skip then
    let cmd := sp.script.headD .noop
    let sp := { sp with script := sp.script.tail, calls := ast :: sp.calls }
    match cmd with
    | .next => ({ sp with skip := true }, true)
    | .stepIn => ({ sp with skip := false, outing1 := false }, false)
    | .stepOut => ({ sp with skip := true, outing1 := true }, false)
    | .noop => (sp, false)
  else (sp, false)

/-- the deferred flag resets of `EVAL` -/
def stepEpilogue (hadOuting2 isNext : Bool) (st' : State) : State :=
  match st'.stepper with
  | none => st'
  | some sp' =>
    let sp' := if hadOuting2 then { sp' with skip := false, outing2 := false } else sp'
    let sp' := if isNext then { sp' with skip := false } else sp'
    { st' with stepper := some sp' }

/-! ### arm equations of `evalLoop` -/

section arms
variable {F : Nat} {st s0 s1 : State} {env d : Nat} {ast ast' a0 : Val} {xs ops : List Val}
  {p p' : Option Pos} {e : Err}

theorem evalLoop_timeout (hp : st.poll = (true, s0)) :
    evalLoop (F+1) st env ast d = (.err (timeoutErr ast), s0) := by
  rw [evalLoop.eq_2]; simp (maxSteps := 10000000) only [hp, ↓reduceIte]

theorem evalLoop_nonlist (hp : st.poll = (false, s0)) (hl : ∀ xs p, ast ≠ .list xs p) :
    evalLoop (F+1) st env ast d = evalAst F s0 env ast d := by
  rw [evalLoop.eq_2]
  cases ast <;> first | (exact absurd rfl (hl _ _)) | simp (maxSteps := 10000000) only [hp, Bool.false_eq_true, ↓reduceIte]

theorem evalLoop_mac_err (hp : st.poll = (false, s0))
    (hm : macroexpand F s0 env (.list xs p) d = (.err e, s1)) :
    evalLoop (F+1) st env (.list xs p) d = (.err e, s1) := by
  rw [evalLoop.eq_2]; simp (maxSteps := 10000000) only [hp, hm, Bool.false_eq_true, ↓reduceIte]

theorem evalLoop_mac_oof (hp : st.poll = (false, s0))
    (hm : macroexpand F s0 env (.list xs p) d = (.oof, s1)) :
    evalLoop (F+1) st env (.list xs p) d = (.oof, s1) := by
  rw [evalLoop.eq_2]; simp (maxSteps := 10000000) only [hp, hm, Bool.false_eq_true, ↓reduceIte]

theorem evalLoop_mac_nonlist (hp : st.poll = (false, s0))
    (hm : macroexpand F s0 env (.list xs p) d = (.ok ast', s1)) (hl : ∀ xs p, ast' ≠ .list xs p) :
    evalLoop (F+1) st env (.list xs p) d = evalAst F s1 env ast' d := by
  rw [evalLoop.eq_2]
  cases ast' <;> first | (exact absurd rfl (hl _ _)) | simp (maxSteps := 10000000) only [hp, hm, Bool.false_eq_true, ↓reduceIte]

theorem evalLoop_mac_empty (hp : st.poll = (false, s0))
    (hm : macroexpand F s0 env (.list xs p) d = (.ok (.list [] p'), s1)) :
    evalLoop (F+1) st env (.list xs p) d = (.ok (.list [] p'), s1) := by
  rw [evalLoop.eq_2]; simp (maxSteps := 10000000) only [hp, hm, Bool.false_eq_true, ↓reduceIte]

/-- proof script shared by the special-form arms -/
local macro "arm_tac" hp:ident hm:ident ha:ident : tactic => `(tactic|
  (rw [evalLoop.eq_2]
   cases ‹Val› <;> simp only [a0sym] at $ha:ident <;> first | (exact absurd $ha (by decide)) | skip
   subst $ha
   simp (maxSteps := 10000000) only [$hp:ident, $hm:ident, Bool.false_eq_true, ↓reduceIte, String.reduceEq]
   try rfl))

theorem evalLoop_def (hp : st.poll = (false, s0))
    (hm : macroexpand F s0 env (.list xs p) d = (.ok (.list (a0 :: ops) p'), s1))
    (ha : a0sym a0 = "def") :
    evalLoop (F+1) st env (.list xs p) d =
      match eval F s1 env (ops.getD 1 .nil) (d+1) with
      | (.ok res, s2) =>
        (match ops.getD 0 .nil with
         | .sym name _ => (.ok res, s2.set env name res)
         | _ => (.err (newLispError (.plain "cannot use value as identifier") (.list (a0 :: ops) p')), s2))
      | r => r := by
  arm_tac hp hm ha

theorem evalLoop_let (hp : st.poll = (false, s0))
    (hm : macroexpand F s0 env (.list xs p) d = (.ok (.list (a0 :: ops) p'), s1))
    (ha : a0sym a0 = "let") :
    evalLoop (F+1) st env (.list xs p) d =
      match seqOf? (ops.getD 0 .nil) with
      | none => (.err (.plain "GetSlice called on non-sequence"), (s1.newScope env []).1)
      | some arr1 =>
        if arr1.length % 2 ≠ 0 then
          (.err (newLispError (.plain "let: odd elements on binding vector") (ops.getD 0 .nil)), (s1.newScope env []).1)
        else
          match letBinds F (s1.newScope env []).1 (s1.newScope env []).2 arr1 (ops.getD 0 .nil) d with
          | (.ok _, s2) =>
            (match doForms F s2 (s1.newScope env []).2 (a0 :: ops) 2 true d with
             | (.ok next, s3) => continueWith F s3 (s1.newScope env []).2 next d
             | r => r)
          | r => r := by
  arm_tac hp hm ha

theorem evalLoop_quote (hp : st.poll = (false, s0))
    (hm : macroexpand F s0 env (.list xs p) d = (.ok (.list (a0 :: ops) p'), s1))
    (ha : a0sym a0 = "quote") :
    evalLoop (F+1) st env (.list xs p) d = (.ok (ops.getD 0 .nil), s1) := by
  arm_tac hp hm ha

theorem evalLoop_quasiquoteexpand (hp : st.poll = (false, s0))
    (hm : macroexpand F s0 env (.list xs p) d = (.ok (.list (a0 :: ops) p'), s1))
    (ha : a0sym a0 = "quasiquoteexpand") :
    evalLoop (F+1) st env (.list xs p) d = (.ok (quasiquote (ops.getD 0 .nil)), s1) := by
  arm_tac hp hm ha

theorem evalLoop_quasiquote (hp : st.poll = (false, s0))
    (hm : macroexpand F s0 env (.list xs p) d = (.ok (.list (a0 :: ops) p'), s1))
    (ha : a0sym a0 = "quasiquote") :
    evalLoop (F+1) st env (.list xs p) d = continueWith F s1 env (quasiquote (ops.getD 0 .nil)) d := by
  arm_tac hp hm ha

theorem evalLoop_defmacro (hp : st.poll = (false, s0))
    (hm : macroexpand F s0 env (.list xs p) d = (.ok (.list (a0 :: ops) p'), s1))
    (ha : a0sym a0 = "defmacro") :
    evalLoop (F+1) st env (.list xs p) d =
      match eval F s1 env (ops.getD 1 .nil) (d + 1) with
      | (.ok f, s2) =>
        (match f with
         | .fn ps b e _ fp =>
           (match ops.getD 0 .nil with
            | .sym name _ => (.ok (Val.fn ps b e true fp), s2.set env name (Val.fn ps b e true fp))
            | _ => (.err (newLispError (.plain "cannot use value as identifier") (.list (a0 :: ops) p')), s2))
         | _ => (.err (newLispError (.plain "defmacro requires a function") (.list (a0 :: ops) p')), s2))
      | r => r := by
  arm_tac hp hm ha

theorem evalLoop_macroexpand (hp : st.poll = (false, s0))
    (hm : macroexpand F s0 env (.list xs p) d = (.ok (.list (a0 :: ops) p'), s1))
    (ha : a0sym a0 = "macroexpand") :
    evalLoop (F+1) st env (.list xs p) d = macroexpand F s1 env (ops.getD 0 .nil) d := by
  arm_tac hp hm ha

theorem evalLoop_try (hp : st.poll = (false, s0))
    (hm : macroexpand F s0 env (.list xs p) d = (.ok (.list (a0 :: ops) p'), s1))
    (ha : a0sym a0 = "try") :
    evalLoop (F+1) st env (.list xs p) d =
      if ops.isEmpty then (.ok .nil, s1) else
      match splitTry (a0 :: ops) with
      | .error msg => (.err (newLispError (.plain msg) (.list (a0 :: ops) p')), s1)
      | .ok parts =>
        tryFinally F parts env d
          (tryCatch F parts env d (doForms F s1 env parts.body 0 false d).1 (doForms F s1 env parts.body 0 false d).2).1
          (tryCatch F parts env d (doForms F s1 env parts.body 0 false d).1 (doForms F s1 env parts.body 0 false d).2).2 := by
  arm_tac hp hm ha

theorem evalLoop_do (hp : st.poll = (false, s0))
    (hm : macroexpand F s0 env (.list xs p) d = (.ok (.list (a0 :: ops) p'), s1))
    (ha : a0sym a0 = "do") :
    evalLoop (F+1) st env (.list xs p) d =
      match doForms F s1 env (a0 :: ops) 1 true d with
      | (.ok next, s2) => continueWith F s2 env next d
      | r => r := by
  arm_tac hp hm ha

theorem evalLoop_if (hp : st.poll = (false, s0))
    (hm : macroexpand F s0 env (.list xs p) d = (.ok (.list (a0 :: ops) p'), s1))
    (ha : a0sym a0 = "if") :
    evalLoop (F+1) st env (.list xs p) d =
      match eval F s1 env (ops.getD 0 .nil) (d+1) with
      | (.ok cond, s2) =>
         if truthy cond then continueWith F s2 env (ops.getD 1 .nil) d
         else if (a0 :: ops).length ≥ 4 then continueWith F s2 env ((a0 :: ops).getD 3 .nil) d
         else (.ok .nil, s2)
      | r => r := by
  arm_tac hp hm ha

theorem evalLoop_fn (hp : st.poll = (false, s0))
    (hm : macroexpand F s0 env (.list xs p) d = (.ok (.list (a0 :: ops) p'), s1))
    (ha : a0sym a0 = "fn") :
    evalLoop (F+1) st env (.list xs p) d =
      if (a0 :: ops).length < 2 then
        (.err (newLispError (.plain "fn requires a parameter list") (.list (a0 :: ops) p')), s1)
      else (.ok (.fn (ops.getD 0 .nil) (.list (.sym "do" none :: (a0 :: ops).drop 2) none) env false p'), s1) := by
  arm_tac hp hm ha

theorem evalLoop_app (hp : st.poll = (false, s0))
    (hm : macroexpand F s0 env (.list xs p) d = (.ok (.list (a0 :: ops) p'), s1))
    (ha : a0sym a0 ∉ specialForms) :
    evalLoop (F+1) st env (.list xs p) d =
      match evalList F s1 env (a0 :: ops) d with
      | (.ok el, st) =>
        (match el with
         | [] => (.err (.plain "empty application"), st)
         | f :: args =>
           match f with
           | .fn params body fenv _ _ =>
             (match bindParams params args with
              | .error e =>
                (match e with
                 | .lisp (.goerr m) _ => (.err (.lisp (.goerr (m ++ " (around do)")) none), st)
                 | e => (.err (newLispError e body), st))
              | .ok data => continueWith F (st.newScope fenv data).1 (st.newScope fenv data).2 body d)
           | .builtin name =>
             (match callBuiltin F st name args d with
              | (.ok v, st) => (.ok v, st)
              | (.err e, st) => (.err (newLispError e (.list (a0 :: ops) p')), st)
              | (.oof, st) => (.oof, st))
           | _ => (.err (.lisp (.goerr "attempt to call non-function") none), st))
      | (.err e, st) => (.err e, st)
      | (.oof, st) => (.oof, st) := by
  rw [evalLoop.eq_2]
  simp only [specialForms, List.mem_cons, List.not_mem_nil, or_false, not_or] at ha
  obtain ⟨h1, h2, h3, h4, h5, h6, h7, h8, h9, h10, h11⟩ := ha
  cases a0 <;> simp only [a0sym] at h1 h2 h3 h4 h5 h6 h7 h8 h9 h10 h11 <;>
  simp (maxSteps := 10000000) only [hp, hm, Bool.false_eq_true, ↓reduceIte,
    h1, h2, h3, h4, h5, h6, h7, h8, h9, h10, h11] <;> rfl

end arms

/-! ### mapping cursors -/

mutual
/-- apply `g` to every cursor of a value (symbols, lists, vectors, closures — recursively, including the
    parameters and body of closures and the values of hash-maps) -/
def mapPos (g : Option Pos → Option Pos) : Val → Val
  | .sym s p => .sym s (g p)
  | .list xs p => .list (mapPosList g xs) (g p)
  | .vec xs p => .vec (mapPosList g xs) (g p)
  | .map kvs => .map (mapPosMap g kvs)
  | .fn ps b e m p => .fn (mapPos g ps) (mapPos g b) e m (g p)
  | .nil => .nil
  | .bool b => .bool b
  | .int i => .int i
  | .str s => .str s
  | .set ks => .set ks
  | .builtin n => .builtin n
  | .atom i => .atom i
  | .future i => .future i
  | .goerr m => .goerr m
  | .opaque t => .opaque t
def mapPosList (g : Option Pos → Option Pos) : List Val → List Val
  | [] => []
  | x :: xs => mapPos g x :: mapPosList g xs
def mapPosMap (g : Option Pos → Option Pos) : List (String × Val) → List (String × Val)
  | [] => []
  | (k, v) :: r => (k, mapPos g v) :: mapPosMap g r
end

/-- all cursors ↦ none -/
def erasePos : Val → Val := mapPos (fun _ => none)

/-- `NewLispError`: the first position wins -/
def firstPos (o c : Option Pos) : Option Pos :=
  match o with
  | none => c
  | some p => some p

/-- the maps on cursors the evaluator commutes with: "no cursor" stays "no cursor", and `g` commutes
    with "first position wins".  Instances: erasure, and every relabelling `Option.map h`. -/
structure PosMap (g : Option Pos → Option Pos) : Prop where
  none : g none = none
  first : ∀ o c, g (firstPos o c) = firstPos (g o) (g c)

theorem posMap_erase : PosMap (fun _ => none) := ⟨rfl, fun _ _ => rfl⟩
theorem posMap_map (h : Pos → Pos) : PosMap (Option.map h) :=
  ⟨rfl, fun o c => by cases o <;> rfl⟩

def mapErr (g : Option Pos → Option Pos) : Err → Err
  | .lisp p pos => .lisp (mapPos g p) (g pos)
  | .plain m => .plain m

def mapRes {α} (f : α → α) (g : Option Pos → Option Pos) : Res α → Res α
  | .ok a => .ok (f a)
  | .err e => .err (mapErr g e)
  | .oof => .oof

def mapScope (g : Option Pos → Option Pos) (sc : Scope) : Scope := ⟨mapPosMap g sc.data, sc.outer⟩

def mapStepper (g : Option Pos → Option Pos) (sp : Stepper) : Stepper :=
  { sp with calls := mapPosList g sp.calls }

/-- apply `g` to every cursor of the state: scopes, atoms, the trace, the forms the debugger saw -/
def mapSt (g : Option Pos → Option Pos) (st : State) : State :=
  { st with scopes := st.scopes.map (mapScope g), atoms := st.atoms.map (mapPos g),
            trace := mapPosList g st.trace, stepper := st.stepper.map (mapStepper g) }

/-- results of the value-returning functions -/
def mapR (g : Option Pos → Option Pos) (r : R) : R := (mapRes (mapPos g) g r.1, mapSt g r.2)
/-- results of `evalList` / `mapLoop` -/
def mapRL (g : Option Pos → Option Pos) (r : Res (List Val) × State) : Res (List Val) × State :=
  (mapRes (mapPosList g) g r.1, mapSt g r.2)
/-- results of `evalMap` -/
def mapRM (g : Option Pos → Option Pos) (r : Res (List (String × Val)) × State) :
    Res (List (String × Val)) × State :=
  (mapRes (mapPosMap g) g r.1, mapSt g r.2)

theorem mapPosList_eq (g) (xs : List Val) : mapPosList g xs = xs.map (mapPos g) := by
  induction xs with
  | nil => rfl
  | cons x xs ih => simp [mapPosList, ih]

theorem mapPosMap_eq (g) (m : List (String × Val)) :
    mapPosMap g m = m.map (fun kv => (kv.1, mapPos g kv.2)) := by
  induction m with
  | nil => rfl
  | cons kv m ih => obtain ⟨k, v⟩ := kv; simp [mapPosMap, ih]

section pure
variable {g : Option Pos → Option Pos} (hg : PosMap g)

@[simp] theorem mapPosList_nil (g) : mapPosList g [] = [] := rfl
@[simp] theorem mapPosList_cons (g) (x : Val) (xs) : mapPosList g (x :: xs) = mapPos g x :: mapPosList g xs := rfl
@[simp] theorem mapPosList_length (g) (xs : List Val) : (mapPosList g xs).length = xs.length := by
  rw [mapPosList_eq]; simp
theorem mapPosList_append (g) (xs ys : List Val) :
    mapPosList g (xs ++ ys) = mapPosList g xs ++ mapPosList g ys := by
  simp [mapPosList_eq]
theorem mapPosList_getD (g) (xs : List Val) (n : Nat) :
    (mapPosList g xs).getD n .nil = mapPos g (xs.getD n .nil) := by
  induction xs generalizing n with
  | nil => simp [mapPos]
  | cons x xs ih =>
    cases n with
    | zero => simp
    | succ n => simpa [List.getD] using ih n
theorem mapPosList_drop (g) (xs : List Val) (n : Nat) :
    (mapPosList g xs).drop n = mapPosList g (xs.drop n) := by simp [mapPosList_eq]
theorem mapPosList_take (g) (xs : List Val) (n : Nat) :
    (mapPosList g xs).take n = mapPosList g (xs.take n) := by simp [mapPosList_eq]
theorem mapPosList_dropLast (g) (xs : List Val) :
    (mapPosList g xs).dropLast = mapPosList g xs.dropLast := by simp [mapPosList_eq]
theorem mapPosList_getLast? (g) (xs : List Val) :
    (mapPosList g xs).getLast? = xs.getLast?.map (mapPos g) := by simp [mapPosList_eq]
theorem mapPosList_getLastD (g) (xs : List Val) :
    (mapPosList g xs).getLast?.getD .nil = mapPos g (xs.getLast?.getD .nil) := by
  rw [mapPosList_getLast?]; cases xs.getLast? <;> simp [mapPos]
theorem mapPosList_isEmpty (g) (xs : List Val) : (mapPosList g xs).isEmpty = xs.isEmpty := by
  cases xs <;> rfl

include hg in
theorem getPosition_map (v : Val) : getPosition (mapPos g v) = g (getPosition v) := by
  cases v <;> simp [mapPos, getPosition, hg.none]

include hg in
theorem newLispError_map (e : Err) (c : Val) :
    newLispError (mapErr g e) (mapPos g c) = mapErr g (newLispError e c) := by
  cases e with
  | plain m => simp [mapErr, newLispError, getPosition_map hg, mapPos]
  | lisp p pos =>
    cases pos with
    | none => simp [mapErr, newLispError, getPosition_map hg, hg.none]
    | some q =>
      have h := hg.first (some q) (getPosition c)
      simp only [firstPos] at h
      simp only [mapErr, newLispError]
      cases hq : g (some q) with
      | some q' => rfl
      | none =>
        rw [hq] at h
        simp only [getPosition_map hg]
        have h' : none = g (getPosition c) := h
        rw [← h']

theorem caughtValue_map (e : Err) : caughtValue (mapErr g e) = mapPos g (caughtValue e) := by
  cases e <;> simp [mapErr, caughtValue, mapPos]

theorem seqOf_map (v : Val) : seqOf? (mapPos g v) = (seqOf? v).map (mapPosList g) := by
  cases v <;> simp [mapPos, seqOf?]

theorem truthy_map (v : Val) : truthy (mapPos g v) = truthy v := by
  cases v <;> simp [mapPos, truthy]

theorem firstSym_map (v : Val) : firstSym (mapPos g v) = firstSym v := by
  cases v with
  | list xs p =>
    cases xs with
    | nil => rfl
    | cons x xs => cases x <;> simp [mapPos, firstSym]
  | _ => simp [mapPos, firstSym]

theorem a0sym_map (v : Val) : a0sym (mapPos g v) = a0sym v := by
  cases v <;> simp [mapPos, a0sym]

end pure

section pure2
variable {g : Option Pos → Option Pos} (hg : PosMap g)

theorem alookup_map (k : String) (m : List (String × Val)) :
    alookup k (mapPosMap g m) = (alookup k m).map (mapPos g) := by
  induction m with
  | nil => rfl
  | cons kv m ih =>
    obtain ⟨k', v⟩ := kv
    simp only [mapPosMap, alookup]
    split
    · rfl
    · exact ih

theorem ainsert_map (k : String) (v : Val) (m : List (String × Val)) :
    ainsert k (mapPos g v) (mapPosMap g m) = mapPosMap g (ainsert k v m) := by
  induction m with
  | nil => rfl
  | cons kv m ih =>
    obtain ⟨k', v'⟩ := kv
    simp only [mapPosMap, ainsert]
    split
    · rfl
    · simp only [mapPosMap, ih]

theorem mapPos_eq_sym {v : Val} {s : String} {p' : Option Pos} (h : mapPos g v = .sym s p') :
    ∃ p, v = .sym s p := by
  cases v <;> simp [mapPos] at h
  exact ⟨_, by rw [h.1]⟩

theorem mapPos_eq_list {v : Val} {ys : List Val} {p' : Option Pos} (h : mapPos g v = .list ys p') :
    ∃ xs p, v = .list xs p ∧ mapPosList g xs = ys := by
  cases v <;> simp [mapPos] at h
  exact ⟨_, _, rfl, h.1⟩

theorem mapPosList_eq_cons {xs : List Val} {y : Val} {ys : List Val} (h : mapPosList g xs = y :: ys) :
    ∃ x xs', xs = x :: xs' ∧ mapPos g x = y ∧ mapPosList g xs' = ys := by
  cases xs with
  | nil => cases h
  | cons x xs' => simp at h; exact ⟨x, xs', rfl, h.1, h.2⟩

theorem mapPosList_eq_nil {xs : List Val} (h : mapPosList g xs = []) : xs = [] := by
  cases xs with
  | nil => rfl
  | cons x xs' => cases h

set_option linter.unusedSectionVars false
include hg
mutual
theorem quasiquote_map : ∀ v : Val, quasiquote (mapPos g v) = mapPos g (quasiquote v)
  | .vec xs p => by
    rw [mapPos, quasiquote.eq_1, quasiquote.eq_1, qqLoop_map xs]; simp [mapPos, hg.none]
  | .map m => by rw [mapPos, quasiquote.eq_2, quasiquote.eq_2]; simp [mapPos, hg.none]
  | .sym s p => by rw [mapPos, quasiquote.eq_3, quasiquote.eq_3]; simp [mapPos, hg.none]
  | .list xs p => by
    rw [mapPos]
    by_cases hA : ∃ pos x tail, xs = Val.sym "unquote" pos :: x :: tail
    · obtain ⟨pos, x, tail, rfl⟩ := hA
      simp only [mapPosList_cons, mapPos]
      rw [quasiquote.eq_5, quasiquote.eq_5]
    by_cases hB : ∃ pos, xs = [Val.sym "unquote" pos]
    · obtain ⟨pos, rfl⟩ := hB
      have := qqLoop_map [Val.sym "unquote" pos]
      simp only [mapPosList_cons, mapPos, mapPosList_nil] at this ⊢
      rw [quasiquote.eq_4, quasiquote.eq_4, this]
    · rw [quasiquote.eq_6, quasiquote.eq_6, qqLoop_map xs]
      · intro pos hx; exact hB ⟨pos, hx⟩
      · intro pos x tail hx; exact hA ⟨_, _, _, hx⟩
      · intro pos hx
        obtain ⟨x, xs', rfl, h1, h2⟩ := mapPosList_eq_cons hx
        obtain ⟨q, rfl⟩ := mapPos_eq_sym h1
        rw [mapPosList_eq_nil h2] at hB
        exact hB ⟨q, rfl⟩
      · intro pos y tail hx
        obtain ⟨x, xs', rfl, h1, h2⟩ := mapPosList_eq_cons hx
        obtain ⟨x2, xs2, rfl, _, _⟩ := mapPosList_eq_cons h2
        obtain ⟨q, rfl⟩ := mapPos_eq_sym h1
        exact hA ⟨_, _, _, rfl⟩
  | .nil => rfl
  | .bool _ => rfl
  | .int _ => rfl
  | .str _ => rfl
  | .set _ => rfl
  | .fn .. => by
    rw [mapPos, quasiquote.eq_7, quasiquote.eq_7, mapPos] <;> (intros; rename_i h; cases h)
  | .builtin _ => rfl
  | .atom _ => rfl
  | .future _ => rfl
  | .goerr _ => rfl
  | .opaque _ => rfl
theorem qqLoop_map : ∀ xs : List Val, qqLoop (mapPosList g xs) = mapPos g (qqLoop xs)
  | [] => by rw [mapPosList, qqLoop.eq_1]; simp [mapPos, hg.none]
  | e :: es => by
    rw [mapPosList]
    by_cases hS : ∃ pos x tail pos1, e = .list (Val.sym "splice-unquote" pos :: x :: tail) pos1
    · obtain ⟨pos, x, tail, pos1, rfl⟩ := hS
      simp only [mapPos, mapPosList_cons]
      rw [qqLoop.eq_2, qqLoop.eq_2, qqLoop_map es]
      simp [mapPos, hg.none]
    · rw [qqLoop.eq_3, qqLoop.eq_3, qqLoop_map es, quasiquote_map e]
      · simp [mapPos, hg.none]
      · intro pos x tail pos1 hx; exact hS ⟨_, _, _, _, hx⟩
      · intro pos y tail pos1 hx
        obtain ⟨xs, p, rfl, h1⟩ := mapPos_eq_list hx
        obtain ⟨x1, xs1, rfl, h2, h3⟩ := mapPosList_eq_cons h1
        obtain ⟨x2, xs2, rfl, _, _⟩ := mapPosList_eq_cons h3
        obtain ⟨q, rfl⟩ := mapPos_eq_sym h2
        exact hS ⟨_, _, _, _, rfl⟩
end

end pure2

section binds
variable {g : Option Pos → Option Pos} (hg : PosMap g)

/-- `g`-image of the outcome of parameter binding -/
def mapBind (g : Option Pos → Option Pos) : Except Err (List (String × Val)) → Except Err (List (String × Val))
  | .ok data => .ok (mapPosMap g data)
  | .error e => .error (mapErr g e)

include hg in
theorem bindLoop_map : ∀ (bs exprs : List Val) (nb ne : Nat) (acc : List (String × Val)),
    bindLoop (mapPosList g bs) (mapPosList g exprs) nb ne (mapPosMap g acc) =
      mapBind g (bindLoop bs exprs nb ne acc) := by
  intro bs
  induction bs with
  | nil =>
    intro exprs nb ne acc
    simp only [mapPosList_nil, bindLoop, mapPosList_isEmpty]
    split <;> simp [mapBind, mapErr, mapPos, hg.none]
  | cons b bs ih =>
    intro exprs nb ne acc
    rw [mapPosList_cons]
    by_cases hb : ∃ s p, b = .sym s p
    · obtain ⟨s, p, rfl⟩ := hb
      rw [mapPos]
      by_cases hs : s = "&"
      · subst hs
        by_cases hn : ∃ name q tail, bs = Val.sym name q :: tail
        · obtain ⟨name, q, tail, rfl⟩ := hn
          simp only [mapPosList_cons, mapPos]
          rw [bindLoop.eq_2, bindLoop.eq_2]
          simp only [mapBind, ← ainsert_map, mapPos, hg.none]
        · rw [bindLoop.eq_3, bindLoop.eq_3]
          · simp [mapBind, mapErr, mapPos, hg.none]
          · intro name q tail h; exact hn ⟨_, _, _, h⟩
          · intro name q tail h
            obtain ⟨x, xs', rfl, h1, _⟩ := mapPosList_eq_cons h
            obtain ⟨q', rfl⟩ := mapPos_eq_sym h1
            exact hn ⟨_, _, _, rfl⟩
      · cases exprs with
        | nil =>
          rw [mapPosList_nil, bindLoop.eq_4 _ _ _ _ _ _ hs, bindLoop.eq_4 _ _ _ _ _ _ hs]
          simp [mapBind, mapErr, mapPos, hg.none]
        | cons e es =>
          rw [mapPosList_cons, bindLoop.eq_5 _ _ _ _ _ _ _ _ hs, bindLoop.eq_5 _ _ _ _ _ _ _ _ hs, ainsert_map]
          exact ih _ _ _ _
    · have h1 : ∀ s p, b = .sym s p → False := fun s p h => hb ⟨s, p, h⟩
      have h2 : ∀ s p, mapPos g b = .sym s p → False := by
        intro s p h; obtain ⟨q, hq⟩ := mapPos_eq_sym h; exact h1 _ _ hq
      rw [bindLoop.eq_6 _ _ _ _ _ _ (fun p h => h2 _ p h) (fun s p h => h2 s p h),
        bindLoop.eq_6 _ _ _ _ _ _ (fun p h => h1 _ p h) (fun s p h => h1 s p h)]
      simp [mapBind, mapErr, mapPos, hg.none]

include hg in
theorem bindParams_map (params : Val) (args : List Val) :
    bindParams (mapPos g params) (mapPosList g args) = mapBind g (bindParams params args) := by
  cases params with
  | list bs p =>
    have := bindLoop_map hg bs args bs.length args.length []
    simpa only [mapPos, bindParams, mapPosList_length, mapPosMap] using this
  | vec bs p =>
    have := bindLoop_map hg bs args bs.length args.length []
    simpa only [mapPos, bindParams, mapPosList_length, mapPosMap] using this
  | _ => simp [mapPos, bindParams, mapBind, mapErr, mapPosMap]

end binds

section trysplit
variable {g : Option Pos → Option Pos}

def mapParts (g : Option Pos → Option Pos) (p : TryParts) : TryParts :=
  { body := mapPosList g p.body, catchBind := p.catchBind.map (mapPos g),
    catchDo := p.catchDo.map (mapPosList g), finallyDo := p.finallyDo.map (mapPosList g) }

/-- the `clause` helper of `splitTry` -/
def tryClause (c : Val) : Except String (Val × List Val) :=
  match c with
  | .list (_ :: b :: d) _ => if d.isEmpty then .error "catch must have 2 arguments at least" else .ok (b, d)
  | _ => .error "catch must have 2 arguments at least"

def finOf (last : Val) : List Val := match last with | .list (_ :: f) _ => f | _ => []

theorem splitTry_eq (lst : List Val) :
    splitTry lst =
      (let n := lst.length
       let last := lst.getLast?.getD .nil
       let prelast := if n ≥ 3 then lst.getD (n - 2) .nil else .nil
       if firstSym last = "catch" then
         match tryClause last with
         | .error m => .error m
         | .ok (b, d) => .ok { body := (lst.drop 1).take (n - 2), catchBind := some b, catchDo := some d }
       else if firstSym last = "finally" then
         if firstSym prelast = "catch" then
           match tryClause prelast with
           | .error m => .error m
           | .ok (b, d) => .ok { body := (lst.drop 1).take (n - 3), catchBind := some b, catchDo := some d, finallyDo := some (finOf last) }
         else .ok { body := (lst.drop 1).take (n - 2), finallyDo := some (finOf last) }
       else .ok { body := lst.drop 1 }) := rfl

theorem tryClause_map (c : Val) :
    tryClause (mapPos g c) =
      match tryClause c with
      | .error m => .error m
      | .ok (b, d) => .ok (mapPos g b, mapPosList g d) := by
  cases c with
  | list xs p =>
    match xs with
    | [] => rfl
    | [_] => rfl
    | a :: b :: d =>
      simp only [mapPos, mapPosList_cons, tryClause, mapPosList_isEmpty]
      split <;> rfl
  | _ => rfl

theorem finOf_map (c : Val) : finOf (mapPos g c) = mapPosList g (finOf c) := by
  cases c with
  | list xs p => cases xs <;> rfl
  | _ => rfl

def mapSplit (g : Option Pos → Option Pos) : Except String TryParts → Except String TryParts
  | .ok p => .ok (mapParts g p)
  | .error m => .error m

theorem splitTry_map (lst : List Val) : splitTry (mapPosList g lst) = mapSplit g (splitTry lst) := by
  rw [splitTry_eq, splitTry_eq]
  simp only [mapPosList_length, mapPosList_getLastD]
  have hpre : (if lst.length ≥ 3 then (mapPosList g lst).getD (lst.length - 2) .nil else .nil) =
      mapPos g (if lst.length ≥ 3 then lst.getD (lst.length - 2) .nil else .nil) := by
    split
    · exact mapPosList_getD _ _ _
    · rfl
  rw [hpre]
  generalize (if lst.length ≥ 3 then lst.getD (lst.length - 2) .nil else .nil) = prelast
  generalize lst.getLast?.getD .nil = last
  simp only [firstSym_map, tryClause_map, finOf_map, mapPosList_drop, mapPosList_take]
  split
  · cases tryClause last with
    | error m => rfl
    | ok bd => obtain ⟨b, d⟩ := bd; rfl
  split
  · split
    · cases tryClause prelast with
      | error m => rfl
      | ok bd => obtain ⟨b, d⟩ := bd; rfl
    · rfl
  · rfl

end trysplit

section stateops
variable {g : Option Pos → Option Pos}

theorem mapSt_scope? (st : State) (id : Nat) :
    (mapSt g st).scope? id = (st.scope? id).map (mapScope g) := by
  simp [mapSt, State.scope?]

theorem mapSt_getAux (st : State) : ∀ n id k,
    (mapSt g st).getAux n id k = (st.getAux n id k).map (mapPos g) := by
  intro n
  induction n with
  | zero => intro id k; rfl
  | succ n ih =>
    intro id k
    simp only [State.getAux, mapSt_scope?]
    cases st.scope? id with
    | none => rfl
    | some sc =>
      simp only [Option.map_some, mapScope, alookup_map]
      cases alookup k sc.data with
      | some v => rfl
      | none =>
        simp only [Option.map_none]
        cases sc.outer with
        | none => rfl
        | some o => exact ih o k

theorem mapSt_get (st : State) (env : Nat) (k : String) :
    (mapSt g st).get env k = (st.get env k).map (mapPos g) := by
  unfold State.get
  rw [mapSt_getAux]
  simp [mapSt]

theorem mapSt_set (st : State) (env : Nat) (k : String) (v : Val) :
    (mapSt g st).set env k (mapPos g v) = mapSt g (st.set env k v) := by
  unfold State.set
  rw [mapSt_scope?]
  cases h : st.scope? env with
  | none => rfl
  | some sc =>
    simp only [Option.map_some, mapSt, mapScope, ainsert_map]
    congr 1
    rw [Array.map_setIfInBounds]; rfl

theorem mapSt_newScope (st : State) (outer : Nat) (data : List (String × Val)) :
    (mapSt g st).newScope outer (mapPosMap g data) =
      (mapSt g (st.newScope outer data).1, (st.newScope outer data).2) := by
  simp [State.newScope, mapSt, mapScope]

theorem mapSt_newAtom (st : State) (v : Val) :
    (mapSt g st).newAtom (mapPos g v) = (mapSt g (st.newAtom v).1, (st.newAtom v).2) := by
  simp [State.newAtom, mapSt]

theorem mapSt_poll (st : State) : (mapSt g st).poll = (st.poll.1, mapSt g st.poll.2) := rfl

theorem mapSt_stepper (st : State) : (mapSt g st).stepper = st.stepper.map (mapStepper g) := rfl

theorem outing1Defer_map (st : State) : outing1Defer (mapSt g st) = mapSt g (outing1Defer st) := by
  unfold outing1Defer
  rw [mapSt_stepper]
  cases h : st.stepper with
  | none => rfl
  | some sp =>
    simp only [Option.map_some, mapStepper]
    split
    · simp [mapSt, mapStepper]
    · rfl

end stateops

/-! ### the pure builtins, name by name (`rfl`-unfoldings of `Core.body`, generated from its source) -/
section bodyeq
set_option autoImplicit true
set_option relaxedAutoImplicit true
theorem bodyEq_add : body "+" ([.int x, .int y]) =
    (.ok (.int (x + y))) := rfl
theorem bodyEq_sub : body "-" ([.int x, .int y]) =
    (.ok (.int (x - y))) := rfl
theorem bodyEq_mul : body "*" ([.int x, .int y]) =
    (.ok (.int (x * y))) := rfl
theorem bodyEq_div : body "/" ([.int x, .int y]) =
    (if y = 0 then .goerr "runtime error: integer divide by zero" else .ok (.int (Int.tdiv x y))) := rfl
theorem bodyEq_lt : body "<" ([.int x, .int y]) =
    (bool (x < y)) := rfl
theorem bodyEq_le : body "<=" ([.int x, .int y]) =
    (bool (x ≤ y)) := rfl
theorem bodyEq_gt : body ">" ([.int x, .int y]) =
    (bool (x > y)) := rfl
theorem bodyEq_ge : body ">=" ([.int x, .int y]) =
    (bool (x ≥ y)) := rfl
theorem bodyEq_eq : body "=" ([x, y]) =
    (bool (equalQ x y)) := rfl
theorem bodyEq_throw : body "throw" ([v]) =
    ((match v with | .goerr m => .goerr m | v => .thrown v)) := rfl
theorem bodyEq_list : body "list" (xs) =
    (.ok (.list xs none)) := rfl
theorem bodyEq_vector : body "vector" (xs) =
    (.ok (.vec xs none)) := rfl
theorem bodyEq_hash_map : body "hash-map" (xs) =
    ((match xs with
     | [] => .ok (.map [])
     | [_] => .goerr "interface conversion"
     | _ => newHashMap xs)) := rfl
theorem bodyEq_hash_set : body "hash-set" (xs) =
    (newSet xs []) := rfl
theorem bodyEq_set : body "set" ([v]) =
    ((match v with
     | .nil => .ok (.set [])
     | _ => match seqOf? v with
       | some xs => newSet xs []
       | none => .goerr "GetSlice called on non-sequence")) := rfl
theorem bodyEq_assoc : body "assoc" (xs) =
    (assoc xs) := rfl
theorem bodyEq_dissoc : body "dissoc" (xs) =
    (dissoc xs) := rfl
theorem bodyEq_get : body "get" ([h, k]) =
    (get h k) := rfl
theorem bodyEq_get_in : body "get-in" ([h, p]) =
    ((match h with
     | .nil => .ok .nil
     | _ => match p with
       | .vec path _ => getIn h path
       | _ => .goerr "get-in index must be a vector")) := rfl
theorem bodyEq_assoc_in : body "assoc-in" ([h, .vec path p0, d]) =
    (assocIn h path d) := rfl
theorem bodyEq_containsQ : body "contains?" ([h, .str k]) =
    ((match h with
     | .nil => bool false
     | .map m => bool (alookup k m).isSome
     | .set s => bool (s.contains k)
     | _ => .goerr "get called on non-hash map and a non-set")) := rfl
theorem bodyEq_keys : body "keys" ([h]) =
    ((match h with | .map m => .ok (.list (m.map (fun kv => .str kv.1)) none) | _ => .goerr "keys called on non-hash map")) := rfl
theorem bodyEq_vals : body "vals" ([h]) =
    ((match h with | .map m => .ok (.list (m.map (·.2)) none) | _ => .goerr "vals called on non-hash map")) := rfl
theorem bodyEq_merge : body "merge" ([x, y]) =
    ((match x, y with
     | .nil, .nil => .ok .nil
     | .nil, .map m => .ok (.map (m.foldl (fun acc kv => ainsert kv.1 kv.2 acc) []))
     | .map m, .nil => .ok (.map (m.foldl (fun acc kv => ainsert kv.1 kv.2 acc) []))
     | .map m1, .map m2 => .ok (.map (m2.foldl (fun acc kv => ainsert kv.1 kv.2 acc) m1))
     | _, _ => .goerr "expected hash map")) := rfl
theorem bodyEq_rename_keys : body "rename-keys" ([.map d, .map alt]) =
    (renameKeys d alt) := rfl
theorem bodyEq_cons : body "cons" ([x, s]) =
    ((match seqOf? s with | some xs => .ok (.list (x :: xs) none) | none => .goerr "GetSlice called on non-sequence")) := rfl
theorem bodyEq_concat : body "concat" (xs) =
    ((match xs with
     | [] => .ok (.list [] none)
     | _ => if xs.all (fun x => (seqOf? x).isSome) then .ok (.list (xs.flatMap (fun x => (seqOf? x).getD [])) none)
            else .goerr "GetSlice called on non-sequence")) := rfl
theorem bodyEq_vec : body "vec" ([s]) =
    ((match s with
     | .set ks => .ok (.vec (ks.map .str) none)
     | .list xs _ => .ok (.vec xs none)
     | .vec xs _ => .ok (.vec xs none)
     | _ => .goerr "cannot convert from type")) := rfl
theorem bodyEq_nth : body "nth" ([s, .int i]) =
    ((match seqOf? s with
     | none => .goerr "GetSlice called on non-sequence"
     | some xs =>
       if i < 0 then .goerr "runtime error: index out of range"
       else if i.toNat < xs.length then .ok (xs.getD i.toNat .nil) else .goerr "nth: index out of range")) := rfl
theorem bodyEq_first : body "first" ([s]) =
    ((match s with
     | .nil => .ok .nil
     | _ => match seqOf? s with
       | none => .goerr "GetSlice called on non-sequence"
       | some xs => .ok (xs.headD .nil))) := rfl
theorem bodyEq_rest : body "rest" ([s]) =
    ((match s with
     | .nil => .ok (.list [] none)
     | _ => match seqOf? s with
       | none => .goerr "GetSlice called on non-sequence"
       | some xs => .ok (.list xs.tail none))) := rfl
theorem bodyEq_count : body "count" ([s]) =
    ((match s with
     | .list xs _ => .ok (.int xs.length)
     | .vec xs _ => .ok (.int xs.length)
     | .map m => .ok (.int m.length)
     | .set ks => .ok (.int ks.length)
     | .nil => .ok (.int 0)
     | _ => .goerr "count called on non-sequence type")) := rfl
theorem bodyEq_emptyQ : body "empty?" ([s]) =
    ((match s with
     | .list xs _ => bool xs.isEmpty
     | .vec xs _ => bool xs.isEmpty
     | .map m => bool m.isEmpty
     | .set ks => bool ks.isEmpty
     | .nil => bool true
     | _ => .goerr "empty? called on non-sequence")) := rfl
theorem bodyEq_conj : body "conj" (s :: xs) =
    ((match s with
     | .list ys _ => .ok (.list (xs.reverse ++ ys) none)
     | .vec ys _ => .ok (.vec (ys ++ xs) none)
     | .map m => if xs.length % 2 ≠ 0 then .goerr "conj called with on a hash map requires an odd number of arguments" else conjMap xs m
     | .set ks => addKeys "conj" xs ks
     | _ => .goerr "conj called on non-hash map and a non-list and a non-set and a non-vector")) := rfl
theorem bodyEq_seq : body "seq" ([s]) =
    ((match s with
     | .nil => .ok .nil
     | .list xs p => if xs.isEmpty then .ok .nil else .ok (.list xs p)
     | .vec xs _ => if xs.isEmpty then .ok .nil else .ok (.list xs none)
     | .set ks => .ok (.list (ks.map .str) none)
     | .str str => if str.toList.isEmpty then .ok .nil else .ok (.list (str.toList.map (fun c => .str (String.ofList [c]))) none)
     | _ => .goerr "seq requires string or list or vector or nil")) := rfl
theorem bodyEq_take : body "take" ([.int n, s]) =
    ((match s with
     | .nil => .ok (.list [] none)
     | _ => match seqOf? s with
       | some xs => .ok (.list (xs.take n.toNat) none)
       | none => .goerr "take called on non-list and non-vector")) := rfl
theorem bodyEq_take_last : body "take-last" ([.int n, s]) =
    ((match s with
     | .nil => .ok .nil
     | _ => match seqOf? s with
       | some xs =>
         let r := xs.drop (xs.length - n.toNat)
         if r.isEmpty then .ok .nil else .ok (.list r none)
       | none => .goerr "take called on non-list and non-vector")) := rfl
theorem bodyEq_drop : body "drop" ([.int n, s]) =
    ((match s with
     | .nil => .ok (.list [] none)
     | _ => match seqOf? s with
       | some xs => .ok (.list (xs.drop n.toNat) none)
       | none => .goerr "drop called on non-list and non-vector")) := rfl
theorem bodyEq_drop_last : body "drop-last" ([.int n, s]) =
    ((match s with
     | .nil => .ok (.list [] none)
     | _ => match seqOf? s with
       | some xs => .ok (.list (xs.take (xs.length - n.toNat)) none)
       | none => .goerr "drop called on non-list and non-vector")) := rfl
theorem bodyEq_subvec : body "subvec" (v :: idx) =
    ((match v with
     | .vec xs _ =>
       (match idx with
        | [.int f] =>
          if 0 ≤ f ∧ f.toNat ≤ xs.length then .ok (.vec (xs.drop f.toNat) none) else .goerr "subvec index out of range"
        | [.int f, .int t] =>
          if 0 ≤ f ∧ f ≤ t ∧ t.toNat ≤ xs.length then .ok (.vec ((xs.take t.toNat).drop f.toNat) none)
          else .goerr "subvec index out of range"
        | _ => .goerr "interface conversion")
     | _ => .goerr "subvec requires a vector")) := rfl
theorem bodyEq_range : body "range" ([.int f, .int t]) =
    (.ok (.vec (rangeList (t - f).toNat f) none)) := rfl
theorem bodyEq_symbol : body "symbol" ([.str s]) =
    (.ok (.sym s none)) := rfl
theorem bodyEq_keyword : body "keyword" ([.str s]) =
    (if Val.isKwStr s then .ok (.str s) else .ok (.str (String.ofList (kwMarker :: s.toList)))) := rfl
theorem bodyEq_str : body "str" (xs) =
    (.ok (prList false [] xs)) := rfl
theorem bodyEq_pr_str : body "pr-str" (xs) =
    (.ok (prList true [' '] xs)) := rfl
theorem bodyEq_typeQ : body "type?" ([v]) =
    (.ok (.str (typeName v))) := rfl
theorem bodyEq_nilQ : body "nil?" ([v]) =
    (bool (match v with | .nil => true | _ => false)) := rfl
theorem bodyEq_trueQ : body "true?" ([v]) =
    (bool (match v with | .bool true => true | _ => false)) := rfl
theorem bodyEq_falseQ : body "false?" ([v]) =
    (bool (match v with | .bool false => true | _ => false)) := rfl
theorem bodyEq_symbolQ : body "symbol?" ([v]) =
    (bool (match v with | .sym _ _ => true | _ => false)) := rfl
theorem bodyEq_keywordQ : body "keyword?" ([v]) =
    (bool (match v with | .str s => Val.isKwStr s | _ => false)) := rfl
theorem bodyEq_stringQ : body "string?" ([v]) =
    (bool (match v with | .str s => !Val.isKwStr s | _ => false)) := rfl
theorem bodyEq_numberQ : body "number?" ([v]) =
    (bool (match v with | .int _ => true | _ => false)) := rfl
theorem bodyEq_fnQ : body "fn?" ([v]) =
    (bool (match v with | .fn _ _ _ m _ => !m | .builtin _ => true | _ => false)) := rfl
theorem bodyEq_macroQ : body "macro?" ([v]) =
    (bool (match v with | .fn _ _ _ m _ => m | _ => false)) := rfl
theorem bodyEq_listQ : body "list?" ([v]) =
    (bool (match v with | .list _ _ => true | _ => false)) := rfl
theorem bodyEq_vectorQ : body "vector?" ([v]) =
    (bool (match v with | .vec _ _ => true | _ => false)) := rfl
theorem bodyEq_mapQ : body "map?" ([v]) =
    (bool (match v with | .map _ => true | _ => false)) := rfl
theorem bodyEq_setQ : body "set?" ([v]) =
    (bool (match v with | .set _ => true | _ => false)) := rfl
theorem bodyEq_atomQ : body "atom?" ([v]) =
    (bool (match v with | .atom _ => true | _ => false)) := rfl
theorem bodyEq_sequentialQ : body "sequential?" ([v]) =
    (bool (seqOf? v).isSome) := rfl
theorem bodyEq_assert : body "assert" (a0 :: r) =
    ((match a0 with
     | .nil | .bool false =>
       (match r with
        | [] | [.nil] => .goerr (if a0 matches .nil then "assertion failed: nil" else "assertion failed: false")
        | [.str s] => .goerr s
        | [v] => .thrown v
        | _ => .goerr "one or two parameters required")
     | _ => .ok .nil)) := rfl
end bodyeq

section corehelpers
variable {g : Option Pos → Option Pos}

mutual
theorem equalQ_map : ∀ a b : Val, equalQ (mapPos g a) (mapPos g b) = equalQ a b
  | .list xs _, b => by
    cases b <;> simp only [mapPos, equalQ]
    · exact equalQList_map xs _
    · exact equalQList_map xs _
  | .vec xs _, b => by
    cases b <;> simp only [mapPos, equalQ]
    · exact equalQList_map xs _
    · exact equalQList_map xs _
  | .map m, b => by
    cases b <;> simp only [mapPos, equalQ]
    rw [equalQMap_map m, mapPosMap_eq, mapPosMap_eq]; simp
  | .nil, b => by cases b <;> simp only [mapPos, equalQ]
  | .bool _, b => by cases b <;> simp only [mapPos, equalQ]
  | .int _, b => by cases b <;> simp only [mapPos, equalQ]
  | .str _, b => by cases b <;> simp only [mapPos, equalQ]
  | .sym _ _, b => by cases b <;> simp only [mapPos, equalQ]
  | .set _, b => by cases b <;> simp only [mapPos, equalQ]
  | .fn .., b => by cases b <;> simp only [mapPos, equalQ]
  | .builtin _, b => by cases b <;> simp only [mapPos, equalQ]
  | .atom _, b => by cases b <;> simp only [mapPos, equalQ]
  | .future _, b => by cases b <;> simp only [mapPos, equalQ]
  | .goerr _, b => by cases b <;> simp only [mapPos, equalQ]
  | .opaque _, b => by cases b <;> simp only [mapPos, equalQ]
theorem equalQList_map : ∀ xs ys : List Val,
    equalQList (mapPosList g xs) (mapPosList g ys) = equalQList xs ys
  | [], ys => by cases ys <;> simp only [mapPosList, equalQList]
  | x :: xs, ys => by
    cases ys with
    | nil => simp only [mapPosList, equalQList]
    | cons y ys => simp only [mapPosList, equalQList, equalQ_map x y, equalQList_map xs ys]
theorem equalQMap_map : ∀ m1 m2 : List (String × Val),
    equalQMap (mapPosMap g m1) (mapPosMap g m2) = equalQMap m1 m2
  | [], m2 => by simp only [mapPosMap, equalQMap]
  | (k, v) :: r, m2 => by
    simp only [mapPosMap, equalQMap, alookup_map, equalQMap_map r m2]
    cases alookup k m2 with
    | none => rfl
    | some w => simp only [Option.map_some, equalQ_map v w]
end

mutual
theorem prStr_map (r : Bool) : ∀ v : Val, Print.prStr r (mapPos g v) = Print.prStr r v
  | .list xs p => by
    show '(' :: Print.intercalate [' '] (Print.prList r (mapPosList g xs)) ++ [')'] =
      '(' :: Print.intercalate [' '] (Print.prList r xs) ++ [')']
    rw [prList_map r xs]
  | .vec xs p => by
    show '[' :: Print.intercalate [' '] (Print.prList r (mapPosList g xs)) ++ [']'] =
      '[' :: Print.intercalate [' '] (Print.prList r xs) ++ [']']
    rw [prList_map r xs]
  | .map m => by
    show '{' :: Print.intercalate [' '] (Print.prMap r (mapPosMap g m)) ++ ['}'] =
      '{' :: Print.intercalate [' '] (Print.prMap r m) ++ ['}']
    rw [prMap_map r m]
  | .fn ps b _ _ _ => by
    show "(fn ".toList ++ Print.prStr true (mapPos g ps) ++ [' '] ++ Print.prStr true (mapPos g b) ++ [')'] =
      "(fn ".toList ++ Print.prStr true ps ++ [' '] ++ Print.prStr true b ++ [')']
    rw [prStr_map true ps, prStr_map true b]
  | .nil => rfl
  | .bool _ => rfl
  | .int _ => rfl
  | .str _ => rfl
  | .sym _ _ => rfl
  | .set _ => rfl
  | .builtin _ => rfl
  | .atom _ => rfl
  | .future _ => rfl
  | .goerr _ => rfl
  | .opaque _ => rfl
theorem prList_map (r : Bool) : ∀ xs : List Val, Print.prList r (mapPosList g xs) = Print.prList r xs
  | [] => rfl
  | x :: xs => by
    show Print.prStr r (mapPos g x) :: Print.prList r (mapPosList g xs) = Print.prStr r x :: Print.prList r xs
    rw [prStr_map r x, prList_map r xs]
theorem prMap_map (r : Bool) : ∀ m : List (String × Val), Print.prMap r (mapPosMap g m) = Print.prMap r m
  | [] => rfl
  | (k, v) :: m => by
    show Print.prString r k :: Print.prStr r (mapPos g v) :: Print.prMap r (mapPosMap g m) =
      Print.prString r k :: Print.prStr r v :: Print.prMap r m
    rw [prStr_map r v, prMap_map r m]
end

theorem prList_eq_map (r : Bool) (xs : List Val) : Print.prList r xs = xs.map (Print.prStr r) := by
  induction xs with
  | nil => rfl
  | cons x xs ih =>
    show Print.prStr r x :: Print.prList r xs = _
    rw [ih]; rfl

theorem corePrList_map (r : Bool) (sep : List Char) (xs : List Val) :
    Core.prList r sep (mapPosList g xs) = Core.prList r sep xs := by
  unfold Core.prList
  rw [← prList_eq_map, ← prList_eq_map, prList_map]

theorem rangeList_map (n : Nat) (f : Int) : mapPosList g (rangeList n f) = rangeList n f := by
  induction n generalizing f with
  | zero => rfl
  | succ n ih => simp [rangeList, mapPos, ih]

theorem isStr_map (v : Val) : isStr (mapPos g v) = isStr v := by cases v <;> rfl

theorem fits_map (p : PK) (v : Val) : fits p (mapPos g v) = fits p v := by
  cases p <;> cases v <;> rfl

theorem typeName_map (v : Val) : typeName (mapPos g v) = typeName v := by cases v <;> rfl

end corehelpers

end LispModel.Proofs.EvalErase

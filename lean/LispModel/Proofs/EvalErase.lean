/-
  The evaluator does not look at source positions (property C19, `eval_ignores_positions`) and never
  invents one (property C17, `error_positions_come_from_the_ast`).

  Both follow from ONE commutation theorem over the 13 functions of the `mutual` block of
  `LispModel/Eval.lean`: for a map `g` on optional cursors that keeps `none` and commutes with "first
  position wins" (`PosMap g`), running on the `g`-image of the inputs gives the `g`-image of the outputs
  (`mapPos g` on values, `mapSt g` on states, `mapErr g` on errors — payload and position).
  `g = fun _ => none` is the erasure of all cursors; `g = Option.map h` relabels them.

  The first part of the file repeats the *arm equations* of `evalLoop` (one unconditional rewriting lemma
  per branch of the loop body; the body is too big for `split`/`simp` as a whole) with the vocabulary
  they need, in this file's own namespace (same statements as in Proofs/EvalBasic.lean, on which this
  file deliberately does not depend).
  Core Lean only.
-/
import LispModel.Eval
namespace LispModel.Proofs.EvalErase
open LispModel LispModel.Core

/-! ### vocabulary -/

/-- one poll of `ctx.Done()` on a context that is not cancelled: only the poll counter moves -/
def tick (st : State) : State := { st with ticks := st.ticks + 1 }

/-- the symbol `s` is not bound to a macro in scope `env` (nor in any scope around it).
    jig/lisp looks the head symbol up as a macro *before* it recognises special forms, so a user macro
    named `if` shadows the special form: every law of evaluation carries this side condition. -/
def NotMacro (st : State) (env : Nat) (s : String) : Prop :=
  ∀ ps b e p, st.get env s ≠ some (.fn ps b e true p)

/-- the head of a form is not a symbol bound to a macro -/
def HeadNotMacro (st : State) (env : Nat) : Val → Prop
  | .sym s _ => NotMacro st env s
  | _ => True

/-- the name the loop dispatches on (`a0sym` of the loop body) -/
def a0sym : Val → String
  | .sym s _ => s
  | _ => "__<*fn>__"

/-- the `continue` of the loop (`continueWith` of the loop body): without debugger the next iteration
    of the same activation, with debugger a fresh `EVAL` -/
def continueWith (F : Nat) (st : State) (env : Nat) (ast : Val) (d : Nat) : R :=
  match st.stepper with
  | none => evalLoop F st env ast d
  | some _ => eval F st env ast (d + 1)

/-- the `catch` stage of the `try` arm of the loop body: `r`, `st` = outcome of the body forms -/
def tryCatch (F : Nat) (parts : TryParts) (env d : Nat) (r : Res Val) (st : State) : R :=
  match r with
  | .ok v => (.ok v, st)
  | .oof => (.oof, st)
  | .err e =>
    (match parts.catchDo, parts.catchBind with
     | some handler, some bind =>
       (match bindParams (.list [bind] none) [caughtValue e] with
        | .error be => (.err be, st)
        | .ok data => doForms F (st.newScope env data).1 (st.newScope env data).2 handler 0 false d)
     | _, _ => (.err e, st))

/-- the deferred `finally` stage of the `try` arm: `r`, `st` = outcome after the `catch` stage -/
def tryFinally (F : Nat) (parts : TryParts) (env d : Nat) (r : Res Val) (st : State) : R :=
  match r with
  | .oof => (.oof, st)
  | _ =>
    match parts.finallyDo with
    | none => (r, outing1Defer st)
    | some fin =>
      match doForms F st env fin 0 false d with
      | (.oof, st) => (.oof, st)
      | (_, st) => (r, st)

/-- the Stepper prologue of `EVAL`: the flags after the callback, and whether it answered `next` -/
def stepPrologue (sp : Stepper) (ast : Val) : Stepper × Bool :=
  if !sp.skip then
    let cmd := sp.script.headD .noop
    let sp := { sp with script := sp.script.tail, calls := ast :: sp.calls }
    match cmd with
    | .next => ({ sp with skip := true }, true)
    | .stepIn => ({ sp with skip := false, outing1 := false }, false)
    | .stepOut => ({ sp with skip := true, outing1 := true }, false)
    | .noop => (sp, false)
  else (sp, false)

/-- the deferred flag resets of `EVAL` -/
def stepEpilogue (hadOuting2 isNext : Bool) (st' : State) : State :=
  match st'.stepper with
  | none => st'
  | some sp' =>
    let sp' := if hadOuting2 then { sp' with skip := false, outing2 := false } else sp'
    let sp' := if isNext then { sp' with skip := false } else sp'
    { st' with stepper := some sp' }

/-! ### arm equations of `evalLoop` -/

section arms
variable {F : Nat} {st s0 s1 : State} {env d : Nat} {ast ast' a0 : Val} {xs ops : List Val}
  {p p' : Option Pos} {e : Err}

theorem evalLoop_timeout (hp : st.poll = (true, s0)) :
    evalLoop (F+1) st env ast d = (.err (timeoutErr ast), s0) := by
  rw [evalLoop.eq_2]; simp (maxSteps := 10000000) only [hp, ↓reduceIte]

theorem evalLoop_nonlist (hp : st.poll = (false, s0)) (hl : ∀ xs p, ast ≠ .list xs p) :
    evalLoop (F+1) st env ast d = evalAst F s0 env ast d := by
  rw [evalLoop.eq_2]
  cases ast <;> first | (exact absurd rfl (hl _ _)) | simp (maxSteps := 10000000) only [hp, Bool.false_eq_true, ↓reduceIte]

theorem evalLoop_mac_err (hp : st.poll = (false, s0))
    (hm : macroexpand F s0 env (.list xs p) d = (.err e, s1)) :
    evalLoop (F+1) st env (.list xs p) d = (.err e, s1) := by
  rw [evalLoop.eq_2]; simp (maxSteps := 10000000) only [hp, hm, Bool.false_eq_true, ↓reduceIte]

theorem evalLoop_mac_oof (hp : st.poll = (false, s0))
    (hm : macroexpand F s0 env (.list xs p) d = (.oof, s1)) :
    evalLoop (F+1) st env (.list xs p) d = (.oof, s1) := by
  rw [evalLoop.eq_2]; simp (maxSteps := 10000000) only [hp, hm, Bool.false_eq_true, ↓reduceIte]

theorem evalLoop_mac_nonlist (hp : st.poll = (false, s0))
    (hm : macroexpand F s0 env (.list xs p) d = (.ok ast', s1)) (hl : ∀ xs p, ast' ≠ .list xs p) :
    evalLoop (F+1) st env (.list xs p) d = evalAst F s1 env ast' d := by
  rw [evalLoop.eq_2]
  cases ast' <;> first | (exact absurd rfl (hl _ _)) | simp (maxSteps := 10000000) only [hp, hm, Bool.false_eq_true, ↓reduceIte]

theorem evalLoop_mac_empty (hp : st.poll = (false, s0))
    (hm : macroexpand F s0 env (.list xs p) d = (.ok (.list [] p'), s1)) :
    evalLoop (F+1) st env (.list xs p) d = (.ok (.list [] p'), s1) := by
  rw [evalLoop.eq_2]; simp (maxSteps := 10000000) only [hp, hm, Bool.false_eq_true, ↓reduceIte]

/-- proof script shared by the special-form arms -/
local macro "arm_tac" hp:ident hm:ident ha:ident : tactic => `(tactic|
  (rw [evalLoop.eq_2]
   cases ‹Val› <;> simp only [a0sym] at $ha:ident <;> first | (exact absurd $ha (by decide)) | skip
   subst $ha
   simp (maxSteps := 10000000) only [$hp:ident, $hm:ident, Bool.false_eq_true, ↓reduceIte, String.reduceEq]
   try rfl))

theorem evalLoop_def (hp : st.poll = (false, s0))
    (hm : macroexpand F s0 env (.list xs p) d = (.ok (.list (a0 :: ops) p'), s1))
    (ha : a0sym a0 = "def") :
    evalLoop (F+1) st env (.list xs p) d =
      match eval F s1 env (ops.getD 1 .nil) (d+1) with
      | (.ok res, s2) =>
        (match ops.getD 0 .nil with
         | .sym name _ => (.ok res, s2.set env name res)
         | _ => (.err (newLispError (.plain "cannot use value as identifier") (.list (a0 :: ops) p')), s2))
      | r => r := by
  arm_tac hp hm ha

theorem evalLoop_let (hp : st.poll = (false, s0))
    (hm : macroexpand F s0 env (.list xs p) d = (.ok (.list (a0 :: ops) p'), s1))
    (ha : a0sym a0 = "let") :
    evalLoop (F+1) st env (.list xs p) d =
      match seqOf? (ops.getD 0 .nil) with
      | none => (.err (.plain "GetSlice called on non-sequence"), (s1.newScope env []).1)
      | some arr1 =>
        if arr1.length % 2 ≠ 0 then
          (.err (newLispError (.plain "let: odd elements on binding vector") (ops.getD 0 .nil)), (s1.newScope env []).1)
        else
          match letBinds F (s1.newScope env []).1 (s1.newScope env []).2 arr1 (ops.getD 0 .nil) d with
          | (.ok _, s2) =>
            (match doForms F s2 (s1.newScope env []).2 (a0 :: ops) 2 true d with
             | (.ok next, s3) => continueWith F s3 (s1.newScope env []).2 next d
             | r => r)
          | r => r := by
  arm_tac hp hm ha

theorem evalLoop_quote (hp : st.poll = (false, s0))
    (hm : macroexpand F s0 env (.list xs p) d = (.ok (.list (a0 :: ops) p'), s1))
    (ha : a0sym a0 = "quote") :
    evalLoop (F+1) st env (.list xs p) d = (.ok (ops.getD 0 .nil), s1) := by
  arm_tac hp hm ha

theorem evalLoop_quasiquoteexpand (hp : st.poll = (false, s0))
    (hm : macroexpand F s0 env (.list xs p) d = (.ok (.list (a0 :: ops) p'), s1))
    (ha : a0sym a0 = "quasiquoteexpand") :
    evalLoop (F+1) st env (.list xs p) d = (.ok (quasiquote (ops.getD 0 .nil)), s1) := by
  arm_tac hp hm ha

theorem evalLoop_quasiquote (hp : st.poll = (false, s0))
    (hm : macroexpand F s0 env (.list xs p) d = (.ok (.list (a0 :: ops) p'), s1))
    (ha : a0sym a0 = "quasiquote") :
    evalLoop (F+1) st env (.list xs p) d = continueWith F s1 env (quasiquote (ops.getD 0 .nil)) d := by
  arm_tac hp hm ha

theorem evalLoop_defmacro (hp : st.poll = (false, s0))
    (hm : macroexpand F s0 env (.list xs p) d = (.ok (.list (a0 :: ops) p'), s1))
    (ha : a0sym a0 = "defmacro") :
    evalLoop (F+1) st env (.list xs p) d =
      match eval F s1 env (ops.getD 1 .nil) (d + 1) with
      | (.ok f, s2) =>
        (match f with
         | .fn ps b e _ fp =>
           (match ops.getD 0 .nil with
            | .sym name _ => (.ok (Val.fn ps b e true fp), s2.set env name (Val.fn ps b e true fp))
            | _ => (.err (newLispError (.plain "cannot use value as identifier") (.list (a0 :: ops) p')), s2))
         | _ => (.err (newLispError (.plain "defmacro requires a function") (.list (a0 :: ops) p')), s2))
      | r => r := by
  arm_tac hp hm ha

theorem evalLoop_macroexpand (hp : st.poll = (false, s0))
    (hm : macroexpand F s0 env (.list xs p) d = (.ok (.list (a0 :: ops) p'), s1))
    (ha : a0sym a0 = "macroexpand") :
    evalLoop (F+1) st env (.list xs p) d = macroexpand F s1 env (ops.getD 0 .nil) d := by
  arm_tac hp hm ha

theorem evalLoop_try (hp : st.poll = (false, s0))
    (hm : macroexpand F s0 env (.list xs p) d = (.ok (.list (a0 :: ops) p'), s1))
    (ha : a0sym a0 = "try") :
    evalLoop (F+1) st env (.list xs p) d =
      if ops.isEmpty then (.ok .nil, s1) else
      match splitTry (a0 :: ops) with
      | .error msg => (.err (newLispError (.plain msg) (.list (a0 :: ops) p')), s1)
      | .ok parts =>
        tryFinally F parts env d
          (tryCatch F parts env d (doForms F s1 env parts.body 0 false d).1 (doForms F s1 env parts.body 0 false d).2).1
          (tryCatch F parts env d (doForms F s1 env parts.body 0 false d).1 (doForms F s1 env parts.body 0 false d).2).2 := by
  arm_tac hp hm ha

theorem evalLoop_do (hp : st.poll = (false, s0))
    (hm : macroexpand F s0 env (.list xs p) d = (.ok (.list (a0 :: ops) p'), s1))
    (ha : a0sym a0 = "do") :
    evalLoop (F+1) st env (.list xs p) d =
      match doForms F s1 env (a0 :: ops) 1 true d with
      | (.ok next, s2) => continueWith F s2 env next d
      | r => r := by
  arm_tac hp hm ha

theorem evalLoop_if (hp : st.poll = (false, s0))
    (hm : macroexpand F s0 env (.list xs p) d = (.ok (.list (a0 :: ops) p'), s1))
    (ha : a0sym a0 = "if") :
    evalLoop (F+1) st env (.list xs p) d =
      match eval F s1 env (ops.getD 0 .nil) (d+1) with
      | (.ok cond, s2) =>
         if truthy cond then continueWith F s2 env (ops.getD 1 .nil) d
         else if (a0 :: ops).length ≥ 4 then continueWith F s2 env ((a0 :: ops).getD 3 .nil) d
         else (.ok .nil, s2)
      | r => r := by
  arm_tac hp hm ha

theorem evalLoop_fn (hp : st.poll = (false, s0))
    (hm : macroexpand F s0 env (.list xs p) d = (.ok (.list (a0 :: ops) p'), s1))
    (ha : a0sym a0 = "fn") :
    evalLoop (F+1) st env (.list xs p) d =
      if (a0 :: ops).length < 2 then
        (.err (newLispError (.plain "fn requires a parameter list") (.list (a0 :: ops) p')), s1)
      else (.ok (.fn (ops.getD 0 .nil) (.list (.sym "do" none :: (a0 :: ops).drop 2) none) env false p'), s1) := by
  arm_tac hp hm ha

theorem evalLoop_app (hp : st.poll = (false, s0))
    (hm : macroexpand F s0 env (.list xs p) d = (.ok (.list (a0 :: ops) p'), s1))
    (ha : a0sym a0 ∉ specialForms) :
    evalLoop (F+1) st env (.list xs p) d =
      match evalList F s1 env (a0 :: ops) d with
      | (.ok el, st) =>
        (match el with
         | [] => (.err (.plain "empty application"), st)
         | f :: args =>
           match f with
           | .fn params body fenv _ _ =>
             (match bindParams params args with
              | .error e =>
                (match e with
                 | .lisp (.goerr m) _ => (.err (.lisp (.goerr (m ++ " (around do)")) none), st)
                 | e => (.err (newLispError e body), st))
              | .ok data => continueWith F (st.newScope fenv data).1 (st.newScope fenv data).2 body d)
           | .builtin name =>
             (match callBuiltin F st name args d with
              | (.ok v, st) => (.ok v, st)
              | (.err e, st) => (.err (newLispError e (.list (a0 :: ops) p')), st)
              | (.oof, st) => (.oof, st))
           | _ => (.err (.lisp (.goerr "attempt to call non-function") none), st))
      | (.err e, st) => (.err e, st)
      | (.oof, st) => (.oof, st) := by
  rw [evalLoop.eq_2]
  simp only [specialForms, List.mem_cons, List.not_mem_nil, or_false, not_or] at ha
  obtain ⟨h1, h2, h3, h4, h5, h6, h7, h8, h9, h10, h11⟩ := ha
  cases a0 <;> simp only [a0sym] at h1 h2 h3 h4 h5 h6 h7 h8 h9 h10 h11 <;>
  simp (maxSteps := 10000000) only [hp, hm, Bool.false_eq_true, ↓reduceIte,
    h1, h2, h3, h4, h5, h6, h7, h8, h9, h10, h11] <;> rfl

end arms

/-! ### mapping cursors -/

mutual
/-- apply `g` to every cursor of a value (symbols, lists, vectors, closures — recursively, including the
    parameters and body of closures and the values of hash-maps) -/
def mapPos (g : Option Pos → Option Pos) : Val → Val
  | .sym s p => .sym s (g p)
  | .list xs p => .list (mapPosList g xs) (g p)
  | .vec xs p => .vec (mapPosList g xs) (g p)
  | .map kvs => .map (mapPosMap g kvs)
  | .fn ps b e m p => .fn (mapPos g ps) (mapPos g b) e m (g p)
  | .nil => .nil
  | .bool b => .bool b
  | .int i => .int i
  | .str s => .str s
  | .set ks => .set ks
  | .builtin n => .builtin n
  | .atom i => .atom i
  | .future i => .future i
  | .goerr m => .goerr m
  | .opaque t => .opaque t
def mapPosList (g : Option Pos → Option Pos) : List Val → List Val
  | [] => []
  | x :: xs => mapPos g x :: mapPosList g xs
def mapPosMap (g : Option Pos → Option Pos) : List (String × Val) → List (String × Val)
  | [] => []
  | (k, v) :: r => (k, mapPos g v) :: mapPosMap g r
end

/-- all cursors ↦ none -/
def erasePos : Val → Val := mapPos (fun _ => none)

/-- `NewLispError`: the first position wins -/
def firstPos (o c : Option Pos) : Option Pos :=
  match o with
  | none => c
  | some p => some p

/-- the maps on cursors the evaluator commutes with: "no cursor" stays "no cursor", and `g` commutes
    with "first position wins".  Instances: erasure, and every relabelling `Option.map h`. -/
structure PosMap (g : Option Pos → Option Pos) : Prop where
  none : g none = none
  first : ∀ o c, g (firstPos o c) = firstPos (g o) (g c)

theorem posMap_erase : PosMap (fun _ => none) := ⟨rfl, fun _ _ => rfl⟩
theorem posMap_map (h : Pos → Pos) : PosMap (Option.map h) :=
  ⟨rfl, fun o c => by cases o <;> rfl⟩

def mapErr (g : Option Pos → Option Pos) : Err → Err
  | .lisp p pos => .lisp (mapPos g p) (g pos)
  | .plain m => .plain m

def mapRes {α} (f : α → α) (g : Option Pos → Option Pos) : Res α → Res α
  | .ok a => .ok (f a)
  | .err e => .err (mapErr g e)
  | .oof => .oof

def mapScope (g : Option Pos → Option Pos) (sc : Scope) : Scope := ⟨mapPosMap g sc.data, sc.outer⟩

def mapStepper (g : Option Pos → Option Pos) (sp : Stepper) : Stepper :=
  { sp with calls := mapPosList g sp.calls }

/-- apply `g` to every cursor of the state: scopes, atoms, the trace, the forms the debugger saw -/
def mapSt (g : Option Pos → Option Pos) (st : State) : State :=
  { st with scopes := st.scopes.map (mapScope g), atoms := st.atoms.map (mapPos g),
            trace := mapPosList g st.trace, stepper := st.stepper.map (mapStepper g) }

/-- results of the value-returning functions -/
def mapR (g : Option Pos → Option Pos) (r : R) : R := (mapRes (mapPos g) g r.1, mapSt g r.2)
/-- results of `evalList` / `mapLoop` -/
def mapRL (g : Option Pos → Option Pos) (r : Res (List Val) × State) : Res (List Val) × State :=
  (mapRes (mapPosList g) g r.1, mapSt g r.2)
/-- results of `evalMap` -/
def mapRM (g : Option Pos → Option Pos) (r : Res (List (String × Val)) × State) :
    Res (List (String × Val)) × State :=
  (mapRes (mapPosMap g) g r.1, mapSt g r.2)

theorem mapPosList_eq (g) (xs : List Val) : mapPosList g xs = xs.map (mapPos g) := by
  induction xs with
  | nil => rfl
  | cons x xs ih => simp [mapPosList, ih]

theorem mapPosMap_eq (g) (m : List (String × Val)) :
    mapPosMap g m = m.map (fun kv => (kv.1, mapPos g kv.2)) := by
  induction m with
  | nil => rfl
  | cons kv m ih => obtain ⟨k, v⟩ := kv; simp [mapPosMap, ih]

section pure
variable {g : Option Pos → Option Pos} (hg : PosMap g)

@[simp] theorem mapPosList_nil (g) : mapPosList g [] = [] := rfl
@[simp] theorem mapPosList_cons (g) (x : Val) (xs) : mapPosList g (x :: xs) = mapPos g x :: mapPosList g xs := rfl
@[simp] theorem mapPosList_length (g) (xs : List Val) : (mapPosList g xs).length = xs.length := by
  rw [mapPosList_eq]; simp
theorem mapPosList_append (g) (xs ys : List Val) :
    mapPosList g (xs ++ ys) = mapPosList g xs ++ mapPosList g ys := by
  simp [mapPosList_eq]
theorem mapPosList_getD (g) (xs : List Val) (n : Nat) :
    (mapPosList g xs).getD n .nil = mapPos g (xs.getD n .nil) := by
  induction xs generalizing n with
  | nil => simp [mapPos]
  | cons x xs ih =>
    cases n with
    | zero => simp
    | succ n => simpa [List.getD] using ih n
theorem mapPosList_drop (g) (xs : List Val) (n : Nat) :
    (mapPosList g xs).drop n = mapPosList g (xs.drop n) := by simp [mapPosList_eq]
theorem mapPosList_take (g) (xs : List Val) (n : Nat) :
    (mapPosList g xs).take n = mapPosList g (xs.take n) := by simp [mapPosList_eq]
theorem mapPosList_dropLast (g) (xs : List Val) :
    (mapPosList g xs).dropLast = mapPosList g xs.dropLast := by simp [mapPosList_eq]
theorem mapPosList_getLast? (g) (xs : List Val) :
    (mapPosList g xs).getLast? = xs.getLast?.map (mapPos g) := by simp [mapPosList_eq]
theorem mapPosList_getLastD (g) (xs : List Val) :
    (mapPosList g xs).getLast?.getD .nil = mapPos g (xs.getLast?.getD .nil) := by
  rw [mapPosList_getLast?]; cases xs.getLast? <;> simp [mapPos]
theorem mapPosList_isEmpty (g) (xs : List Val) : (mapPosList g xs).isEmpty = xs.isEmpty := by
  cases xs <;> rfl

include hg in
theorem getPosition_map (v : Val) : getPosition (mapPos g v) = g (getPosition v) := by
  cases v <;> simp [mapPos, getPosition, hg.none]

include hg in
theorem newLispError_map (e : Err) (c : Val) :
    newLispError (mapErr g e) (mapPos g c) = mapErr g (newLispError e c) := by
  cases e with
  | plain m => simp [mapErr, newLispError, getPosition_map hg, mapPos]
  | lisp p pos =>
    cases pos with
    | none => simp [mapErr, newLispError, getPosition_map hg, hg.none]
    | some q =>
      have h := hg.first (some q) (getPosition c)
      simp only [firstPos] at h
      simp only [mapErr, newLispError]
      cases hq : g (some q) with
      | some q' => rfl
      | none =>
        rw [hq] at h
        simp only [getPosition_map hg]
        have h' : none = g (getPosition c) := h
        rw [← h']

theorem caughtValue_map (e : Err) : caughtValue (mapErr g e) = mapPos g (caughtValue e) := by
  cases e <;> simp [mapErr, caughtValue, mapPos]

theorem seqOf_map (v : Val) : seqOf? (mapPos g v) = (seqOf? v).map (mapPosList g) := by
  cases v <;> simp [mapPos, seqOf?]

theorem truthy_map (v : Val) : truthy (mapPos g v) = truthy v := by
  cases v <;> simp [mapPos, truthy]

theorem firstSym_map (v : Val) : firstSym (mapPos g v) = firstSym v := by
  cases v with
  | list xs p =>
    cases xs with
    | nil => rfl
    | cons x xs => cases x <;> simp [mapPos, firstSym]
  | _ => simp [mapPos, firstSym]

theorem a0sym_map (v : Val) : a0sym (mapPos g v) = a0sym v := by
  cases v <;> simp [mapPos, a0sym]

end pure

section pure2
variable {g : Option Pos → Option Pos} (hg : PosMap g)

theorem alookup_map (k : String) (m : List (String × Val)) :
    alookup k (mapPosMap g m) = (alookup k m).map (mapPos g) := by
  induction m with
  | nil => rfl
  | cons kv m ih =>
    obtain ⟨k', v⟩ := kv
    simp only [mapPosMap, alookup]
    split
    · rfl
    · exact ih

theorem ainsert_map (k : String) (v : Val) (m : List (String × Val)) :
    ainsert k (mapPos g v) (mapPosMap g m) = mapPosMap g (ainsert k v m) := by
  induction m with
  | nil => rfl
  | cons kv m ih =>
    obtain ⟨k', v'⟩ := kv
    simp only [mapPosMap, ainsert]
    split
    · rfl
    · simp only [mapPosMap, ih]

theorem mapPos_eq_sym {v : Val} {s : String} {p' : Option Pos} (h : mapPos g v = .sym s p') :
    ∃ p, v = .sym s p := by
  cases v <;> simp [mapPos] at h
  exact ⟨_, by rw [h.1]⟩

theorem mapPos_eq_list {v : Val} {ys : List Val} {p' : Option Pos} (h : mapPos g v = .list ys p') :
    ∃ xs p, v = .list xs p ∧ mapPosList g xs = ys := by
  cases v <;> simp [mapPos] at h
  exact ⟨_, _, rfl, h.1⟩

theorem mapPosList_eq_cons {xs : List Val} {y : Val} {ys : List Val} (h : mapPosList g xs = y :: ys) :
    ∃ x xs', xs = x :: xs' ∧ mapPos g x = y ∧ mapPosList g xs' = ys := by
  cases xs with
  | nil => cases h
  | cons x xs' => simp at h; exact ⟨x, xs', rfl, h.1, h.2⟩

theorem mapPosList_eq_nil {xs : List Val} (h : mapPosList g xs = []) : xs = [] := by
  cases xs with
  | nil => rfl
  | cons x xs' => cases h

set_option linter.unusedSectionVars false
include hg
mutual
theorem quasiquote_map : ∀ v : Val, quasiquote (mapPos g v) = mapPos g (quasiquote v)
  | .vec xs p => by
    rw [mapPos, quasiquote.eq_1, quasiquote.eq_1, qqLoop_map xs]; simp [mapPos, hg.none]
  | .map m => by rw [mapPos, quasiquote.eq_2, quasiquote.eq_2]; simp [mapPos, hg.none]
  | .sym s p => by rw [mapPos, quasiquote.eq_3, quasiquote.eq_3]; simp [mapPos, hg.none]
  | .list xs p => by
    rw [mapPos]
    by_cases hA : ∃ pos x tail, xs = Val.sym "unquote" pos :: x :: tail
    · obtain ⟨pos, x, tail, rfl⟩ := hA
      simp only [mapPosList_cons, mapPos]
      rw [quasiquote.eq_5, quasiquote.eq_5]
    by_cases hB : ∃ pos, xs = [Val.sym "unquote" pos]
    · obtain ⟨pos, rfl⟩ := hB
      have := qqLoop_map [Val.sym "unquote" pos]
      simp only [mapPosList_cons, mapPos, mapPosList_nil] at this ⊢
      rw [quasiquote.eq_4, quasiquote.eq_4, this]
    · rw [quasiquote.eq_6, quasiquote.eq_6, qqLoop_map xs]
      · intro pos hx; exact hB ⟨pos, hx⟩
      · intro pos x tail hx; exact hA ⟨_, _, _, hx⟩
      · intro pos hx
        obtain ⟨x, xs', rfl, h1, h2⟩ := mapPosList_eq_cons hx
        obtain ⟨q, rfl⟩ := mapPos_eq_sym h1
        rw [mapPosList_eq_nil h2] at hB
        exact hB ⟨q, rfl⟩
      · intro pos y tail hx
        obtain ⟨x, xs', rfl, h1, h2⟩ := mapPosList_eq_cons hx
        obtain ⟨x2, xs2, rfl, _, _⟩ := mapPosList_eq_cons h2
        obtain ⟨q, rfl⟩ := mapPos_eq_sym h1
        exact hA ⟨_, _, _, rfl⟩
  | .nil => rfl
  | .bool _ => rfl
  | .int _ => rfl
  | .str _ => rfl
  | .set _ => rfl
  | .fn .. => by
    rw [mapPos, quasiquote.eq_7, quasiquote.eq_7, mapPos] <;> (intros; rename_i h; cases h)
  | .builtin _ => rfl
  | .atom _ => rfl
  | .future _ => rfl
  | .goerr _ => rfl
  | .opaque _ => rfl
theorem qqLoop_map : ∀ xs : List Val, qqLoop (mapPosList g xs) = mapPos g (qqLoop xs)
  | [] => by rw [mapPosList, qqLoop.eq_1]; simp [mapPos, hg.none]
  | e :: es => by
    rw [mapPosList]
    by_cases hS : ∃ pos x tail pos1, e = .list (Val.sym "splice-unquote" pos :: x :: tail) pos1
    · obtain ⟨pos, x, tail, pos1, rfl⟩ := hS
      simp only [mapPos, mapPosList_cons]
      rw [qqLoop.eq_2, qqLoop.eq_2, qqLoop_map es]
      simp [mapPos, hg.none]
    · rw [qqLoop.eq_3, qqLoop.eq_3, qqLoop_map es, quasiquote_map e]
      · simp [mapPos, hg.none]
      · intro pos x tail pos1 hx; exact hS ⟨_, _, _, _, hx⟩
      · intro pos y tail pos1 hx
        obtain ⟨xs, p, rfl, h1⟩ := mapPos_eq_list hx
        obtain ⟨x1, xs1, rfl, h2, h3⟩ := mapPosList_eq_cons h1
        obtain ⟨x2, xs2, rfl, _, _⟩ := mapPosList_eq_cons h3
        obtain ⟨q, rfl⟩ := mapPos_eq_sym h2
        exact hS ⟨_, _, _, _, rfl⟩
end

end pure2

section binds
variable {g : Option Pos → Option Pos} (hg : PosMap g)

/-- `g`-image of the outcome of parameter binding -/
def mapBind (g : Option Pos → Option Pos) : Except Err (List (String × Val)) → Except Err (List (String × Val))
  | .ok data => .ok (mapPosMap g data)
  | .error e => .error (mapErr g e)

include hg in
theorem bindLoop_map : ∀ (bs exprs : List Val) (nb ne : Nat) (acc : List (String × Val)),
    bindLoop (mapPosList g bs) (mapPosList g exprs) nb ne (mapPosMap g acc) =
      mapBind g (bindLoop bs exprs nb ne acc) := by
  intro bs
  induction bs with
  | nil =>
    intro exprs nb ne acc
    simp only [mapPosList_nil, bindLoop, mapPosList_isEmpty]
    split <;> simp [mapBind, mapErr, mapPos, hg.none]
  | cons b bs ih =>
    intro exprs nb ne acc
    rw [mapPosList_cons]
    by_cases hb : ∃ s p, b = .sym s p
    · obtain ⟨s, p, rfl⟩ := hb
      rw [mapPos]
      by_cases hs : s = "&"
      · subst hs
        by_cases hn : ∃ name q tail, bs = Val.sym name q :: tail
        · obtain ⟨name, q, tail, rfl⟩ := hn
          simp only [mapPosList_cons, mapPos]
          rw [bindLoop.eq_2, bindLoop.eq_2]
          simp only [mapBind, ← ainsert_map, mapPos, hg.none]
        · rw [bindLoop.eq_3, bindLoop.eq_3]
          · simp [mapBind, mapErr, mapPos, hg.none]
          · intro name q tail h; exact hn ⟨_, _, _, h⟩
          · intro name q tail h
            obtain ⟨x, xs', rfl, h1, _⟩ := mapPosList_eq_cons h
            obtain ⟨q', rfl⟩ := mapPos_eq_sym h1
            exact hn ⟨_, _, _, rfl⟩
      · cases exprs with
        | nil =>
          rw [mapPosList_nil, bindLoop.eq_4 _ _ _ _ _ _ hs, bindLoop.eq_4 _ _ _ _ _ _ hs]
          simp [mapBind, mapErr, mapPos, hg.none]
        | cons e es =>
          rw [mapPosList_cons, bindLoop.eq_5 _ _ _ _ _ _ _ _ hs, bindLoop.eq_5 _ _ _ _ _ _ _ _ hs, ainsert_map]
          exact ih _ _ _ _
    · have h1 : ∀ s p, b = .sym s p → False := fun s p h => hb ⟨s, p, h⟩
      have h2 : ∀ s p, mapPos g b = .sym s p → False := by
        intro s p h; obtain ⟨q, hq⟩ := mapPos_eq_sym h; exact h1 _ _ hq
      rw [bindLoop.eq_6 _ _ _ _ _ _ (fun p h => h2 _ p h) (fun s p h => h2 s p h),
        bindLoop.eq_6 _ _ _ _ _ _ (fun p h => h1 _ p h) (fun s p h => h1 s p h)]
      simp [mapBind, mapErr, mapPos, hg.none]

include hg in
theorem bindParams_map (params : Val) (args : List Val) :
    bindParams (mapPos g params) (mapPosList g args) = mapBind g (bindParams params args) := by
  cases params with
  | list bs p =>
    have := bindLoop_map hg bs args bs.length args.length []
    simpa only [mapPos, bindParams, mapPosList_length, mapPosMap] using this
  | vec bs p =>
    have := bindLoop_map hg bs args bs.length args.length []
    simpa only [mapPos, bindParams, mapPosList_length, mapPosMap] using this
  | _ => simp [mapPos, bindParams, mapBind, mapErr, mapPosMap]

end binds

section trysplit
variable {g : Option Pos → Option Pos}

def mapParts (g : Option Pos → Option Pos) (p : TryParts) : TryParts :=
  { body := mapPosList g p.body, catchBind := p.catchBind.map (mapPos g),
    catchDo := p.catchDo.map (mapPosList g), finallyDo := p.finallyDo.map (mapPosList g) }

/-- the `clause` helper of `splitTry` -/
def tryClause (c : Val) : Except String (Val × List Val) :=
  match c with
  | .list (_ :: b :: d) _ => if d.isEmpty then .error "catch must have 2 arguments at least" else .ok (b, d)
  | _ => .error "catch must have 2 arguments at least"

def finOf (last : Val) : List Val := match last with | .list (_ :: f) _ => f | _ => []

theorem splitTry_eq (lst : List Val) :
    splitTry lst =
      (let n := lst.length
       let last := lst.getLast?.getD .nil
       let prelast := if n ≥ 3 then lst.getD (n - 2) .nil else .nil
       if firstSym last = "catch" then
         match tryClause last with
         | .error m => .error m
         | .ok (b, d) => .ok { body := (lst.drop 1).take (n - 2), catchBind := some b, catchDo := some d }
       else if firstSym last = "finally" then
         if firstSym prelast = "catch" then
           match tryClause prelast with
           | .error m => .error m
           | .ok (b, d) => .ok { body := (lst.drop 1).take (n - 3), catchBind := some b, catchDo := some d, finallyDo := some (finOf last) }
         else .ok { body := (lst.drop 1).take (n - 2), finallyDo := some (finOf last) }
       else .ok { body := lst.drop 1 }) := rfl

theorem tryClause_map (c : Val) :
    tryClause (mapPos g c) =
      match tryClause c with
      | .error m => .error m
      | .ok (b, d) => .ok (mapPos g b, mapPosList g d) := by
  cases c with
  | list xs p =>
    match xs with
    | [] => rfl
    | [_] => rfl
    | a :: b :: d =>
      simp only [mapPos, mapPosList_cons, tryClause, mapPosList_isEmpty]
      split <;> rfl
  | _ => rfl

theorem finOf_map (c : Val) : finOf (mapPos g c) = mapPosList g (finOf c) := by
  cases c with
  | list xs p => cases xs <;> rfl
  | _ => rfl

def mapSplit (g : Option Pos → Option Pos) : Except String TryParts → Except String TryParts
  | .ok p => .ok (mapParts g p)
  | .error m => .error m

theorem splitTry_map (lst : List Val) : splitTry (mapPosList g lst) = mapSplit g (splitTry lst) := by
  rw [splitTry_eq, splitTry_eq]
  simp only [mapPosList_length, mapPosList_getLastD]
  have hpre : (if lst.length ≥ 3 then (mapPosList g lst).getD (lst.length - 2) .nil else .nil) =
      mapPos g (if lst.length ≥ 3 then lst.getD (lst.length - 2) .nil else .nil) := by
    split
    · exact mapPosList_getD _ _ _
    · rfl
  rw [hpre]
  generalize (if lst.length ≥ 3 then lst.getD (lst.length - 2) .nil else .nil) = prelast
  generalize lst.getLast?.getD .nil = last
  simp only [firstSym_map, tryClause_map, finOf_map, mapPosList_drop, mapPosList_take]
  split
  · cases tryClause last with
    | error m => rfl
    | ok bd => obtain ⟨b, d⟩ := bd; rfl
  split
  · split
    · cases tryClause prelast with
      | error m => rfl
      | ok bd => obtain ⟨b, d⟩ := bd; rfl
    · rfl
  · rfl

end trysplit

section stateops
variable {g : Option Pos → Option Pos}

theorem mapSt_scope? (st : State) (id : Nat) :
    (mapSt g st).scope? id = (st.scope? id).map (mapScope g) := by
  simp [mapSt, State.scope?]

theorem mapSt_getAux (st : State) : ∀ n id k,
    (mapSt g st).getAux n id k = (st.getAux n id k).map (mapPos g) := by
  intro n
  induction n with
  | zero => intro id k; rfl
  | succ n ih =>
    intro id k
    simp only [State.getAux, mapSt_scope?]
    cases st.scope? id with
    | none => rfl
    | some sc =>
      simp only [Option.map_some, mapScope, alookup_map]
      cases alookup k sc.data with
      | some v => rfl
      | none =>
        simp only [Option.map_none]
        cases sc.outer with
        | none => rfl
        | some o => exact ih o k

theorem mapSt_get (st : State) (env : Nat) (k : String) :
    (mapSt g st).get env k = (st.get env k).map (mapPos g) := by
  unfold State.get
  rw [mapSt_getAux]
  simp [mapSt]

theorem mapSt_set (st : State) (env : Nat) (k : String) (v : Val) :
    (mapSt g st).set env k (mapPos g v) = mapSt g (st.set env k v) := by
  unfold State.set
  rw [mapSt_scope?]
  cases h : st.scope? env with
  | none => rfl
  | some sc =>
    simp only [Option.map_some, mapSt, mapScope, ainsert_map]
    congr 1
    rw [Array.map_setIfInBounds]; rfl

theorem mapSt_newScope (st : State) (outer : Nat) (data : List (String × Val)) :
    (mapSt g st).newScope outer (mapPosMap g data) =
      (mapSt g (st.newScope outer data).1, (st.newScope outer data).2) := by
  simp [State.newScope, mapSt, mapScope]

theorem mapSt_newAtom (st : State) (v : Val) :
    (mapSt g st).newAtom (mapPos g v) = (mapSt g (st.newAtom v).1, (st.newAtom v).2) := by
  simp [State.newAtom, mapSt]

theorem mapSt_poll (st : State) : (mapSt g st).poll = (st.poll.1, mapSt g st.poll.2) := rfl

theorem mapSt_stepper (st : State) : (mapSt g st).stepper = st.stepper.map (mapStepper g) := rfl

theorem outing1Defer_map (st : State) : outing1Defer (mapSt g st) = mapSt g (outing1Defer st) := by
  unfold outing1Defer
  rw [mapSt_stepper]
  cases h : st.stepper with
  | none => rfl
  | some sp =>
    simp only [Option.map_some, mapStepper]
    split
    · simp [mapSt, mapStepper]
    · rfl

end stateops

/-! ### the pure builtins, name by name (`rfl`-unfoldings of `Core.body`, generated from its source) -/
section bodyeq
set_option autoImplicit true
set_option relaxedAutoImplicit true
theorem bodyEq_add : body "+" ([.int x, .int y]) =
    (.ok (.int (x + y))) := rfl
theorem bodyEq_sub : body "-" ([.int x, .int y]) =
    (.ok (.int (x - y))) := rfl
theorem bodyEq_mul : body "*" ([.int x, .int y]) =
    (.ok (.int (x * y))) := rfl
theorem bodyEq_div : body "/" ([.int x, .int y]) =
    (if y = 0 then .goerr "runtime error: integer divide by zero" else .ok (.int (Int.tdiv x y))) := rfl
theorem bodyEq_lt : body "<" ([.int x, .int y]) =
    (bool (x < y)) := rfl
theorem bodyEq_le : body "<=" ([.int x, .int y]) =
    (bool (x ≤ y)) := rfl
theorem bodyEq_gt : body ">" ([.int x, .int y]) =
    (bool (x > y)) := rfl
theorem bodyEq_ge : body ">=" ([.int x, .int y]) =
    (bool (x ≥ y)) := rfl
theorem bodyEq_eq : body "=" ([x, y]) =
    (bool (equalQ x y)) := rfl
theorem bodyEq_throw : body "throw" ([v]) =
    ((match v with | .goerr m => .goerr m | v => .thrown v)) := rfl
theorem bodyEq_list : body "list" (xs) =
    (.ok (.list xs none)) := rfl
theorem bodyEq_vector : body "vector" (xs) =
    (.ok (.vec xs none)) := rfl
theorem bodyEq_hash_map : body "hash-map" (xs) =
    ((match xs with
     | [] => .ok (.map [])
     | [_] => .goerr "interface conversion"
     | _ => newHashMap xs)) := rfl
theorem bodyEq_hash_set : body "hash-set" (xs) =
    (newSet xs []) := rfl
theorem bodyEq_set : body "set" ([v]) =
    ((match v with
     | .nil => .ok (.set [])
     | _ => match seqOf? v with
       | some xs => newSet xs []
       | none => .goerr "GetSlice called on non-sequence")) := rfl
theorem bodyEq_assoc : body "assoc" (xs) =
    (assoc xs) := rfl
theorem bodyEq_dissoc : body "dissoc" (xs) =
    (dissoc xs) := rfl
theorem bodyEq_get : body "get" ([h, k]) =
    (get h k) := rfl
theorem bodyEq_get_in : body "get-in" ([h, p]) =
    ((match h with
     | .nil => .ok .nil
     | _ => match p with
       | .vec path _ => getIn h path
       | _ => .goerr "get-in index must be a vector")) := rfl
theorem bodyEq_assoc_in : body "assoc-in" ([h, .vec path p0, d]) =
    (assocIn h path d) := rfl
theorem bodyEq_containsQ : body "contains?" ([h, .str k]) =
    ((match h with
     | .nil => bool false
     | .map m => bool (alookup k m).isSome
     | .set s => bool (s.contains k)
     | _ => .goerr "get called on non-hash map and a non-set")) := rfl
theorem bodyEq_keys : body "keys" ([h]) =
    ((match h with | .map m => .ok (.list (m.map (fun kv => .str kv.1)) none) | _ => .goerr "keys called on non-hash map")) := rfl
theorem bodyEq_vals : body "vals" ([h]) =
    ((match h with | .map m => .ok (.list (m.map (·.2)) none) | _ => .goerr "vals called on non-hash map")) := rfl
theorem bodyEq_merge : body "merge" ([x, y]) =
    ((match x, y with
     | .nil, .nil => .ok .nil
     | .nil, .map m => .ok (.map (m.foldl (fun acc kv => ainsert kv.1 kv.2 acc) []))
     | .map m, .nil => .ok (.map (m.foldl (fun acc kv => ainsert kv.1 kv.2 acc) []))
     | .map m1, .map m2 => .ok (.map (m2.foldl (fun acc kv => ainsert kv.1 kv.2 acc) m1))
     | _, _ => .goerr "expected hash map")) := rfl
theorem bodyEq_rename_keys : body "rename-keys" ([.map d, .map alt]) =
    (renameKeys d alt) := rfl
theorem bodyEq_cons : body "cons" ([x, s]) =
    ((match seqOf? s with | some xs => .ok (.list (x :: xs) none) | none => .goerr "GetSlice called on non-sequence")) := rfl
theorem bodyEq_concat : body "concat" (xs) =
    ((match xs with
     | [] => .ok (.list [] none)
     | _ => if xs.all (fun x => (seqOf? x).isSome) then .ok (.list (xs.flatMap (fun x => (seqOf? x).getD [])) none)
            else .goerr "GetSlice called on non-sequence")) := rfl
theorem bodyEq_vec : body "vec" ([s]) =
    ((match s with
     | .set ks => .ok (.vec (ks.map .str) none)
     | .list xs _ => .ok (.vec xs none)
     | .vec xs _ => .ok (.vec xs none)
     | _ => .goerr "cannot convert from type")) := rfl
theorem bodyEq_nth : body "nth" ([s, .int i]) =
    ((match seqOf? s with
     | none => .goerr "GetSlice called on non-sequence"
     | some xs =>
       if i < 0 then .goerr "runtime error: index out of range"
       else if i.toNat < xs.length then .ok (xs.getD i.toNat .nil) else .goerr "nth: index out of range")) := rfl
theorem bodyEq_first : body "first" ([s]) =
    ((match s with
     | .nil => .ok .nil
     | _ => match seqOf? s with
       | none => .goerr "GetSlice called on non-sequence"
       | some xs => .ok (xs.headD .nil))) := rfl
theorem bodyEq_rest : body "rest" ([s]) =
    ((match s with
     | .nil => .ok (.list [] none)
     | _ => match seqOf? s with
       | none => .goerr "GetSlice called on non-sequence"
       | some xs => .ok (.list xs.tail none))) := rfl
theorem bodyEq_count : body "count" ([s]) =
    ((match s with
     | .list xs _ => .ok (.int xs.length)
     | .vec xs _ => .ok (.int xs.length)
     | .map m => .ok (.int m.length)
     | .set ks => .ok (.int ks.length)
     | .nil => .ok (.int 0)
     | _ => .goerr "count called on non-sequence type")) := rfl
theorem bodyEq_emptyQ : body "empty?" ([s]) =
    ((match s with
     | .list xs _ => bool xs.isEmpty
     | .vec xs _ => bool xs.isEmpty
     | .map m => bool m.isEmpty
     | .set ks => bool ks.isEmpty
     | .nil => bool true
     | _ => .goerr "empty? called on non-sequence")) := rfl
theorem bodyEq_conj : body "conj" (s :: xs) =
    ((match s with
     | .list ys _ => .ok (.list (xs.reverse ++ ys) none)
     | .vec ys _ => .ok (.vec (ys ++ xs) none)
     | .map m => if xs.length % 2 ≠ 0 then .goerr "conj called with on a hash map requires an odd number of arguments" else conjMap xs m
     | .set ks => addKeys "conj" xs ks
     | _ => .goerr "conj called on non-hash map and a non-list and a non-set and a non-vector")) := rfl
theorem bodyEq_seq : body "seq" ([s]) =
    ((match s with
     | .nil => .ok .nil
     | .list xs p => if xs.isEmpty then .ok .nil else .ok (.list xs p)
     | .vec xs _ => if xs.isEmpty then .ok .nil else .ok (.list xs none)
     | .set ks => .ok (.list (ks.map .str) none)
     | .str str => if str.toList.isEmpty then .ok .nil else .ok (.list (str.toList.map (fun c => .str (String.ofList [c]))) none)
     | _ => .goerr "seq requires string or list or vector or nil")) := rfl
theorem bodyEq_take : body "take" ([.int n, s]) =
    ((match s with
     | .nil => .ok (.list [] none)
     | _ => match seqOf? s with
       | some xs => .ok (.list (xs.take n.toNat) none)
       | none => .goerr "take called on non-list and non-vector")) := rfl
theorem bodyEq_take_last : body "take-last" ([.int n, s]) =
    ((match s with
     | .nil => .ok .nil
     | _ => match seqOf? s with
       | some xs =>
         let r := xs.drop (xs.length - n.toNat)
         if r.isEmpty then .ok .nil else .ok (.list r none)
       | none => .goerr "take called on non-list and non-vector")) := rfl
theorem bodyEq_drop : body "drop" ([.int n, s]) =
    ((match s with
     | .nil => .ok (.list [] none)
     | _ => match seqOf? s with
       | some xs => .ok (.list (xs.drop n.toNat) none)
       | none => .goerr "drop called on non-list and non-vector")) := rfl
theorem bodyEq_drop_last : body "drop-last" ([.int n, s]) =
    ((match s with
     | .nil => .ok (.list [] none)
     | _ => match seqOf? s with
       | some xs => .ok (.list (xs.take (xs.length - n.toNat)) none)
       | none => .goerr "drop called on non-list and non-vector")) := rfl
theorem bodyEq_subvec : body "subvec" (v :: idx) =
    ((match v with
     | .vec xs _ =>
       (match idx with
        | [.int f] =>
          if 0 ≤ f ∧ f.toNat ≤ xs.length then .ok (.vec (xs.drop f.toNat) none) else .goerr "subvec index out of range"
        | [.int f, .int t] =>
          if 0 ≤ f ∧ f ≤ t ∧ t.toNat ≤ xs.length then .ok (.vec ((xs.take t.toNat).drop f.toNat) none)
          else .goerr "subvec index out of range"
        | _ => .goerr "interface conversion")
     | _ => .goerr "subvec requires a vector")) := rfl
theorem bodyEq_range : body "range" ([.int f, .int t]) =
    (.ok (.vec (rangeList (t - f).toNat f) none)) := rfl
theorem bodyEq_symbol : body "symbol" ([.str s]) =
    (.ok (.sym s none)) := rfl
theorem bodyEq_keyword : body "keyword" ([.str s]) =
    (if Val.isKwStr s then .ok (.str s) else .ok (.str (String.ofList (kwMarker :: s.toList)))) := rfl
theorem bodyEq_str : body "str" (xs) =
    (.ok (prList false [] xs)) := rfl
theorem bodyEq_pr_str : body "pr-str" (xs) =
    (.ok (prList true [' '] xs)) := rfl
theorem bodyEq_typeQ : body "type?" ([v]) =
    (.ok (.str (typeName v))) := rfl
theorem bodyEq_nilQ : body "nil?" ([v]) =
    (bool (match v with | .nil => true | _ => false)) := rfl
theorem bodyEq_trueQ : body "true?" ([v]) =
    (bool (match v with | .bool true => true | _ => false)) := rfl
theorem bodyEq_falseQ : body "false?" ([v]) =
    (bool (match v with | .bool false => true | _ => false)) := rfl
theorem bodyEq_symbolQ : body "symbol?" ([v]) =
    (bool (match v with | .sym _ _ => true | _ => false)) := rfl
theorem bodyEq_keywordQ : body "keyword?" ([v]) =
    (bool (match v with | .str s => Val.isKwStr s | _ => false)) := rfl
theorem bodyEq_stringQ : body "string?" ([v]) =
    (bool (match v with | .str s => !Val.isKwStr s | _ => false)) := rfl
theorem bodyEq_numberQ : body "number?" ([v]) =
    (bool (match v with | .int _ => true | _ => false)) := rfl
theorem bodyEq_fnQ : body "fn?" ([v]) =
    (bool (match v with | .fn _ _ _ m _ => !m | .builtin _ => true | _ => false)) := rfl
theorem bodyEq_macroQ : body "macro?" ([v]) =
    (bool (match v with | .fn _ _ _ m _ => m | _ => false)) := rfl
theorem bodyEq_listQ : body "list?" ([v]) =
    (bool (match v with | .list _ _ => true | _ => false)) := rfl
theorem bodyEq_vectorQ : body "vector?" ([v]) =
    (bool (match v with | .vec _ _ => true | _ => false)) := rfl
theorem bodyEq_mapQ : body "map?" ([v]) =
    (bool (match v with | .map _ => true | _ => false)) := rfl
theorem bodyEq_setQ : body "set?" ([v]) =
    (bool (match v with | .set _ => true | _ => false)) := rfl
theorem bodyEq_atomQ : body "atom?" ([v]) =
    (bool (match v with | .atom _ => true | _ => false)) := rfl
theorem bodyEq_sequentialQ : body "sequential?" ([v]) =
    (bool (seqOf? v).isSome) := rfl
theorem bodyEq_assert : body "assert" (a0 :: r) =
    ((match a0 with
     | .nil | .bool false =>
       (match r with
        | [] | [.nil] => .goerr (if a0 matches .nil then "assertion failed: nil" else "assertion failed: false")
        | [.str s] => .goerr s
        | [v] => .thrown v
        | _ => .goerr "one or two parameters required")
     | _ => .ok .nil)) := rfl
end bodyeq

section corehelpers
variable {g : Option Pos → Option Pos}

mutual
theorem equalQ_map : ∀ a b : Val, equalQ (mapPos g a) (mapPos g b) = equalQ a b
  | .list xs _, b => by
    cases b <;> simp only [mapPos, equalQ]
    · exact equalQList_map xs _
    · exact equalQList_map xs _
  | .vec xs _, b => by
    cases b <;> simp only [mapPos, equalQ]
    · exact equalQList_map xs _
    · exact equalQList_map xs _
  | .map m, b => by
    cases b <;> simp only [mapPos, equalQ]
    rw [equalQMap_map m, mapPosMap_eq, mapPosMap_eq]; simp
  | .nil, b => by cases b <;> simp only [mapPos, equalQ]
  | .bool _, b => by cases b <;> simp only [mapPos, equalQ]
  | .int _, b => by cases b <;> simp only [mapPos, equalQ]
  | .str _, b => by cases b <;> simp only [mapPos, equalQ]
  | .sym _ _, b => by cases b <;> simp only [mapPos, equalQ]
  | .set _, b => by cases b <;> simp only [mapPos, equalQ]
  | .fn .., b => by cases b <;> simp only [mapPos, equalQ]
  | .builtin _, b => by cases b <;> simp only [mapPos, equalQ]
  | .atom _, b => by cases b <;> simp only [mapPos, equalQ]
  | .future _, b => by cases b <;> simp only [mapPos, equalQ]
  | .goerr _, b => by cases b <;> simp only [mapPos, equalQ]
  | .opaque _, b => by cases b <;> simp only [mapPos, equalQ]
theorem equalQList_map : ∀ xs ys : List Val,
    equalQList (mapPosList g xs) (mapPosList g ys) = equalQList xs ys
  | [], ys => by cases ys <;> simp only [mapPosList, equalQList]
  | x :: xs, ys => by
    cases ys with
    | nil => simp only [mapPosList, equalQList]
    | cons y ys => simp only [mapPosList, equalQList, equalQ_map x y, equalQList_map xs ys]
theorem equalQMap_map : ∀ m1 m2 : List (String × Val),
    equalQMap (mapPosMap g m1) (mapPosMap g m2) = equalQMap m1 m2
  | [], m2 => by simp only [mapPosMap, equalQMap]
  | (k, v) :: r, m2 => by
    simp only [mapPosMap, equalQMap, alookup_map, equalQMap_map r m2]
    cases alookup k m2 with
    | none => rfl
    | some w => simp only [Option.map_some, equalQ_map v w]
end

mutual
theorem prStr_map (r : Bool) : ∀ v : Val, Print.prStr r (mapPos g v) = Print.prStr r v
  | .list xs p => by
    show '(' :: Print.intercalate [' '] (Print.prList r (mapPosList g xs)) ++ [')'] =
      '(' :: Print.intercalate [' '] (Print.prList r xs) ++ [')']
    rw [prList_map r xs]
  | .vec xs p => by
    show '[' :: Print.intercalate [' '] (Print.prList r (mapPosList g xs)) ++ [']'] =
      '[' :: Print.intercalate [' '] (Print.prList r xs) ++ [']']
    rw [prList_map r xs]
  | .map m => by
    show '{' :: Print.intercalate [' '] (Print.prMap r (mapPosMap g m)) ++ ['}'] =
      '{' :: Print.intercalate [' '] (Print.prMap r m) ++ ['}']
    rw [prMap_map r m]
  | .fn ps b _ _ _ => by
    show "(fn ".toList ++ Print.prStr true (mapPos g ps) ++ [' '] ++ Print.prStr true (mapPos g b) ++ [')'] =
      "(fn ".toList ++ Print.prStr true ps ++ [' '] ++ Print.prStr true b ++ [')']
    rw [prStr_map true ps, prStr_map true b]
  | .nil => rfl
  | .bool _ => rfl
  | .int _ => rfl
  | .str _ => rfl
  | .sym _ _ => rfl
  | .set _ => rfl
  | .builtin _ => rfl
  | .atom _ => rfl
  | .future _ => rfl
  | .goerr _ => rfl
  | .opaque _ => rfl
theorem prList_map (r : Bool) : ∀ xs : List Val, Print.prList r (mapPosList g xs) = Print.prList r xs
  | [] => rfl
  | x :: xs => by
    show Print.prStr r (mapPos g x) :: Print.prList r (mapPosList g xs) = Print.prStr r x :: Print.prList r xs
    rw [prStr_map r x, prList_map r xs]
theorem prMap_map (r : Bool) : ∀ m : List (String × Val), Print.prMap r (mapPosMap g m) = Print.prMap r m
  | [] => rfl
  | (k, v) :: m => by
    show Print.prString r k :: Print.prStr r (mapPos g v) :: Print.prMap r (mapPosMap g m) =
      Print.prString r k :: Print.prStr r v :: Print.prMap r m
    rw [prStr_map r v, prMap_map r m]
end

theorem prList_eq_map (r : Bool) (xs : List Val) : Print.prList r xs = xs.map (Print.prStr r) := by
  induction xs with
  | nil => rfl
  | cons x xs ih =>
    show Print.prStr r x :: Print.prList r xs = _
    rw [ih]; rfl

theorem corePrList_map (r : Bool) (sep : List Char) (xs : List Val) :
    Core.prList r sep (mapPosList g xs) = Core.prList r sep xs := by
  unfold Core.prList
  rw [← prList_eq_map, ← prList_eq_map, prList_map]

theorem rangeList_map (n : Nat) (f : Int) : mapPosList g (rangeList n f) = rangeList n f := by
  induction n generalizing f with
  | zero => rfl
  | succ n ih => simp [rangeList, mapPos, ih]

theorem isStr_map (v : Val) : isStr (mapPos g v) = isStr v := by cases v <;> rfl

theorem fits_map (p : PK) (v : Val) : fits p (mapPos g v) = fits p v := by
  cases p <;> cases v <;> rfl

theorem typeName_map (v : Val) : typeName (mapPos g v) = typeName v := by cases v <;> rfl

end corehelpers

/-- `g`-image of the outcome of a pure builtin -/
def mapBRes (g : Option Pos → Option Pos) : BRes → BRes
  | .ok v => .ok (mapPos g v)
  | .thrown v => .thrown (mapPos g v)
  | .goerr m => .goerr m

section corefuns
variable {g : Option Pos → Option Pos} (hg : PosMap g)

theorem newHashMapLoop_map : ∀ (xs : List Val) (m : List (String × Val)),
    Core.newHashMapLoop (mapPosList g xs) (mapPosMap g m) = mapBRes g (Core.newHashMapLoop xs m)
  | [], m => rfl
  | [x], m => by cases x <;> rfl
  | a :: v :: r, m => by
    cases a <;> simp only [mapPosList, mapPos, Core.newHashMapLoop] <;> try rfl
    rw [ainsert_map]; exact newHashMapLoop_map r _

theorem newHashMap_map (xs : List Val) : Core.newHashMap (mapPosList g xs) = mapBRes g (Core.newHashMap xs) := by
  unfold Core.newHashMap
  rw [mapPosList_length]
  split
  · rfl
  · exact newHashMapLoop_map xs []

theorem newSet_map : ∀ (xs : List Val) (s : List String),
    Core.newSet (mapPosList g xs) s = mapBRes g (Core.newSet xs s)
  | [], s => rfl
  | a :: r, s => by
    cases a <;> simp only [mapPosList, mapPos, Core.newSet] <;> try rfl
    exact newSet_map r _

theorem addKeys_map (what : String) : ∀ (xs : List Val) (s : List String),
    addKeys what (mapPosList g xs) s = mapBRes g (addKeys what xs s)
  | [], s => rfl
  | a :: r, s => by
    cases a <;> simp only [mapPosList, mapPos, addKeys] <;> try rfl
    exact addKeys_map what r _

theorem assocMap_map : ∀ (xs : List Val) (m : List (String × Val)),
    assocMap (mapPosList g xs) (mapPosMap g m) = mapBRes g (assocMap xs m)
  | [], m => rfl
  | [x], m => by cases x <;> rfl
  | a :: v :: r, m => by
    cases a <;> simp only [mapPosList, mapPos, assocMap] <;> try rfl
    rw [ainsert_map]; exact assocMap_map r _

theorem conjMap_map : ∀ (xs : List Val) (m : List (String × Val)),
    conjMap (mapPosList g xs) (mapPosMap g m) = mapBRes g (conjMap xs m)
  | [], m => rfl
  | [x], m => by cases x <;> rfl
  | a :: v :: r, m => by
    cases a <;> simp only [mapPosList, mapPos, conjMap] <;> try rfl
    rw [ainsert_map]; exact conjMap_map r _

theorem mapPosList_set (xs : List Val) (i : Nat) (v : Val) :
    (mapPosList g xs).set i (mapPos g v) = mapPosList g (xs.set i v) := by
  simp [mapPosList_eq, List.map_set]

include hg in
theorem assocVec_map : ∀ (r xs : List Val),
    assocVec (mapPosList g r) (mapPosList g xs) = mapBRes g (assocVec r xs)
  | [], xs => by simp [assocVec, mapBRes, mapPos, hg.none]
  | [x], xs => by cases x <;> rfl
  | a :: v :: r, xs => by
    cases a <;> simp only [mapPosList, mapPos, assocVec] <;> try rfl
    rw [mapPosList_length]
    split
    · rw [mapPosList_set]; exact assocVec_map r _
    · rfl

include hg in
theorem assoc_map (a : List Val) : Core.assoc (mapPosList g a) = mapBRes g (Core.assoc a) := by
  cases a with
  | nil => rfl
  | cons x r =>
    cases x <;> simp only [mapPosList, mapPos, Core.assoc, List.length_cons, mapPosList_length] <;> try rfl
    · split
      · rfl
      · exact assocVec_map hg r _
    · split
      · rfl
      · split
        · rfl
        · exact assocMap_map r _
    · split
      · rfl
      · exact addKeys_map "assoc" r _

theorem aerase_map (k : String) (m : List (String × Val)) :
    aerase k (mapPosMap g m) = mapPosMap g (aerase k m) := by
  induction m with
  | nil => rfl
  | cons kv m ih =>
    obtain ⟨k', v⟩ := kv
    simp only [mapPosMap, aerase]
    split
    · rfl
    · simp only [mapPosMap, ih]

theorem all_isStr_map (r : List Val) : (mapPosList g r).all isStr = r.all isStr := by
  induction r with
  | nil => rfl
  | cons x r ih => simp only [mapPosList, List.all_cons, isStr_map, ih]

theorem foldl_map_gen {α : Type} (f : α → α) (step : α → Val → α)
    (hstep : ∀ m k, step (f m) (mapPos g k) = f (step m k)) (r : List Val) (m : α) :
    (mapPosList g r).foldl step (f m) = f (r.foldl step m) := by
  induction r generalizing m with
  | nil => rfl
  | cons x r ih => simp only [mapPosList, List.foldl_cons, hstep, ih]

theorem foldl_map_gen0 {α : Type} (step : α → Val → α)
    (hstep : ∀ m k, step m (mapPos g k) = step m k) (r : List Val) (m : α) :
    (mapPosList g r).foldl step m = r.foldl step m := by
  induction r generalizing m with
  | nil => rfl
  | cons x r ih => simp only [mapPosList, List.foldl_cons, hstep, ih]

theorem dissoc_map (a : List Val) : Core.dissoc (mapPosList g a) = mapBRes g (Core.dissoc a) := by
  unfold Core.dissoc
  rw [mapPosList_length]
  split
  · rfl
  · cases a with
    | nil => rfl
    | cons x r =>
      cases x <;> simp only [mapPosList, mapPos, all_isStr_map] <;> try rfl
      · split
        · rw [foldl_map_gen (mapPosMap g)]
          · rfl
          · intro m k; cases k <;> first | rfl | exact aerase_map _ _
        · rfl
      · split
        · rw [foldl_map_gen0]
          · rfl
          · intro m k; cases k <;> rfl
        · rfl

theorem contains_eq (s : List String) (k : String) : s.contains k = s.contains k := rfl

theorem get_map (hm key : Val) : Core.get (mapPos g hm) (mapPos g key) = mapBRes g (Core.get hm key) := by
  cases key with
  | str k =>
    cases hm <;> simp only [mapPos, Core.get] <;> try rfl
    · rw [alookup_map]; cases alookup k ‹List (String × Val)› <;> rfl
    · split <;> rfl
  | int i =>
    cases hm <;> simp only [mapPos, Core.get, mapPosList_length] <;> try rfl
    · split
      · rw [mapPosList_getD]; rfl
      · rfl
    · split
      · rw [mapPosList_getD]; rfl
      · rfl
  | _ => cases hm <;> rfl

/-- the `branch` computation shared by `getIn` / `assocIn` / `updateIn`, on maps -/
theorem branch_map_lookup (k : String) (m : List (String × Val)) :
    (match (alookup k (mapPosMap g m)).getD .nil with | .nil => Val.map [] | b => b) =
      mapPos g (match (alookup k m).getD .nil with | .nil => Val.map [] | b => b) := by
  rw [alookup_map]
  cases alookup k m with
  | none => rfl
  | some v => cases v <;> rfl

include hg in
theorem branch_list_getD (xs : List Val) (n : Nat) :
    (match (mapPosList g xs).getD n .nil with | .nil => Val.list [] none | b => b) =
      mapPos g (match xs.getD n .nil with | .nil => Val.list [] none | b => b) := by
  rw [mapPosList_getD]
  cases xs.getD n .nil <;> simp [mapPos, hg.none]

include hg in
theorem branch_vec_getD (xs : List Val) (n : Nat) :
    (match (mapPosList g xs).getD n .nil with | .nil => Val.vec [] none | b => b) =
      mapPos g (match xs.getD n .nil with | .nil => Val.vec [] none | b => b) := by
  rw [mapPosList_getD]
  cases xs.getD n .nil <;> simp [mapPos, hg.none]

/-- the `branch` of `_getIn` -/
def getBranch (v i : Val) : Option Val :=
  match v, i with
  | .map m, .str k => some (match (alookup k m).getD .nil with | .nil => .map [] | b => b)
  | .list xs _, .int n => if 0 ≤ n ∧ n.toNat < xs.length then some (match xs.getD n.toNat .nil with | .nil => .list [] none | b => b) else none
  | .vec xs _, .int n => if 0 ≤ n ∧ n.toNat < xs.length then some (match xs.getD n.toNat .nil with | .nil => .vec [] none | b => b) else none
  | .map _, _ => none
  | .list _ _, _ => none
  | .vec _ _, _ => none
  | _, _ => some .nil

theorem getIn_cons2 (v i j : Val) (rest : List Val) :
    getIn v (i :: j :: rest) =
      match getBranch v i with
      | none => .goerr "interface conversion or index out of range"
      | some b => getIn b (j :: rest) := rfl

include hg in
theorem getBranch_map (v i : Val) :
    getBranch (mapPos g v) (mapPos g i) = (getBranch v i).map (mapPos g) := by
  cases v with
  | map m =>
    cases i <;> simp only [mapPos, getBranch] <;> try rfl
    rw [branch_map_lookup]; rfl
  | list xs p =>
    cases i <;> simp only [mapPos, getBranch, mapPosList_length] <;> try rfl
    split
    · rw [branch_list_getD hg]; rfl
    · rfl
  | vec xs p =>
    cases i <;> simp only [mapPos, getBranch, mapPosList_length] <;> try rfl
    split
    · rw [branch_vec_getD hg]; rfl
    · rfl
  | _ => cases i <;> rfl

include hg in
theorem getIn_map : ∀ (path : List Val) (v : Val),
    getIn (mapPos g v) (mapPosList g path) = mapBRes g (getIn v path)
  | [], v => rfl
  | [i], v => get_map v i
  | i :: j :: rest, v => by
    simp only [mapPosList, getIn_cons2, getBranch_map hg]
    cases getBranch v i with
    | none => rfl
    | some b => exact getIn_map (j :: rest) b

/-- the `branch` of `_assocIn` -/
def assocBranch (v i : Val) : Option Val :=
  match v, i with
  | .map m, .str k => some (match (alookup k m).getD .nil with | .nil => .map [] | b => b)
  | .vec xs _, .int n => if 0 ≤ n ∧ n.toNat < xs.length then some (match xs.getD n.toNat .nil with | .nil => .vec [] none | b => b) else none
  | .map _, _ => none
  | .vec _ _, _ => none
  | _, _ => some .nil

theorem assocIn_cons2 (v i j : Val) (rest : List Val) (nv : Val) :
    assocIn v (i :: j :: rest) nv =
      match assocBranch v i with
      | none => .goerr "interface conversion or index out of range"
      | some b =>
        match assocIn b (j :: rest) nv with
        | .ok inner => Core.assoc [v, i, inner]
        | r => r := rfl

include hg in
theorem assocBranch_map (v i : Val) :
    assocBranch (mapPos g v) (mapPos g i) = (assocBranch v i).map (mapPos g) := by
  cases v with
  | map m =>
    cases i <;> simp only [mapPos, assocBranch] <;> try rfl
    rw [branch_map_lookup]; rfl
  | vec xs p =>
    cases i <;> simp only [mapPos, assocBranch, mapPosList_length] <;> try rfl
    split
    · rw [branch_vec_getD hg]; rfl
    · rfl
  | _ => cases i <;> rfl

include hg in
theorem assocIn_map : ∀ (path : List Val) (v nv : Val),
    assocIn (mapPos g v) (mapPosList g path) (mapPos g nv) = mapBRes g (assocIn v path nv)
  | [], v, nv => rfl
  | [i], v, nv => assoc_map hg [v, i, nv]
  | i :: j :: rest, v, nv => by
    simp only [mapPosList, assocIn_cons2, assocBranch_map hg]
    cases assocBranch v i with
    | none => rfl
    | some b =>
      have ih := assocIn_map (j :: rest) b nv
      simp only [mapPosList, Option.map_some] at ih ⊢
      rw [ih]
      cases assocIn b (j :: rest) nv with
      | ok inner => exact assoc_map hg [v, i, inner]
      | thrown t => rfl
      | goerr m => rfl

theorem foldl_kv_gen {α : Type} (f : α → α) (step step' : α → String × Val → α)
    (hstep : ∀ acc k v, step' (f acc) (k, mapPos g v) = f (step acc (k, v)))
    (d : List (String × Val)) (acc : α) :
    (mapPosMap g d).foldl step' (f acc) = f (d.foldl step acc) := by
  induction d generalizing acc with
  | nil => rfl
  | cons kv d ih =>
    obtain ⟨k, v⟩ := kv
    simp only [mapPosMap, List.foldl_cons, hstep, ih]

theorem renameKeys_map (data alt : List (String × Val)) :
    renameKeys (mapPosMap g data) (mapPosMap g alt) = mapBRes g (renameKeys data alt) := by
  unfold renameKeys
  simp only []
  have h0 : (some [] : Option (List (String × Val))) = (some []).map (mapPosMap g) := rfl
  conv => lhs; rw [h0]
  rw [foldl_kv_gen (Option.map (mapPosMap g))]
  · cases List.foldl _ (some []) data <;> rfl
  · intro acc k v
    cases acc with
    | none => rfl
    | some out =>
      simp only [Option.map_some, Option.bind_some, alookup_map]
      cases alookup k alt with
      | none => simp only [Option.map_none, Option.map_some, ainsert_map]
      | some w => cases w <;> simp only [Option.map_some, mapPos, ainsert_map, Option.map_none]

end corefuns

/-! ### the pure builtins commute with `mapPos` -/

theorem sigOf_mem {name : String} {s : Sig} (h : sigOf name = some s) : name ∈ pureNames := by
  unfold sigOf at h
  simp only [] at h
  split at h
  all_goals first | (cases h; done) | simp [pureNames]

theorem checkSig_map {g : Option Pos → Option Pos} (s : Sig) (args : List Val) :
    checkSig s (mapPosList g args) = checkSig s args := by
  cases s with
  | variadic mn mx => simp only [checkSig, mapPosList_length]
  | fixed ps =>
    simp only [checkSig, mapPosList_length]
    have : ∀ (ps : List PK) (args : List Val),
        (ps.zip (mapPosList g args)).all (fun (p, a) => fits p a) = (ps.zip args).all (fun (p, a) => fits p a) := by
      intro ps
      induction ps with
      | nil => intro args; rfl
      | cons p ps ih =>
        intro args
        cases args with
        | nil => rfl
        | cons a args => simp only [mapPosList, List.zip_cons_cons, List.all_cons, fits_map, ih]
    rw [this]

section shapes
variable {args : List Val}

theorem fixed_len {ps : List PK} (h : checkSig (.fixed ps) args = none) :
    args.length = ps.length ∧ (ps.zip args).all (fun (p, a) => fits p a) = true := by
  simp only [checkSig] at h
  split at h
  · cases h
  · split at h
    · rename_i h1 h2; exact ⟨Classical.not_not.mp h1, h2⟩
    · cases h

theorem shape_1 (h : checkSig (.fixed [.any]) args = none) : ∃ a, args = [a] := by
  obtain ⟨hl, _⟩ := fixed_len h
  match args, hl with
  | [a], _ => exact ⟨a, rfl⟩

theorem shape_2 {p q : PK} (h : checkSig (.fixed [p, q]) args = none) :
    ∃ a b, args = [a, b] ∧ fits p a = true ∧ fits q b = true := by
  obtain ⟨hl, hf⟩ := fixed_len h
  match args, hl, hf with
  | [a, b], _, hf => simp at hf; exact ⟨a, b, rfl, hf.1, hf.2⟩

theorem shape_3 {p q r : PK} (h : checkSig (.fixed [p, q, r]) args = none) :
    ∃ a b c, args = [a, b, c] ∧ fits p a = true ∧ fits q b = true ∧ fits r c = true := by
  obtain ⟨hl, hf⟩ := fixed_len h
  match args, hl, hf with
  | [a, b, c], _, hf => simp at hf; exact ⟨a, b, c, rfl, hf.1, hf.2.1, hf.2.2⟩

theorem fits_int {a : Val} (h : fits .int a = true) : ∃ x, a = .int x := by
  cases a <;> simp [fits] at h; exact ⟨_, rfl⟩
theorem fits_str {a : Val} (h : fits .str a = true) : ∃ x, a = .str x := by
  cases a <;> simp [fits] at h; exact ⟨_, rfl⟩
theorem fits_vec {a : Val} (h : fits .vec a = true) : ∃ xs p, a = .vec xs p := by
  cases a <;> simp [fits] at h; exact ⟨_, _, rfl⟩
theorem fits_map' {a : Val} (h : fits .map a = true) : ∃ m, a = .map m := by
  cases a <;> simp [fits] at h; exact ⟨_, rfl⟩

theorem shape_ii (h : checkSig (.fixed [.int, .int]) args = none) : ∃ x y, args = [.int x, .int y] := by
  obtain ⟨a, b, rfl, ha, hb⟩ := shape_2 h
  obtain ⟨x, rfl⟩ := fits_int ha
  obtain ⟨y, rfl⟩ := fits_int hb
  exact ⟨x, y, rfl⟩

end shapes

section bm
variable {g : Option Pos → Option Pos} (hg : PosMap g) {args : List Val}

theorem bm_add (h : checkSig (.fixed [.int, .int]) args = none) :
    body "+" (mapPosList g args) = mapBRes g (body "+" args) := by
  obtain ⟨x, y, rfl⟩ := shape_ii h; rfl
theorem bm_sub (h : checkSig (.fixed [.int, .int]) args = none) :
    body "-" (mapPosList g args) = mapBRes g (body "-" args) := by
  obtain ⟨x, y, rfl⟩ := shape_ii h; rfl
theorem bm_mul (h : checkSig (.fixed [.int, .int]) args = none) :
    body "*" (mapPosList g args) = mapBRes g (body "*" args) := by
  obtain ⟨x, y, rfl⟩ := shape_ii h; rfl
theorem bm_lt (h : checkSig (.fixed [.int, .int]) args = none) :
    body "<" (mapPosList g args) = mapBRes g (body "<" args) := by
  obtain ⟨x, y, rfl⟩ := shape_ii h; rfl
theorem bm_le (h : checkSig (.fixed [.int, .int]) args = none) :
    body "<=" (mapPosList g args) = mapBRes g (body "<=" args) := by
  obtain ⟨x, y, rfl⟩ := shape_ii h; rfl
theorem bm_gt (h : checkSig (.fixed [.int, .int]) args = none) :
    body ">" (mapPosList g args) = mapBRes g (body ">" args) := by
  obtain ⟨x, y, rfl⟩ := shape_ii h; rfl
theorem bm_ge (h : checkSig (.fixed [.int, .int]) args = none) :
    body ">=" (mapPosList g args) = mapBRes g (body ">=" args) := by
  obtain ⟨x, y, rfl⟩ := shape_ii h; rfl
theorem bm_div (h : checkSig (.fixed [.int, .int]) args = none) :
    body "/" (mapPosList g args) = mapBRes g (body "/" args) := by
  obtain ⟨x, y, rfl⟩ := shape_ii h
  show body "/" [.int x, .int y] = _
  rw [bodyEq_div]; split <;> rfl
include hg in
theorem bm_range (h : checkSig (.fixed [.int, .int]) args = none) :
    body "range" (mapPosList g args) = mapBRes g (body "range" args) := by
  obtain ⟨x, y, rfl⟩ := shape_ii h
  show body "range" [.int x, .int y] = _
  rw [bodyEq_range]; simp [mapBRes, mapPos, rangeList_map, hg.none]
theorem bm_throw (h : checkSig (.fixed [.any]) args = none) :
    body "throw" (mapPosList g args) = mapBRes g (body "throw" args) := by
  obtain ⟨a, rfl⟩ := shape_1 h
  show body "throw" [mapPos g a] = _
  rw [bodyEq_throw, bodyEq_throw]; cases a <;> rfl
theorem bm_typeQ (h : checkSig (.fixed [.any]) args = none) :
    body "type?" (mapPosList g args) = mapBRes g (body "type?" args) := by
  obtain ⟨a, rfl⟩ := shape_1 h
  show body "type?" [mapPos g a] = _
  rw [bodyEq_typeQ, bodyEq_typeQ]; cases a <;> rfl
theorem bm_nilQ (h : checkSig (.fixed [.any]) args = none) :
    body "nil?" (mapPosList g args) = mapBRes g (body "nil?" args) := by
  obtain ⟨a, rfl⟩ := shape_1 h
  show body "nil?" [mapPos g a] = _
  rw [bodyEq_nilQ, bodyEq_nilQ]; cases a <;> rfl
theorem bm_trueQ (h : checkSig (.fixed [.any]) args = none) :
    body "true?" (mapPosList g args) = mapBRes g (body "true?" args) := by
  obtain ⟨a, rfl⟩ := shape_1 h
  show body "true?" [mapPos g a] = _
  rw [bodyEq_trueQ, bodyEq_trueQ]; cases a <;> rfl
theorem bm_falseQ (h : checkSig (.fixed [.any]) args = none) :
    body "false?" (mapPosList g args) = mapBRes g (body "false?" args) := by
  obtain ⟨a, rfl⟩ := shape_1 h
  show body "false?" [mapPos g a] = _
  rw [bodyEq_falseQ, bodyEq_falseQ]; cases a <;> rfl
theorem bm_symbolQ (h : checkSig (.fixed [.any]) args = none) :
    body "symbol?" (mapPosList g args) = mapBRes g (body "symbol?" args) := by
  obtain ⟨a, rfl⟩ := shape_1 h
  show body "symbol?" [mapPos g a] = _
  rw [bodyEq_symbolQ, bodyEq_symbolQ]; cases a <;> rfl
theorem bm_keywordQ (h : checkSig (.fixed [.any]) args = none) :
    body "keyword?" (mapPosList g args) = mapBRes g (body "keyword?" args) := by
  obtain ⟨a, rfl⟩ := shape_1 h
  show body "keyword?" [mapPos g a] = _
  rw [bodyEq_keywordQ, bodyEq_keywordQ]; cases a <;> rfl
theorem bm_stringQ (h : checkSig (.fixed [.any]) args = none) :
    body "string?" (mapPosList g args) = mapBRes g (body "string?" args) := by
  obtain ⟨a, rfl⟩ := shape_1 h
  show body "string?" [mapPos g a] = _
  rw [bodyEq_stringQ, bodyEq_stringQ]; cases a <;> rfl
theorem bm_numberQ (h : checkSig (.fixed [.any]) args = none) :
    body "number?" (mapPosList g args) = mapBRes g (body "number?" args) := by
  obtain ⟨a, rfl⟩ := shape_1 h
  show body "number?" [mapPos g a] = _
  rw [bodyEq_numberQ, bodyEq_numberQ]; cases a <;> rfl
theorem bm_fnQ (h : checkSig (.fixed [.any]) args = none) :
    body "fn?" (mapPosList g args) = mapBRes g (body "fn?" args) := by
  obtain ⟨a, rfl⟩ := shape_1 h
  show body "fn?" [mapPos g a] = _
  rw [bodyEq_fnQ, bodyEq_fnQ]; cases a <;> rfl
theorem bm_macroQ (h : checkSig (.fixed [.any]) args = none) :
    body "macro?" (mapPosList g args) = mapBRes g (body "macro?" args) := by
  obtain ⟨a, rfl⟩ := shape_1 h
  show body "macro?" [mapPos g a] = _
  rw [bodyEq_macroQ, bodyEq_macroQ]; cases a <;> rfl
theorem bm_listQ (h : checkSig (.fixed [.any]) args = none) :
    body "list?" (mapPosList g args) = mapBRes g (body "list?" args) := by
  obtain ⟨a, rfl⟩ := shape_1 h
  show body "list?" [mapPos g a] = _
  rw [bodyEq_listQ, bodyEq_listQ]; cases a <;> rfl
theorem bm_vectorQ (h : checkSig (.fixed [.any]) args = none) :
    body "vector?" (mapPosList g args) = mapBRes g (body "vector?" args) := by
  obtain ⟨a, rfl⟩ := shape_1 h
  show body "vector?" [mapPos g a] = _
  rw [bodyEq_vectorQ, bodyEq_vectorQ]; cases a <;> rfl
theorem bm_mapQ (h : checkSig (.fixed [.any]) args = none) :
    body "map?" (mapPosList g args) = mapBRes g (body "map?" args) := by
  obtain ⟨a, rfl⟩ := shape_1 h
  show body "map?" [mapPos g a] = _
  rw [bodyEq_mapQ, bodyEq_mapQ]; cases a <;> rfl
theorem bm_setQ (h : checkSig (.fixed [.any]) args = none) :
    body "set?" (mapPosList g args) = mapBRes g (body "set?" args) := by
  obtain ⟨a, rfl⟩ := shape_1 h
  show body "set?" [mapPos g a] = _
  rw [bodyEq_setQ, bodyEq_setQ]; cases a <;> rfl
theorem bm_atomQ (h : checkSig (.fixed [.any]) args = none) :
    body "atom?" (mapPosList g args) = mapBRes g (body "atom?" args) := by
  obtain ⟨a, rfl⟩ := shape_1 h
  show body "atom?" [mapPos g a] = _
  rw [bodyEq_atomQ, bodyEq_atomQ]; cases a <;> rfl
theorem bm_sequentialQ (h : checkSig (.fixed [.any]) args = none) :
    body "sequential?" (mapPosList g args) = mapBRes g (body "sequential?" args) := by
  obtain ⟨a, rfl⟩ := shape_1 h
  show body "sequential?" [mapPos g a] = _
  rw [bodyEq_sequentialQ, bodyEq_sequentialQ]; cases a <;> rfl
theorem bm_set (h : checkSig (.fixed [.any]) args = none) :
    body "set" (mapPosList g args) = mapBRes g (body "set" args) := by
  obtain ⟨a, rfl⟩ := shape_1 h
  show body "set" [mapPos g a] = _
  rw [bodyEq_set, bodyEq_set]
  cases a <;> try rfl
  · exact newSet_map _ _
  · exact newSet_map _ _

theorem mapPosMap_keys (m : List (String × Val)) :
    (mapPosMap g m).map (fun kv => Val.str kv.1) = mapPosList g (m.map (fun kv => Val.str kv.1)) := by
  induction m with
  | nil => rfl
  | cons kv m ih => obtain ⟨k, v⟩ := kv; simp only [mapPosMap, List.map_cons, mapPosList, ih]; rfl

theorem mapPosMap_vals (m : List (String × Val)) :
    (mapPosMap g m).map (·.2) = mapPosList g (m.map (·.2)) := by
  induction m with
  | nil => rfl
  | cons kv m ih => obtain ⟨k, v⟩ := kv; simp only [mapPosMap, List.map_cons, mapPosList, ih]

include hg in
theorem bm_keys (h : checkSig (.fixed [.any]) args = none) :
    body "keys" (mapPosList g args) = mapBRes g (body "keys" args) := by
  obtain ⟨a, rfl⟩ := shape_1 h
  show body "keys" [mapPos g a] = _
  rw [bodyEq_keys, bodyEq_keys]
  cases a <;> try rfl
  simp only [mapPos, mapBRes, mapPosMap_keys, hg.none]

include hg in
theorem bm_vals (h : checkSig (.fixed [.any]) args = none) :
    body "vals" (mapPosList g args) = mapBRes g (body "vals" args) := by
  obtain ⟨a, rfl⟩ := shape_1 h
  show body "vals" [mapPos g a] = _
  rw [bodyEq_vals, bodyEq_vals]
  cases a <;> try rfl
  simp only [mapPos, mapBRes, mapPosMap_vals, hg.none]

theorem mapPosList_strs (ks : List String) : mapPosList g (ks.map Val.str) = ks.map Val.str := by
  induction ks with
  | nil => rfl
  | cons k ks ih => simp only [List.map_cons, mapPosList, ih]; rfl

include hg in
theorem bm_vec (h : checkSig (.fixed [.any]) args = none) :
    body "vec" (mapPosList g args) = mapBRes g (body "vec" args) := by
  obtain ⟨a, rfl⟩ := shape_1 h
  show body "vec" [mapPos g a] = _
  rw [bodyEq_vec, bodyEq_vec]
  cases a <;> try rfl
  all_goals simp only [mapPos, mapBRes, mapPosList_strs, hg.none]

theorem mapPosList_headD (xs : List Val) : (mapPosList g xs).headD .nil = mapPos g (xs.headD .nil) := by
  cases xs <;> rfl
theorem mapPosList_tail (xs : List Val) : (mapPosList g xs).tail = mapPosList g xs.tail := by
  cases xs <;> rfl

theorem bm_first (h : checkSig (.fixed [.any]) args = none) :
    body "first" (mapPosList g args) = mapBRes g (body "first" args) := by
  obtain ⟨a, rfl⟩ := shape_1 h
  show body "first" [mapPos g a] = _
  rw [bodyEq_first, bodyEq_first]
  cases a <;> try rfl
  all_goals simp only [mapPos, seqOf?, mapBRes, mapPosList_headD]

include hg in
theorem bm_rest (h : checkSig (.fixed [.any]) args = none) :
    body "rest" (mapPosList g args) = mapBRes g (body "rest" args) := by
  obtain ⟨a, rfl⟩ := shape_1 h
  show body "rest" [mapPos g a] = _
  rw [bodyEq_rest, bodyEq_rest]
  cases a <;> simp only [mapPos, seqOf?, mapBRes, mapPosList_tail, hg.none, mapPosList]

theorem bm_count (h : checkSig (.fixed [.any]) args = none) :
    body "count" (mapPosList g args) = mapBRes g (body "count" args) := by
  obtain ⟨a, rfl⟩ := shape_1 h
  show body "count" [mapPos g a] = _
  rw [bodyEq_count, bodyEq_count]
  cases a <;> try rfl
  · simp only [mapPos, mapBRes, mapPosList_length]
  · simp only [mapPos, mapBRes, mapPosList_length]
  · simp only [mapPos, mapBRes, mapPosMap_eq, List.length_map]

theorem bm_emptyQ (h : checkSig (.fixed [.any]) args = none) :
    body "empty?" (mapPosList g args) = mapBRes g (body "empty?" args) := by
  obtain ⟨a, rfl⟩ := shape_1 h
  show body "empty?" [mapPos g a] = _
  rw [bodyEq_emptyQ, bodyEq_emptyQ]
  cases a <;> try rfl
  · simp only [mapPos, mapPosList_isEmpty]; rfl
  · simp only [mapPos, mapPosList_isEmpty]; rfl
  · rename_i m; cases m <;> rfl

include hg in
theorem bm_seq (h : checkSig (.fixed [.any]) args = none) :
    body "seq" (mapPosList g args) = mapBRes g (body "seq" args) := by
  obtain ⟨a, rfl⟩ := shape_1 h
  show body "seq" [mapPos g a] = _
  rw [bodyEq_seq, bodyEq_seq]
  cases a <;> try rfl
  · simp only [mapPos]
    split
    · rfl
    · have : ∀ cs : List Char, mapPosList g (cs.map (fun c => Val.str (String.ofList [c]))) =
          cs.map (fun c => Val.str (String.ofList [c])) := by
        intro cs; induction cs with
        | nil => rfl
        | cons c cs ih => simp only [List.map_cons, mapPosList, ih]; rfl
      simp only [mapBRes, mapPos, this, hg.none]
  · simp only [mapPos, mapPosList_isEmpty]
    split <;> simp only [mapBRes, mapPos]
  · simp only [mapPos, mapPosList_isEmpty]
    split <;> simp only [mapBRes, mapPos, hg.none]
  · simp only [mapPos, mapBRes, mapPosList_strs, hg.none]
theorem bm_eq (h : checkSig (.fixed [.any, .any]) args = none) :
    body "=" (mapPosList g args) = mapBRes g (body "=" args) := by
  obtain ⟨a, b, rfl, _, _⟩ := shape_2 h
  show body "=" [mapPos g a, mapPos g b] = _
  rw [bodyEq_eq, bodyEq_eq, equalQ_map]; rfl

theorem bm_get (h : checkSig (.fixed [.any, .any]) args = none) :
    body "get" (mapPosList g args) = mapBRes g (body "get" args) := by
  obtain ⟨a, b, rfl, _, _⟩ := shape_2 h
  show body "get" [mapPos g a, mapPos g b] = _
  rw [bodyEq_get, bodyEq_get]; exact get_map a b

include hg in
theorem bm_get_in (h : checkSig (.fixed [.any, .any]) args = none) :
    body "get-in" (mapPosList g args) = mapBRes g (body "get-in" args) := by
  obtain ⟨a, b, rfl, -, -⟩ := shape_2 h
  clear h
  show body "get-in" [mapPos g a, mapPos g b] = _
  rw [bodyEq_get_in, bodyEq_get_in]
  have hb : ∀ a : Val, (match mapPos g b with
       | .vec path _ => getIn (mapPos g a) path
       | _ => .goerr "get-in index must be a vector") = mapBRes g (match b with
       | .vec path _ => getIn a path
       | _ => .goerr "get-in index must be a vector") := by
    intro a
    cases b <;> try rfl
    exact getIn_map hg _ _
  cases a <;> first | rfl | exact hb _

include hg in
theorem bm_cons (h : checkSig (.fixed [.any, .any]) args = none) :
    body "cons" (mapPosList g args) = mapBRes g (body "cons" args) := by
  obtain ⟨a, b, rfl, _, _⟩ := shape_2 h
  show body "cons" [mapPos g a, mapPos g b] = _
  rw [bodyEq_cons, bodyEq_cons, seqOf_map]
  cases seqOf? b <;> simp only [Option.map_none, Option.map_some, mapBRes, mapPos, mapPosList, hg.none]

theorem merge_fold_map (m acc : List (String × Val)) :
    (mapPosMap g m).foldl (fun acc kv => ainsert kv.1 kv.2 acc) (mapPosMap g acc) =
      mapPosMap g (m.foldl (fun acc kv => ainsert kv.1 kv.2 acc) acc) :=
  foldl_kv_gen (mapPosMap g) _ _ (fun acc k v => ainsert_map k v acc) m acc

theorem bm_merge (h : checkSig (.fixed [.any, .any]) args = none) :
    body "merge" (mapPosList g args) = mapBRes g (body "merge" args) := by
  obtain ⟨a, b, rfl, _, _⟩ := shape_2 h
  show body "merge" [mapPos g a, mapPos g b] = _
  rw [bodyEq_merge, bodyEq_merge]
  cases a <;> cases b <;> try rfl
  · simp only [mapPos, mapBRes]; rw [← merge_fold_map]; rfl
  · simp only [mapPos, mapBRes]; rw [← merge_fold_map]; rfl
  · simp only [mapPos, mapBRes]; rw [← merge_fold_map]

theorem bm_containsQ (h : checkSig (.fixed [.any, .str]) args = none) :
    body "contains?" (mapPosList g args) = mapBRes g (body "contains?" args) := by
  obtain ⟨a, b, rfl, _, hb⟩ := shape_2 h
  obtain ⟨k, rfl⟩ := fits_str hb
  show body "contains?" [mapPos g a, .str k] = _
  rw [bodyEq_containsQ, bodyEq_containsQ]
  cases a <;> try rfl
  simp only [mapPos, alookup_map]
  cases alookup k ‹List (String × Val)› <;> rfl

theorem bm_nth (h : checkSig (.fixed [.any, .int]) args = none) :
    body "nth" (mapPosList g args) = mapBRes g (body "nth" args) := by
  obtain ⟨a, b, rfl, _, hb⟩ := shape_2 h
  obtain ⟨i, rfl⟩ := fits_int hb
  show body "nth" [mapPos g a, .int i] = _
  rw [bodyEq_nth, bodyEq_nth, seqOf_map]
  cases seqOf? a with
  | none => rfl
  | some xs =>
    simp only [Option.map_some, mapPosList_length, mapPosList_getD]
    split
    · rfl
    · split <;> rfl

include hg in
theorem bm_take (h : checkSig (.fixed [.int, .any]) args = none) :
    body "take" (mapPosList g args) = mapBRes g (body "take" args) := by
  obtain ⟨a, b, rfl, ha, _⟩ := shape_2 h
  obtain ⟨n, rfl⟩ := fits_int ha
  show body "take" [.int n, mapPos g b] = _
  rw [bodyEq_take, bodyEq_take]
  cases b <;> simp only [mapPos, seqOf?, mapBRes, mapPosList_take, hg.none, mapPosList]

include hg in
theorem bm_drop (h : checkSig (.fixed [.int, .any]) args = none) :
    body "drop" (mapPosList g args) = mapBRes g (body "drop" args) := by
  obtain ⟨a, b, rfl, ha, _⟩ := shape_2 h
  obtain ⟨n, rfl⟩ := fits_int ha
  show body "drop" [.int n, mapPos g b] = _
  rw [bodyEq_drop, bodyEq_drop]
  cases b <;> simp only [mapPos, seqOf?, mapBRes, mapPosList_drop, hg.none, mapPosList]

include hg in
theorem bm_drop_last (h : checkSig (.fixed [.int, .any]) args = none) :
    body "drop-last" (mapPosList g args) = mapBRes g (body "drop-last" args) := by
  obtain ⟨a, b, rfl, ha, _⟩ := shape_2 h
  obtain ⟨n, rfl⟩ := fits_int ha
  show body "drop-last" [.int n, mapPos g b] = _
  rw [bodyEq_drop_last, bodyEq_drop_last]
  cases b <;> simp only [mapPos, seqOf?, mapBRes, mapPosList_take, mapPosList_length, hg.none, mapPosList]

include hg in
theorem bm_take_last (h : checkSig (.fixed [.int, .any]) args = none) :
    body "take-last" (mapPosList g args) = mapBRes g (body "take-last" args) := by
  obtain ⟨a, b, rfl, ha, _⟩ := shape_2 h
  obtain ⟨n, rfl⟩ := fits_int ha
  show body "take-last" [.int n, mapPos g b] = _
  rw [bodyEq_take_last, bodyEq_take_last]
  cases b <;> simp only [mapPos, seqOf?, mapBRes] <;>
    (simp only [mapPosList_drop, mapPosList_length, mapPosList_isEmpty]; split <;> simp only [mapBRes, mapPos, hg.none])

theorem bm_rename_keys (h : checkSig (.fixed [.map, .map]) args = none) :
    body "rename-keys" (mapPosList g args) = mapBRes g (body "rename-keys" args) := by
  obtain ⟨a, b, rfl, ha, hb⟩ := shape_2 h
  obtain ⟨d, rfl⟩ := fits_map' ha
  obtain ⟨alt, rfl⟩ := fits_map' hb
  show body "rename-keys" [.map (mapPosMap g d), .map (mapPosMap g alt)] = _
  rw [bodyEq_rename_keys, bodyEq_rename_keys]; exact renameKeys_map d alt

include hg in
theorem bm_assoc_in (h : checkSig (.fixed [.any, .vec, .any]) args = none) :
    body "assoc-in" (mapPosList g args) = mapBRes g (body "assoc-in" args) := by
  obtain ⟨a, b, c, rfl, _, hb, _⟩ := shape_3 h
  obtain ⟨path, p, rfl⟩ := fits_vec hb
  show body "assoc-in" [mapPos g a, .vec (mapPosList g path) (g p), mapPos g c] = _
  rw [bodyEq_assoc_in, bodyEq_assoc_in]; exact assocIn_map hg path a c

include hg in
theorem bm_symbol (h : checkSig (.fixed [.str]) args = none) :
    body "symbol" (mapPosList g args) = mapBRes g (body "symbol" args) := by
  obtain ⟨hl, hf⟩ := fixed_len h
  match args, hl, hf with
  | [a], _, hf =>
    simp at hf
    obtain ⟨s, rfl⟩ := fits_str hf
    show body "symbol" [.str s] = _
    rw [bodyEq_symbol]; simp only [mapBRes, mapPos, hg.none]

theorem bm_keyword (h : checkSig (.fixed [.str]) args = none) :
    body "keyword" (mapPosList g args) = mapBRes g (body "keyword" args) := by
  obtain ⟨hl, hf⟩ := fixed_len h
  match args, hl, hf with
  | [a], _, hf =>
    simp at hf
    obtain ⟨s, rfl⟩ := fits_str hf
    show body "keyword" [.str s] = _
    rw [bodyEq_keyword]; split <;> rfl
include hg in
theorem bm_list : body "list" (mapPosList g args) = mapBRes g (body "list" args) := by
  rw [bodyEq_list, bodyEq_list]; simp only [mapBRes, mapPos, hg.none]

include hg in
theorem bm_vector : body "vector" (mapPosList g args) = mapBRes g (body "vector" args) := by
  rw [bodyEq_vector, bodyEq_vector]; simp only [mapBRes, mapPos, hg.none]

theorem bm_hash_map : body "hash-map" (mapPosList g args) = mapBRes g (body "hash-map" args) := by
  rw [bodyEq_hash_map, bodyEq_hash_map]
  match args with
  | [] => rfl
  | [_] => rfl
  | a :: b :: r => exact newHashMap_map (a :: b :: r)

theorem bm_hash_set : body "hash-set" (mapPosList g args) = mapBRes g (body "hash-set" args) := by
  rw [bodyEq_hash_set, bodyEq_hash_set]; exact newSet_map _ _

include hg in
theorem bm_assoc : body "assoc" (mapPosList g args) = mapBRes g (body "assoc" args) := by
  rw [bodyEq_assoc, bodyEq_assoc]; exact assoc_map hg _

theorem bm_dissoc : body "dissoc" (mapPosList g args) = mapBRes g (body "dissoc" args) := by
  rw [bodyEq_dissoc, bodyEq_dissoc]; exact dissoc_map _

theorem all_seq_map (xs : List Val) :
    (mapPosList g xs).all (fun x => (seqOf? x).isSome) = xs.all (fun x => (seqOf? x).isSome) := by
  induction xs with
  | nil => rfl
  | cons x xs ih => simp only [mapPosList, List.all_cons, seqOf_map, Option.isSome_map, ih]

theorem flatMap_seq_map (xs : List Val) :
    (mapPosList g xs).flatMap (fun x => (seqOf? x).getD []) =
      mapPosList g (xs.flatMap (fun x => (seqOf? x).getD [])) := by
  induction xs with
  | nil => rfl
  | cons x xs ih =>
    simp only [mapPosList, List.flatMap_cons, seqOf_map, ih, mapPosList_append]
    cases seqOf? x <;> rfl

include hg in
theorem bm_concat : body "concat" (mapPosList g args) = mapBRes g (body "concat" args) := by
  rw [bodyEq_concat, bodyEq_concat]
  cases args with
  | nil => simp only [mapPosList, mapBRes, mapPos, hg.none]
  | cons a r =>
    rw [mapPosList]
    dsimp only
    rw [← mapPosList_cons, all_seq_map, flatMap_seq_map]
    by_cases hc : ((a :: r).all fun x => (seqOf? x).isSome) = true
    · rw [if_pos hc, if_pos hc]; simp only [mapBRes, mapPos, hg.none]
    · rw [if_neg hc, if_neg hc]; rfl

theorem bm_str : body "str" (mapPosList g args) = mapBRes g (body "str" args) := by
  rw [bodyEq_str, bodyEq_str, corePrList_map]; rfl

theorem bm_pr_str : body "pr-str" (mapPosList g args) = mapBRes g (body "pr-str" args) := by
  rw [bodyEq_pr_str, bodyEq_pr_str, corePrList_map]; rfl

include hg in
theorem bm_conj : body "conj" (mapPosList g args) = mapBRes g (body "conj" args) := by
  cases args with
  | nil => rfl
  | cons s xs =>
    rw [mapPosList, bodyEq_conj, bodyEq_conj]
    cases s <;> try rfl
    · simp [mapPos, mapBRes, hg.none, mapPosList_eq]
    · simp only [mapPos, mapBRes, hg.none, mapPosList_append]
    · simp only [mapPos, mapPosList_length]
      split
      · rfl
      · exact conjMap_map _ _
    · exact addKeys_map _ _ _

include hg in
theorem bm_subvec : body "subvec" (mapPosList g args) = mapBRes g (body "subvec" args) := by
  cases args with
  | nil => rfl
  | cons v idx =>
    rw [mapPosList, bodyEq_subvec, bodyEq_subvec]
    cases v <;> try rfl
    rename_i xs p
    simp only [mapPos]
    match idx with
    | [] => rfl
    | [a] =>
      cases a <;> try rfl
      simp only [mapPosList, mapPos, mapPosList_length, mapPosList_drop]
      split <;> simp only [mapBRes, mapPos, hg.none]
    | [a, b] =>
      cases a <;> try rfl
      cases b <;> try rfl
      simp only [mapPosList, mapPos, mapPosList_length, mapPosList_drop, mapPosList_take]
      split <;> simp only [mapBRes, mapPos, hg.none]
    | a :: b :: c :: r =>
      cases a <;> try rfl
      cases b <;> rfl

theorem bm_assert : body "assert" (mapPosList g args) = mapBRes g (body "assert" args) := by
  cases args with
  | nil => rfl
  | cons a0 r =>
    rw [mapPosList, bodyEq_assert, bodyEq_assert]
    have hr : ∀ msg : String, (match mapPosList g r with
        | [] | [.nil] => BRes.goerr msg
        | [.str s] => .goerr s
        | [v] => .thrown v
        | _ => .goerr "one or two parameters required") = mapBRes g (match r with
        | [] | [.nil] => BRes.goerr msg
        | [.str s] => .goerr s
        | [v] => .thrown v
        | _ => .goerr "one or two parameters required") := by
      intro msg
      match r with
      | [] => rfl
      | [v] => cases v <;> rfl
      | a :: _ :: _ => cases a <;> rfl
    cases a0 <;> try rfl
    · exact hr _
    · rename_i b; cases b
      · exact hr _
      · rfl
include hg in
theorem body_map {name : String} {s : Sig} (hs : sigOf name = some s) (hc : checkSig s args = none) :
    body name (mapPosList g args) = mapBRes g (body name args) := by
  have hm := sigOf_mem hs
  simp only [pureNames, List.mem_cons, List.not_mem_nil, or_false] at hm
  rcases hm with rfl | rfl | rfl | rfl | rfl | rfl | rfl | rfl | rfl | rfl | rfl | rfl | rfl | rfl | rfl | rfl | rfl | rfl | rfl | rfl | rfl | rfl | rfl | rfl | rfl | rfl | rfl | rfl | rfl | rfl | rfl | rfl | rfl | rfl | rfl | rfl | rfl | rfl | rfl | rfl | rfl | rfl | rfl | rfl | rfl | rfl | rfl | rfl | rfl | rfl | rfl | rfl | rfl | rfl | rfl | rfl | rfl | rfl | rfl | rfl | rfl | rfl
  · cases hs; exact bm_add hc
  · cases hs; exact bm_sub hc
  · cases hs; exact bm_mul hc
  · cases hs; exact bm_div hc
  · cases hs; exact bm_lt hc
  · cases hs; exact bm_le hc
  · cases hs; exact bm_gt hc
  · cases hs; exact bm_ge hc
  · cases hs; exact bm_eq hc
  · cases hs; exact bm_throw hc
  · exact bm_list hg
  · exact bm_vector hg
  · exact bm_hash_map
  · exact bm_hash_set
  · cases hs; exact bm_set hc
  · exact bm_assoc hg
  · exact bm_dissoc
  · cases hs; exact bm_get hc
  · cases hs; exact bm_get_in hg hc
  · cases hs; exact bm_assoc_in hg hc
  · cases hs; exact bm_containsQ hc
  · cases hs; exact bm_keys hg hc
  · cases hs; exact bm_vals hg hc
  · cases hs; exact bm_merge hc
  · cases hs; exact bm_rename_keys hc
  · cases hs; exact bm_cons hg hc
  · exact bm_concat hg
  · cases hs; exact bm_vec hg hc
  · cases hs; exact bm_nth hc
  · cases hs; exact bm_first hc
  · cases hs; exact bm_rest hg hc
  · cases hs; exact bm_count hc
  · cases hs; exact bm_emptyQ hc
  · exact bm_conj hg
  · cases hs; exact bm_seq hg hc
  · cases hs; exact bm_take hg hc
  · cases hs; exact bm_take_last hg hc
  · cases hs; exact bm_drop hg hc
  · cases hs; exact bm_drop_last hg hc
  · exact bm_subvec hg
  · cases hs; exact bm_range hg hc
  · cases hs; exact bm_symbol hg hc
  · cases hs; exact bm_keyword hc
  · exact bm_str
  · exact bm_pr_str
  · cases hs; exact bm_typeQ hc
  · cases hs; exact bm_nilQ hc
  · cases hs; exact bm_trueQ hc
  · cases hs; exact bm_falseQ hc
  · cases hs; exact bm_symbolQ hc
  · cases hs; exact bm_keywordQ hc
  · cases hs; exact bm_stringQ hc
  · cases hs; exact bm_numberQ hc
  · cases hs; exact bm_fnQ hc
  · cases hs; exact bm_macroQ hc
  · cases hs; exact bm_listQ hc
  · cases hs; exact bm_vectorQ hc
  · cases hs; exact bm_mapQ hc
  · cases hs; exact bm_setQ hc
  · cases hs; exact bm_atomQ hc
  · cases hs; exact bm_sequentialQ hc
  · exact bm_assert

include hg in
/-- a pure builtin never inspects a cursor and creates none -/
theorem call_map (name : String) (args : List Val) :
    Core.call name (mapPosList g args) = (Core.call name args).map (mapBRes g) := by
  unfold Core.call
  cases hs : sigOf name with
  | none => rfl
  | some s =>
    simp only [checkSig_map]
    cases hc : checkSig s args with
    | some msg => simp only []; split <;> rfl
    | none => simp only [Option.map_some, body_map hg hs hc]
end bm

set_option linter.unusedSimpArgs false

/-! ### the commutation theorem -/

/-- the induction predicate: at fuel `F`, all 13 functions commute with the cursor map `g` -/
structure Comm (g : Option Pos → Option Pos) (F : Nat) : Prop where
  eval : ∀ st env ast d, eval F (mapSt g st) env (mapPos g ast) d = mapR g (eval F st env ast d)
  evalLoop : ∀ st env ast d, evalLoop F (mapSt g st) env (mapPos g ast) d = mapR g (evalLoop F st env ast d)
  evalAst : ∀ st env ast d, evalAst F (mapSt g st) env (mapPos g ast) d = mapR g (evalAst F st env ast d)
  evalList : ∀ st env xs d, evalList F (mapSt g st) env (mapPosList g xs) d = mapRL g (evalList F st env xs d)
  evalMap : ∀ st env kvs d, evalMap F (mapSt g st) env (mapPosMap g kvs) d = mapRM g (evalMap F st env kvs d)
  doForms : ∀ st env lst fr kl d,
    doForms F (mapSt g st) env (mapPosList g lst) fr kl d = mapR g (doForms F st env lst fr kl d)
  letBinds : ∀ st env bs a1 d,
    letBinds F (mapSt g st) env (mapPosList g bs) (mapPos g a1) d = mapR g (letBinds F st env bs a1 d)
  macroexpand : ∀ st env ast d,
    macroexpand F (mapSt g st) env (mapPos g ast) d = mapR g (macroexpand F st env ast d)
  apply : ∀ st f args d,
    apply F (mapSt g st) (mapPos g f) (mapPosList g args) d = mapR g (apply F st f args d)
  mapLoop : ∀ st f xs d,
    mapLoop F (mapSt g st) (mapPos g f) (mapPosList g xs) d = mapRL g (mapLoop F st f xs d)
  updateIn : ∀ st v p f d,
    updateIn F (mapSt g st) (mapPos g v) (mapPosList g p) (mapPos g f) d = mapR g (updateIn F st v p f d)
  update1 : ∀ st v i f d,
    update1 F (mapSt g st) (mapPos g v) (mapPos g i) (mapPos g f) d = mapR g (update1 F st v i f d)
  callBuiltin : ∀ st n args d,
    callBuiltin F (mapSt g st) n (mapPosList g args) d = mapR g (callBuiltin F st n args d)

section steps
variable {g : Option Pos → Option Pos} (hg : PosMap g) {F : Nat} (ih : Comm g F)

include ih in
theorem evalList_comm (st : State) (env : Nat) (xs : List Val) (d : Nat) :
    evalList (F+1) (mapSt g st) env (mapPosList g xs) d = mapRL g (evalList (F+1) st env xs d) := by
  cases xs with
  | nil => rw [mapPosList, evalList.eq_2, evalList.eq_2]; rfl
  | cons x xs =>
    rw [mapPosList, evalList.eq_3, evalList.eq_3, ih.eval]
    rcases eval F st env x (d+1) with ⟨r, s1⟩
    cases r with
    | ok v =>
      simp only [mapR, mapRes]
      rw [ih.evalList]
      rcases evalList F s1 env xs d with ⟨r2, s2⟩
      cases r2 <;> rfl
    | err e => rfl
    | oof => rfl

include ih in
theorem evalMap_comm (st : State) (env : Nat) (kvs : List (String × Val)) (d : Nat) :
    evalMap (F+1) (mapSt g st) env (mapPosMap g kvs) d = mapRM g (evalMap (F+1) st env kvs d) := by
  cases kvs with
  | nil => rw [mapPosMap, evalMap.eq_2, evalMap.eq_2]; rfl
  | cons kv kvs =>
    obtain ⟨k, x⟩ := kv
    rw [mapPosMap, evalMap.eq_3, evalMap.eq_3, ih.eval]
    rcases eval F st env x (d+1) with ⟨r, s1⟩
    cases r with
    | ok v =>
      simp only [mapR, mapRes]
      rw [ih.evalMap]
      rcases evalMap F s1 env kvs d with ⟨r2, s2⟩
      cases r2 with
      | ok m => simp only [mapRM, mapRes, ainsert_map]
      | err e => rfl
      | oof => rfl
    | err e => rfl
    | oof => rfl

include hg ih in
theorem evalAst_comm (st : State) (env : Nat) (ast : Val) (d : Nat) :
    evalAst (F+1) (mapSt g st) env (mapPos g ast) d = mapR g (evalAst (F+1) st env ast d) := by
  cases ast with
  | sym s p =>
    simp only [mapPos, evalAst, mapSt_get]
    cases st.get env s with
    | some v => rfl
    | none => simp only [Option.map_none, mapR, mapRes, mapErr, mapPos, getPosition]
  | list xs p =>
    simp only [mapPos, evalAst, ih.evalList]
    rcases evalList F st env xs d with ⟨r, s1⟩
    cases r <;> simp only [mapRL, mapR, mapRes, mapPos, hg.none]
  | vec xs p =>
    simp only [mapPos, evalAst, ih.evalList]
    rcases evalList F st env xs d with ⟨r, s1⟩
    cases r <;> simp only [mapRL, mapR, mapRes, mapPos, hg.none]
  | map kvs =>
    simp only [mapPos, evalAst, ih.evalMap]
    rcases evalMap F st env kvs d with ⟨r, s1⟩
    cases r <;> simp only [mapRM, mapR, mapRes, mapPos]
  | _ => simp only [mapPos, evalAst, mapR, mapRes]

/-- the deferred flag update of `do()` -/
def doFin (had : Bool) (r : R) : R :=
  if had then
    match r.2.stepper with
    | some sp => (r.1, { r.2 with stepper := some { sp with skip := true, outing1 := false, outing2 := true } })
    | none => r
  else r

def hadOuting1 (st : State) : Bool := match st.stepper with | some sp => sp.outing1 | none => false

theorem doForms_eq (F : Nat) (st : State) (env : Nat) (lst : List Val) (fr : Nat) (kl : Bool) (d : Nat) :
    doForms (F+1) st env lst fr kl d =
      doFin (hadOuting1 st)
        (if lst.length ≤ fr then (.ok .nil, st)
         else match evalList F st env (if kl then (lst.drop fr).dropLast else lst.drop fr) d with
           | (.ok vs, st) => if kl then (.ok (lst.getLast?.getD .nil), st) else (.ok (vs.getLast?.getD .nil), st)
           | (.err e, st) => (.err e, st)
           | (.oof, st) => (.oof, st)) := by
  rw [doForms.eq_2]
  simp only [doFin, hadOuting1]
  split
  · rfl
  · rcases evalList F st env (if kl then (lst.drop fr).dropLast else lst.drop fr) d with ⟨r, s1⟩
    cases r with
    | ok vs => simp only []; split <;> rfl
    | err e => rfl
    | oof => rfl

theorem hadOuting1_map (st : State) : hadOuting1 (mapSt g st) = hadOuting1 st := by
  unfold hadOuting1; rw [mapSt_stepper]; cases st.stepper <;> rfl

theorem doFin_map (b : Bool) (r : R) : doFin b (mapR g r) = mapR g (doFin b r) := by
  obtain ⟨r1, s1⟩ := r
  unfold doFin
  cases b with
  | false => rfl
  | true =>
    simp only [if_true, mapR, mapSt_stepper]
    cases h : s1.stepper with
    | none => simp only [Option.map_none, mapR, h]
    | some sp => simp only [Option.map_some, mapR, mapSt, mapStepper, h]

include ih in
theorem doForms_comm (st : State) (env : Nat) (lst : List Val) (fr : Nat) (kl : Bool) (d : Nat) :
    doForms (F+1) (mapSt g st) env (mapPosList g lst) fr kl d = mapR g (doForms (F+1) st env lst fr kl d) := by
  rw [doForms_eq, doForms_eq, hadOuting1_map, ← doFin_map]
  congr 1
  rw [mapPosList_length]
  split
  · rfl
  · have e : (if kl then ((mapPosList g lst).drop fr).dropLast else (mapPosList g lst).drop fr) =
        mapPosList g (if kl then (lst.drop fr).dropLast else lst.drop fr) := by
      split
      · rw [mapPosList_drop, mapPosList_dropLast]
      · rw [mapPosList_drop]
    rw [e, ih.evalList]
    rcases evalList F st env (if kl then (lst.drop fr).dropLast else lst.drop fr) d with ⟨r, s1⟩
    cases r with
    | ok vs =>
      simp only [mapRL, mapRes]
      split
      · simp only [mapR, mapRes, mapPosList_getLastD]
      · simp only [mapR, mapRes, mapPosList_getLastD]
    | err e => rfl
    | oof => rfl

include hg ih in
theorem letBinds_comm (st : State) (env : Nat) (bs : List Val) (a1 : Val) (d : Nat) :
    letBinds (F+1) (mapSt g st) env (mapPosList g bs) (mapPos g a1) d =
      mapR g (letBinds (F+1) st env bs a1 d) := by
  match bs with
  | [] => rw [mapPosList, letBinds.eq_2, letBinds.eq_2]; rfl
  | [_] => rw [mapPosList, mapPosList, letBinds.eq_3, letBinds.eq_3]; rfl
  | b :: x :: rest =>
    rw [mapPosList, mapPosList]
    unfold letBinds
    cases b with
    | sym name p =>
      simp only [mapPos, ih.eval]
      rcases eval F st env x (d+1) with ⟨r, s1⟩
      cases r with
      | ok v => simp only [mapR, mapRes, mapSt_set, ih.letBinds]
      | err e => rfl
      | oof => rfl
    | _ =>
      simp only [mapPos, mapR, mapRes]
      first
        | (rw [← newLispError_map hg]; rfl)
        | rfl

theorem mapBind_ok {r : Except Err (List (String × Val))} {data : List (String × Val)}
    (h : r = .ok data) : mapBind g r = .ok (mapPosMap g data) := by subst h; rfl
theorem mapBind_err {r : Except Err (List (String × Val))} {e : Err}
    (h : r = .error e) : mapBind g r = .error (mapErr g e) := by subst h; rfl

include hg ih in
theorem apply_comm (st : State) (f : Val) (args : List Val) (d : Nat) :
    apply (F+1) (mapSt g st) (mapPos g f) (mapPosList g args) d = mapR g (apply (F+1) st f args d) := by
  unfold apply
  cases f with
  | fn params body fenv m p =>
    simp only [mapPos, bindParams_map hg]
    cases hb : bindParams params args with
    | error e => simp only [mapBind, mapR, mapRes]
    | ok data =>
      simp only [mapBind, mapSt_newScope, ih.eval]
  | builtin name => simp only [mapPos, ih.callBuiltin]
  | _ => simp only [mapPos, mapR, mapRes, mapErr]

include ih in
theorem mapLoop_comm (st : State) (f : Val) (xs : List Val) (d : Nat) :
    mapLoop (F+1) (mapSt g st) (mapPos g f) (mapPosList g xs) d = mapRL g (mapLoop (F+1) st f xs d) := by
  cases xs with
  | nil => rw [mapPosList, mapLoop.eq_2, mapLoop.eq_2]; rfl
  | cons x xs =>
    rw [mapPosList, mapLoop.eq_3, mapLoop.eq_3]
    have := ih.apply st f [x] d
    simp only [mapPosList] at this
    rw [this]
    rcases apply F st f [x] d with ⟨r, s1⟩
    cases r with
    | ok v =>
      simp only [mapR, mapRes]
      rw [ih.mapLoop]
      rcases mapLoop F s1 f xs d with ⟨r2, s2⟩
      cases r2 <;> rfl
    | err e => rfl
    | oof => rfl

include hg ih in
theorem macroexpand_comm (st : State) (env : Nat) (ast : Val) (d : Nat) :
    macroexpand (F+1) (mapSt g st) env (mapPos g ast) d = mapR g (macroexpand (F+1) st env ast d) := by
  by_cases hs : ∃ s p args q, ast = .list (.sym s p :: args) q
  · obtain ⟨s, p, args, q, rfl⟩ := hs
    simp only [mapPos, mapPosList]
    rw [macroexpand.eq_2, macroexpand.eq_2]
    simp only [mapSt_get]
    cases st.get env s with
    | none => simp only [Option.map_none, mapR, mapRes, mapPos, mapPosList]
    | some v =>
      cases v with
      | fn params body fenv m fp =>
        cases m with
        | false => simp only [Option.map_some, mapPos, mapR, mapRes, mapPosList]
        | true =>
          simp only [Option.map_some, mapPos, bindParams_map hg]
          cases hb : bindParams params args with
          | error e => simp only [mapBind, mapR, mapRes]
          | ok data =>
            simp only [mapBind, mapSt_newScope, ih.eval]
            rcases eval F (st.newScope fenv data).1 (st.newScope fenv data).2 body (d+1) with ⟨r, s1⟩
            cases r with
            | ok ast' => simp only [mapR, mapRes, ih.macroexpand]
            | err e => rfl
            | oof => rfl
      | _ => simp only [Option.map_some, mapPos, mapR, mapRes, mapPosList]
  · have h1 : ∀ s p args q, ast = .list (.sym s p :: args) q → False := fun s p args q h => hs ⟨s, p, args, q, h⟩
    have h2 : ∀ s p args q, mapPos g ast = .list (.sym s p :: args) q → False := by
      intro s p args q h
      obtain ⟨xs, p', rfl, hx⟩ := mapPos_eq_list h
      obtain ⟨x, xs', rfl, hx1, _⟩ := mapPosList_eq_cons hx
      obtain ⟨p'', rfl⟩ := mapPos_eq_sym hx1
      exact h1 _ _ _ _ rfl
    rw [macroexpand.eq_3 _ _ _ _ _ h2, macroexpand.eq_3 _ _ _ _ _ h1]
    rfl

/-- the current value `_update` reads -/
def curOf (v i : Val) : Option Val :=
  match v, i with
  | .map m, .str k => some ((alookup k m).getD .nil)
  | .vec xs _, .int n => if 0 ≤ n ∧ n.toNat < xs.length then some (xs.getD n.toNat .nil) else none
  | _, _ => none

/-- how `_update` / `_updateIn` turn the outcome of `assoc` into a result -/
def assocRes (b : BRes) (st : State) : R :=
  match b with
  | .ok r => (.ok r, st)
  | .thrown t => (.err (.lisp t none), st)
  | .goerr m => (.err (.lisp (.goerr m) none), st)

include hg in
theorem assocRes_map (b : BRes) (st : State) :
    assocRes (mapBRes g b) (mapSt g st) = mapR g (assocRes b st) := by
  cases b <;> simp only [assocRes, mapBRes, mapR, mapRes, mapErr, mapPos, hg.none]

theorem update1_eq (F : Nat) (st : State) (v i f : Val) (d : Nat) :
    update1 (F+1) st v i f d =
      match v with
      | .map _ | .vec _ _ =>
        (match curOf v i with
         | none => (.err (.lisp (.goerr "interface conversion or index out of range") none), st)
         | some c =>
           match apply F st f [c] d with
           | (.ok res, st) => assocRes (Core.assoc [v, i, res]) st
           | r => r)
      | _ => (.err (.lisp (.goerr "expected vector or hash-map") none), st) := by
  unfold update1
  cases v <;> try rfl
  all_goals
    simp only [curOf]
    split
    · rfl
    · rcases apply F st f [_] d with ⟨r, s1⟩
      cases r with
      | ok res => simp only [assocRes]; cases Core.assoc _ <;> rfl
      | err e => rfl
      | oof => rfl

theorem curOf_map (v i : Val) : curOf (mapPos g v) (mapPos g i) = (curOf v i).map (mapPos g) := by
  cases v with
  | map m =>
    cases i <;> simp only [mapPos, curOf] <;> try rfl
    rw [alookup_map]; cases alookup _ m <;> rfl
  | vec xs p =>
    cases i <;> simp only [mapPos, curOf, mapPosList_length] <;> try rfl
    split
    · rw [mapPosList_getD]; rfl
    · rfl
  | _ => cases i <;> rfl

include hg ih in
theorem update1_comm (st : State) (v i f : Val) (d : Nat) :
    update1 (F+1) (mapSt g st) (mapPos g v) (mapPos g i) (mapPos g f) d =
      mapR g (update1 (F+1) st v i f d) := by
  rw [update1_eq, update1_eq, curOf_map]
  have main : (match (curOf v i).map (mapPos g) with
      | none => ((.err (.lisp (.goerr "interface conversion or index out of range") none), mapSt g st) : R)
      | some c =>
        match apply F (mapSt g st) (mapPos g f) [c] d with
        | (.ok res, st) => assocRes (Core.assoc [mapPos g v, mapPos g i, res]) st
        | r => r) = mapR g (match curOf v i with
      | none => (.err (.lisp (.goerr "interface conversion or index out of range") none), st)
      | some c =>
        match apply F st f [c] d with
        | (.ok res, st) => assocRes (Core.assoc [v, i, res]) st
        | r => r) := by
    cases curOf v i with
    | none => simp only [Option.map_none, mapR, mapRes, mapErr, mapPos, hg.none]
    | some c =>
      have := ih.apply st f [c] d
      simp only [mapPosList] at this
      simp only [Option.map_some, this]
      rcases apply F st f [c] d with ⟨r, s1⟩
      cases r with
      | ok res =>
        simp only [mapR, mapRes]
        have ha := assoc_map hg [v, i, res]
        simp only [mapPosList] at ha
        rw [ha, assocRes_map hg]; rfl
      | err e => rfl
      | oof => rfl
  cases v <;> first
    | exact main
    | simp only [mapPos, mapR, mapRes, mapErr, hg.none]

/-- the `branch` of `_updateIn` -/
def updBranch (v i : Val) : Option Val :=
  match v, i with
  | .map m, .str k => some (match (alookup k m).getD .nil with | .nil => .map [] | b => b)
  | .vec xs _, .int n => if 0 ≤ n ∧ n.toNat < xs.length then some (match xs.getD n.toNat .nil with | .nil => .vec [] none | b => b) else none
  | _, _ => none

def sameKind (v b : Val) : Bool :=
  match v, b with | .map _, .map _ => true | .vec _ _, .vec _ _ => true | _, _ => false

theorem updateIn_eq3 (F : Nat) (st : State) (v i j : Val) (rest : List Val) (f : Val) (d : Nat) :
    updateIn (F+1) st v (i :: j :: rest) f d =
      match updBranch v i with
      | none => (.err (.lisp (.goerr "update-in: type not supported / conversion") none), st)
      | some b =>
        if !sameKind v b then (.err (.lisp (.goerr "interface conversion") none), st) else
        match updateIn F st b (j :: rest) f d with
        | (.ok inner, st) => assocRes (Core.assoc [v, i, inner]) st
        | r => r := by
  conv => lhs; unfold updateIn
  rfl

include hg in
theorem updBranch_map (v i : Val) : updBranch (mapPos g v) (mapPos g i) = (updBranch v i).map (mapPos g) := by
  cases v with
  | map m =>
    cases i <;> simp only [mapPos, updBranch] <;> try rfl
    rw [alookup_map]
    cases alookup _ m with
    | none => rfl
    | some w => cases w <;> rfl
  | vec xs p =>
    cases i <;> simp only [mapPos, updBranch, mapPosList_length] <;> try rfl
    split
    · rw [mapPosList_getD]
      cases xs.getD _ .nil <;> simp [mapPos, hg.none]
    · rfl
  | _ => cases i <;> rfl

theorem sameKind_map (v b : Val) : sameKind (mapPos g v) (mapPos g b) = sameKind v b := by
  cases v <;> cases b <;> rfl

include hg ih in
theorem updateIn_comm (st : State) (v : Val) (p : List Val) (f : Val) (d : Nat) :
    updateIn (F+1) (mapSt g st) (mapPos g v) (mapPosList g p) (mapPos g f) d =
      mapR g (updateIn (F+1) st v p f d) := by
  match p with
  | [] => rw [mapPosList, updateIn.eq_2, updateIn.eq_2]; rfl
  | [i] => rw [mapPosList, mapPosList, updateIn.eq_3, updateIn.eq_3]; exact ih.update1 st v i f d
  | i :: j :: rest =>
    rw [mapPosList, mapPosList, updateIn_eq3, updateIn_eq3, updBranch_map hg]
    cases updBranch v i with
    | none => simp only [Option.map_none, mapR, mapRes, mapErr, mapPos, hg.none]
    | some b =>
      simp only [Option.map_some, sameKind_map]
      split
      · simp only [mapR, mapRes, mapErr, mapPos, hg.none]
      · have := ih.updateIn st b (j :: rest) f d
        simp only [mapPosList] at this
        rw [this]
        rcases updateIn F st b (j :: rest) f d with ⟨r, s1⟩
        cases r with
        | ok res =>
          simp only [mapR, mapRes]
          have ha := assoc_map hg [v, i, res]
          simp only [mapPosList] at ha
          rw [ha, assocRes_map hg]; rfl
        | err e => rfl
        | oof => rfl

include hg ih in
theorem callBuiltin_comm (st : State) (name : String) (args : List Val) (d : Nat) :
    callBuiltin (F+1) (mapSt g st) name (mapPosList g args) d =
      mapR g (callBuiltin (F+1) st name args d) := by
  unfold callBuiltin
  have hgo : ∀ m : String, ((.err (.lisp (.goerr m) none), mapSt g st) : R) =
      mapR g (.err (.lisp (.goerr m) none), st) := by
    intro m; simp only [mapR, mapRes, mapErr, mapPos, hg.none]
  by_cases hn : name = "trace!"
  · simp only [hn, ↓reduceIte]
    match args with
    | [] => exact hgo _
    | [v] => rfl
    | _ :: _ :: _ => exact hgo _
  simp only [hn, ↓reduceIte]; clear hn
  by_cases hn : name = "depth!"
  · simp only [hn, ↓reduceIte]
    match args with
    | [] => rfl
    | _ :: _ => exact hgo _
  simp only [hn, ↓reduceIte]; clear hn
  by_cases hn : name = "eval"
  · simp only [hn, ↓reduceIte]
    match args with
    | [] => rfl
    | [a] => exact ih.eval st 0 a (d+1)
    | _ :: _ :: _ => rfl
  simp only [hn, ↓reduceIte]; clear hn
  by_cases hn : name = "apply"
  · simp only [hn, ↓reduceIte]
    match args with
    | [] => exact hgo _
    | f :: rest =>
      simp only [mapPosList, mapPosList_getLast?]
      cases hl : rest.getLast? with
      | none => exact hgo _
      | some last =>
        simp only [Option.map_some, seqOf_map]
        cases seqOf? last with
        | none => exact hgo _
        | some tail =>
          simp only [Option.map_some, mapPosList_dropLast, ← mapPosList_append]
          exact ih.apply st f _ d
  simp only [hn, ↓reduceIte]; clear hn
  by_cases hn : name = "map"
  · simp only [hn, ↓reduceIte]
    match args with
    | [] => exact hgo _
    | [_] => exact hgo _
    | [f, s] =>
      simp only [mapPosList, seqOf_map]
      cases seqOf? s with
      | none => exact hgo _
      | some xs =>
        simp only [Option.map_some, ih.mapLoop]
        rcases mapLoop F st f xs d with ⟨r, s1⟩
        cases r <;> simp only [mapRL, mapR, mapRes, mapPos, hg.none]
    | _ :: _ :: _ :: _ => exact hgo _
  simp only [hn, ↓reduceIte]; clear hn
  by_cases hn : name = "atom"
  · simp only [hn, ↓reduceIte]
    match args with
    | [] => exact hgo _
    | [v] => simp only [mapPosList, mapSt_newAtom, mapR, mapRes, mapPos]
    | _ :: _ :: _ => exact hgo _
  simp only [hn, ↓reduceIte]; clear hn
  have hat : ∀ id, (mapSt g st).atoms.getD id .nil = mapPos g (st.atoms.getD id .nil) := by
    intro id
    simp only [mapSt, Array.getD_eq_getD_getElem?, Array.getElem?_map]
    cases st.atoms[id]? <;> rfl
  have hset : ∀ (s1 : State) (id : Nat) (v : Val),
      ({ mapSt g s1 with atoms := (mapSt g s1).atoms.setIfInBounds id (mapPos g v) } : State) =
        mapSt g { s1 with atoms := s1.atoms.setIfInBounds id v } := by
    intro s1 id v
    simp only [mapSt, Array.map_setIfInBounds]
  have hrf : ((.err (.lisp (.str "reflect: Call using") none), mapSt g st) : R) =
      mapR g (.err (.lisp (.str "reflect: Call using") none), st) := by
    simp only [mapR, mapRes, mapErr, mapPos, hg.none]
  by_cases hn : name = "deref"
  · simp only [hn, ↓reduceIte]
    match args with
    | [] => exact hgo _
    | [a] =>
      cases a <;> first
        | exact hrf
        | simp only [mapPosList, mapPos, hat, mapR, mapRes]
    | a :: _ :: _ => cases a <;> exact hgo _
  simp only [hn, ↓reduceIte]; clear hn
  by_cases hn : name = "reset!"
  · simp only [hn, ↓reduceIte]
    match args with
    | [] => exact hgo _
    | [a] => cases a <;> exact hgo _
    | [a, v] =>
      cases a <;> first
        | exact hgo _
        | simp only [mapPosList, mapPos, hset, mapR, mapRes]
    | a :: _ :: _ :: _ => cases a <;> exact hgo _
  simp only [hn, ↓reduceIte]; clear hn
  by_cases hn : name = "swap!"
  · simp only [hn, ↓reduceIte]
    match args with
    | [] => exact hgo _
    | [a] => cases a <;> exact hgo _
    | a :: f :: extra =>
      cases a <;> first
        | exact hgo _
        | skip
      rename_i id
      simp only [mapPosList, mapPos, hat]
      have := ih.apply st f (st.atoms.getD id .nil :: extra) d
      simp only [mapPosList] at this
      rw [this]
      rcases apply F st f (st.atoms.getD id .nil :: extra) d with ⟨r, s1⟩
      cases r with
      | ok v => simp only [mapR, mapRes, hset]
      | err e => rfl
      | oof => rfl
  simp only [hn, ↓reduceIte]; clear hn
  by_cases hn : name = "update"
  · simp only [hn, ↓reduceIte]
    match args with
    | [] => exact hgo _
    | [a] => cases a <;> exact hgo _
    | [a, _] => cases a <;> exact hgo _
    | [v, i, f] =>
      cases v <;> first
        | rfl
        | exact ih.update1 st _ i f d
    | a :: _ :: _ :: _ :: _ => cases a <;> exact hgo _
  simp only [hn, ↓reduceIte]; clear hn
  by_cases hn : name = "update-in"
  · simp only [hn, ↓reduceIte]
    match args with
    | [] => exact hgo _
    | [_] => exact hgo _
    | [_, b] => cases b <;> exact hgo _
    | [v, p, f] =>
      cases p <;> first
        | exact hrf
        | skip
      rename_i path pp
      cases v <;> first
        | rfl
        | exact ih.updateIn st _ path f d
    | _ :: b :: _ :: _ :: _ => cases b <;> exact hgo _
  simp only [hn, ↓reduceIte]; clear hn
  rw [call_map hg]
  cases Core.call name args with
  | none => exact hgo _
  | some b =>
    cases b with
    | ok v => rfl
    | thrown v => simp only [Option.map_some, mapBRes, mapR, mapRes, mapErr, hg.none]
    | goerr m => exact hgo _

/-- the Stepper prologue of `EVAL`: the callback sees the form, its command sets the flags -/
def prologue (sp : Stepper) (ast : Val) : Stepper × Bool :=
  if !sp.skip then
    let cmd := sp.script.headD .noop
    let sp := { sp with script := sp.script.tail, calls := ast :: sp.calls }
    match cmd with
    | .next => ({ sp with skip := true }, true)
    | .stepIn => ({ sp with skip := false, outing1 := false }, false)
    | .stepOut => ({ sp with skip := true, outing1 := true }, false)
    | .noop => (sp, false)
  else (sp, false)

/-- the deferred flag resets of `EVAL` -/
def epilogue (hadOuting2 isNext : Bool) (st' : State) : State :=
  match st'.stepper with
  | none => st'
  | some sp' =>
    let sp' := if hadOuting2 then { sp' with skip := false, outing2 := false } else sp'
    let sp' := if isNext then { sp' with skip := false } else sp'
    { st' with stepper := some sp' }

theorem eval_eq_some {F : Nat} {st : State} {sp : Stepper} (h : st.stepper = some sp) (env : Nat) (ast : Val) (d : Nat) :
    eval (F+1) st env ast d =
      ((evalLoop F { st with stepper := some (prologue sp ast).1 } env ast d).1,
        epilogue (prologue sp ast).1.outing2 (prologue sp ast).2
          (evalLoop F { st with stepper := some (prologue sp ast).1 } env ast d).2) := by
  rw [eval.eq_2]
  simp only [h]
  rfl

theorem prologue_map (sp : Stepper) (ast : Val) :
    prologue (mapStepper g sp) (mapPos g ast) = (mapStepper g (prologue sp ast).1, (prologue sp ast).2) := by
  unfold prologue
  have e1 : (mapStepper g sp).skip = sp.skip := rfl
  have e2 : (mapStepper g sp).script = sp.script := rfl
  rw [e1, e2]
  cases sp.skip with
  | true => rfl
  | false =>
    simp only [Bool.not_false, if_true]
    cases sp.script.headD .noop <;> rfl

theorem epilogue_map (b1 b2 : Bool) (s : State) : epilogue b1 b2 (mapSt g s) = mapSt g (epilogue b1 b2 s) := by
  unfold epilogue
  rw [mapSt_stepper]
  cases s.stepper with
  | none => rfl
  | some sp' => cases b1 <;> cases b2 <;> rfl

include ih in
theorem eval_comm (st : State) (env : Nat) (ast : Val) (d : Nat) :
    eval (F+1) (mapSt g st) env (mapPos g ast) d = mapR g (eval (F+1) st env ast d) := by
  cases h : st.stepper with
  | none =>
    have h' : (mapSt g st).stepper = none := by rw [mapSt_stepper, h]; rfl
    rw [eval.eq_2, eval.eq_2]
    simp only [h, h']
    exact ih.evalLoop st env ast d
  | some sp =>
    have h' : (mapSt g st).stepper = some (mapStepper g sp) := by rw [mapSt_stepper, h]; rfl
    rw [eval_eq_some h, eval_eq_some h', prologue_map]
    have e : ({ mapSt g st with stepper := some (mapStepper g (prologue sp ast).1) } : State) =
        mapSt g { st with stepper := some (prologue sp ast).1 } := rfl
    simp only [e, ih.evalLoop, mapR, epilogue_map]
    rfl

include ih in
theorem continueWith_comm (st : State) (env : Nat) (ast : Val) (d : Nat) :
    continueWith F (mapSt g st) env (mapPos g ast) d = mapR g (continueWith F st env ast d) := by
  unfold continueWith
  rw [mapSt_stepper]
  cases st.stepper with
  | none => exact ih.evalLoop st env ast d
  | some sp => exact ih.eval st env ast (d+1)

include hg ih in
theorem tryCatch_comm (parts : TryParts) (env d : Nat) (r : Res Val) (st : State) :
    tryCatch F (mapParts g parts) env d (mapRes (mapPos g) g r) (mapSt g st) =
      mapR g (tryCatch F parts env d r st) := by
  unfold tryCatch
  cases r with
  | ok v => rfl
  | oof => rfl
  | err e =>
    simp only [mapRes, mapParts]
    cases parts.catchDo with
    | none => rfl
    | some handler =>
      cases parts.catchBind with
      | none => rfl
      | some bind =>
        simp only [Option.map_some]
        have hb := bindParams_map hg (.list [bind] none) [caughtValue e]
        simp only [mapPos, mapPosList, hg.none, ← caughtValue_map] at hb
        rw [hb]
        cases bindParams (.list [bind] none) [caughtValue e] with
        | error be => rfl
        | ok data => simp only [mapBind, mapSt_newScope, ih.doForms]

include ih in
theorem tryFinally_comm (parts : TryParts) (env d : Nat) (r : Res Val) (st : State) :
    tryFinally F (mapParts g parts) env d (mapRes (mapPos g) g r) (mapSt g st) =
      mapR g (tryFinally F parts env d r st) := by
  have main : ∀ r : Res Val, (match (mapParts g parts).finallyDo with
      | none => ((mapRes (mapPos g) g r, outing1Defer (mapSt g st)) : R)
      | some fin =>
        match doForms F (mapSt g st) env fin 0 false d with
        | (.oof, st) => (.oof, st)
        | (_, st) => (mapRes (mapPos g) g r, st)) = mapR g (match parts.finallyDo with
      | none => (r, outing1Defer st)
      | some fin =>
        match doForms F st env fin 0 false d with
        | (.oof, st) => (.oof, st)
        | (_, st) => (r, st)) := by
    intro r
    simp only [mapParts]
    cases parts.finallyDo with
    | none => simp only [Option.map_none, outing1Defer_map, mapR]
    | some fin =>
      simp only [Option.map_some, ih.doForms]
      rcases doForms F st env fin 0 false d with ⟨r2, s2⟩
      cases r2 <;> rfl
  unfold tryFinally
  cases r with
  | oof => rfl
  | ok v => exact main _
  | err e => exact main _

theorem not_list_map {ast : Val} (h : ∀ xs p, ast ≠ .list xs p) : ∀ xs p, mapPos g ast ≠ .list xs p := by
  intro xs p e
  obtain ⟨ys, q, rfl, _⟩ := mapPos_eq_list e
  exact h _ _ rfl

include hg in
theorem nle_plain (m : String) (c : Val) (s : State) :
    ((.err (newLispError (.plain m) (mapPos g c)), mapSt g s) : R) =
      mapR g (.err (newLispError (.plain m) c), s) := by
  simp only [mapR, mapRes]; rw [← newLispError_map hg]; rfl

section arms
variable {st s0 s1 : State} {env d : Nat} {xs ops : List Val} {a0 : Val} {p p' : Option Pos}
  (hp : st.poll = (false, s0)) (hp' : (mapSt g st).poll = (false, mapSt g s0))
  (hm : macroexpand F s0 env (.list xs p) d = (.ok (.list (a0 :: ops) p'), s1))
  (hm' : macroexpand F (mapSt g s0) env (.list (mapPosList g xs) (g p)) d =
    (.ok (.list (mapPos g a0 :: mapPosList g ops) (g p')), mapSt g s1))

include hg ih hp hp' hm hm' in
theorem arm_def (ha : a0sym a0 = "def") :
    evalLoop (F+1) (mapSt g st) env (.list (mapPosList g xs) (g p)) d =
      mapR g (evalLoop (F+1) st env (.list xs p) d) := by
  rw [evalLoop_def hp' hm' (by rw [a0sym_map]; exact ha), evalLoop_def hp hm ha]
  rw [mapPosList_getD, mapPosList_getD, ih.eval]
  rcases eval F s1 env (ops.getD 1 .nil) (d+1) with ⟨r, s2⟩
  cases r with
  | ok res =>
    simp only [mapR, mapRes]
    cases ops.getD 0 .nil <;> first
      | exact nle_plain hg _ (.list (a0 :: ops) p') _
      | simp only [mapPos, mapSt_set, mapR, mapRes]
  | err e => rfl
  | oof => rfl

include hg ih hp hp' hm hm' in
theorem arm_let (ha : a0sym a0 = "let") :
    evalLoop (F+1) (mapSt g st) env (.list (mapPosList g xs) (g p)) d =
      mapR g (evalLoop (F+1) st env (.list xs p) d) := by
  rw [evalLoop_let hp' hm' (by rw [a0sym_map]; exact ha), evalLoop_let hp hm ha]
  have hns : (mapSt g s1).newScope env [] = (mapSt g (s1.newScope env []).1, (s1.newScope env []).2) :=
    mapSt_newScope s1 env []
  rw [mapPosList_getD, seqOf_map, hns]
  cases seqOf? (ops.getD 0 .nil) with
  | none => rfl
  | some arr1 =>
    simp only [Option.map_some, mapPosList_length]
    split
    · exact nle_plain hg _ _ _
    · rw [ih.letBinds]
      rcases letBinds F (s1.newScope env []).1 (s1.newScope env []).2 arr1 (ops.getD 0 .nil) d with ⟨r, s2⟩
      cases r with
      | ok _ =>
        simp only [mapR, mapRes]
        have := ih.doForms s2 (s1.newScope env []).2 (a0 :: ops) 2 true d
        simp only [mapPosList] at this
        rw [this]
        rcases doForms F s2 (s1.newScope env []).2 (a0 :: ops) 2 true d with ⟨r3, s3⟩
        cases r3 with
        | ok next => simp only [mapR, mapRes]; exact continueWith_comm ih s3 _ next d
        | err e => rfl
        | oof => rfl
      | err e => rfl
      | oof => rfl

include hp hp' hm hm' in
theorem arm_quote (ha : a0sym a0 = "quote") :
    evalLoop (F+1) (mapSt g st) env (.list (mapPosList g xs) (g p)) d =
      mapR g (evalLoop (F+1) st env (.list xs p) d) := by
  rw [evalLoop_quote hp' hm' (by rw [a0sym_map]; exact ha), evalLoop_quote hp hm ha, mapPosList_getD]
  rfl

include hg hp hp' hm hm' in
theorem arm_quasiquoteexpand (ha : a0sym a0 = "quasiquoteexpand") :
    evalLoop (F+1) (mapSt g st) env (.list (mapPosList g xs) (g p)) d =
      mapR g (evalLoop (F+1) st env (.list xs p) d) := by
  rw [evalLoop_quasiquoteexpand hp' hm' (by rw [a0sym_map]; exact ha), evalLoop_quasiquoteexpand hp hm ha,
    mapPosList_getD, quasiquote_map hg]
  rfl

include hg ih hp hp' hm hm' in
theorem arm_quasiquote (ha : a0sym a0 = "quasiquote") :
    evalLoop (F+1) (mapSt g st) env (.list (mapPosList g xs) (g p)) d =
      mapR g (evalLoop (F+1) st env (.list xs p) d) := by
  rw [evalLoop_quasiquote hp' hm' (by rw [a0sym_map]; exact ha), evalLoop_quasiquote hp hm ha,
    mapPosList_getD, quasiquote_map hg]
  exact continueWith_comm ih _ _ _ _

include hg ih hp hp' hm hm' in
theorem arm_defmacro (ha : a0sym a0 = "defmacro") :
    evalLoop (F+1) (mapSt g st) env (.list (mapPosList g xs) (g p)) d =
      mapR g (evalLoop (F+1) st env (.list xs p) d) := by
  rw [evalLoop_defmacro hp' hm' (by rw [a0sym_map]; exact ha), evalLoop_defmacro hp hm ha]
  rw [mapPosList_getD, mapPosList_getD, ih.eval]
  rcases eval F s1 env (ops.getD 1 .nil) (d+1) with ⟨r, s2⟩
  cases r with
  | ok f =>
    simp only [mapR, mapRes]
    cases f <;> first
      | exact nle_plain hg _ (.list (a0 :: ops) p') _
      | skip
    simp only [mapPos]
    cases ops.getD 0 .nil <;> first
      | exact nle_plain hg _ (.list (a0 :: ops) p') _
      | (simp only [mapPos, mapR, mapRes]; rw [← mapSt_set]; simp only [mapPos])
  | err e => rfl
  | oof => rfl

include ih hp hp' hm hm' in
theorem arm_macroexpand (ha : a0sym a0 = "macroexpand") :
    evalLoop (F+1) (mapSt g st) env (.list (mapPosList g xs) (g p)) d =
      mapR g (evalLoop (F+1) st env (.list xs p) d) := by
  rw [evalLoop_macroexpand hp' hm' (by rw [a0sym_map]; exact ha), evalLoop_macroexpand hp hm ha,
    mapPosList_getD]
  exact ih.macroexpand _ _ _ _

include ih hp hp' hm hm' in
theorem arm_do (ha : a0sym a0 = "do") :
    evalLoop (F+1) (mapSt g st) env (.list (mapPosList g xs) (g p)) d =
      mapR g (evalLoop (F+1) st env (.list xs p) d) := by
  rw [evalLoop_do hp' hm' (by rw [a0sym_map]; exact ha), evalLoop_do hp hm ha]
  have := ih.doForms s1 env (a0 :: ops) 1 true d
  simp only [mapPosList] at this
  rw [this]
  rcases doForms F s1 env (a0 :: ops) 1 true d with ⟨r, s2⟩
  cases r with
  | ok next => simp only [mapR, mapRes]; exact continueWith_comm ih s2 _ next d
  | err e => rfl
  | oof => rfl

include ih hp hp' hm hm' in
theorem arm_if (ha : a0sym a0 = "if") :
    evalLoop (F+1) (mapSt g st) env (.list (mapPosList g xs) (g p)) d =
      mapR g (evalLoop (F+1) st env (.list xs p) d) := by
  rw [evalLoop_if hp' hm' (by rw [a0sym_map]; exact ha), evalLoop_if hp hm ha]
  rw [mapPosList_getD, mapPosList_getD, ih.eval]
  rcases eval F s1 env (ops.getD 0 .nil) (d+1) with ⟨r, s2⟩
  cases r with
  | ok cond =>
    simp only [mapR, mapRes, truthy_map, List.length_cons, mapPosList_length]
    split
    · exact continueWith_comm ih s2 _ _ d
    · split
      · have : (mapPos g a0 :: mapPosList g ops).getD 3 .nil = mapPos g ((a0 :: ops).getD 3 .nil) := by
          rw [← mapPosList_cons, mapPosList_getD]
        rw [this]
        exact continueWith_comm ih s2 _ _ d
      · rfl
  | err e => rfl
  | oof => rfl

include hg hp hp' hm hm' in
theorem arm_fn (ha : a0sym a0 = "fn") :
    evalLoop (F+1) (mapSt g st) env (.list (mapPosList g xs) (g p)) d =
      mapR g (evalLoop (F+1) st env (.list xs p) d) := by
  rw [evalLoop_fn hp' hm' (by rw [a0sym_map]; exact ha), evalLoop_fn hp hm ha]
  simp only [List.length_cons, mapPosList_length]
  split
  · exact nle_plain hg _ (.list (a0 :: ops) p') _
  · simp only [mapR, mapRes, mapPos, mapPosList_getD, hg.none, ← mapPosList_cons, mapPosList_drop]
    simp only [mapPosList, mapPos, hg.none]

include hg ih hp hp' hm hm' in
theorem arm_try (ha : a0sym a0 = "try") :
    evalLoop (F+1) (mapSt g st) env (.list (mapPosList g xs) (g p)) d =
      mapR g (evalLoop (F+1) st env (.list xs p) d) := by
  rw [evalLoop_try hp' hm' (by rw [a0sym_map]; exact ha), evalLoop_try hp hm ha]
  rw [mapPosList_isEmpty]
  split
  · rfl
  · rw [← mapPosList_cons, splitTry_map]
    cases splitTry (a0 :: ops) with
    | error msg => exact nle_plain hg _ (.list (a0 :: ops) p') _
    | ok parts =>
      simp only [mapSplit]
      have hb : doForms F (mapSt g s1) env (mapParts g parts).body 0 false d =
          mapR g (doForms F s1 env parts.body 0 false d) := ih.doForms s1 env parts.body 0 false d
      rw [hb]
      rcases doForms F s1 env parts.body 0 false d with ⟨rb, sb⟩
      have hc := tryCatch_comm hg ih parts env d rb sb
      simp only [mapR] at hc ⊢
      rw [hc]
      rcases tryCatch F parts env d rb sb with ⟨rc, sc⟩
      exact tryFinally_comm ih parts env d rc sc

include hg ih hp hp' hm hm' in
theorem arm_app (ha : a0sym a0 ∉ specialForms) :
    evalLoop (F+1) (mapSt g st) env (.list (mapPosList g xs) (g p)) d =
      mapR g (evalLoop (F+1) st env (.list xs p) d) := by
  rw [evalLoop_app hp' hm' (by rw [a0sym_map]; exact ha), evalLoop_app hp hm ha]
  have := ih.evalList s1 env (a0 :: ops) d
  simp only [mapPosList] at this
  rw [this]
  rcases evalList F s1 env (a0 :: ops) d with ⟨r, s2⟩
  cases r with
  | err e => rfl
  | oof => rfl
  | ok el =>
    simp only [mapRL, mapRes]
    cases el with
    | nil => rfl
    | cons f args =>
      simp only [mapPosList]
      cases f with
      | fn params body fenv m fp =>
        simp only [mapPos, bindParams_map hg]
        cases hb : bindParams params args with
        | ok data => simp only [mapBind, mapSt_newScope]; exact continueWith_comm ih _ _ body d
        | error e =>
          simp only [mapBind]
          cases e with
          | plain msg => exact nle_plain hg _ body _
          | lisp pl pos =>
            cases pl <;> first
              | (simp only [mapErr, mapPos, mapR, mapRes, hg.none]; done)
              | (simp only [mapR, mapRes]
                 rw [← newLispError_map hg]; rfl)
      | builtin name =>
        simp only [mapPos, ih.callBuiltin]
        rcases callBuiltin F s2 name args d with ⟨r3, s3⟩
        cases r3 with
        | ok v => rfl
        | oof => rfl
        | err e =>
          simp only [mapR, mapRes]
          rw [← newLispError_map hg]; rfl
      | _ => simp only [mapPos, mapR, mapRes, mapErr, hg.none]

end arms

include hg ih in
theorem evalLoop_comm (st : State) (env : Nat) (ast : Val) (d : Nat) :
    evalLoop (F+1) (mapSt g st) env (mapPos g ast) d = mapR g (evalLoop (F+1) st env ast d) := by
  rcases hp : st.poll with ⟨dn, s0⟩
  have hp' : (mapSt g st).poll = (dn, mapSt g s0) := by rw [mapSt_poll, hp]
  cases dn with
  | true =>
    rw [evalLoop_timeout hp', evalLoop_timeout hp]
    exact nle_plain hg _ ast _
  | false =>
    by_cases hl : ∃ xs p, ast = .list xs p
    case neg =>
      have hl1 : ∀ xs p, ast ≠ .list xs p := fun xs p hc => hl ⟨xs, p, hc⟩
      rw [evalLoop_nonlist hp' (not_list_map hl1), evalLoop_nonlist hp hl1]
      exact ih.evalAst s0 env ast d
    obtain ⟨xs, p, rfl⟩ := hl
    rcases hm : macroexpand F s0 env (.list xs p) d with ⟨rm, s1⟩
    have hm' : macroexpand F (mapSt g s0) env (.list (mapPosList g xs) (g p)) d = mapR g (rm, s1) := by
      have := ih.macroexpand s0 env (.list xs p) d
      rw [hm] at this; exact this
    show evalLoop (F+1) (mapSt g st) env (.list (mapPosList g xs) (g p)) d = _
    cases rm with
    | err e => rw [evalLoop_mac_err hp' hm', evalLoop_mac_err hp hm]; rfl
    | oof => rw [evalLoop_mac_oof hp' hm', evalLoop_mac_oof hp hm]; rfl
    | ok ast' =>
      by_cases hl' : ∃ ys q, ast' = .list ys q
      case neg =>
        have hl1 : ∀ ys q, ast' ≠ .list ys q := fun ys q hc => hl' ⟨ys, q, hc⟩
        rw [evalLoop_mac_nonlist hp' hm' (not_list_map hl1), evalLoop_mac_nonlist hp hm hl1]
        exact ih.evalAst s1 env ast' d
      obtain ⟨ys, p', rfl⟩ := hl'
      cases ys with
      | nil => rw [evalLoop_mac_empty hp' hm', evalLoop_mac_empty hp hm]; rfl
      | cons a0 ops =>
        have hm'' : macroexpand F (mapSt g s0) env (.list (mapPosList g xs) (g p)) d =
            (.ok (.list (mapPos g a0 :: mapPosList g ops) (g p')), mapSt g s1) := hm'
        by_cases h_def : a0sym a0 = "def"
        · exact arm_def hg ih hp hp' hm hm'' h_def
        by_cases h_let : a0sym a0 = "let"
        · exact arm_let hg ih hp hp' hm hm'' h_let
        by_cases h_quote : a0sym a0 = "quote"
        · exact arm_quote hp hp' hm hm'' h_quote
        by_cases h_qqe : a0sym a0 = "quasiquoteexpand"
        · exact arm_quasiquoteexpand hg hp hp' hm hm'' h_qqe
        by_cases h_qq : a0sym a0 = "quasiquote"
        · exact arm_quasiquote hg ih hp hp' hm hm'' h_qq
        by_cases h_defmacro : a0sym a0 = "defmacro"
        · exact arm_defmacro hg ih hp hp' hm hm'' h_defmacro
        by_cases h_macroexpand : a0sym a0 = "macroexpand"
        · exact arm_macroexpand ih hp hp' hm hm'' h_macroexpand
        by_cases h_try : a0sym a0 = "try"
        · exact arm_try hg ih hp hp' hm hm'' h_try
        by_cases h_do : a0sym a0 = "do"
        · exact arm_do ih hp hp' hm hm'' h_do
        by_cases h_if : a0sym a0 = "if"
        · exact arm_if ih hp hp' hm hm'' h_if
        by_cases h_fn : a0sym a0 = "fn"
        · exact arm_fn hg hp hp' hm hm'' h_fn
        have ha : a0sym a0 ∉ specialForms := by
          simp only [specialForms, List.mem_cons, List.not_mem_nil, or_false, not_or]
          exact ⟨h_def, h_let, h_quote, h_qqe, h_qq, h_defmacro, h_macroexpand, h_try, h_do, h_if, h_fn⟩
        exact arm_app hg ih hp hp' hm hm'' ha

end steps

/-- **the commutation theorem**: every function of the evaluator block, at every fuel, commutes with
    every cursor map that keeps "no cursor" and respects "first position wins" -/
theorem comm {g : Option Pos → Option Pos} (hg : PosMap g) : ∀ F, Comm g F := by
  intro F
  induction F with
  | zero =>
    constructor <;> intros
    · rw [eval.eq_1, eval.eq_1]; rfl
    · rw [evalLoop.eq_1, evalLoop.eq_1]; rfl
    · unfold evalAst; rfl
    · rw [evalList.eq_1, evalList.eq_1]; rfl
    · rw [evalMap.eq_1, evalMap.eq_1]; rfl
    · rw [doForms.eq_1, doForms.eq_1]; rfl
    · unfold letBinds; rfl
    · unfold macroexpand; rfl
    · unfold apply; rfl
    · rw [mapLoop.eq_1, mapLoop.eq_1]; rfl
    · unfold updateIn; rfl
    · unfold update1; rfl
    · unfold callBuiltin; rfl
  | succ F ih =>
    exact ⟨eval_comm ih, evalLoop_comm hg ih, evalAst_comm hg ih, evalList_comm ih, evalMap_comm ih,
      doForms_comm ih, letBinds_comm hg ih, macroexpand_comm hg ih, apply_comm hg ih, mapLoop_comm ih,
      updateIn_comm hg ih, update1_comm hg ih, callBuiltin_comm hg ih⟩

/-! ### consequences for property C19 -/

/-- erase every cursor of a state -/
def eraseSt : State → State := mapSt (fun _ => none)
/-- erase every cursor of a result: value, error payload, error position, state -/
def eraseR : R → R := mapR (fun _ => none)

/-- values that differ only in cursors -/
def ValEq (a b : Val) : Prop := erasePos a = erasePos b
/-- states that differ only in cursors (same scope structure, same ticks, marks, poll oracle, debugger flags) -/
def StEq (s t : State) : Prop := eraseSt s = eraseSt t
/-- results that differ only in cursors; for errors this says: the payloads differ only in cursors — the
    positions of the two errors are not compared (`eraseR` maps both to `none`) -/
def REq (r r' : R) : Prop := eraseR r = eraseR r'

theorem eval_erase (F : Nat) (st : State) (env : Nat) (ast : Val) (d : Nat) :
    eval F (eraseSt st) env (erasePos ast) d = eraseR (eval F st env ast d) :=
  (comm posMap_erase F).eval st env ast d

theorem eval_ignores_positions (F : Nat) {st st' : State} (env : Nat) {ast ast' : Val} (d : Nat)
    (hs : StEq st st') (ha : ValEq ast ast') : REq (eval F st env ast d) (eval F st' env ast' d) := by
  unfold REq
  rw [← eval_erase, ← eval_erase, hs, ha]

theorem evalLoop_ignores_positions (F : Nat) {st st' : State} (env : Nat) {ast ast' : Val} (d : Nat)
    (hs : StEq st st') (ha : ValEq ast ast') : REq (evalLoop F st env ast d) (evalLoop F st' env ast' d) := by
  unfold REq eraseR
  rw [← (comm posMap_erase F).evalLoop, ← (comm posMap_erase F).evalLoop]
  show evalLoop F (eraseSt st) env (erasePos ast) d = evalLoop F (eraseSt st') env (erasePos ast') d
  rw [hs, ha]

theorem apply_ignores_positions (F : Nat) {st st' : State} {f f' : Val} {args args' : List Val} (d : Nat)
    (hs : StEq st st') (hf : ValEq f f')
    (hargs : mapPosList (fun _ => none) args = mapPosList (fun _ => none) args') :
    REq (apply F st f args d) (apply F st' f' args' d) := by
  unfold REq eraseR
  rw [← (comm posMap_erase F).apply, ← (comm posMap_erase F).apply]
  show apply F (eraseSt st) (erasePos f) _ d = apply F (eraseSt st') (erasePos f') _ d
  rw [hs, hf, hargs]

/-- what `REq` says about the components -/
theorem REq_ok {v v' : Val} {s s' : State} (h : REq (.ok v, s) (.ok v', s')) : ValEq v v' ∧ StEq s s' := by
  simp only [REq, eraseR, mapR, mapRes, Prod.mk.injEq, Res.ok.injEq] at h; exact h
theorem REq_err {pl pl' : Val} {q q' : Option Pos} {s s' : State}
    (h : REq (.err (.lisp pl q), s) (.err (.lisp pl' q'), s')) : ValEq pl pl' ∧ StEq s s' := by
  simp only [REq, eraseR, mapR, mapRes, mapErr, Prod.mk.injEq, Res.err.injEq, Err.lisp.injEq, and_true] at h
  exact h
theorem StEq_same {s s' : State} (h : StEq s s') :
    s.ticks = s'.ticks ∧ s.marks = s'.marks ∧ s.cancelAt = s'.cancelAt ∧ s.scopes.size = s'.scopes.size ∧
    mapPosList (fun _ => none) s.trace = mapPosList (fun _ => none) s'.trace := by
  have h1 := congrArg State.ticks h
  have h2 := congrArg State.marks h
  have h3 := congrArg State.cancelAt h
  have h4 := congrArg (fun s => s.scopes.size) h
  have h5 := congrArg State.trace h
  simp only [eraseSt, mapSt, Array.size_map] at h1 h2 h3 h4 h5
  exact ⟨h1, h2, h3, h4, h5⟩
/-- a result is never related to a result of another kind -/
theorem REq_kind {r r' : R} (h : REq r r') :
    (∃ v v', r.1 = .ok v ∧ r'.1 = .ok v') ∨ (∃ e e', r.1 = .err e ∧ r'.1 = .err e') ∨ (r.1 = .oof ∧ r'.1 = .oof) := by
  obtain ⟨r1, s1⟩ := r
  obtain ⟨r2, s2⟩ := r'
  simp only [REq, eraseR, mapR, Prod.mk.injEq] at h
  cases r1 <;> cases r2 <;> simp [mapRes] at h ⊢

/-! ### `do` creates no scope -/

theorem getAux_ticks (st : State) (t : Nat) (n id : Nat) (k : String) :
    State.getAux { st with ticks := t } n id k = State.getAux st n id k := by
  induction n generalizing id with
  | zero => rfl
  | succ n ih =>
    simp only [State.getAux, State.scope?]
    cases st.scopes[id]? with
    | none => rfl
    | some sc =>
      simp only
      cases alookup k sc.data with
      | some v => rfl
      | none => simp only; cases sc.outer with
        | none => rfl
        | some o => exact ih o

theorem tick_get (st : State) (env : Nat) (k : String) : (tick st).get env k = st.get env k :=
  getAux_ticks st _ _ env k

theorem poll_std {st : State} (h : st.cancelAt = none) : st.poll = (false, tick st) := by
  simp only [State.poll, h, tick]

theorem macroexpand_notMacro {F : Nat} {st : State} {env d : Nat} {s : String} {q p : Option Pos}
    {args : List Val} (h : NotMacro st env s) :
    macroexpand (F+1) st env (.list (.sym s q :: args) p) d = (.ok (.list (.sym s q :: args) p), st) := by
  rw [macroexpand.eq_2]
  cases hg : st.get env s with
  | none => rfl
  | some v =>
    cases v with
    | fn ps b e m fp =>
      cases m with
      | true => exact absurd hg (h ps b e fp)
      | false => rfl
    | _ => rfl

/-- the forms of `(do f₁ … fₙ)` are evaluated in the SAME scope `env` and on the same store, left to
    right (`evalList` is by definition the sequence `eval … env fᵢ`, threading the state), and the loop
    continues with `fₙ` — again in `env`.  No scope is created: feeding the forms one by one to the
    evaluator in `env` performs the same evaluations (modulo the one extra poll `tick`). -/
theorem do_creates_no_scope {F : Nat} {st : State} {env d : Nat} {q p : Option Pos} {forms : List Val}
    (hs : st.stepper = none) (hc : st.cancelAt = none) (hnm : NotMacro st env "do") (hne : forms ≠ []) :
    evalLoop (F+2) st env (.list (.sym "do" q :: forms) p) d =
      match evalList F (tick st) env forms.dropLast d with
      | (.ok _, s2) => continueWith (F+1) s2 env (forms.getLast?.getD .nil) d
      | (.err e, s2) => (.err e, s2)
      | (.oof, s2) => (.oof, s2) := by
  have hnm' : NotMacro (tick st) env "do" := by
    intro ps b e fp; rw [tick_get]; exact hnm ps b e fp
  rw [evalLoop_do (poll_std hc) (macroexpand_notMacro hnm') rfl, doForms_eq]
  have hh : hadOuting1 (tick st) = false := by
    unfold hadOuting1; rw [show (tick st).stepper = st.stepper from rfl, hs]
  have hlen : ¬ (Val.sym "do" q :: forms).length ≤ 1 := by
    cases forms with
    | nil => exact absurd rfl hne
    | cons a r => simp
  have hlast : (Val.sym "do" q :: forms).getLast? = forms.getLast? := by
    cases forms with
    | nil => exact absurd rfl hne
    | cons a r => rfl
  rw [hh, if_neg hlen, hlast]
  simp only [doFin, List.drop_succ_cons, List.drop_zero, if_true, Bool.false_eq_true, if_false]
  rcases evalList F (tick st) env forms.dropLast d with ⟨r, s2⟩
  cases r <;> rfl

end LispModel.Proofs.EvalErase

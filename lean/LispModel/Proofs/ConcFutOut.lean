/-
  C10 proofs, part 5: the body function is applied once; at most one outcome item exists (in a
  channel or in the hands of one reader) and it is the body's outcome; the flags tell the truth.
-/
import LispModel.Proofs.ConcFutMuStep
namespace LispModel.Proofs.ConcFut
open LispModel.Conc LispModel.Conc.Fut

/-- the body's outcome has been handed to a channel -/
def sent (F : FutS) : Prop :=
  match F.body with
  | some b => b.pc ≥ 5 ∨ b.returning = true
  | none => F.res ≠ none

/-- the body has set `Done` -/
def pastDone (F : FutS) : Prop :=
  match F.body with
  | some b => b.pc ≥ 3 ∨ b.returning = true
  | none => F.res ≠ none

/-- client `t` has taken the outcome of `f` out of a channel and not yet put it back -/
def inflight (s : FState) (t f : Nat) : Prop :=
  ∃ fr, (s.threads t).cur = some fr ∧ fr.name = .derefF ∧ fr.fut = f ∧ fr.pc = 1 ∧ fr.returning = false

structure OutInv (s : FState) : Prop where
  runs : ∀ f, (s.futs f).runs = if (s.futs f).res.isSome then 1 else 0
  fresh : ∀ f b, (s.futs f).body = some b →
    ((b.pc = 0 ∧ b.returning = false) ↔ (s.futs f).res = none) ∧ ((s.futs f).res ≠ none → b.got = (s.futs f).res)
  done : ∀ f, pastDone (s.futs f) → (s.futs f).done = true
  unsent : ∀ f, ¬ sent (s.futs f) → (s.futs f).valCh = none ∧ (s.futs f).errCh = none ∧ ∀ t, ¬ inflight s t f
  inVal : ∀ f v, (s.futs f).valCh = some v →
    (s.futs f).res = some (false, v) ∧ (s.futs f).errCh = none ∧ ∀ t, ¬ inflight s t f
  inErr : ∀ f e, (s.futs f).errCh = some e →
    (s.futs f).res = some (true, e) ∧ (s.futs f).valCh = none ∧ ∀ t, ¬ inflight s t f
  inHand : ∀ t f, inflight s t f →
    (s.futs f).valCh = none ∧ (s.futs f).errCh = none ∧ ∀ t', t' ≠ t → ¬ inflight s t' f
  handGot : ∀ t fr, (s.threads t).cur = some fr → fr.name = .derefF → fr.pc = 1 → fr.returning = false →
    fr.got ≠ none
  got : ∀ t fr o, (s.threads t).cur = some fr → fr.name = .derefF → fr.got = some o →
    (s.futs fr.fut).res = some o ∧ sent (s.futs fr.fut)
  outs : ∀ t n f o, (n, f, Resp.out o) ∈ (s.threads t).out → (s.futs f).res = some o ∧ sent (s.futs f)

/-- micro-ops that touch channels, outcome or run counter -/
def isOutOp : MOp → Bool
  | .callBody | .send | .resend | .selectRecv => true
  | _ => false

theorem execF_quiet {o arm ce m fr F fr' F'} (h : execF o arm ce m fr F = some (fr', F'))
    (hq : isOutOp m = false) :
    F'.valCh = F.valCh ∧ F'.errCh = F.errCh ∧ F'.res = F.res ∧ F'.runs = F.runs ∧
    fr'.got = fr.got ∧ fr'.timedOut = fr.timedOut := by
  cases m with
  | lock mu => cases mu <;> simp [execF] at h; obtain ⟨-, h2, h3⟩ := h; subst h2; subst h3; simp
  | unlock mu => cases mu <;> simp [execF] at h; obtain ⟨h2, h3⟩ := h; subst h2; subst h3; simp
  | deferUnlock mu => simp [execF] at h; obtain ⟨h2, h3⟩ := h; subst h2; subst h3; simp
  | deferWrite l => simp [execF] at h; obtain ⟨h2, h3⟩ := h; subst h2; subst h3; simp
  | read l => cases l <;> simp [execF] at h <;> (obtain ⟨h2, h3⟩ := h; subst h2; subst h3; simp)
  | write l => cases l <;> simp [execF] at h <;> (obtain ⟨h2, h3⟩ := h; subst h2; subst h3; simp)
  | brTrue l k => cases l <;> simp [execF] at h; obtain ⟨h2, h3⟩ := h; subst h2; subst h3
                  split <;> simp
  | cancelCtx => simp [execF] at h; obtain ⟨h2, h3⟩ := h; subst h2; subst h3; simp
  | ret => simp [execF] at h; obtain ⟨h2, h3⟩ := h; subst h2; subst h3; simp
  | callBody => simp [isOutOp] at hq
  | send => simp [isOutOp] at hq
  | resend => simp [isOutOp] at hq
  | selectRecv => simp [isOutOp] at hq
  | _ => simp [execF] at h

/-- `Done` after a micro-op: set by `write done`, otherwise unchanged or set (monotone) -/
theorem execF_done {o arm ce m fr F fr' F'} (h : execF o arm ce m fr F = some (fr', F')) :
    (m = .write .done → F'.done = true) := by
  intro hm; subst hm; simp [execF] at h; obtain ⟨-, h3⟩ := h; subst h3; rfl

/-- the part of a future the outcome invariant looks at -/
def SameOut (F F' : FutS) : Prop :=
  F'.valCh = F.valCh ∧ F'.errCh = F.errCh ∧ F'.res = F.res ∧ F'.runs = F.runs ∧ F'.body = F.body ∧
  (F.done = true → F'.done = true)

theorem SameOut.sent_iff {F F' : FutS} (h : SameOut F F') : sent F' ↔ sent F := by
  obtain ⟨-, -, h3, -, h5, -⟩ := h
  unfold sent; rw [h5, h3]

theorem SameOut.pastDone_iff {F F' : FutS} (h : SameOut F F') : pastDone F' ↔ pastDone F := by
  obtain ⟨-, -, h3, -, h5, -⟩ := h
  unfold pastDone; rw [h5, h3]

/-- steps that touch neither channels, outcome, run counter, body frame nor any `deref` frame -/
theorem OutInv.transfer {s s' : FState} (h : OutInv s)
    (hF : ∀ f, SameOut (s.futs f) (s'.futs f))
    (hG : ∀ t fr, (s'.threads t).cur = some fr → fr.name = .derefF →
      (s.threads t).cur = some fr ∨ (fr.got = none ∧ fr.pc = 0))
    (hO : ∀ t n f o, (n, f, Resp.out o) ∈ (s'.threads t).out → (n, f, Resp.out o) ∈ (s.threads t).out) :
    OutInv s' := by
  have hI : ∀ t f, inflight s' t f → inflight s t f := by
    rintro t f ⟨fr, h1, h2, h3, h4, h5⟩
    rcases hG t fr h1 h2 with h6 | ⟨-, h6⟩
    · exact ⟨fr, h6, h2, h3, h4, h5⟩
    · omega
  constructor
  · intro f; obtain ⟨-, -, h3, h4, -⟩ := hF f; rw [h4, h3]; exact h.runs f
  · intro f b hb
    obtain ⟨-, -, h3, -, h5, -⟩ := hF f
    rw [h5] at hb; rw [h3]; exact h.fresh f b hb
  · intro f hp
    exact (hF f).2.2.2.2.2 (h.done f ((hF f).pastDone_iff.mp hp))
  · intro f hns
    obtain ⟨a, b, c⟩ := h.unsent f (fun hs => hns ((hF f).sent_iff.mpr hs))
    obtain ⟨h1, h2, -⟩ := hF f
    exact ⟨by rw [h1]; exact a, by rw [h2]; exact b, fun t ht => c t (hI t f ht)⟩
  · intro f v hv
    obtain ⟨h1, h2, h3, -⟩ := hF f
    rw [h1] at hv
    obtain ⟨a, b, c⟩ := h.inVal f v hv
    exact ⟨by rw [h3]; exact a, by rw [h2]; exact b, fun t ht => c t (hI t f ht)⟩
  · intro f e he
    obtain ⟨h1, h2, h3, -⟩ := hF f
    rw [h2] at he
    obtain ⟨a, b, c⟩ := h.inErr f e he
    exact ⟨by rw [h3]; exact a, by rw [h1]; exact b, fun t ht => c t (hI t f ht)⟩
  · intro t f ht
    obtain ⟨a, b, c⟩ := h.inHand t f (hI t f ht)
    obtain ⟨h1, h2, -⟩ := hF f
    exact ⟨by rw [h1]; exact a, by rw [h2]; exact b, fun t' hne ht' => c t' hne (hI t' f ht')⟩
  · intro t fr h1 h2 h3 h4
    rcases hG t fr h1 h2 with h6 | ⟨-, h6⟩
    · exact h.handGot t fr h6 h2 h3 h4
    · omega
  · intro t fr o h1 h2 h3
    rcases hG t fr h1 h2 with h6 | ⟨h6, -⟩
    · obtain ⟨a, b⟩ := h.got t fr o h6 h2 h3
      exact ⟨by rw [(hF fr.fut).2.2.1]; exact a, (hF fr.fut).sent_iff.mpr b⟩
    · rw [h6] at h3; cases h3
  · intro t n f o hm
    obtain ⟨a, b⟩ := h.outs t n f o (hO t n f o hm)
    exact ⟨by rw [(hF f).2.2.1]; exact a, (hF f).sent_iff.mpr b⟩

end LispModel.Proofs.ConcFut

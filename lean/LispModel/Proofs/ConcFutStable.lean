/-
  C10 proofs, part 12: the flags of a future change only by a step of the owner holding its `mu`.
-/
import LispModel.Proofs.ConcFutRace
namespace LispModel.Proofs.ConcFut
open LispModel.Conc LispModel.Conc.Fut

def isFlagWrite : MOp → Bool
  | .write _ | .cancelCtx => true
  | _ => false

def SameFlags (F F' : FutS) : Prop :=
  F'.done = F.done ∧ F'.cancelled = F.cancelled ∧ F'.ctxCancelled = F.ctxCancelled

theorem execF_flags_same {o arm ce m fr F fr' F'} (h : execF o arm ce m fr F = some (fr', F'))
    (hq : isFlagWrite m = false) : SameFlags F F' := by
  cases m with
  | lock mu => cases mu <;> simp [execF] at h; obtain ⟨-, -, h3⟩ := h; subst h3; exact ⟨rfl, rfl, rfl⟩
  | unlock mu => cases mu <;> simp [execF] at h; obtain ⟨-, h3⟩ := h; subst h3; exact ⟨rfl, rfl, rfl⟩
  | deferUnlock mu => simp [execF] at h; obtain ⟨-, h3⟩ := h; subst h3; exact ⟨rfl, rfl, rfl⟩
  | deferWrite l => simp [execF] at h; obtain ⟨-, h3⟩ := h; subst h3; exact ⟨rfl, rfl, rfl⟩
  | read l => cases l <;> simp [execF] at h <;> (obtain ⟨-, h3⟩ := h; subst h3; exact ⟨rfl, rfl, rfl⟩)
  | brTrue l k => cases l <;> simp [execF] at h; obtain ⟨-, h3⟩ := h; subst h3; exact ⟨rfl, rfl, rfl⟩
  | callBody => simp [execF] at h; obtain ⟨-, h3⟩ := h; subst h3; exact ⟨rfl, rfl, rfl⟩
  | ret => simp [execF] at h; obtain ⟨-, h3⟩ := h; subst h3; exact ⟨rfl, rfl, rfl⟩
  | send =>
    simp only [execF] at h
    split at h
    · simp only [Option.map_eq_some_iff] at h
      obtain ⟨F1, hp, h⟩ := h; cases h
      obtain ⟨h1, h2, h3, -⟩ := putBack_flags hp
      exact ⟨h1, h2, h3⟩
    · cases h
  | resend =>
    simp only [execF] at h
    split at h
    · simp only [Option.map_eq_some_iff] at h
      obtain ⟨F1, hp, h⟩ := h; cases h
      obtain ⟨h1, h2, h3, -⟩ := putBack_flags hp
      exact ⟨h1, h2, h3⟩
    · cases h
  | selectRecv =>
    simp only [execF] at h
    split at h
    · split at h
      · cases h; exact ⟨rfl, rfl, rfl⟩
      · cases h
    · simp only [Option.map_eq_some_iff] at h; obtain ⟨e, -, h⟩ := h; cases h; exact ⟨rfl, rfl, rfl⟩
    · simp only [Option.map_eq_some_iff] at h; obtain ⟨e, -, h⟩ := h; cases h; exact ⟨rfl, rfl, rfl⟩
    · cases h
  | write l => simp [isFlagWrite] at hq
  | cancelCtx => simp [isFlagWrite] at hq
  | _ => simp [execF] at h

def wrEntry (n : OpName) (pc : Nat) (m : MOp) : Bool := isFlagWrite m → holdsMuAt n pc

theorem wrTable_true : forAllFOps wrEntry = true := by decide

/-- a frame step either leaves the flags alone or is made by a frame holding `mu` -/
theorem frameStep_flags {o arm ce fr F r F'} (hwf : FFrameWF fr) (hn : fr.name ∈ futNames)
    (hk : FrameStep prog o arm ce fr F (r, F')) : SameFlags F F' ∨ holdsMu fr = true := by
  cases hk with
  | mop m fr' F' hnr hm hex =>
    by_cases hq : isFlagWrite m = true
    · right
      unfold FFrameWF at hwf
      simp only [hnr] at hwf
      obtain ⟨m', hm', htab⟩ := forAllFOps_spec wrTable_true hn hwf.1
      rw [hm] at hm'; cases hm'
      simp only [wrEntry, decide_eq_true_eq] at htab
      simp [holdsMu, hnr, htab hq]
    · left; exact execF_flags_same hex (by simpa using hq)
  | defer d ds fr1 F' hr hd hex =>
    right; simp [holdsMu, hr, hd]
    -- the deferred call of the fixed programs is the unlock of `mu`
    unfold FFrameWF at hwf
    simp only [hr, if_true] at hwf
    rcases hwf with h | ⟨h, -⟩
    · rw [hd] at h; cases h
    · rw [hd] at h
      simp only [futNames, clientNames, List.mem_cons, List.not_mem_nil, or_false] at hn
      rcases hn with hn | hn | hn | hn | hn <;> rw [hn] at h <;> simp only [defersAtF] at h <;>
        first
        | (cases h; done)
        | (split at h
           · cases h; simp
           · cases h)
  | ret hr hd => left; exact ⟨rfl, rfl, rfl⟩

def labelOwner : Label → Option Owner
  | .thr t _ => some (.thr t)
  | .body f => some (.body f)
  | .endCtx _ => none

/-- while owner `o` holds `mu` of future `f`, no step of anybody else changes a flag of `f` -/
theorem flags_stable_under_mu {s s' : FState} {l : Label} {f : Nat} {o : Owner} (hM : MuInv s)
    (hmu : (s.futs f).mu = some o) (hl : labelOwner l ≠ some o)
    (hs : fstep prog s l = some s') : SameFlags (s.futs f) (s'.futs f) := by
  have hk := fstep_kind hs
  cases hk with
  | endCtx t => exact ⟨rfl, rfl, rfl⟩
  | start t arm op more hc htd => exact ⟨rfl, rfl, rfl⟩
  | bodyStep g fr fr' F' hb hk =>
    by_cases hg : f = g
    · subst hg
      obtain ⟨hwf, hok⟩ := hM.wf (.body f) fr hb
      rcases frameStep_flags hwf hok.names hk with h1 | h1
      · simpa [upd, SameFlags] using h1
      · have := (hM.mu_iff f (.body f)).mpr ⟨fr, hb, hok.2, h1⟩
        rw [hmu] at this; cases this
        exact absurd rfl hl
    · simp [upd, hg, SameFlags]
  | bodyRet g fr fr' F' hb hk =>
    by_cases hg : f = g
    · subst hg
      cases hk with
      | ret hr hd => simp [upd, SameFlags]
    · simp [upd, hg, SameFlags]
  | thrStep t arm fr fr' F' hc hk =>
    by_cases hg : f = fr.fut
    · subst hg
      obtain ⟨hwf, hok⟩ := hM.wf (.thr t) fr hc
      rcases frameStep_flags hwf hok.names hk with h1 | h1
      · simpa [upd, SameFlags] using h1
      · have := (hM.mu_iff fr.fut (.thr t)).mpr ⟨fr, hc, rfl, h1⟩
        rw [hmu] at this; cases this
        exact absurd rfl hl
    · simp [upd, hg, SameFlags]
  | thrRet t arm fr fr' F' hc hk =>
    by_cases hg : f = fr.fut
    · subst hg
      cases hk with
      | ret hr hd => simp [upd, SameFlags]
    · simp [upd, hg, SameFlags]

end LispModel.Proofs.ConcFut

/-
  Laws of the pure builtin model (`Core.call`) for property C13: the sequence / finite-map /
  finite-set laws, domain errors, arity errors, type predicates.  Core Lean only.
-/
import LispModel.Core
namespace LispModel.CoreLaws
open LispModel LispModel.Core

/-! ### vocabulary -/

/-- a result that is not a value: a thrown lisp value or a Go error (both surface as a lisp error) -/
def isErr : BRes → Bool
  | .ok _ => false
  | _ => true

/-- `(name args…)` returns the value `r` -/
abbrev callOk (name : String) (args : List Val) (r : Val) : Prop :=
  Core.call name args = some (.ok r)

/-- `(name args…)` is an error (never a value) -/
def callErr (name : String) (args : List Val) : Prop :=
  ∃ e, Core.call name args = some e ∧ isErr e = true

/-- `s` is a list or a vector with elements `xs` -/
abbrev Seq (s : Val) (xs : List Val) : Prop := seqOf? s = some xs

theorem callErr_of {name args e} (h : Core.call name args = some e) (he : isErr e = true) :
    callErr name args := ⟨e, h, he⟩

theorem callOk_not_callErr {name args r} (h : callOk name args r) : ¬ callErr name args := by
  rintro ⟨e, he, hb⟩
  rw [h] at he; cases he; cases hb

theorem callOk_unique {name args r r'} (h : callOk name args r) (h' : callOk name args r') : r = r' := by
  rw [callOk, h] at h'; cases h'; rfl

theorem Seq_cases {s xs} (h : Seq s xs) : (∃ p, s = .list xs p) ∨ (∃ p, s = .vec xs p) := by
  cases s <;> simp [Seq, seqOf?] at h
  · subst h; exact .inl ⟨_, rfl⟩
  · subst h; exact .inr ⟨_, rfl⟩

theorem Seq_list (xs p) : Seq (.list xs p) xs := rfl
theorem Seq_vec (xs p) : Seq (.vec xs p) xs := rfl

/-! ### association lists -/

theorem alookup_ainsert_same {α} (k : String) (v : α) (m : List (String × α)) :
    alookup k (ainsert k v m) = some v := by
  induction m with
  | nil => simp [ainsert, alookup]
  | cons kv r ih =>
    obtain ⟨k', v'⟩ := kv
    by_cases h : k' = k <;> simp [ainsert, alookup, h, ih]

theorem alookup_ainsert_other {α} {k k' : String} (h : k ≠ k') (v : α) (m : List (String × α)) :
    alookup k' (ainsert k v m) = alookup k' m := by
  induction m with
  | nil => simp [ainsert, alookup, h]
  | cons kv r ih =>
    obtain ⟨k2, v2⟩ := kv
    by_cases h2 : k2 = k
    · subst h2; simp [ainsert, alookup, h]
    · by_cases h3 : k2 = k'
      · subst h3; simp [ainsert, alookup, h2]
      · simp [ainsert, alookup, h2, h3, ih]

theorem alookup_isSome_iff {α} (k : String) (m : List (String × α)) :
    (alookup k m).isSome = true ↔ k ∈ akeys m := by
  induction m with
  | nil => simp [alookup, akeys]
  | cons kv r ih =>
    obtain ⟨k', v'⟩ := kv
    by_cases h : k' = k
    · simp [alookup, akeys, h]
    · have h' : ¬ k = k' := fun e => h e.symm
      simpa [alookup, akeys, h, h'] using ih

theorem alookup_eq_none_iff {α} (k : String) (m : List (String × α)) :
    alookup k m = none ↔ k ∉ akeys m := by
  rw [← alookup_isSome_iff]; cases alookup k m <;> simp

/-! ### sequences, first batch -/

theorem count_list (xs : List Val) (p) : callOk "count" [.list xs p] (.int xs.length) := rfl
theorem count_vector (xs : List Val) (p) : callOk "count" [.vec xs p] (.int xs.length) := rfl
theorem count_nil : callOk "count" [.nil] (.int 0) := rfl
theorem count_map (m) : callOk "count" [.map m] (.int m.length) := rfl
theorem count_set (s) : callOk "count" [.set s] (.int s.length) := rfl

theorem count_seq {s xs} (h : Seq s xs) : callOk "count" [s] (.int xs.length) := by
  rcases Seq_cases h with ⟨p, rfl⟩ | ⟨p, rfl⟩ <;> rfl

theorem cons_prepends {s xs} (x : Val) (h : Seq s xs) : callOk "cons" [x, s] (.list (x :: xs) none) := by
  rcases Seq_cases h with ⟨p, rfl⟩ | ⟨p, rfl⟩ <;> rfl

theorem concat2 {a b xs ys} (ha : Seq a xs) (hb : Seq b ys) :
    callOk "concat" [a, b] (.list (xs ++ ys) none) := by
  have e : Core.call "concat" [a, b] = some (
      if [a, b].all (fun x => (seqOf? x).isSome) then .ok (.list ([a, b].flatMap (fun x => (seqOf? x).getD [])) none)
      else .goerr "GetSlice called on non-sequence") := rfl
  rw [callOk, e]; simp [ha, hb]

theorem nth_spec {s xs} (h : Seq s xs) (n : Nat) (hn : n < xs.length) :
    callOk "nth" [s, .int n] xs[n] := by
  have : Core.call "nth" [s, .int n] = some (match seqOf? s with
     | none => .goerr "GetSlice called on non-sequence"
     | some xs =>
       if (n : Int) < 0 then .goerr "runtime error: index out of range"
       else if (n : Int).toNat < xs.length then .ok (xs.getD (n : Int).toNat .nil) else .goerr "nth: index out of range") := rfl
  rw [callOk, this, h]
  have h0 : ¬ ((n : Int) < 0) := by omega
  simp [h0, hn]

theorem first_cons {s x xs} (h : Seq s (x :: xs)) : callOk "first" [s] x := by
  rcases Seq_cases h with ⟨p, rfl⟩ | ⟨p, rfl⟩ <;> rfl
theorem rest_cons {s x xs} (h : Seq s (x :: xs)) : callOk "rest" [s] (.list xs none) := by
  rcases Seq_cases h with ⟨p, rfl⟩ | ⟨p, rfl⟩ <;> rfl
theorem first_nil : callOk "first" [.nil] .nil := rfl
theorem rest_nil : callOk "rest" [.nil] (.list [] none) := rfl
theorem first_empty {s} (h : Seq s []) : callOk "first" [s] .nil := by
  rcases Seq_cases h with ⟨p, rfl⟩ | ⟨p, rfl⟩ <;> rfl
theorem rest_empty {s} (h : Seq s []) : callOk "rest" [s] (.list [] none) := by
  rcases Seq_cases h with ⟨p, rfl⟩ | ⟨p, rfl⟩ <;> rfl

/-! ### maps, first batch -/

theorem assoc_map1 (m : List (String × Val)) (k : String) (v : Val) :
    callOk "assoc" [.map m, .str k, v] (.map (ainsert k v m)) := by
  have e : Core.call "assoc" [.map m, .str k, v] = some (Core.assoc [.map m, .str k, v]) := rfl
  rw [callOk, e]; simp [Core.assoc, assocMap]
theorem get_map (m : List (String × Val)) (k : String) :
    callOk "get" [.map m, .str k] ((alookup k m).getD .nil) := rfl
theorem get_nil (k : Val) : callOk "get" [.nil, k] .nil := rfl
theorem contains_map (m : List (String × Val)) (k : String) :
    callOk "contains?" [.map m, .str k] (.bool (alookup k m).isSome) := rfl
theorem contains_nil (k : String) : callOk "contains?" [.nil, .str k] (.bool false) := rfl
theorem keys_map (m : List (String × Val)) :
    callOk "keys" [.map m] (.list (m.map (fun kv => .str kv.1)) none) := rfl
theorem vals_map (m : List (String × Val)) :
    callOk "vals" [.map m] (.list (m.map (·.2)) none) := rfl

theorem get_assoc_same (m k v) : callOk "get" [.map (ainsert k v m), .str k] v := by
  rw [callOk, get_map, alookup_ainsert_same]; rfl

theorem get_assoc_other (m) {k k' : String} (h : k ≠ k') (v) :
    Core.call "get" [.map (ainsert k v m), .str k'] = Core.call "get" [.map m, .str k'] := by
  rw [get_map, get_map, alookup_ainsert_other h]

theorem contains_assoc (m k v) : callOk "contains?" [.map (ainsert k v m), .str k] (.bool true) := by
  rw [callOk, contains_map, alookup_ainsert_same]; rfl

/-! ### sets, first batch -/

theorem contains_set (s : List String) (k : String) :
    callOk "contains?" [.set s, .str k] (.bool (s.contains k)) := rfl
theorem conj_set1 (s : List String) (k : String) :
    callOk "conj" [.set s, .str k] (.set (sinsert k s)) := rfl

theorem sinsert_eq (k : String) (s : List String) : sinsert k s = if k ∈ s then s else s ++ [k] := by
  simp [sinsert]

theorem sinsert_idem (k : String) (s : List String) : sinsert k (sinsert k s) = sinsert k s := by
  by_cases h : k ∈ s <;> simp [sinsert_eq, h]

theorem mem_sinsert {k k' : String} {s : List String} : k' ∈ sinsert k s ↔ k' = k ∨ k' ∈ s := by
  by_cases h : k ∈ s
  · simp only [sinsert_eq, h, if_true]
    constructor
    · exact .inr
    · rintro (rfl | h')
      · exact h
      · exact h'
  · simp [sinsert_eq, h, or_comm]

theorem sinsert_nodup {k : String} {s : List String} (h : s.Nodup) : (sinsert k s).Nodup := by
  by_cases hk : k ∈ s
  · simp [sinsert_eq, hk, h]
  · simp only [sinsert_eq, hk, if_false]
    refine List.nodup_append.2 ⟨h, by simp, ?_⟩
    intro a ha b hb e
    simp at hb; subst hb; subst e; exact hk ha

/-! ### errors, first batch -/

theorem nth_eq (s : Val) (i : Int) : Core.call "nth" [s, .int i] = some (match seqOf? s with
     | none => .goerr "GetSlice called on non-sequence"
     | some xs =>
       if i < 0 then .goerr "runtime error: index out of range"
       else if i.toNat < xs.length then .ok (xs.getD i.toNat .nil) else .goerr "nth: index out of range") := rfl

theorem nth_out_of_range {s xs} (h : Seq s xs) (i : Int) (hi : i < 0 ∨ (xs.length : Int) ≤ i) :
    callErr "nth" [s, .int i] := by
  refine callErr_of (nth_eq s i) ?_
  rw [h]
  by_cases h0 : i < 0
  · simp [h0, isErr]
  · have : ¬ i.toNat < xs.length := by omega
    simp [h0, this, isErr]

/-- wrong argument count, for every builtin with a fixed signature -/
theorem arity_error {name ps} (hs : Core.sigOf name = some (.fixed ps)) (args : List Val)
    (hl : args.length ≠ ps.length) : Core.call name args = some (.goerr "wrong number of arguments") := by
  simp [Core.call, hs, Core.checkSig, hl]

/-- right count but an argument of the wrong Go type: the binder's `reflect.Call` panic -/
theorem binder_type_error {name ps} (hs : Core.sigOf name = some (.fixed ps)) (args : List Val)
    (hl : args.length = ps.length) (hf : (ps.zip args).all (fun (p, a) => fits p a) = false) :
    Core.call name args = some (.thrown (.str "reflect: Call using")) := by
  simp only [Core.call, hs, Core.checkSig, hl, ne_eq, not_true_eq_false, if_false, hf]
  simp

theorem variadic_arity_error_min {name mn mx} (hs : Core.sigOf name = some (.variadic mn mx)) (args : List Val)
    (hl : args.length < mn) : Core.call name args = some (.goerr "wrong number of arguments") := by
  simp [Core.call, hs, Core.checkSig, hl]

theorem variadic_arity_error_max {name mn m} (hs : Core.sigOf name = some (.variadic mn (some m))) (args : List Val)
    (hl : m < args.length) : Core.call name args = some (.goerr "wrong number of arguments") := by
  by_cases h : args.length < mn <;> simp [Core.call, hs, Core.checkSig, hl, h]

theorem count_int_error (i : Int) : callErr "count" [.int i] := callErr_of rfl rfl
theorem first_map_error (m) : callErr "first" [.map m] := callErr_of rfl rfl
theorem cons_nil_error (x : Val) : callErr "cons" [x, .nil] := callErr_of rfl rfl
theorem conj_nil_error (x : Val) : callErr "conj" [.nil, x] := callErr_of rfl rfl
theorem get_vec_str_error (xs p) (k : String) : callErr "get" [.vec xs p, .str k] := callErr_of rfl rfl
theorem nth_non_int_index_error (s : Val) (k : String) : callErr "nth" [s, .str k] := callErr_of rfl rfl

/-! ### type predicates -/

/-- the predicate builtin `name` holds of `v` -/
abbrev holds (name : String) (v : Val) : Prop := callOk name [v] (.bool true)

/-- the ten type classes the predicates test for (10 = anything else) -/
def cls : Val → Nat
  | .list _ _ => 0 | .vec _ _ => 1 | .map _ => 2 | .set _ => 3 | .nil => 4 | .int _ => 5
  | .str s => if Val.isKwStr s then 7 else 6
  | .sym _ _ => 8 | .atom _ => 9 | _ => 10

def predIx : String → Option Nat
  | "list?" => some 0 | "vector?" => some 1 | "map?" => some 2 | "set?" => some 3
  | "nil?" => some 4 | "number?" => some 5 | "string?" => some 6
  | "keyword?" => some 7 | "symbol?" => some 8 | "atom?" => some 9
  | _ => none

def typePreds : List String :=
  ["list?", "vector?", "map?", "set?", "nil?", "number?", "string?", "keyword?", "symbol?", "atom?"]

theorem cls_str (s : String) : cls (.str s) = if Val.isKwStr s then 7 else 6 := rfl

/-- the test each predicate performs (copied from `Core.body`) -/
def predFn : String → Val → Bool
  | "list?", .list _ _ => true | "vector?", .vec _ _ => true | "map?", .map _ => true
  | "set?", .set _ => true | "nil?", .nil => true | "number?", .int _ => true
  | "string?", .str s => !Val.isKwStr s | "keyword?", .str s => Val.isKwStr s
  | "symbol?", .sym _ _ => true | "atom?", .atom _ => true
  | _, _ => false

theorem pred_eq_predFn {n} (hm : n ∈ typePreds) (v : Val) :
    Core.call n [v] = some (.ok (.bool (predFn n v))) := by
  simp only [typePreds, List.mem_cons, List.not_mem_nil, or_false] at hm
  rcases hm with rfl | rfl | rfl | rfl | rfl | rfl | rfl | rfl | rfl | rfl <;> cases v <;> rfl

theorem predFn_eq_cls {n i} (hn : predIx n = some i) (hm : n ∈ typePreds) (v : Val) :
    predFn n v = (cls v == i) := by
  simp only [typePreds, List.mem_cons, List.not_mem_nil, or_false] at hm
  rcases hm with rfl | rfl | rfl | rfl | rfl | rfl | rfl | rfl | rfl | rfl <;> cases hn <;>
    cases v <;> first | rfl | (rename_i s; cases h : Val.isKwStr s <;> simp [predFn, cls_str, h])

theorem predIx_total {n} (hm : n ∈ typePreds) : ∃ i, predIx n = some i := by
  simp only [typePreds, List.mem_cons, List.not_mem_nil, or_false] at hm
  rcases hm with rfl | rfl | rfl | rfl | rfl | rfl | rfl | rfl | rfl | rfl <;> exact ⟨_, rfl⟩

theorem predIx_inj : ∀ a ∈ typePreds, ∀ b ∈ typePreds, predIx a = predIx b → a = b := by decide

theorem holds_iff_cls {n i} (hn : predIx n = some i) (hm : n ∈ typePreds) (v : Val) :
    holds n v ↔ cls v = i := by
  rw [holds, callOk, pred_eq_predFn hm, predFn_eq_cls hn hm]
  by_cases h : cls v = i <;> simp [h]

/-- every type predicate returns a boolean on every value -/
theorem pred_total {n} (hm : n ∈ typePreds) (v : Val) : ∃ b, callOk n [v] (.bool b) :=
  ⟨_, pred_eq_predFn hm v⟩

theorem type_predicates_exclusive {a b} (ha : a ∈ typePreds) (hb : b ∈ typePreds) (hab : a ≠ b) (v : Val) :
    ¬ (holds a v ∧ holds b v) := by
  obtain ⟨i, hi⟩ := predIx_total ha
  obtain ⟨j, hj⟩ := predIx_total hb
  rintro ⟨h1, h2⟩
  have e1 := (holds_iff_cls hi ha v).1 h1
  have e2 := (holds_iff_cls hj hb v).1 h2
  exact hab (predIx_inj a ha b hb (by rw [hi, hj, ← e1, ← e2]))

theorem list?_iff (v) : holds "list?" v ↔ ∃ xs p, v = .list xs p := by
  rw [holds_iff_cls (n := "list?") rfl (by decide)]
  cases v <;> simp [cls]
  split <;> simp

theorem vector?_iff (v) : holds "vector?" v ↔ ∃ xs p, v = .vec xs p := by
  rw [holds_iff_cls (n := "vector?") rfl (by decide)]
  cases v <;> simp [cls]
  split <;> simp
theorem map?_iff (v) : holds "map?" v ↔ ∃ m, v = .map m := by
  rw [holds_iff_cls (n := "map?") rfl (by decide)]
  cases v <;> simp [cls]
  split <;> simp
theorem set?_iff (v) : holds "set?" v ↔ ∃ s, v = .set s := by
  rw [holds_iff_cls (n := "set?") rfl (by decide)]
  cases v <;> simp [cls]
  split <;> simp
theorem nil?_iff (v) : holds "nil?" v ↔ v = .nil := by
  rw [holds_iff_cls (n := "nil?") rfl (by decide)]
  cases v <;> simp [cls]
  split <;> simp
theorem number?_iff (v) : holds "number?" v ↔ ∃ i, v = .int i := by
  rw [holds_iff_cls (n := "number?") rfl (by decide)]
  cases v <;> simp [cls]
  split <;> simp
theorem symbol?_iff (v) : holds "symbol?" v ↔ ∃ s p, v = .sym s p := by
  rw [holds_iff_cls (n := "symbol?") rfl (by decide)]
  cases v <;> simp [cls]
  split <;> simp
theorem string?_iff (v) : holds "string?" v ↔ ∃ s, v = .str s ∧ Val.isKwStr s = false := by
  rw [holds_iff_cls (n := "string?") rfl (by decide)]
  cases v <;> simp [cls]
theorem keyword?_iff (v) : holds "keyword?" v ↔ ∃ s, v = .str s ∧ Val.isKwStr s = true := by
  rw [holds_iff_cls (n := "keyword?") rfl (by decide)]
  cases v <;> simp [cls]

/-- strings and keywords are both Go strings underneath, and every Go string is exactly one of them -/
theorem string_or_keyword_iff (v) : (holds "string?" v ∨ holds "keyword?" v) ↔ ∃ s, v = .str s := by
  rw [string?_iff, keyword?_iff]
  constructor
  · rintro (⟨s, rfl, _⟩ | ⟨s, rfl, _⟩) <;> exact ⟨s, rfl⟩
  · rintro ⟨s, rfl⟩
    cases h : Val.isKwStr s
    · exact .inl ⟨s, rfl, h⟩
    · exact .inr ⟨s, rfl, h⟩

/-! ### sequences, second batch -/

theorem take_seq {s xs} (h : Seq s xs) (n : Int) : callOk "take" [.int n, s] (.list (xs.take n.toNat) none) := by
  rcases Seq_cases h with ⟨p, rfl⟩ | ⟨p, rfl⟩ <;> rfl
theorem drop_seq {s xs} (h : Seq s xs) (n : Int) : callOk "drop" [.int n, s] (.list (xs.drop n.toNat) none) := by
  rcases Seq_cases h with ⟨p, rfl⟩ | ⟨p, rfl⟩ <;> rfl
theorem take_nil (n : Int) : callOk "take" [.int n, .nil] (.list [] none) := rfl
theorem drop_nil (n : Int) : callOk "drop" [.int n, .nil] (.list [] none) := rfl
theorem drop_last_seq {s xs} (h : Seq s xs) (n : Int) :
    callOk "drop-last" [.int n, s] (.list (xs.take (xs.length - n.toNat)) none) := by
  rcases Seq_cases h with ⟨p, rfl⟩ | ⟨p, rfl⟩ <;> rfl
theorem take_last_seq {s xs} (h : Seq s xs) (n : Int) :
    callOk "take-last" [.int n, s]
      (if (xs.drop (xs.length - n.toNat)).isEmpty then .nil else .list (xs.drop (xs.length - n.toNat)) none) := by
  have e : ∀ s, s ≠ Val.nil → Core.call "take-last" [.int n, s] = some (match seqOf? s with
       | some xs =>
         let r := xs.drop (xs.length - n.toNat)
         if r.isEmpty then .ok .nil else .ok (.list r none)
       | none => .goerr "take called on non-list and non-vector") := by
    intro s hs; cases s <;> first | rfl | exact absurd rfl hs
  have hs : s ≠ .nil := by rintro rfl; cases h
  rw [callOk, e s hs, h]
  simp only []
  split <;> rfl
theorem take_last_nil (n : Int) : callOk "take-last" [.int n, .nil] .nil := rfl
theorem drop_last_nil (n : Int) : callOk "drop-last" [.int n, .nil] (.list [] none) := rfl

theorem subvec3_eq (xs p) (f t : Int) : Core.call "subvec" [.vec xs p, .int f, .int t] = some (
    if 0 ≤ f ∧ f ≤ t ∧ t.toNat ≤ xs.length then .ok (.vec ((xs.take t.toNat).drop f.toNat) none)
    else .goerr "subvec index out of range") := rfl
theorem subvec2_eq (xs p) (f : Int) : Core.call "subvec" [.vec xs p, .int f] = some (
    if 0 ≤ f ∧ f.toNat ≤ xs.length then .ok (.vec (xs.drop f.toNat) none) else .goerr "subvec index out of range") := rfl

theorem drop_take_eq_take_drop (xs : List Val) (a b : Nat) :
    (xs.take b).drop a = (xs.drop a).take (b - a) := by
  rw [List.drop_take]

theorem subvec_window (xs p) (a b : Int) (h : 0 ≤ a ∧ a ≤ b ∧ b ≤ xs.length) :
    callOk "subvec" [.vec xs p, .int a, .int b] (.vec ((xs.drop a.toNat).take (b - a).toNat) none) := by
  have c : 0 ≤ a ∧ a ≤ b ∧ b.toNat ≤ xs.length := ⟨h.1, h.2.1, by omega⟩
  rw [callOk, subvec3_eq, if_pos c, drop_take_eq_take_drop]
  have : b.toNat - a.toNat = (b - a).toNat := by omega
  rw [this]

theorem subvec_error (xs p) (a b : Int) (h : ¬ (0 ≤ a ∧ a ≤ b ∧ b ≤ xs.length)) :
    callErr "subvec" [.vec xs p, .int a, .int b] := by
  have c : ¬ (0 ≤ a ∧ a ≤ b ∧ b.toNat ≤ xs.length) := by omega
  refine callErr_of (subvec3_eq xs p a b) ?_
  rw [if_neg c]; rfl

theorem subvec2_window (xs p) (a : Int) (h : 0 ≤ a ∧ a ≤ xs.length) :
    callOk "subvec" [.vec xs p, .int a] (.vec (xs.drop a.toNat) none) := by
  have c : 0 ≤ a ∧ a.toNat ≤ xs.length := ⟨h.1, by omega⟩
  rw [callOk, subvec2_eq, if_pos c]
theorem subvec2_error (xs p) (a : Int) (h : ¬ (0 ≤ a ∧ a ≤ xs.length)) :
    callErr "subvec" [.vec xs p, .int a] := by
  have c : ¬ (0 ≤ a ∧ a.toNat ≤ xs.length) := by omega
  refine callErr_of (subvec2_eq xs p a) ?_
  rw [if_neg c]; rfl
theorem subvec_list_error (xs p) (idx : List Val) : callErr "subvec" (.list xs p :: idx) := by
  match idx with
  | [] => exact callErr_of rfl rfl
  | [_] => exact callErr_of rfl rfl
  | [_, _] => exact callErr_of rfl rfl
  | _ :: _ :: _ :: r =>
    exact callErr_of (variadic_arity_error_max (name := "subvec") rfl _ (by simp)) rfl

/-- variadic builtins (no declared maximum) accept at most 1000 arguments -/
theorem call_var {name} (hs : Core.sigOf name = some (.variadic 0 none)) (args : List Val)
    (hl : args.length ≤ 1000) : Core.call name args = some (Core.body name args) := by
  have : ¬ args.length > 1000 := by omega
  simp [Core.call, hs, Core.checkSig, this]

theorem call_conj (s : Val) (xs : List Val) (h1 : xs ≠ []) (hl : xs.length < 1000) :
    Core.call "conj" (s :: xs) = some (Core.body "conj" (s :: xs)) := by
  have e : Core.sigOf "conj" = some (.variadic 2 none) := rfl
  have a : ¬ (xs.length + 1 < 2) := by
    cases xs with
    | nil => exact absurd rfl h1
    | cons => simp
  have b : ¬ (xs.length + 1 > 1000) := by omega
  simp [Core.call, e, Core.checkSig, a, b]

theorem conj_list (ys p) (xs : List Val) (h1 : xs ≠ []) (hl : xs.length < 1000) :
    callOk "conj" (.list ys p :: xs) (.list (xs.reverse ++ ys) none) := by
  rw [callOk, call_conj _ _ h1 hl]; rfl
theorem conj_vector (ys p) (xs : List Val) (h1 : xs ≠ []) (hl : xs.length < 1000) :
    callOk "conj" (.vec ys p :: xs) (.vec (ys ++ xs) none) := by
  rw [callOk, call_conj _ _ h1 hl]; rfl
theorem conj_no_items_error (s : Val) : callErr "conj" [s] :=
  callErr_of (variadic_arity_error_min (name := "conj") rfl _ (by simp)) rfl

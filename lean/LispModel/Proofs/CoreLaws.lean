/-
  Laws of the pure builtin model (`Core.call`) for property C13: the sequence / finite-map /
  finite-set laws, domain errors, arity errors, type predicates.  Core Lean only.
-/
import LispModel.Core
import LispModel.Eval
namespace LispModel.CoreLaws
open LispModel LispModel.Core

/-! ### vocabulary -/

/-- a result that is not a value: a thrown lisp value or a Go error (both surface as a lisp error) -/
def isErr : BRes → Bool
  | .ok _ => false
  | _ => true

/-- `(name args…)` returns the value `r` -/
abbrev callOk (name : String) (args : List Val) (r : Val) : Prop :=
  Core.call name args = some (.ok r)

/-- `(name args…)` is an error (never a value) -/
def callErr (name : String) (args : List Val) : Prop :=
  ∃ e, Core.call name args = some e ∧ isErr e = true

/-- `s` is a list or a vector with elements `xs` -/
abbrev Seq (s : Val) (xs : List Val) : Prop := seqOf? s = some xs

theorem callErr_of {name args e} (h : Core.call name args = some e) (he : isErr e = true) :
    callErr name args := ⟨e, h, he⟩

theorem callOk_not_callErr {name args r} (h : callOk name args r) : ¬ callErr name args := by
  rintro ⟨e, he, hb⟩
  rw [h] at he; cases he; cases hb

theorem callOk_unique {name args r r'} (h : callOk name args r) (h' : callOk name args r') : r = r' := by
  rw [callOk, h] at h'; cases h'; rfl

theorem Seq_cases {s xs} (h : Seq s xs) : (∃ p, s = .list xs p) ∨ (∃ p, s = .vec xs p) := by
  cases s <;> simp [Seq, seqOf?] at h
  · subst h; exact .inl ⟨_, rfl⟩
  · subst h; exact .inr ⟨_, rfl⟩

theorem Seq_list (xs p) : Seq (.list xs p) xs := rfl
theorem Seq_vec (xs p) : Seq (.vec xs p) xs := rfl

/-! ### association lists -/

theorem alookup_ainsert_same {α} (k : String) (v : α) (m : List (String × α)) :
    alookup k (ainsert k v m) = some v := by
  induction m with
  | nil => simp [ainsert, alookup]
  | cons kv r ih =>
    obtain ⟨k', v'⟩ := kv
    by_cases h : k' = k <;> simp [ainsert, alookup, h, ih]

theorem alookup_ainsert_other {α} {k k' : String} (h : k ≠ k') (v : α) (m : List (String × α)) :
    alookup k' (ainsert k v m) = alookup k' m := by
  induction m with
  | nil => simp [ainsert, alookup, h]
  | cons kv r ih =>
    obtain ⟨k2, v2⟩ := kv
    by_cases h2 : k2 = k
    · subst h2; simp [ainsert, alookup, h]
    · by_cases h3 : k2 = k'
      · subst h3; simp [ainsert, alookup, h2]
      · simp [ainsert, alookup, h2, h3, ih]

theorem alookup_isSome_iff {α} (k : String) (m : List (String × α)) :
    (alookup k m).isSome = true ↔ k ∈ akeys m := by
  induction m with
  | nil => simp [alookup, akeys]
  | cons kv r ih =>
    obtain ⟨k', v'⟩ := kv
    by_cases h : k' = k
    · simp [alookup, akeys, h]
    · have h' : ¬ k = k' := fun e => h e.symm
      simpa [alookup, akeys, h, h'] using ih

theorem alookup_eq_none_iff {α} (k : String) (m : List (String × α)) :
    alookup k m = none ↔ k ∉ akeys m := by
  rw [← alookup_isSome_iff]; cases alookup k m <;> simp

/-! ### sequences, first batch -/

theorem count_list (xs : List Val) (p) : callOk "count" [.list xs p] (.int xs.length) := rfl
theorem count_vector (xs : List Val) (p) : callOk "count" [.vec xs p] (.int xs.length) := rfl
theorem count_nil : callOk "count" [.nil] (.int 0) := rfl
theorem count_map (m) : callOk "count" [.map m] (.int m.length) := rfl
theorem count_set (s) : callOk "count" [.set s] (.int s.length) := rfl

theorem count_seq {s xs} (h : Seq s xs) : callOk "count" [s] (.int xs.length) := by
  rcases Seq_cases h with ⟨p, rfl⟩ | ⟨p, rfl⟩ <;> rfl

theorem cons_prepends {s xs} (x : Val) (h : Seq s xs) : callOk "cons" [x, s] (.list (x :: xs) none) := by
  rcases Seq_cases h with ⟨p, rfl⟩ | ⟨p, rfl⟩ <;> rfl

theorem concat2 {a b xs ys} (ha : Seq a xs) (hb : Seq b ys) :
    callOk "concat" [a, b] (.list (xs ++ ys) none) := by
  have e : Core.call "concat" [a, b] = some (
      if [a, b].all (fun x => (seqOf? x).isSome) then .ok (.list ([a, b].flatMap (fun x => (seqOf? x).getD [])) none)
      else .goerr "GetSlice called on non-sequence") := rfl
  rw [callOk, e]; simp [ha, hb]

theorem nth_spec {s xs} (h : Seq s xs) (n : Nat) (hn : n < xs.length) :
    callOk "nth" [s, .int n] xs[n] := by
  have : Core.call "nth" [s, .int n] = some (match seqOf? s with
     | none => .goerr "GetSlice called on non-sequence"
     | some xs =>
       if (n : Int) < 0 then .goerr "runtime error: index out of range"
       else if (n : Int).toNat < xs.length then .ok (xs.getD (n : Int).toNat .nil) else .goerr "nth: index out of range") := rfl
  rw [callOk, this, h]
  have h0 : ¬ ((n : Int) < 0) := by omega
  simp [h0, hn]

theorem first_cons {s x xs} (h : Seq s (x :: xs)) : callOk "first" [s] x := by
  rcases Seq_cases h with ⟨p, rfl⟩ | ⟨p, rfl⟩ <;> rfl
theorem rest_cons {s x xs} (h : Seq s (x :: xs)) : callOk "rest" [s] (.list xs none) := by
  rcases Seq_cases h with ⟨p, rfl⟩ | ⟨p, rfl⟩ <;> rfl
theorem first_nil : callOk "first" [.nil] .nil := rfl
theorem rest_nil : callOk "rest" [.nil] (.list [] none) := rfl
theorem first_empty {s} (h : Seq s []) : callOk "first" [s] .nil := by
  rcases Seq_cases h with ⟨p, rfl⟩ | ⟨p, rfl⟩ <;> rfl
theorem rest_empty {s} (h : Seq s []) : callOk "rest" [s] (.list [] none) := by
  rcases Seq_cases h with ⟨p, rfl⟩ | ⟨p, rfl⟩ <;> rfl

/-! ### maps, first batch -/

theorem assoc_map1 (m : List (String × Val)) (k : String) (v : Val) :
    callOk "assoc" [.map m, .str k, v] (.map (ainsert k v m)) := by
  have e : Core.call "assoc" [.map m, .str k, v] = some (Core.assoc [.map m, .str k, v]) := rfl
  rw [callOk, e]; simp [Core.assoc, assocMap]
theorem get_map (m : List (String × Val)) (k : String) :
    callOk "get" [.map m, .str k] ((alookup k m).getD .nil) := rfl
theorem get_nil (k : Val) : callOk "get" [.nil, k] .nil := rfl
theorem contains_map (m : List (String × Val)) (k : String) :
    callOk "contains?" [.map m, .str k] (.bool (alookup k m).isSome) := rfl
theorem contains_nil (k : String) : callOk "contains?" [.nil, .str k] (.bool false) := rfl
theorem keys_map (m : List (String × Val)) :
    callOk "keys" [.map m] (.list (m.map (fun kv => .str kv.1)) none) := rfl
theorem vals_map (m : List (String × Val)) :
    callOk "vals" [.map m] (.list (m.map (·.2)) none) := rfl

theorem get_assoc_same (m k v) : callOk "get" [.map (ainsert k v m), .str k] v := by
  rw [callOk, get_map, alookup_ainsert_same]; rfl

theorem get_assoc_other (m) {k k' : String} (h : k ≠ k') (v) :
    Core.call "get" [.map (ainsert k v m), .str k'] = Core.call "get" [.map m, .str k'] := by
  rw [get_map, get_map, alookup_ainsert_other h]

theorem contains_assoc (m k v) : callOk "contains?" [.map (ainsert k v m), .str k] (.bool true) := by
  rw [callOk, contains_map, alookup_ainsert_same]; rfl

/-! ### sets, first batch -/

theorem contains_set (s : List String) (k : String) :
    callOk "contains?" [.set s, .str k] (.bool (s.contains k)) := rfl
theorem conj_set1 (s : List String) (k : String) :
    callOk "conj" [.set s, .str k] (.set (sinsert k s)) := rfl

theorem sinsert_eq (k : String) (s : List String) : sinsert k s = if k ∈ s then s else s ++ [k] := by
  simp [sinsert]

theorem sinsert_idem (k : String) (s : List String) : sinsert k (sinsert k s) = sinsert k s := by
  by_cases h : k ∈ s <;> simp [sinsert_eq, h]

theorem mem_sinsert {k k' : String} {s : List String} : k' ∈ sinsert k s ↔ k' = k ∨ k' ∈ s := by
  by_cases h : k ∈ s
  · simp only [sinsert_eq, h, if_true]
    constructor
    · exact .inr
    · rintro (rfl | h')
      · exact h
      · exact h'
  · simp [sinsert_eq, h, or_comm]

theorem sinsert_nodup {k : String} {s : List String} (h : s.Nodup) : (sinsert k s).Nodup := by
  by_cases hk : k ∈ s
  · simp [sinsert_eq, hk, h]
  · simp only [sinsert_eq, hk, if_false]
    refine List.nodup_append.2 ⟨h, by simp, ?_⟩
    intro a ha b hb e
    simp at hb; subst hb; subst e; exact hk ha

/-! ### errors, first batch -/

theorem nth_eq (s : Val) (i : Int) : Core.call "nth" [s, .int i] = some (match seqOf? s with
     | none => .goerr "GetSlice called on non-sequence"
     | some xs =>
       if i < 0 then .goerr "runtime error: index out of range"
       else if i.toNat < xs.length then .ok (xs.getD i.toNat .nil) else .goerr "nth: index out of range") := rfl

theorem nth_out_of_range {s xs} (h : Seq s xs) (i : Int) (hi : i < 0 ∨ (xs.length : Int) ≤ i) :
    callErr "nth" [s, .int i] := by
  refine callErr_of (nth_eq s i) ?_
  rw [h]
  by_cases h0 : i < 0
  · simp [h0, isErr]
  · have : ¬ i.toNat < xs.length := by omega
    simp [h0, this, isErr]

/-- wrong argument count, for every builtin with a fixed signature -/
theorem arity_error {name ps} (hs : Core.sigOf name = some (.fixed ps)) (args : List Val)
    (hl : args.length ≠ ps.length) : Core.call name args = some (.goerr "wrong number of arguments") := by
  simp [Core.call, hs, Core.checkSig, hl]

/-- right count but an argument of the wrong Go type: the binder's `reflect.Call` panic -/
theorem binder_type_error {name ps} (hs : Core.sigOf name = some (.fixed ps)) (args : List Val)
    (hl : args.length = ps.length) (hf : (ps.zip args).all (fun (p, a) => fits p a) = false) :
    Core.call name args = some (.thrown (.str "reflect: Call using")) := by
  simp only [Core.call, hs, Core.checkSig, hl, ne_eq, not_true_eq_false, if_false, hf]
  simp

theorem variadic_arity_error_min {name mn mx} (hs : Core.sigOf name = some (.variadic mn mx)) (args : List Val)
    (hl : args.length < mn) : Core.call name args = some (.goerr "wrong number of arguments") := by
  simp [Core.call, hs, Core.checkSig, hl]

theorem variadic_arity_error_max {name mn m} (hs : Core.sigOf name = some (.variadic mn (some m))) (args : List Val)
    (hl : m < args.length) : Core.call name args = some (.goerr "wrong number of arguments") := by
  by_cases h : args.length < mn <;> simp [Core.call, hs, Core.checkSig, hl, h]

theorem count_int_error (i : Int) : callErr "count" [.int i] := callErr_of rfl rfl
theorem first_map_error (m) : callErr "first" [.map m] := callErr_of rfl rfl
theorem cons_nil_error (x : Val) : callErr "cons" [x, .nil] := callErr_of rfl rfl
theorem conj_nil_error (x : Val) : callErr "conj" [.nil, x] := callErr_of rfl rfl
theorem get_vec_str_error (xs p) (k : String) : callErr "get" [.vec xs p, .str k] := callErr_of rfl rfl
theorem nth_non_int_index_error (s : Val) (k : String) : callErr "nth" [s, .str k] := callErr_of rfl rfl

/-! ### type predicates -/

/-- the predicate builtin `name` holds of `v` -/
abbrev holds (name : String) (v : Val) : Prop := callOk name [v] (.bool true)

/-- the ten type classes the predicates test for (10 = anything else) -/
def cls : Val → Nat
  | .list _ _ => 0 | .vec _ _ => 1 | .map _ => 2 | .set _ => 3 | .nil => 4 | .int _ => 5
  | .str s => if Val.isKwStr s then 7 else 6
  | .sym _ _ => 8 | .atom _ => 9 | _ => 10

def predIx : String → Option Nat
  | "list?" => some 0 | "vector?" => some 1 | "map?" => some 2 | "set?" => some 3
  | "nil?" => some 4 | "number?" => some 5 | "string?" => some 6
  | "keyword?" => some 7 | "symbol?" => some 8 | "atom?" => some 9
  | _ => none

def typePreds : List String :=
  ["list?", "vector?", "map?", "set?", "nil?", "number?", "string?", "keyword?", "symbol?", "atom?"]

theorem cls_str (s : String) : cls (.str s) = if Val.isKwStr s then 7 else 6 := rfl

/-- the test each predicate performs (copied from `Core.body`) -/
def predFn : String → Val → Bool
  | "list?", .list _ _ => true | "vector?", .vec _ _ => true | "map?", .map _ => true
  | "set?", .set _ => true | "nil?", .nil => true | "number?", .int _ => true
  | "string?", .str s => !Val.isKwStr s | "keyword?", .str s => Val.isKwStr s
  | "symbol?", .sym _ _ => true | "atom?", .atom _ => true
  | _, _ => false

theorem pred_eq_predFn {n} (hm : n ∈ typePreds) (v : Val) :
    Core.call n [v] = some (.ok (.bool (predFn n v))) := by
  simp only [typePreds, List.mem_cons, List.not_mem_nil, or_false] at hm
  rcases hm with rfl | rfl | rfl | rfl | rfl | rfl | rfl | rfl | rfl | rfl <;> cases v <;> rfl

theorem predFn_eq_cls {n i} (hn : predIx n = some i) (hm : n ∈ typePreds) (v : Val) :
    predFn n v = (cls v == i) := by
  simp only [typePreds, List.mem_cons, List.not_mem_nil, or_false] at hm
  rcases hm with rfl | rfl | rfl | rfl | rfl | rfl | rfl | rfl | rfl | rfl <;> cases hn <;>
    cases v <;> first | rfl | (rename_i s; cases h : Val.isKwStr s <;> simp [predFn, cls_str, h])

theorem predIx_total {n} (hm : n ∈ typePreds) : ∃ i, predIx n = some i := by
  simp only [typePreds, List.mem_cons, List.not_mem_nil, or_false] at hm
  rcases hm with rfl | rfl | rfl | rfl | rfl | rfl | rfl | rfl | rfl | rfl <;> exact ⟨_, rfl⟩

theorem predIx_inj : ∀ a ∈ typePreds, ∀ b ∈ typePreds, predIx a = predIx b → a = b := by decide

theorem holds_iff_cls {n i} (hn : predIx n = some i) (hm : n ∈ typePreds) (v : Val) :
    holds n v ↔ cls v = i := by
  rw [holds, callOk, pred_eq_predFn hm, predFn_eq_cls hn hm]
  by_cases h : cls v = i <;> simp [h]

/-- every type predicate returns a boolean on every value -/
theorem pred_total {n} (hm : n ∈ typePreds) (v : Val) : ∃ b, callOk n [v] (.bool b) :=
  ⟨_, pred_eq_predFn hm v⟩

theorem type_predicates_exclusive {a b} (ha : a ∈ typePreds) (hb : b ∈ typePreds) (hab : a ≠ b) (v : Val) :
    ¬ (holds a v ∧ holds b v) := by
  obtain ⟨i, hi⟩ := predIx_total ha
  obtain ⟨j, hj⟩ := predIx_total hb
  rintro ⟨h1, h2⟩
  have e1 := (holds_iff_cls hi ha v).1 h1
  have e2 := (holds_iff_cls hj hb v).1 h2
  exact hab (predIx_inj a ha b hb (by rw [hi, hj, ← e1, ← e2]))

theorem list?_iff (v) : holds "list?" v ↔ ∃ xs p, v = .list xs p := by
  rw [holds_iff_cls (n := "list?") rfl (by decide)]
  cases v <;> simp [cls]
  split <;> simp

theorem vector?_iff (v) : holds "vector?" v ↔ ∃ xs p, v = .vec xs p := by
  rw [holds_iff_cls (n := "vector?") rfl (by decide)]
  cases v <;> simp [cls]
  split <;> simp
theorem map?_iff (v) : holds "map?" v ↔ ∃ m, v = .map m := by
  rw [holds_iff_cls (n := "map?") rfl (by decide)]
  cases v <;> simp [cls]
  split <;> simp
theorem set?_iff (v) : holds "set?" v ↔ ∃ s, v = .set s := by
  rw [holds_iff_cls (n := "set?") rfl (by decide)]
  cases v <;> simp [cls]
  split <;> simp
theorem nil?_iff (v) : holds "nil?" v ↔ v = .nil := by
  rw [holds_iff_cls (n := "nil?") rfl (by decide)]
  cases v <;> simp [cls]
  split <;> simp
theorem number?_iff (v) : holds "number?" v ↔ ∃ i, v = .int i := by
  rw [holds_iff_cls (n := "number?") rfl (by decide)]
  cases v <;> simp [cls]
  split <;> simp
theorem symbol?_iff (v) : holds "symbol?" v ↔ ∃ s p, v = .sym s p := by
  rw [holds_iff_cls (n := "symbol?") rfl (by decide)]
  cases v <;> simp [cls]
  split <;> simp
theorem string?_iff (v) : holds "string?" v ↔ ∃ s, v = .str s ∧ Val.isKwStr s = false := by
  rw [holds_iff_cls (n := "string?") rfl (by decide)]
  cases v <;> simp [cls]
theorem keyword?_iff (v) : holds "keyword?" v ↔ ∃ s, v = .str s ∧ Val.isKwStr s = true := by
  rw [holds_iff_cls (n := "keyword?") rfl (by decide)]
  cases v <;> simp [cls]

/-- strings and keywords are both Go strings underneath, and every Go string is exactly one of them -/
theorem string_or_keyword_iff (v) : (holds "string?" v ∨ holds "keyword?" v) ↔ ∃ s, v = .str s := by
  rw [string?_iff, keyword?_iff]
  constructor
  · rintro (⟨s, rfl, _⟩ | ⟨s, rfl, _⟩) <;> exact ⟨s, rfl⟩
  · rintro ⟨s, rfl⟩
    cases h : Val.isKwStr s
    · exact .inl ⟨s, rfl, h⟩
    · exact .inr ⟨s, rfl, h⟩

/-! ### sequences, second batch -/

theorem take_seq {s xs} (h : Seq s xs) (n : Int) : callOk "take" [.int n, s] (.list (xs.take n.toNat) none) := by
  rcases Seq_cases h with ⟨p, rfl⟩ | ⟨p, rfl⟩ <;> rfl
theorem drop_seq {s xs} (h : Seq s xs) (n : Int) : callOk "drop" [.int n, s] (.list (xs.drop n.toNat) none) := by
  rcases Seq_cases h with ⟨p, rfl⟩ | ⟨p, rfl⟩ <;> rfl
theorem take_nil (n : Int) : callOk "take" [.int n, .nil] (.list [] none) := rfl
theorem drop_nil (n : Int) : callOk "drop" [.int n, .nil] (.list [] none) := rfl
theorem drop_last_seq {s xs} (h : Seq s xs) (n : Int) :
    callOk "drop-last" [.int n, s] (.list (xs.take (xs.length - n.toNat)) none) := by
  rcases Seq_cases h with ⟨p, rfl⟩ | ⟨p, rfl⟩ <;> rfl
theorem take_last_seq {s xs} (h : Seq s xs) (n : Int) :
    callOk "take-last" [.int n, s]
      (if (xs.drop (xs.length - n.toNat)).isEmpty then .nil else .list (xs.drop (xs.length - n.toNat)) none) := by
  have e : ∀ s, s ≠ Val.nil → Core.call "take-last" [.int n, s] = some (match seqOf? s with
       | some xs =>
         let r := xs.drop (xs.length - n.toNat)
         if r.isEmpty then .ok .nil else .ok (.list r none)
       | none => .goerr "take called on non-list and non-vector") := by
    intro s hs; cases s <;> first | rfl | exact absurd rfl hs
  have hs : s ≠ .nil := by rintro rfl; cases h
  rw [callOk, e s hs, h]
  simp only []
  split <;> rfl
theorem take_last_nil (n : Int) : callOk "take-last" [.int n, .nil] .nil := rfl
theorem drop_last_nil (n : Int) : callOk "drop-last" [.int n, .nil] (.list [] none) := rfl

theorem subvec3_eq (xs p) (f t : Int) : Core.call "subvec" [.vec xs p, .int f, .int t] = some (
    if 0 ≤ f ∧ f ≤ t ∧ t.toNat ≤ xs.length then .ok (.vec ((xs.take t.toNat).drop f.toNat) none)
    else .goerr "subvec index out of range") := rfl
theorem subvec2_eq (xs p) (f : Int) : Core.call "subvec" [.vec xs p, .int f] = some (
    if 0 ≤ f ∧ f.toNat ≤ xs.length then .ok (.vec (xs.drop f.toNat) none) else .goerr "subvec index out of range") := rfl

theorem drop_take_eq_take_drop (xs : List Val) (a b : Nat) :
    (xs.take b).drop a = (xs.drop a).take (b - a) := by
  rw [List.drop_take]

theorem subvec_window (xs p) (a b : Int) (h : 0 ≤ a ∧ a ≤ b ∧ b ≤ xs.length) :
    callOk "subvec" [.vec xs p, .int a, .int b] (.vec ((xs.drop a.toNat).take (b - a).toNat) none) := by
  have c : 0 ≤ a ∧ a ≤ b ∧ b.toNat ≤ xs.length := ⟨h.1, h.2.1, by omega⟩
  rw [callOk, subvec3_eq, if_pos c, drop_take_eq_take_drop]
  have : b.toNat - a.toNat = (b - a).toNat := by omega
  rw [this]

theorem subvec_error (xs p) (a b : Int) (h : ¬ (0 ≤ a ∧ a ≤ b ∧ b ≤ xs.length)) :
    callErr "subvec" [.vec xs p, .int a, .int b] := by
  have c : ¬ (0 ≤ a ∧ a ≤ b ∧ b.toNat ≤ xs.length) := by omega
  refine callErr_of (subvec3_eq xs p a b) ?_
  rw [if_neg c]; rfl

theorem subvec2_window (xs p) (a : Int) (h : 0 ≤ a ∧ a ≤ xs.length) :
    callOk "subvec" [.vec xs p, .int a] (.vec (xs.drop a.toNat) none) := by
  have c : 0 ≤ a ∧ a.toNat ≤ xs.length := ⟨h.1, by omega⟩
  rw [callOk, subvec2_eq, if_pos c]
theorem subvec2_error (xs p) (a : Int) (h : ¬ (0 ≤ a ∧ a ≤ xs.length)) :
    callErr "subvec" [.vec xs p, .int a] := by
  have c : ¬ (0 ≤ a ∧ a.toNat ≤ xs.length) := by omega
  refine callErr_of (subvec2_eq xs p a) ?_
  rw [if_neg c]; rfl
theorem subvec_list_error (xs p) (idx : List Val) : callErr "subvec" (.list xs p :: idx) := by
  match idx with
  | [] => exact callErr_of rfl rfl
  | [_] => exact callErr_of rfl rfl
  | [_, _] => exact callErr_of rfl rfl
  | _ :: _ :: _ :: r =>
    exact callErr_of (variadic_arity_error_max (name := "subvec") rfl _ (by simp)) rfl

/-- variadic builtins (no declared maximum) accept at most 1000 arguments -/
theorem call_var {name} (hs : Core.sigOf name = some (.variadic 0 none)) (args : List Val)
    (hl : args.length ≤ 1000) : Core.call name args = some (Core.body name args) := by
  have : ¬ args.length > 1000 := by omega
  simp [Core.call, hs, Core.checkSig, this]

theorem call_conj (s : Val) (xs : List Val) (h1 : xs ≠ []) (hl : xs.length < 1000) :
    Core.call "conj" (s :: xs) = some (Core.body "conj" (s :: xs)) := by
  have e : Core.sigOf "conj" = some (.variadic 2 none) := rfl
  have a : ¬ (xs.length + 1 < 2) := by
    cases xs with
    | nil => exact absurd rfl h1
    | cons => simp
  have b : ¬ (xs.length + 1 > 1000) := by omega
  simp [Core.call, e, Core.checkSig, a, b]

theorem conj_list (ys p) (xs : List Val) (h1 : xs ≠ []) (hl : xs.length < 1000) :
    callOk "conj" (.list ys p :: xs) (.list (xs.reverse ++ ys) none) := by
  rw [callOk, call_conj _ _ h1 hl]; rfl
theorem conj_vector (ys p) (xs : List Val) (h1 : xs ≠ []) (hl : xs.length < 1000) :
    callOk "conj" (.vec ys p :: xs) (.vec (ys ++ xs) none) := by
  rw [callOk, call_conj _ _ h1 hl]; rfl
theorem conj_no_items_error (s : Val) : callErr "conj" [s] :=
  callErr_of (variadic_arity_error_min (name := "conj") rfl _ (by simp)) rfl

theorem variadic_arity_error_1000 {name mn} (hs : Core.sigOf name = some (.variadic mn none)) (args : List Val)
    (hl : 1000 < args.length) : Core.call name args = some (.goerr "wrong number of arguments") := by
  by_cases h : args.length < mn <;> simp [Core.call, hs, Core.checkSig, hl, h]

/-- `ss` are lists/vectors with element lists `xss`, position by position -/
def Seqs : List Val → List (List Val) → Prop
  | [], [] => True
  | s :: ss, xs :: xss => Seq s xs ∧ Seqs ss xss
  | _, _ => False

theorem Seqs_all {ss xss} (h : Seqs ss xss) : ss.all (fun x => (seqOf? x).isSome) = true := by
  induction ss generalizing xss with
  | nil => rfl
  | cons s ss ih =>
    cases xss with
    | nil => cases h
    | cons xs xss => simp [List.all_cons, h.1, ih h.2]

theorem Seqs_flat {ss xss} (h : Seqs ss xss) : ss.flatMap (fun x => (seqOf? x).getD []) = xss.flatten := by
  induction ss generalizing xss with
  | nil => cases xss with
    | nil => rfl
    | cons => cases h
  | cons s ss ih =>
    cases xss with
    | nil => cases h
    | cons xs xss => simp [List.flatMap_cons, h.1, ih h.2]

theorem concat_body (ss : List Val) : Core.body "concat" ss = (match ss with
     | [] => .ok (.list [] none)
     | _ => if ss.all (fun x => (seqOf? x).isSome) then .ok (.list (ss.flatMap (fun x => (seqOf? x).getD [])) none)
            else .goerr "GetSlice called on non-sequence") := rfl

/-- `(concat s₁ … sₙ)` is the LIST of all the elements in order -/
theorem concat_spec {ss xss} (h : Seqs ss xss) (hl : ss.length ≤ 1000) :
    callOk "concat" ss (.list xss.flatten none) := by
  rw [callOk, call_var rfl ss hl, concat_body]
  cases ss with
  | nil => cases xss with
    | nil => rfl
    | cons => cases h
  | cons s ss => simp only []; rw [Seqs_all h, Seqs_flat h]; rfl

theorem concat_non_seq_error (ss : List Val) (x : Val) (hx : x ∈ ss) (hn : seqOf? x = none) :
    callErr "concat" ss := by
  by_cases hl : ss.length ≤ 1000
  · refine callErr_of (call_var rfl ss hl) ?_
    rw [concat_body]
    cases ss with
    | nil => cases hx
    | cons s ss =>
      have : (s :: ss).all (fun x => (seqOf? x).isSome) = false := by
        rw [List.all_eq_false]; exact ⟨x, hx, by simp [hn]⟩
      simp only []; rw [this]; rfl
  · exact callErr_of (variadic_arity_error_1000 (name := "concat") rfl ss (by omega)) rfl

theorem concat_assoc {a b c xs ys zs} (ha : Seq a xs) (hb : Seq b ys) (hc : Seq c zs) :
    ∃ ab bc r, callOk "concat" [a, b] ab ∧ callOk "concat" [b, c] bc ∧
      callOk "concat" [ab, c] r ∧ callOk "concat" [a, bc] r ∧ callOk "concat" [a, b, c] r ∧
      r = .list (xs ++ ys ++ zs) none := by
  refine ⟨_, _, _, concat2 ha hb, concat2 hb hc, concat2 (Seq_list _ _) hc, ?_, ?_, rfl⟩
  · have := concat2 ha (Seq_list (ys ++ zs) none)
    rwa [← List.append_assoc] at this
  · have := concat_spec (ss := [a, b, c]) (xss := [xs, ys, zs]) ⟨ha, hb, hc, trivial⟩ (by simp)
    simpa using this

theorem count_concat {a b xs ys} (ha : Seq a xs) (hb : Seq b ys) :
    ∃ r, callOk "concat" [a, b] r ∧ callOk "count" [a] (.int xs.length) ∧ callOk "count" [b] (.int ys.length) ∧
      callOk "count" [r] (.int (xs.length + ys.length)) := by
  refine ⟨_, concat2 ha hb, count_seq ha, count_seq hb, ?_⟩
  have := count_list (xs ++ ys) none
  simpa using this

theorem nth_cons_zero {s xs} (x : Val) (h : Seq s xs) :
    ∃ r, callOk "cons" [x, s] r ∧ callOk "nth" [r, .int 0] x :=
  ⟨_, cons_prepends x h, nth_spec (Seq_list (x :: xs) none) 0 (by simp)⟩

theorem nth_cons_succ {s xs} (x : Val) (h : Seq s xs) (i : Int) (hi : 0 ≤ i) :
    ∃ r, callOk "cons" [x, s] r ∧ Core.call "nth" [r, .int (i + 1)] = Core.call "nth" [s, .int i] := by
  refine ⟨_, cons_prepends x h, ?_⟩
  rw [nth_eq, nth_eq, h]
  have e : seqOf? (.list (x :: xs) none) = some (x :: xs) := rfl
  rw [e]
  have h1 : ¬ (i + 1 < 0) := by omega
  have h2 : ¬ (i < 0) := by omega
  have h3 : (i + 1).toNat = i.toNat + 1 := by omega
  simp only [h1, h2, if_false, h3, List.length_cons, Nat.add_lt_add_iff_right, List.getD_cons_succ]

theorem rangeList_length (n : Nat) (f : Int) : (rangeList n f).length = n := by
  induction n generalizing f with
  | zero => rfl
  | succ n ih => simp [rangeList, ih]

theorem rangeList_get (n : Nat) (f : Int) (i : Nat) (h : i < (rangeList n f).length) :
    (rangeList n f)[i] = .int (f + i) := by
  induction n generalizing f i with
  | zero => simp [rangeList] at h
  | succ n ih =>
    cases i with
    | zero => simp [rangeList]
    | succ i =>
      simp only [rangeList, List.getElem_cons_succ]
      rw [ih]; congr 1; omega

theorem range_eq (f t : Int) : callOk "range" [.int f, .int t] (.vec (rangeList (t - f).toNat f) none) := rfl

theorem range_spec (f t : Int) : ∃ es, callOk "range" [.int f, .int t] (.vec es none) ∧
    es.length = (t - f).toNat ∧ ∀ i (h : i < es.length), es[i] = .int (f + i) :=
  ⟨_, range_eq f t, rangeList_length _ _, rangeList_get _ _⟩

theorem range_empty (f t : Int) (h : t ≤ f) : callOk "range" [.int f, .int t] (.vec [] none) := by
  have : (t - f).toNat = 0 := by omega
  rw [callOk, range_eq, this]; rfl

theorem vec_of_seq {s xs} (h : Seq s xs) : callOk "vec" [s] (.vec xs none) := by
  rcases Seq_cases h with ⟨p, rfl⟩ | ⟨p, rfl⟩ <;> rfl
theorem vec_of_set (ks : List String) : callOk "vec" [.set ks] (.vec (ks.map .str) none) := rfl
theorem vec_nil_error : callErr "vec" [.nil] := callErr_of rfl rfl
theorem vec_map_error (m) : callErr "vec" [.map m] := callErr_of rfl rfl

theorem seq_nil : callOk "seq" [.nil] .nil := rfl
theorem seq_empty {s} (h : Seq s []) : callOk "seq" [s] .nil := by
  rcases Seq_cases h with ⟨p, rfl⟩ | ⟨p, rfl⟩ <;> rfl
theorem seq_list (x : Val) (xs p) : callOk "seq" [.list (x :: xs) p] (.list (x :: xs) p) := rfl
theorem seq_vector (x : Val) (xs p) : callOk "seq" [.vec (x :: xs) p] (.list (x :: xs) none) := rfl
theorem seq_set (ks : List String) : callOk "seq" [.set ks] (.list (ks.map .str) none) := rfl
theorem seq_map_error (m) : callErr "seq" [.map m] := callErr_of rfl rfl
theorem seq_nonempty {s xs} (h : Seq s xs) (hne : xs ≠ []) : ∃ p, callOk "seq" [s] (.list xs p) := by
  cases xs with
  | nil => exact absurd rfl hne
  | cons x xs => rcases Seq_cases h with ⟨p, rfl⟩ | ⟨p, rfl⟩ <;> exact ⟨_, rfl⟩

theorem empty?_seq {s xs} (h : Seq s xs) : callOk "empty?" [s] (.bool xs.isEmpty) := by
  rcases Seq_cases h with ⟨p, rfl⟩ | ⟨p, rfl⟩ <;> rfl
theorem empty?_nil : callOk "empty?" [.nil] (.bool true) := rfl
theorem empty?_map (m) : callOk "empty?" [.map m] (.bool m.isEmpty) := rfl
theorem empty?_set (s) : callOk "empty?" [.set s] (.bool s.isEmpty) := rfl
theorem list_spec (xs : List Val) (hl : xs.length ≤ 1000) : callOk "list" xs (.list xs none) := by
  rw [callOk, call_var rfl xs hl]; rfl
theorem vector_spec (xs : List Val) (hl : xs.length ≤ 1000) : callOk "vector" xs (.vec xs none) := by
  rw [callOk, call_var rfl xs hl]; rfl

/-! ### maps, second batch -/

theorem akeys_ainsert {α} (k : String) (v : α) (m : List (String × α)) :
    akeys (ainsert k v m) = if k ∈ akeys m then akeys m else akeys m ++ [k] := by
  induction m with
  | nil => simp [ainsert, akeys]
  | cons kv r ih =>
    obtain ⟨k', v'⟩ := kv
    by_cases h : k' = k
    · subst h; simp [ainsert, akeys]
    · have h' : ¬ k = k' := fun e => h e.symm
      simp only [akeys] at ih
      simp only [ainsert, h, if_false, akeys, List.map_cons, List.mem_cons, h', false_or, ih]
      split <;> simp_all

theorem ainsert_nodup {α} (k : String) (v : α) {m : List (String × α)} (h : (akeys m).Nodup) :
    (akeys (ainsert k v m)).Nodup := by
  rw [akeys_ainsert]
  split
  · exact h
  · rename_i hk
    refine List.nodup_append.2 ⟨h, by simp, ?_⟩
    intro a ha b hb e
    simp at hb; subst hb; subst e; exact hk ha

theorem aerase_sublist {α} (k : String) (m : List (String × α)) : (aerase k m).Sublist m := by
  induction m with
  | nil => exact .slnil
  | cons kv r ih =>
    obtain ⟨k', v'⟩ := kv
    by_cases h : k' = k
    · simp only [aerase, h, if_true]; exact .cons _ (List.Sublist.refl _)
    · simp only [aerase, h, if_false]; exact .cons_cons _ ih

theorem aerase_nodup {α} (k : String) {m : List (String × α)} (h : (akeys m).Nodup) :
    (akeys (aerase k m)).Nodup :=
  List.Sublist.nodup ((aerase_sublist k m).map _) h

theorem alookup_aerase_other {α} {k k' : String} (h : k ≠ k') (m : List (String × α)) :
    alookup k' (aerase k m) = alookup k' m := by
  induction m with
  | nil => rfl
  | cons kv r ih =>
    obtain ⟨k2, v2⟩ := kv
    by_cases h2 : k2 = k
    · subst h2; simp [aerase, alookup, h]
    · by_cases h3 : k2 = k'
      · subst h3; simp [aerase, alookup, h2]
      · simp [aerase, alookup, h2, h3, ih]

theorem alookup_aerase_same {α} (k : String) {m : List (String × α)} (h : (akeys m).Nodup) :
    alookup k (aerase k m) = none := by
  induction m with
  | nil => rfl
  | cons kv r ih =>
    obtain ⟨k2, v2⟩ := kv
    simp only [akeys, List.map_cons, List.nodup_cons] at h
    by_cases h2 : k2 = k
    · subst h2
      simp only [aerase, if_true]
      exact (alookup_eq_none_iff _ _).2 h.1
    · simp only [aerase, h2, if_false, alookup]
      exact ih h.2

/-- the entries `kvs` written one after the other into `m` (Go: `m[k] = v` in a loop) -/
def insertAll (m kvs : List (String × Val)) : List (String × Val) :=
  kvs.foldl (fun acc kv => ainsert kv.1 kv.2 acc) m

/-- the flat argument list `k₁ v₁ k₂ v₂ …` -/
def flatKV (kvs : List (String × Val)) : List Val := kvs.flatMap fun kv => [.str kv.1, kv.2]

theorem flatKV_length (kvs) : (flatKV kvs).length = 2 * kvs.length := by
  induction kvs with
  | nil => rfl
  | cons kv r ih => simp only [flatKV, List.flatMap_cons, List.length_append] at *; simp [ih]; omega

theorem insertAll_nodup {m} (kvs) (h : (akeys m).Nodup) : (akeys (insertAll m kvs)).Nodup := by
  induction kvs generalizing m with
  | nil => exact h
  | cons kv r ih => exact ih (ainsert_nodup _ _ h)

theorem ainsert_not_mem {α} {k : String} (v : α) {m : List (String × α)} (h : k ∉ akeys m) :
    ainsert k v m = m ++ [(k, v)] := by
  induction m with
  | nil => rfl
  | cons kv r ih =>
    obtain ⟨k', v'⟩ := kv
    simp only [akeys, List.map_cons, List.mem_cons, not_or] at h
    have h' : ¬ k' = k := fun e => h.1 e.symm
    simp only [ainsert, h', if_false, List.cons_append]
    rw [ih h.2]

theorem insertAll_fresh {m kvs} (h : (akeys m ++ akeys kvs).Nodup) : insertAll m kvs = m ++ kvs := by
  induction kvs generalizing m with
  | nil => simp [insertAll]
  | cons kv r ih =>
    have hk : kv.1 ∉ akeys m := by
      intro hm
      have := (List.nodup_append.1 h).2.2 _ hm kv.1 (by simp [akeys])
      exact this rfl
    have e : insertAll m (kv :: r) = insertAll (ainsert kv.1 kv.2 m) r := rfl
    rw [e, ainsert_not_mem _ hk, ih]
    · simp
    · simpa [akeys, List.append_assoc] using h

theorem alookup_insertAll {m kvs} (h : (akeys kvs).Nodup) (k : String) :
    alookup k (insertAll m kvs) = (match alookup k kvs with | some v => some v | none => alookup k m) := by
  induction kvs generalizing m with
  | nil => rfl
  | cons kv r ih =>
    obtain ⟨k1, v1⟩ := kv
    simp only [akeys, List.map_cons, List.nodup_cons] at h
    have e : insertAll m ((k1, v1) :: r) = insertAll (ainsert k1 v1 m) r := rfl
    rw [e, ih h.2]
    by_cases hk : k1 = k
    · subst hk
      have : alookup k1 r = none := (alookup_eq_none_iff _ _).2 h.1
      simp [this, alookup, alookup_ainsert_same]
    · simp only [alookup, hk, if_false]
      rw [alookup_ainsert_other hk]

theorem assocMap_flat (kvs m) : assocMap (flatKV kvs) m = .ok (.map (insertAll m kvs)) := by
  induction kvs generalizing m with
  | nil => simp [flatKV, assocMap, insertAll]
  | cons kv r ih =>
    have : flatKV (kv :: r) = .str kv.1 :: kv.2 :: flatKV r := by simp [flatKV]
    rw [this, assocMap, ih]; rfl
theorem conjMap_flat (kvs m) : conjMap (flatKV kvs) m = .ok (.map (insertAll m kvs)) := by
  induction kvs generalizing m with
  | nil => simp [flatKV, conjMap, insertAll]
  | cons kv r ih =>
    have : flatKV (kv :: r) = .str kv.1 :: kv.2 :: flatKV r := by simp [flatKV]
    rw [this, conjMap, ih]; rfl
theorem newHashMapLoop_flat (kvs m) : newHashMapLoop (flatKV kvs) m = .ok (.map (insertAll m kvs)) := by
  induction kvs generalizing m with
  | nil => simp [flatKV, newHashMapLoop, insertAll]
  | cons kv r ih =>
    have : flatKV (kv :: r) = .str kv.1 :: kv.2 :: flatKV r := by simp [flatKV]
    rw [this, newHashMapLoop, ih]; rfl

theorem body_assoc (xs : List Val) : Core.body "assoc" xs = Core.assoc xs := rfl
theorem body_dissoc (xs : List Val) : Core.body "dissoc" xs = Core.dissoc xs := rfl

/-- `(assoc m k₁ v₁ … kₙ vₙ)`, n ≥ 1: the entries written in order -/
theorem assoc_map (m kvs) (hne : kvs ≠ []) (hl : 2 * kvs.length < 1000) :
    callOk "assoc" (.map m :: flatKV kvs) (.map (insertAll m kvs)) := by
  have hlen := flatKV_length kvs
  have hpos : 0 < kvs.length := List.length_pos_iff.2 hne
  rw [callOk, call_var rfl _ (by simp [hlen]; omega)]
  rw [body_assoc]
  have a : ¬ ((Val.map m :: flatKV kvs).length < 3) := by simp [hlen] <;> omega
  have b : ¬ ((Val.map m :: flatKV kvs).length % 2 ≠ 1) := by simp [hlen] <;> omega
  simp only [Core.assoc, a, b, if_false, assocMap_flat]

theorem hash_map_spec (kvs) (hl : 2 * kvs.length ≤ 1000) :
    callOk "hash-map" (flatKV kvs) (.map (insertAll [] kvs)) := by
  have hlen := flatKV_length kvs
  rw [callOk, call_var rfl _ (by omega)]
  cases kvs with
  | nil => rfl
  | cons kv r =>
    have e : flatKV (kv :: r) = .str kv.1 :: kv.2 :: flatKV r := by simp [flatKV]
    have : Core.body "hash-map" (flatKV (kv :: r)) = newHashMap (flatKV (kv :: r)) := by rw [e]; rfl
    rw [this, newHashMap]
    have : ¬ ((flatKV (kv :: r)).length % 2 = 1) := by omega
    rw [if_neg this, newHashMapLoop_flat]

theorem dissoc_map1 (m : List (String × Val)) (k : String) :
    callOk "dissoc" [.map m, .str k] (.map (aerase k m)) := by
  rw [callOk, call_var rfl _ (by simp), body_dissoc]
  simp [Core.dissoc, isStr]

theorem get_dissoc_same (m : List (String × Val)) (k : String) (h : (akeys m).Nodup) :
    callOk "get" [.map (aerase k m), .str k] .nil := by
  rw [callOk, get_map, alookup_aerase_same k h]; rfl

theorem get_dissoc_other (m : List (String × Val)) {k k' : String} (h : k ≠ k') :
    Core.call "get" [.map (aerase k m), .str k'] = Core.call "get" [.map m, .str k'] := by
  rw [get_map, get_map, alookup_aerase_other h]

theorem contains_dissoc_same (m : List (String × Val)) (k : String) (h : (akeys m).Nodup) :
    callOk "contains?" [.map (aerase k m), .str k] (.bool false) := by
  rw [callOk, contains_map, alookup_aerase_same k h]; rfl

/-- `contains?` is membership in `keys` -/
theorem contains_iff_keys (m : List (String × Val)) (k : String) :
    callOk "contains?" [.map m, .str k] (.bool true) ↔ (Val.str k) ∈ m.map (fun kv => Val.str kv.1) := by
  rw [callOk, contains_map]
  have := alookup_isSome_iff k m
  simp only [akeys] at this
  constructor
  · intro h
    have h' : (alookup k m).isSome = true := by simpa using h
    obtain ⟨kv, hkv, e⟩ := List.mem_map.1 (this.1 h')
    exact List.mem_map.2 ⟨kv, hkv, by rw [e]⟩
  · intro h
    obtain ⟨kv, hkv, e⟩ := List.mem_map.1 h
    have : (alookup k m).isSome = true := this.2 (List.mem_map.2 ⟨kv, hkv, by simpa using e⟩)
    rw [this]

/-- absent key: `get` gives nil; present key: `get` gives the entry's value -/
theorem get_of_contains (m : List (String × Val)) (k : String) :
    (callOk "contains?" [.map m, .str k] (.bool false) → callOk "get" [.map m, .str k] .nil) ∧
    (callOk "contains?" [.map m, .str k] (.bool true) → ∃ v, (k, v) ∈ m ∧ callOk "get" [.map m, .str k] v) := by
  constructor
  · intro h
    rw [callOk, contains_map] at h
    have : alookup k m = none := by
      cases h' : alookup k m with
      | none => rfl
      | some v => rw [h'] at h; simp at h
    rw [callOk, get_map, this]; rfl
  · intro h
    rw [callOk, contains_map] at h
    cases h' : alookup k m with
    | none => rw [h'] at h; simp at h
    | some v =>
      refine ⟨v, ?_, by rw [callOk, get_map, h']; rfl⟩
      clear h
      induction m with
      | nil => cases h'
      | cons kv r ih =>
        obtain ⟨k2, v2⟩ := kv
        by_cases e : k2 = k
        · subst e; simp [alookup] at h'; subst h'; simp
        · simp only [alookup, e, if_false] at h'; exact List.mem_cons_of_mem _ (ih h')

theorem keys_vals_zip (m : List (String × Val)) :
    ∃ ks vs, callOk "keys" [.map m] (.list ks none) ∧ callOk "vals" [.map m] (.list vs none) ∧
      ks.length = vs.length ∧ ks.zip vs = m.map (fun kv => (Val.str kv.1, kv.2)) := by
  refine ⟨_, _, keys_map m, vals_map m, by simp, ?_⟩
  induction m with
  | nil => rfl
  | cons kv r ih => simp [ih]

theorem count_keys (m : List (String × Val)) :
    ∃ ks n, callOk "keys" [.map m] ks ∧ callOk "count" [ks] (.int n) ∧ callOk "count" [.map m] (.int n) := by
  refine ⟨_, _, keys_map m, ?_, count_map m⟩
  have := count_list (m.map (fun kv => Val.str kv.1)) none
  simpa using this

theorem merge_maps (m1 m2 : List (String × Val)) :
    callOk "merge" [.map m1, .map m2] (.map (insertAll m1 m2)) := rfl
theorem merge_nil_nil : callOk "merge" [.nil, .nil] .nil := rfl
theorem merge_nil_left (m : List (String × Val)) : callOk "merge" [.nil, .map m] (.map (insertAll [] m)) := rfl
theorem merge_nil_right (m : List (String × Val)) : callOk "merge" [.map m, .nil] (.map (insertAll [] m)) := rfl

theorem insertAll_nil_of_nodup {m : List (String × Val)} (h : (akeys m).Nodup) : insertAll [] m = m := by
  have := insertAll_fresh (m := []) (kvs := m) (by simpa [akeys] using h)
  simpa using this

/-- the right map wins on common keys, the left one supplies the others -/
theorem merge_right_biased (m1 m2 : List (String × Val)) (h2 : (akeys m2).Nodup) (k : String) :
    ∃ r, callOk "merge" [.map m1, .map m2] r ∧
      (callOk "contains?" [.map m2, .str k] (.bool true) →
        Core.call "get" [r, .str k] = Core.call "get" [.map m2, .str k]) ∧
      (callOk "contains?" [.map m2, .str k] (.bool false) →
        Core.call "get" [r, .str k] = Core.call "get" [.map m1, .str k]) := by
  refine ⟨_, merge_maps m1 m2, ?_, ?_⟩ <;> intro h <;> rw [callOk, contains_map] at h <;>
    rw [get_map, get_map, alookup_insertAll h2]
  · cases h' : alookup k m2 with
    | none => rw [h'] at h; simp at h
    | some v => rfl
  · cases h' : alookup k m2 with
    | none => rfl
    | some v => rw [h'] at h; simp at h

theorem merge_non_map_error (x : Val) (i : Int) : callErr "merge" [x, .int i] := by
  cases x <;> exact callErr_of rfl rfl

theorem hash_map_odd_error (xs : List Val) (h : xs.length % 2 = 1) : callErr "hash-map" xs := by
  by_cases hl : xs.length ≤ 1000
  · refine callErr_of (call_var rfl xs hl) ?_
    match xs, h with
    | [_], _ => rfl
    | a :: b :: r, h =>
      have : Core.body "hash-map" (a :: b :: r) = newHashMap (a :: b :: r) := rfl
      rw [this, newHashMap, if_pos h]; rfl
  · exact callErr_of (variadic_arity_error_1000 (name := "hash-map") rfl xs (by omega)) rfl

theorem newHashMapLoop_bad_key (pre : List (String × Val)) (k v : Val) (post : List Val) (m)
    (hk : ∀ s, k ≠ .str s) : isErr (newHashMapLoop (flatKV pre ++ k :: v :: post) m) = true := by
  induction pre generalizing m with
  | nil =>
    simp only [flatKV, List.flatMap_nil, List.nil_append]
    cases k <;> first | rfl | exact absurd rfl (hk _)
  | cons kv r ih =>
    have : flatKV (kv :: r) ++ k :: v :: post = .str kv.1 :: kv.2 :: (flatKV r ++ k :: v :: post) := by
      simp [flatKV]
    rw [this, newHashMapLoop]; exact ih _

/-- a key that is not a string/keyword (after any number of good pairs) makes `hash-map` an error -/
theorem hash_map_non_string_key_error (pre : List (String × Val)) (k v : Val) (post : List Val)
    (hk : ∀ s, k ≠ .str s) : callErr "hash-map" (flatKV pre ++ k :: v :: post) := by
  by_cases hl : (flatKV pre ++ k :: v :: post).length ≤ 1000
  · refine callErr_of (call_var rfl _ hl) ?_
    have e : ∃ a b r, flatKV pre ++ k :: v :: post = a :: b :: r := by
      cases pre with
      | nil => exact ⟨k, v, post, rfl⟩
      | cons kv r => exact ⟨.str kv.1, kv.2, flatKV r ++ k :: v :: post, by simp [flatKV]⟩
    obtain ⟨a, b, r, e⟩ := e
    have : Core.body "hash-map" (flatKV pre ++ k :: v :: post) = newHashMap (flatKV pre ++ k :: v :: post) := by
      rw [e]; rfl
    rw [this, newHashMap]
    split
    · rfl
    · exact newHashMapLoop_bad_key pre k v post [] hk
  · exact callErr_of (variadic_arity_error_1000 (name := "hash-map") rfl _ (by omega)) rfl

/-- a value returned by `call` is a value returned by the body -/
theorem body_of_callOk {name args r} (h : callOk name args r) : Core.body name args = .ok r := by
  unfold callOk Core.call at h
  split at h
  · cases h
  · split at h
    · split at h <;> cases h
    · exact Option.some.inj h

theorem assocMap_nodup (rest : List Val) (m : List (String × Val)) (h : (akeys m).Nodup) {v}
    (e : assocMap rest m = .ok v) : ∃ m', v = .map m' ∧ (akeys m').Nodup := by
  induction rest, m using assocMap.induct with
  | case1 m => simp only [assocMap] at e; cases e; exact ⟨m, rfl, h⟩
  | case2 k v' r m ih => simp only [assocMap] at e; exact ih (ainsert_nodup _ _ h) e
  | case3 => simp [assocMap] at e
  | case4 => simp [assocMap] at e

theorem conjMap_nodup (rest : List Val) (m : List (String × Val)) (h : (akeys m).Nodup) {v}
    (e : conjMap rest m = .ok v) : ∃ m', v = .map m' ∧ (akeys m').Nodup := by
  induction rest, m using conjMap.induct with
  | case1 m => simp only [conjMap] at e; cases e; exact ⟨m, rfl, h⟩
  | case2 k v' r m ih => simp only [conjMap] at e; exact ih (ainsert_nodup _ _ h) e
  | case3 => simp [conjMap] at e
  | case4 => simp [conjMap] at e

theorem newHashMapLoop_nodup (rest : List Val) (m : List (String × Val)) (h : (akeys m).Nodup) {v}
    (e : newHashMapLoop rest m = .ok v) : ∃ m', v = .map m' ∧ (akeys m').Nodup := by
  induction rest, m using newHashMapLoop.induct with
  | case1 m => simp only [newHashMapLoop] at e; cases e; exact ⟨m, rfl, h⟩
  | case2 k v' r m ih => simp only [newHashMapLoop] at e; exact ih (ainsert_nodup _ _ h) e
  | case3 => simp [newHashMapLoop] at e
  | case4 => simp [newHashMapLoop] at e

/-- `assoc` never creates a duplicate key -/
theorem assoc_overwrites (m : List (String × Val)) (rest : List Val) (h : (akeys m).Nodup) {r}
    (e : callOk "assoc" (.map m :: rest) r) : ∃ m', r = .map m' ∧ (akeys m').Nodup := by
  have e' := body_of_callOk e
  rw [body_assoc] at e'
  simp only [Core.assoc] at e'
  split at e'
  · cases e'
  · split at e'
    · cases e'
    · exact assocMap_nodup _ _ h e'

theorem hash_map_nodup (xs : List Val) {r} (e : callOk "hash-map" xs r) :
    ∃ m', r = .map m' ∧ (akeys m').Nodup := by
  have e' := body_of_callOk e
  match xs, e' with
  | [], e' => cases e'; exact ⟨[], rfl, List.nodup_nil⟩
  | [_], e' => cases e'
  | a :: b :: r, e' =>
    have : Core.body "hash-map" (a :: b :: r) = newHashMap (a :: b :: r) := rfl
    rw [this, newHashMap] at e'
    split at e'
    · cases e'
    · exact newHashMapLoop_nodup _ [] List.nodup_nil e'

theorem merge_nodup (m1 m2 : List (String × Val)) (h : (akeys m1).Nodup) :
    ∃ m', callOk "merge" [.map m1, .map m2] (.map m') ∧ (akeys m').Nodup :=
  ⟨_, merge_maps m1 m2, insertAll_nodup m2 h⟩

theorem dissoc_nodup (m : List (String × Val)) (k : String) (h : (akeys m).Nodup) :
    ∃ m', callOk "dissoc" [.map m, .str k] (.map m') ∧ (akeys m').Nodup :=
  ⟨_, dissoc_map1 m k, aerase_nodup k h⟩

/-! ### get-in / assoc-in -/

/-- iterated `get` along a path (stops at the first error) -/
def iterGet : Val → List Val → BRes
  | v, [] => .ok v
  | v, i :: r => match Core.get v i with
    | .ok b => iterGet b r
    | e => e

/-- every value traversed while at least two keys remain is a map or nil -/
def MapPath : Val → List String → Prop
  | _, [] => True
  | _, [_] => True
  | .map m, k :: r => MapPath ((alookup k m).getD .nil) r
  | .nil, _ => True
  | _, _ => False

theorem get_nil_key (i : Val) : Core.get .nil i = .ok .nil := rfl

theorem getIn_nil (path : List Val) : getIn .nil path = .ok .nil := by
  induction path with
  | nil => rfl
  | cons i r ih =>
    cases r with
    | nil => rfl
    | cons j r => cases i <;> simpa [getIn] using ih

theorem iterGet_nil (path : List Val) : iterGet .nil path = .ok .nil := by
  induction path with
  | nil => rfl
  | cons i r ih => simp [iterGet, get_nil_key, ih]

theorem getIn_empty_map (k : String) (ks : List String) :
    getIn (.map []) ((k :: ks).map .str) = .ok .nil := by
  induction ks generalizing k with
  | nil => rfl
  | cons k2 r ih => simpa [getIn, alookup] using ih k2

theorem get_in_eq (v : Val) (path p) : Core.call "get-in" [v, .vec path p] = some (getIn v path) := by
  cases v <;> first | rfl | exact congrArg some (getIn_nil path).symm

theorem iterGet_one (v i : Val) : iterGet v [i] = Core.get v i := by
  simp only [iterGet]
  cases Core.get v i <;> rfl

theorem getIn_fold (v : Val) (ks : List String) (h : MapPath v ks) :
    getIn v (ks.map .str) = iterGet v (ks.map .str) := by
  induction ks generalizing v with
  | nil => rfl
  | cons k r ih =>
    cases r with
    | nil => exact (iterGet_one v (.str k)).symm
    | cons k2 r =>
      cases v with
      | nil => rw [getIn_nil, iterGet_nil]
      | map m =>
        have hm : MapPath ((alookup k m).getD .nil) (k2 :: r) := h
        have e1 : iterGet (.map m) ((k :: k2 :: r).map .str) =
            iterGet ((alookup k m).getD .nil) ((k2 :: r).map .str) := rfl
        have e2 : getIn (.map m) ((k :: k2 :: r).map .str) =
            getIn (match (alookup k m).getD .nil with | .nil => .map [] | b => b) ((k2 :: r).map .str) := rfl
        rw [e1, e2]
        cases hb : (alookup k m).getD .nil with
        | nil => rw [getIn_empty_map, iterGet_nil]
        | _ => rw [hb] at hm; exact ih _ hm
      | _ => exact absurd h (by simp [MapPath])

/-- `(get-in v [k₁ … kₙ])` is the iterated `get`, as long as the values traversed are maps (or nil) -/
theorem get_in_fold (v : Val) (ks : List String) (p) (h : MapPath v ks) :
    Core.call "get-in" [v, .vec (ks.map .str) p] = some (iterGet v (ks.map .str)) := by
  rw [get_in_eq, getIn_fold v ks h]

/-- deviation: through a non-map in the middle of a longer path `get-in` yields nil, iterated `get` an error -/
theorem get_in_through_scalar :
    callOk "get-in" [.map [("a", .int 5)], .vec [.str "a", .str "b", .str "c"] none] .nil ∧
    isErr (iterGet (.map [("a", .int 5)]) [.str "a", .str "b", .str "c"]) = true := by
  constructor
  · rw [callOk, get_in_eq]; simp [getIn, alookup, get_nil_key]
  · simp [iterGet, Core.get, alookup, isErr]

/-- along the path, every entry met before the last key is a map, nil or missing -/
def NestedMaps : List (String × Val) → List String → Prop
  | _, [] => True
  | _, [_] => True
  | m, k :: k2 :: r =>
    match (alookup k m).getD .nil with
    | .nil => True
    | .map m' => NestedMaps m' (k2 :: r)
    | _ => False

theorem assoc_in_eq (v : Val) (path p) (nv : Val) :
    Core.call "assoc-in" [v, .vec path p, nv] = some (assocIn v path nv) := rfl

theorem assoc3_map (m : List (String × Val)) (k : String) (v : Val) :
    Core.assoc [.map m, .str k, v] = .ok (.map (ainsert k v m)) := by
  simp [Core.assoc, assocMap]

theorem NestedMaps_nil (ks : List String) : NestedMaps [] ks := by
  match ks with
  | [] => trivial
  | [_] => trivial
  | k :: k2 :: r => simp [NestedMaps, alookup]

theorem assocIn_getIn (m : List (String × Val)) (k : String) (ks : List String) (nv : Val)
    (h : NestedMaps m (k :: ks)) :
    ∃ m', assocIn (.map m) ((k :: ks).map .str) nv = .ok (.map m') ∧
      getIn (.map m') ((k :: ks).map .str) = .ok nv := by
  induction ks generalizing m k with
  | nil =>
    refine ⟨ainsert k nv m, assoc3_map m k nv, ?_⟩
    show Core.get _ _ = _
    simp [Core.get, alookup_ainsert_same]
  | cons k2 r ih =>
    have key : ∃ mb, (match (alookup k m).getD .nil with | .nil => Val.map [] | b => b) = .map mb ∧
        NestedMaps mb (k2 :: r) := by
      simp only [NestedMaps] at h
      cases hb : (alookup k m).getD .nil with
      | nil => exact ⟨[], rfl, NestedMaps_nil _⟩
      | map m' => rw [hb] at h; exact ⟨m', rfl, h⟩
      | _ => rw [hb] at h; exact absurd h (by simp)
    obtain ⟨mb, eb, hmb⟩ := key
    obtain ⟨mi, e1, e2⟩ := ih mb k2 hmb
    refine ⟨ainsert k (.map mi) m, ?_, ?_⟩
    · have : assocIn (.map m) ((k :: k2 :: r).map .str) nv =
          (match assocIn (match (alookup k m).getD .nil with | .nil => Val.map [] | b => b) ((k2 :: r).map .str) nv with
           | .ok inner => Core.assoc [.map m, .str k, inner]
           | r => r) := rfl
      rw [this, eb, e1]; exact assoc3_map m k _
    · have : getIn (.map (ainsert k (.map mi) m)) ((k :: k2 :: r).map .str) =
          getIn (match (alookup k (ainsert k (.map mi) m)).getD .nil with | .nil => Val.map [] | b => b)
            ((k2 :: r).map .str) := rfl
      rw [this, alookup_ainsert_same]; exact e2

/-- on nested maps, `get-in` after `assoc-in` with the same (non-empty, string) path gives the value -/
theorem assoc_in_get_in (m : List (String × Val)) (k : String) (ks : List String) (p q) (nv : Val)
    (h : NestedMaps m (k :: ks)) :
    ∃ r, callOk "assoc-in" [.map m, .vec ((k :: ks).map .str) p, nv] r ∧
      callOk "get-in" [r, .vec ((k :: ks).map .str) q] nv := by
  obtain ⟨m', e1, e2⟩ := assocIn_getIn m k ks nv h
  exact ⟨.map m', by rw [callOk, assoc_in_eq, e1], by rw [callOk, get_in_eq, e2]⟩

theorem assoc_in_nil_error (k : String) (p) (nv : Val) : callErr "assoc-in" [.nil, .vec [.str k] p, nv] :=
  callErr_of rfl rfl
theorem assoc_in_path_not_vector_error (v nv : Val) (xs p) : callErr "assoc-in" [v, .list xs p, nv] :=
  callErr_of rfl rfl

/-! ### rename-keys -/

/-- the new name of key `k` under the renaming `alt` -/
def ren (alt : List (String × Val)) (k : String) : String :=
  match alookup k alt with
  | some (.str nk) => nk
  | _ => k

def rkStep (alt : List (String × Val)) (acc : Option (List (String × Val))) (kv : String × Val) :
    Option (List (String × Val)) :=
  acc.bind fun out =>
    match alookup kv.1 alt with
    | some (.str nk) => some (ainsert nk kv.2 out)
    | some _ => none
    | none => some (ainsert kv.1 kv.2 out)

theorem renameKeys_eq (data alt) : renameKeys data alt =
    (match data.foldl (rkStep alt) (some []) with
     | some out => .ok (.map out)
     | none => .goerr "interface conversion") := rfl

theorem rename_keys_eq (d alt) : Core.call "rename-keys" [.map d, .map alt] = some (renameKeys d alt) := rfl

/-- every renaming that applies to a key of `data` gives a string (or keyword) -/
def RenStr (data alt : List (String × Val)) : Prop :=
  ∀ kv ∈ data, ∀ w, alookup kv.1 alt = some w → ∃ s, w = .str s

theorem rkStep_some (alt acc) (kv : String × Val) (h : ∀ w, alookup kv.1 alt = some w → ∃ s, w = .str s) :
    rkStep alt (some acc) kv = some (ainsert (ren alt kv.1) kv.2 acc) := by
  simp only [rkStep, ren, Option.bind_some]
  cases hl : alookup kv.1 alt with
  | none => rfl
  | some w => obtain ⟨s, rfl⟩ := h w hl; rfl

theorem foldl_rkStep (alt data acc) (h : RenStr data alt) :
    data.foldl (rkStep alt) (some acc) = some (insertAll acc (data.map (fun kv => (ren alt kv.1, kv.2)))) := by
  induction data generalizing acc with
  | nil => rfl
  | cons kv r ih =>
    rw [List.foldl_cons, rkStep_some alt acc kv (h kv (by simp)), ih _ (fun kv' hm => h kv' (by simp [hm]))]
    rfl

/-- for a renaming that gives strings and does not make two keys collide, `rename-keys` renames
    each key and keeps values and order -/
theorem rename_keys_spec (data alt : List (String × Val)) (h : RenStr data alt)
    (hn : (data.map (fun kv => ren alt kv.1)).Nodup) :
    callOk "rename-keys" [.map data, .map alt] (.map (data.map (fun kv => (ren alt kv.1, kv.2)))) := by
  rw [callOk, rename_keys_eq, renameKeys_eq, foldl_rkStep alt data [] h]
  have : (akeys ([] : List (String × Val)) ++ akeys (data.map (fun kv => (ren alt kv.1, kv.2)))).Nodup := by
    simpa [akeys, List.map_map, Function.comp_def] using hn
  rw [insertAll_fresh this]; rfl

theorem foldl_rkStep_none (alt) (data : List (String × Val)) : data.foldl (rkStep alt) none = none := by
  induction data with
  | nil => rfl
  | cons kv r ih => rw [List.foldl_cons]; exact ih

/-- a renaming to something that is not a string is an error -/
theorem rename_keys_non_string_error (data alt : List (String × Val)) (k : String) (w : Val)
    (hk : k ∈ akeys data) (hw : alookup k alt = some w) (hs : ∀ s, w ≠ .str s) :
    callErr "rename-keys" [.map data, .map alt] := by
  refine callErr_of (rename_keys_eq data alt) ?_
  rw [renameKeys_eq]
  have : ∀ acc, data.foldl (rkStep alt) acc = none := by
    induction data with
    | nil => simp [akeys] at hk
    | cons kv r ih =>
      intro acc
      rw [List.foldl_cons]
      by_cases e : kv.1 = k
      · have : rkStep alt acc kv = none := by
          cases acc with
          | none => rfl
          | some out =>
            simp only [rkStep, Option.bind_some, e, hw]
        rw [this, foldl_rkStep_none]
      · have hk' : k ∈ akeys r := by
          simp only [akeys, List.map_cons, List.mem_cons] at hk
          rcases hk with hk | hk
          · exact absurd hk.symm e
          · exact hk
        exact ih hk' _
  rw [this]; rfl

/-! ### sets, second batch -/

/-- the keys `ks` added one after the other to the set `s` -/
def insertKeys (s ks : List String) : List String := ks.foldl (fun acc k => sinsert k acc) s

theorem insertKeys_nodup {s} (ks) (h : s.Nodup) : (insertKeys s ks).Nodup := by
  induction ks generalizing s with
  | nil => exact h
  | cons k r ih => exact ih (sinsert_nodup h)

theorem mem_insertKeys {s ks : List String} {k : String} : k ∈ insertKeys s ks ↔ k ∈ s ∨ k ∈ ks := by
  induction ks generalizing s with
  | nil => simp [insertKeys]
  | cons k' r ih =>
    have e : insertKeys s (k' :: r) = insertKeys (sinsert k' s) r := rfl
    rw [e, ih, mem_sinsert]; simp only [List.mem_cons]
    constructor
    · rintro ((h | h) | h)
      · exact .inr (.inl h)
      · exact .inl h
      · exact .inr (.inr h)
    · rintro (h | h | h)
      · exact .inl (.inr h)
      · exact .inl (.inl h)
      · exact .inr h

theorem insertKeys_fresh {s ks : List String} (h : (s ++ ks).Nodup) : insertKeys s ks = s ++ ks := by
  induction ks generalizing s with
  | nil => simp [insertKeys]
  | cons k r ih =>
    have hk : k ∉ s := fun hm => (List.nodup_append.1 h).2.2 _ hm k (by simp) rfl
    have e : insertKeys s (k :: r) = insertKeys (sinsert k s) r := rfl
    rw [e, sinsert_eq, if_neg hk, ih]
    · simp
    · simpa [List.append_assoc] using h

theorem newSet_strs (ks s) : newSet (ks.map .str) s = .ok (.set (insertKeys s ks)) := by
  induction ks generalizing s with
  | nil => rfl
  | cons k r ih => simp only [List.map_cons, newSet, ih]; rfl

theorem addKeys_strs (what ks s) : addKeys what (ks.map .str) s = .ok (.set (insertKeys s ks)) := by
  induction ks generalizing s with
  | nil => rfl
  | cons k r ih => simp only [List.map_cons, addKeys, ih]; rfl

theorem newSet_nodup (xs : List Val) (s : List String) (h : s.Nodup) {v} (e : newSet xs s = .ok v) :
    ∃ s', v = .set s' ∧ s'.Nodup := by
  induction xs, s using newSet.induct with
  | case1 s => simp only [newSet] at e; cases e; exact ⟨s, rfl, h⟩
  | case2 k r s ih => simp only [newSet] at e; exact ih (sinsert_nodup h) e
  | case3 => simp [newSet] at e

theorem addKeys_nodup (what) (xs : List Val) (s : List String) (h : s.Nodup) {v} (e : addKeys what xs s = .ok v) :
    ∃ s', v = .set s' ∧ s'.Nodup := by
  induction xs, s using addKeys.induct with
  | case1 s => simp only [addKeys] at e; cases e; exact ⟨s, rfl, h⟩
  | case2 k r s ih => simp only [addKeys] at e; exact ih (sinsert_nodup h) e
  | case3 => simp [addKeys] at e

theorem hash_set_spec (ks : List String) (hl : ks.length ≤ 1000) :
    callOk "hash-set" (ks.map .str) (.set (insertKeys [] ks)) := by
  rw [callOk, call_var rfl _ (by simpa using hl)]
  exact congrArg some (newSet_strs ks [])

/-- `hash-set` never creates a duplicate member -/
theorem hash_set_nodup (xs : List Val) {r} (e : callOk "hash-set" xs r) : ∃ s, r = .set s ∧ s.Nodup :=
  newSet_nodup xs [] List.nodup_nil (body_of_callOk e)

theorem set_of_seq {v} (ks : List String) (h : Seq v (ks.map .str)) :
    callOk "set" [v] (.set (insertKeys [] ks)) := by
  rcases Seq_cases h with ⟨p, rfl⟩ | ⟨p, rfl⟩ <;> exact congrArg some (newSet_strs ks [])
theorem set_nil : callOk "set" [.nil] (.set []) := rfl

theorem set_nodup (v : Val) {r} (e : callOk "set" [v] r) : ∃ s, r = .set s ∧ s.Nodup := by
  have e' := body_of_callOk e
  cases v with
  | nil => cases e'; exact ⟨[], rfl, List.nodup_nil⟩
  | list xs p => exact newSet_nodup xs [] List.nodup_nil e'
  | vec xs p => exact newSet_nodup xs [] List.nodup_nil e'
  | _ => cases e'

theorem conj_set (s ks : List String) (hne : ks ≠ []) (hl : ks.length < 1000) :
    callOk "conj" (.set s :: ks.map .str) (.set (insertKeys s ks)) := by
  rw [callOk, call_conj _ _ (by simpa using hne) (by simpa using hl)]
  exact congrArg some (addKeys_strs "conj" ks s)

theorem conj_set_nodup (s : List String) (xs : List Val) (h : s.Nodup) {r}
    (e : callOk "conj" (.set s :: xs) r) : ∃ s', r = .set s' ∧ s'.Nodup :=
  addKeys_nodup "conj" xs s h (body_of_callOk e)

theorem contains_conj_same (s : List String) (k : String) :
    callOk "contains?" [.set (sinsert k s), .str k] (.bool true) := by
  have : (sinsert k s).contains k = true := List.contains_iff_mem.2 (mem_sinsert.2 (.inl rfl))
  rw [callOk, contains_set, this]

theorem contains_conj_other (s : List String) {k k' : String} (h : k ≠ k') :
    Core.call "contains?" [.set (sinsert k s), .str k'] = Core.call "contains?" [.set s, .str k'] := by
  rw [contains_set, contains_set]
  have : (sinsert k s).contains k' = s.contains k' := by
    rw [Bool.eq_iff_iff, List.contains_iff_mem, List.contains_iff_mem, mem_sinsert]
    constructor
    · rintro (e | e)
      · exact absurd e.symm h
      · exact e
    · exact .inr
  rw [this]

theorem count_conj_set (s : List String) (k : String) :
    callOk "count" [.set (sinsert k s)] (.int (s.length + (if k ∈ s then 0 else 1 : Nat))) := by
  rw [callOk, count_set, sinsert_eq]
  split <;> simp

theorem dissoc_set1 (s : List String) (k : String) :
    callOk "dissoc" [.set s, .str k] (.set (s.erase k)) := by
  rw [callOk, call_var rfl _ (by simp), body_dissoc]
  simp [Core.dissoc, isStr]

theorem contains_dissoc_set_same (s : List String) (k : String) (h : s.Nodup) :
    callOk "contains?" [.set (s.erase k), .str k] (.bool false) := by
  have : (s.erase k).contains k = false := by
    rw [Bool.eq_false_iff]; intro hc
    exact (List.Nodup.mem_erase_iff h).1 (List.contains_iff_mem.1 hc) |>.1 rfl
  rw [callOk, contains_set, this]

theorem contains_dissoc_set_other (s : List String) {k k' : String} (h : k ≠ k') :
    Core.call "contains?" [.set (s.erase k), .str k'] = Core.call "contains?" [.set s, .str k'] := by
  rw [contains_set, contains_set]
  have : (s.erase k).contains k' = s.contains k' := by
    rw [Bool.eq_iff_iff, List.contains_iff_mem, List.contains_iff_mem]
    exact List.mem_erase_of_ne (fun e => h e.symm)
  rw [this]

theorem dissoc_set_nodup (s : List String) (k : String) (h : s.Nodup) : (s.erase k).Nodup :=
  List.Sublist.nodup List.erase_sublist h

theorem count_dissoc_set (s : List String) (k : String) :
    callOk "count" [.set (s.erase k)] (.int (s.length - (if k ∈ s then 1 else 0 : Nat) : Nat)) := by
  rw [callOk, count_set, List.length_erase]
  split <;> simp

theorem hash_set_non_string_error (pre : List String) (x : Val) (post : List Val) (hx : ∀ s, x ≠ .str s) :
    callErr "hash-set" (pre.map .str ++ x :: post) := by
  by_cases hl : (pre.map Val.str ++ x :: post).length ≤ 1000
  · refine callErr_of (call_var rfl _ hl) ?_
    show isErr (newSet _ []) = true
    generalize ([] : List String) = acc; clear hl
    induction pre generalizing acc with
    | nil => cases x <;> first | rfl | exact absurd rfl (hx _)
    | cons k r ih => simp only [List.map_cons, List.cons_append, newSet]; exact ih _
  · exact callErr_of (variadic_arity_error_1000 (name := "hash-set") rfl _ (by omega)) rfl

/-! ### errors, second batch: outside the domain -/

/-- list, vector, map, set or nil -/
def isColl : Val → Bool
  | .list _ _ | .vec _ _ | .map _ | .set _ | .nil => true
  | _ => false

theorem count_wrong_kind (v : Val) (h : isColl v = false) : callErr "count" [v] := by
  cases v <;> first | exact callErr_of rfl rfl | cases h
theorem empty?_wrong_kind (v : Val) (h : isColl v = false) : callErr "empty?" [v] := by
  cases v <;> first | exact callErr_of rfl rfl | cases h
theorem first_wrong_kind (v : Val) (h : seqOf? v = none) (hn : v ≠ .nil) : callErr "first" [v] := by
  cases v <;> first | exact callErr_of rfl rfl | exact absurd rfl hn | cases h
theorem rest_wrong_kind (v : Val) (h : seqOf? v = none) (hn : v ≠ .nil) : callErr "rest" [v] := by
  cases v <;> first | exact callErr_of rfl rfl | exact absurd rfl hn | cases h
theorem cons_wrong_kind (x v : Val) (h : seqOf? v = none) : callErr "cons" [x, v] := by
  cases v <;> first | exact callErr_of rfl rfl | cases h
theorem nth_wrong_kind (v : Val) (i : Int) (h : seqOf? v = none) : callErr "nth" [v, .int i] := by
  cases v <;> first | exact callErr_of rfl rfl | cases h
theorem nth_index_not_int (v k : Val) (h : ∀ i, k ≠ .int i) : callErr "nth" [v, k] := by
  cases k <;> first | exact callErr_of rfl rfl | exact absurd rfl (h _)
theorem take_wrong_kind (v : Val) (n : Int) (h : seqOf? v = none) (hn : v ≠ .nil) :
    callErr "take" [.int n, v] ∧ callErr "drop" [.int n, v] ∧
    callErr "take-last" [.int n, v] ∧ callErr "drop-last" [.int n, v] := by
  cases v <;> first | exact absurd rfl hn |
    exact ⟨callErr_of rfl rfl, callErr_of rfl rfl, callErr_of rfl rfl, callErr_of rfl rfl⟩ | cases h
theorem take_count_not_int (n v : Val) (h : ∀ i, n ≠ .int i) :
    callErr "take" [n, v] ∧ callErr "drop" [n, v] ∧ callErr "take-last" [n, v] ∧ callErr "drop-last" [n, v] := by
  cases n <;> first | exact absurd rfl (h _) |
    exact ⟨callErr_of rfl rfl, callErr_of rfl rfl, callErr_of rfl rfl, callErr_of rfl rfl⟩
theorem conj_wrong_kind (v x : Val) (h : isColl v = false ∨ v = .nil) : callErr "conj" [v, x] := by
  cases v <;> first | exact callErr_of rfl rfl | (rcases h with h | h <;> cases h)
theorem keys_wrong_kind (v : Val) (h : ∀ m, v ≠ .map m) : callErr "keys" [v] ∧ callErr "vals" [v] := by
  cases v <;> first | exact ⟨callErr_of rfl rfl, callErr_of rfl rfl⟩ | exact absurd rfl (h _)
theorem seq_wrong_kind (v : Val) (h : isColl v = false ∨ (∃ m, v = .map m)) (hs : ∀ s, v ≠ .str s) :
    callErr "seq" [v] := by
  cases v <;> first | exact callErr_of rfl rfl | exact absurd rfl (hs _) |
    (rcases h with h | ⟨_, h⟩ <;> cases h)
theorem vec_wrong_kind (v : Val) (h : seqOf? v = none) (hs : ∀ s, v ≠ .set s) : callErr "vec" [v] := by
  cases v <;> first | exact callErr_of rfl rfl | exact absurd rfl (hs _) | cases h
theorem range_not_int (a b : Val) (h : (∀ i, a ≠ .int i) ∨ (∀ i, b ≠ .int i)) : callErr "range" [a, b] := by
  rcases h with h | h
  · cases a <;> first | exact callErr_of rfl rfl | exact absurd rfl (h _)
  · cases b <;> first | exact absurd rfl (h _) | (cases a <;> exact callErr_of rfl rfl)
theorem contains_key_not_string (v k : Val) (h : ∀ s, k ≠ .str s) : callErr "contains?" [v, k] := by
  cases k <;> first | exact callErr_of rfl rfl | exact absurd rfl (h _)
theorem contains_wrong_kind (v : Val) (k : String) (h : isColl v = false ∨ seqOf? v ≠ none) :
    callErr "contains?" [v, .str k] := by
  cases v <;> first | exact callErr_of rfl rfl | (rcases h with h | h <;> first | cases h | exact absurd rfl h)
theorem merge_wrong_kind (x y : Val) (h : (x ≠ .nil ∧ ∀ m, x ≠ .map m) ∨ (y ≠ .nil ∧ ∀ m, y ≠ .map m)) :
    callErr "merge" [x, y] := by
  rcases h with ⟨h1, h2⟩ | ⟨h1, h2⟩
  · cases x <;> first | exact absurd rfl h1 | exact absurd rfl (h2 _) | (cases y <;> exact callErr_of rfl rfl)
  · cases y <;> first | exact absurd rfl h1 | exact absurd rfl (h2 _) | (cases x <;> exact callErr_of rfl rfl)

theorem get_eq (h k : Val) : Core.call "get" [h, k] = some (Core.get h k) := rfl

theorem get_seq_index {s xs} (h : Seq s xs) (n : Nat) (hn : n < xs.length) :
    callOk "get" [s, .int n] xs[n] := by
  have c : (0 : Int) ≤ n ∧ (n : Int).toNat < xs.length := ⟨by omega, by simpa using hn⟩
  rcases Seq_cases h with ⟨p, rfl⟩ | ⟨p, rfl⟩ <;>
    (rw [callOk, get_eq]; simp only [Core.get, if_pos c]; simp [hn])

/-- `(get [1 2] 5)`: an index outside the sequence is an error, not nil -/
theorem get_seq_out_of_range {s xs} (h : Seq s xs) (i : Int) (hi : i < 0 ∨ (xs.length : Int) ≤ i) :
    callErr "get" [s, .int i] := by
  have c : ¬ ((0 : Int) ≤ i ∧ i.toNat < xs.length) := by omega
  rcases Seq_cases h with ⟨p, rfl⟩ | ⟨p, rfl⟩ <;>
    (refine callErr_of (get_eq _ _) ?_; simp only [Core.get, if_neg c]; rfl)

theorem get_seq_string_key {s xs} (h : Seq s xs) (k : String) : callErr "get" [s, .str k] := by
  rcases Seq_cases h with ⟨p, rfl⟩ | ⟨p, rfl⟩ <;> exact callErr_of rfl rfl
theorem get_map_int_key (m) (i : Int) : callErr "get" [.map m, .int i] := callErr_of rfl rfl
theorem get_set_member (s : List String) (k : String) :
    callOk "get" [.set s, .str k] (if s.contains k then .str k else .nil) := by
  rw [callOk, get_eq]; simp only [Core.get]; split <;> rfl
theorem get_bad_key (h k : Val) (hn : h ≠ .nil) (hk : (∀ s, k ≠ .str s) ∧ ∀ i, k ≠ .int i) :
    callErr "get" [h, k] := by
  refine callErr_of (get_eq h k) ?_
  cases h <;> first | exact absurd rfl hn |
    (cases k <;> first | rfl | exact absurd rfl (hk.1 _) | exact absurd rfl (hk.2 _))
theorem get_scalar (h k : Val) (hc : isColl h = false) : callErr "get" [h, k] := by
  refine callErr_of (get_eq h k) ?_
  cases h <;> first | (cases k <;> rfl) | cases hc

/-- `(assoc v i x)` on a vector replaces position `i` and returns a VECTOR -/
theorem assoc_vector (xs p) (n : Nat) (x : Val) (hn : n < xs.length) :
    callOk "assoc" [.vec xs p, .int n, x] (.vec (xs.set n x) none) := by
  have c : (0 : Int) ≤ n ∧ (n : Int).toNat < xs.length := ⟨by omega, by simpa using hn⟩
  rw [callOk, call_var rfl _ (by simp), body_assoc]
  simp [Core.assoc, assocVec, hn]
theorem assoc_vector_out_of_range (xs p) (i : Int) (x : Val) (hi : i < 0 ∨ (xs.length : Int) ≤ i) :
    callErr "assoc" [.vec xs p, .int i, x] := by
  have c : ¬ ((0 : Int) ≤ i ∧ i.toNat < xs.length) := by omega
  refine callErr_of (call_var rfl _ (by simp)) ?_
  rw [body_assoc]; simp [Core.assoc, assocVec, c, isErr]
theorem assoc_wrong_kind (v k x : Val) (h : isColl v = false ∨ v = .nil ∨ ∃ xs p, v = .list xs p) :
    callErr "assoc" [v, k, x] := by
  refine callErr_of (call_var rfl _ (by simp)) ?_
  rw [body_assoc]
  cases v <;> first | rfl | (rcases h with h | h | ⟨_, _, h⟩ <;> cases h)
theorem assoc_map_non_string_key (m) (k x : Val) (hk : ∀ s, k ≠ .str s) :
    callErr "assoc" [.map m, k, x] := by
  refine callErr_of (call_var rfl _ (by simp)) ?_
  rw [body_assoc]
  cases k <;> first | exact absurd rfl (hk _) | simp [Core.assoc, assocMap, isErr]
theorem assoc_map_missing_value (m) (k : Val) : callErr "assoc" [.map m, k] := by
  refine callErr_of (call_var rfl _ (by simp)) ?_
  rw [body_assoc]; simp [Core.assoc, isErr]
theorem dissoc_wrong_kind (v k : Val) (h : ∀ m, v ≠ .map m) (hs : ∀ s, v ≠ .set s) :
    callErr "dissoc" [v, k] := by
  refine callErr_of (call_var rfl _ (by simp)) ?_
  rw [body_dissoc]
  cases v <;> first | exact absurd rfl (h _) | exact absurd rfl (hs _) | simp [Core.dissoc, isErr]
theorem dissoc_non_string_key (m) (k : Val) (hk : ∀ s, k ≠ .str s) : callErr "dissoc" [.map m, k] := by
  refine callErr_of (call_var rfl _ (by simp)) ?_
  rw [body_dissoc]
  cases k <;> first | exact absurd rfl (hk _) | simp [Core.dissoc, isStr, isErr]

/-! ### the collection builtins that call back into the evaluator: map, apply, update, update-in -/

theorem map_eq (fuel : Nat) (st : State) (f s : Val) (d : Nat) :
    callBuiltin (fuel + 1) st "map" [f, s] d =
      (match seqOf? s with
          | none => (.err (.lisp (.goerr "GetSlice called on non-sequence") none), st)
          | some xs =>
            match mapLoop fuel st f xs d with
            | (.ok vs, st) => (.ok (.list vs none), st)
            | (.err e, st) => (.err e, st)
            | (.oof, st) => (.oof, st)) := by
  unfold callBuiltin
  simp only [String.reduceEq, if_false, if_true]
  cases seqOf? s with
  | none => rfl
  | some xs => simp only []; rcases mapLoop fuel st f xs d with ⟨_ | _ | _, _⟩ <;> rfl

theorem apply_builtin (fuel : Nat) (st : State) (g : String) (args : List Val) (d : Nat) :
    apply (fuel + 1) st (.builtin g) args d = callBuiltin fuel st g args d := by
  unfold apply; rfl

/-- names the evaluator's `callBuiltin` handles itself -/
def evalNames : List String :=
  ["trace!", "depth!", "eval", "apply", "map", "atom", "deref", "reset!", "swap!", "update", "update-in"]

theorem callBuiltin_pure (fuel : Nat) (st : State) (g : String) (args : List Val) (d : Nat) (v : Val)
    (hg : g ∉ evalNames) (h : Core.call g args = some (.ok v)) :
    callBuiltin (fuel + 1) st g args d = (.ok v, st) := by
  simp only [evalNames, List.mem_cons, List.not_mem_nil, or_false, not_or] at hg
  unfold callBuiltin
  simp only [hg, if_false, h]

theorem mapLoop_length (fuel : Nat) (st : State) (f : Val) (xs : List Val) (d : Nat) {vs st'}
    (h : mapLoop fuel st f xs d = (.ok vs, st')) : vs.length = xs.length := by
  induction xs generalizing fuel st vs st' with
  | nil =>
    cases fuel with
    | zero => unfold mapLoop at h; cases h
    | succ n => unfold mapLoop at h; cases h; rfl
  | cons x xs ih =>
    cases fuel with
    | zero => unfold mapLoop at h; cases h
    | succ n =>
      unfold mapLoop at h
      rcases ha : apply n st f [x] d with ⟨_ | _ | _, st1⟩ <;> rw [ha] at h <;> simp only [] at h
      · rcases hm : mapLoop n st1 f xs d with ⟨_ | _ | _, st2⟩ <;> rw [hm] at h <;> simp only [] at h
        · cases h; simp [ih _ _ hm]
        · cases h
        · cases h
      · cases h
      · cases h

/-- `map` returns a LIST with one element per element of its (list or vector) argument -/
theorem map_kind (fuel : Nat) (st : State) (f s : Val) (d : Nat) {v st'}
    (h : callBuiltin fuel st "map" [f, s] d = (.ok v, st')) :
    ∃ xs vs, Seq s xs ∧ v = .list vs none ∧ vs.length = xs.length := by
  cases fuel with
  | zero => unfold callBuiltin at h; cases h
  | succ n =>
    rw [map_eq] at h
    cases hs : seqOf? s with
    | none => rw [hs] at h; cases h
    | some xs =>
      rw [hs] at h; simp only [] at h
      rcases hm : mapLoop n st f xs d with ⟨_ | _ | _, st2⟩ <;> rw [hm] at h <;> simp only [] at h
      · cases h; exact ⟨xs, _, hs, rfl, mapLoop_length _ _ _ _ _ hm⟩
      · cases h
      · cases h

theorem mapLoop_pure (g : String) (φ : Val → Val) (hg : g ∉ evalNames) (st : State) (d : Nat)
    (xs : List Val) (hx : ∀ x ∈ xs, Core.call g [x] = some (.ok (φ x))) (fuel : Nat)
    (hf : xs.length + 2 ≤ fuel) : mapLoop fuel st (.builtin g) xs d = (.ok (xs.map φ), st) := by
  induction xs generalizing fuel with
  | nil =>
    obtain ⟨n, rfl⟩ : ∃ n, fuel = n + 1 := ⟨fuel - 1, by simp at hf; omega⟩
    unfold mapLoop; rfl
  | cons x xs ih =>
    obtain ⟨n, rfl⟩ : ∃ n, fuel = n + 3 := ⟨fuel - 3, by simp at hf; omega⟩
    unfold mapLoop
    rw [apply_builtin, callBuiltin_pure _ _ _ _ _ _ hg (hx x (by simp))]
    simp only []
    rw [ih (fun y hy => hx y (by simp [hy])) (n + 2) (by simp at hf ⊢; omega)]
    rfl

/-- `(map g s)` for a pure builtin `g`: the LIST of `(g x)` for the elements `x` of `s` in order;
    the evaluator state is untouched -/
theorem map_pure_builtin (g : String) (φ : Val → Val) (hg : g ∉ evalNames) (st : State) (d : Nat)
    {s xs} (hs : Seq s xs) (hx : ∀ x ∈ xs, Core.call g [x] = some (.ok (φ x))) (fuel : Nat)
    (hf : xs.length + 3 ≤ fuel) :
    callBuiltin fuel st "map" [.builtin g, s] d = (.ok (.list (xs.map φ) none), st) := by
  obtain ⟨n, rfl⟩ : ∃ n, fuel = n + 1 := ⟨fuel - 1, by omega⟩
  rw [map_eq, hs]; simp only []
  rw [mapLoop_pure g φ hg st d xs hx n (by omega)]

theorem map_non_seq_error (fuel : Nat) (st : State) (f s : Val) (d : Nat) (hs : seqOf? s = none) :
    ∃ e, callBuiltin (fuel + 1) st "map" [f, s] d = (.err e, st) := by
  rw [map_eq, hs]; exact ⟨_, rfl⟩

/-- `(apply f a … s)` calls `f` on `a …` followed by the elements of the last argument -/
theorem apply_spreads_last (fuel : Nat) (st : State) (f : Val) (pre : List Val) {last tail} (d : Nat)
    (hl : Seq last tail) :
    callBuiltin (fuel + 1) st "apply" (f :: (pre ++ [last])) d = apply fuel st f (pre ++ tail) d := by
  unfold callBuiltin
  simp only [String.reduceEq, if_false, if_true, List.getLast?_append, List.getLast?_singleton,
    Option.some_or, hl, List.dropLast_concat]

theorem apply_last_not_seq_error (fuel : Nat) (st : State) (f : Val) (pre : List Val) {last} (d : Nat)
    (hl : seqOf? last = none) :
    ∃ e, callBuiltin (fuel + 1) st "apply" (f :: (pre ++ [last])) d = (.err e, st) := by
  unfold callBuiltin
  simp only [String.reduceEq, if_false, if_true, List.getLast?_append, List.getLast?_singleton,
    Option.some_or, hl]
  exact ⟨_, rfl⟩

theorem update_eq (fuel : Nat) (st : State) (v i f : Val) (d : Nat) (hv : v ≠ .nil) :
    callBuiltin (fuel + 1) st "update" [v, i, f] d = update1 fuel st v i f d := by
  unfold callBuiltin
  simp only [String.reduceEq, if_false, if_true]

theorem update_nil (fuel : Nat) (st : State) (i f : Val) (d : Nat) :
    callBuiltin (fuel + 1) st "update" [.nil, i, f] d = (.ok .nil, st) := by
  unfold callBuiltin
  simp only [String.reduceEq, if_false, if_true]

/-- `(update m k f)` = `(assoc m k (f (get m k)))`, whatever `f` does to the state -/
theorem update_map (fuel : Nat) (st : State) (m : List (String × Val)) (k : String) (f : Val) (d : Nat) :
    callBuiltin (fuel + 2) st "update" [.map m, .str k, f] d =
      (match apply fuel st f [(alookup k m).getD .nil] d with
       | (.ok res, st') => (.ok (.map (ainsert k res m)), st')
       | r => r) := by
  rw [update_eq _ _ _ _ _ _ (by simp)]
  unfold update1
  simp only []
  rcases apply fuel st f [(alookup k m).getD .nil] d with ⟨_ | _ | _, st1⟩ <;> simp only [assoc3_map]

theorem update_wrong_kind (fuel : Nat) (st : State) (v i f : Val) (d : Nat)
    (hv : v ≠ .nil) (hm : ∀ m, v ≠ .map m) (hx : ∀ xs p, v ≠ .vec xs p) :
    ∃ e, callBuiltin (fuel + 2) st "update" [v, i, f] d = (.err e, st) := by
  rw [update_eq _ _ _ _ _ _ hv]
  unfold update1
  cases v <;> first | exact absurd rfl hv | exact absurd rfl (hm _) | exact absurd rfl (hx _ _) | exact ⟨_, rfl⟩

theorem update_in_eq (fuel : Nat) (st : State) (v : Val) (path p) (f : Val) (d : Nat) (hv : v ≠ .nil) :
    callBuiltin (fuel + 1) st "update-in" [v, .vec path p, f] d = updateIn fuel st v path f d := by
  unfold callBuiltin
  simp only [String.reduceEq, if_false, if_true]

theorem update_in_nil (fuel : Nat) (st : State) (path p) (f : Val) (d : Nat) :
    callBuiltin (fuel + 1) st "update-in" [.nil, .vec path p, f] d = (.ok .nil, st) := by
  unfold callBuiltin
  simp only [String.reduceEq, if_false, if_true]

theorem update_in_empty_path (fuel : Nat) (st : State) (v : Val) (p) (f : Val) (d : Nat) (hv : v ≠ .nil) :
    callBuiltin (fuel + 2) st "update-in" [v, .vec [] p, f] d = (.ok v, st) := by
  rw [update_in_eq _ _ _ _ _ _ _ hv]; unfold updateIn; rfl

/-- a one-key path: `(update-in v [i] f) = (update v i f)` -/
theorem update_in_one_key (fuel : Nat) (st : State) (v i : Val) (p) (f : Val) (d : Nat) (hv : v ≠ .nil) :
    callBuiltin (fuel + 2) st "update-in" [v, .vec [i] p, f] d =
      callBuiltin (fuel + 1) st "update" [v, i, f] d := by
  rw [update_in_eq _ _ _ _ _ _ _ hv, update_eq _ _ _ _ _ _ hv]; unfold updateIn; rfl

/-- a longer path on a map whose entry at the first key is a map (or nil/missing: then an empty map):
    update the inner map along the rest of the path and `assoc` it back -/
theorem update_in_step (fuel : Nat) (st : State) (m mb : List (String × Val)) (k : String) (i2 : Val)
    (rest : List Val) (p) (f : Val) (d : Nat)
    (hb : (alookup k m).getD .nil = .map mb ∨ ((alookup k m).getD .nil = .nil ∧ mb = [])) :
    callBuiltin (fuel + 2) st "update-in" [.map m, .vec (.str k :: i2 :: rest) p, f] d =
      (match updateIn fuel st (.map mb) (i2 :: rest) f d with
       | (.ok inner, st') => (.ok (.map (ainsert k inner m)), st')
       | r => r) := by
  rw [update_in_eq _ _ _ _ _ _ _ (by simp)]
  conv => lhs; unfold updateIn
  rcases hb with hb | ⟨hb, rfl⟩ <;> simp only [hb, Bool.not_true, Bool.false_eq_true, if_false] <;>
    (rcases updateIn fuel st _ (i2 :: rest) f d with ⟨_ | _ | _, st1⟩ <;> simp only [assoc3_map])

/-- deviation: a vector stored inside a map (or a map inside a vector) cannot be traversed by `update-in` -/
theorem update_in_mixed_kinds_error (fuel : Nat) (st : State) (m : List (String × Val)) (k : String)
    (xs q) (i2 : Val) (rest : List Val) (p) (f : Val) (d : Nat)
    (hb : (alookup k m).getD .nil = .vec xs q) :
    ∃ e, callBuiltin (fuel + 2) st "update-in" [.map m, .vec (.str k :: i2 :: rest) p, f] d = (.err e, st) := by
  rw [update_in_eq _ _ _ _ _ _ _ (by simp)]
  conv => enter [1, e, 1]; unfold updateIn
  simp only [hb, Bool.not_false, if_true]
  exact ⟨_, rfl⟩

/-! ### leftovers -/

theorem conj_map (m kvs) (hne : kvs ≠ []) (hl : 2 * kvs.length < 1000) :
    callOk "conj" (.map m :: flatKV kvs) (.map (insertAll m kvs)) := by
  have hlen := flatKV_length kvs
  have hpos : 0 < kvs.length := List.length_pos_iff.2 hne
  have h1 : flatKV kvs ≠ [] := by intro e; rw [e] at hlen; simp at hlen; omega
  rw [callOk, call_conj _ _ h1 (by omega)]
  have : Core.body "conj" (.map m :: flatKV kvs) =
      (if (flatKV kvs).length % 2 ≠ 0 then .goerr "conj called with on a hash map requires an odd number of arguments"
       else conjMap (flatKV kvs) m) := rfl
  have b : ¬ ((flatKV kvs).length % 2 ≠ 0) := by omega
  rw [this, if_neg b, conjMap_flat]

theorem conj_map_nodup (m : List (String × Val)) (xs : List Val) (h : (akeys m).Nodup) {r}
    (e : callOk "conj" (.map m :: xs) r) : ∃ m', r = .map m' ∧ (akeys m').Nodup := by
  have e' := body_of_callOk e
  have : Core.body "conj" (.map m :: xs) =
      (if xs.length % 2 ≠ 0 then .goerr "conj called with on a hash map requires an odd number of arguments"
       else conjMap xs m) := rfl
  rw [this] at e'
  split at e'
  · cases e'
  · exact conjMap_nodup _ _ h e'

theorem take_nonpositive {s xs} (h : Seq s xs) (n : Int) (hn : n ≤ 0) :
    callOk "take" [.int n, s] (.list [] none) ∧ callOk "drop" [.int n, s] (.list xs none) := by
  have e : n.toNat = 0 := by omega
  have h1 := take_seq h n
  have h2 := drop_seq h n
  rw [e] at h1 h2
  exact ⟨by simpa using h1, by simpa using h2⟩

theorem take_drop_append {s xs} (h : Seq s xs) (n : Int) :
    ∃ a b, callOk "take" [.int n, s] (.list a none) ∧ callOk "drop" [.int n, s] (.list b none) ∧ a ++ b = xs :=
  ⟨_, _, take_seq h n, drop_seq h n, List.take_append_drop _ _⟩

theorem take_last_drop_last {s xs} (h : Seq s xs) (n : Int) :
    ∃ a b, callOk "drop-last" [.int n, s] (.list a none) ∧
      callOk "take-last" [.int n, s] (if b.isEmpty then .nil else .list b none) ∧ a ++ b = xs :=
  ⟨_, _, drop_last_seq h n, take_last_seq h n, List.take_append_drop _ _⟩

theorem take_length {s xs} (h : Seq s xs) (n : Nat) (hn : n ≤ xs.length) :
    ∃ a, callOk "take" [.int n, s] (.list a none) ∧ a.length = n :=
  ⟨_, take_seq h n, by simp; omega⟩

theorem take_last_length {s xs} (h : Seq s xs) (n : Nat) (h0 : 0 < n) (hn : n ≤ xs.length) :
    ∃ b, callOk "take-last" [.int n, s] (.list b none) ∧ b.length = n := by
  refine ⟨xs.drop (xs.length - n), ?_, by simp; omega⟩
  have := take_last_seq h n
  have e : ((n : Int)).toNat = n := by omega
  rw [e] at this
  have ne : (xs.drop (xs.length - n)).isEmpty = false := by
    rw [Bool.eq_false_iff]; intro he
    have := List.isEmpty_iff.1 he
    have hl : (xs.drop (xs.length - n)).length = n := by simp; omega
    rw [this] at hl; simp at hl; omega
  rw [ne] at this; simpa using this

theorem empty_iff_count_zero (v : Val) (b : Bool) (h : callOk "empty?" [v] (.bool b)) :
    ∃ n : Nat, callOk "count" [v] (.int n) ∧ (b = true ↔ n = 0) := by
  cases v with
  | nil => cases h; exact ⟨0, rfl, by simp⟩
  | list xs p => cases h; exact ⟨xs.length, rfl, by simp [List.isEmpty_iff]⟩
  | vec xs p => cases h; exact ⟨xs.length, rfl, by simp [List.isEmpty_iff]⟩
  | map m => cases h; exact ⟨m.length, rfl, by simp [List.isEmpty_iff]⟩
  | set s => cases h; exact ⟨s.length, rfl, by simp [List.isEmpty_iff]⟩
  | _ => cases h

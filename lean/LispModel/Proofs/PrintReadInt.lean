/-
  C06, scanner level: the printed form of an integer (`Print.intStr`: an optional `-`, then decimal
  digits without a leading zero) followed by a delimiter or the end of the input is one Int token.
  Core Lean only.
-/
import LispModel.Proofs.PrintReadAtoms
namespace LispModel.Proofs.PrintRead
open LispModel LispModel.Scan

/-- the look-ahead at which every scanner loop stops: EOF or a delimiter -/
def StopCh (c : Int) : Prop := c = EOF ∨ c = 32 ∨ c = 41 ∨ c = 93 ∨ c = 125

/-- what may follow a printed atom: nothing, or a delimiter and anything -/
def StopTail (tail : List Rune) : Prop := tail = [] ∨ ∃ d S, tail = d :: S ∧ IsDelim d

theorem next_stop {tail : List Rune} (h : StopTail tail) (q : PState) :
    StopCh (next tail q).1 ∧ (next tail q).2.2.errs = q.errs := by
  rcases h with rfl | ⟨d, S, rfl, hd⟩
  · exact ⟨Or.inl rfl, rfl⟩
  · obtain ⟨q', hq', he⟩ := next_delim hd S q
    rw [hq']
    exact ⟨Or.inr (delim_cases hd), he⟩

theorem stop_not_dig {c : Int} (h : StopCh c) (base : Nat) : digTest base c = false := by
  unfold digTest
  rcases h with h | h | h | h | h <;> subst h <;> split <;> decide

theorem digitsLoop_end {tail : List Rune} (ht : StopTail tail) (base : Nat) (c : Int) (p : PState)
    (ds : Nat) (inv : Int) (h : digTest base c = true) :
    digitsLoop base tail c p ds inv =
      (next tail p, ds ||| (if c = 95 then 2 else 1),
        (if base ≤ 10 ∧ c ≠ 95 ∧ c ≥ 48 + base ∧ inv = 0 then c else inv)) := by
  rcases ht with rfl | ⟨d, S, rfl, hd⟩
  · exact digitsLoop_last _ _ _ _ _ h
  · rw [digitsLoop_step _ _ _ _ _ _ _ h]
    obtain ⟨q', hq', _⟩ := next_delim hd S p
    rw [hq']
    simp only []
    rw [digitsLoop_stop _ _ _ _ _ _ (delim_not_dig hd base)]

/-- a decimal digit, as a code point -/
def DigitNat (n : Nat) : Prop := 48 ≤ n ∧ n ≤ 57

theorem digit_digTest {n : Nat} (h : DigitNat n) : digTest 10 (n : Int) = true := by
  obtain ⟨h1, h2⟩ := h
  simp [digTest, isDecimal]; omega

theorem digit_isDecimal {n : Nat} (h : DigitNat n) : isDecimal (n : Int) = true := by
  obtain ⟨h1, h2⟩ := h
  simp [isDecimal]; omega

theorem digit_not_ident {n : Nat} (h : DigitNat n) : isIdentRune (n : Int) 0 = false := by
  obtain ⟨h1, h2⟩ := h
  have : n < 128 := by omega
  simp [isIdentRune, isLetter, isDigit, this]
  omega

theorem digitsLoop_digits {tail : List Rune} (ht : StopTail tail) :
    ∀ (ds : List Char), (∀ x ∈ ds, DigitNat x.toNat) → ∀ (n : Nat), DigitNat n → ∀ (p : PState) (dsep : Nat),
      ∃ q, digitsLoop 10 (runesOf ds ++ tail) (n : Int) p dsep 0 = (next tail q, dsep ||| 1, 0) ∧
        q.errs = p.errs := by
  intro ds
  induction ds with
  | nil =>
    intro _ n hn p dsep
    refine ⟨p, ?_, rfl⟩
    rw [runesOf, List.map_nil, List.nil_append, digitsLoop_end ht _ _ _ _ _ (digit_digTest hn)]
    have h95 : ¬ (n : Int) = 95 := by obtain ⟨h1, h2⟩ := hn; omega
    have hge : ¬ ((10 : Nat) ≤ 10 ∧ (n : Int) ≠ 95 ∧ (n : Int) ≥ 48 + ((10 : Nat) : Int) ∧ (0 : Int) = 0) := by
      obtain ⟨h1, h2⟩ := hn; omega
    rw [if_neg h95, if_neg hge]
  | cons x xs ih =>
    intro hall n hn p dsep
    have hx : DigitNat x.toNat := hall x (List.mem_cons_self ..)
    obtain ⟨q1, hq1, he1⟩ := ScanString.next_good x.toNat x.utf8Size (runesOf xs ++ tail) p
      (by obtain ⟨h1, h2⟩ := hx; omega) (by obtain ⟨h1, h2⟩ := hx; omega)
    rw [runesOf_cons, List.cons_append, digitsLoop_step _ _ _ _ _ _ _ (digit_digTest hn)]
    have hq1' : next (runeOf x :: (runesOf xs ++ tail)) p = ((x.toNat : Int), runesOf xs ++ tail, q1) := hq1
    have h95 : ¬ (n : Int) = 95 := by obtain ⟨h1, h2⟩ := hn; omega
    have hge : ¬ ((10 : Nat) ≤ 10 ∧ (n : Int) ≠ 95 ∧ (n : Int) ≥ 48 + ((10 : Nat) : Int) ∧ (0 : Int) = 0) := by
      obtain ⟨h1, h2⟩ := hn; omega
    rw [if_neg h95, if_neg hge, hq1']
    simp only []
    obtain ⟨q, hq, he⟩ := ih (fun y hy => hall y (List.mem_cons_of_mem _ hy)) x.toNat hx q1 (dsep ||| 1)
    refine ⟨q, ?_, he.trans he1⟩
    rw [hq, Nat.or_assoc, Nat.or_self]

theorem stop_lower {c : Int} (h : StopCh c) :
    lower c ≠ 120 ∧ lower c ≠ 111 ∧ lower c ≠ 98 ∧ lower c ≠ 101 ∧ lower c ≠ 112 ∧ c ≠ 46 := by
  rcases h with h | h | h | h | h <;> subst h <;> decide

/-- the integer part of a decimal literal -/
theorem numA_int {tail : List Rune} (ht : StopTail tail) (n : Nat) (hn : DigitNat n) (ds : List Char)
    (hds : ∀ x ∈ ds, DigitNat x.toNat) (hlead : n = 48 → ds = []) (p : PState) :
    ∃ base prefx q, numA (runesOf ds ++ tail) (n : Int) p false =
        (.int, base, prefx, 1, (next tail q).1, (next tail q).2.1, (next tail q).2.2, false, 0) ∧
      prefx ≠ 120 ∧ q.errs = p.errs := by
  rw [numA_eq_false]
  by_cases h48 : n = 48
  · have hd := hlead h48
    subst hd
    subst h48
    obtain ⟨hs, _⟩ := next_stop ht p
    obtain ⟨l1, l2, l3, _, _, l46⟩ := stop_lower hs
    refine ⟨8, 48, p, ?_, by decide, rfl⟩
    have e : numPre (runesOf [] ++ tail) ((48 : Nat) : Int) p = (8, 48, 1, next tail p) := by
      simp only [numPre, runesOf, List.map_nil, List.nil_append]
      rw [if_pos (by decide : ((48 : Nat) : Int) = 48)]
      simp only [if_neg l1, if_neg l2, if_neg l3]
    rw [e]
    simp only []
    rw [digitsLoop_stop _ _ _ _ _ _ (stop_not_dig hs 8)]
    simp only [l46, decide_false, Bool.false_eq_true, if_false]
    rfl
  · have h1 : ¬ (n : Int) = 48 := by omega
    have h2 : ¬ (n : Int) = 45 := by obtain ⟨a, b⟩ := hn; omega
    rw [numPre_other _ _ _ h1 h2]
    simp only []
    obtain ⟨q, hq, he⟩ := digitsLoop_digits ht ds hds n hn p 0
    rw [hq]
    obtain ⟨hs, _⟩ := next_stop ht q
    obtain ⟨_, _, _, _, _, l46⟩ := stop_lower hs
    refine ⟨10, 0, q, ?_, by decide, he⟩
    simp only [l46, decide_false, Bool.false_eq_true, if_false]
    rfl

/-- a decimal literal without a leading zero, then a delimiter or EOF, is an Int -/
theorem scanNumber_int (pre : List Int) {tail : List Rune} (ht : StopTail tail) (n : Nat) (hn : DigitNat n)
    (ds : List Char) (hds : ∀ x ∈ ds, DigitNat x.toNat) (hlead : n = 48 → ds = []) (p : PState) (neg : Bool) :
    ∃ q, scanNumber pre (runesOf ds ++ tail) (n : Int) p false neg = (.int, next tail q) ∧ q.errs = p.errs := by
  obtain ⟨base, prefx, q, hA, hp, he⟩ := numA_int ht n hn ds hds hlead p
  refine ⟨q, ?_, he⟩
  rw [scanNumber_eq, hA]
  obtain ⟨hs, _⟩ := next_stop ht q
  obtain ⟨_, _, _, l101, l112, _⟩ := stop_lower hs
  generalize next tail q = s at hs l101 l112
  obtain ⟨sc, sr, sq⟩ := s
  simp only [] at l101 l112
  have hx : (lower sc = 101 || lower sc = 112) = false := by simp [l101, l112]
  simp only [numB, Bool.false_eq_true, if_false]
  have h1 : ¬ (1 % 2 = 0) := by decide
  simp only [if_neg h1]
  rw [numC_noexp _ _ _ _ _ _ hx]
  simp [numD, hp]

/-! ### `natDigits` -/

theorem dig_toNat : ∀ k, k < 10 → (Char.ofNat (48 + k)).toNat = 48 + k := by decide

theorem natDigits_spec : ∀ (f n : Nat), n < f → ∃ c r, Print.natDigits f n = c :: r ∧ DigitNat c.toNat ∧
    (∀ x ∈ r, DigitNat x.toNat) ∧ (c.toNat = 48 → r = [] ∧ n = 0) := by
  intro f
  induction f with
  | zero => intro n h; omega
  | succ f ih =>
    intro n hlt
    unfold Print.natDigits
    by_cases h10 : n < 10
    · rw [if_pos h10]
      have e := dig_toNat n h10
      refine ⟨_, [], rfl, ?_, by simp, ?_⟩
      · rw [e]; exact ⟨by omega, by omega⟩
      · rw [e]; intro h; exact ⟨rfl, by omega⟩
    · rw [if_neg h10]
      obtain ⟨c, r, hcr, hc, hr, h0⟩ := ih (n / 10) (by omega)
      have e := dig_toNat (n % 10) (by omega)
      refine ⟨c, r ++ [Char.ofNat (48 + n % 10)], by rw [hcr]; rfl, hc, ?_, ?_⟩
      · intro x hx
        rcases List.mem_append.mp hx with hx | hx
        · exact hr x hx
        · simp only [List.mem_singleton] at hx
          rw [hx, e]; exact ⟨by omega, by omega⟩
      · intro h
        obtain ⟨_, hz⟩ := h0 h
        omega

theorem runesOf_map_ch (cs : List Char) : (runesOf cs).map (·.ch) = cs.map Char.toNat := by
  simp [runesOf, runeOf]

/-- the printed form of an integer, then a delimiter or the end of the input: one Int token -/
theorem scan_int (i : Int) {tail : List Rune} (ht : StopTail tail) (p : PState) (hp : p.errs = 0) :
    ∃ q, (∀ F : Nat, scan (F + 1) (next (runesOf (Print.intStr i) ++ tail) p).2.1
        (next (runesOf (Print.intStr i) ++ tail) p).1 (next (runesOf (Print.intStr i) ++ tail) p).2.2 =
          (some (.int, (Print.intStr i).map Char.toNat), next tail q)) ∧ q.errs = 0 := by
  cases i with
  | ofNat n =>
    obtain ⟨c, r, hcr, hc, hr, h0⟩ := natDigits_spec (n + 1) n (by omega)
    simp only [Print.intStr, hcr]
    obtain ⟨p1, hp1, he1⟩ := ScanString.next_good c.toNat c.utf8Size (runesOf r ++ tail) p
      (by obtain ⟨a, b⟩ := hc; omega) (by obtain ⟨a, b⟩ := hc; omega)
    have hp1' : next (runesOf (c :: r) ++ tail) p = ((c.toNat : Int), runesOf r ++ tail, p1) := hp1
    rw [hp1']
    simp only []
    obtain ⟨q, hq, he⟩ := scanNumber_int [] ht c.toNat hc r hr (fun h => (h0 h).1) p1 false
    refine ⟨q, fun F => ?_, by rw [he, he1, hp]⟩
    have ht' : scanTok (c.toNat : Int) (runesOf r ++ tail) p1 = some (.int, next tail q) := by
      simp only [scanTok, digit_not_ident hc, digit_isDecimal hc, if_true, if_false, Bool.false_eq_true, hq]
    have hw : isWhite (c.toNat : Int) = false := by
      obtain ⟨a, b⟩ := hc; simp [isWhite]; omega
    rw [scan_of_scanTok F _ _ _ _ _ hw (by obtain ⟨a, b⟩ := hc; omega) ht']
    rw [consumed_next', runesOf_map_ch]
    rfl
  | negSucc n =>
    obtain ⟨c, r, hcr, hc, hr, h0⟩ := natDigits_spec (n + 2) (n + 1) (by omega)
    simp only [Print.intStr, hcr]
    obtain ⟨p0, hp0, he0⟩ := ScanString.next_good 45 ('-').utf8Size (runesOf (c :: r) ++ tail) p
      (by decide) (by decide)
    have hp0' : next (runesOf ('-' :: c :: r) ++ tail) p = ((45 : Int), runesOf (c :: r) ++ tail, p0) := hp0
    rw [hp0']
    simp only []
    obtain ⟨p1, hp1, he1⟩ := ScanString.next_good c.toNat c.utf8Size (runesOf r ++ tail) p0
      (by obtain ⟨a, b⟩ := hc; omega) (by obtain ⟨a, b⟩ := hc; omega)
    have hp1' : next (runesOf (c :: r) ++ tail) p0 = ((c.toNat : Int), runesOf r ++ tail, p1) := hp1
    obtain ⟨q, hq, he⟩ := scanNumber_int [45] ht c.toNat hc r hr (fun h => (h0 h).1) p1 true
    refine ⟨q, fun F => ?_, by rw [he, he1, he0, hp]⟩
    have ht' : scanTok 45 (runesOf (c :: r) ++ tail) p0 = some (.int, next tail q) := by
      have a1 : isIdentRune 45 0 = false := by decide
      have a2 : isDecimal 45 = false := by decide
      simp only [scanTok, a1, a2, if_true, if_false, Bool.false_eq_true, hp1', digit_not_ident hc,
        digit_isDecimal hc, hq]
    rw [scan_of_scanTok F _ _ _ _ _ (by decide) (by decide) ht']
    have := consumed_next' 45 (runesOf (c :: r)) tail q
    rw [show ((45 : Nat) : Int) = 45 from rfl] at this
    rw [this, runesOf_map_ch]
    rfl

end LispModel.Proofs.PrintRead

/-
  C11 proofs, part 8: noninterference.  Every step of thread `t` in the concurrent system is matched by
  the same step in the solo system; steps of other threads leave the simulation relation untouched.
-/
import LispModel.Proofs.ConcEnvKey
namespace LispModel.Proofs.ConcEnv
open LispModel.ConcEnv
open LispModel.Conc (upd)

structure Sim (K : Nat → Bool) (t : Nat) (S Q : EState) : Prop where
  thr : Q.threads t = S.threads t
  view : ∀ sc, Own t sc → ViewEq K t sc (S.scopes sc) (Q.scopes sc)

theorem own_both {t u : Nat} {sc : Sid} (hu : u ≠ t) (h1 : Own t sc) (h2 : Own u sc) : sc = none := by
  rcases h1 with h1 | ⟨i, h1⟩
  · exact h1
  · rcases h2 with h2 | ⟨j, h2⟩
    · exact h2
    · rw [h1] at h2; cases h2; exact absurd rfl hu

/-- a step of another thread does not disturb the simulation -/
theorem sim_step_other {K : Nat → Bool} {t u : Nat} {S S' Q : EState} (hu : u ≠ t) (h : Sim K t S Q)
    (hP : PrivInv S) (hK : KeyInv K t S) (hL : LockInv S) (hs : step S u = some S') : Sim K t S' Q := by
  have hk := step_kind hs
  refine ⟨by rw [h.thr, step_other_thread hs (fun hh => hu hh.symm)], ?_⟩
  intro sc hown
  cases hk with
  | start op hc hsr hl => exact h.view sc hown
  | finish fr hc hr hd hm => exact h.view sc hown
  | alloc fr hc hnr hm => exact h.view sc hown
  | defer fr d sc0 ds hc hr hd =>
    by_cases hsc : sc = sc0
    · subst hsc
      simp only [updS_same]
      apply execDefer_other_view hu (h.view sc hown)
      intro hdu
      subst hdu
      have := hL.wr u sc
      rw [hc] at this
      simp only [heldWc, hd, List.count_cons_self] at this
      by_cases hx : (S.scopes sc).w = some u
      · exact hx
      · simp only [hx, if_false] at this; omega
    · simp only [updS_other _ _ hsc]; exact h.view sc hown
  | install fr hc hr hd hm =>
    by_cases hsc : sc = fr.newId
    · exfalso
      obtain ⟨-, -, c3⟩ := hP.cur u fr hc
      rcases c3 hm with ⟨-, c⟩ | ⟨i, c⟩
      · rw [hr] at c; cases c
      · rw [hsc, c] at hown
        rcases hown with hh | ⟨j, hh⟩
        · cases hh
        · cases hh; exact hu rfl
    · simp only [updS_other _ _ hsc]; exact h.view sc hown
  | mop fr m fr' A' hc hnr hm hna hex =>
    by_cases hsc : sc = fr.cur
    · have hroot : fr.cur = none := own_both hu (hsc ▸ hown) (hP.cur u fr hc).1
      have hscn : sc = none := hsc.trans hroot
      subst hscn
      have hex' : exec u m fr (S.scopes none) = some (fr', A') := by rw [← hroot]; exact hex
      have hupd : updS S.scopes fr.cur A' none = A' := by rw [hroot]; simp
      simp only [hupd]
      refine exec_other_view (h.view none hown) ?_ hex'
      intro hw
      have tab := forAllE_spec accTable_true hm
      have hwm : writeMethod fr.m = true := by
        rcases hw with hw | hw <;> subst hw <;>
          simp [accEntry, dataAccess] at tab <;> exact tab.1.2
      exact hK.others u fr hu hc hwm hroot
    · simp only [updS_other _ _ hsc]; exact h.view sc hown

/-- the same step of thread `t` is possible in the solo system and keeps the simulation -/
theorem sim_step_self {K : Nat → Bool} {t : Nat} {S S' Q : EState} (h : Sim K t S Q)
    (hP : PrivInv S) (hK : KeyInv K t S) (hs : step S t = some S') :
    ∃ Q', step Q t = some Q' ∧ Sim K t S' Q' := by
  have hk := step_kind hs
  have hthr := h.thr
  cases hk with
  | start op hc hsr hl =>
    have hown := hP.strat t _ op hsr
    have hlive : (Q.scopes op.scope).live = true := by rw [← (h.view _ hown).live]; exact hl
    refine ⟨_, step_start (by rw [hthr]; exact hc) (by rw [hthr]; exact hsr) hlive, ⟨by simp [upd, hthr], ?_⟩⟩
    intro sc hsc; exact h.view sc hsc
  | finish fr hc hr hd hm =>
    refine ⟨_, step_finish (by rw [hthr]; exact hc) hr hd hm, ⟨by simp [upd, hthr], ?_⟩⟩
    intro sc hsc; exact h.view sc hsc
  | alloc fr hc hnr hm =>
    refine ⟨_, step_alloc (by rw [hthr]; exact hc) hnr hm, ⟨by simp [upd, hthr], ?_⟩⟩
    intro sc hsc; exact h.view sc hsc
  | defer fr d sc0 ds hc hr hd =>
    refine ⟨_, step_defer (by rw [hthr]; exact hc) hr hd, ⟨by simp [upd, hthr], ?_⟩⟩
    intro sc hsc
    by_cases hs0 : sc = sc0
    · subst hs0; simp only [updS_same]; exact execDefer_view d (h.view sc hsc)
    · simp only [updS_other _ _ hs0]; exact h.view sc hsc
  | install fr hc hr hd hm =>
    refine ⟨_, step_install (by rw [hthr]; exact hc) hr hd hm, ⟨by simp [upd, hthr], ?_⟩⟩
    intro sc hsc
    by_cases hs0 : sc = fr.newId
    · subst hs0
      simp only [updS_same]
      obtain ⟨-, -, v3, v4⟩ := h.view _ hsc
      exact ⟨rfl, rfl, fun k _ => rfl, ⟨v4.wt, v4.wn, v4.rc, v4.rt⟩⟩
    · simp only [updS_other _ _ hs0]; exact h.view sc hsc
  | mop fr m fr' A' hc hnr hm hna hex =>
    obtain ⟨c1, -, -⟩ := hP.cur t fr hc
    have hv := h.view fr.cur c1
    have hkd : (dataAccess m).isSome = true → (S.scopes fr.cur).data fr.key = (Q.scopes fr.cur).data fr.key := by
      intro hda
      have tab := forAllE_spec accTable_true hm
      obtain ⟨w, hw⟩ := Option.isSome_iff_exists.mp hda
      simp only [accEntry, hw, Bool.and_eq_true, bne_iff_ne, ne_eq] at tab
      exact hv.data fr.key (fun _ => hK.mine fr hc tab.1.1.2)
    obtain ⟨B', hexB, hvB⟩ := exec_view hv hkd hex
    refine ⟨_, (step_mop (by rw [hthr]; exact hc) hnr hm hna).trans (by rw [hexB]; rfl), ⟨by simp [upd, hthr], ?_⟩⟩
    intro sc hsc
    by_cases hs0 : sc = fr.cur
    · subst hs0; simp only [updS_same]; exact hvB
    · simp only [updS_other _ _ hs0]; exact h.view sc hsc

/-- the solo system: the same root, only thread `t` (with its strategy) exists -/
def soloInit (strat : List ERes → Option EOp) (t : Nat) (vals : Nat → Option Nat) : EState :=
  { scopes := fun sc => if sc = none then { live := true, data := vals } else {},
    threads := fun u => if u = t then { strat := strat } else {} }

theorem ViewEq.refl (K : Nat → Bool) (t : Nat) (sc : Sid) (A : ScopeS) (hw : A.w = none) (hr : A.r = []) :
    ViewEq K t sc A A :=
  ⟨rfl, rfl, fun _ _ => rfl, ⟨fun h => h, Or.inl hw, fun _ => Nat.le_refl _, by rw [hr]; simp⟩⟩

theorem KeyInv.init {K : Nat → Bool} {t : Nat} {strats : List (List ERes → Option EOp)} (vals : Nat → Option Nat)
    (hk : KeysIn K (strats.getD t (fun _ => none)))
    (ho : ∀ u, u ≠ t → AvoidsWrites K (strats.getD u (fun _ => none))) : KeyInv K t (init strats vals) :=
  ⟨by intro fr hc; simp [ConcEnv.init] at hc, by intro u fr _ hc; simp [ConcEnv.init] at hc, hk, ho⟩

/-- noninterference, general form: along any schedule the solo system can follow thread `t`'s steps -/
theorem sim_run {K : Nat → Bool} {t : Nat} (sched : List Nat) :
    ∀ (S Q S' : EState), Sim K t S Q → PrivInv S → KeyInv K t S → LockInv S → run sched S = some S' →
      ∃ Q', run (sched.filter (· == t)) Q = some Q' ∧ Q'.threads t = S'.threads t := by
  induction sched with
  | nil => intro S Q S' h _ _ _ hr; simp [ConcEnv.run] at hr; subst hr; exact ⟨Q, rfl, h.thr⟩
  | cons u us ih =>
    intro S Q S' h hP hK hL hr
    simp only [ConcEnv.run, Option.bind_eq_some_iff] at hr
    obtain ⟨S1, h1, h2⟩ := hr
    by_cases hu : u = t
    · subst hu
      obtain ⟨Q1, hq, hsim⟩ := sim_step_self h hP hK h1
      obtain ⟨Q', hq', hthr⟩ := ih S1 Q1 S' hsim (hP.step h1) (hK.step h1) (hL.step h1) h2
      refine ⟨Q', ?_, hthr⟩
      simp only [List.filter_cons, beq_self_eq_true, if_true, ConcEnv.run, hq, Option.bind_some]
      exact hq'
    · have hsim := sim_step_other hu h hP hK hL h1
      obtain ⟨Q', hq', hthr⟩ := ih S1 Q S' hsim (hP.step h1) (hK.step h1) (hL.step h1) h2
      refine ⟨Q', ?_, hthr⟩
      have : (u == t) = false := by simpa using hu
      simp only [List.filter_cons, this, Bool.false_eq_true, if_false]
      exact hq'

/-- noninterference: if every evaluation only names the root and its own scopes, thread `t` uses only keys
    of `K`, and no other thread writes a key of `K` in the root, then along every interleaving thread
    `t`'s local state — in particular the sequence of results of its operations — is what the solo
    system reaches by running `t`'s own steps alone -/
theorem noninterference {K : Nat → Bool} {t : Nat} {strats : List (List ERes → Option EOp)}
    {vals : Nat → Option Nat} (hc : AllConfined strats)
    (hk : KeysIn K (strats.getD t (fun _ => none)))
    (ho : ∀ u, u ≠ t → AvoidsWrites K (strats.getD u (fun _ => none)))
    {sched : List Nat} {S : EState} (hr : run sched (init strats vals) = some S) :
    ∃ Q, run (sched.filter (· == t)) (soloInit (strats.getD t (fun _ => none)) t vals) = some Q ∧
      Q.threads t = S.threads t ∧ (Q.threads t).results = (S.threads t).results := by
  have hsim : Sim K t (init strats vals) (soloInit (strats.getD t (fun _ => none)) t vals) := by
    refine ⟨by simp [ConcEnv.init, soloInit], ?_⟩
    intro sc _
    simp only [ConcEnv.init, soloInit]
    split <;> exact ViewEq.refl K t sc _ rfl rfl
  obtain ⟨Q, h1, h2⟩ := sim_run sched _ _ S hsim (PrivInv.init vals hc) (KeyInv.init vals hk ho)
    (LockInv.init strats vals) hr
  exact ⟨Q, h1, h2, by rw [h2]⟩

end LispModel.Proofs.ConcEnv
